# sourced by every script
export VERIF_ROOT="${VERIF_ROOT:-$(cd "$(dirname "${BASH_SOURCE[0]}")/.." && pwd)}"
export VERIF_REPO="${VERIF_REPO:-/repo}"
export VERIF_BUILD="${VERIF_BUILD:-$VERIF_ROOT/build}"
# VERIF_OUT (optional): where evidence/ and replay/ are written instead of $VERIF_ROOT (used by bin/seedtest so that runs
# against a deliberately changed tree never overwrite the evidence of /repo itself)
export GOPROXY=off GOSUMDB=off GOTOOLCHAIN=local CGO_ENABLED=1 GOFLAGS=
export CARGO_NET_OFFLINE=true PIP_NO_INDEX=1
mkdir -p "$VERIF_BUILD" "$VERIF_ROOT/evidence" "$VERIF_ROOT/replay"
