// Command instr rewrites Go source files of the repository's daemons so that goroutine creation,
// channel operations, select, time and sync primitives go through the controlled scheduler
// (package zzverif/vsched).  Std-lib only.  It works by positional text edits computed from the AST,
// so everything it does not touch stays byte-identical.
//
//	go run instr.go <out-dir> <overlay-json> <file>...
//
// Every <file> (absolute path under the repository) is rewritten to <out-dir>/<flattened name> and an
// overlay fragment {"Replace": {<file>: <rewritten>}} is written.  Constructs it does not understand
// (range over a channel, time.After/Tick/NewTicker/NewTimer, sync.Cond, reflect.Select, variadic `go`
// calls, more than 8 arguments to a `go` call) are a loud error, never skipped silently.
package main

import (
	"encoding/json"
	"fmt"
	"go/ast"
	"go/parser"
	"go/token"
	"os"
	"path/filepath"
	"regexp"
	"sort"
	"strings"
)

const modPrefix = "github.com/bandprotocol/chain/v3/zzverif/"

type edit struct {
	start, end int
	text       string
}

type rewriter struct {
	fset      *token.FileSet
	file      *token.File
	src       []byte
	edits     []edit
	errs      []string
	nsel      int
	skip      map[ast.Node]bool
	skipDeep  map[ast.Node]bool
	chanNames map[string]bool // identifiers (variables, parameters, fields) declared in this file with a channel type
	usesV     bool
}

func (r *rewriter) off(p token.Pos) int { return r.file.Offset(p) }
func (r *rewriter) text(n ast.Node) string {
	return string(r.src[r.off(n.Pos()):r.off(n.End())])
}

var timeRe = regexp.MustCompile(`\btime\.(Now|Since|Sleep|After|Tick|NewTicker|NewTimer)\b`)

// ctext is text for the operands of a select case: the whole case header is replaced in one edit, so the time.* shims are
// substituted in the text and the walker does not descend into the operands.
func (r *rewriter) ctext(n ast.Node) string {
	r.skipDeep[n] = true
	return timeRe.ReplaceAllString(r.text(n), "vsched.$1")
}
func (r *rewriter) replace(s, e token.Pos, t string) {
	r.edits = append(r.edits, edit{r.off(s), r.off(e), t})
	r.usesV = true
}
func (r *rewriter) errorf(p token.Pos, f string, a ...any) {
	r.errs = append(r.errs, fmt.Sprintf("%s: %s", r.fset.Position(p), fmt.Sprintf(f, a...)))
}

func isArrow(e ast.Expr) (*ast.UnaryExpr, bool) {
	u, ok := e.(*ast.UnaryExpr)
	return u, ok && u.Op == token.ARROW
}

func (r *rewriter) visit(n ast.Node) bool {
	if n != nil && r.skipDeep[n] {
		return false
	}
	if n == nil || r.skip[n] {
		return true
	}
	switch x := n.(type) {
	case *ast.GoStmt:
		call := x.Call
		if call.Ellipsis.IsValid() {
			r.errorf(x.Pos(), "variadic go call not supported")
			return true
		}
		if len(call.Args) > 8 {
			r.errorf(x.Pos(), "go call with more than 8 arguments")
			return true
		}
		// go F(a, b)  =>  vsched.GoN(F, a, b)   (callee and arguments are evaluated here, as Go does)
		r.replace(x.Go, x.Go+2, fmt.Sprintf("vsched.Go%d(", len(call.Args)))
		if len(call.Args) == 0 {
			r.replace(call.Lparen, call.Lparen+1, "")
		} else {
			r.replace(call.Lparen, call.Lparen+1, ", ")
		}
	case *ast.SendStmt:
		// ch <- v  =>  vsched.Send(ch, v)
		r.replace(x.Pos(), x.Pos(), "vsched.Send(")
		r.replace(x.Arrow, x.Arrow+2, ",")
		r.replace(x.End(), x.End(), ")")
	case *ast.AssignStmt:
		if len(x.Lhs) == 2 && len(x.Rhs) == 1 {
			if u, ok := isArrow(x.Rhs[0]); ok {
				r.replace(u.OpPos, u.OpPos+2, "vsched.Recv2(")
				r.replace(u.End(), u.End(), ")")
				r.skip[u] = true
			}
		}
	case *ast.UnaryExpr:
		if x.Op == token.ARROW {
			r.replace(x.OpPos, x.OpPos+2, "vsched.Recv(")
			r.replace(x.End(), x.End(), ")")
		}
	case *ast.RangeStmt:
		// a range over a channel is recognised by the ranged identifier: declared in this file with a channel type or
		// assigned from make(chan ...), or named …ch, …chan, …channel
		rangedName, rangedText := "", ""
		switch rx := x.X.(type) {
		case *ast.Ident:
			rangedName, rangedText = rx.Name, rx.Name
		case *ast.SelectorExpr:
			if r.chanNames[rx.Sel.Name] {
				rangedName, rangedText = rx.Sel.Name, r.text(rx)
			}
		}
		if rangedName != "" {
			id := struct{ Name string }{rangedText}
			ln := strings.ToLower(rangedName)
			if r.chanNames[rangedName] || strings.HasSuffix(ln, "ch") || strings.HasSuffix(ln, "chan") || strings.HasSuffix(ln, "channel") {
				if x.Value != nil {
					r.errorf(x.Pos(), "range over channel with two variables")
					break
				}
				key := "_"
				if x.Key != nil {
					key = r.text(x.Key)
				}
				okv := fmt.Sprintf("__rok%d", r.nsel)
				r.nsel++
				if x.Tok == token.DEFINE || x.Key == nil {
					r.replace(x.For, x.Body.Lbrace+1, fmt.Sprintf("for { %s, %s := vsched.Recv2(%s); if !%s { break };", key, okv, id.Name, okv))
				} else {
					r.replace(x.For, x.Body.Lbrace+1, fmt.Sprintf("for { var %s bool; %s, %s = vsched.Recv2(%s); if !%s { break };", okv, key, okv, id.Name, okv))
				}
			}
		}
	case *ast.CallExpr:
		if id, ok := x.Fun.(*ast.Ident); ok && id.Name == "close" && id.Obj == nil && len(x.Args) == 1 {
			r.replace(id.Pos(), id.End(), "vsched.Close")
		}
	case *ast.SelectStmt:
		r.rewriteSelect(x)
	case *ast.SelectorExpr:
		if id, ok := x.X.(*ast.Ident); ok && id.Obj == nil {
			switch id.Name {
			case "time":
				switch x.Sel.Name {
				case "Now", "Since", "Sleep", "After", "Tick", "NewTicker", "NewTimer", "Ticker", "Timer":
					r.replace(id.Pos(), id.End(), "vsched")
				case "AfterFunc":
					r.errorf(x.Pos(), "time.%s is not supported by the instrumenter", x.Sel.Name)
				}
			case "sync":
				if x.Sel.Name == "Cond" || x.Sel.Name == "NewCond" || x.Sel.Name == "Pool" {
					r.errorf(x.Pos(), "sync.%s is not supported by the instrumenter", x.Sel.Name)
				}
			case "reflect":
				if x.Sel.Name == "Select" {
					r.errorf(x.Pos(), "reflect.Select is not supported by the instrumenter")
				}
			}
		}
	}
	return true
}

func (r *rewriter) rewriteSelect(s *ast.SelectStmt) {
	id := r.nsel
	r.nsel++
	var pro []string
	var names []string
	hasDefault := false
	idx := 0
	for _, c := range s.Body.List {
		cc := c.(*ast.CommClause)
		if cc.Comm == nil {
			hasDefault = true
			// "default:" stays
			continue
		}
		name := fmt.Sprintf("__sel%d_%d", id, idx)
		header := fmt.Sprintf("case %d:", idx)
		switch cm := cc.Comm.(type) {
		case *ast.SendStmt:
			pro = append(pro, fmt.Sprintf("%s := vsched.NewSend(%s, %s)", name, r.ctext(cm.Chan), r.ctext(cm.Value)))
			r.skip[cm] = true
		case *ast.ExprStmt:
			u, ok := isArrow(cm.X)
			if !ok {
				r.errorf(cm.Pos(), "unsupported select case")
				continue
			}
			pro = append(pro, fmt.Sprintf("%s := vsched.NewRecv(%s)", name, r.ctext(u.X)))
			r.skip[u] = true
		case *ast.AssignStmt:
			u, ok := isArrow(cm.Rhs[0])
			if !ok {
				r.errorf(cm.Pos(), "unsupported select case")
				continue
			}
			pro = append(pro, fmt.Sprintf("%s := vsched.NewRecv(%s)", name, r.ctext(u.X)))
			r.skip[u] = true
			r.skip[cm] = true
			op := cm.Tok.String()
			if len(cm.Lhs) == 1 {
				header += fmt.Sprintf(" %s %s %s.Val();", r.text(cm.Lhs[0]), op, name)
			} else {
				header += fmt.Sprintf(" %s, %s %s %s.Val(), %s.Ok();", r.text(cm.Lhs[0]), r.text(cm.Lhs[1]), op, name, name)
			}
			if cm.Tok == token.DEFINE {
				for _, l := range cm.Lhs {
					if lid, ok := l.(*ast.Ident); ok && lid.Name != "_" {
						header += fmt.Sprintf(" _ = %s;", lid.Name)
					}
				}
			}
		default:
			r.errorf(cc.Pos(), "unsupported select case")
			continue
		}
		names = append(names, name)
		r.replace(cc.Case, cc.Colon+1, header)
		idx++
	}
	args := fmt.Sprint(hasDefault)
	for _, n := range names {
		args += ", " + n
	}
	r.replace(s.Select, s.Body.Lbrace+1, strings.Join(pro, "; ")+"; switch vsched.Select("+args+") {")
}

// collectChanNames lists the names declared in the file with a channel type (var/param/field declarations) or assigned
// from make(chan ...).  Name-based and scope-insensitive, which is enough to recognise `for x := range jobs`.
func collectChanNames(f *ast.File) map[string]bool {
	out := map[string]bool{}
	isChanType := func(e ast.Expr) bool { _, ok := e.(*ast.ChanType); return ok }
	isMakeChan := func(e ast.Expr) bool {
		c, ok := e.(*ast.CallExpr)
		if !ok || len(c.Args) == 0 {
			return false
		}
		id, ok := c.Fun.(*ast.Ident)
		return ok && id.Name == "make" && isChanType(c.Args[0])
	}
	ast.Inspect(f, func(n ast.Node) bool {
		switch x := n.(type) {
		case *ast.Field:
			if isChanType(x.Type) {
				for _, nm := range x.Names {
					out[nm.Name] = true
				}
			}
		case *ast.ValueSpec:
			for i, nm := range x.Names {
				if (x.Type != nil && isChanType(x.Type)) || (i < len(x.Values) && isMakeChan(x.Values[i])) {
					out[nm.Name] = true
				}
			}
		case *ast.AssignStmt:
			for i, l := range x.Lhs {
				if id, ok := l.(*ast.Ident); ok && i < len(x.Rhs) && isMakeChan(x.Rhs[i]) {
					out[id.Name] = true
				}
			}
		}
		return true
	})
	return out
}

func process(path, out string) error {
	src, err := os.ReadFile(path)
	if err != nil {
		return err
	}
	fset := token.NewFileSet()
	f, err := parser.ParseFile(fset, path, src, parser.ParseComments)
	if err != nil {
		return err
	}
	r := &rewriter{fset: fset, file: fset.File(f.Pos()), src: src, skip: map[ast.Node]bool{}, skipDeep: map[ast.Node]bool{}, chanNames: collectChanNames(f)}
	// statements first (so that skip marks are set before their sub-expressions are visited)
	ast.Inspect(f, func(n ast.Node) bool {
		switch n.(type) {
		case *ast.SelectStmt, *ast.AssignStmt:
			r.visit(n)
			r.skip[n] = true
		}
		return true
	})
	ast.Inspect(f, r.visit)
	if len(r.errs) > 0 {
		return fmt.Errorf("instrumentation errors:\n  %s", strings.Join(r.errs, "\n  "))
	}
	// imports
	hasTime := false
	for _, im := range f.Imports {
		switch im.Path.Value {
		case `"sync"`:
			name := "sync "
			if im.Name != nil {
				name = ""
			}
			r.edits = append(r.edits, edit{r.off(im.Path.Pos()), r.off(im.Path.End()), name + `"` + modPrefix + `vsync"`})
		case `"sync/atomic"`:
			name := "atomic "
			if im.Name != nil {
				name = ""
			}
			r.edits = append(r.edits, edit{r.off(im.Path.Pos()), r.off(im.Path.End()), name + `"` + modPrefix + `vatomic"`})
		case `"time"`:
			hasTime = true
		}
	}
	// add the vsched import right after the package clause
	pkgEnd := r.off(f.Name.End())
	r.edits = append(r.edits, edit{pkgEnd, pkgEnd, "\n\nimport vsched \"" + modPrefix + "vsched\"\n"})
	tail := "\n// added by the /verif instrumenter\nvar _ = vsched.Yield\n"
	if hasTime {
		tail += "var _ = time.Now\n"
	}
	sort.SliceStable(r.edits, func(i, j int) bool {
		if r.edits[i].start != r.edits[j].start {
			return r.edits[i].start > r.edits[j].start
		}
		// at the same offset: insertions that close an inner construct come first in the output
		return r.edits[i].end > r.edits[j].end
	})
	// reject overlapping replacements
	for i := 1; i < len(r.edits); i++ {
		if r.edits[i].end > r.edits[i-1].start && r.edits[i].start != r.edits[i-1].start {
			return fmt.Errorf("%s: overlapping edits at offsets %d..%d and %d..%d", path, r.edits[i].start, r.edits[i].end, r.edits[i-1].start, r.edits[i-1].end)
		}
	}
	b := src
	for _, e := range r.edits {
		b = append(append(append([]byte{}, b[:e.start]...), e.text...), b[e.end:]...)
	}
	b = append(b, tail...)
	return os.WriteFile(out, b, 0o644)
}

func main() {
	if len(os.Args) < 4 {
		fmt.Fprintln(os.Stderr, "usage: instr <out-dir> <overlay-json> <file>...")
		os.Exit(2)
	}
	outDir, ovPath := os.Args[1], os.Args[2]
	if err := os.MkdirAll(outDir, 0o755); err != nil {
		fmt.Fprintln(os.Stderr, err)
		os.Exit(1)
	}
	rep := map[string]string{}
	for _, f := range os.Args[3:] {
		out := filepath.Join(outDir, strings.ReplaceAll(strings.TrimPrefix(f, "/"), "/", "__"))
		if err := process(f, out); err != nil {
			fmt.Fprintf(os.Stderr, "instr: %s: %v\n", f, err)
			os.Exit(1)
		}
		rep[f] = out
	}
	b, _ := json.MarshalIndent(map[string]any{"Replace": rep}, "", " ")
	if err := os.WriteFile(ovPath, b, 0o644); err != nil {
		fmt.Fprintln(os.Stderr, err)
		os.Exit(1)
	}
}
