// Command verifsched runs the gosched (controlled scheduler) checks.  Usage: verifsched <ID> quick|thorough | verifsched <ID> --replay <file>
package main

import (
	"encoding/json"
	"fmt"
	"os"

	"github.com/bandprotocol/chain/v3/zzverif/engine"
	_ "github.com/bandprotocol/chain/v3/zzverif/sched"
	"github.com/bandprotocol/chain/v3/zzverif/sched/c19"
)

func main() {
	if len(os.Args) < 3 {
		fmt.Println("usage: verifsched <ID> quick|thorough | verifsched <ID> --replay <file>; checks:", engine.IDs())
		os.Exit(2)
	}
	id := os.Args[1]
	c := engine.Lookup(id)
	if c == nil {
		fmt.Println("unknown check", id, "; have", engine.IDs())
		os.Exit(2)
	}
	defer engine.CleanupHomes()
	if os.Args[2] == "--replay" {
		if len(os.Args) < 4 || c.Replay == nil {
			fmt.Println("replay not available")
			os.Exit(2)
		}
		b, err := os.ReadFile(os.Args[3])
		if err != nil {
			fmt.Println(err)
			os.Exit(2)
		}
		var f struct {
			Config json.RawMessage `json:"config"`
			Path   []string        `json:"path"`
		}
		if err := json.Unmarshal(b, &f); err != nil {
			fmt.Println(err)
			os.Exit(2)
		}
		last, outs := c.Replay(f.Config, f.Path)
		for i, ev := range f.Path {
			o := ""
			if i < len(outs) {
				o = outs[i]
			}
			fmt.Printf("  %2d %-40s -> %s\n", i+1, ev, o)
		}
		engine.CleanupHomes()
		if len(last.Violations) > 0 {
			for _, v := range last.Violations {
				fmt.Printf("VIOLATION property=%s replay=%s\n  fingerprint: %s\n  detail: %s\n", id, os.Args[3], v.Fingerprint, v.Detail)
			}
			os.Exit(1)
		}
		fmt.Println("replay: no violation on this tree")
		os.Exit(0)
	}
	if os.Args[2] == "race" {
		// free-running pass of the harness bodies for a -race build (C19 only)
		ok, incomplete, problems := c19.RaceBodies(30)
		fmt.Printf("race-pass: runs=%d incomplete=%d oracle-problems=%d\n", ok, incomplete, len(problems))
		for _, p := range problems {
			fmt.Println("  ", p)
		}
		engine.CleanupHomes()
		if len(problems) > 0 {
			os.Exit(1)
		}
		os.Exit(0)
	}
	run := engine.NewRun(id, os.Args[2])
	c.Run(run)
	code := run.Finish()
	engine.CleanupHomes()
	os.Exit(code)
}
