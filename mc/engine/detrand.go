package engine

import (
	crand "crypto/rand"
	"crypto/sha256"
	"encoding/binary"
	"os"
	"strconv"
	"sync"
)

// detReader is a SHA-256 counter stream replacing crypto/rand.Reader, so that key material, DKG
// polynomials and nonces generated while building base states are identical in every process.
type detReader struct {
	mu   sync.Mutex
	seed uint64
	ctr  uint64
	buf  []byte
}

func (d *detReader) Read(p []byte) (int, error) {
	d.mu.Lock()
	defer d.mu.Unlock()
	n := 0
	for n < len(p) {
		if len(d.buf) == 0 {
			var b [16]byte
			binary.BigEndian.PutUint64(b[:8], d.seed)
			binary.BigEndian.PutUint64(b[8:], d.ctr)
			d.ctr++
			s := sha256.Sum256(b[:])
			d.buf = s[:]
		}
		c := copy(p[n:], d.buf)
		d.buf = d.buf[c:]
		n += c
	}
	return n, nil
}

var det = &detReader{}

// Seed returns VERIF_SEED (default 1).
func Seed() int64 {
	if s := os.Getenv("VERIF_SEED"); s != "" {
		if n, err := strconv.ParseInt(s, 10, 64); err == nil {
			return n
		}
	}
	return 1
}

func init() {
	det.seed = uint64(Seed())
	crand.Reader = det
}

// DetRandReset rewinds the deterministic randomness stream.
func DetRandReset() {
	det.mu.Lock()
	det.ctr = 0
	det.buf = nil
	det.mu.Unlock()
}

// DetRandResetTo rewinds the stream to a labelled sub-stream.
func DetRandResetTo(label uint64) {
	det.mu.Lock()
	det.ctr = label << 32
	det.buf = nil
	det.mu.Unlock()
}
