package engine

import (
	"sync"
	"sync/atomic"
	"time"
)

// The enum engine: bounded-exhaustive enumeration of inputs from explicit small alphabets, every
// tuple executed on the real function / handler and on an independent reference.

// Odometer enumerates the cartesian product of dimension sizes; index -> digits (dimension 0 is
// the fastest-moving digit so that "simplest first" orderings put simple values at index 0 of each dimension).
type Odometer struct {
	Sizes []int
}

// Total is the number of tuples.
func (o Odometer) Total() int64 {
	t := int64(1)
	for _, s := range o.Sizes {
		t *= int64(s)
	}
	return t
}

// Digits decodes idx.
func (o Odometer) Digits(idx int64, out []int) []int {
	out = out[:0]
	for _, s := range o.Sizes {
		out = append(out, int(idx%int64(s)))
		idx /= int64(s)
	}
	return out
}

// ParallelFor runs fn(worker, idx) for idx in [0,total) on `workers` goroutines (idx mod workers).
// It stops early (returning false) when deadline passes; every index below the returned
// `completedBelow` has been executed.
func ParallelFor(total int64, workers int, deadline time.Time, fn func(worker int, idx int64)) (complete bool) {
	if workers <= 0 {
		workers = DefaultWorkers()
	}
	var next int64
	var stop atomic.Bool
	var wg sync.WaitGroup
	const chunk = 64
	for w := 0; w < workers; w++ {
		wg.Add(1)
		go func(w int) {
			defer wg.Done()
			for {
				if stop.Load() {
					return
				}
				lo := atomic.AddInt64(&next, chunk) - chunk
				if lo >= total {
					return
				}
				hi := lo + chunk
				if hi > total {
					hi = total
				}
				for i := lo; i < hi; i++ {
					fn(w, i)
				}
				if !deadline.IsZero() && time.Now().After(deadline) {
					stop.Store(true)
					return
				}
			}
		}(w)
	}
	wg.Wait()
	return !stop.Load()
}

// Tally is a thread-safe accumulator for enum-style checks.
type Tally struct {
	mu       sync.Mutex
	Evals    int64
	distinct map[string]struct{}
	outcomes map[string]int
	samples  []any
	viol     []FoundViolation
}

// NewTally creates a Tally.
func NewTally() *Tally {
	return &Tally{distinct: map[string]struct{}{}, outcomes: map[string]int{}}
}

// Eval counts one evaluation.
func (t *Tally) Eval() { atomic.AddInt64(&t.Evals, 1) }

// Nontrivial records a distinct non-trivial case by its canonical key.
func (t *Tally) Nontrivial(key string) {
	t.mu.Lock()
	t.distinct[key] = struct{}{}
	t.mu.Unlock()
}

// Saw counts an outcome label.
func (t *Tally) Saw(o string) {
	t.mu.Lock()
	t.outcomes[o]++
	t.mu.Unlock()
}

// Sample keeps up to max samples.
func (t *Tally) Sample(max int, s any) {
	t.mu.Lock()
	if len(t.samples) < max {
		t.samples = append(t.samples, s)
	}
	t.mu.Unlock()
}

// Violate records a violation (capped at 256 kept).
func (t *Tally) Violate(cfg any, path []string, fp, detail string) {
	t.mu.Lock()
	if len(t.viol) < 256 {
		t.viol = append(t.viol, FoundViolation{Violation: Violation{Fingerprint: fp, Detail: detail}, Path: path, Config: cfg})
	}
	t.mu.Unlock()
}

// Violations returns the number of recorded violations.
func (t *Tally) Violations() int {
	t.mu.Lock()
	defer t.mu.Unlock()
	return len(t.viol)
}

// Found returns a copy of the recorded violations.
func (t *Tally) Found() []FoundViolation {
	t.mu.Lock()
	defer t.mu.Unlock()
	return append([]FoundViolation{}, t.viol...)
}

// MergeInto adds the tally to the run.
func (t *Tally) MergeInto(r *Run) {
	t.mu.Lock()
	defer t.mu.Unlock()
	r.Evaluations += int(t.Evals)
	r.Traces += int(t.Evals)
	r.Distinct += len(t.distinct)
	for k, v := range t.outcomes {
		r.Outcomes[k] += v
	}
	r.Samples = append(r.Samples, t.samples...)
	r.Violations = append(r.Violations, t.viol...)
}
