package engine

import (
	"strings"
	"time"

	sdkmath "cosmossdk.io/math"

	sdk "github.com/cosmos/cosmos-sdk/types"

	bandtsstypes "github.com/bandprotocol/chain/v3/x/bandtss/types"
	feedstypes "github.com/bandprotocol/chain/v3/x/feeds/types"
	oracletypes "github.com/bandprotocol/chain/v3/x/oracle/types"
	restaketypes "github.com/bandprotocol/chain/v3/x/restake/types"
	tsstypes "github.com/bandprotocol/chain/v3/x/tss/types"
	tunneltypes "github.com/bandprotocol/chain/v3/x/tunnel/types"
)

// Parameter ghosts: discarded executions that belong to no check's alphabet.  "~params.<module>.<up|down>" executes the
// module's MsgUpdateParams (real message server, authority = the governance account) with every numeric / coin / decimal
// parameter moved up (2x+1, quorum 1, percentage 100-x or 100) or down (half, at least 1, quorum 0.05) on a branch of the
// state that is thrown away — what x/gov does with a proposal whose later message fails.  Search executes all of them once
// at the root state on every worker (on an implementation that keeps its state in the stores that is a no-op by
// construction: the branch is never written back); DiagnoseGhost tries them as explanations.
var ParamGhosts = []string{
	"params.feeds.up", "params.feeds.down", "params.tunnel.up", "params.tunnel.down", "params.oracle.up", "params.oracle.down",
	"params.tss.up", "params.tss.down", "params.bandtss.up", "params.bandtss.down", "params.restake.up", "params.restake.down",
}

func isParamGhost(ev string) bool { return strings.HasPrefix(ev, "params.") }

func mvU(x uint64, up bool) uint64 {
	if up {
		return x*2 + 1
	}
	if x/2 < 1 {
		return 1
	}
	return x / 2
}

func mvI(x int64, up bool) int64 { return int64(mvU(uint64(x), up)) }

func mvPct(x uint64, up bool) uint64 {
	if up {
		if x >= 100 {
			return 50
		}
		return 100
	}
	if x == 0 {
		return 50
	}
	return 0
}

func mvD(x time.Duration, up bool) time.Duration { return time.Duration(mvU(uint64(x), up)) }

func mvCoins(cs sdk.Coins, up bool) sdk.Coins {
	out := sdk.NewCoins()
	for _, c := range cs {
		a := c.Amount
		if up {
			a = a.MulRaw(2).AddRaw(1)
		} else {
			a = a.AddRaw(1).QuoRaw(2)
		}
		out = out.Add(sdk.NewCoin(c.Denom, a))
	}
	if len(cs) == 0 && up {
		out = sdk.NewCoins(sdk.NewCoin("uband", sdkmath.NewInt(7)))
	}
	return out
}

// runParamGhost executes one parameter ghost on ctx (the caller discards ctx).  It reports whether the update was accepted.
func runParamGhost(w *World, ctx sdk.Context, name string) bool {
	parts := strings.Split(name, ".")
	if len(parts) != 3 {
		return false
	}
	up := parts[2] == "up"
	var msg sdk.Msg
	switch parts[1] {
	case "feeds":
		k := w.App.FeedsKeeper
		p := k.GetParams(ctx)
		p.AllowableBlockTimeDiscrepancy = mvI(p.AllowableBlockTimeDiscrepancy, up)
		p.GracePeriod = mvI(p.GracePeriod, up)
		p.MinInterval = mvI(p.MinInterval, up)
		p.MaxInterval = mvI(p.MaxInterval, up)
		p.PowerStepThreshold = mvI(p.PowerStepThreshold, up)
		p.MaxCurrentFeeds = mvU(p.MaxCurrentFeeds, up)
		p.CooldownTime = mvI(p.CooldownTime, up)
		p.MinDeviationBasisPoint = mvI(p.MinDeviationBasisPoint, up)
		p.MaxDeviationBasisPoint = mvI(p.MaxDeviationBasisPoint, up)
		p.CurrentFeedsUpdateInterval = mvI(p.CurrentFeedsUpdateInterval, up)
		p.MaxSignalIDsPerSigning = mvU(p.MaxSignalIDsPerSigning, up)
		if up {
			p.PriceQuorum = "1"
		} else {
			p.PriceQuorum = "0.05"
		}
		msg = feedstypes.NewMsgUpdateParams(k.GetAuthority(), p)
	case "tunnel":
		k := w.App.TunnelKeeper
		p := k.GetParams(ctx)
		p.MinDeposit = mvCoins(p.MinDeposit, up)
		p.MinInterval = mvU(p.MinInterval, up)
		p.MaxInterval = mvU(p.MaxInterval, up)
		p.MinDeviationBPS = mvU(p.MinDeviationBPS, up)
		p.MaxDeviationBPS = mvU(p.MaxDeviationBPS, up)
		p.MaxSignals = mvU(p.MaxSignals, up)
		p.BasePacketFee = mvCoins(p.BasePacketFee, up)
		msg = tunneltypes.NewMsgUpdateParams(k.GetAuthority(), p)
	case "oracle":
		k := w.App.OracleKeeper
		p := k.GetParams(ctx)
		p.MaxRawRequestCount = mvU(p.MaxRawRequestCount, up)
		p.MaxAskCount = mvU(p.MaxAskCount, up)
		p.MaxCalldataSize = mvU(p.MaxCalldataSize, up)
		p.MaxReportDataSize = mvU(p.MaxReportDataSize, up)
		p.ExpirationBlockCount = mvU(p.ExpirationBlockCount, up)
		p.BaseOwasmGas = mvU(p.BaseOwasmGas, up)
		p.PerValidatorRequestGas = mvU(p.PerValidatorRequestGas, up)
		p.SamplingTryCount = mvU(p.SamplingTryCount, up)
		p.OracleRewardPercentage = mvPct(p.OracleRewardPercentage, up)
		p.InactivePenaltyDuration = mvU(p.InactivePenaltyDuration, up)
		p.IBCRequestEnabled = !p.IBCRequestEnabled
		msg = oracletypes.NewMsgUpdateParams(k.GetAuthority(), p)
	case "tss":
		k := w.App.TSSKeeper
		p := k.GetParams(ctx)
		p.MaxGroupSize = mvU(p.MaxGroupSize, up)
		p.MaxDESize = mvU(p.MaxDESize, up)
		p.CreationPeriod = mvU(p.CreationPeriod, up)
		p.SigningPeriod = mvU(p.SigningPeriod, up)
		p.MaxSigningAttempt = mvU(p.MaxSigningAttempt, up)
		p.MaxMemoLength = mvU(p.MaxMemoLength, up)
		p.MaxMessageLength = mvU(p.MaxMessageLength, up)
		msg = tsstypes.NewMsgUpdateParams(k.GetAuthority(), p)
	case "bandtss":
		k := w.App.BandtssKeeper
		p := k.GetParams(ctx)
		p.RewardPercentage = mvPct(p.RewardPercentage, up)
		p.InactivePenaltyDuration = mvD(p.InactivePenaltyDuration, up)
		p.MinTransitionDuration = mvD(p.MinTransitionDuration, up)
		p.MaxTransitionDuration = mvD(p.MaxTransitionDuration, up)
		p.FeePerSigner = mvCoins(p.FeePerSigner, up)
		msg = bandtsstypes.NewMsgUpdateParams(k.GetAuthority(), p)
	case "restake":
		k := w.App.RestakeKeeper
		p := k.GetParams(ctx)
		if up {
			p.AllowedDenoms = append(append([]string{}, p.AllowedDenoms...), "ughost")
		} else if len(p.AllowedDenoms) > 0 {
			p.AllowedDenoms = append([]string{}, p.AllowedDenoms[:len(p.AllowedDenoms)-1]...)
		}
		msg = restaketypes.NewMsgUpdateParams(k.GetAuthority(), p)
	default:
		return false
	}
	return w.Tx(ctx, 0, msg).OK()
}
