package engine

import (
	"fmt"
	"os"
	"runtime"
	"sort"
	"strconv"
	"strings"
	"sync"
	"sync/atomic"
	"time"

	sdk "github.com/cosmos/cosmos-sdk/types"
)

// Model is the reference-model part of a state.  It is stepped in lock-step with the implementation.
type Model interface {
	Clone() Model
	Key() string // canonical form; part of the state key
}

// NoModel is a Model with no content.
type NoModel struct{}

func (NoModel) Clone() Model { return NoModel{} }
func (NoModel) Key() string  { return "" }

// Violation is one oracle failure.
type Violation struct {
	// Fingerprint identifies *what* fails (oracle clause + discriminating condition); it is what the
	// known-findings file is matched against.
	Fingerprint string `json:"fingerprint"`
	Detail      string `json:"detail"`
}

// StepResult is what a Spec reports for one transition.
type StepResult struct {
	Outcome    string // short observation label (accept/reject code, status reached ...)
	Outcomes   []string
	Violations []Violation
	Stop       bool // do not expand the child (terminal, or state after a violation)
}

func (s *StepResult) Violate(fp, format string, a ...any) {
	s.Violations = append(s.Violations, Violation{Fingerprint: fp, Detail: fmt.Sprintf(format, a...)})
	s.Stop = true
}

func (s *StepResult) Saw(o string) { s.Outcomes = append(s.Outcomes, o) }

// Spec is one configuration of one property check for the explicit-state engine.
type Spec interface {
	// Config is a JSON-serialisable description of the configuration (stored in replay files).
	Config() any
	// Build creates the base state on a fresh world from real handlers only.  It must be
	// deterministic.  The returned context must be a cache layer over w.Root (use Fork).
	Build(w *World) (sdk.Context, Model)
	// Enabled lists the events of the alphabet applicable in this state (cheap guards only).
	Enabled(w *World, ctx sdk.Context, m Model, depth int) []string
	// Step applies ev.  ctx is a fresh cache layer over the parent, m a fresh clone of the parent's
	// model (mutate it in place).  The returned context replaces ctx (header may have advanced).
	Step(w *World, ctx sdk.Context, m Model, ev string) (sdk.Context, StepResult)
}

// SearchOpts bounds one search.
type SearchOpts struct {
	Depth     int
	Workers   int
	KeyStores []string  // nil = all KV stores
	Deadline  time.Time // zero = none; hitting it ends the search with Exhaustive=false
	MaxViol   int       // stop after this many violating transitions (default 64)
	MaxStates int       // 0 = none; cap on states (Exhaustive=false when hit)
}

type pnode struct {
	parent *pnode
	ev     string
}

func (p *pnode) path() []string {
	var rev []string
	for q := p; q != nil; q = q.parent {
		rev = append(rev, q.ev)
	}
	for i, j := 0, len(rev)-1; i < j; i, j = i+1, j-1 {
		rev[i], rev[j] = rev[j], rev[i]
	}
	return rev
}

type node struct {
	ctx   sdk.Context
	m     Model
	p     *pnode
	owner int
	key   string
}

// FoundViolation is a violation together with the path that produced it.
type FoundViolation struct {
	Violation
	Path   []string `json:"path"`
	Config any      `json:"config"`
}

// SearchResult summarises one search.
type SearchResult struct {
	States      int
	Transitions int
	DedupHits   int
	Rebuilt     int
	PerLevel    []int
	MaxDepth    int
	Outcomes    map[string]int
	Violations  []FoundViolation
	Exhaustive  bool
	CapReason   string
	Samples     [][]string
	Halts       []FoundViolation // block-level halts (C02 material)
	// Nondet is set when replaying a recorded path on another worker's application gave a different state: the
	// implementation keeps state outside the stores (see DiagnoseGhost).  The search stops there.
	Nondet     string
	NondetPath []string
}

type worker struct {
	w    *World
	base sdk.Context
	m0   Model
}

var buildMu sync.Mutex

// DefaultWorkers returns the number of worker goroutines to use.
func DefaultWorkers() int {
	if s := os.Getenv("VERIF_WORKERS"); s != "" {
		if n, err := strconv.Atoi(s); err == nil && n > 0 {
			return n
		}
	}
	n := runtime.NumCPU()
	if n > 16 {
		n = 16
	}
	return n
}

// Search runs a breadth-first explicit-state search of spec to opts.Depth.
func Search(spec Spec, opts SearchOpts) SearchResult {
	if opts.Workers <= 0 {
		opts.Workers = DefaultWorkers()
	}
	if opts.MaxViol == 0 {
		opts.MaxViol = 64
	}
	res := SearchResult{Outcomes: map[string]int{}, Exhaustive: true}

	// Build one world per worker; bases are built one at a time under the deterministic
	// randomness stream so that all workers hold byte-identical base states.
	workers := make([]*worker, opts.Workers)
	var keys0 []string
	for i := range workers {
		buildMu.Lock()
		DetRandReset()
		w := NewWorld()
		ctx, m := spec.Build(w)
		buildMu.Unlock()
		workers[i] = &worker{w: w, base: ctx, m0: m}
		keys0 = append(keys0, w.HashStores(ctx, opts.KeyStores, []byte(m.Key())))
	}
	defer func() {
		for _, wk := range workers {
			wk.w.Close()
		}
	}()
	for i := 1; i < len(keys0); i++ {
		if keys0[i] != keys0[0] {
			Fatal3("HARNESS-NONDETERMINISM: base state of worker %d differs from worker 0 (%s vs %s)", i, keys0[i], keys0[0])
		}
	}

	// parameter ghosts: every module's MsgUpdateParams with other values, executed on a discarded branch of the root state
	// on every worker (see ghost.go) — a no-op unless the implementation keeps parameters outside the stores
	// (one direction per worker — even workers "up", odd workers "down" — because a second update would be computed from
	// what the keeper answers after the first; frontier nodes are spread over the workers at every level)
	for i, wk := range workers {
		for _, g := range ParamGhosts {
			if strings.HasSuffix(g, ".up") == (i%2 == 0) {
				StepEv(spec, wk.w, wk.base, wk.m0, GhostPrefix+g)
			}
		}
	}

	var seen sync.Map
	seen.Store(keys0[0], struct{}{})
	res.States = 1
	frontier := []*node{{ctx: workers[0].base, m: workers[0].m0, owner: 0, key: keys0[0]}}
	var transitions, dedup, rebuilt, nviol int64
	var mu sync.Mutex // protects res.Outcomes, res.Violations, res.Samples
	var capped atomic.Bool

	for depth := 0; depth < opts.Depth && len(frontier) > 0; depth++ {
		res.PerLevel = append(res.PerLevel, len(frontier))
		// Assign nodes to workers: keep owner where possible, move surplus.
		assign := balance(frontier, opts.Workers)
		nexts := make([][]*node, opts.Workers)
		var wg sync.WaitGroup
		for wi := 0; wi < opts.Workers; wi++ {
			wg.Add(1)
			go func(wi int) {
				defer wg.Done()
				wk := workers[wi]
				localOut := map[string]int{}
				defer func() {
					mu.Lock()
					for k, v := range localOut {
						res.Outcomes[k] += v
					}
					mu.Unlock()
				}()
				for _, n := range assign[wi] {
					if capped.Load() {
						return
					}
					if !opts.Deadline.IsZero() && time.Now().After(opts.Deadline) {
						capped.Store(true)
						mu.Lock()
						res.CapReason = "time cap"
						mu.Unlock()
						return
					}
					if n.owner != wi {
						ctx, m, key := rebuild(spec, wk, n.p.path(), opts.KeyStores)
						if key != n.key {
							mu.Lock()
							if res.Nondet == "" {
								res.Nondet = fmt.Sprintf("replaying %v on worker %d gives key %s, recorded %s", n.p.path(), wi, key, n.key)
								res.NondetPath = n.p.path()
								res.CapReason = "state depends on something outside the stores"
							}
							mu.Unlock()
							capped.Store(true)
							return
						}
						n.ctx, n.m, n.owner = ctx, m, wi
						atomic.AddInt64(&rebuilt, 1)
					}
					for _, ev := range spec.Enabled(wk.w, n.ctx, n.m, depth) {
						child := Fork(n.ctx)
						cm := n.m.Clone()
						ctx2, st := spec.Step(wk.w, child, cm, ev)
						atomic.AddInt64(&transitions, 1)
						if st.Outcome != "" {
							localOut[st.Outcome]++
						}
						for _, o := range st.Outcomes {
							localOut[o]++
						}
						cp := &pnode{parent: n.p, ev: ev}
						if len(st.Violations) > 0 {
							mu.Lock()
							for _, v := range st.Violations {
								res.Violations = append(res.Violations, FoundViolation{Violation: v, Path: cp.path(), Config: spec.Config()})
							}
							mu.Unlock()
							if atomic.AddInt64(&nviol, 1) >= int64(opts.MaxViol) {
								capped.Store(true)
								mu.Lock()
								res.CapReason = "violation cap"
								mu.Unlock()
							}
						}
						if st.Stop {
							continue
						}
						key := wk.w.HashStores(ctx2, opts.KeyStores, []byte(cm.Key()))
						if _, dup := seen.LoadOrStore(key, struct{}{}); dup {
							atomic.AddInt64(&dedup, 1)
							continue
						}
						nexts[wi] = append(nexts[wi], &node{ctx: ctx2, m: cm, p: cp, owner: wi, key: key})
					}
					// the parent's own layer is no longer needed by this node record
					n.m = nil
				}
			}(wi)
		}
		wg.Wait()
		var next []*node
		for _, l := range nexts {
			next = append(next, l...)
		}
		res.States += len(next)
		if len(next) > 0 {
			res.MaxDepth = depth + 1
		}
		// samples: first path of each of the first levels and a few of the deepest level
		if len(next) > 0 && len(res.Samples) < 12 {
			res.Samples = append(res.Samples, next[0].p.path())
			if len(next) > 1 {
				res.Samples = append(res.Samples, next[len(next)-1].p.path())
			}
		}
		frontier = next
		if capped.Load() {
			res.Exhaustive = false
			break
		}
		if opts.MaxStates > 0 && res.States > opts.MaxStates {
			res.Exhaustive = false
			res.CapReason = "state cap"
			break
		}
	}
	if len(frontier) > 0 && res.MaxDepth >= opts.Depth {
		// depth bound reached with unexpanded states: the search is exhaustive *to the bound*.
		res.PerLevel = append(res.PerLevel, len(frontier))
	}
	res.Transitions = int(transitions)
	res.DedupHits = int(dedup)
	res.Rebuilt = int(rebuilt)
	// shortest first
	sort.SliceStable(res.Violations, func(i, j int) bool {
		if len(res.Violations[i].Path) != len(res.Violations[j].Path) {
			return len(res.Violations[i].Path) < len(res.Violations[j].Path)
		}
		return fmt.Sprint(res.Violations[i].Path) < fmt.Sprint(res.Violations[j].Path)
	})
	return res
}

// balance distributes the frontier over workers, keeping nodes with their owner unless that
// worker holds more than its share.
func balance(frontier []*node, nw int) [][]*node {
	assign := make([][]*node, nw)
	share := (len(frontier) + nw - 1) / nw
	var surplus []*node
	for _, n := range frontier {
		if len(assign[n.owner]) < share {
			assign[n.owner] = append(assign[n.owner], n)
		} else {
			surplus = append(surplus, n)
		}
	}
	wi := 0
	for _, n := range surplus {
		for len(assign[wi]) >= share {
			wi++
		}
		assign[wi] = append(assign[wi], n)
	}
	return assign
}

func rebuild(spec Spec, wk *worker, path []string, keyStores []string) (sdk.Context, Model, string) {
	ctx, m := wk.base, wk.m0
	for _, ev := range path {
		c := Fork(ctx)
		cm := m.Clone()
		c2, _ := StepEv(spec, wk.w, c, cm, ev)
		ctx, m = c2, cm
	}
	return ctx, m, wk.w.HashStores(ctx, keyStores, []byte(m.Key()))
}

// GhostPrefix marks a *discarded execution* in a path: the event is executed by the real handlers on a branch of the
// state that is then thrown away together with the reference model's copy — what the chain does with a transaction whose
// later message fails, with an out-of-gas abort after the handler, and with every gas simulation.  On an implementation
// that keeps all its state in the stores a ghost is a no-op; paths with ghosts are produced only by DiagnoseGhost.
const GhostPrefix = "~"

// StepEv is Spec.Step plus the ghost rule.
func StepEv(spec Spec, w *World, ctx sdk.Context, m Model, ev string) (sdk.Context, StepResult) {
	if !strings.HasPrefix(ev, GhostPrefix) {
		return spec.Step(w, ctx, m, ev)
	}
	out := "ghost"
	func() {
		defer func() {
			if r := recover(); r != nil {
				out = "ghost-panic"
			}
		}()
		if name := ev[len(GhostPrefix):]; isParamGhost(name) {
			if !runParamGhost(w, Fork(ctx), name) {
				out = "ghost-rejected"
			}
			return
		}
		g, _ := spec.Step(w, Fork(ctx), m.Clone(), ev[len(GhostPrefix):])
		if g.BlockHeight() != ctx.BlockHeight() || !g.BlockTime().Equal(ctx.BlockTime()) {
			out = "ghost-block" // a block boundary cannot be rolled back: not a legal ghost
		}
	}()
	return ctx, StepResult{Outcome: out}
}

// Replay executes path on a fresh world and returns the violations of the last step and the
// outcome labels of every step.
func Replay(spec Spec, path []string) (last StepResult, outcomes []string, finalKey string) {
	all, outcomes, finalKey, _ := replayAll(spec, path, false)
	if len(all) > 0 {
		last = all[len(all)-1]
	}
	return last, outcomes, finalKey
}

// replayAll executes path on a fresh world and returns every step's result; with wantEnabled it also returns the
// events enabled in the final state.
func replayAll(spec Spec, path []string, wantEnabled bool) (all []StepResult, outcomes []string, finalKey string, enabled []string) {
	buildMu.Lock()
	DetRandReset()
	w := NewWorld()
	ctx, m := spec.Build(w)
	buildMu.Unlock()
	defer w.Close()
	for _, ev := range path {
		c := Fork(ctx)
		cm := m.Clone()
		c2, st := StepEv(spec, w, c, cm, ev)
		ctx, m = c2, cm
		all = append(all, st)
		outcomes = append(outcomes, st.Outcome)
	}
	if wantEnabled {
		enabled = spec.Enabled(w, ctx, m, len(path))
	}
	return all, outcomes, w.HashStores(ctx, nil, []byte(m.Key())), enabled
}

// DiagnoseGhost explains a behaviour that the branching search observed but that a plain replay of the same path on a
// fresh application does not show.  The search executes sibling transitions on branches of one application and discards
// them; that is invisible to an implementation whose state lives in the stores, so the only explanation is state kept
// outside them (a keeper field, a package variable) which a discarded execution changed.  The diagnosis looks for the
// smallest witness: the recorded path with ONE discarded execution inserted (latest position first), replayed on a fresh
// application, on which the property's own monitors report a violation; with lookahead, one further enabled event is
// appended when the ghost changes the state without a monitor firing yet.  Every candidate is a complete fresh replay, so
// the witness is reproducible; nil means none was found within the budget.
func DiagnoseGhost(spec Spec, path []string, wantFP string, lookahead bool, budget int, deadline time.Time) (witness []string, viol Violation) {
	// firstViol returns the wanted violation (any violation when wantFP is empty) and the number of steps up to it
	firstViol := func(all []StepResult) (Violation, int, bool) {
		for j, st := range all {
			for _, v := range st.Violations {
				if v.Fingerprint == wantFP || wantFP == "" {
					return v, j + 1, true
				}
			}
		}
		return Violation{}, 0, false
	}
	var plainKey string
	if lookahead {
		_, _, plainKey, _ = replayAll(spec, path, false)
	}
	var fallback []string
	var fallbackV Violation
	for i := len(path); i >= 0 && budget > 0; i-- {
		if i == len(path) && !lookahead {
			continue
		}
		_, _, _, cands := replayAll(spec, path[:i], true)
		budget--
		if i == 0 || i >= len(path)-1 {
			cands = append(cands, ParamGhosts...) // Search executes them at the root
		}
		for _, g := range cands {
			if budget <= 0 || (!deadline.IsZero() && time.Now().After(deadline)) {
				break
			}
			p := append(append(append([]string{}, path[:i]...), GhostPrefix+g), path[i:]...)
			all, outs, key, en := replayAll(spec, p, lookahead)
			budget--
			if outs[i] != "ghost" {
				continue
			}
			if v, n, ok := firstViol(all); ok && n > i {
				return p[:n], v
			}
			if wantFP != "" && fallback == nil { // a different clause of the same property fires: keep as second choice
				for j, st := range all {
					if len(st.Violations) > 0 && j >= i && fallback == nil {
						fallback, fallbackV = p[:j+1], st.Violations[0]
					}
				}
			}
			if lookahead && key != plainKey {
				for _, e := range en {
					if budget <= 0 {
						break
					}
					p2 := append(append([]string{}, p...), e)
					all2, _, _, _ := replayAll(spec, p2, false)
					budget--
					if len(all2) > 0 && len(all2[len(all2)-1].Violations) > 0 {
						return p2, all2[len(all2)-1].Violations[0]
					}
				}
			}
		}
	}
	return fallback, fallbackV
}

// Fatal3 reports an internal harness error (never a violation) and exits with status 3.
func Fatal3(format string, a ...any) {
	fmt.Fprintf(os.Stdout, "HARNESS-ERROR: "+format+"\n", a...)
	CleanupHomes()
	os.Exit(3)
}
