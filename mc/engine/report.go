package engine

import (
	"bufio"
	"encoding/json"
	"fmt"
	"os"
	"path/filepath"
	"sort"
	"strings"
	"time"
)

// VerifRoot is the /verif directory (or the snapshot it runs from).
func VerifRoot() string {
	if d := os.Getenv("VERIF_ROOT"); d != "" {
		return d
	}
	return "/verif"
}

// OutRoot is where evidence/ and replay/ are written: VERIF_OUT if set (seeded-change runs), else VerifRoot().
func OutRoot() string {
	if d := os.Getenv("VERIF_OUT"); d != "" {
		return d
	}
	return VerifRoot()
}

// Run is the per-invocation context handed to a property check.
type Run struct {
	Property string
	Tier     string // "quick" | "thorough"
	Level    string // evidence level: "model_checking" | "exploration"
	start    time.Time

	States      int
	Transitions int
	Traces      int // executions of the implementation (explored paths / tuples)
	Evaluations int
	Distinct    int // distinct non-trivial cases (by Rule)
	Rule        string
	Bound       string
	Exhaustive  bool
	CapReasons  []string
	Outcomes    map[string]int
	Samples     []any
	Assumptions []string
	Configs     []map[string]any
	Violations  []FoundViolation
	Required    []string // outcome labels that must be observed (vacuity guard)
	Notes       []string
	Replayers   map[string]func(cfg json.RawMessage, path []string) (StepResult, error)
	nondet      []nondetRec
}

type nondetRec struct {
	msg  string
	path []string
	cfg  any
}

// NewRun creates the run context.
func NewRun(property, tier string) *Run {
	return &Run{Property: property, Tier: tier, Level: "model_checking", start: time.Now(),
		Exhaustive: true, Outcomes: map[string]int{}}
}

// Quick reports whether this is the quick tier.
func (r *Run) Quick() bool { return r.Tier != "thorough" }

// Deadline returns the internal wall-clock cap for the whole run, measured from start.
func (r *Run) Deadline(quick, thorough time.Duration) time.Time {
	if r.Quick() {
		return r.start.Add(quick)
	}
	return r.start.Add(thorough)
}

// SliceDeadline splits the run's internal time cap over n configurations: configuration i (0-based) may run until
// now + (time left until the overall cap) / (configurations left), so that a slow machine thins every search instead of
// starving the last ones.
func (r *Run) SliceDeadline(i, n int, quick, thorough time.Duration) time.Time {
	end := r.Deadline(quick, thorough)
	left := time.Until(end)
	if left < 0 {
		left = 0
	}
	rem := n - i
	if rem < 1 {
		rem = 1
	}
	return time.Now().Add(left / time.Duration(rem))
}

// AddSearch merges a search result into the run.
func (r *Run) AddSearch(name string, cfg any, sr SearchResult) {
	r.States += sr.States
	r.Transitions += sr.Transitions
	r.Traces += sr.Transitions
	r.Evaluations += sr.Transitions
	for k, v := range sr.Outcomes {
		r.Outcomes[k] += v
	}
	if !sr.Exhaustive {
		r.Exhaustive = false
		r.CapReasons = append(r.CapReasons, name+": "+sr.CapReason)
	}
	for i, s := range sr.Samples {
		if i < 4 && len(r.Samples) < 24 {
			r.Samples = append(r.Samples, map[string]any{"config": name, "path": s})
		}
	}
	r.Configs = append(r.Configs, map[string]any{
		"name": name, "config": cfg, "states": sr.States, "transitions": sr.Transitions,
		"dedup_hits": sr.DedupHits, "per_level": sr.PerLevel, "max_depth": sr.MaxDepth,
		"exhaustive": sr.Exhaustive, "rebuilt_by_replay": sr.Rebuilt,
	})
	r.Violations = append(r.Violations, sr.Violations...)
	if sr.Nondet != "" {
		r.nondet = append(r.nondet, nondetRec{msg: name + ": " + sr.Nondet, path: sr.NondetPath, cfg: cfg})
	}
	fmt.Printf("[%s] %s: states=%d transitions=%d dedup=%d max_depth=%d per_level=%v exhaustive=%v violations=%d (%.1fs)\n",
		r.Property, name, sr.States, sr.Transitions, sr.DedupHits, sr.MaxDepth, sr.PerLevel, sr.Exhaustive, len(sr.Violations), time.Since(r.start).Seconds())
}

// Violate records a violation found outside a search (enum engine).
func (r *Run) Violate(cfg any, path []string, fp, format string, a ...any) {
	r.Violations = append(r.Violations, FoundViolation{
		Violation: Violation{Fingerprint: fp, Detail: fmt.Sprintf(format, a...)}, Path: path, Config: cfg})
}

type finding struct {
	Status      string `json:"status"` // "known" | "fixed"
	Property    string `json:"property"`
	Fingerprint string `json:"fingerprint"`
	What        string `json:"what"`
	Commit      string `json:"commit,omitempty"`
}

func loadFindings() []finding {
	f, err := os.Open(filepath.Join(VerifRoot(), "known_findings.jsonl"))
	if err != nil {
		return nil
	}
	defer f.Close()
	var out []finding
	sc := bufio.NewScanner(f)
	sc.Buffer(make([]byte, 1<<20), 1<<20)
	for sc.Scan() {
		line := strings.TrimSpace(sc.Text())
		if line == "" || strings.HasPrefix(line, "#") {
			continue
		}
		var fd finding
		if json.Unmarshal([]byte(line), &fd) == nil {
			out = append(out, fd)
		}
	}
	return out
}

// Finish writes the evidence file, prints VIOLATION / KNOWN-FINDING lines and returns the exit code.
func (r *Run) Finish() int {
	wall := time.Since(r.start).Seconds()
	known := map[string]finding{}
	for _, f := range loadFindings() {
		if f.Status == "known" && f.Property == r.Property {
			known[f.Fingerprint] = f
		}
	}
	// group violations by fingerprint, keep the shortest path of each
	byFP := map[string]FoundViolation{}
	count := map[string]int{}
	var order []string
	for _, v := range r.Violations {
		count[v.Fingerprint]++
		old, ok := byFP[v.Fingerprint]
		if !ok {
			order = append(order, v.Fingerprint)
		}
		if !ok || len(v.Path) < len(old.Path) {
			byFP[v.Fingerprint] = v
		}
	}
	sort.Strings(order)
	newViol := 0
	knownSeen := 0
	_ = os.MkdirAll(filepath.Join(OutRoot(), "replay"), 0o755)
	for i, fp := range order {
		v := byFP[fp]
		if kf, ok := known[fp]; ok {
			fmt.Printf("KNOWN-FINDING: property=%s %s [%s] (%d occurrences this run)\n", r.Property, kf.What, fp, count[fp])
			knownSeen++
			continue
		}
		newViol++
		file := filepath.Join(OutRoot(), "replay", fmt.Sprintf("%s-%d.json", r.Property, i+1))
		b, _ := json.MarshalIndent(map[string]any{
			"property": r.Property, "tier": r.Tier, "seed": Seed(), "config": v.Config, "path": v.Path,
			"fingerprint": v.Fingerprint, "detail": v.Detail, "occurrences": count[fp],
		}, "", " ")
		_ = os.WriteFile(file, b, 0o644)
		fmt.Printf("VIOLATION property=%s replay=%s\n  fingerprint: %s\n  path: %v\n  detail: %s\n", r.Property, file, v.Fingerprint, v.Path, v.Detail)
	}
	var missing []string
	for _, req := range r.Required {
		if r.Outcomes[req] == 0 {
			missing = append(missing, req)
		}
	}
	distinctOutcomes := len(r.Outcomes)
	if r.Distinct == 0 {
		r.Distinct = r.States
	}
	if r.Evaluations == 0 {
		r.Evaluations = r.Transitions
	}
	if r.Rule == "" {
		r.Rule = "explicit-state search over the real keepers; a case is one transition (state, event); distinct_nontrivial counts distinct reachable states (store-content hash + reference-model state) other than duplicates"
	}
	if len(r.Samples) == 0 {
		r.Samples = []any{"(no samples)"}
	}
	cov := map[string]any{
		"states": r.States, "transitions": r.Transitions, "traces_validated_against_impl": r.Traces,
		"evaluations": r.Evaluations, "distinct_nontrivial": r.Distinct, "rule": r.Rule,
		"samples": r.Samples, "exhaustive": r.Exhaustive, "bound": r.Bound,
		"distinct_outcomes": distinctOutcomes, "outcomes": r.Outcomes, "configs": r.Configs,
		"cap_reasons": r.CapReasons, "vacuity_missing": missing, "known_findings_seen": knownSeen,
		"notes": r.Notes,
	}
	ev := map[string]any{
		"property_id": r.Property, "tier": r.Tier, "seed": Seed(), "level": r.Level,
		"coverage": cov, "assumptions": r.Assumptions, "wall_s": wall, "violations": newViol,
	}
	if r.Assumptions == nil {
		ev["assumptions"] = []string{}
	}
	b, _ := json.MarshalIndent(ev, "", " ")
	_ = os.MkdirAll(filepath.Join(OutRoot(), "evidence"), 0o755)
	if err := os.WriteFile(filepath.Join(OutRoot(), "evidence", r.Property+".json"), b, 0o644); err != nil {
		fmt.Printf("HARNESS-ERROR: cannot write evidence: %v\n", err)
		return 3
	}
	fmt.Printf("[%s] %s: states=%d transitions=%d evaluations=%d distinct=%d outcomes=%d exhaustive=%v violations=%d known=%d wall=%.1fs\n",
		r.Property, r.Tier, r.States, r.Transitions, r.Evaluations, r.Distinct, distinctOutcomes, r.Exhaustive, newViol, knownSeen, wall)
	if newViol > 0 {
		return 1
	}
	if len(r.nondet) > 0 {
		fmt.Printf("HARNESS-ERROR: HARNESS-NONDETERMINISM: %s (no violation of the property's monitors could be reproduced with a single discarded execution)\n", r.nondet[0].msg)
		return 3
	}
	if len(missing) > 0 {
		if !r.Exhaustive {
			// an internal cap ended the run early: not having reached every outcome is then expected, never a failure
			fmt.Printf("note: run was cut by an internal cap; outcomes not observed: %v\n", missing)
			return 0
		}
		fmt.Printf("HARNESS-ERROR: vacuity guard: outcomes never observed: %v\n", missing)
		return 3
	}
	return 0
}

// Check is a registered property check.
type Check struct {
	ID  string
	Run func(r *Run)
	// Replay re-executes one stored counterexample; returns the violations of its last step.
	Replay func(cfg json.RawMessage, path []string) (StepResult, []string)
}

var registry = map[string]*Check{}

// Register adds a check to the binary.
func Register(c *Check) { registry[c.ID] = c }

// Lookup finds a registered check.
func Lookup(id string) *Check { return registry[id] }

// IDs lists registered checks.
func IDs() []string {
	var out []string
	for k := range registry {
		out = append(out, k)
	}
	sort.Strings(out)
	return out
}

// ConfirmViolations re-executes the shortest path of every distinct fingerprint twice on fresh
// worlds and requires the same fingerprint both times.  A violation that does not reproduce, and a search that stopped
// because a replayed path gave a different state, go to DiagnoseGhost: if the path plus one discarded execution
// reproduces a monitor violation on fresh applications (twice), that witness replaces the unreproducible record;
// otherwise the divergence is a harness error (exit 3), never a violation.
func (r *Run) ConfirmViolations(mk func(cfg any) Spec) {
	seen := map[string]bool{}
	deadline := time.Now().Add(6 * time.Minute)
	var confirmed []FoundViolation
	drop := map[string]bool{}
	var unreproduced []FoundViolation
	for _, v := range r.Violations {
		if seen[v.Fingerprint] {
			continue
		}
		seen[v.Fingerprint] = true
		if len(seen) > 8 {
			break
		}
		sp := mk(v.Config)
		if sp == nil {
			continue // violation found by another engine of the same check (confirmed there)
		}
		ok := true
		for k := 0; k < 2 && ok; k++ {
			last, _, _ := Replay(sp, v.Path)
			found := false
			for _, lv := range last.Violations {
				if lv.Fingerprint == v.Fingerprint {
					found = true
				}
			}
			if !found {
				if k == 1 {
					Fatal3("HARNESS-NONDETERMINISM: violation %q on path %v reproduced on the first replay but not on the second", v.Fingerprint, v.Path)
				}
				ok = false
			}
		}
		if ok {
			continue
		}
		drop[v.Fingerprint] = true
		unreproduced = append(unreproduced, v)
		if len(confirmed) > 0 {
			continue // one reproducible witness is enough; the other unreproducible records are consequences
		}
		if w, gv := r.ghostWitness(sp, v.Path, v.Fingerprint, false, deadline); w != nil {
			confirmed = append(confirmed, FoundViolation{Violation: gv, Path: w, Config: v.Config})
		}
	}
	if len(confirmed) == 0 {
		for _, nd := range r.nondet {
			sp := mk(nd.cfg)
			if sp == nil {
				continue
			}
			if w, gv := r.ghostWitness(sp, nd.path, "", true, deadline); w != nil {
				confirmed = append(confirmed, FoundViolation{Violation: gv, Path: w, Config: nd.cfg})
				break
			}
		}
	}
	if len(unreproduced) > 0 && len(confirmed) == 0 {
		v := unreproduced[0]
		Fatal3("HARNESS-NONDETERMINISM: violation %q on path %v did not reproduce on replay, and no single discarded execution explains it", v.Fingerprint, v.Path)
	}
	if len(drop) > 0 || len(confirmed) > 0 {
		var keep []FoundViolation
		for _, v := range r.Violations {
			if !drop[v.Fingerprint] {
				keep = append(keep, v)
			}
		}
		r.Violations = append(keep, confirmed...)
		if len(confirmed) > 0 {
			r.nondet = nil // explained by the witness
		}
	}
}

// ghostWitness runs DiagnoseGhost and confirms the witness by a second fresh replay.
func (r *Run) ghostWitness(sp Spec, path []string, fp string, lookahead bool, deadline time.Time) ([]string, Violation) {
	w, gv := DiagnoseGhost(sp, path, fp, lookahead, 400, deadline)
	if w == nil {
		return nil, Violation{}
	}
	all, _, _, _ := replayAll(sp, w, false)
	if len(all) > 0 {
		for _, v := range all[len(all)-1].Violations {
			if v.Fingerprint == gv.Fingerprint {
				gv.Detail += fmt.Sprintf(" [witness contains a discarded execution (%q events): a transaction executed on a branch of the state that is thrown away — failing later message, out-of-gas after the handler, gas simulation — still changed later behaviour, so the implementation keeps state outside the stores]", GhostPrefix)
				r.Notes = append(r.Notes, fmt.Sprintf("the branching search observed %q-class behaviour that a plain replay does not show; explained and reproduced by the discarded-execution witness %v", gv.Fingerprint, w))
				return w, gv
			}
		}
	}
	return nil, Violation{}
}
