// Package engine is the shared machinery of the /verif model checker.  It is compiled *into* the
// repository module by `go build -overlay` (virtual path /repo/zzverif/engine) so that it links
// against /repo's current working tree.
package engine

import (
	"crypto/sha256"
	"encoding/binary"
	"encoding/hex"
	"fmt"
	"math/rand"
	"os"
	"path/filepath"
	"runtime/debug"
	"sort"
	"strings"
	"sync/atomic"
	"time"

	abci "github.com/cometbft/cometbft/abci/types"
	cmtproto "github.com/cometbft/cometbft/proto/tendermint/types"

	coreheader "cosmossdk.io/core/header"
	errorsmod "cosmossdk.io/errors"
	storetypes "cosmossdk.io/store/types"

	sdk "github.com/cosmos/cosmos-sdk/types"

	band "github.com/bandprotocol/chain/v3/app"
	bandtesting "github.com/bandprotocol/chain/v3/testing"
)

// GenesisTime is the block time of block 1 in every world.
var GenesisTime = time.Unix(1_700_000_000, 0).UTC()

// ChainID used by every world.
const ChainID = bandtesting.ChainID

func init() {
	// bandtesting seeds its accounts from time.Now(); replace them by fixed ones so that every
	// process and every worker builds byte-identical genesis states.
	r := rand.New(rand.NewSource(20260926))
	bandtesting.Owner = bandtesting.CreateArbitraryAccount(r)
	bandtesting.Treasury = bandtesting.CreateArbitraryAccount(r)
	bandtesting.FeePayer = bandtesting.CreateArbitraryAccount(r)
	bandtesting.Alice = bandtesting.CreateArbitraryAccount(r)
	bandtesting.Bob = bandtesting.CreateArbitraryAccount(r)
	bandtesting.Carol = bandtesting.CreateArbitraryAccount(r)
	bandtesting.MissedValidator = bandtesting.CreateArbitraryAccount(r)
	bandtesting.Validators = nil
	for i := 0; i < 3; i++ {
		bandtesting.Validators = append(bandtesting.Validators, bandtesting.CreateArbitraryAccount(r))
	}
	sort.Slice(bandtesting.Validators, func(i, j int) bool {
		return bandtesting.Validators[i].PubKey.Address().String() < bandtesting.Validators[j].PubKey.Address().String()
	})
}

// World is one real application instance owned by one worker.
type World struct {
	ID   int
	App  *band.BandApp
	Home string
	// Root is the uncached context of the working state after block 1 was committed; header is
	// that of block 2 (not yet begun).  Never written to: all exploration happens in cache layers.
	Root sdk.Context
	// BlockOverride, when set, replaces Block (the twin engine advances by real FinalizeBlock+Commit).
	BlockOverride func(ctx sdk.Context, dh int64, dt time.Duration) (sdk.Context, BlockResult)
}

var worldSeq int64

// BuildRoot returns the directory under which per-process scratch is kept.
func scratchRoot() string {
	if d := os.Getenv("VERIF_BUILD"); d != "" {
		return d
	}
	return "/verif/build"
}

// NewWorld creates a fresh application from the fixed genesis, finalizes and commits block 1.
func NewWorld() *World {
	n := atomic.AddInt64(&worldSeq, 1)
	home := filepath.Join(scratchRoot(), "homes", fmt.Sprintf("h-%d-%d", os.Getpid(), n))
	_ = os.RemoveAll(home)
	if err := os.MkdirAll(home, 0o755); err != nil {
		panic(err)
	}
	app := bandtesting.SetupWithCustomHome(false, home)
	if _, err := app.FinalizeBlock(&abci.RequestFinalizeBlock{Height: 1, Time: GenesisTime}); err != nil {
		panic(err)
	}
	if _, err := app.Commit(); err != nil {
		panic(err)
	}
	hdr := cmtproto.Header{ChainID: ChainID, Height: 2, Time: GenesisTime.Add(3 * time.Second)}
	root := app.BaseApp.NewUncachedContext(false, hdr).
		WithBlockGasMeter(storetypes.NewInfiniteGasMeter()).
		WithGasMeter(storetypes.NewInfiniteGasMeter()).
		WithEventManager(sdk.NewEventManager()).
		WithHeaderInfo(coreheader.Info{ChainID: hdr.ChainID, Height: hdr.Height, Time: hdr.Time})
	return &World{ID: int(n), App: app, Home: home, Root: root}
}

// Close removes the scratch directory of the world.
func (w *World) Close() {
	_ = os.RemoveAll(w.Home)
}

// CleanupHomes removes every scratch home of this process.
func CleanupHomes() {
	matches, _ := filepath.Glob(filepath.Join(scratchRoot(), "homes", fmt.Sprintf("h-%d-*", os.Getpid())))
	for _, m := range matches {
		_ = os.RemoveAll(m)
	}
}

// Fork returns a cache layer over ctx with a fresh event manager and an infinite gas meter.
func Fork(ctx sdk.Context) sdk.Context {
	c, _ := ctx.CacheContext()
	return c.WithEventManager(sdk.NewEventManager()).WithGasMeter(storetypes.NewInfiniteGasMeter())
}

// TxResult is the observation of one transaction delivered through the seam.
type TxResult struct {
	Err       error
	Codespace string
	Code      uint32
	Panic     string // non-empty when the handler panicked (recovered as runTx does)
	Events    sdk.Events
	GasUsed   uint64
}

// OK reports whether the tx was committed.
func (r TxResult) OK() bool { return r.Err == nil }

// ErrName returns "ok" or "<codespace>/<code>".
func (r TxResult) ErrName() string {
	if r.Err == nil {
		return "ok"
	}
	if r.Panic != "" {
		return "panic"
	}
	return fmt.Sprintf("%s/%d", r.Codespace, r.Code)
}

// Tx reproduces baseapp.runMsgs on ctx: ValidateBasic on every message, then the real message
// router handler on a cache layer of ctx; the layer is written iff every message succeeds.  A panic
// is recovered exactly as runTx does and counts as a failed tx.  gasLimit 0 means infinite.
func (w *World) Tx(ctx sdk.Context, gasLimit uint64, msgs ...sdk.Msg) (res TxResult) {
	cache, write := ctx.CacheContext()
	var gm storetypes.GasMeter
	if gasLimit == 0 {
		gm = storetypes.NewInfiniteGasMeter()
	} else {
		gm = storetypes.NewGasMeter(gasLimit)
	}
	em := sdk.NewEventManager()
	cache = cache.WithEventManager(em).WithGasMeter(gm)
	defer func() {
		if r := recover(); r != nil {
			res.Panic = fmt.Sprintf("%v", r)
			if _, ok := r.(storetypes.ErrorOutOfGas); ok {
				res.Err = fmt.Errorf("out of gas: %v", r)
				res.Codespace, res.Code = "sdk", 11
				res.Panic = "" // out-of-gas is a normal tx failure
			} else {
				res.Err = fmt.Errorf("panic: %v\n%s", r, trimStack(debug.Stack()))
				res.Codespace, res.Code = "sdk", 111222
			}
		}
		res.GasUsed = gm.GasConsumed()
	}()
	for _, m := range msgs {
		if vb, ok := m.(sdk.HasValidateBasic); ok {
			if err := vb.ValidateBasic(); err != nil {
				return failed(err)
			}
		}
	}
	for _, m := range msgs {
		h := w.App.MsgServiceRouter().Handler(m)
		if h == nil {
			return failed(fmt.Errorf("no handler for %T", m))
		}
		r, err := h(cache, m)
		if err != nil {
			return failed(err)
		}
		// the service router runs the handler under its own event manager and returns the events in the result
		if r != nil {
			for _, e := range r.GetEvents() {
				em.EmitEvent(sdk.Event(e))
			}
		}
	}
	write()
	res.Events = em.Events()
	return res
}

func failed(err error) TxResult {
	cs, code, _ := errorsmod.ABCIInfo(err, false)
	return TxResult{Err: err, Codespace: cs, Code: code}
}

func trimStack(b []byte) string {
	lines := strings.Split(string(b), "\n")
	var out []string
	for _, l := range lines {
		if strings.Contains(l, "bandprotocol/chain") {
			out = append(out, strings.TrimSpace(l))
		}
		if len(out) >= 12 {
			break
		}
	}
	return strings.Join(out, "\n")
}

// BlockResult is the observation of one block boundary.
type BlockResult struct {
	EndEvents   sdk.Events
	BeginEvents sdk.Events
	Halt        string // non-empty: EndBlocker/BeginBlocker returned an error or panicked (chain halt)
}

// EndBlock runs the whole application's EndBlocker on ctx, uncached and unrecovered as in
// FinalizeBlock (the panic is caught only to be *reported* as a halt).
func (w *World) EndBlock(ctx sdk.Context) (events sdk.Events, halt string) {
	em := sdk.NewEventManager()
	c := ctx.WithEventManager(em).WithGasMeter(storetypes.NewInfiniteGasMeter())
	func() {
		defer func() {
			if r := recover(); r != nil {
				halt = fmt.Sprintf("EndBlocker panic: %v\n%s", r, trimStack(debug.Stack()))
			}
		}()
		eb, err := w.App.EndBlocker(c)
		if err != nil {
			halt = "EndBlocker error: " + err.Error()
		}
		// the module manager collects events in its own manager and returns them
		for _, e := range eb.Events {
			em.EmitEvent(sdk.Event(e))
		}
	}()
	return em.Events(), halt
}

// BeginBlock advances the header by (dh, dt) and runs the application's BeginBlocker.
func (w *World) BeginBlock(ctx sdk.Context, dh int64, dt time.Duration) (next sdk.Context, events sdk.Events, halt string) {
	h := ctx.BlockHeader()
	h.Height += dh
	h.Time = h.Time.Add(dt)
	em := sdk.NewEventManager()
	// a deterministic, height-dependent block hash so that the rolling seed rotates as on a real chain
	hh := sha256.Sum256([]byte(fmt.Sprintf("verif-block-%d", h.Height)))
	next = ctx.WithBlockHeader(h).WithHeaderHash(hh[:]).
		WithHeaderInfo(coreheader.Info{ChainID: h.ChainID, Height: h.Height, Time: h.Time, Hash: hh[:]})
	c := next.WithEventManager(em).WithGasMeter(storetypes.NewInfiniteGasMeter())
	func() {
		defer func() {
			if r := recover(); r != nil {
				halt = fmt.Sprintf("BeginBlocker panic: %v\n%s", r, trimStack(debug.Stack()))
			}
		}()
		bb, err := w.App.BeginBlocker(c)
		if err != nil {
			halt = "BeginBlocker error: " + err.Error()
		}
		for _, e := range bb.Events {
			em.EmitEvent(sdk.Event(e))
		}
	}()
	return next, em.Events(), halt
}

// Block = EndBlock of the current block, header advance, BeginBlock of the next one.
func (w *World) Block(ctx sdk.Context, dh int64, dt time.Duration) (sdk.Context, BlockResult) {
	if w.BlockOverride != nil {
		return w.BlockOverride(ctx, dh, dt)
	}
	var br BlockResult
	br.EndEvents, br.Halt = w.EndBlock(ctx)
	if br.Halt != "" {
		return ctx, br
	}
	next, ev, halt := w.BeginBlock(ctx, dh, dt)
	br.BeginEvents, br.Halt = ev, halt
	return next, br
}

// StoreNames returns the names of all KV stores mounted by the app, sorted.
func (w *World) StoreNames() []string {
	var names []string
	for n := range w.App.GetKVStoreKey() {
		names = append(names, n)
	}
	sort.Strings(names)
	return names
}

// HashStores hashes header + the named KV stores (all when names == nil) + extra.
func (w *World) HashStores(ctx sdk.Context, names []string, extra []byte) string {
	if names == nil {
		names = w.StoreNames()
	}
	h := sha256.New()
	var b8 [8]byte
	binary.BigEndian.PutUint64(b8[:], uint64(ctx.BlockHeight()))
	h.Write(b8[:])
	binary.BigEndian.PutUint64(b8[:], uint64(ctx.BlockTime().UnixNano()))
	h.Write(b8[:])
	keys := w.App.GetKVStoreKey()
	for _, n := range names {
		k := keys[n]
		if k == nil {
			continue
		}
		h.Write([]byte(n))
		h.Write([]byte{0})
		it := ctx.KVStore(k).Iterator(nil, nil)
		for ; it.Valid(); it.Next() {
			kb, vb := it.Key(), it.Value()
			binary.BigEndian.PutUint32(b8[:4], uint32(len(kb)))
			h.Write(b8[:4])
			h.Write(kb)
			binary.BigEndian.PutUint32(b8[:4], uint32(len(vb)))
			h.Write(b8[:4])
			h.Write(vb)
		}
		it.Close()
	}
	h.Write([]byte{1})
	h.Write(extra)
	return hex.EncodeToString(h.Sum(nil)[:16])
}

// DumpStore returns the content of one store as hex(key) -> hex(value).
func (w *World) DumpStore(ctx sdk.Context, name string) map[string]string {
	out := map[string]string{}
	k := w.App.GetKVStoreKey()[name]
	if k == nil {
		return out
	}
	it := ctx.KVStore(k).Iterator(nil, nil)
	defer it.Close()
	for ; it.Valid(); it.Next() {
		out[hex.EncodeToString(it.Key())] = hex.EncodeToString(it.Value())
	}
	return out
}

// DiffStores lists the keys of the named stores that differ between two contexts.
func (w *World) DiffStores(a, b sdk.Context, names []string) []string {
	if names == nil {
		names = w.StoreNames()
	}
	var out []string
	for _, n := range names {
		da, db := w.DumpStore(a, n), w.DumpStore(b, n)
		for k, v := range da {
			if v2, ok := db[k]; !ok {
				out = append(out, fmt.Sprintf("%s/%s: deleted", n, k))
			} else if v2 != v {
				out = append(out, fmt.Sprintf("%s/%s: changed", n, k))
			}
		}
		for k := range db {
			if _, ok := da[k]; !ok {
				out = append(out, fmt.Sprintf("%s/%s: added", n, k))
			}
		}
	}
	sort.Strings(out)
	return out
}

// EventsOfType returns the events with the given type.
func EventsOfType(evs sdk.Events, typ string) []sdk.Event {
	var out []sdk.Event
	for _, e := range evs {
		if e.Type == typ {
			out = append(out, e)
		}
	}
	return out
}

// Attr returns the value of the first attribute with this key ("" if absent).
func Attr(e sdk.Event, key string) string {
	for _, a := range e.Attributes {
		if a.Key == key {
			return a.Value
		}
	}
	return ""
}
