//go:build verif
//verif:dest cylinder/workers/group/zz_verif_c04.go

package group

// VerifGetOwnPrivKey exposes the cylinder round-3 worker's share handling (decrypt every dealer's
// share from the chain's group response, verify it against the dealer's commitments, build a
// complaint for every failing one, otherwise sum the shares to the member's own private key) so
// that the C04 check can drive the members of its DKG runs with the daemon's real code.
var VerifGetOwnPrivKey = getOwnPrivKey

// VerifGetSecretShare exposes the per-dealer part of the above.
var VerifGetSecretShare = getSecretShare
