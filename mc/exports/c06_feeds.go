//go:build verif
//verif:dest x/feeds/keeper/zz_verif_c06_feeds.go

package keeper

// VerifC06CheckHavePrice exposes the freshness filter used by CalculatePrices (property C06).
var VerifC06CheckHavePrice = checkHavePrice
