//go:build verif

//verif:dest pkg/tickmath/zz_verif_c11_tickmath.go

package tickmath

// VerifTickToPriceX96 exposes the fixed-point price of a tick (price * 10^9 * 2^96), which is the
// repository's definition of "the price of tick t" used by both TickToPrice and PriceToTick.
var VerifTickToPriceX96 = tickToPriceX96
