//go:build verif

//verif:dest x/tss/keeper/zz_verif_c11_router.go

package keeper

import "github.com/bandprotocol/chain/v3/x/tss/types"

// VerifContentRouter exposes the sealed content router the keeper was wired with in app.go, so
// that the real route handlers (including the selector wrapper) can be called without creating a
// signing.
func (k Keeper) VerifContentRouter() *types.ContentRouter { return k.contentRouter }
