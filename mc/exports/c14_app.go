//go:build verif

//verif:dest app/zz_verif_c14_app.go

package band

import (
	"github.com/cosmos/cosmos-sdk/types/module"
)

// VerifC14ModuleManager exposes the application's own module manager (read-only use by the C14
// check: it walks OrderBeginBlockers module by module to observe the state between the begin
// blockers of the real application, in the application's own order).
func VerifC14ModuleManager(app *BandApp) *module.Manager { return app.mm }
