//go:build verif
//verif:dest yoda/zz_verif_c19.go

package yoda

import (
	"reflect"
	"time"

	abci "github.com/cometbft/cometbft/abci/types"

	rpcclient "github.com/cometbft/cometbft/rpc/client"

	"cosmossdk.io/log"

	"github.com/cosmos/cosmos-sdk/crypto/hd"
	"github.com/cosmos/cosmos-sdk/crypto/keyring"
	sdk "github.com/cosmos/cosmos-sdk/types"

	band "github.com/bandprotocol/chain/v3/app"
	"github.com/bandprotocol/chain/v3/pkg/filecache"
	"github.com/bandprotocol/chain/v3/x/oracle/types"
	"github.com/bandprotocol/chain/v3/yoda/executor"
)

// Verification exports (build tag verif; added by the /verif overlay, not part of the repository).

// The daemon's entry points are called through reflection so that the harness keeps compiling when a change adds
// parameters to them (extra parameters get their zero value, which is what the daemon's own start-up path passes for
// "nothing known yet").

// VerifHandleTransaction is `handleTransaction(c, l, tx)`.
func VerifHandleTransaction(c *Context, l *Logger, tx abci.TxResult) { verifCall(handleTransaction, c, l, tx) }

// VerifHandleRequest is `handleRequest(c, l, id)`.
func VerifHandleRequest(c *Context, l *Logger, id types.RequestID) { verifCall(handleRequest, c, l, id) }

// VerifRunImpl is `runImpl(c, l)`: the daemon's start-up sequence and main loop (it only returns on a start-up error;
// the text of that error is returned, "" otherwise).
func VerifRunImpl(c *Context, l *Logger) string {
	for _, out := range verifCall(runImpl, c, l) {
		if err, ok := out.Interface().(error); ok && err != nil {
			return err.Error()
		}
	}
	return ""
}

// VerifSetSubmission sets what the `run` command takes from --max-report and --broadcast-timeout.
func VerifSetSubmission(c *Context, maxReport uint64, broadcastTimeout time.Duration) {
	c.maxReport, c.broadcastTimeout = maxReport, broadcastTimeout
	c.keyRoundRobinIndex = -1 // as runCmd does
}

// VerifTxQuery is the subscription query of the run loop.
const VerifTxQuery = TxQuery

func verifCall(fn any, args ...any) []reflect.Value {
	f := reflect.ValueOf(fn)
	t := f.Type()
	in := make([]reflect.Value, t.NumIn())
	for i := range in {
		if i < len(args) {
			in[i] = reflect.ValueOf(args[i])
		} else {
			in[i] = reflect.Zero(t.In(i))
		}
	}
	return f.Call(in)
}

var verifKey *keyring.Record

// VerifInit installs the package-level configuration and an in-memory keyring with one reporter key.
func VerifInit(app *band.BandApp, chainID string) {
	cfg.ChainID = chainID
	kb = keyring.NewInMemory(app.AppCodec())
	rec, _, err := kb.NewMnemonic("verif", keyring.English, hd.CreateHDPath(494, 0, 0).String(), "", hd.Secp256k1)
	if err != nil {
		panic(err)
	}
	verifKey = rec
}

// VerifNewContext builds a daemon context with injected RPC client, executor and file cache.
func VerifNewContext(app *band.BandApp, client rpcclient.Client, validator sdk.ValAddress, exec executor.Executor,
	fc filecache.Cache, maxTry uint64, poll time.Duration) *Context {
	return &Context{
		bandApp: app, client: client, validator: validator, keys: []*keyring.Record{verifKey}, executor: exec, fileCache: fc,
		maxTry: maxTry, rpcPollInterval: poll, broadcastTimeout: time.Second, maxReport: 10,
		pendingMsgs: make(chan ReportMsgWithKey), freeKeys: make(chan int64, 1),
		pendingRequests: map[types.RequestID]bool{},
	}
}

// VerifPendingMsgs exposes the channel on which handleRequest queues reports.
func VerifPendingMsgs(c *Context) chan ReportMsgWithKey { return c.pendingMsgs }

// VerifMsg returns the report message of a queued item.
func (m ReportMsgWithKey) VerifMsg() *types.MsgReportData { return m.msg }

// VerifLogger returns a logger that discards everything (arguments are still evaluated by the callers).
func VerifLogger() *Logger {
	return &Logger{logger: log.NewNopLogger()}
}

// VerifMarkPending records a request as found pending at start-up, as runImpl does before it starts
// `go handleRequest` for it.
func VerifMarkPending(c *Context, id types.RequestID) { c.pendingRequests[id] = true }
