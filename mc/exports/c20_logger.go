//go:build verif
//verif:dest pkg/logger/zz_verif_c20.go

package logger

import "cosmossdk.io/log"

// VerifNop returns a logger that discards everything (arguments are still evaluated by the callers).
func VerifNop() *Logger { return &Logger{logger: log.NewNopLogger()} }
