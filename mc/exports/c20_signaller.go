//go:build verif
//verif:dest grogu/signaller/zz_verif_c20.go

package signaller

import (
	"github.com/bandprotocol/chain/v3/grogu/submitter"
	"github.com/bandprotocol/chain/v3/x/feeds/types"
	"github.com/bandprotocol/chain/v3/zzverif/vsync"
)

// Verification exports (build tag verif; added by the /verif overlay, not part of the repository).

// VerifPoll is one iteration of the Start loop after its sleep: validity query, refresh of the
// daemon's view of the chain (the three update functions, here one after the other instead of on
// three goroutines: they write three different fields) and execute().
func (s *Signaller) VerifPoll() string {
	resp, err := s.feedQuerier.QueryValidValidator(s.valAddress)
	if err != nil {
		return "valid-query-error"
	}
	if !resp.Valid {
		return "validator-not-required"
	}
	if !s.updateParams() || !s.updateFeedMap() || !s.updateValidatorPriceMap() {
		return "update-failed"
	}
	s.execute()
	return "executed"
}

// VerifExecute runs execute() on the daemon's current view.
func (s *Signaller) VerifExecute() { s.execute() }

// VerifSetView installs the daemon's view of the chain (what updateInternalVariables would fetch).
func (s *Signaller) VerifSetView(params types.Params, feeds []types.FeedWithDeviation, prices []types.ValidatorPrice) {
	p := params
	s.params = &p
	s.signalIDToFeed = sliceToMap(feeds, func(f types.FeedWithDeviation) string { return f.SignalID })
	s.signalIDToValidatorPrice = sliceToMap(prices, func(v types.ValidatorPrice) string { return v.SignalID })
}

// VerifRebind points a (copied) daemon at the environment of the next poll: the querier bound to the
// chain state to read, the price service, the hand-off channel and the shared pending map.
func (s *Signaller) VerifRebind(fq FeedQuerier, b BothanClient, ch chan<- submitter.SignalPriceSubmission, pending *vsync.Map) {
	s.feedQuerier, s.bothanClient, s.submitCh, s.pendingSignalIDs = fq, b, ch, pending
}

// VerifIsDeviated is the daemon's deviation predicate.
var VerifIsDeviated = isDeviated
