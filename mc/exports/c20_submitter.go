//go:build verif
//verif:dest grogu/submitter/zz_verif_c20.go

package submitter

// Verification exports (build tag verif; added by the /verif overlay, not part of the repository).

// VerifIdleKeys exposes the channel holding the names of the keys that are not in use.
func (s *Submitter) VerifIdleKeys() chan string { return s.idleKeyIDChannel }
