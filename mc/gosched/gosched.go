// Package gosched is the deviation-bounded stateless explorer over controlled executions
// (package vsched).  An execution is determined by its list of choices; exploration replays a prefix
// and then takes alternative 0 everywhere; every alternative at every later choice point whose
// accumulated deviation cost stays within the bounds spawns a new prefix (CHESS-style iterative
// context bounding with separate budgets for preemptions and environment/select deviations).
package gosched

import (
	"fmt"
	"strings"
	"sync"
	"sync/atomic"
	"time"

	"github.com/bandprotocol/chain/v3/zzverif/engine"
	"github.com/bandprotocol/chain/v3/zzverif/vsched"
)

// Scenario is one closed harness: Body runs as thread 0 of a fresh controlled execution and returns
// (via the returned Exec) what the oracle needs; Check is evaluated after the execution ended.
type Scenario struct {
	Name string
	// New creates the per-execution state and returns the body and the checker.  worker identifies
	// the explorer worker (for per-worker resources such as a real application).
	New func(worker int) (body func(), check func(s *vsched.Sched) (outcome string, viol []engine.Violation))
}

// Bounds of one exploration.
type Bounds struct {
	Preemptions int
	Faults      int // environment answers other than the default + select alternatives
	Horizon     int // scheduling steps per execution (livelock guard)
	Deadline    time.Time
	Workers     int
	// MaxExecutions (0 = none) ends the exploration after that many executions, in the explorer's deterministic
	// depth-first order; the result is then reported as not exhaustive.
	MaxExecutions int64
}

// Stats of one exploration.
type Stats struct {
	Executions int64
	Points     int64
	MaxPoints  int
	MaxThreads int
	Outcomes   map[string]int
	Violations []engine.FoundViolation
	Exhaustive bool
	Samples    [][]int
}

type item struct {
	prefix []int
}

// Explore enumerates every execution of sc within the bounds.
func Explore(sc Scenario, b Bounds) Stats {
	if b.Workers <= 0 {
		b.Workers = engine.DefaultWorkers()
	}
	if b.Horizon == 0 {
		b.Horizon = 20000
	}
	st := Stats{Outcomes: map[string]int{}, Exhaustive: true}
	var mu sync.Mutex
	stack := []item{{}}
	pending := int64(1)
	var capped atomic.Bool
	cond := sync.NewCond(&mu)
	var wg sync.WaitGroup
	for w := 0; w < b.Workers; w++ {
		wg.Add(1)
		go func(w int) {
			defer wg.Done()
			for {
				mu.Lock()
				for len(stack) == 0 && atomic.LoadInt64(&pending) > 0 && !capped.Load() {
					cond.Wait()
				}
				if len(stack) == 0 || capped.Load() {
					mu.Unlock()
					cond.Broadcast()
					return
				}
				it := stack[len(stack)-1]
				stack = stack[:len(stack)-1]
				mu.Unlock()

				body, check := sc.New(w)
				s := vsched.Run(it.prefix, b.Horizon, body)
				if s.DivergedAt >= 0 {
					engine.Fatal3("HARNESS-NONDETERMINISM: scenario %s: prefix %v diverged at choice %d (fewer alternatives than recorded)", sc.Name, it.prefix, s.DivergedAt)
				}
				outcome, viol := check(s)
				if s.Deadlock && len(s.Panics) == 0 { // after a panic the real process is gone; the blocked peers are a consequence
					viol = append(viol, engine.Violation{Fingerprint: "deadlock", Detail: strings.Join(s.Trace, "; ")})
				}
				if s.Livelock {
					viol = append(viol, engine.Violation{Fingerprint: "livelock-or-horizon", Detail: fmt.Sprintf("more than %d scheduling steps", b.Horizon)})
				}
				for _, p := range s.Panics {
					viol = append(viol, engine.Violation{Fingerprint: "daemon-panic:" + firstLine(p), Detail: p})
				}
				choices := make([]int, len(s.Points))
				for i, p := range s.Points {
					choices[i] = p.Chosen
				}
				// children: alternatives at points beyond the prefix within the bounds
				var children []item
				pre, fl := 0, 0
				for i, p := range s.Points {
					if i >= len(it.prefix) {
						for alt := 1; alt < p.N; alt++ {
							cp, cf := pre, fl
							if p.Kind == "sched" {
								cp += p.AltCost[alt]
							} else {
								cf += p.AltCost[alt]
							}
							if cp <= b.Preemptions && cf <= b.Faults {
								children = append(children, item{prefix: append(append([]int{}, choices[:i]...), alt)})
							}
						}
					}
					if p.Kind == "sched" {
						pre += p.Cost
					} else {
						fl += p.Cost
					}
				}
				mu.Lock()
				st.Executions++
				st.Points += int64(len(s.Points))
				if len(s.Points) > st.MaxPoints {
					st.MaxPoints = len(s.Points)
				}
				st.Outcomes[outcome]++
				for _, v := range viol {
					if len(st.Violations) < 256 {
						st.Violations = append(st.Violations, engine.FoundViolation{Violation: v, Path: choicePath(choices), Config: map[string]any{"scenario": sc.Name, "preemptions": b.Preemptions, "faults": b.Faults}})
					}
				}
				if len(st.Samples) < 6 {
					st.Samples = append(st.Samples, choices)
				}
				stack = append(stack, children...)
				atomic.AddInt64(&pending, int64(len(children))-1)
				if len(st.Violations) >= 64 || (!b.Deadline.IsZero() && time.Now().After(b.Deadline)) || (b.MaxExecutions > 0 && st.Executions >= b.MaxExecutions) {
					capped.Store(true)
				}
				mu.Unlock()
				cond.Broadcast()
			}
		}(w)
	}
	wg.Wait()
	if capped.Load() {
		st.Exhaustive = false
	}
	return st
}

func firstLine(s string) string {
	s = strings.SplitN(s, "\n", 2)[0]
	if i := strings.Index(s, "): "); i >= 0 {
		s = s[i+3:]
	}
	if len(s) > 120 {
		s = s[:120]
	}
	return s
}

func choicePath(c []int) []string {
	out := make([]string, len(c))
	for i, x := range c {
		out[i] = fmt.Sprint(x)
	}
	return out
}

// ReplayChoices re-executes one recorded choice list.
func ReplayChoices(sc Scenario, choices []int, horizon int) (string, []engine.Violation, *vsched.Sched) {
	body, check := sc.New(0)
	if horizon == 0 {
		horizon = 20000
	}
	s := vsched.Run(choices, horizon, body)
	o, v := check(s)
	if s.Deadlock {
		v = append(v, engine.Violation{Fingerprint: "deadlock", Detail: strings.Join(s.Trace, "; ")})
	}
	for _, p := range s.Panics {
		v = append(v, engine.Violation{Fingerprint: "daemon-panic:" + firstLine(p), Detail: p})
	}
	return o, v, s
}
