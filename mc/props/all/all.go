// Package props links every property check into the verifmc binary.
package props

import (
	_ "github.com/bandprotocol/chain/v3/zzverif/props/c01"
	_ "github.com/bandprotocol/chain/v3/zzverif/props/c03"
	_ "github.com/bandprotocol/chain/v3/zzverif/props/c04"
	_ "github.com/bandprotocol/chain/v3/zzverif/props/c05"
	_ "github.com/bandprotocol/chain/v3/zzverif/props/c06"
	_ "github.com/bandprotocol/chain/v3/zzverif/props/c07"
	_ "github.com/bandprotocol/chain/v3/zzverif/props/c08"
	_ "github.com/bandprotocol/chain/v3/zzverif/props/c09"
	_ "github.com/bandprotocol/chain/v3/zzverif/props/c10"
	_ "github.com/bandprotocol/chain/v3/zzverif/props/c11"
	_ "github.com/bandprotocol/chain/v3/zzverif/props/c12"
	_ "github.com/bandprotocol/chain/v3/zzverif/props/c13"
	_ "github.com/bandprotocol/chain/v3/zzverif/props/c14"
	_ "github.com/bandprotocol/chain/v3/zzverif/props/c15"
	_ "github.com/bandprotocol/chain/v3/zzverif/props/c16"
	_ "github.com/bandprotocol/chain/v3/zzverif/props/c17"
	_ "github.com/bandprotocol/chain/v3/zzverif/props/c18"
)
