package c01

import (
	"fmt"
	"math/rand"
	"time"

	abci "github.com/cometbft/cometbft/abci/types"
	cmtproto "github.com/cometbft/cometbft/proto/tendermint/types"

	sdk "github.com/cosmos/cosmos-sdk/types"
	"github.com/cosmos/cosmos-sdk/x/authz"

	bandtesting "github.com/bandprotocol/chain/v3/testing"
	oracletypes "github.com/bandprotocol/chain/v3/x/oracle/types"
	"github.com/bandprotocol/chain/v3/zzverif/engine"
)

// authSubcheck delivers signed transactions through the real FinalizeBlock (ante chain, signature
// verification, authz) and checks who is able to file a report for a validator: the validator's own key
// and an authz grantee holding a grant, nobody else.
func authSubcheck(r *engine.Run) {
	w := engine.NewWorld()
	defer w.Close()
	ctx := w.Root // uncached working state, sealed by the next real block
	for _, v := range bandtesting.Validators {
		if res := w.Tx(ctx, 0, oracletypes.NewMsgActivate(v.ValAddress)); !res.OK() {
			panic(res.Err)
		}
	}
	sp := &spec{}
	msg, _, _ := sp.reqMsg(Template{Script: "wasm1", Ask: 3, Min: 3})
	if res := w.Tx(ctx, 0, msg); !res.OK() {
		panic(res.Err)
	}
	app := w.App
	commit := func(h int64, txs [][]byte) []*abci.ExecTxResult {
		res, err := app.FinalizeBlock(&abci.RequestFinalizeBlock{Height: h, Time: engine.GenesisTime.Add(time.Duration(h) * 3 * time.Second), Txs: txs})
		if err != nil {
			panic(err)
		}
		if _, err := app.Commit(); err != nil {
			panic(err)
		}
		return res.TxResults
	}
	commit(2, nil)
	sign := func(signer bandtesting.Account, msgs ...sdk.Msg) []byte {
		c := app.BaseApp.NewUncachedContext(true, cmtproto.Header{ChainID: engine.ChainID, Height: app.LastBlockHeight()})
		acc := app.AccountKeeper.GetAccount(c, signer.Address)
		tx, err := bandtesting.GenSignedMockTx(rand.New(rand.NewSource(1)), app.GetTxConfig(), msgs, sdk.Coins{sdk.NewInt64Coin("uband", 0)}, 2_000_000, engine.ChainID,
			[]uint64{acc.GetAccountNumber()}, []uint64{acc.GetSequence()}, signer.PrivKey)
		if err != nil {
			panic(err)
		}
		bz, err := app.GetTxConfig().TxEncoder()(tx)
		if err != nil {
			panic(err)
		}
		return bz
	}
	raws := []oracletypes.RawReport{oracletypes.NewRawReport(1, 0, []byte("a")), oracletypes.NewRawReport(2, 0, []byte("b")), oracletypes.NewRawReport(3, 0, []byte("c"))}
	v := bandtesting.Validators
	rep := func(i int) *oracletypes.MsgReportData { return oracletypes.NewMsgReportData(1, raws, v[i].ValAddress) }
	exp := engine.GenesisTime.Add(1000 * time.Hour)
	grant, err := authz.NewMsgGrant(v[1].Address, bandtesting.Carol.Address, authz.NewGenericAuthorization(sdk.MsgTypeURL(&oracletypes.MsgReportData{})), &exp)
	if err != nil {
		panic(err)
	}
	exec := func(grantee bandtesting.Account, m sdk.Msg) sdk.Msg {
		e := authz.NewMsgExec(grantee.Address, []sdk.Msg{m})
		return &e
	}
	type tcase struct {
		name   string
		tx     []byte
		accept bool
	}
	cases := []tcase{
		{"report for validator 0 signed by a stranger", sign(bandtesting.Alice, rep(0)), false},
		{"report for validator 0 through authz by a grantee without grant", sign(bandtesting.Bob, exec(bandtesting.Bob, rep(0))), false},
		{"grant by validator 1 to a reporter", sign(v[1], grant), true},
	}
	res := commit(3, [][]byte{cases[0].tx, cases[1].tx, cases[2].tx})
	cases2 := []tcase{
		{"report for validator 1 through authz by its grantee", sign(bandtesting.Carol, exec(bandtesting.Carol, rep(1))), true},
		{"report for validator 2 through authz by validator 1's grantee", sign(bandtesting.Bob, exec(bandtesting.Bob, rep(2))), false},
		{"report for validator 0 signed by validator 0", sign(v[0], rep(0)), true},
	}
	res = append(res, commit(4, [][]byte{cases2[0].tx, cases2[1].tx, cases2[2].tx})...)
	all := append(cases, cases2...)
	for i, c := range all {
		r.Evaluations++
		ok := res[i].Code == 0
		r.Outcomes[fmt.Sprintf("auth:%v", ok)]++
		if ok != c.accept {
			fp := "unauthorised-report-accepted"
			if c.accept {
				fp = "authorised-report-rejected"
			}
			r.Violate(map[string]any{"part": "authorisation"}, []string{c.name}, fp, "%s: code %d log %s", c.name, res[i].Code, res[i].Log)
		}
	}
	c := app.BaseApp.NewUncachedContext(true, cmtproto.Header{ChainID: engine.ChainID, Height: app.LastBlockHeight()})
	for i, want := range []bool{true, true, false} {
		if got := app.OracleKeeper.HasReport(c, 1, v[i].ValAddress); got != want {
			r.Violate(map[string]any{"part": "authorisation"}, []string{fmt.Sprintf("validator %d", i)}, "report-presence-after-authorisation-cases", "validator %d: report stored=%v, expected %v", i, got, want)
		}
	}
	r.Samples = append(r.Samples, map[string]any{"authorisation_cases": len(all)})
}
