// Package c01 checks property C01: an oracle request resolves exactly once, correctly, from
// authorised reports.  Engine: kvmc (explicit-state BFS over the real oracle keeper through the
// message router and the whole-app End/BeginBlocker) with a lock-step reference model.
package c01

import (
	"bytes"
	"encoding/json"
	"fmt"
	"sort"
	"strconv"
	"strings"
	"time"

	"github.com/bytecodealliance/wasmtime-go/v20"

	sdk "github.com/cosmos/cosmos-sdk/types"

	"github.com/bandprotocol/chain/v3/pkg/obi"
	bandtesting "github.com/bandprotocol/chain/v3/testing"
	"github.com/bandprotocol/chain/v3/testing/testdata"
	oracletypes "github.com/bandprotocol/chain/v3/x/oracle/types"
	"github.com/bandprotocol/chain/v3/zzverif/engine"
)

// ---- oracle scripts ---------------------------------------------------------------------------

const watNoReturn = `
(module
	(type $t0 (func))
	(type $t1 (func (param i64 i64 i64 i64)))
	(import "env" "ask_external_data" (func $ask_external_data (type $t1)))
	(func $prepare (export "prepare") (type $t0)
	  i64.const 7
	  i64.const 1
	  i64.const 1024
	  i64.const 4
	  call $ask_external_data)
	(func $execute (export "execute") (type $t0))
	(memory $memory (export "memory") 17)
	(data (i32.const 1024) "test"))`

const watTrap = `
(module
	(type $t0 (func))
	(type $t1 (func (param i64 i64 i64 i64)))
	(import "env" "ask_external_data" (func $ask_external_data (type $t1)))
	(func $prepare (export "prepare") (type $t0)
	  i64.const 5
	  i64.const 2
	  i64.const 1024
	  i64.const 4
	  call $ask_external_data
	  i64.const 9
	  i64.const 1
	  i64.const 1024
	  i64.const 4
	  call $ask_external_data)
	(func $execute (export "execute") (type $t0)
	  unreachable)
	(memory $memory (export "memory") 17)
	(data (i32.const 1024) "test"))`

// Template is one kind of request in the alphabet.
type Template struct {
	Script string `json:"script"` // concat1 | concat2 | wasm1 | noreturn | trap
	Ask    uint64 `json:"ask"`
	Min    uint64 `json:"min"`
	// IBC: the request is IBC-originated (PrepareRequest with an IBC channel, as OnRecvPacket does) over a channel on
	// which the response packet cannot be sent when the request resolves (no capability / closed channel).
	IBC bool `json:"ibc,omitempty"`
}

func (t Template) String() string {
	if t.IBC {
		return fmt.Sprintf("%s:%d:%d:ibc", t.Script, t.Ask, t.Min)
	}
	return fmt.Sprintf("%s:%d:%d", t.Script, t.Ask, t.Min)
}

// Cfg is one configuration.
type Cfg struct {
	Templates  []Template `json:"templates"`
	MaxReq     int        `json:"max_requests"`
	Expiration uint64     `json:"expiration_block_count"`
	Depth      int        `json:"depth"`
	Shapes     []string   `json:"shapes"`
}

type spec struct {
	cfg Cfg
}

func (s *spec) Config() any { return s.cfg }

// ---- reference model --------------------------------------------------------------------------

type mReq struct {
	ID       uint64
	Tmpl     Template
	ScriptID uint64
	Calldata []byte
	EIDs     []uint64
	Chosen   []string // given: the committee is C09's subject
	Height   int64
	Time     int64
	Reports  map[string]string // validator -> data reported (accepted reports, while not expired)
	Pending  bool              // min-th report arrived in the current block
	Resolved bool
	Expired  bool
	Expect   *oracletypes.Result // fixed when resolved; must equal the stored result forever after
	Events   int                 // resolve events seen
}

type model struct {
	Reqs        []*mReq
	LastExpired uint64
}

func (m *model) Clone() engine.Model {
	c := &model{LastExpired: m.LastExpired}
	for _, r := range m.Reqs {
		cr := *r
		cr.Reports = map[string]string{}
		for k, v := range r.Reports {
			cr.Reports[k] = v
		}
		c.Reqs = append(c.Reqs, &cr)
	}
	return c
}

func (m *model) Key() string {
	// the model state is a function of the store contents plus the per-request resolve-event count
	var sb strings.Builder
	for _, r := range m.Reqs {
		fmt.Fprintf(&sb, "%d:%s:%d:%v:%v:%v|", r.ID, r.Tmpl, r.Events, r.Pending, r.Resolved, r.Expired)
	}
	return sb.String()
}

// ---- base state -------------------------------------------------------------------------------

var (
	noReturnID uint64
	trapID     uint64
)

func (s *spec) Build(w *engine.World) (sdk.Context, engine.Model) {
	ctx := engine.Fork(w.Root)
	for _, v := range bandtesting.Validators {
		if r := w.Tx(ctx, 0, oracletypes.NewMsgActivate(v.ValAddress)); !r.OK() {
			panic("activate: " + r.Err.Error())
		}
	}
	p := w.App.OracleKeeper.GetParams(ctx)
	p.ExpirationBlockCount = s.cfg.Expiration
	for _, t := range s.cfg.Templates {
		if t.Script == "concat1long" {
			// calldata longer than max_report_data_size is legal when max_calldata_size allows it
			p.MaxCalldataSize = 1024
		}
	}
	if err := w.App.OracleKeeper.SetParams(ctx, p); err != nil {
		panic(err)
	}
	mk := func(name, wat string) uint64 {
		code, err := wasmtime.Wat2Wasm(wat)
		if err != nil {
			panic(err)
		}
		r := w.Tx(ctx, 0, oracletypes.NewMsgCreateOracleScript(name, "d", "s", "u", code, bandtesting.Owner.Address, bandtesting.Owner.Address))
		if !r.OK() {
			panic("create script: " + r.Err.Error())
		}
		return w.App.OracleKeeper.GetOracleScriptCount(ctx)
	}
	noReturnID = mk("noreturn", watNoReturn)
	trapID = mk("trap", watTrap)
	return ctx, &model{}
}

func valIndex(addr string) int {
	for i, v := range bandtesting.Validators {
		if v.ValAddress.String() == addr {
			return i
		}
	}
	return -1
}

func (s *spec) reqMsg(t Template) (*oracletypes.MsgRequestData, uint64, []byte) {
	var sid uint64
	var calldata []byte
	switch t.Script {
	case "concat1":
		sid, calldata = 4, obi.MustEncode(testdata.Wasm4Input{IDs: []int64{1}, Calldata: "x"})
	case "concat2":
		sid, calldata = 4, obi.MustEncode(testdata.Wasm4Input{IDs: []int64{1, 2}, Calldata: "x"})
	case "concat1long":
		// 600 bytes of calldata: above max_report_data_size (512), below the raised max_calldata_size (1024)
		sid, calldata = 4, obi.MustEncode(testdata.Wasm4Input{IDs: []int64{1}, Calldata: strings.Repeat("x", 600)})
	case "wasm1":
		sid, calldata = 1, []byte("cd")
	case "noreturn":
		sid, calldata = noReturnID, []byte("nr")
	case "trap":
		sid, calldata = trapID, []byte("tr")
	default:
		panic("template " + t.Script)
	}
	msg := oracletypes.NewMsgRequestData(oracletypes.OracleScriptID(sid), calldata, t.Ask, t.Min,
		"cid-"+t.String(), bandtesting.Coins100000000uband, bandtesting.TestDefaultPrepareGas, bandtesting.TestDefaultExecuteGas,
		bandtesting.FeePayer.Address, oracletypes.ENCODER_UNSPECIFIED)
	return msg, sid, calldata
}

// ---- alphabet ---------------------------------------------------------------------------------

func (s *spec) Enabled(w *engine.World, ctx sdk.Context, mm engine.Model, depth int) []string {
	m := mm.(*model)
	var evs []string
	if len(m.Reqs) < s.cfg.MaxReq {
		for i := range s.cfg.Templates {
			evs = append(evs, fmt.Sprintf("req:%d", i))
		}
	}
	// reports: for every request ever made (also expired ones: late reports must be rejected) and
	// one id that does not exist yet
	for _, r := range m.Reqs {
		for vi := range bandtesting.Validators {
			for _, sh := range s.cfg.Shapes {
				evs = append(evs, fmt.Sprintf("rep:%d:%d:%s", r.ID, vi, sh))
			}
		}
	}
	evs = append(evs, fmt.Sprintf("rep:%d:0:ok", len(m.Reqs)+1))
	evs = append(evs, "block")
	return evs
}

func reportData(vi int, eid uint64) []byte { return []byte(fmt.Sprintf("v%de%d;", vi, eid)) }

func (s *spec) Step(w *engine.World, ctx sdk.Context, mm engine.Model, ev string) (sdk.Context, engine.StepResult) {
	m := mm.(*model)
	var st engine.StepResult
	parts := strings.Split(ev, ":")
	k := w.App.OracleKeeper
	switch parts[0] {
	case "req":
		ti, _ := strconv.Atoi(parts[1])
		t := s.cfg.Templates[ti]
		msg, sid, calldata := s.reqMsg(t)
		before := k.GetRequestCount(ctx)
		var res engine.TxResult
		if t.IBC {
			cc, write := ctx.CacheContext()
			if _, err := k.PrepareRequest(cc, msg, bandtesting.FeePayer.Address, &oracletypes.IBCChannel{PortId: "oracle", ChannelId: "channel-77"}); err != nil {
				res = engine.TxResult{Err: err, Codespace: "oracle", Code: 1}
			} else {
				write()
			}
		} else {
			res = w.Tx(ctx, 0, msg)
		}
		st.Outcome = "req:" + res.ErrName()
		if t.IBC {
			st.Outcome = "req-ibc:" + res.ErrName()
		}
		// acceptance of requests is given (fees: C13, committee: C09) except for what C01 states:
		// an accepted request gets the next id and a stored Request mirroring the message.
		if res.OK() {
			id := k.GetRequestCount(ctx)
			if id != before+1 {
				st.Violate("request-id-not-sequential", "count %d -> %d", before, id)
				return ctx, st
			}
			req, err := k.GetRequest(ctx, oracletypes.RequestID(id))
			if err != nil {
				st.Violate("accepted-request-not-stored", "id %d: %v", id, err)
				return ctx, st
			}
			if uint64(len(req.RequestedValidators)) != t.Ask || req.MinCount != t.Min {
				st.Violate("request-ask-min-mismatch", "asked %d/%d stored %d/%d", t.Ask, t.Min, len(req.RequestedValidators), req.MinCount)
			}
			mr := &mReq{ID: id, Tmpl: t, ScriptID: sid, Calldata: calldata, Chosen: req.RequestedValidators,
				Height: ctx.BlockHeight(), Time: ctx.BlockTime().Unix(), Reports: map[string]string{}}
			for _, rr := range req.RawRequests {
				mr.EIDs = append(mr.EIDs, uint64(rr.ExternalID))
			}
			m.Reqs = append(m.Reqs, mr)
		} else if k.GetRequestCount(ctx) != before {
			st.Violate("rejected-request-changed-count", "count %d -> %d", before, k.GetRequestCount(ctx))
		}
	case "rep":
		rid, _ := strconv.ParseUint(parts[1], 10, 64)
		vi, _ := strconv.Atoi(parts[2])
		shape := parts[3]
		var mr *mReq
		for _, r := range m.Reqs {
			if r.ID == rid {
				mr = r
			}
		}
		val := bandtesting.Validators[vi]
		var raws []oracletypes.RawReport
		if mr != nil {
			for _, e := range mr.EIDs {
				raws = append(raws, oracletypes.NewRawReport(oracletypes.ExternalID(e), 0, reportData(vi, e)))
			}
		} else {
			raws = []oracletypes.RawReport{oracletypes.NewRawReport(1, 0, []byte("x"))}
		}
		switch shape {
		case "ok":
		case "wrongeid": // same size, one id not requested
			raws[len(raws)-1].ExternalID = 4242
		case "missing": // one raw report fewer (may become empty)
			raws = raws[:len(raws)-1]
		case "extra": // all requested ids plus one that was not requested
			raws = append(raws, oracletypes.NewRawReport(4242, 0, []byte("x")))
		case "dup": // right size, but one requested id twice and (if >1) another one missing
			raws[len(raws)-1].ExternalID = raws[0].ExternalID
			if len(raws) == 1 {
				raws = append(raws, raws[0])
			}
		}
		msg := oracletypes.NewMsgReportData(oracletypes.RequestID(rid), raws, val.ValAddress)
		parent := ctx // ctx is already a private fork; Tx writes only on success
		beforeKey := ""
		if shape != "ok" {
			beforeKey = w.HashStores(parent, []string{"oracle"}, nil)
		}
		res := w.Tx(ctx, 0, msg)
		// ---- reference: who may report ----
		expect := mr != nil && !mr.Expired && shape == "ok"
		if expect {
			chosen := false
			for _, c := range mr.Chosen {
				if c == val.ValAddress.String() {
					chosen = true
				}
			}
			_, already := mr.Reports[val.ValAddress.String()]
			expect = chosen && !already
		}
		st.Outcome = fmt.Sprintf("rep:%s:%s", shape, res.ErrName())
		if res.OK() != expect {
			why := "accepted a report the statement forbids"
			if expect {
				why = "rejected a report the statement allows"
			}
			st.Violate("report-"+map[bool]string{true: "wrongly-rejected", false: "wrongly-accepted"}[expect]+":"+classify(mr, val.ValAddress.String(), shape),
				"%s: %s -> %s", why, ev, res.ErrName())
			return ctx, st
		}
		if res.OK() {
			var data []string
			for _, e := range mr.EIDs {
				data = append(data, string(reportData(vi, e)))
			}
			mr.Reports[val.ValAddress.String()] = strings.Join(data, "|")
			if !mr.Resolved && !mr.Pending && uint64(len(mr.Reports)) == mr.Tmpl.Min {
				mr.Pending = true
			}
		} else if beforeKey != "" && w.HashStores(ctx, []string{"oracle"}, nil) != beforeKey {
			st.Violate("rejected-report-changed-state", "%s", ev)
		}
	case "block":
		// model: resolve pending requests in arrival order, then expire in id order
		height := ctx.BlockHeight()
		now := ctx.BlockTime().Unix()
		for _, r := range m.Reqs {
			if r.Pending {
				r.Pending = false
				r.Resolved = true
				r.Expect = s.expectResult(r, now)
			}
		}
		for _, r := range m.Reqs {
			if r.Expired {
				continue
			}
			if r.Height+int64(s.cfg.Expiration) > height {
				break
			}
			if !r.Resolved {
				r.Resolved = true
				res := oracletypes.NewResult("cid-"+r.Tmpl.String(), oracletypes.OracleScriptID(r.ScriptID), r.Calldata, r.Tmpl.Ask, r.Tmpl.Min,
					oracletypes.RequestID(r.ID), uint64(len(r.Reports)), r.Time, now, oracletypes.RESOLVE_STATUS_EXPIRED, []byte{})
				r.Expect = &res
			}
			r.Expired = true
			m.LastExpired = r.ID
		}
		next, br := w.Block(ctx, 1, 3*time.Second)
		if br.Halt != "" {
			st.Violate("block-halt", "%s", br.Halt)
			return ctx, st
		}
		ctx = next
		for _, e := range engine.EventsOfType(br.EndEvents, oracletypes.EventTypeResolve) {
			id, _ := strconv.ParseUint(engine.Attr(e, oracletypes.AttributeKeyID), 10, 64)
			for _, r := range m.Reqs {
				if r.ID == id {
					r.Events++
					if r.Events > 1 {
						st.Violate("resolved-more-than-once", "request %d has %d resolve events along the path", id, r.Events)
					}
				}
			}
			st.Saw("resolve-status:" + engine.Attr(e, oracletypes.AttributeKeyResolveStatus))
		}
		if l := k.GetPendingResolveList(ctx); len(l) != 0 {
			st.Violate("pending-list-not-empty-after-block", "%v", l)
		}
		if got := uint64(k.GetRequestLastExpired(ctx)); got != m.LastExpired {
			st.Violate("expiry-cursor-mismatch", "RequestLastExpired=%d, model %d (height %d)", got, m.LastExpired, height)
		}
		st.Outcome = "block"
	}
	// ---- after every transition: stored results equal the model's, and only those exist ----
	for _, r := range m.Reqs {
		got, err := k.GetResult(ctx, oracletypes.RequestID(r.ID))
		has := err == nil
		if has != (r.Expect != nil) {
			if has {
				st.Violate("result-without-cause", "request %d (%s) has result %+v but model expects none (reports %d/%d, height %d)", r.ID, r.Tmpl, got, len(r.Reports), r.Tmpl.Min, ctx.BlockHeight())
			} else {
				st.Violate("result-missing", "request %d (%s) should have result %+v", r.ID, r.Tmpl, *r.Expect)
			}
			continue
		}
		if has {
			a, _ := json.Marshal(got)
			b, _ := json.Marshal(*r.Expect)
			if !bytes.Equal(a, b) {
				st.Violate("result-differs:"+diffFields(got, *r.Expect), "request %d (%s): stored %s, expected %s", r.ID, r.Tmpl, a, b)
			}
			if r.Events != 1 && parts[0] == "block" {
				st.Violate("resolve-event-count", "request %d resolved with %d resolve events", r.ID, r.Events)
			}
		}
		// the Request and its reports live exactly until expiry
		if k.HasRequest(ctx, oracletypes.RequestID(r.ID)) == r.Expired {
			st.Violate("request-lifetime", "request %d present=%v but expired=%v", r.ID, !r.Expired, r.Expired)
		}
		if !r.Expired {
			if n := k.GetReportCount(ctx, oracletypes.RequestID(r.ID)); n != uint64(len(r.Reports)) {
				st.Violate("report-count-mismatch", "request %d: stored %d, model %d", r.ID, n, len(r.Reports))
			}
		}
	}
	return ctx, st
}

func classify(mr *mReq, val, shape string) string {
	switch {
	case mr == nil:
		return "unknown-request"
	case mr.Expired:
		return "expired-request"
	case shape != "ok":
		return "shape-" + shape
	}
	for _, c := range mr.Chosen {
		if c == val {
			if _, ok := mr.Reports[val]; ok {
				return "duplicate"
			}
			return "chosen-first-report"
		}
	}
	return "not-chosen"
}

func diffFields(a, b oracletypes.Result) string {
	var d []string
	if a.ClientID != b.ClientID {
		d = append(d, "client_id")
	}
	if a.OracleScriptID != b.OracleScriptID {
		d = append(d, "oracle_script_id")
	}
	if !bytes.Equal(a.Calldata, b.Calldata) {
		d = append(d, "calldata")
	}
	if a.AskCount != b.AskCount {
		d = append(d, "ask_count")
	}
	if a.MinCount != b.MinCount {
		d = append(d, "min_count")
	}
	if a.AnsCount != b.AnsCount {
		d = append(d, "ans_count")
	}
	if a.RequestTime != b.RequestTime {
		d = append(d, "request_time")
	}
	if a.ResolveTime != b.ResolveTime {
		d = append(d, "resolve_time")
	}
	if a.ResolveStatus != b.ResolveStatus {
		d = append(d, "resolve_status")
	}
	if !bytes.Equal(a.Result, b.Result) {
		d = append(d, "result")
	}
	if a.RequestID != b.RequestID {
		d = append(d, "request_id")
	}
	sort.Strings(d)
	return strings.Join(d, ",")
}

// expectResult is the result the statement prescribes for a request resolved by its script at a
// block end at time now, from the reports present then.
func (s *spec) expectResult(r *mReq, now int64) *oracletypes.Result {
	status := oracletypes.RESOLVE_STATUS_SUCCESS
	var out []byte
	switch r.Tmpl.Script {
	case "concat1", "concat2", "concat1long":
		ret := ""
		for _, e := range r.EIDs {
			for _, c := range r.Chosen {
				if _, ok := r.Reports[c]; ok {
					ret += string(reportData(valIndex(c), e))
				}
			}
		}
		out = obi.MustEncode(testdata.Wasm4Output{Ret: ret})
	case "wasm1":
		out = []byte("test")
	case "noreturn", "trap":
		status = oracletypes.RESOLVE_STATUS_FAILURE
		out = []byte{}
	}
	res := oracletypes.NewResult("cid-"+r.Tmpl.String(), oracletypes.OracleScriptID(r.ScriptID), r.Calldata, r.Tmpl.Ask, r.Tmpl.Min,
		oracletypes.RequestID(r.ID), uint64(len(r.Reports)), r.Time, now, status, out)
	return &res
}

// ---- registration -----------------------------------------------------------------------------

var allShapes = []string{"ok", "wrongeid", "missing", "extra", "dup"}

func configs(quick bool) []Cfg {
	var out []Cfg
	if quick {
		sets := [][]Template{
			{{Script: "concat1", Ask: 2, Min: 1}, {Script: "concat2", Ask: 3, Min: 2}},
			{{Script: "wasm1", Ask: 3, Min: 3}, {Script: "noreturn", Ask: 1, Min: 1}},
			{{Script: "trap", Ask: 2, Min: 2}, {Script: "concat1", Ask: 3, Min: 1}},
			{{Script: "concat1long", Ask: 2, Min: 1}, {Script: "noreturn", Ask: 1, Min: 1}},
		}
		// IBC-originated requests whose response packet cannot be sent (one expiration value, lower depth)
		out = append(out, Cfg{Templates: []Template{{Script: "concat1", Ask: 2, Min: 1, IBC: true}, {Script: "noreturn", Ask: 1, Min: 1, IBC: true}}, MaxReq: 2, Expiration: 2, Depth: 6, Shapes: []string{"ok"}})
		for _, ts := range sets {
			for _, exp := range []uint64{1, 2} {
				out = append(out, Cfg{Templates: ts, MaxReq: 2, Expiration: exp, Depth: 7, Shapes: allShapes})
			}
		}
		return out
	}
	// thorough: 12 template pairs covering every script and every ask/min pair (each at least once, IBC-originated
	// variants included) x expiration_block_count in {1,2,3}, up to 3 requests in flight, depth 8
	pairs := [][2]Template{
		{{Script: "concat1", Ask: 1, Min: 1}, {Script: "concat2", Ask: 3, Min: 3}},
		{{Script: "concat1", Ask: 2, Min: 1}, {Script: "wasm1", Ask: 2, Min: 2}},
		{{Script: "concat1", Ask: 3, Min: 2}, {Script: "noreturn", Ask: 3, Min: 1}},
		{{Script: "concat2", Ask: 2, Min: 2}, {Script: "trap", Ask: 1, Min: 1}},
		{{Script: "concat2", Ask: 3, Min: 1}, {Script: "concat1", Ask: 3, Min: 3}},
		{{Script: "wasm1", Ask: 3, Min: 2}, {Script: "trap", Ask: 3, Min: 3}},
		{{Script: "wasm1", Ask: 1, Min: 1}, {Script: "noreturn", Ask: 2, Min: 2}},
		{{Script: "noreturn", Ask: 2, Min: 1}, {Script: "trap", Ask: 2, Min: 1}},
		{{Script: "trap", Ask: 3, Min: 2}, {Script: "concat2", Ask: 1, Min: 1}},
		{{Script: "concat1long", Ask: 3, Min: 2}, {Script: "concat1", Ask: 1, Min: 1}},
		{{Script: "concat1", Ask: 2, Min: 1, IBC: true}, {Script: "concat1", Ask: 2, Min: 2}},
		{{Script: "trap", Ask: 2, Min: 2, IBC: true}, {Script: "wasm1", Ask: 3, Min: 1, IBC: true}},
		{{Script: "noreturn", Ask: 1, Min: 1, IBC: true}, {Script: "concat2", Ask: 3, Min: 2}},
	}
	for _, pr := range pairs {
		for _, exp := range []uint64{1, 2, 3} {
			out = append(out, Cfg{Templates: []Template{pr[0], pr[1]}, MaxReq: 3, Expiration: exp, Depth: 8, Shapes: allShapes})
		}
	}
	return out
}

func init() {
	engine.Register(&engine.Check{
		ID: "C01",
		Run: func(r *engine.Run) {
			r.Bound = "3 validators; <=2 (quick) / <=3 (thorough) requests in flight from 2 templates per configuration; every (request, validator, shape) report incl. non-chosen, duplicate, late and unknown-request; depth 7 / 8; expiration_block_count in {1,2} / {1,2,3}"
			r.Assumptions = []string{
				"committee (RequestedValidators) is taken as given from the stored request: selection is C09's subject",
				"request acceptance w.r.t. fees is C13's subject; the payer is always funded",
				"IBC-originated requests are created with PrepareRequest and an IBC channel on which the response packet cannot be sent at resolution (the hard case for result persistence); packet delivery itself is upstream",
				"Tx seam = ValidateBasic + message-router handler in a cache context; who may sign a report is checked separately through the real FinalizeBlock (signed txs, authz grants): 6 cases",
			}
			r.Required = []string{"resolve-status:1", "resolve-status:2", "resolve-status:3",
				"rep:ok:ok", "rep:ok:oracle/10", "rep:ok:oracle/11", "rep:ok:oracle/39", "rep:ok:oracle/5",
				"rep:wrongeid:oracle/6", "rep:extra:oracle/12", "rep:dup:oracle/30", "auth:true", "auth:false", "req-ibc:ok"}
			authSubcheck(r)
			cfgs := configs(r.Quick())
			for i, c := range cfgs {
				sp := &spec{cfg: c}
				sr := engine.Search(sp, engine.SearchOpts{Depth: c.Depth, Deadline: r.SliceDeadline(i, len(cfgs), 6*time.Minute, 40*time.Minute)})
				r.AddSearch(fmt.Sprintf("cfg%d[%s+%s,exp=%d]", i, c.Templates[0], c.Templates[1], c.Expiration), c, sr)
				if len(r.Violations) > 0 {
					break
				}
			}
			r.ConfirmViolations(func(cfg any) engine.Spec { return &spec{cfg: cfg.(Cfg)} })
		},
		Replay: func(raw json.RawMessage, path []string) (engine.StepResult, []string) {
			var c Cfg
			if err := json.Unmarshal(raw, &c); err != nil {
				panic(err)
			}
			last, outs, _ := engine.Replay(&spec{cfg: c}, path)
			return last, outs
		},
	})
}
