// Package c03 checks property C03: threshold signing yields a valid group signature; bad shares are
// rejected.  Engine: enum.  Part 1 enumerates Lagrange coefficients against exact rational
// arithmetic; part 2 drives, for every (n,t) and every threshold-sized committee, a real DKG and
// real signing through the chain's message handlers, submits every single-component corruption of
// each share (all must be rejected without trace) and then the correct share, and verifies the
// published group signature with an independent verifier built on go-ethereum's curve.
package c03

import (
	"bytes"
	"encoding/json"
	"fmt"
	"math/big"
	"sort"
	"sync"
	"time"

	ethcrypto "github.com/ethereum/go-ethereum/crypto"

	sdk "github.com/cosmos/cosmos-sdk/types"

	"github.com/bandprotocol/chain/v3/pkg/tss"
	bandtesting "github.com/bandprotocol/chain/v3/testing"
	bandtsstypes "github.com/bandprotocol/chain/v3/x/bandtss/types"
	tsstypes "github.com/bandprotocol/chain/v3/x/tss/types"
	"github.com/bandprotocol/chain/v3/zzverif/engine"
	"github.com/bandprotocol/chain/v3/zzverif/tssh"
)

var curve = ethcrypto.S256()
var curveN = curve.Params().N

// ---- independent verifier (written from the statement: fixed BAND-TSS challenge format) ----------

func decompress(p []byte) (*big.Int, *big.Int, error) {
	pk, err := ethcrypto.DecompressPubkey(p)
	if err != nil {
		return nil, nil, err
	}
	return pk.X, pk.Y, nil
}

func pad32(b []byte) []byte {
	out := make([]byte, 32)
	copy(out[32-len(b):], b)
	return out
}

// challenge = keccak("BAND-TSS-secp256k1-v0" | 0 | "challenge" | 0 | address(R) | parity(Y)+25 | Yx | keccak(msg))
func challenge(R, Y []byte, msg []byte) (*big.Int, error) {
	rx, ry, err := decompress(R)
	if err != nil {
		return nil, err
	}
	yx, _, err := decompress(Y)
	if err != nil {
		return nil, err
	}
	raddr := ethcrypto.Keccak256(pad32(rx.Bytes()), pad32(ry.Bytes()))[12:]
	h := ethcrypto.Keccak256([]byte("BAND-TSS-secp256k1-v0"), []byte{0}, []byte("challenge"), []byte{0}, raddr, []byte{Y[0] + 25}, pad32(yx.Bytes()), ethcrypto.Keccak256(msg))
	return new(big.Int).SetBytes(h), nil
}

// verifySchnorr checks z*G == R + (c*lambda)*Y.
func verifySchnorr(sig []byte, Y []byte, c *big.Int, lambda *big.Int) (bool, error) {
	if len(sig) != 65 {
		return false, fmt.Errorf("signature length %d", len(sig))
	}
	R, z := sig[:33], new(big.Int).SetBytes(sig[33:])
	rx, ry, err := decompress(R)
	if err != nil {
		return false, err
	}
	yx, yy, err := decompress(Y)
	if err != nil {
		return false, err
	}
	e := new(big.Int).Set(c)
	if lambda != nil {
		e.Mul(e, lambda)
	}
	e.Mod(e, curveN)
	zx, zy := curve.ScalarBaseMult(pad32(z.Bytes()))
	cx, cy := curve.ScalarMult(yx, yy, pad32(e.Bytes()))
	sx, sy := curve.Add(rx, ry, cx, cy)
	return zx.Cmp(sx) == 0 && zy.Cmp(sy) == 0, nil
}

func verifyGroupSig(sig, groupPub, msg []byte) (bool, error) {
	c, err := challenge(sig[:33], groupPub, msg)
	if err != nil {
		return false, err
	}
	return verifySchnorr(sig, groupPub, c, nil)
}

// lagrangeRef = prod_{j in S, j != i} j/(j-i) mod N with exact rationals.
func lagrangeRef(i int64, S []int64) *big.Int {
	num, den := big.NewInt(1), big.NewInt(1)
	for _, j := range S {
		if j == i {
			continue
		}
		num.Mul(num, big.NewInt(j))
		den.Mul(den, big.NewInt(j-i))
	}
	r := new(big.Rat).SetFrac(num, den) // normalises sign and gcd
	n := new(big.Int).Mod(r.Num(), curveN)
	d := new(big.Int).ModInverse(new(big.Int).Mod(r.Denom(), curveN), curveN)
	return n.Mul(n, d).Mod(n, curveN)
}

// ---- part 1: Lagrange table ------------------------------------------------------------------

func runLagrange(r *engine.Run, deadline time.Time) {
	tally := engine.NewTally()
	quick := r.Quick()
	const full = 1 << 20
	check := func(S []int64) {
		mids := make([]tss.MemberID, len(S))
		for k, v := range S {
			mids[k] = tss.MemberID(v)
		}
		for _, i := range S {
			got, err := tss.ComputeLagrangeCoefficient(tss.MemberID(i), mids)
			tally.Eval()
			want := lagrangeRef(i, S)
			if err != nil {
				tally.Violate(map[string]any{"part": "lagrange"}, []string{fmt.Sprint(i, S)}, "C03/lagrange-error", err.Error())
				continue
			}
			if new(big.Int).SetBytes(got).Cmp(want) != 0 {
				fp := "C03/lagrange-coefficient-wrong"
				if S[len(S)-1] > 20 {
					fp += ":generic-path"
				} else {
					fp += ":precomputed-path"
				}
				tally.Violate(map[string]any{"part": "lagrange"}, []string{fmt.Sprint(i, S)}, fp, fmt.Sprintf("i=%d S=%v got %x want %x", i, S, []byte(got), want.Bytes()))
			}
			if len(S) > 1 {
				tally.Nontrivial(fmt.Sprint(i, S))
			}
		}
	}
	complete := engine.ParallelFor(full, 0, deadline, func(_ int, idx int64) {
		if idx == 0 {
			return
		}
		var S []int64
		for b := int64(0); b < 20; b++ {
			if idx&(1<<b) != 0 {
				S = append(S, b+1)
			}
		}
		if quick {
			// |S| <= 5, |S| >= 16, or S within {1..16}
			if !(len(S) <= 5 || len(S) >= 16 || S[len(S)-1] <= 16) {
				return
			}
		}
		check(S)
	})
	if !complete {
		r.Exhaustive = false
		r.CapReasons = append(r.CapReasons, "lagrange enumeration: time cap")
	}
	// ids above 20 (generic path) and the switch between the paths
	pool := []int64{1, 2, 3, 4, 5, 6, 21, 22, 40, 1<<32 - 1}
	for mask := 1; mask < 1<<len(pool); mask++ {
		var S []int64
		for b := range pool {
			if mask&(1<<b) != 0 {
				S = append(S, pool[b])
			}
		}
		check(S)
	}
	// rejections: duplicates and i not in S
	for _, bad := range []struct {
		i int64
		S []int64
	}{{1, []int64{1, 1, 2}}, {3, []int64{1, 2}}, {2, []int64{2, 3, 3}}} {
		mids := make([]tss.MemberID, len(bad.S))
		for k, v := range bad.S {
			mids[k] = tss.MemberID(v)
		}
		_, err := tss.ComputeLagrangeCoefficient(tss.MemberID(bad.i), mids)
		tally.Eval()
		if err == nil {
			tally.Violate(map[string]any{"part": "lagrange"}, []string{fmt.Sprint(bad)}, "C03/lagrange-bad-input-accepted", fmt.Sprint(bad))
		} else {
			tally.Saw("lagrange-reject")
		}
	}
	tally.Saw("lagrange-done")
	tally.Sample(2, map[string]any{"lagrange": "i=3 S=[1 3 7 20]", "value_hex": fmt.Sprintf("%x", lagrangeRef(3, []int64{1, 3, 7, 20}))})
	tally.MergeInto(r)
	fmt.Printf("[C03] lagrange pairs evaluated=%d\n", tally.Evals)
}

// ---- part 2: end to end through the chain ----------------------------------------------------

type nt struct{ N, T int }

type e2eBase struct {
	w   *engine.World
	ctx sdk.Context
	g   *tssh.Group
	nt  nt
}

func buildE2E(c nt, label uint64) *e2eBase {
	engine.DetRandResetTo(label)
	w := engine.NewWorld()
	ctx := engine.Fork(w.Root)
	tssh.ApplyParams(w, ctx, tssh.Params{SigningPeriod: 1, MaxSigningAttempt: 3, MaxDESize: 10, MaxGroupSize: 24})
	bp := w.App.BandtssKeeper.GetParams(ctx)
	bp.RewardPercentage = 0
	if err := w.App.BandtssKeeper.SetParams(ctx, bp); err != nil {
		panic(err)
	}
	g, ctx := tssh.SetupCurrentGroup(w, ctx, c.N, uint64(c.T), int64(100+c.N*31+c.T))
	return &e2eBase{w: w, ctx: ctx, g: g, nt: c}
}

func committees(n, t int) [][]int {
	var out [][]int
	var rec func(start int, cur []int)
	rec = func(start int, cur []int) {
		if len(cur) == t {
			out = append(out, append([]int(nil), cur...))
			return
		}
		for i := start; i < n; i++ {
			rec(i+1, append(cur, i))
		}
	}
	rec(0, nil)
	return out
}

func addG(p tss.Point) tss.Point {
	x, y, _ := decompress(p)
	gx, gy := curve.Params().Gx, curve.Params().Gy
	sx, sy := curve.Add(x, y, gx, gy)
	out := make([]byte, 33)
	out[0] = 2 + byte(sy.Bit(0))
	copy(out[1:], pad32(sx.Bytes()))
	return out
}

func (b *e2eBase) scenario(committee []int, msg []byte, tally *engine.Tally) {
	w, g := b.w, b.g
	ctx := engine.Fork(b.ctx)
	cfg := map[string]any{"part": "e2e", "n": b.nt.N, "t": b.nt.T, "committee": committee, "msg_len": len(msg)}
	path := []string{fmt.Sprintf("n=%d t=%d committee=%v msglen=%d", b.nt.N, b.nt.T, committee, len(msg))}
	fail := func(fp, format string, a ...any) {
		tally.Violate(cfg, path, fp, fmt.Sprintf(format, a...))
	}
	// force the committee: only its members hold nonces (2 each: second for the retry sub-case)
	for _, mi := range committee {
		tssh.Must(w.Tx(ctx, 0, tssh.SubmitDEsMsg(g.Accounts[mi].Address.String(), 0, 2)), "DEs")
	}
	req, _ := bandtsstypes.NewMsgRequestSignature(tsstypes.NewTextSignatureOrder(msg), sdk.NewCoins(sdk.NewInt64Coin("uband", 1_000_000)), bandtesting.Alice.Address.String())
	if res := w.Tx(ctx, 0, req); !res.OK() {
		fail("C03/threshold-committee-cannot-sign", "request refused with exactly t eligible members: %v", res.Err)
		return
	}
	tk := w.App.TSSKeeper
	sid := tss.SigningID(tk.GetSigningCount(ctx))
	var staleSigs map[int]tss.Signature
	// variant: the shares arrive in the very block in which the attempt's signing period ends (period 1: one block after
	// creation); aggregation and expiry handling of the same signing then fall into the same block end
	late := len(msg) == 32
	if late {
		next, br := w.Block(ctx, 1, 3*time.Second)
		if br.Halt != "" {
			fail("block-halt", "%s", br.Halt)
			return
		}
		ctx = next
		tally.Saw("shares-in-expiry-block")
	}
	signing, err := tk.GetSigning(ctx, sid)
	if err != nil {
		fail("C03/signing-missing", "%v", err)
		return
	}
	sa, err := tk.GetSigningAttempt(ctx, sid, signing.CurrentAttempt)
	if err != nil {
		fail("C03/attempt-missing", "%v", err)
		return
	}
	ams := tsstypes.AssignedMembers(sa.AssignedMembers)
	var assigned []int
	for _, am := range ams {
		assigned = append(assigned, int(am.MemberID)-1)
	}
	sort.Ints(assigned)
	if fmt.Sprint(assigned) != fmt.Sprint(committee) {
		fail("C03/committee-not-the-eligible-set", "assigned %v, eligible %v", assigned, committee)
		return
	}
	if !bytes.Contains(signing.Message, msg) {
		fail("C03/signing-message-does-not-carry-content", "message %x content %x", signing.Message, msg)
	}
	allIDs := make([]tss.MemberID, b.nt.N)
	for i := range allIDs {
		allIDs[i] = tss.MemberID(i + 1)
	}
	group := tk.MustGetGroup(ctx, g.ID)
	for _, am := range ams {
		mi := int(am.MemberID) - 1
		addr := g.Accounts[mi].Address.String()
		good, err := g.PartialSig(signing, sa, am.MemberID)
		if err != nil {
			fail("C03/cannot-build-share", "%v", err)
			return
		}
		// independent check of the share equation z_i G = R_i + c*lambda_i*Y_i
		member, _ := tk.GetMember(ctx, g.ID, am.MemberID)
		c, _ := challenge(signing.GroupPubNonce, group.PubKey, signing.Message)
		var S []int64
		for _, x := range ams {
			S = append(S, int64(x.MemberID))
		}
		if ok, err := verifySchnorr(good, member.PubKey, c, lagrangeRef(int64(am.MemberID), S)); err != nil || !ok {
			fail("C03/honest-share-fails-independent-equation", "member %d: ok=%v err=%v", am.MemberID, ok, err)
		}
		// --- corruptions ---
		type bad struct {
			name   string
			mid    tss.MemberID
			sig    tss.Signature
			signer string
		}
		var bads []bad
		mk := func(R tss.Point, z tss.Scalar) tss.Signature {
			s, err := tss.NewSignatureFromComponents(R, z)
			if err != nil {
				panic(err)
			}
			return s
		}
		// z + 1
		z1 := new(big.Int).SetBytes(good.S())
		z1.Add(z1, big.NewInt(1)).Mod(z1, curveN)
		bads = append(bads, bad{"scalar-plus-one", am.MemberID, mk(good.R(), pad32(z1.Bytes())), addr})
		// R + G
		bads = append(bads, bad{"nonce-point-plus-G", am.MemberID, mk(addG(good.R()), good.S()), addr})
		// zero scalar
		bads = append(bads, bad{"scalar-zero", am.MemberID, mk(good.R(), make([]byte, 32)), addr})
		// signature over a different message
		other := append([]byte(nil), signing.Message...)
		other[len(other)-1] ^= 1
		de, _ := tssh.LookupDE(am.PubD, am.PubE)
		privNonce, _ := tss.ComputeOwnPrivNonce(de.PrivD, de.PrivE, am.BindingFactor)
		lag, _ := tss.ComputeLagrangeCoefficient(am.MemberID, ams.MemberIDs())
		if s2, err := tss.SignSigning(signing.GroupPubNonce, signing.GroupPubKey, other, lag, privNonce, g.OwnPriv[mi]); err == nil {
			bads = append(bads, bad{"different-message", am.MemberID, s2, addr})
		}
		// Lagrange coefficient of a different committee (all members) when t < n
		if b.nt.T < b.nt.N {
			lagAll, _ := tss.ComputeLagrangeCoefficient(am.MemberID, allIDs)
			// (for some committees the two coefficients coincide, e.g. member 3 of {3} vs {1,2,3}: then it is the correct share)
			if bytes.Equal(lagAll, lag) {
				tally.Saw("corruption-degenerate:lagrange")
			} else if s3, err := tss.SignSigning(signing.GroupPubNonce, signing.GroupPubKey, signing.Message, lagAll, privNonce, g.OwnPriv[mi]); err == nil {
				bads = append(bads, bad{"lagrange-of-other-committee", am.MemberID, s3, addr})
			}
		}
		// wrong key share (another member's private key) when n > 1
		if b.nt.N > 1 {
			oi := (mi + 1) % b.nt.N
			// (with threshold 1 every member holds the same share: not a corruption then)
			if bytes.Equal(g.OwnPriv[oi], g.OwnPriv[mi]) {
				tally.Saw("corruption-degenerate:key-share")
			} else if s4, err := tss.SignSigning(signing.GroupPubNonce, signing.GroupPubKey, signing.Message, lag, privNonce, g.OwnPriv[oi]); err == nil {
				bads = append(bads, bad{"other-members-key-share", am.MemberID, s4, addr})
			}
		}
		// the member's unused second nonce instead of the assigned one
		de2 := tssh.DE(addr, de.K+1)
		if pn2, err := tss.ComputeOwnPrivNonce(de2.PrivD, de2.PrivE, am.BindingFactor); err == nil {
			if s5, err := tss.SignSigning(signing.GroupPubNonce, signing.GroupPubKey, signing.Message, lag, pn2, g.OwnPriv[mi]); err == nil {
				bads = append(bads, bad{"unassigned-nonce", am.MemberID, s5, addr})
			}
		}
		// share bound to the previous attempt
		if st, ok := staleSigs[mi]; ok {
			bads = append(bads, bad{"previous-attempt-share", am.MemberID, st, addr})
		}
		for _, o := range ams {
			if o.MemberID == am.MemberID {
				continue
			}
			oaddr := g.Accounts[int(o.MemberID)-1].Address.String()
			// R of another member
			bads = append(bads, bad{"nonce-point-of-other-member", am.MemberID, mk(o.PubNonce, good.S()), addr})
			// correct share submitted under another assigned member's id (by that member's address)
			bads = append(bads, bad{"share-under-other-member-id", o.MemberID, good, oaddr})
			// right member id, wrong signer address
			bads = append(bads, bad{"wrong-signer-address", am.MemberID, good, oaddr})
			break
		}
		// malformed encodings of the correct share: a share is exactly 33 bytes R || 32 bytes z
		bads = append(bads, bad{"trailing-byte", am.MemberID, append(append(tss.Signature{}, good...), 0x00), addr})
		bads = append(bads, bad{"trailing-32-bytes", am.MemberID, append(append(tss.Signature{}, good...), make([]byte, 32)...), addr})
		bads = append(bads, bad{"truncated-by-one", am.MemberID, append(tss.Signature{}, good[:len(good)-1]...), addr})
		bads = append(bads, bad{"empty", am.MemberID, tss.Signature{}, addr})
		// z + n: the same residue, not a canonical scalar (when it still fits 32 bytes)
		zn := new(big.Int).SetBytes(good.S())
		zn.Add(zn, curveN)
		if zn.BitLen() <= 256 {
			bads = append(bads, bad{"scalar-plus-group-order", am.MemberID, append(append(tss.Signature{}, good.R()...), pad32(zn.Bytes())...), addr})
		}
		// a non-assigned member id / stranger
		bads = append(bads, bad{"stranger-signer", am.MemberID, good, bandtesting.Bob.Address.String()})
		before := w.HashStores(ctx, []string{"tss", "bandtss", "bank"}, nil)
		for _, bd := range bads {
			res := w.Tx(ctx, 0, tsstypes.NewMsgSubmitSignature(sid, bd.mid, bd.sig, bd.signer))
			tally.Eval()
			tally.Nontrivial(fmt.Sprintf("%s|%s|m%d", path[0], bd.name, am.MemberID))
			if res.OK() {
				fail("C03/corrupted-share-accepted:"+bd.name, "member %d, corruption %s accepted", am.MemberID, bd.name)
				return
			}
			tally.Saw("bad-share-rejected:" + bd.name)
			if after := w.HashStores(ctx, []string{"tss", "bandtss", "bank"}, nil); after != before {
				fail("C03/rejected-share-left-trace:"+bd.name, "stores changed after rejected %s", bd.name)
				return
			}
			if tk.HasPartialSignature(ctx, sid, sa.Attempt, am.MemberID) {
				fail("C03/rejected-share-stored:"+bd.name, "partial signature present after rejected %s", bd.name)
				return
			}
		}
		// --- the correct share ---
		res := w.Tx(ctx, 0, tsstypes.NewMsgSubmitSignature(sid, am.MemberID, good, addr))
		tally.Eval()
		if !res.OK() {
			fail("C03/correct-share-rejected", "member %d committee %v: %v", am.MemberID, committee, res.Err)
			return
		}
		tally.Saw("good-share-accepted")
	}
	next, br := w.Block(ctx, 1, 3*time.Second)
	if br.Halt != "" {
		fail("block-halt", "%s", br.Halt)
		return
	}
	ctx = next
	signing, _ = tk.GetSigning(ctx, sid)
	if signing.Status != tsstypes.SIGNING_STATUS_SUCCESS {
		fail("C03/no-group-signature-after-all-shares", "status %s", signing.Status)
		return
	}
	ok, err := verifyGroupSig(signing.Signature, group.PubKey, signing.Message)
	if err != nil || !ok {
		fail("C03/published-signature-does-not-verify", "n=%d t=%d committee %v: ok=%v err=%v", b.nt.N, b.nt.T, committee, ok, err)
		return
	}
	other := append([]byte(nil), signing.Message...)
	other[0] ^= 1
	if ok, _ := verifyGroupSig(signing.Signature, group.PubKey, other); ok {
		fail("C03/signature-verifies-for-another-message", "")
	}
	tally.Saw("group-signature-verified")
	tally.Sample(4, map[string]any{"n": b.nt.N, "t": b.nt.T, "committee": committee, "msg_len": len(msg), "signature": fmt.Sprintf("%x", []byte(signing.Signature))})
}

// staleScenario: a share bound to a timed-out attempt must be rejected in the next attempt.  All members
// hold nonces; the first assigned member A submits its share in attempt 1, the others stay idle and are
// penalised at the time-out; when A is assigned again in attempt 2 its attempt-1 share is replayed.
func (b *e2eBase) staleScenario(tally *engine.Tally) {
	if b.nt.T < 2 || b.nt.N < 2*b.nt.T-1 {
		return
	}
	w, g := b.w, b.g
	ctx := engine.Fork(b.ctx)
	cfg := map[string]any{"part": "e2e-stale", "n": b.nt.N, "t": b.nt.T}
	path := []string{fmt.Sprintf("stale-share n=%d t=%d", b.nt.N, b.nt.T)}
	for mi := range g.Accounts {
		tssh.Must(w.Tx(ctx, 0, tssh.SubmitDEsMsg(g.Accounts[mi].Address.String(), 0, 2)), "DEs")
	}
	req, _ := bandtsstypes.NewMsgRequestSignature(tsstypes.NewTextSignatureOrder([]byte("stale")), sdk.NewCoins(sdk.NewInt64Coin("uband", 1_000_000)), bandtesting.Alice.Address.String())
	tssh.Must(w.Tx(ctx, 0, req), "request")
	tk := w.App.TSSKeeper
	sid := tss.SigningID(tk.GetSigningCount(ctx))
	signing, _ := tk.GetSigning(ctx, sid)
	sa, _ := tk.GetSigningAttempt(ctx, sid, 1)
	a := sa.AssignedMembers[0]
	stale, err := g.PartialSig(signing, sa, a.MemberID)
	if err != nil {
		panic(err)
	}
	addr := g.Accounts[int(a.MemberID)-1].Address.String()
	tssh.Must(w.Tx(ctx, 0, tsstypes.NewMsgSubmitSignature(sid, a.MemberID, stale, addr)), "first share")
	for i := 0; i < 2; i++ {
		next, br := w.Block(ctx, 1, 3*time.Second)
		if br.Halt != "" {
			tally.Violate(cfg, path, "block-halt", br.Halt)
			return
		}
		ctx = next
	}
	signing, _ = tk.GetSigning(ctx, sid)
	if signing.Status != tsstypes.SIGNING_STATUS_WAITING || signing.CurrentAttempt != 2 {
		tally.Saw("stale:no-second-attempt")
		return
	}
	sa2, _ := tk.GetSigningAttempt(ctx, sid, 2)
	again := false
	for _, am := range sa2.AssignedMembers {
		if am.MemberID == a.MemberID {
			again = true
		}
	}
	if !again {
		tally.Saw("stale:member-not-reassigned")
		return
	}
	before := w.HashStores(ctx, []string{"tss", "bandtss", "bank"}, nil)
	res := w.Tx(ctx, 0, tsstypes.NewMsgSubmitSignature(sid, a.MemberID, stale, addr))
	tally.Eval()
	tally.Nontrivial(path[0])
	if res.OK() {
		tally.Violate(cfg, path, "C03/corrupted-share-accepted:previous-attempt-share", "share of attempt 1 accepted in attempt 2")
		return
	}
	if w.HashStores(ctx, []string{"tss", "bandtss", "bank"}, nil) != before {
		tally.Violate(cfg, path, "C03/rejected-share-left-trace:previous-attempt-share", "stores changed")
	}
	tally.Saw("bad-share-rejected:previous-attempt-share")
	// and the fresh share for attempt 2 is accepted
	fresh, err := g.PartialSig(signing, sa2, a.MemberID)
	if err != nil {
		panic(err)
	}
	if res := w.Tx(ctx, 0, tsstypes.NewMsgSubmitSignature(sid, a.MemberID, fresh, addr)); !res.OK() {
		tally.Violate(cfg, path, "C03/correct-share-rejected", fmt.Sprintf("attempt 2: %v", res.Err))
	}
}

// multiScenario: three signings are requested and all three receive their last share in the same block, in every one
// of the 3! orders of completion; at the end of that block each of them must carry a verifying group signature.
func (b *e2eBase) multiScenario(tally *engine.Tally) {
	w, g := b.w, b.g
	tk := w.App.TSSKeeper
	perms := [][3]int{{0, 1, 2}, {0, 2, 1}, {1, 0, 2}, {1, 2, 0}, {2, 0, 1}, {2, 1, 0}}
	for _, perm := range perms {
		ctx := engine.Fork(b.ctx)
		cfg := map[string]any{"part": "e2e-multi", "n": b.nt.N, "t": b.nt.T, "completion_order": perm}
		path := []string{fmt.Sprintf("three-signings-complete-in-one-block n=%d t=%d order=%v", b.nt.N, b.nt.T, perm)}
		for mi := range g.Accounts {
			tssh.Must(w.Tx(ctx, 0, tssh.SubmitDEsMsg(g.Accounts[mi].Address.String(), 0, 3)), "DEs")
		}
		var sids []tss.SigningID
		for k := 0; k < 3; k++ {
			req, _ := bandtsstypes.NewMsgRequestSignature(tsstypes.NewTextSignatureOrder([]byte(fmt.Sprintf("multi-%d", k))), sdk.NewCoins(sdk.NewInt64Coin("uband", 1_000_000)), bandtesting.Alice.Address.String())
			tssh.Must(w.Tx(ctx, 0, req), "request")
			sids = append(sids, tss.SigningID(tk.GetSigningCount(ctx)))
		}
		for _, k := range perm {
			sid := sids[k]
			signing, _ := tk.GetSigning(ctx, sid)
			sa, _ := tk.GetSigningAttempt(ctx, sid, signing.CurrentAttempt)
			for _, am := range sa.AssignedMembers {
				sig, err := g.PartialSig(signing, sa, am.MemberID)
				if err != nil {
					panic(err)
				}
				tally.Eval()
				if res := w.Tx(ctx, 0, tsstypes.NewMsgSubmitSignature(sid, am.MemberID, sig, g.Accounts[int(am.MemberID)-1].Address.String())); !res.OK() {
					tally.Violate(cfg, path, "C03/correct-share-rejected", fmt.Sprintf("signing %d member %d: %v", sid, am.MemberID, res.Err))
					return
				}
			}
		}
		next, br := w.Block(ctx, 1, 3*time.Second)
		if br.Halt != "" {
			tally.Violate(cfg, path, "block-halt", br.Halt)
			return
		}
		group, _ := tk.GetGroup(next, g.ID)
		for _, sid := range sids {
			signing, _ := tk.GetSigning(next, sid)
			if signing.Status != tsstypes.SIGNING_STATUS_SUCCESS {
				tally.Violate(cfg, path, "C03/no-group-signature-after-all-shares", fmt.Sprintf("signing %d (one of three completed in the same block, completion order %v): status %s", sid, perm, signing.Status))
				return
			}
			if ok, err := verifyGroupSig(signing.Signature, group.PubKey, signing.Message); err != nil || !ok {
				tally.Violate(cfg, path, "C03/published-signature-does-not-verify", fmt.Sprintf("signing %d: ok=%v err=%v", sid, ok, err))
				return
			}
		}
		tally.Saw("three-signings-completed-in-one-block")
		tally.Nontrivial(path[0])
	}
}

// deactivatedScenario: the committee, nonces and coefficients are fixed at assignment; a member that is deactivated after it
// was assigned (bandtss does that when the member misses ANOTHER signing) still holds its assignment, and its correct
// share must be accepted and lead to the group signature.
func (b *e2eBase) deactivatedScenario(tally *engine.Tally) {
	w, g := b.w, b.g
	tk := w.App.TSSKeeper
	ctx := engine.Fork(b.ctx)
	cfg := map[string]any{"part": "e2e-deactivated", "n": b.nt.N, "t": b.nt.T}
	path := []string{fmt.Sprintf("assigned-member-deactivated-before-signing n=%d t=%d", b.nt.N, b.nt.T)}
	for mi := range g.Accounts {
		tssh.Must(w.Tx(ctx, 0, tssh.SubmitDEsMsg(g.Accounts[mi].Address.String(), 0, 2)), "DEs")
	}
	req, _ := bandtsstypes.NewMsgRequestSignature(tsstypes.NewTextSignatureOrder([]byte("deactivated")), sdk.NewCoins(sdk.NewInt64Coin("uband", 1_000_000)), bandtesting.Alice.Address.String())
	tssh.Must(w.Tx(ctx, 0, req), "request")
	sid := tss.SigningID(tk.GetSigningCount(ctx))
	signing, _ := tk.GetSigning(ctx, sid)
	sa, _ := tk.GetSigningAttempt(ctx, sid, signing.CurrentAttempt)
	first := sa.AssignedMembers[0]
	// the two calls bandtss makes for an idle member of another signing
	if err := w.App.BandtssKeeper.DeactivateMember(ctx, g.Accounts[int(first.MemberID)-1].Address, g.ID); err != nil {
		panic(err)
	}
	for _, am := range sa.AssignedMembers {
		sig, err := g.PartialSig(signing, sa, am.MemberID)
		if err != nil {
			panic(err)
		}
		tally.Eval()
		if res := w.Tx(ctx, 0, tsstypes.NewMsgSubmitSignature(sid, am.MemberID, sig, g.Accounts[int(am.MemberID)-1].Address.String())); !res.OK() {
			tally.Violate(cfg, path, "C03/correct-share-rejected", fmt.Sprintf("member %d (deactivated after assignment: %v): %v", am.MemberID, am.MemberID == first.MemberID, res.Err))
			return
		}
	}
	next, br := w.Block(ctx, 1, 3*time.Second)
	if br.Halt != "" {
		tally.Violate(cfg, path, "block-halt", br.Halt)
		return
	}
	signing, _ = tk.GetSigning(next, sid)
	group, _ := tk.GetGroup(next, g.ID)
	if signing.Status != tsstypes.SIGNING_STATUS_SUCCESS {
		tally.Violate(cfg, path, "C03/no-group-signature-after-all-shares", fmt.Sprintf("status %s", signing.Status))
		return
	}
	if ok, err := verifyGroupSig(signing.Signature, group.PubKey, signing.Message); err != nil || !ok {
		tally.Violate(cfg, path, "C03/published-signature-does-not-verify", fmt.Sprintf("ok=%v err=%v", ok, err))
		return
	}
	tally.Saw("assigned-member-deactivated-before-signing:signed")
	tally.Nontrivial(path[0])
}

func runE2E(r *engine.Run, deadline time.Time) {
	maxN := 5
	if !r.Quick() {
		maxN = 7
	}
	var nts []nt
	for n := 1; n <= maxN; n++ {
		for t := 1; t <= n; t++ {
			nts = append(nts, nt{n, t})
		}
	}
	if !r.Quick() {
		nts = append(nts, nt{22, 2}, nt{22, 21})
	}
	bases := make([]*e2eBase, len(nts))
	for i, c := range nts {
		bases[i] = buildE2E(c, uint64(1000+i))
	}
	defer func() {
		for _, b := range bases {
			b.w.Close()
		}
	}()
	tally := engine.NewTally()
	msgs := [][]byte{{0x41}, bytes.Repeat([]byte{0x5a}, 32), bytes.Repeat([]byte{0x01}, 1000)}
	var mu sync.Mutex
	capped := false
	complete := engine.ParallelFor(int64(len(bases)), 0, deadline, func(_ int, idx int64) {
		b := bases[idx]
		b.staleScenario(tally)
		if b.nt.N <= 5 {
			b.multiScenario(tally)
			b.deactivatedScenario(tally)
		}
		cs := committees(b.nt.N, b.nt.T)
		if b.nt.N == 22 {
			// committees that include the ids above 20 (generic Lagrange path) and one that does not
			if b.nt.T == 2 {
				cs = [][]int{{20, 21}, {0, 21}, {19, 20}, {0, 1}}
			} else {
				var a, c2 []int
				for i := 0; i < 22; i++ {
					if i != 0 {
						a = append(a, i)
					}
					if i != 21 {
						c2 = append(c2, i)
					}
				}
				cs = [][]int{a, c2}
			}
		}
		for _, c := range cs {
			for _, m := range msgs {
				if !deadline.IsZero() && time.Now().After(deadline) {
					mu.Lock()
					capped = true
					mu.Unlock()
					return
				}
				b.scenario(c, m, tally)
			}
		}
	})
	if !complete || capped {
		r.Exhaustive = false
		r.CapReasons = append(r.CapReasons, "end-to-end scenarios: time cap")
	}
	tally.MergeInto(r)
	fmt.Printf("[C03] end-to-end: groups=%d evaluations so far=%d\n", len(nts), r.Evaluations)
}

func init() {
	engine.Register(&engine.Check{
		ID: "C03",
		Run: func(r *engine.Run) {
			r.Level = "exploration"
			r.Rule = "part 1: every (i,S) with S a subset of {1..20} (quick: |S|<=5, |S|>=16 or S within {1..16}) plus every subset of {1..6,21,22,40,2^32-1}; part 2: every (n,t) with t<=n<=5 (thorough 7, plus n=22), every t-subset as forced committee, 3 message lengths, for every assigned member every single-component corruption then the correct share; a case is non-trivial when |S|>1 (part 1) or is a corrupted share submission (part 2); distinct by (i,S) / (group, committee, message, member, corruption)"
			r.Bound = "Lagrange: up to 10,485,760 (i,S) pairs; end-to-end: n<=5 quick / n<=7 and n=22 thorough, all committees, messages of 1/32/1000 bytes"
			r.Assumptions = []string{
				"key material: one deterministic DKG per (n,t), not all keys",
				"'fewer than threshold cannot sign' is checked only as: the chain assigns exactly threshold members and publishes nothing before all assigned shares are in",
				"the independent verifier trusts go-ethereum's secp256k1 and keccak",
			}
			r.Required = []string{"lagrange-done", "lagrange-reject", "group-signature-verified", "good-share-accepted", "bad-share-rejected:scalar-plus-one",
				"bad-share-rejected:nonce-point-plus-G", "bad-share-rejected:different-message", "bad-share-rejected:lagrange-of-other-committee",
				"bad-share-rejected:share-under-other-member-id", "bad-share-rejected:unassigned-nonce", "bad-share-rejected:other-members-key-share", "bad-share-rejected:previous-attempt-share", "bad-share-rejected:trailing-byte", "shares-in-expiry-block", "three-signings-completed-in-one-block", "assigned-member-deactivated-before-signing:signed"}
			deadline := r.Deadline(4*time.Minute, 40*time.Minute)
			runLagrange(r, deadline)
			runE2E(r, deadline)
		},
		Replay: func(raw json.RawMessage, path []string) (engine.StepResult, []string) {
			// enum counterexamples are self-describing (config + tuple); re-run the quick check to reproduce
			return engine.StepResult{}, []string{"enum counterexample: re-run `bin/check C03 quick`; tuple: " + fmt.Sprint(path)}
		},
	})
}
