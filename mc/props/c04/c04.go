// Package c04 checks property C04 (DKG soundness): a group becomes ACTIVE only with mutually
// consistent key material; a dealer of an inconsistent share is provably caught; a complaint about
// a correct share marks only the complainant; a member that follows the protocol is never marked
// malicious.
//
// Engine: kvmc.  The alphabet drives the real x/tss message handlers and the whole-app block
// boundary for one group created through bandtss MsgTransitionGroup.  Members are driven with the
// daemon's own code: round 1 tss.GenerateRound1Info, round 2 tss.ComputeEncryptedSecretShares,
// round 3 cylinder/workers/group.getOwnPrivKey fed with the chain's real Query/Group response.
// A boring reference model (status, who submitted what, who deviated, who must be blamed) is stepped
// in lock-step; key consistency is recomputed with math/big and go-ethereum's curve (indep.go).
package c04

import (
	"bytes"
	"encoding/json"
	"fmt"
	"hash/fnv"
	"math/big"
	"sort"
	"strconv"
	"strings"
	"sync"
	"time"

	sdk "github.com/cosmos/cosmos-sdk/types"

	"github.com/bandprotocol/chain/v3/cylinder/client"
	cgroup "github.com/bandprotocol/chain/v3/cylinder/workers/group"
	"github.com/bandprotocol/chain/v3/pkg/tss"
	bandtesting "github.com/bandprotocol/chain/v3/testing"
	bandtsstypes "github.com/bandprotocol/chain/v3/x/bandtss/types"
	tsskeeper "github.com/bandprotocol/chain/v3/x/tss/keeper"
	tsstypes "github.com/bandprotocol/chain/v3/x/tss/types"
	"github.com/bandprotocol/chain/v3/zzverif/engine"
	"github.com/bandprotocol/chain/v3/zzverif/tssh"
)

// Cfg is one configuration.
type Cfg struct {
	N              int      `json:"n"`
	T              int      `json:"t"`
	MaxDev         int      `json:"max_deviating_members"`
	CreationPeriod uint64   `json:"creation_period"`
	Kinds          []string `json:"share_corruptions"` // x bit flip, p f(r)+1, k wrong key, s swapped slots
	Probes         bool     `json:"probes"`            // include the messages that must be rejected
	Depth          int      `json:"depth"`
	MaxStates      int      `json:"max_states,omitempty"`
	Budgeted       bool     `json:"time_budgeted,omitempty"` // gets an equal share of the remaining wall time
	// StartRound3: rounds 1 and 2 are run honestly (real handlers, two blocks) inside Build, the search
	// starts in round 3 (deviations in round 3 only).
	StartRound3 bool `json:"start_in_round3,omitempty"`
	// ZeroDealer/ZeroRecipient (member ids, 0 = off): the dealer's polynomial is a legal one with a root
	// at the recipient's id, i.e. the correct share f_dealer(recipient) is the scalar 0.
	ZeroDealer    int `json:"zero_share_dealer,omitempty"`
	ZeroRecipient int `json:"zero_share_recipient,omitempty"`
	// OlderGroup: before the group under test is proposed, an older group (same members) is proposed
	// through MsgTransitionGroup at height 2 and driven through the real handlers to FALLEN (honest
	// rounds 1-2, one unfounded complaint, the others confirm; 3 blocks), which ends its transition;
	// the group under test is then proposed at height 5.  The older group passes
	// CreatedHeight+CreationPeriod while the group under test is still inside its own period.
	OlderGroup bool `json:"older_group,omitempty"`
	// DupMembers: the group is proposed (MsgTransitionGroup by the authority) with a member list that
	// names one account twice; a lower-case letter is an account (a, b), the upper-case letter the same
	// account spelled in bech32's all-upper-case form.  The proposal is the first event of the search;
	// if it is rejected the search ends there, otherwise the DKG is driven as usual with the account
	// acting for each of its member ids.
	DupMembers []string `json:"duplicate_members,omitempty"`
	// LowerMaxGroupSize (0 = off): a parameter event "par" (real tss MsgUpdateParams by the authority,
	// all parameters as they are except max_group_size = this value, which is below n) is enabled once,
	// at any point before the group's creation period ends.  The group keeps its size.
	LowerMaxGroupSize uint64 `json:"lower_max_group_size_to,omitempty"`
	// DealerOnly: the only deviations are round-2 share corruptions towards the highest member id.
	DealerOnly bool `json:"dealer_deviations_only,omitempty"`
}

func (c Cfg) name() string {
	nm := fmt.Sprintf("n%d-t%d-dev%d-%s", c.N, c.T, c.MaxDev, strings.Join(c.Kinds, ""))
	if c.StartRound3 {
		nm += "-r3only"
	}
	if c.ZeroDealer > 0 {
		nm += fmt.Sprintf("-zero%dto%d", c.ZeroDealer, c.ZeroRecipient)
	}
	if c.OlderGroup {
		nm += fmt.Sprintf("-older-p%d", c.CreationPeriod)
	}
	if len(c.DupMembers) > 0 {
		nm += "-dup-" + strings.Join(c.DupMembers, "")
	}
	if c.LowerMaxGroupSize > 0 {
		nm += fmt.Sprintf("-maxsize%d", c.LowerMaxGroupSize)
	}
	return nm
}

type spec struct {
	cfg Cfg
	mt  *mat
	// caches of independently computed expected keys, by bc mask
	exp sync.Map
	// olderSweep: height whose EndBlock sweeps the older group (0 = no older group)
	olderSweep int64
	// dupMsg: the proposal of a DupMembers configuration (delivered by the "propose" event)
	dupMsg *bandtsstypes.MsgTransitionGroup
}

func (s *spec) Config() any { return s.cfg }

// ---- reference model ---------------------------------------------------------------------------

type model struct {
	St         string   // R1 R2 R3 ACTIVE FALLEN EXPIRED
	R1, R2, R3 []string // per member: code of the accepted submission ("" = none)
	Mal        []bool   // who must carry the malicious flag
	Dev        []bool   // who has deviated from the protocol on this path
	Created    int64
	Cleaned    bool // CreatedHeight+CreationPeriod reached: interim data must be gone
	Lowered    bool // the parameter event has been delivered
}

func (m *model) Clone() engine.Model {
	c := *m
	c.R1 = append([]string(nil), m.R1...)
	c.R2 = append([]string(nil), m.R2...)
	c.R3 = append([]string(nil), m.R3...)
	c.Mal = append([]bool(nil), m.Mal...)
	c.Dev = append([]bool(nil), m.Dev...)
	return &c
}

func (m *model) Key() string {
	return fmt.Sprintf("%s|%s|%s|%s|%v|%v|%d|%v", m.St, strings.Join(m.R1, ","), strings.Join(m.R2, ","), strings.Join(m.R3, ","), m.Mal, m.Dev, m.Created, m.Cleaned) + fmt.Sprintf("|%v", m.Lowered)
}

func all(xs []string) bool {
	for _, x := range xs {
		if x == "" {
			return false
		}
	}
	return true
}

func (m *model) nDev() int {
	c := 0
	for _, d := range m.Dev {
		if d {
			c++
		}
	}
	return c
}

func (m *model) anyMal() bool {
	for _, x := range m.Mal {
		if x {
			return true
		}
	}
	return false
}

func (m *model) bcMask() int {
	k := 0
	for i, c := range m.R1 {
		if c == "bc" {
			k |= 1 << i
		}
	}
	return k
}

// bad reports the ground truth: the share dealer j put on chain for recipient i is inconsistent
// with j's commitments (known from how the harness built the message, not from any verification).
func (s *spec) bad(m *model, j, i int) bool {
	if j == i {
		return false
	}
	pl, known := s.dealt(m, j, i)
	if !known {
		return false // nothing dealt yet
	}
	if pl == nil {
		return true
	}
	c := s.mt.coef[j]
	if m.R1[j] == "bc" {
		c = s.committed(1 << j)[j]
	}
	return pl.Cmp(polyEval(c, int64(i+1))) != 0
}

// dealt returns the plaintext dealer j's accepted round-2 message carries for recipient i (nil =
// garbage); known=false when j has no accepted round-2 message.
func (s *spec) dealt(m *model, j, i int) (pl *big.Int, known bool) {
	for _, v := range s.mt.r2[j] {
		if v.Code == m.R2[j] {
			return v.Plain[i], true
		}
	}
	return nil, false
}

func (s *spec) badIncoming(m *model, i int) []int {
	var out []int
	for j := 0; j < s.cfg.N; j++ {
		if s.bad(m, j, i) {
			out = append(out, j)
		}
	}
	return out
}

// ---- base state --------------------------------------------------------------------------------

func (s *spec) Build(w *engine.World) (sdk.Context, engine.Model) {
	ctx := engine.Fork(w.Root)
	tssh.ApplyParams(w, ctx, tssh.Params{CreationPeriod: s.cfg.CreationPeriod})
	n := s.cfg.N
	if len(s.cfg.DupMembers) > 0 {
		return s.buildDup(w, ctx)
	}
	accs := tssh.Accounts(n+1, int64(4000+10*n+s.cfg.T))
	if s.cfg.OlderGroup {
		ctx = s.buildOlderGroup(w, ctx, accs[:n])
	}
	g, res := tssh.ProposeGroup(w, ctx, accs[:n], uint64(s.cfg.T), ctx.BlockTime().Add(time.Hour))
	tssh.Must(res, "transition group")
	g.GenRound1()
	if s.cfg.ZeroDealer > 0 {
		craftZeroShare(g, s.cfg.ZeroDealer-1, s.cfg.ZeroRecipient-1)
	}
	g.GenRound2()
	setOwnKeys(g)
	s.mt = buildMat(g, accs[n], s.cfg.Kinds)
	grp := w.App.TSSKeeper.MustGetGroup(ctx, g.ID)
	m := &model{St: "R1", R1: make([]string, n), R2: make([]string, n), R3: make([]string, n),
		Mal: make([]bool, n), Dev: make([]bool, n), Created: int64(grp.CreatedHeight)}
	if s.cfg.StartRound3 {
		step := func() {
			next, br := w.Block(ctx, 1, 3*time.Second)
			if br.Halt != "" {
				panic("halt while building the round-3 base: " + br.Halt)
			}
			ctx = next
		}
		for i := 0; i < n; i++ {
			tssh.Must(w.Tx(ctx, 0, s.mt.r1h[i]), "honest round 1")
			m.R1[i] = "h"
		}
		step()
		for i := 0; i < n; i++ {
			tssh.Must(w.Tx(ctx, 0, s.mt.r2[i][0].Msg), "honest round 2")
			m.R2[i] = "h"
		}
		step()
		m.St = "R3"
		if got := chainStatus(w, ctx, g.ID); got != "R3" {
			panic("round-3 base: group is in status " + got)
		}
	}
	return ctx, m
}

// buildDup prepares a DupMembers configuration: the base state has no group; the proposal is tried on a
// throw-away fork, and only if the chain accepts it there the member-side material is generated (group
// id and DKG context are the same on the real path because both are functions of the unchanged state).
func (s *spec) buildDup(w *engine.World, ctx sdk.Context) (sdk.Context, engine.Model) {
	n := s.cfg.N
	if len(s.cfg.DupMembers) != n {
		panic("DupMembers must name n members")
	}
	accs := tssh.Accounts(3, int64(4900+s.cfg.T))
	var members []bandtesting.Account
	var strs []string
	for _, d := range s.cfg.DupMembers {
		a := accs[int(strings.ToLower(d)[0]-'a')]
		members = append(members, a)
		if d == strings.ToUpper(d) {
			strs = append(strs, strings.ToUpper(a.Address.String()))
		} else {
			strs = append(strs, a.Address.String())
		}
	}
	s.dupMsg = bandtsstypes.NewMsgTransitionGroup(strs, uint64(s.cfg.T), ctx.BlockTime().Add(time.Hour), tssh.Authority.String())
	s.mt = nil
	trial := engine.Fork(ctx)
	if res := w.Tx(trial, 0, s.dupMsg); res.OK() {
		gid := tss.GroupID(w.App.TSSKeeper.GetGroupCount(trial))
		dkg, err := w.App.TSSKeeper.GetDKGContext(trial, gid)
		if err != nil {
			panic(err)
		}
		g := &tssh.Group{ID: gid, N: uint64(n), T: uint64(s.cfg.T), Accounts: members, DKGCtx: dkg}
		g.GenRound1()
		g.GenRound2()
		setOwnKeys(g)
		s.mt = buildMat(g, accs[2], s.cfg.Kinds)
	}
	m := &model{St: "NONE", R1: make([]string, n), R2: make([]string, n), R3: make([]string, n),
		Mal: make([]bool, n), Dev: make([]bool, n)}
	return ctx, m
}

// buildOlderGroup proposes an older group with the same members and drives it to FALLEN through the
// real handlers: honest rounds 1 and 2, then member 1 files an unfounded complaint about member 2's
// (correct) share and the others confirm.  Its failure ends the bandtss transition, so that the group
// under test can be proposed through MsgTransitionGroup afterwards.
func (s *spec) buildOlderGroup(w *engine.World, ctx sdk.Context, accs []bandtesting.Account) sdk.Context {
	step := func() {
		next, br := w.Block(ctx, 1, 3*time.Second)
		if br.Halt != "" {
			panic("halt while building the older group: " + br.Halt)
		}
		ctx = next
	}
	a, res := tssh.ProposeGroup(w, ctx, accs, uint64(s.cfg.T), ctx.BlockTime().Add(time.Hour))
	tssh.Must(res, "older group: transition group")
	created := int64(w.App.TSSKeeper.MustGetGroup(ctx, a.ID).CreatedHeight)
	a.GenRound1()
	for i := range accs {
		tssh.Must(w.Tx(ctx, 0, a.Round1Msg(i)), "older group: round 1")
	}
	step()
	a.GenRound2()
	for i := range accs {
		tssh.Must(w.Tx(ctx, 0, a.Round2Msg(i)), "older group: round 2")
	}
	step()
	setOwnKeys(a)
	sig, keySym, err := tss.SignComplaint(a.R1[0].OneTimePubKey, a.R1[1].OneTimePubKey, a.R1[0].OneTimePrivKey)
	if err != nil {
		panic(err)
	}
	tssh.Must(w.Tx(ctx, 0, tsstypes.NewMsgComplain(a.ID, []tsstypes.Complaint{tsstypes.NewComplaint(1, 2, keySym, sig)}, accs[0].Address.String())), "older group: complaint")
	for i := 1; i < len(accs); i++ {
		tssh.Must(w.Tx(ctx, 0, a.ConfirmMsg(i)), "older group: confirm")
	}
	step()
	if got := chainStatus(w, ctx, a.ID); got != "FALLEN" {
		panic("older group is in status " + got)
	}
	s.olderSweep = created + int64(s.cfg.CreationPeriod)
	if ctx.BlockHeight() >= s.olderSweep {
		panic("older group already swept before the group under test exists")
	}
	return ctx
}

// ---- alphabet ----------------------------------------------------------------------------------

func (s *spec) Enabled(w *engine.World, ctx sdk.Context, mm engine.Model, depth int) []string {
	m := mm.(*model)
	n := s.cfg.N
	var evs []string
	add := func(f string, a ...any) { evs = append(evs, fmt.Sprintf(f, a...)) }
	devOK := func(i int) bool { return m.Dev[i] || m.nDev() < s.cfg.MaxDev }
	if m.St == "NONE" {
		return []string{"propose"}
	}
	for i := 0; i < n; i++ {
		if m.St == "R1" && m.R1[i] == "" {
			add("r1:%d:h", i)
			if devOK(i) && !s.cfg.DealerOnly {
				add("r1:%d:bc", i)
			}
			if s.cfg.Probes {
				for _, k := range x1Kinds {
					add("x1:%d:%s", i, k)
				}
			}
		} else if s.cfg.Probes {
			add("oor:r1:%d", i)
		}
		if m.St == "R2" && m.R2[i] == "" {
			for _, v := range s.mt.r2[i] {
				if s.cfg.DealerOnly && v.Code != "h" && !strings.HasSuffix(v.Code, strconv.Itoa(n-1)) {
					continue
				}
				if v.Code == "h" || devOK(i) {
					add("r2:%d:%s", i, v.Code)
				}
			}
			if s.cfg.Probes {
				for _, k := range x2Kinds {
					add("x2:%d:%s", i, k)
				}
			}
		} else if s.cfg.Probes {
			add("oor:r2:%d", i)
		}
		if m.St == "R3" && m.R3[i] == "" {
			add("r3:%d:h", i)
			if devOK(i) && !s.cfg.DealerOnly {
				for j := 0; j < n; j++ {
					if j == i {
						continue
					}
					if !s.bad(m, j, i) {
						add("r3:%d:fc%d", i, j)
					}
					add("r3:%d:ks%d", i, j)
					add("r3:%d:sg%d", i, j)
				}
				add("r3:%d:nr", i)
				if len(s.badIncoming(m, i)) > 0 {
					add("r3:%d:cfx", i)
				}
			}
			if s.cfg.Probes {
				for _, k := range x3Kinds {
					add("x3:%d:%s", i, k)
				}
			}
		} else if s.cfg.Probes {
			add("oor:cf:%d", i)
			add("oor:cp:%d", i)
		}
	}
	if !m.Cleaned {
		evs = append(evs, "blk", "exp")
		if s.cfg.LowerMaxGroupSize > 0 && !m.Lowered {
			evs = append(evs, "par")
		}
	}
	return evs
}

// ---- transitions -------------------------------------------------------------------------------

var randMu sync.Mutex

// detCall runs fn with the deterministic randomness stream positioned at a sub-stream that is a
// function of label only, so that the proof nonces drawn inside the daemon's code are the same on
// every path, worker and replay that reaches the same member-side situation.
func detCall(label string, fn func()) {
	h := fnv.New64a()
	h.Write([]byte(label))
	randMu.Lock()
	defer randMu.Unlock()
	engine.DetRandResetTo(h.Sum64() & 0x7fffffff)
	fn()
}

var statusName = map[tsstypes.GroupStatus]string{
	tsstypes.GROUP_STATUS_ROUND_1: "R1", tsstypes.GROUP_STATUS_ROUND_2: "R2", tsstypes.GROUP_STATUS_ROUND_3: "R3",
	tsstypes.GROUP_STATUS_ACTIVE: "ACTIVE", tsstypes.GROUP_STATUS_FALLEN: "FALLEN", tsstypes.GROUP_STATUS_EXPIRED: "EXPIRED",
}

var rank = map[string]int{"R1": 1, "R2": 2, "R3": 3, "ACTIVE": 4, "FALLEN": 4, "EXPIRED": 4}

func chainStatus(w *engine.World, ctx sdk.Context, gid tss.GroupID) string {
	g, err := w.App.TSSKeeper.GetGroup(ctx, gid)
	if err != nil {
		return "MISSING"
	}
	if s, ok := statusName[g.Status]; ok {
		return s
	}
	return g.Status.String()
}

func (s *spec) Step(w *engine.World, ctx sdk.Context, mm engine.Model, ev string) (sdk.Context, engine.StepResult) {
	m := mm.(*model)
	mt := s.mt
	var st engine.StepResult
	if ev == "propose" {
		return s.propose(w, ctx, m)
	}
	gid := mt.g.ID
	before := chainStatus(w, ctx, gid)
	parts := strings.Split(ev, ":")
	idx := func(k int) int { v, _ := strconv.Atoi(parts[k]); return v }
	switch parts[0] {
	case "blk":
		ctx = s.block(w, ctx, m, &st)
		st.Outcome = "blk"
	case "par":
		p := w.App.TSSKeeper.GetParams(ctx)
		p.MaxGroupSize = s.cfg.LowerMaxGroupSize
		res := w.Tx(ctx, 0, tsstypes.NewMsgUpdateParams(tssh.Authority.String(), p))
		st.Outcome = "par:max_group_size-below-n:" + res.ErrName()
		if res.OK() {
			m.Lowered = true
		}
	case "exp":
		for !m.Cleaned && len(st.Violations) == 0 {
			ctx = s.block(w, ctx, m, &st)
		}
		st.Outcome = "exp"
	case "oor", "x1", "x2", "x3":
		var msg sdk.Msg
		class := ""
		switch parts[0] {
		case "oor":
			i := idx(2)
			switch parts[1] {
			case "r1":
				msg = mt.r1h[i]
			case "r2":
				msg = mt.r2[i][0].Msg
			case "cf":
				msg = mt.cfTrue[i]
			case "cp":
				msg = tsstypes.NewMsgComplain(gid, []tsstypes.Complaint{mt.fc[i][(i+1)%s.cfg.N]}, mt.g.Accounts[i].Address.String())
			}
			why := "out-of-round"
			if (parts[1] == "r1" && m.St == "R1") || (parts[1] == "r2" && m.St == "R2") || ((parts[1] == "cf" || parts[1] == "cp") && m.St == "R3") {
				why = "duplicate"
			}
			class = fmt.Sprintf("%s:%s@%s", why, parts[1], m.St)
		case "x1":
			msg = mt.x1[parts[1]+":"+parts[2]]
			class = "round1:" + parts[2]
		case "x2":
			msg = mt.x2[parts[1]+":"+parts[2]]
			class = "round2:" + parts[2]
		case "x3":
			msg = mt.x3[parts[1]+":"+parts[2]]
			class = "round3:" + parts[2]
		}
		if msg == nil {
			engine.Fatal3("C04: no message for event %s", ev)
		}
		res := w.Tx(ctx, 0, msg)
		st.Outcome = "reject:" + class + ":" + res.ErrName()
		if res.OK() {
			st.Outcome = "ACCEPTED:" + class
			st.Violate("accepted-forbidden-submission:"+class, "%s was accepted (model status %s, chain status %s)", ev, m.St, before)
		} else if res.Panic != "" {
			st.Violate("handler-panic:"+class, "%s: %v", ev, res.Err)
		} else {
			// rejected: the seam wrote nothing, the child equals its parent (already explored and monitored)
			st.Stop = true
			return ctx, st
		}
	case "r1":
		i := idx(1)
		msg := mt.r1h[i]
		if parts[2] == "bc" {
			msg = mt.r1bc[i]
		}
		res := w.Tx(ctx, 0, msg)
		st.Outcome = "r1:" + parts[2] + ":" + res.ErrName()
		if res.OK() {
			m.R1[i] = parts[2]
			if parts[2] != "h" {
				m.Dev[i] = true
			}
		}
	case "r2":
		i := idx(1)
		var v *r2var
		for k := range mt.r2[i] {
			if mt.r2[i][k].Code == parts[2] {
				v = &mt.r2[i][k]
			}
		}
		if v == nil {
			engine.Fatal3("C04: no round-2 variant for event %s", ev)
		}
		res := w.Tx(ctx, 0, v.Msg)
		st.Outcome = "r2:" + parts[2][:1] + ":" + res.ErrName()
		if res.OK() {
			m.R2[i] = parts[2]
			if parts[2] != "h" {
				m.Dev[i] = true
			}
		}
	case "r3":
		s.round3(w, ctx, m, &st, idx(1), parts[2])
	default:
		engine.Fatal3("C04: unknown event %s", ev)
	}
	s.monitors(w, ctx, m, &st, before, ev)
	return ctx, st
}

// propose delivers the proposal of a DupMembers configuration.
func (s *spec) propose(w *engine.World, ctx sdk.Context, m *model) (sdk.Context, engine.StepResult) {
	var st engine.StepResult
	class := "duplicate-member-other-casing"
	seen := map[string]bool{}
	for _, x := range s.dupMsg.Members {
		if seen[x] {
			class = "duplicate-member-same-spelling"
		}
		seen[x] = true
	}
	res := w.Tx(ctx, 0, s.dupMsg)
	if !res.OK() {
		st.Outcome = "propose:" + class + ":rejected"
		st.Saw("propose:" + class + ":rejected:" + res.ErrName())
		st.Stop = true
		if res.Panic != "" {
			st.Violate("handler-panic:propose", "%v", res.Err)
		}
		return ctx, st
	}
	st.Outcome = "propose:" + class + ":ACCEPTED"
	if s.mt == nil {
		engine.Fatal3("C04: proposal %v accepted in Step but rejected on the trial fork in Build", s.dupMsg.Members)
	}
	grp, err := w.App.TSSKeeper.GetGroup(ctx, s.mt.g.ID)
	if err != nil {
		st.Violate("group-missing", "after an accepted proposal: %v", err)
		return ctx, st
	}
	m.St = "R1"
	m.Created = int64(grp.CreatedHeight)
	return ctx, st
}

// block: one block boundary; the model applies the README's status machine.
func (s *spec) block(w *engine.World, ctx sdk.Context, m *model, st *engine.StepResult) sdk.Context {
	height := ctx.BlockHeight()
	prev := m.St
	switch {
	case m.St == "R1" && all(m.R1):
		m.St = "R2"
	case m.St == "R2" && all(m.R2):
		m.St = "R3"
	case m.St == "R3" && all(m.R3):
		if m.anyMal() {
			m.St = "FALLEN"
		} else {
			m.St = "ACTIVE"
		}
	}
	if uint64(height) >= uint64(m.Created)+s.cfg.CreationPeriod {
		if m.St != "ACTIVE" && m.St != "FALLEN" {
			m.St = "EXPIRED"
		}
		m.Cleaned = true
	}
	next, br := w.Block(ctx, 1, 3*time.Second)
	if br.Halt != "" {
		st.Violate("block-halt", "%s", br.Halt)
		return ctx
	}
	if s.olderSweep != 0 && height == s.olderSweep {
		st.Saw("older-group-swept-while-group-in:" + prev)
	}
	if m.St != prev {
		label := "status:" + strings.ToLower(m.St)
		switch m.St {
		case "ACTIVE":
			label = "active:with-deviators"
			if m.nDev() == 0 {
				label = "active:all-honest"
			}
		case "FALLEN":
			caught, framed := false, false
			for i := range m.Mal {
				if m.Mal[i] {
					hasBad := false
					for r := 0; r < s.cfg.N; r++ {
						if s.bad(m, i, r) {
							hasBad = true
						}
					}
					if hasBad {
						caught = true
					} else {
						framed = true
					}
				}
			}
			if caught {
				st.Saw("fallen:bad-dealer-caught")
			}
			if framed {
				st.Saw("fallen:false-complainant-marked")
			}
		case "EXPIRED":
			label = "expired@" + prev
		}
		st.Saw(label)
	}
	return next
}

// round3: member i acts in round 3.
func (s *spec) round3(w *engine.World, ctx sdk.Context, m *model, st *engine.StepResult, i int, v string) {
	mt := s.mt
	n := s.cfg.N
	gid := mt.g.ID
	sender := mt.g.Accounts[i].Address.String()
	mid := tss.MemberID(i + 1)
	type exp struct {
		resp    int // respondent index
		success bool
	}
	var complaints []tsstypes.Complaint
	var expect []exp
	var confirm *tsstypes.MsgConfirm
	kind := v
	if len(v) > 2 && v != "cfx" {
		kind = v[:2]
	}
	j := -1
	if kind == "fc" || kind == "ks" || kind == "sg" {
		j, _ = strconv.Atoi(v[2:])
	}
	if kind == "h" || kind == "fc" {
		// the daemon's round-3 share handling on the chain's real query response
		resp, err := tsskeeper.NewQueryServer(w.App.TSSKeeper).Group(ctx, &tsstypes.QueryGroupRequest{GroupId: uint64(gid)})
		if err != nil {
			st.Violate("group-query-failed", "%v", err)
			return
		}
		var priv tss.Scalar
		var cs []tsstypes.Complaint
		label := fmt.Sprintf("%s|%d|%s|%s", s.cfg.name(), i, strings.Join(m.R1, ","), strings.Join(m.R2, ","))
		detCall(label, func() {
			priv, cs, err = cgroup.VerifGetOwnPrivKey(mt.dkg[i], client.NewGroupResult(resp))
			if err == nil && len(cs) == 0 {
				var sig tss.Signature
				sig, err = tss.SignOwnPubKey(mid, resp.GroupResult.DKGContext, priv.Point(), priv)
				confirm = tsstypes.NewMsgConfirm(gid, mid, sig, sender)
			}
		})
		if err != nil {
			st.Violate("member-share-handling-error", "member %d: %v", i+1, err)
			return
		}
		// the member complains exactly about the dealers whose share for it is inconsistent
		var got []int
		for _, c := range cs {
			got = append(got, int(c.Respondent)-1)
			if c.Complainant != mid {
				st.Violate("member-complaint-wrong-complainant", "member %d produced complaint with complainant %d", i+1, c.Complainant)
			}
		}
		sort.Ints(got)
		want := s.badIncoming(m, i)
		if fmt.Sprint(got) != fmt.Sprint(want) {
			fp := "honest-member-misjudges-shares:"
			switch {
			case len(got) > len(want):
				fp += "complains-about-correct-share"
			case len(got) < len(want):
				fp += "accepts-inconsistent-share"
			default:
				fp += "wrong-dealer"
			}
			st.Violate(fp, "member %d running the daemon's getOwnPrivKey complains about dealers %v (0-based); the inconsistent shares dealt to it are from %v (R1=%v R2=%v)", i+1, got, want, m.R1, m.R2)
			return
		}
		if len(cs) == 0 {
			// its key share is the sum of the shares dealt to it
			sum := new(big.Int)
			for d := 0; d < n; d++ {
				if d == i {
					sum.Add(sum, polyEval(mt.coef[d], int64(i+1)))
				} else if pl, _ := s.dealt(m, d, i); pl != nil {
					sum.Add(sum, pl)
				}
			}
			sum.Mod(sum, curveN)
			if new(big.Int).SetBytes(priv).Cmp(sum) != 0 {
				st.Violate("member-key-share-not-sum-of-dealt-shares", "member %d: daemon key %x, sum_j f_j(%d) = %x", i+1, []byte(priv), i+1, sum.Bytes())
				return
			}
		}
		complaints = cs
		for _, c := range cs {
			expect = append(expect, exp{int(c.Respondent) - 1, true})
		}
		if len(cs) > 0 && m.Lowered {
			st.Saw("genuine-complaint-after-max_group_size-lowered")
		}
		if len(cs) == 0 && s.cfg.ZeroRecipient == i+1 {
			if pl, known := s.dealt(m, s.cfg.ZeroDealer-1, i); known && pl != nil && pl.Sign() == 0 {
				st.Saw("zero-share-verified-by-recipient")
			}
		}
	}
	switch kind {
	case "h":
	case "fc":
		complaints = append(complaints, mt.fc[i][j])
		expect = append(expect, exp{j, false})
		confirm = nil
		if m.Mal[j] {
			st.Saw("unfounded-complaint-against-already-flagged-member")
		}
	case "ks":
		complaints = []tsstypes.Complaint{mt.ks[i][j]}
		expect = []exp{{j, false}}
	case "sg":
		complaints = []tsstypes.Complaint{mt.sg[i][j]}
		expect = []exp{{j, false}}
	case "nr":
		complaints = []tsstypes.Complaint{mt.nr[i]}
		expect = []exp{{n, false}}
	case "cfx":
		confirm = mt.cfTrue[i]
	default:
		engine.Fatal3("C04: unknown round-3 action %s", v)
	}

	if len(complaints) > 0 {
		cmsg := tsstypes.NewMsgComplain(gid, complaints, sender)
		events := dryRunEvents(w, ctx, cmsg)
		res := w.Tx(ctx, 0, cmsg)
		genuine := kind == "h"
		if genuine {
			st.Outcome = "r3:h:complain:" + res.ErrName()
		} else {
			st.Outcome = "r3:" + kind + ":" + res.ErrName()
		}
		if !res.OK() {
			if genuine {
				st.Violate("genuine-complaint-rejected", "member %d's complaint about the inconsistent share(s) from %v was rejected: %v", i+1, s.badIncoming(m, i), res.Err)
			} else {
				st.Violate("unfounded-complaint-rejected-unpunished:"+kind, "member %d's %s complaint was rejected instead of marking the complainant: %v", i+1, kind, res.Err)
			}
			return
		}
		m.R3[i] = "cp"
		if !genuine {
			m.Dev[i] = true
		}
		nOK, nFail := 0, 0
		for _, e := range expect {
			if e.success {
				m.Mal[e.resp] = true
				nOK++
			} else {
				m.Mal[i] = true
				nFail++
			}
		}
		gotOK := engine.EventsOfType(events, tsstypes.EventTypeComplainSuccess)
		gotFail := engine.EventsOfType(events, tsstypes.EventTypeComplainFailed)
		if len(gotOK) != nOK || len(gotFail) != nFail {
			fp := "complaint-verdict-mismatch:"
			if len(gotOK) > nOK {
				fp += "unfounded-complaint-succeeded"
			} else {
				fp += "founded-complaint-failed"
			}
			st.Violate(fp, "member %d %s: expected %d successful / %d failed complaints, events show %d / %d", i+1, v, nOK, nFail, len(gotOK), len(gotFail))
		}
		for _, e := range gotOK {
			st.Saw("complain_success")
			r, _ := strconv.Atoi(engine.Attr(e, tsstypes.AttributeKeyRespondentID))
			okResp := false
			for _, x := range expect {
				if x.success && x.resp == r-1 {
					okResp = true
				}
			}
			if !okResp {
				st.Violate("complaint-verdict-mismatch:wrong-respondent-blamed", "complain_success names respondent %d", r)
			}
		}
		for range gotFail {
			st.Saw("complain_failed")
		}
		if kind == "fc" && s.cfg.ZeroDealer == j+1 && s.cfg.ZeroRecipient == i+1 && len(gotFail) > 0 {
			st.Saw("unfounded-complaint-about-zero-share-failed")
		}
		return
	}
	res := w.Tx(ctx, 0, confirm)
	if kind == "h" && m.nDev() == 0 {
		st.Outcome = "r3:h:confirm:" + res.ErrName()
	} else if kind == "h" {
		st.Outcome = "r3:h-after-deviation:confirm:" + res.ErrName()
	} else {
		st.Outcome = "r3:cfx:" + res.ErrName()
	}
	if res.OK() {
		m.R3[i] = "cf"
		if kind != "h" {
			m.Dev[i] = true
		}
	}
}

// dryRunEvents returns the events the real handler emits for msg on a throw-away copy of ctx.  (The
// engine's Tx seam drops the events a message-router handler returns in its sdk.Result; the state
// change itself is always applied through the seam.)
func dryRunEvents(w *engine.World, ctx sdk.Context, msg sdk.Msg) (evs sdk.Events) {
	defer func() { _ = recover() }()
	h := w.App.MsgServiceRouter().Handler(msg)
	if h == nil {
		return nil
	}
	r, err := h(engine.Fork(ctx), msg)
	if err != nil || r == nil {
		return nil
	}
	for _, e := range r.GetEvents() {
		evs = append(evs, sdk.Event(e))
	}
	return evs
}

// ---- monitors ----------------------------------------------------------------------------------

// expected keys from the committed polynomials (bc dealers commit to top coefficient + 1)
func (s *spec) committed(mask int) [][]*big.Int {
	out := make([][]*big.Int, s.cfg.N)
	for j := range out {
		out[j] = append([]*big.Int(nil), s.mt.coef[j]...)
		if mask&(1<<j) != 0 {
			out[j][s.cfg.T-1] = new(big.Int).Add(out[j][s.cfg.T-1], big.NewInt(1))
		}
	}
	return out
}

func (s *spec) expGroupPub(mask int) []byte {
	k := fmt.Sprintf("g%d", mask)
	if v, ok := s.exp.Load(k); ok {
		return v.([]byte)
	}
	sum := new(big.Int)
	for _, c := range s.committed(mask) {
		sum.Add(sum, c[0])
	}
	b := compress(mulG(sum))
	s.exp.Store(k, b)
	return b
}

func (s *spec) expMemberPub(mask, i int) []byte {
	k := fmt.Sprintf("m%d:%d", mask, i)
	if v, ok := s.exp.Load(k); ok {
		return v.([]byte)
	}
	sum := new(big.Int)
	for _, c := range s.committed(mask) {
		sum.Add(sum, polyEval(c, int64(i+1)))
	}
	b := compress(mulG(sum))
	s.exp.Store(k, b)
	return b
}

func (s *spec) monitors(w *engine.World, ctx sdk.Context, m *model, st *engine.StepResult, before, ev string) {
	k := w.App.TSSKeeper
	mt := s.mt
	gid := mt.g.ID
	n, t := s.cfg.N, s.cfg.T
	grp, err := k.GetGroup(ctx, gid)
	if err != nil {
		st.Violate("group-missing", "%v", err)
		return
	}
	now := chainStatus(w, ctx, gid)
	evk := strings.Split(ev, ":")[0]

	// status machine
	if rank[now] < rank[before] || (rank[before] == 4 && now != before) {
		st.Violate("status-not-monotone:"+before+"->"+now, "on %s", ev)
	}
	members, err := k.GetGroupMembers(ctx, gid)
	if err != nil || len(members) != n {
		st.Violate("members-missing", "%v (%d members)", err, len(members))
		return
	}
	if now == "ACTIVE" {
		for i := 0; i < n; i++ {
			if m.Dev[i] {
				continue
			}
			if b := s.badIncoming(m, i); len(b) > 0 {
				st.Violate("active-despite-inconsistent-share-to-honest-member", "group ACTIVE although dealers %v (0-based) dealt member %d a share inconsistent with their commitments (R1=%v R2=%v R3=%v)", b, i+1, m.R1, m.R2, m.R3)
			}
		}
		for i := 0; i < n; i++ {
			if members[i].IsMalicious {
				st.Violate("active-with-malicious-member", "member %d is malicious in an ACTIVE group", i+1)
			}
		}
	}
	if now != m.St {
		st.Violate(fmt.Sprintf("status-mismatch:expected-%s-got-%s", m.St, now), "after %s at height %d: README status machine gives %s, chain has %s (R1=%v R2=%v R3=%v mal=%v created=%d period=%d)",
			ev, ctx.BlockHeight(), m.St, now, m.R1, m.R2, m.R3, m.Mal, m.Created, s.cfg.CreationPeriod)
	}

	// blame
	for i := 0; i < n; i++ {
		got := members[i].IsMalicious
		switch {
		case got && !m.Dev[i]:
			st.Violate("protocol-following-member-marked-malicious:on-"+evk, "member %d followed the protocol (R1=%v R2=%v R3=%v) but is marked malicious after %s", i+1, m.R1, m.R2, m.R3, ev)
		case got && !m.Mal[i]:
			st.Violate("deviating-member-marked-without-cause:on-"+evk, "member %d marked malicious after %s; no successful complaint against it and no failed complaint by it", i+1, ev)
		case !got && m.Mal[i]:
			role := "unfounded-complainant"
			for r := 0; r < n; r++ {
				if s.bad(m, i, r) {
					role = "bad-dealer"
				}
			}
			st.Violate("cheater-not-marked:"+role, "member %d should be marked malicious after %s (R1=%v R2=%v R3=%v)", i+1, ev, m.R1, m.R2, m.R3)
		}
	}

	// published key material (a key, once published, never changes; it must be the right one)
	mask := m.bcMask()
	if len(grp.PubKey) > 0 {
		if want := s.expGroupPub(mask); !bytes.Equal(grp.PubKey, want) {
			st.Violate("group-key-not-sum-of-constant-term-commitments:"+now, "Group.PubKey=%x, (sum_j a_j0)*G=%x", []byte(grp.PubKey), want)
		}
	} else if now != "R1" && now != "EXPIRED" {
		st.Violate("group-key-missing:"+now, "group in status %s has no public key", now)
	}
	for i := 0; i < n; i++ {
		if len(members[i].PubKey) == 0 {
			if now == "ACTIVE" {
				st.Violate("member-key-missing:ACTIVE", "member %d has no public key in an ACTIVE group", i+1)
			}
			continue
		}
		if want := s.expMemberPub(mask, i); !bytes.Equal(members[i].PubKey, want) {
			st.Violate("member-key-not-image-of-dealt-share-sum:"+now, "Member[%d].PubKey=%x, (sum_j f_j(%d))*G=%x", i+1, []byte(members[i].PubKey), i+1, want)
		}
	}
	if now == "ACTIVE" && before != "ACTIVE" {
		s.thresholdCheck(st, grp.PubKey, members, n, t)
	}

	// before CreatedHeight+CreationPeriod the submissions the group's progress is gated on are all there
	if !m.Cleaned {
		cnt := func(xs []string) uint64 {
			c := uint64(0)
			for _, x := range xs {
				if x != "" {
					c++
				}
			}
			return c
		}
		var lost []string
		if _, err := k.GetDKGContext(ctx, gid); err != nil {
			lost = append(lost, "dkg-context")
		}
		if uint64(len(k.GetRound1Infos(ctx, gid))) != cnt(m.R1) || k.GetRound1InfoCount(ctx, gid) != cnt(m.R1) {
			lost = append(lost, "round1")
		}
		if uint64(len(k.GetRound2Infos(ctx, gid))) != cnt(m.R2) || k.GetRound2InfoCount(ctx, gid) != cnt(m.R2) {
			lost = append(lost, "round2")
		}
		if uint64(len(k.GetConfirms(ctx, gid))+len(k.GetAllComplainsWithStatus(ctx, gid))) != cnt(m.R3) || k.GetConfirmComplainCount(ctx, gid) != cnt(m.R3) {
			lost = append(lost, "round3")
		}
		if cnt(m.R1) > 0 && len(k.GetAllAccumulatedCommits(ctx, gid)) != t {
			lost = append(lost, "accumulated-commits")
		}
		if len(lost) > 0 {
			st.Violate("submissions-not-as-accepted-before-expiry:"+strings.Join(lost, ","), "after %s at height %d (group created at %d, period %d, status %s): accepted R1=%v R2=%v R3=%v", ev, ctx.BlockHeight(), m.Created, s.cfg.CreationPeriod, now, m.R1, m.R2, m.R3)
		}
	}

	// expiry
	if m.Cleaned {
		var left []string
		if _, err := k.GetDKGContext(ctx, gid); err == nil {
			left = append(left, "dkg-context")
		}
		if len(k.GetRound1Infos(ctx, gid)) > 0 || k.GetRound1InfoCount(ctx, gid) != 0 {
			left = append(left, "round1")
		}
		if len(k.GetRound2Infos(ctx, gid)) > 0 || k.GetRound2InfoCount(ctx, gid) != 0 {
			left = append(left, "round2")
		}
		if len(k.GetConfirms(ctx, gid)) > 0 || len(k.GetAllComplainsWithStatus(ctx, gid)) > 0 || k.GetConfirmComplainCount(ctx, gid) != 0 {
			left = append(left, "round3")
		}
		if len(k.GetAllAccumulatedCommits(ctx, gid)) > 0 {
			left = append(left, "accumulated-commits")
		}
		if len(left) > 0 {
			st.Violate("interim-data-survives-expiry:"+strings.Join(left, ","), "after %s at height %d", ev, ctx.BlockHeight())
		}
	}
}

// thresholdCheck: from the published keys alone, every t-subset of member keys interpolates to the
// group key (so the partial signatures of any t members verify against it) and no (t-1)-subset does.
func (s *spec) thresholdCheck(st *engine.StepResult, groupPub []byte, members []tsstypes.Member, n, t int) {
	gp, err := decompress(groupPub)
	if err != nil {
		st.Violate("group-key-not-a-point", "%x: %v", groupPub, err)
		return
	}
	pts := map[int64]pt{}
	for i := 0; i < n; i++ {
		p, err := decompress(members[i].PubKey)
		if err != nil {
			st.Violate("member-key-not-a-point", "member %d %x: %v", i+1, []byte(members[i].PubKey), err)
			return
		}
		pts[int64(members[i].ID)] = p
	}
	for _, S := range subsets(n, t) {
		if !bytes.Equal(compress(interpolateAtZero(S, pts)), compress(gp)) {
			st.Violate("threshold-subset-does-not-reconstruct-group-key", "members %v: sum lambda_i*PubKey_i != Group.PubKey", S)
			return
		}
	}
	if t >= 2 {
		for _, S := range subsets(n, t-1) {
			if bytes.Equal(compress(interpolateAtZero(S, pts)), compress(gp)) {
				st.Violate("fewer-than-threshold-reconstruct-group-key", "members %v", S)
				return
			}
		}
	}
	st.Saw("keys-consistent")
}

// ---- registration ------------------------------------------------------------------------------

func configs(quick bool) []Cfg {
	const period = 4
	depth := func(n int) int { return 3*n + period + 4 }
	var out []Cfg
	// both tiers: (a) two deviating members in round 3 in every order, after honest rounds 1-2 (order-
	// dependent verdicts: complaints about members that are already flagged); (b) a legal polynomial with
	// a root at a recipient's id (the correct share is the scalar 0), one deviating member
	extra := []Cfg{
		{N: 3, T: 2, MaxDev: 2, CreationPeriod: period, Kinds: []string{"x"}, Probes: false, Depth: depth(3), StartRound3: true},
		{N: 2, T: 2, MaxDev: 1, CreationPeriod: period, Kinds: []string{"x", "p"}, Probes: false, Depth: depth(2), ZeroDealer: 1, ZeroRecipient: 2},
		// (c) an older FALLEN group (created at height 2) is swept at the end of height 7 while the group
		// under test (created at height 5, period 5) is in round 1, 2 or 3
		{N: 2, T: 2, MaxDev: 1, CreationPeriod: 5, Kinds: []string{"x"}, Probes: false, Depth: depth(2) + 1, OlderGroup: true},
		// (e) governance lowers max_group_size below n while the DKG is running; a dealer cheats the
		// highest member id
		{N: 3, T: 2, MaxDev: 1, CreationPeriod: period, Kinds: []string{"x"}, Probes: false, Depth: depth(3) + 1, LowerMaxGroupSize: 2, DealerOnly: true},
		// (d) proposals naming one account twice (other bech32 casing / same spelling): rejected on a
		// correct chain (one transition); otherwise the honest DKG with that account acting for both ids
		{N: 3, T: 2, MaxDev: 0, CreationPeriod: period, Kinds: []string{"x"}, Probes: false, Depth: depth(3) + 1, DupMembers: []string{"a", "A", "b"}},
		{N: 3, T: 2, MaxDev: 0, CreationPeriod: period, Kinds: []string{"x"}, Probes: false, Depth: depth(3) + 1, DupMembers: []string{"a", "b", "B"}},
		{N: 3, T: 2, MaxDev: 0, CreationPeriod: period, Kinds: []string{"x"}, Probes: false, Depth: depth(3) + 1, DupMembers: []string{"a", "a", "b"}},
	}
	if quick {
		for _, nt := range [][2]int{{2, 1}, {2, 2}, {3, 2}} {
			out = append(out, Cfg{N: nt[0], T: nt[1], MaxDev: 1, CreationPeriod: period, Kinds: []string{"x", "p", "s"}, Probes: true, Depth: depth(nt[0])})
		}
		out = append(out, extra...)
		return out
	}

	full := []string{"x", "p", "k", "s"}
	// exhaustive part: <=2 deviators for n=2, <=1 deviator for n=3,4
	for _, nt := range [][2]int{{2, 1}, {2, 2}} {
		out = append(out, Cfg{N: nt[0], T: nt[1], MaxDev: 2, CreationPeriod: period, Kinds: full, Probes: true, Depth: depth(nt[0])})
	}
	for _, nt := range [][2]int{{3, 2}, {3, 1}, {3, 3}} {
		out = append(out, Cfg{N: nt[0], T: nt[1], MaxDev: 1, CreationPeriod: period, Kinds: full, Probes: true, Depth: depth(nt[0])})
	}
	for _, nt := range [][2]int{{4, 2}, {4, 3}} {
		out = append(out, Cfg{N: nt[0], T: nt[1], MaxDev: 1, CreationPeriod: period, Kinds: []string{"x", "s"}, Probes: true, Depth: depth(nt[0])})
	}
	out = append(out, extra...)
	out = append(out,
		Cfg{N: 3, T: 2, MaxDev: 1, CreationPeriod: period, Kinds: []string{"x", "p"}, Probes: false, Depth: depth(3), ZeroDealer: 3, ZeroRecipient: 1},
		Cfg{N: 3, T: 3, MaxDev: 1, CreationPeriod: period, Kinds: []string{"x", "p"}, Probes: false, Depth: depth(3), ZeroDealer: 2, ZeroRecipient: 3},
		Cfg{N: 4, T: 2, MaxDev: 2, CreationPeriod: period, Kinds: []string{"x"}, Probes: false, Depth: depth(4), StartRound3: true},
	)
	// <=2 deviators for n=3,4: one corruption kind, no must-reject probes (covered above); each gets an
	// equal share of the remaining time and ends with exhaustive:false when it is used up
	for _, nt := range [][2]int{{3, 2}, {3, 1}, {3, 3}, {4, 2}, {4, 3}} {
		out = append(out, Cfg{N: nt[0], T: nt[1], MaxDev: 2, CreationPeriod: period, Kinds: []string{"x"}, Probes: false, Depth: depth(nt[0]), Budgeted: true})
	}
	return out
}

func init() {
	engine.Register(&engine.Check{
		ID: "C04",
		Run: func(r *engine.Run) {
			r.Bound = "one DKG per configuration, (n,t) in {(2,1),(2,2),(3,2)} quick / + {(3,1),(3,3),(4,2),(4,3)} thorough; <=1 (quick) / <=2 (thorough) deviating members; " +
				"every submission order within each round; per member and round the honest message or one deviation (round 1: commitment inconsistent with the dealt polynomial, wrong-length commitments, forged/replayed one-time and A0 proofs, proofs for another DKG context, wrong (member,sender) pairing, non-member sender; " +
				"round 2: share to each recipient corrupted (bit flip / f(r)+1 / wrong key), swapped slots, wrong number of shares, wrong pairing, non-member; round 3: false complaint about each correct share, wrong keySym, forged proof, unknown respondent, self complaint, confirm with wrong/replayed proof, confirm despite a bad share, wrong pairing, non-member, mixed complainants); " +
				"duplicates and out-of-round messages in every state; a block boundary or a jump to expiry after every prefix; creation_period=4 blocks; search to exhaustion of the reachable state space"
			r.Assumptions = []string{
				"polynomials, one-time keys and proof nonces are one seeded draw per configuration (VERIF_SEED)",
				"Tx seam = ValidateBasic + message-router handler in a cache context (ante chain not executed here; see C02)",
				"round 3 of every member runs cylinder/workers/group.getOwnPrivKey on the chain's Query/Group response; proof nonces drawn inside it come from a deterministic sub-stream keyed by (member, accepted round-1/2 submissions)",
				"acceptance of honest submissions is observed (vacuity guard), not asserted: the statement is about safety of ACTIVE and of blame",
				"published keys are compared with the expected ones as soon as they are non-empty (they never change afterwards), not only at ACTIVE",
				"signing with every threshold subset through the chain is C03's subject; here every t-subset (and no (t-1)-subset) of the published member keys must interpolate to the published group key",
			}
			r.Required = []string{"active:all-honest", "keys-consistent", "fallen:bad-dealer-caught", "fallen:false-complainant-marked",
				"expired@R1", "expired@R2", "expired@R3", "complain_success", "complain_failed",
				"r3:h:confirm:ok", "r3:h:complain:ok", "r3:fc:ok", "r3:ks:ok", "r3:sg:ok", "r3:nr:ok", "r1:bc:ok", "r2:x:ok", "r2:s:ok",
				"unfounded-complaint-against-already-flagged-member", "zero-share-verified-by-recipient", "unfounded-complaint-about-zero-share-failed",
				"older-group-swept-while-group-in:R1", "older-group-swept-while-group-in:R2", "older-group-swept-while-group-in:R3",
				"propose:duplicate-member-other-casing:rejected", "propose:duplicate-member-same-spelling:rejected",
				"par:max_group_size-below-n:ok", "genuine-complaint-after-max_group_size-lowered"}
			if !r.Quick() {
				r.Required = append(r.Required, "active:with-deviators", "r3:cfx:ok", "r2:k:ok")
			}
			deadline := r.Deadline(6*time.Minute, 40*time.Minute)
			cfgs := configs(r.Quick())
			for ci, c := range cfgs {
				sp := &spec{cfg: c}
				dl := deadline
				if c.Budgeted {
					if share := time.Now().Add(time.Until(deadline) / time.Duration(len(cfgs)-ci)); share.Before(dl) {
						dl = share
					}
				}
				sr := engine.Search(sp, engine.SearchOpts{Depth: c.Depth, Deadline: dl, MaxStates: c.MaxStates})
				if sr.Exhaustive && sr.MaxDepth >= c.Depth {
					// the depth bound, not the alphabet, ended the search
					sr.Exhaustive = false
					sr.CapReason = "depth bound reached before the state space was exhausted"
				}
				r.AddSearch(c.name(), c, sr)
				if len(r.Violations) > 0 {
					break
				}
			}
			r.ConfirmViolations(func(cfg any) engine.Spec { return &spec{cfg: cfg.(Cfg)} })
		},
		Replay: func(raw json.RawMessage, path []string) (engine.StepResult, []string) {
			var c Cfg
			if err := json.Unmarshal(raw, &c); err != nil {
				panic(err)
			}
			last, outs, _ := engine.Replay(&spec{cfg: c}, path)
			return last, outs
		},
	})
}
