package c04

// Independent key arithmetic for the C04 oracle: math/big polynomial evaluation modulo the curve
// order and go-ethereum's secp256k1 curve.  Nothing in this file touches pkg/tss.

import (
	"crypto/ecdsa"
	"fmt"
	"math/big"

	ethcrypto "github.com/ethereum/go-ethereum/crypto"
)

var (
	curve  = ethcrypto.S256()
	curveN = curve.Params().N
)

func pad32(b []byte) []byte {
	if len(b) >= 32 {
		return b[len(b)-32:]
	}
	out := make([]byte, 32)
	copy(out[32-len(b):], b)
	return out
}

// polyEval returns c0 + c1*x + ... + c_{t-1}*x^{t-1} mod N, term by term (no Horner, to differ
// from the implementation under test).
func polyEval(coefs []*big.Int, x int64) *big.Int {
	sum := new(big.Int)
	xb := big.NewInt(x)
	pow := big.NewInt(1)
	for _, c := range coefs {
		term := new(big.Int).Mul(c, pow)
		sum.Add(sum, term)
		sum.Mod(sum, curveN)
		pow = new(big.Int).Mul(pow, xb)
		pow.Mod(pow, curveN)
	}
	return sum
}

type pt struct{ X, Y *big.Int }

func (p pt) inf() bool { return p.X == nil || (p.X.Sign() == 0 && p.Y.Sign() == 0) }

// mulG returns k*G.
func mulG(k *big.Int) pt {
	kk := new(big.Int).Mod(k, curveN)
	if kk.Sign() == 0 {
		return pt{}
	}
	x, y := curve.ScalarBaseMult(pad32(kk.Bytes()))
	return pt{x, y}
}

func mulP(p pt, k *big.Int) pt {
	kk := new(big.Int).Mod(k, curveN)
	if kk.Sign() == 0 || p.inf() {
		return pt{}
	}
	x, y := curve.ScalarMult(p.X, p.Y, pad32(kk.Bytes()))
	return pt{x, y}
}

func addP(a, b pt) pt {
	if a.inf() {
		return b
	}
	if b.inf() {
		return a
	}
	if a.X.Cmp(b.X) == 0 {
		if a.Y.Cmp(b.Y) != 0 {
			return pt{} // P + (-P)
		}
		x, y := curve.Double(a.X, a.Y)
		return pt{x, y}
	}
	x, y := curve.Add(a.X, a.Y, b.X, b.Y)
	return pt{x, y}
}

// compress renders the 33-byte SEC1 compressed form (the chain's encoding of a point).
func compress(p pt) []byte {
	if p.inf() {
		return nil
	}
	return ethcrypto.CompressPubkey(&ecdsa.PublicKey{Curve: curve, X: p.X, Y: p.Y})
}

func decompress(b []byte) (pt, error) {
	if len(b) != 33 {
		return pt{}, fmt.Errorf("point of length %d", len(b))
	}
	pk, err := ethcrypto.DecompressPubkey(b)
	if err != nil {
		return pt{}, err
	}
	return pt{pk.X, pk.Y}, nil
}

// lagrangeAtZero = prod_{j in S, j != i} j/(j-i) mod N (exact rational first, then reduced).
func lagrangeAtZero(i int64, S []int64) *big.Int {
	num, den := big.NewInt(1), big.NewInt(1)
	for _, j := range S {
		if j == i {
			continue
		}
		num.Mul(num, big.NewInt(j))
		den.Mul(den, big.NewInt(j-i))
	}
	r := new(big.Rat).SetFrac(num, den)
	n := new(big.Int).Mod(r.Num(), curveN)
	d := new(big.Int).ModInverse(new(big.Int).Mod(r.Denom(), curveN), curveN)
	return n.Mul(n, d).Mod(n, curveN)
}

// subsets lists all k-subsets of {1..n} in lexicographic order.
func subsets(n, k int) [][]int64 {
	var out [][]int64
	var rec func(start int, cur []int64)
	rec = func(start int, cur []int64) {
		if len(cur) == k {
			out = append(out, append([]int64(nil), cur...))
			return
		}
		for v := start; v <= n; v++ {
			rec(v+1, append(cur, int64(v)))
		}
	}
	rec(1, nil)
	return out
}

// interpolateAtZero combines points P_i (i in S) with the Lagrange coefficients of S at 0.
func interpolateAtZero(S []int64, pts map[int64]pt) pt {
	var acc pt
	for _, i := range S {
		acc = addP(acc, mulP(pts[i], lagrangeAtZero(i, S)))
	}
	return acc
}
