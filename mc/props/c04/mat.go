package c04

// Member-side material of one DKG scenario.  Everything a member draws at random (polynomials,
// one-time keys, ElGamal nonces, proof nonces of the deviating messages) is generated here, inside
// Spec.Build, so that Step is deterministic.  The material is produced with the same pkg/tss calls
// the cylinder daemon uses (round 1: tss.GenerateRound1Info, round 2:
// tss.ComputeEncryptedSecretShares); deviations are derived from the honest material.

import (
	"fmt"
	"math/big"

	sdk "github.com/cosmos/cosmos-sdk/types"

	"github.com/bandprotocol/chain/v3/cylinder/store"
	"github.com/bandprotocol/chain/v3/pkg/tss"
	bandtesting "github.com/bandprotocol/chain/v3/testing"
	tsstypes "github.com/bandprotocol/chain/v3/x/tss/types"
	"github.com/bandprotocol/chain/v3/zzverif/tssh"
)

// r2var is one round-2 message of a dealer: the honest one or a corruption.
type r2var struct {
	Code string // "h" | "x<r>" | "p<r>" | "k<r>" | "s"
	Msg  *tsstypes.MsgSubmitDKGRound2
	// Plain[r]: the plaintext the message carries for recipient r as the harness constructed it; nil =
	// the recipient decrypts to garbage (ciphertext tampered with / wrong key / wrong slot)
	Plain []*big.Int
}

type mat struct {
	g        *tssh.Group
	n, t     int
	outsider bandtesting.Account
	coef     [][]*big.Int // coef[j][k]: k-th coefficient of dealer j's polynomial (the one shares are dealt from)

	r1h, r1bc []*tsstypes.MsgSubmitDKGRound1
	x1        map[string]sdk.Msg // "<i>:<kind>" round-1 shaped messages that must be rejected
	r2        [][]r2var          // r2[i][0] is the honest message
	x2        map[string]sdk.Msg
	fc        [][]tsstypes.Complaint // fc[i][j]: well-formed complaint of i about j (real keySym, real proof)
	ks        [][]tsstypes.Complaint // wrong keySym, proof made for the real one
	sg        [][]tsstypes.Complaint // real keySym, proof made with another private key
	nr        []tsstypes.Complaint   // well-formed proof, respondent id n+1 (no such member)
	cfTrue    []*tsstypes.MsgConfirm // confirm signed with the key sum_j f_j(i) (all shares taken as dealt from the polynomials)
	x3        map[string]sdk.Msg
	dkg       []store.DKG // what the daemon keeps in its store between round 1 and round 3
}

func must[T any](v T, err error) T {
	if err != nil {
		panic(err)
	}
	return v
}

// scalarOf renders b mod N as a 32-byte scalar (zero allowed: a share may legally be 0).
func scalarOf(b *big.Int) tss.Scalar {
	return tss.Scalar(pad32(new(big.Int).Mod(b, curveN).Bytes()))
}

// craftZeroShare replaces dealer j's (0-based) polynomial by a legal one with a root at the member id
// of recipient r (0-based): a_0 and a_2.. are kept as drawn, a_1 = -(a_0 + sum_{k>=2} a_k x^k)/x mod N.
// Commitments are the real pkg/tss images of the coefficients; the A0 proof and the one-time key are
// unaffected (a_0 is unchanged).  Requires t >= 2.
func craftZeroShare(g *tssh.Group, j, r int) {
	r1 := &g.R1[j]
	if len(r1.Coefficients) < 2 {
		panic("craftZeroShare needs threshold >= 2")
	}
	x := big.NewInt(int64(r + 1))
	rest := new(big.Int)
	pow := big.NewInt(1)
	for k, c := range r1.Coefficients {
		if k != 1 {
			rest.Add(rest, new(big.Int).Mul(new(big.Int).SetBytes(c), pow))
		}
		pow = new(big.Int).Mul(pow, x)
	}
	a1 := new(big.Int).Mul(new(big.Int).Neg(rest), new(big.Int).ModInverse(x, curveN))
	a1.Mod(a1, curveN)
	if a1.Sign() == 0 {
		panic("craftZeroShare: degenerate coefficient")
	}
	coefs := append(tss.Scalars(nil), r1.Coefficients...)
	coefs[1] = scalarOf(a1)
	commits := append(tss.Points(nil), r1.CoefficientCommits...)
	commits[1] = coefs[1].Point()
	r1.Coefficients, r1.CoefficientCommits = coefs, commits
	var big_ []*big.Int
	for _, c := range coefs {
		big_ = append(big_, new(big.Int).SetBytes(c))
	}
	if polyEval(big_, int64(r+1)).Sign() != 0 {
		panic("craftZeroShare: polynomial has no root at the recipient id")
	}
}

// setOwnKeys computes every member's key share sum_j f_j(i) from the polynomials (material for the
// confirm messages used as probes; the members' own round-3 handling is the daemon's code in Step).
func setOwnKeys(g *tssh.Group) {
	g.OwnPriv = make([]tss.Scalar, g.N)
	for i := 0; i < int(g.N); i++ {
		sum := new(big.Int)
		for j := 0; j < int(g.N); j++ {
			var cs []*big.Int
			for _, c := range g.R1[j].Coefficients {
				cs = append(cs, new(big.Int).SetBytes(c))
			}
			sum.Add(sum, polyEval(cs, int64(i+1)))
		}
		g.OwnPriv[i] = scalarOf(sum)
	}
}

// slotOf is the harness's own statement of where dealer d puts the share for recipient r (both
// 0-based): recipients in increasing order, the dealer itself left out.
func slotOf(d, r int) int {
	if r < d {
		return r
	}
	return r - 1
}

func cloneShares(e tss.EncSecretShares) tss.EncSecretShares {
	out := make(tss.EncSecretShares, len(e))
	for i := range e {
		out[i] = append(tss.EncSecretShare(nil), e[i]...)
	}
	return out
}

func r1info(mid int, r1 tss.Round1Info) tsstypes.Round1Info {
	return tsstypes.NewRound1Info(tss.MemberID(mid), append(tss.Points(nil), r1.CoefficientCommits...), r1.OneTimePubKey, r1.A0Signature, r1.OneTimeSignature)
}

func buildMat(g *tssh.Group, outsider bandtesting.Account, kinds []string) *mat {
	n, t := int(g.N), int(g.T)
	mt := &mat{g: g, n: n, t: t, outsider: outsider, x1: map[string]sdk.Msg{}, x2: map[string]sdk.Msg{}, x3: map[string]sdk.Msg{}}
	addr := func(i int) string { return g.Accounts[i].Address.String() }
	other := func(i int) int { return (i + 1) % n }

	for j := 0; j < n; j++ {
		var cs []*big.Int
		for _, c := range g.R1[j].Coefficients {
			cs = append(cs, new(big.Int).SetBytes(c))
		}
		mt.coef = append(mt.coef, cs)
		mt.dkg = append(mt.dkg, store.DKG{GroupID: g.ID, MemberID: tss.MemberID(j + 1), Coefficients: g.R1[j].Coefficients, OneTimePrivKey: g.R1[j].OneTimePrivKey})
	}

	// ---- round 1 ----
	otherCtx := tss.Hash([]byte("verif-c04-another-dkg-context"))
	for i := 0; i < n; i++ {
		mid := tss.MemberID(i + 1)
		r1 := g.R1[i]
		mt.r1h = append(mt.r1h, g.Round1Msg(i))

		// bc: commit to a polynomial whose highest coefficient is one more than the one the shares are
		// dealt from (valid proofs of possession: for t=1 the A0 proof is redone for the new constant term)
		bc := r1info(i+1, r1)
		top := new(big.Int).Add(mt.coef[i][t-1], big.NewInt(1))
		bc.CoefficientCommits[t-1] = scalarOf(top).Point()
		if t == 1 {
			bc.A0Signature = must(tss.SignA0(mid, g.DKGCtx, bc.CoefficientCommits[0], scalarOf(top)))
		}
		mt.r1bc = append(mt.r1bc, tsstypes.NewMsgSubmitDKGRound1(g.ID, bc, addr(i)))

		put := func(kind string, info tsstypes.Round1Info, sender string) {
			mt.x1[fmt.Sprintf("%d:%s", i, kind)] = tsstypes.NewMsgSubmitDKGRound1(g.ID, info, sender)
		}
		short := r1info(i+1, r1)
		short.CoefficientCommits = short.CoefficientCommits[:t-1]
		put("len-", short, addr(i))
		long := r1info(i+1, r1)
		long.CoefficientCommits = append(long.CoefficientCommits, r1.OneTimePubKey)
		put("len+", long, addr(i))
		ots := r1info(i+1, r1)
		ots.OneTimeSignature = must(tss.SignOneTime(mid, g.DKGCtx, r1.OneTimePubKey, r1.A0PrivKey))
		put("ots", ots, addr(i))
		a0s := r1info(i+1, r1)
		a0s.A0Signature = must(tss.SignA0(mid, g.DKGCtx, r1.A0PubKey, r1.OneTimePrivKey))
		put("a0s", a0s, addr(i))
		if n >= 2 {
			o := g.R1[other(i)]
			otr := r1info(i+1, r1) // another member's one-time key and its proof, replayed under this member id
			otr.OneTimePubKey, otr.OneTimeSignature = o.OneTimePubKey, o.OneTimeSignature
			put("otr", otr, addr(i))
			a0r := r1info(i+1, r1) // another member's commitments and A0 proof, replayed under this member id
			a0r.CoefficientCommits, a0r.A0Signature = append(tss.Points(nil), o.CoefficientCommits...), o.A0Signature
			put("a0r", a0r, addr(i))
			mid2 := r1info(other(i)+1, g.R1[other(i)]) // the other member's complete honest info, sent by this member
			put("pair", mid2, addr(i))
		}
		foreign := must(tss.GenerateRound1Info(mid, uint64(t), otherCtx)) // proofs bound to another DKG context
		put("ctx", r1info(i+1, *foreign), addr(i))
		put("nonmem", r1info(i+1, r1), outsider.Address.String())
	}

	// ---- round 2 ----
	has := func(k string) bool {
		for _, x := range kinds {
			if x == k {
				return true
			}
		}
		return false
	}
	mt.r2 = make([][]r2var, n)
	for d := 0; d < n; d++ {
		mid := tss.MemberID(d + 1)
		mk := func(code string, enc tss.EncSecretShares, garbage []int, plus1 int) {
			pl := make([]*big.Int, n)
			for r := 0; r < n; r++ {
				pl[r] = polyEval(mt.coef[d], int64(r+1))
			}
			for _, r := range garbage {
				pl[r] = nil
			}
			if plus1 >= 0 {
				pl[plus1] = new(big.Int).Add(pl[plus1], big.NewInt(1))
				pl[plus1].Mod(pl[plus1], curveN)
			}
			mt.r2[d] = append(mt.r2[d], r2var{Code: code, Plain: pl,
				Msg: tsstypes.NewMsgSubmitDKGRound2(g.ID, tsstypes.NewRound2Info(mid, enc), addr(d))})
		}
		mk("h", cloneShares(g.Enc[d]), nil, -1)
		for r := 0; r < n; r++ {
			if r == d {
				continue
			}
			sl := slotOf(d, r)
			keySym := must(tss.ComputeSecretSym(g.R1[d].OneTimePrivKey, g.R1[r].OneTimePubKey))
			if has("x") { // one ciphertext bit flipped
				e := cloneShares(g.Enc[d])
				e[sl][5] ^= 0x10
				mk(fmt.Sprintf("x%d", r), e, []int{r}, -1)
			}
			if has("p") { // f(r)+1, correctly encrypted for the recipient
				e := cloneShares(g.Enc[d])
				plain := new(big.Int).Add(polyEval(mt.coef[d], int64(r+1)), big.NewInt(1))
				e[sl] = must(tss.Encrypt(scalarOf(plain), keySym, tss.DefaultNonce16Generator{}))
				mk(fmt.Sprintf("p%d", r), e, nil, r)
			}
			if has("k") { // f(r), encrypted under a key the recipient cannot derive
				e := cloneShares(g.Enc[d])
				wrongKey := must(tss.ComputeSecretSym(g.R1[d].A0PrivKey, g.R1[r].OneTimePubKey))
				e[sl] = must(tss.Encrypt(scalarOf(polyEval(mt.coef[d], int64(r+1))), wrongKey, tss.DefaultNonce16Generator{}))
				mk(fmt.Sprintf("k%d", r), e, []int{r}, -1)
			}
		}
		if has("s") && n >= 3 { // the shares of the two lowest recipients in each other's slot
			var rs []int
			for r := 0; r < n && len(rs) < 2; r++ {
				if r != d {
					rs = append(rs, r)
				}
			}
			e := cloneShares(g.Enc[d])
			a, b := slotOf(d, rs[0]), slotOf(d, rs[1])
			e[a], e[b] = e[b], e[a]
			mk("s", e, []int{rs[0], rs[1]}, -1)
		}
		put := func(kind string, enc tss.EncSecretShares, memberID int, sender string) {
			mt.x2[fmt.Sprintf("%d:%s", d, kind)] = tsstypes.NewMsgSubmitDKGRound2(g.ID, tsstypes.NewRound2Info(tss.MemberID(memberID), enc), sender)
		}
		put("cnt-", cloneShares(g.Enc[d])[:n-2], d+1, addr(d))
		put("cnt+", append(cloneShares(g.Enc[d]), append(tss.EncSecretShare(nil), g.Enc[d][0]...)), d+1, addr(d))
		put("pair", cloneShares(g.Enc[other(d)]), other(d)+1, addr(d))
		put("nonmem", cloneShares(g.Enc[d]), d+1, outsider.Address.String())
	}

	// ---- round 3 ----
	mt.fc, mt.ks, mt.sg = make([][]tsstypes.Complaint, n), make([][]tsstypes.Complaint, n), make([][]tsstypes.Complaint, n)
	for i := 0; i < n; i++ {
		mid := tss.MemberID(i + 1)
		mt.fc[i], mt.ks[i], mt.sg[i] = make([]tsstypes.Complaint, n), make([]tsstypes.Complaint, n), make([]tsstypes.Complaint, n)
		for j := 0; j < n; j++ {
			if j == i {
				continue
			}
			sig, keySym, err := tss.SignComplaint(g.R1[i].OneTimePubKey, g.R1[j].OneTimePubKey, g.R1[i].OneTimePrivKey)
			if err != nil {
				panic(err)
			}
			mt.fc[i][j] = tsstypes.NewComplaint(mid, tss.MemberID(j+1), keySym, sig)
			// wrong symmetric key: the one-time key combined with the respondent's A0 commitment
			wrongSym := must(tss.ComputeSecretSym(g.R1[i].OneTimePrivKey, g.R1[j].A0PubKey))
			mt.ks[i][j] = tsstypes.NewComplaint(mid, tss.MemberID(j+1), wrongSym, sig)
			// proof produced with a key that is not the complainant's one-time key
			sig2, _, err := tss.SignComplaint(g.R1[i].OneTimePubKey, g.R1[j].OneTimePubKey, g.R1[i].A0PrivKey)
			if err != nil {
				panic(err)
			}
			mt.sg[i][j] = tsstypes.NewComplaint(mid, tss.MemberID(j+1), keySym, sig2)
		}
		o := other(i)
		if n == 1 {
			continue
		}
		ghost := mt.fc[i][o]
		ghost.Respondent = tss.MemberID(n + 1)
		mt.nr = append(mt.nr, ghost)
		mt.cfTrue = append(mt.cfTrue, g.ConfirmMsg(i))

		put := func(kind string, m sdk.Msg) { mt.x3[fmt.Sprintf("%d:%s", i, kind)] = m }
		self := mt.fc[i][o]
		self.Respondent = mid
		put("self", tsstypes.NewMsgComplain(g.ID, []tsstypes.Complaint{self}, addr(i)))
		badSig := must(tss.SignOwnPubKey(mid, g.DKGCtx, g.OwnPriv[i].Point(), g.R1[i].A0PrivKey))
		put("cs", tsstypes.NewMsgConfirm(g.ID, mid, badSig, addr(i)))
		put("nonmem", tsstypes.NewMsgConfirm(g.ID, mid, g.ConfirmMsg(i).OwnPubKeySig, outsider.Address.String()))
		put("cnonmem", tsstypes.NewMsgComplain(g.ID, []tsstypes.Complaint{mt.fc[i][o]}, outsider.Address.String()))
	}
	for i := 0; i < n && n >= 2; i++ {
		o := other(i)
		mid := tss.MemberID(i + 1)
		put := func(kind string, m sdk.Msg) { mt.x3[fmt.Sprintf("%d:%s", i, kind)] = m }
		// another member's (valid) confirmation proof under this member id
		put("csr", tsstypes.NewMsgConfirm(g.ID, mid, mt.cfTrue[o].OwnPubKeySig, addr(i)))
		// this member's valid confirmation sent by another member's account
		put("pair", tsstypes.NewMsgConfirm(g.ID, mid, mt.cfTrue[i].OwnPubKeySig, addr(o)))
		// this member's well-formed complaint sent by another member's account
		put("cpair", tsstypes.NewMsgComplain(g.ID, []tsstypes.Complaint{mt.fc[i][o]}, addr(o)))
		// complaints of two different complainants in one message
		put("cmix", tsstypes.NewMsgComplain(g.ID, []tsstypes.Complaint{mt.fc[i][o], mt.fc[o][i]}, addr(i)))
	}
	return mt
}

var x1Kinds = []string{"len-", "len+", "ots", "otr", "a0s", "a0r", "ctx", "pair", "nonmem"}
var x2Kinds = []string{"cnt-", "cnt+", "pair", "nonmem"}
var x3Kinds = []string{"self", "cs", "csr", "pair", "nonmem", "cpair", "cnonmem", "cmix"}
