// Package c05 checks property C05 (a signing nonce pair is used at most once) with the shared signing
// life-cycle specification (props/tsssig).
package c05

import (
	"time"

	"github.com/bandprotocol/chain/v3/zzverif/engine"
	"github.com/bandprotocol/chain/v3/zzverif/props/tsssig"
)

func configs(quick bool) []tsssig.Cfg {
	ev := []string{"de1", "de2", "reset", "maxde", "req", "reqfail", "oreq", "oreqlow", "sig", "block"}
	coll := []string{"req", "sig", "block"} // several signings timing out and retried in the same block
	if quick {
		return []tsssig.Cfg{
			{N: 3, T: 2, SigningPeriod: 1, MaxSigningAttempt: 2, MaxDESize: 2, InitDE: 1, MaxReq: 3, Depth: 5, Events: ev, FeePerSigner: 10},
			{N: 3, T: 2, SigningPeriod: 2, MaxSigningAttempt: 2, MaxDESize: 1, InitDE: 1, MaxReq: 2, Depth: 6, Events: ev, FeePerSigner: 10},
			{N: 3, T: 2, SigningPeriod: 1, MaxSigningAttempt: 3, MaxDESize: 4, InitDE: 3, MaxReq: 3, Depth: 8, Events: coll, FeePerSigner: 10},
		}
	}
	var out []tsssig.Cfg
	for _, mx := range []uint64{1, 2, 3} {
		for _, p := range []uint64{1, 2} {
			for _, a := range []uint64{1, 2} {
				out = append(out, tsssig.Cfg{N: 3, T: 2, SigningPeriod: p, MaxSigningAttempt: a, MaxDESize: mx, InitDE: 1, MaxReq: 3, Depth: 8, Events: ev, FeePerSigner: 10})
			}
		}
	}
	out = append(out, tsssig.Cfg{N: 3, T: 2, SigningPeriod: 1, MaxSigningAttempt: 3, MaxDESize: 5, InitDE: 4, MaxReq: 4, Depth: 11, Events: coll, FeePerSigner: 10},
		tsssig.Cfg{N: 4, T: 2, SigningPeriod: 2, MaxSigningAttempt: 2, MaxDESize: 4, InitDE: 3, MaxReq: 3, Depth: 10, Events: coll, FeePerSigner: 10})
	return out
}

func init() {
	engine.Register(&engine.Check{
		ID: "C05",
		Run: func(r *engine.Run) {
			r.Bound = "(plus: export/import of the tss genesis for 1-5 members x 1-25 queued pairs x 0-3 consumed, queue order compared) group of 3, t=2 installed by a real DKG; unique nonce tokens; interleavings of SubmitDEs(1|2), ResetDE, MaxDESize lowered/restored by governance, RequestSignature, RequestSignature rolled back by a failing second message, oracle results put to the group at block end (created / refused for fee limit / refused for lack of nonces inside the cache context), SubmitSignature, blocks (time-outs, retries); MaxDESize in {1,2,3}; depth 5-6 (quick) / 8 (thorough)"
			r.Assumptions = []string{
				"committee choice is read back from the stored attempt (C09's subject); checked for eligibility (active, non-empty queue)",
				"a member never registers the same nonce pair twice (tokens are unique by construction)",
			}
			r.Required = []string{"de:ok", "de-rejected-over-max", "reset:ok", "req:ok", "retry", "reqfail:sdk/5", "req-rejected:too-few-eligible", "oracle-signing-created", "oracle-signing-refused:fee-limit", "oracle-signing-refused:too-few-eligible", "maxde:ok", "genesis-round-trip"}
			genesisRoundTrip(r)
			tsssig.Run(r, "C05", configs(r.Quick()), 5*time.Minute, 45*time.Minute)
		},
		Replay: tsssig.Replay,
	})
}
