package c05

import (
	"fmt"

	"github.com/bandprotocol/chain/v3/zzverif/engine"
	"github.com/bandprotocol/chain/v3/zzverif/tssh"
)

// genesisRoundTrip: nonce queues survive an export / import of the tss genesis in the order registered ("assigned in
// the order registered" must also hold for a chain restarted from an exported state).  Enumerates (members, pairs per
// member, pairs already consumed) over a small grid; queues are compared token by token.
func genesisRoundTrip(r *engine.Run) {
	src := engine.NewWorld()
	dst := engine.NewWorld()
	defer src.Close()
	defer dst.Close()
	for _, n := range []int{1, 2, 3, 4, 5} {
		for _, k := range []uint64{1, 2, 5, 13, 25} {
			for _, consumed := range []int{0, 1, 3} {
				ctx := engine.Fork(src.Root)
				tssh.ApplyParams(src, ctx, tssh.Params{MaxDESize: 40})
				accs := tssh.Accounts(n, 500)
				for i, a := range accs {
					// two submissions per member so that the queue spans several store writes
					first := k / 2
					if first > 0 {
						tssh.Must(src.Tx(ctx, 0, tssh.SubmitDEsMsg(a.Address.String(), 0, first)), "DEs")
					}
					tssh.Must(src.Tx(ctx, 0, tssh.SubmitDEsMsg(a.Address.String(), first, k-first)), "DEs")
					for c := 0; c < consumed && c < int(k)-1 && i%2 == 0; c++ {
						if _, err := src.App.TSSKeeper.DequeueDE(ctx, a.Address); err != nil {
							panic(err)
						}
					}
				}
				exported := src.App.TSSKeeper.ExportGenesis(ctx)
				r.Evaluations++
				if err := exported.Validate(); err != nil {
					r.Violate(map[string]any{"part": "genesis-round-trip"}, []string{fmt.Sprintf("n=%d k=%d consumed=%d", n, k, consumed)}, "C05/exported-genesis-invalid", "%v", err)
					continue
				}
				dctx := engine.Fork(dst.Root)
				func() {
					defer func() {
						if p := recover(); p != nil {
							r.Violate(map[string]any{"part": "genesis-round-trip"}, []string{fmt.Sprintf("n=%d k=%d consumed=%d", n, k, consumed)}, "C05/genesis-import-panic", "%v", p)
						}
					}()
					dst.App.TSSKeeper.InitGenesis(dctx, *exported)
				}()
				for i, a := range accs {
					qs, qd := src.App.TSSKeeper.GetDEQueue(ctx, a.Address), dst.App.TSSKeeper.GetDEQueue(dctx, a.Address)
					var want, got []uint64
					for idx := qs.Head; idx < qs.Tail; idx++ {
						de, err := src.App.TSSKeeper.GetDE(ctx, a.Address, idx)
						if err != nil {
							panic(err)
						}
						p, _ := tssh.LookupDE(de.PubD, de.PubE)
						want = append(want, p.K)
					}
					for idx := qd.Head; idx < qd.Tail; idx++ {
						de, err := dst.App.TSSKeeper.GetDE(dctx, a.Address, idx)
						if err != nil {
							r.Violate(map[string]any{"part": "genesis-round-trip"}, []string{fmt.Sprintf("n=%d k=%d consumed=%d member=%d", n, k, consumed, i)}, "C05/imported-queue-has-holes", "index %d: %v", idx, err)
							break
						}
						p, ok := tssh.LookupDE(de.PubD, de.PubE)
						if !ok {
							got = append(got, 1<<62)
							continue
						}
						got = append(got, p.K)
					}
					if fmt.Sprint(want) != fmt.Sprint(got) {
						r.Violate(map[string]any{"part": "genesis-round-trip"}, []string{fmt.Sprintf("n=%d k=%d consumed=%d member=%d", n, k, consumed, i)}, "C05/queue-order-changed-by-genesis-round-trip", "member %d: registered order %v, after export/import %v", i, want, got)
					}
				}
				r.Outcomes["genesis-round-trip"]++
			}
		}
	}
}
