// Package c06 checks property C06: at the end of every block each current feed's price is the
// quorum-gated, power- and recency-weighted median of the fresh AVAILABLE validator prices.
//
// Engine: enum.  Three bounded-exhaustive layers, all executed on the real repository code and compared
// with the independent reference in ref.go (written from the statement and x/feeds/README.md):
//
//	pure  : every tuple of validator entries from small alphabets through the real freshness filter
//	        (keeper.checkHavePrice), the real Keeper.CalculatePrice and thereby the real
//	        types.MedianValidatorPriceInfos / MedianWeightedPrice, for every (quorum, bonded total);
//	world : every tuple of stored ValidatorPriceLists on a real BandApp whose three genesis validators were
//	        re-weighted / unbonded by real staking messages or left oracle-inactive, quorum set by the real
//	        MsgUpdateParams, through the whole-application EndBlocker (feeds.EndBlocker -> CalculatePrices);
//	        observed in the Price store and the update_price events;
//	hist  : the same, but the validator prices are produced by real MsgSubmitSignalPrices transactions spread
//	        over four blocks (so that timestamps now, now-1, now-interval, now-interval-1 arise from real
//	        block times), checked at the end of every one of these blocks.
package c06

import (
	"encoding/json"
	"fmt"
	"math/big"
	"sort"
	"strings"
	"sync"
	"time"

	"github.com/bandprotocol/chain/v3/zzverif/engine"
)

// observed is what the implementation published for one feed.
type observed struct {
	Status string // AVAILABLE | NOT_READY | UNKNOWN_SIGNAL_ID | other enum name | ERROR | PANIC
	Price  uint64
	Err    string
}

func contains(xs []string, x string) bool {
	for _, y := range xs {
		if y == x {
			return true
		}
	}
	return false
}

// judge compares one observation with what the statement admits.  It returns "" when it conforms.
func judge(a agg, v verdict, med func() medianOut, o observed) (fp, detail string) {
	if o.Status == "ERROR" || o.Status == "PANIC" {
		if a.total.Sign() == 0 && v.FloorTheta.Sign() == 0 {
			return "price-error:no-fresh-reports-and-zero-power-quorum",
				fmt.Sprintf("price calculation failed (%s: %s) instead of publishing a status; no validator has a fresh price and trunc(quorum*bonded)=0", o.Status, o.Err)
		}
		return "price-error:unexpected", fmt.Sprintf("price calculation failed (%s: %s); statement admits %v (%s)", o.Status, o.Err, v.Want, v.Reason)
	}
	if !contains(v.Want, o.Status) {
		// fingerprint: the wrongly published status plus the exact boundaries the input sits on (the
		// discriminating condition of the three comparisons of the status rule)
		fp = "status:wrongly-" + o.Status
		if v.UnsupExact {
			fp += ":unsupported-exactly-half"
		}
		if v.HalfExact {
			fp += ":available-exactly-half"
		}
		if v.QuorumExact {
			fp += ":quorum-exactly-reached"
		}
		return fp,
			fmt.Sprintf("published status %s, statement admits %v (%s); reporting=%s available=%s unsupported=%s floor(quorum*bonded)=%s",
				o.Status, v.Want, v.Reason, a.total, a.avail, a.unsup, v.FloorTheta)
	}
	if o.Status != sAvailable {
		if o.Price != 0 {
			return "non-available-price-not-zero", fmt.Sprintf("status %s published with price %d (README: price 0)", o.Status, o.Price)
		}
		return "", ""
	}
	m := med()
	if len(m.Admissible) == 0 {
		return "", "" // undefined case (no fresh AVAILABLE entry, zero quorum): nothing to compare
	}
	if o.Price < m.Min || o.Price > m.Max {
		return "median:outside-fresh-available-range",
			fmt.Sprintf("published price %d outside [%d,%d] of the fresh AVAILABLE prices", o.Price, m.Min, m.Max)
	}
	for _, p := range m.Admissible {
		if p == o.Price {
			return "", ""
		}
	}
	fp = "median:not-the-weighted-median"
	if m.ExactHalf {
		fp += ":exact-half-crossing"
	}
	return fp, fmt.Sprintf("published price %d, weighted median per README is %v (exact-half=%v split=%v)", o.Price, m.Admissible, m.ExactHalf, m.Split)
}

// expectedOf computes the complete expectation for a list of entries (used for alternative
// explanations of a mismatch and by the world layers).
func expectedOf(entries []Entry, now, interval int64, q *big.Rat, bonded *big.Int) (agg, verdict, func() medianOut) {
	a := refAggregate(entries, now, interval)
	v := refStatus(a, q, bonded)
	var once sync.Once
	var m medianOut
	return a, v, func() medianOut {
		once.Do(func() { m = refMedian(a.fresh) })
		return m
	}
}

// EntryJSON is the replay-file form of an Entry.
type EntryJSON struct {
	Validator string `json:"validator,omitempty"`
	Status    string `json:"status"`
	Power     string `json:"power"`
	Price     uint64 `json:"price"`
	TS        int64  `json:"timestamp"`
	Note      string `json:"note,omitempty"`
}

func entriesJSON(es []Entry) []EntryJSON {
	out := make([]EntryJSON, len(es))
	for i, e := range es {
		out[i] = EntryJSON{Status: stName[e.Status], Power: e.Power.String(), Price: e.Price, TS: e.TS}
	}
	return out
}

func entriesFromJSON(js []EntryJSON) []Entry {
	out := make([]Entry, len(js))
	for i, j := range js {
		st := -1
		for k, n := range stName {
			if n == j.Status {
				st = k
			}
		}
		if st < 0 {
			panic("bad status " + j.Status)
		}
		p, ok := new(big.Int).SetString(j.Power, 10)
		if !ok {
			panic("bad power " + j.Power)
		}
		out[i] = Entry{Status: st, Power: p, Price: j.Price, TS: j.TS}
	}
	return out
}

// counters is the per-worker accumulator (merged at the end; avoids contention on the shared Tally).
type counters struct {
	evals      int64
	nontrivial int64
	labels     map[string]int64
	labels2    map[string]map[string]int64
	violSeen   map[string]int
	pending    []pendingViol
}

// pendingViol is a violation kept by a worker; they are handed to the Tally in odometer order so that
// the stored counterexample of a fingerprint is the simplest (lowest-index) one.
type pendingViol struct {
	idx    int64
	cfg    any
	path   []string
	fp     string
	detail string
}

func newCounters() *counters {
	return &counters{labels: map[string]int64{}, labels2: map[string]map[string]int64{}, violSeen: map[string]int{}}
}

func (c *counters) saw(l string) { c.labels[l]++ }

// saw2 counts the label prefix+s without allocating in the hot loop.
func (c *counters) saw2(prefix, s string) {
	m := c.labels2[prefix]
	if m == nil {
		m = map[string]int64{}
		c.labels2[prefix] = m
	}
	m[s]++
}

// violate keeps the first few violations of each fingerprint seen by this worker.
func (c *counters) violate(idx int64, fp string, mk func() (cfg any, path []string, detail string)) {
	c.saw2("VIOLATION:", fp)
	c.violSeen[fp]++
	if c.violSeen[fp] <= 2 {
		cfg, path, detail := mk()
		c.pending = append(c.pending, pendingViol{idx, cfg, path, fp, detail})
	}
}

func flushViolations(tally *engine.Tally, cs []*counters) {
	var all []pendingViol
	for _, c := range cs {
		if c != nil {
			all = append(all, c.pending...)
		}
	}
	sort.Slice(all, func(i, j int) bool { return all[i].idx < all[j].idx })
	kept := map[string]int{}
	for _, v := range all {
		kept[v.fp]++
		if kept[v.fp] <= 3 {
			tally.Violate(v.cfg, v.path, v.fp, v.detail)
		}
	}
}

func mergeCounters(r *engine.Run, cs []*counters) (evals, nontrivial int64) {
	for _, c := range cs {
		if c == nil {
			continue
		}
		evals += c.evals
		nontrivial += c.nontrivial
		for k, v := range c.labels {
			r.Outcomes[k] += int(v)
		}
		for pfx, m := range c.labels2 {
			for k, v := range m {
				r.Outcomes[pfx+k] += int(v)
			}
		}
	}
	r.Evaluations += int(evals)
	r.Traces += int(evals)
	r.Distinct += int(nontrivial)
	return
}

func init() {
	engine.Register(&engine.Check{
		ID: "C06",
		Run: func(r *engine.Run) {
			r.Level = "exploration"
			quick := r.Quick()
			r.Bound = boundText(quick)
			r.Rule = "pure: odometer over ordered n-tuples of validator entries (digit = (status,price,timestamp-offset) item x power), each tuple evaluated for every (quorum, bonded-total) pair; " +
				"world/hist: odometer over triples of per-validator items for every (scenario, quorum). evaluations = calls of the real CalculatePrice (pure) or real EndBlocker feed results (world/hist). " +
				"distinct_nontrivial = number of enumerated tuples (distinct by construction: irrelevant fields of absent entries are collapsed) in which at least two fresh AVAILABLE entries with different prices exist, i.e. the weighting decides the result"
			r.Assumptions = []string{
				"weighted median convention at an exact half-weight crossing: the smallest price whose cumulative weight (ascending price) reaches half of the total weight (>=)",
				"fresh means now - timestamp <= interval (boundary included); timestamps are never in the future (submissions are stamped with the block time)",
				"entries with equal timestamp AND equal power but different prices: the statement/README do not fix their relative order; every order is admitted (label median:full-tie-order-dependent counts such tuples)",
				"quorum threshold: the statement compares integer power with quorum*bonded; when floor(quorum*bonded) <= reporting power < quorum*bonded (sub-unit rounding of the threshold) either AVAILABLE or NOT_READY is admitted (label quorum:rounding-gap)",
				"quorum*bonded = 0 with no fresh report: statement undefined (median of nothing); any status is admitted, an error / chain halt is not",
				"pure layer: the glue of CalculatePrices (freshness filter -> ValidatorPriceInfo -> CalculatePrice; powerQuorum = LegacyDec(bonded).Mul(quorum).TruncateInt()) is restated in the harness with the same library calls; the world/hist layers execute the real glue",
				"world layer writes CurrentFeeds and ValidatorPriceLists with the keeper setters (environment input); hist layer writes validator prices only through real MsgSubmitSignalPrices; CurrentFeeds content (interval computation) is not C06's subject",
				"powers >= 1 (a bonded validator has tokens); price-list timestamps <= now",
				"\"bonded at the end of the block\": a validator counts iff its x/staking status is Bonded after the evaluated block's own validator-set update (the x/staking end blocker of that block, i.e. the set reported to consensus for this block), with the tokens it has then; the bonded total is the bonded pool after that update. Scenarios L1-L3 change the set in the evaluated block itself (delegation, undelegation, jailing)",
				"a validator's price for a feed is the entry it stored under THAT feed's signal id, wherever it sits in the stored list; rerank layer: the changed current feed list is installed with the keeper setter (the ranking itself is not C06's subject), prices only through real MsgSubmitSignalPrices",
				"a validator's latest price is its latest ACCEPTED MsgSubmitSignalPrices, stamped with the time of the block that carried it, whether or not it repeats the previous status and price (resub layer)",
			}
			r.Required = []string{
				"status:AVAILABLE", "status:NOT_READY", "status:UNKNOWN_SIGNAL_ID",
				"rule:unsupported-majority", "rule:available-below-half", "rule:quorum-not-reached", "rule:all-conditions-met",
				"boundary:quorum-exactly-reached", "boundary:available-exactly-half", "boundary:unsupported-exactly-half",
				"fresh:boundary-counted", "fresh:stale-ignored",
				"median:exact-half-crossing", "median:entry-split-across-segments", "median:weighting-decides",
				"median:result-differs-from-unweighted-power-median",
				"world:AVAILABLE", "world:NOT_READY", "world:UNKNOWN_SIGNAL_ID", "world:unbonded-validator-ignored", "world:inactive-validator-ignored",
				"hist:AVAILABLE", "hist:NOT_READY", "hist:UNKNOWN_SIGNAL_ID",
				"resub:AVAILABLE", "resub:NOT_READY", "resub:UNKNOWN_SIGNAL_ID", "resub:same-value-resubmission-counted-after-first-is-stale",
				"rerank:AVAILABLE", "rerank:NOT_READY", "rerank:UNKNOWN_SIGNAL_ID",
				"setchange:AVAILABLE", "setchange:NOT_READY", "setchange:UNKNOWN_SIGNAL_ID",
			}
			deadline := r.Deadline(8*time.Minute, 45*time.Minute)
			tally := engine.NewTally()
			t0 := time.Now()
			runWorld(r, tally, quick, deadline)
			fmt.Printf("[C06] world+hist layers done: evaluations=%d violations=%d (%.1fs)\n", r.Evaluations, tally.Violations(), time.Since(t0).Seconds())
			runPure(r, tally, quick, deadline)
			tally.MergeInto(r)
			confirm(r)
		},
		Replay: replay,
	})
}

// confirm re-executes the first kept counterexample of every fingerprint twice; a divergence is a
// harness error, never a violation.
func confirm(r *engine.Run) {
	seen := map[string]bool{}
	var fps []string
	first := map[string]engine.FoundViolation{}
	for _, v := range r.Violations {
		if !seen[v.Fingerprint] {
			seen[v.Fingerprint] = true
			fps = append(fps, v.Fingerprint)
			first[v.Fingerprint] = v
		}
	}
	sort.Strings(fps)
	for i, fp := range fps {
		if i >= 8 {
			break
		}
		v := first[fp]
		raw, err := json.Marshal(v.Config)
		if err != nil {
			engine.Fatal3("cannot marshal counterexample: %v", err)
		}
		for k := 0; k < 2; k++ {
			last, _ := replay(raw, v.Path)
			found := false
			for _, lv := range last.Violations {
				if lv.Fingerprint == fp {
					found = true
				}
			}
			if !found {
				engine.Fatal3("HARNESS-NONDETERMINISM: violation %q did not reproduce on replay %d (config %s)", fp, k+1, string(raw))
			}
		}
	}
}

func replay(raw json.RawMessage, path []string) (engine.StepResult, []string) {
	var head struct {
		Kind string `json:"kind"`
	}
	if err := json.Unmarshal(raw, &head); err != nil {
		panic(err)
	}
	var res engine.StepResult
	switch head.Kind {
	case "pure":
		var c PureCase
		if err := json.Unmarshal(raw, &c); err != nil {
			panic(err)
		}
		w := engine.NewWorld()
		defer w.Close()
		o, fp, detail := evalPureCase(w, c)
		res.Outcome = fmt.Sprintf("%s price=%d %s", o.Status, o.Price, o.Err)
		if fp != "" {
			res.Violate(fp, "%s", detail)
		}
	case "world", "hist", kindDiscarded, kindResub, kindRerank:
		var c WorldCase
		if err := json.Unmarshal(raw, &c); err != nil {
			panic(err)
		}
		w := engine.NewWorld()
		defer w.Close()
		outs, viols := evalWorldCase(w, c)
		res.Outcome = strings.Join(outs, "; ")
		for _, v := range viols {
			res.Violate(v.Fingerprint, "%s", v.Detail)
		}
	default:
		panic("unknown counterexample kind " + head.Kind)
	}
	outs := make([]string, len(path))
	if len(outs) > 0 {
		outs[len(outs)-1] = res.Outcome
	}
	return res, outs
}
