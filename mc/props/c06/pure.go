package c06

import (
	"encoding/json"
	"fmt"
	"math/big"
	"strings"
	"time"

	sdkmath "cosmossdk.io/math"

	sdk "github.com/cosmos/cosmos-sdk/types"

	feedskeeper "github.com/bandprotocol/chain/v3/x/feeds/keeper"
	feedstypes "github.com/bandprotocol/chain/v3/x/feeds/types"
	"github.com/bandprotocol/chain/v3/zzverif/engine"
)

const signalID = "CS:BAND-USD"

// offset kinds (relative to the feed interval I): now, now-1, now-I, now-I-1
const (
	offNow = iota
	offOne
	offInterval
	offStale
)

var offName = []string{"now", "now-1", "now-I", "now-I-1"}

func offsetOf(kind int, interval int64) int64 {
	switch kind {
	case offNow:
		return 0
	case offOne:
		return 1
	case offInterval:
		return interval
	default:
		return interval + 1
	}
}

// item is one (status, price, timestamp-offset) choice of a validator.
type item struct {
	Status int
	Price  uint64
	Off    int
}

func (it item) String() string {
	if it.Status == stAbsent {
		return "absent"
	}
	return fmt.Sprintf("%s/%d@%s", stName[it.Status], it.Price, offName[it.Off])
}

// mkItems builds an item alphabet, simplest first.
func mkItems(availPrices []uint64, availOffs []int, unavailOffs []int, unsupOffs []int) []item {
	its := []item{{Status: stAbsent}}
	for _, o := range availOffs {
		for _, p := range availPrices {
			its = append(its, item{stAvailable, p, o})
		}
	}
	for _, o := range unavailOffs {
		its = append(its, item{stUnavailable, 0, o})
	}
	for _, o := range unsupOffs {
		its = append(its, item{stUnsupported, 0, o})
	}
	return its
}

const maxU64 = ^uint64(0)

// pureCfg is one configuration of the pure layer.
type pureCfg struct {
	Name        string
	N           int
	Powers      []string
	Items       []item
	Quorums     []string
	BondedMults []int64
	Interval    int64
	Twice       bool // evaluate the real code twice and require identical results
}

func (c pureCfg) describe() string {
	var its []string
	for _, it := range c.Items {
		its = append(its, it.String())
	}
	return fmt.Sprintf("%s: n=%d powers=%v items(%d)=%v quorums=%v bonded=%v*sum(power) interval=%d", c.Name, c.N, c.Powers, len(c.Items), its, c.Quorums, c.BondedMults, c.Interval)
}

var (
	p62    = new(big.Int).Lsh(big.NewInt(1), 62).String()
	p63m1  = new(big.Int).Sub(new(big.Int).Lsh(big.NewInt(1), 63), big.NewInt(1)).String()
	p64m1  = new(big.Int).Sub(new(big.Int).Lsh(big.NewInt(1), 64), big.NewInt(1)).String()
	allQ   = []string{"0.05", "0.30", "0.666666666666666667", "1"}
	allOff = []int{offNow, offOne, offInterval, offStale}
)

func pureConfigs(quick bool) []pureCfg {
	fullItems := mkItems([]uint64{0, 1, 2, 3, maxU64}, allOff, []int{offNow, offInterval, offStale}, []int{offNow, offInterval, offStale})
	var cs []pureCfg
	// intervals: the freshness boundary for several feed intervals, two validators
	for _, iv := range []int64{2, 60, 3600} {
		cs = append(cs, pureCfg{Name: fmt.Sprintf("n2-interval%d", iv), N: 2, Powers: []string{"1", "2", "3", "7", p62, p63m1}, Items: fullItems,
			Quorums: []string{"0", "0.05", "0.30", "0.5", "0.666666666666666667", "1"}, BondedMults: []int64{1, 3}, Interval: iv, Twice: true})
	}
	cs = append(cs, pureCfg{Name: "n1", N: 1, Powers: []string{"1", "2", "3", "7", p62, p63m1, p64m1}, Items: fullItems,
		Quorums: []string{"0", "0.05", "0.30", "0.5", "0.666666666666666667", "1"}, BondedMults: []int64{1, 3}, Interval: 60, Twice: true})
	if quick {
		cs = append(cs,
			pureCfg{Name: "n3", N: 3, Powers: []string{"1", "2", "3", "7", p62, p63m1},
				Items:   mkItems([]uint64{0, 1, 2, maxU64}, allOff, []int{offNow, offInterval, offStale}, []int{offNow, offInterval, offStale}),
				Quorums: []string{"0.30", "0.666666666666666667", "1"}, BondedMults: []int64{1}, Interval: 60},
			pureCfg{Name: "n4", N: 4, Powers: []string{"1", "2", p62},
				Items:   mkItems([]uint64{1, 2, 3}, []int{offNow, offOne}, []int{offNow}, []int{offNow}),
				Quorums: []string{"0.30", "0.666666666666666667"}, BondedMults: []int64{1, 3}, Interval: 60},
			pureCfg{Name: "n5", N: 5, Powers: []string{"1", "3"},
				Items:   mkItems([]uint64{1, 2}, []int{offNow, offOne}, nil, []int{offNow}),
				Quorums: []string{"0.30", "0.666666666666666667"}, BondedMults: []int64{1}, Interval: 60},
		)
		return cs
	}
	cs = append(cs,
		pureCfg{Name: "n3", N: 3, Powers: []string{"1", "2", "3", "4", "5", "7", "32", p62, p63m1, p64m1}, Items: fullItems,
			Quorums: allQ, BondedMults: []int64{1, 3}, Interval: 60},
		pureCfg{Name: "n4", N: 4, Powers: []string{"1", "2", "3", "7", p62, p63m1},
			Items:   mkItems([]uint64{1, 2, 3}, []int{offNow, offOne}, []int{offNow}, []int{offNow, offStale}),
			Quorums: []string{"0.30", "0.666666666666666667"}, BondedMults: []int64{1, 3}, Interval: 60},
		pureCfg{Name: "n5", N: 5, Powers: []string{"1", "3", p62},
			Items:   mkItems([]uint64{1, 2, 3}, []int{offNow, offOne}, nil, []int{offNow}),
			Quorums: []string{"0.30", "0.666666666666666667"}, BondedMults: []int64{1}, Interval: 60},
		pureCfg{Name: "n6", N: 6, Powers: []string{"1", "3"},
			Items:   mkItems([]uint64{1, 2}, []int{offNow, offOne}, nil, []int{offNow}),
			Quorums: []string{"0.30"}, BondedMults: []int64{1}, Interval: 60},
	)
	return cs
}

func boundText(quick bool) string {
	var sb strings.Builder
	sb.WriteString("pure layer: ")
	for i, c := range pureConfigs(quick) {
		if i > 0 {
			sb.WriteString(" | ")
		}
		sb.WriteString(c.describe())
	}
	sb.WriteString(" || world/hist layers: ")
	sb.WriteString(worldBoundText(quick))
	sb.WriteString("; ")
	sb.WriteString(resubBoundText(quick))
	sb.WriteString("; ")
	sb.WriteString(rerankBoundText(quick))
	return sb.String()
}

func toProtoStatus(st int) feedstypes.SignalPriceStatus {
	switch st {
	case stAvailable:
		return feedstypes.SIGNAL_PRICE_STATUS_AVAILABLE
	case stUnavailable:
		return feedstypes.SIGNAL_PRICE_STATUS_UNAVAILABLE
	case stUnsupported:
		return feedstypes.SIGNAL_PRICE_STATUS_UNSUPPORTED
	}
	return feedstypes.SIGNAL_PRICE_STATUS_UNSPECIFIED
}

func priceStatusName(s feedstypes.PriceStatus) string {
	switch s {
	case feedstypes.PRICE_STATUS_AVAILABLE:
		return sAvailable
	case feedstypes.PRICE_STATUS_NOT_READY:
		return sNotReady
	case feedstypes.PRICE_STATUS_UNKNOWN_SIGNAL_ID:
		return sUnknown
	}
	return s.String()
}

// valPriceOf is the stored ValidatorPrice corresponding to an entry (zero value when absent, exactly
// what CalculatePrices sees on a map miss).
func valPriceOf(e Entry, sig string) feedstypes.ValidatorPrice {
	if e.Status == stAbsent {
		return feedstypes.ValidatorPrice{}
	}
	return feedstypes.ValidatorPrice{SignalPriceStatus: toProtoStatus(e.Status), SignalID: sig, Price: e.Price, Timestamp: e.TS}
}

// realInfos applies the real freshness filter and builds the ValidatorPriceInfo list exactly as the
// inner loop of CalculatePrices does.
func realInfos(feed feedstypes.Feed, vps []feedstypes.ValidatorPrice, powers []sdkmath.Int, blockTime time.Time, out []feedstypes.ValidatorPriceInfo) []feedstypes.ValidatorPriceInfo {
	out = out[:0]
	for i, vp := range vps {
		if feedskeeper.VerifC06CheckHavePrice(feed, vp, blockTime) {
			out = append(out, feedstypes.NewValidatorPriceInfo(vp.SignalPriceStatus, powers[i], vp.Price, vp.Timestamp))
		}
	}
	return out
}

// realPowerQuorum is the expression of CalculatePrices.
func realPowerQuorum(bonded sdkmath.Int, q sdkmath.LegacyDec) sdkmath.Int {
	return sdkmath.LegacyNewDecFromInt(bonded).Mul(q).TruncateInt()
}

func callCalculatePrice(k feedskeeper.Keeper, ctx sdk.Context, feed feedstypes.Feed, infos []feedstypes.ValidatorPriceInfo, pq sdkmath.Int) (o observed) {
	defer func() {
		if r := recover(); r != nil {
			o = observed{Status: "PANIC", Err: fmt.Sprint(r)}
		}
	}()
	p, err := k.CalculatePrice(ctx, feed, infos, pq)
	if err != nil {
		return observed{Status: "ERROR", Err: err.Error()}
	}
	return observed{Status: priceStatusName(p.Status), Price: p.Price}
}

// PureCase is a self-contained pure-layer input (replay file form).
type PureCase struct {
	Kind     string      `json:"kind"`
	Config   string      `json:"config,omitempty"`
	Now      int64       `json:"now"`
	Interval int64       `json:"interval"`
	Quorum   string      `json:"quorum"`
	Bonded   string      `json:"bonded_tokens"`
	Entries  []EntryJSON `json:"entries"`
}

func evalPureCase(w *engine.World, c PureCase) (observed, string, string) {
	entries := entriesFromJSON(c.Entries)
	bonded, _ := new(big.Int).SetString(c.Bonded, 10)
	q, ok := new(big.Rat).SetString(c.Quorum)
	if !ok {
		panic("bad quorum " + c.Quorum)
	}
	feed := feedstypes.NewFeed(signalID, 1, c.Interval)
	bt := time.Unix(c.Now, 0).UTC()
	ctx := w.Root.WithBlockTime(bt)
	vps := make([]feedstypes.ValidatorPrice, len(entries))
	pws := make([]sdkmath.Int, len(entries))
	for i, e := range entries {
		vps[i] = valPriceOf(e, signalID)
		pws[i] = sdkmath.NewIntFromBigInt(e.Power)
	}
	infos := realInfos(feed, vps, pws, bt, nil)
	pq := realPowerQuorum(sdkmath.NewIntFromBigInt(bonded), sdkmath.LegacyMustNewDecFromStr(c.Quorum))
	o := callCalculatePrice(w.App.FeedsKeeper, ctx, feed, infos, pq)
	a, v, med := expectedOf(entries, c.Now, c.Interval, q, bonded)
	fp, detail := judge(a, v, med, o)
	return o, fp, detail
}

// plainPowerMedian is the (lower) power-weighted median without recency weighting; only used to
// label tuples in which the sectional weighting changes the result.
func plainPowerMedian(fresh []Entry) uint64 {
	type pt struct {
		p uint64
		w *big.Int
	}
	var pts []pt
	tot := new(big.Int)
	for _, e := range fresh {
		pts = append(pts, pt{e.Price, e.Power})
		tot.Add(tot, e.Power)
	}
	for i := 1; i < len(pts); i++ {
		for j := i; j > 0 && pts[j].p < pts[j-1].p; j-- {
			pts[j], pts[j-1] = pts[j-1], pts[j]
		}
	}
	cum := new(big.Int)
	for _, x := range pts {
		cum.Add(cum, x.w)
		if new(big.Int).Lsh(cum, 1).Cmp(tot) >= 0 {
			return x.p
		}
	}
	return 0
}

func runPure(r *engine.Run, tally *engine.Tally, quick bool, deadline time.Time) {
	w := engine.NewWorld()
	defer w.Close()
	k := w.App.FeedsKeeper
	now := w.Root.BlockTime().Unix()
	bt := time.Unix(now, 0).UTC()
	ctx := w.Root.WithBlockTime(bt) // CalculatePrice only reads the block time: safe to share read-only
	workers := engine.DefaultWorkers()

	for _, cfg := range pureConfigs(quick) {
		cfg := cfg
		t0 := time.Now()
		feed := feedstypes.NewFeed(signalID, 1, cfg.Interval)
		nItems := len(cfg.Items)
		dim := nItems * len(cfg.Powers)
		powBig := make([]*big.Int, len(cfg.Powers))
		powInt := make([]sdkmath.Int, len(cfg.Powers))
		for i, s := range cfg.Powers {
			powBig[i], _ = new(big.Int).SetString(s, 10)
			powInt[i] = sdkmath.NewIntFromBigInt(powBig[i])
		}
		qRat := make([]*big.Rat, len(cfg.Quorums))
		qDec := make([]sdkmath.LegacyDec, len(cfg.Quorums))
		for i, s := range cfg.Quorums {
			qRat[i], _ = new(big.Rat).SetString(s)
			qDec[i] = sdkmath.LegacyMustNewDecFromStr(s)
		}
		sizes := make([]int, cfg.N)
		for i := range sizes {
			sizes[i] = dim
		}
		od := engine.Odometer{Sizes: sizes}
		cs := make([]*counters, workers)
		type scratch struct {
			digits  []int
			entries []Entry
			vps     []feedstypes.ValidatorPrice
			pws     []sdkmath.Int
			infos   []feedstypes.ValidatorPriceInfo
		}
		scr := make([]*scratch, workers)
		for i := range cs {
			cs[i] = newCounters()
			scr[i] = &scratch{entries: make([]Entry, cfg.N), vps: make([]feedstypes.ValidatorPrice, cfg.N), pws: make([]sdkmath.Int, cfg.N)}
		}
		complete := engine.ParallelFor(od.Total(), workers, deadline, func(wk int, idx int64) {
			c, s := cs[wk], scr[wk]
			s.digits = od.Digits(idx, s.digits)
			sum := new(big.Int)
			for i, d := range s.digits {
				it := cfg.Items[d%nItems]
				pi := d / nItems
				e := Entry{Status: it.Status, Power: powBig[pi], Price: it.Price, TS: now - offsetOf(it.Off, cfg.Interval)}
				if it.Status == stAbsent {
					e.TS, e.Price = 0, 0
				}
				s.entries[i] = e
				s.vps[i] = valPriceOf(e, signalID)
				s.pws[i] = powInt[pi]
				sum.Add(sum, powBig[pi])
			}
			s.infos = realInfos(feed, s.vps, s.pws, bt, s.infos)
			a := refAggregate(s.entries, now, cfg.Interval)
			var m medianOut
			haveM := false
			med := func() medianOut {
				if !haveM {
					m = refMedian(a.fresh)
					haveM = true
				}
				return m
			}
			// tuple-level labels
			if a.boundarySeen {
				c.saw("fresh:boundary-counted")
			}
			if a.staleSeen {
				c.saw("fresh:stale-ignored")
			}
			nontrivial := false
			if len(a.fresh) >= 2 {
				for _, e := range a.fresh[1:] {
					if e.Price != a.fresh[0].Price {
						nontrivial = true
					}
				}
			}
			if nontrivial {
				c.nontrivial++
				mm := med()
				if cfg.Twice {
					// harness self-check: integer form of the reference == literal big.Rat form
					if rr := refMedianRat(a.fresh); fmt.Sprint(rr) != fmt.Sprint(mm) {
						engine.Fatal3("C06 reference self-check failed: int form %+v, rational form %+v, entries %+v", mm, rr, entriesJSON(a.fresh))
					}
				}
				c.saw("median:weighting-decides")
				if mm.ExactHalf {
					c.saw("median:exact-half-crossing")
				}
				if mm.Split {
					c.saw("median:entry-split-across-segments")
				}
				if mm.OrderDependent {
					c.saw("median:full-tie-order-dependent")
				} else if plainPowerMedian(a.fresh) != mm.Admissible[0] {
					c.saw("median:result-differs-from-unweighted-power-median")
				}
			}
			for _, mult := range cfg.BondedMults {
				bondedBig := new(big.Int).Mul(sum, big.NewInt(mult))
				bondedInt := sdkmath.NewIntFromBigInt(bondedBig)
				for qi := range cfg.Quorums {
					pq := realPowerQuorum(bondedInt, qDec[qi])
					o := callCalculatePrice(k, ctx, feed, s.infos, pq)
					c.evals++
					if cfg.Twice {
						o2 := callCalculatePrice(k, ctx, feed, realInfos(feed, s.vps, s.pws, bt, nil), pq)
						if o2 != o {
							tally.Violate(pureCase(cfg, now, s.entries, cfg.Quorums[qi], bondedBig), []string{"pure"}, "nondeterministic-result",
								fmt.Sprintf("two evaluations of the same input differ: %+v vs %+v", o, o2))
						}
					}
					v := refStatus(a, qRat[qi], bondedBig)
					c.saw2("status:", o.Status)
					c.saw2("rule:", v.Reason)
					if v.Gap {
						c.saw("quorum:rounding-gap")
						if len(v.Want) == 2 {
							c.saw2("quorum:rounding-gap:impl-says-", o.Status)
						}
					}
					if v.Reason == "all-conditions-met" {
						if v.QuorumExact {
							c.saw("boundary:quorum-exactly-reached")
						}
						if v.HalfExact {
							c.saw("boundary:available-exactly-half")
						}
					}
					if v.UnsupExact {
						c.saw("boundary:unsupported-exactly-half")
					}
					fp, detail := judge(a, v, med, o)
					if fp == "" {
						continue
					}
					q := cfg.Quorums[qi]
					c.violate(idx, fp, func() (any, []string, string) {
						return pureCase(cfg, now, s.entries, q, bondedBig), []string{"pure"}, detail
					})
				}
			}
			if idx%(od.Total()/4+1) == 0 {
				tally.Sample(12, map[string]any{"layer": "pure", "config": cfg.Name, "entries": entriesJSON(s.entries)})
			}
		})
		ev, nt := mergeCounters(r, cs)
		flushViolations(tally, cs)
		if !complete {
			r.Exhaustive = false
			r.CapReasons = append(r.CapReasons, "pure/"+cfg.Name+": internal deadline reached before the odometer was exhausted")
		}
		r.Configs = append(r.Configs, map[string]any{"layer": "pure", "name": cfg.Name, "describe": cfg.describe(), "tuples": od.Total(),
			"evaluations": ev, "nontrivial_tuples": nt, "complete": complete})
		fmt.Printf("[C06] pure/%s: tuples=%d evaluations=%d nontrivial=%d complete=%v violations=%d (%.1fs)\n",
			cfg.Name, od.Total(), ev, nt, complete, tally.Violations(), time.Since(t0).Seconds())
		if !complete {
			break
		}
	}
}

func pureCase(cfg pureCfg, now int64, entries []Entry, quorum string, bonded *big.Int) PureCase {
	return PureCase{Kind: "pure", Config: cfg.Name, Now: now, Interval: cfg.Interval, Quorum: quorum, Bonded: bonded.String(), Entries: entriesJSON(entries)}
}

var _ = json.Marshal
