package c06

// Independent reference for property C06, written from the property statement and the
// "Update Prices" section of x/feeds/README.md.  Exact rational arithmetic (math/big) only.
//
//   fresh            : a validator price counts iff it exists and  now - timestamp <= interval
//   reporting power  : sum of the powers of all fresh entries (any status)
//   UNKNOWN_SIGNAL_ID: more than half of the reporting power says UNSUPPORTED
//   AVAILABLE        : reporting power >= quorum * bonded tokens  and  available power >= half of the reporting power
//   NOT_READY        : otherwise
//   price            : weighted median of the fresh AVAILABLE entries, where the entries are laid out
//                      newest first (equal time: larger power first) on the axis [0,T) (T = their total
//                      power) and the part of an entry lying in the first T/32 weighs 6, in the next T/16
//                      weighs 4, in the next T/8 weighs 2, in the next T/4 weighs 1.1 and the rest 1; the
//                      weighted median is the smallest price whose cumulative weight (prices ascending)
//                      reaches half of the total weight.

import (
	"math/big"
	"sort"
)

const (
	stAbsent      = 0
	stAvailable   = 1
	stUnavailable = 2
	stUnsupported = 3
)

var stName = []string{"ABSENT", "AVAILABLE", "UNAVAILABLE", "UNSUPPORTED"}

// Entry is one validator's latest price for one signal.
type Entry struct {
	Status int
	Power  *big.Int
	Price  uint64
	TS     int64
}

// agg is the status-relevant projection of a list of entries.
type agg struct {
	total, avail, unsup *big.Int
	fresh               []Entry // the fresh AVAILABLE entries, input order
	staleSeen           bool    // some existing entry was dropped as stale
	boundarySeen        bool    // some entry has now - ts == interval exactly (and counts)
}

func refAggregate(entries []Entry, now, interval int64) agg {
	a := agg{total: new(big.Int), avail: new(big.Int), unsup: new(big.Int)}
	for _, e := range entries {
		if e.Status == stAbsent {
			continue
		}
		age := now - e.TS
		if age > interval {
			a.staleSeen = true
			continue
		}
		if age == interval {
			a.boundarySeen = true
		}
		a.total.Add(a.total, e.Power)
		switch e.Status {
		case stAvailable:
			a.avail.Add(a.avail, e.Power)
			a.fresh = append(a.fresh, e)
		case stUnsupported:
			a.unsup.Add(a.unsup, e.Power)
		}
	}
	return a
}

// verdict is what the statement admits for the published status.
type verdict struct {
	Want        []string // admissible statuses (more than one only where the statement does not decide)
	Reason      string
	QuorumExact bool     // reporting power == quorum * bonded exactly
	HalfExact   bool     // 2*available == reporting power (and > 0)
	UnsupExact  bool     // 2*unsupported == reporting power (and > 0)
	Gap         bool     // floor(q*B) <= total < q*B : integer rounding of the threshold, not decided here
	FloorTheta  *big.Int // floor(q*B)
}

const (
	sAvailable = "AVAILABLE"
	sNotReady  = "NOT_READY"
	sUnknown   = "UNKNOWN_SIGNAL_ID"
)

func refStatus(a agg, q *big.Rat, bonded *big.Int) verdict {
	var v verdict
	two := big.NewInt(2)
	u2 := new(big.Int).Mul(a.unsup, two)
	a2 := new(big.Int).Mul(a.avail, two)
	theta := new(big.Rat).Mul(q, new(big.Rat).SetInt(bonded))
	v.FloorTheta = new(big.Int).Quo(theta.Num(), theta.Denom()) // theta >= 0
	tot := new(big.Rat).SetInt(a.total)
	cmpExact := tot.Cmp(theta)
	v.QuorumExact = cmpExact == 0
	v.HalfExact = a.total.Sign() > 0 && a2.Cmp(a.total) == 0
	v.UnsupExact = a.total.Sign() > 0 && u2.Cmp(a.total) == 0
	switch {
	case u2.Cmp(a.total) > 0:
		v.Want, v.Reason = []string{sUnknown}, "unsupported-majority"
	case a2.Cmp(a.total) < 0:
		v.Want, v.Reason = []string{sNotReady}, "available-below-half"
	case cmpExact >= 0:
		if len(a.fresh) == 0 {
			// only possible for quorum*bonded == 0 and no report at all: the statement asks for the
			// median of nothing; any of the three statuses is accepted, an error is not.
			v.Want, v.Reason = []string{sAvailable, sNotReady, sUnknown}, "undefined:zero-quorum-and-no-reports"
		} else {
			v.Want, v.Reason = []string{sAvailable}, "all-conditions-met"
		}
	case a.total.Cmp(v.FloorTheta) < 0:
		v.Want, v.Reason = []string{sNotReady}, "quorum-not-reached"
	default:
		v.Gap = true
		if len(a.fresh) == 0 {
			v.Want, v.Reason = []string{sNotReady}, "quorum-not-reached"
		} else {
			v.Want, v.Reason = []string{sAvailable, sNotReady}, "quorum-rounding-gap"
		}
	}
	return v
}

// medianOut is the set of prices the statement admits for the fresh AVAILABLE entries.
type medianOut struct {
	Admissible     []uint64 // sorted, distinct
	OrderDependent bool     // entries with equal time AND equal power but different prices exist and the result depends on their order
	ExactHalf      bool     // for some admissible order the cumulative weight hits exactly half of the total at the chosen price
	Split          bool     // some entry is split across weight segments
	Min, Max       uint64
}

var (
	segFractions = []*big.Rat{big.NewRat(1, 32), big.NewRat(1, 16), big.NewRat(1, 8), big.NewRat(1, 4)}
	segMults     = []*big.Rat{big.NewRat(6, 1), big.NewRat(4, 1), big.NewRat(2, 1), big.NewRat(11, 10), big.NewRat(1, 1)}
)

// refMedian uses the common-denominator integer form of the README arithmetic; refMedianRat is the
// literal big.Rat form.  Both are compared on every tuple of the small configurations (self-check).
func refMedian(fresh []Entry) medianOut { return refMedianWith(fresh, false) }

func refMedianRat(fresh []Entry) medianOut { return refMedianWith(fresh, true) }

// README numbers in the common denominator 32 (positions) and 10 (multipliers), derived at start-up
// from segFractions / segMults and checked to be integral.
var (
	segBound32 []*big.Int // cumulative segment ends * 32 / T : 0, 1, 3, 7, 15, 32
	segMult10  []*big.Int // 60, 40, 20, 11, 10
)

func init() {
	cum := new(big.Rat)
	thirtyTwo := big.NewRat(32, 1)
	segBound32 = append(segBound32, big.NewInt(0))
	for _, f := range segFractions {
		cum = new(big.Rat).Add(cum, f)
		x := new(big.Rat).Mul(cum, thirtyTwo)
		if !x.IsInt() {
			panic("segment boundary not a multiple of 1/32")
		}
		segBound32 = append(segBound32, new(big.Int).Set(x.Num()))
	}
	segBound32 = append(segBound32, big.NewInt(32))
	for _, m := range segMults {
		x := new(big.Rat).Mul(m, big.NewRat(10, 1))
		if !x.IsInt() {
			panic("multiplier not a multiple of 1/10")
		}
		segMult10 = append(segMult10, new(big.Int).Set(x.Num()))
	}
}

func refMedianWith(fresh []Entry, useRat bool) medianOut {
	var out medianOut
	k := len(fresh)
	if k == 0 {
		return out
	}
	out.Min, out.Max = fresh[0].Price, fresh[0].Price
	T := new(big.Int)
	for _, e := range fresh {
		T.Add(T, e.Power)
		if e.Price < out.Min {
			out.Min = e.Price
		}
		if e.Price > out.Max {
			out.Max = e.Price
		}
	}
	if out.Min == out.Max && !useRat {
		// a single distinct price: every weighting yields it
		out.Admissible = []uint64{out.Min}
		return out
	}
	// integer form: positions in units of 1/32, boundaries T*c
	ibounds := make([]*big.Int, len(segBound32))
	for i, c := range segBound32 {
		ibounds[i] = new(big.Int).Mul(T, c)
	}
	// segment boundaries on [0,T)
	tr := new(big.Rat).SetInt(T)
	bounds := make([]*big.Rat, 0, 6)
	cur := new(big.Rat)
	bounds = append(bounds, new(big.Rat))
	for _, f := range segFractions {
		cur = new(big.Rat).Add(cur, new(big.Rat).Mul(tr, f))
		bounds = append(bounds, cur)
	}
	bounds = append(bounds, tr)

	seen := map[uint64]bool{}
	order := make([]int, 0, k)
	used := make([]bool, k)
	var rec func()
	rec = func() {
		if len(order) == k {
			var p uint64
			var exact, split bool
			if useRat {
				p, exact, split = medianOfOrder(fresh, order, bounds)
			} else {
				p, exact, split = medianOfOrderInt(fresh, order, ibounds)
			}
			seen[p] = true
			out.ExactHalf = out.ExactHalf || exact
			out.Split = out.Split || split
			return
		}
		for i := 0; i < k; i++ {
			if used[i] {
				continue
			}
			if n := len(order); n > 0 {
				prev := fresh[order[n-1]]
				// newest first; equal time: larger power first
				if prev.TS < fresh[i].TS || (prev.TS == fresh[i].TS && prev.Power.Cmp(fresh[i].Power) < 0) {
					continue
				}
			}
			used[i] = true
			order = append(order, i)
			rec()
			order = order[:len(order)-1]
			used[i] = false
		}
	}
	rec()
	for p := range seen {
		out.Admissible = append(out.Admissible, p)
	}
	sort.Slice(out.Admissible, func(i, j int) bool { return out.Admissible[i] < out.Admissible[j] })
	out.OrderDependent = len(out.Admissible) > 1
	return out
}

func ratMax(a, b *big.Rat) *big.Rat {
	if a.Cmp(b) >= 0 {
		return a
	}
	return b
}

func ratMin(a, b *big.Rat) *big.Rat {
	if a.Cmp(b) <= 0 {
		return a
	}
	return b
}

// medianOfOrder lays the entries out in the given order and returns the weighted median.
func medianOfOrder(fresh []Entry, order []int, bounds []*big.Rat) (price uint64, exactHalf, split bool) {
	type pt struct {
		price uint64
		w     *big.Rat
	}
	pts := make([]pt, 0, len(order))
	pos := new(big.Rat)
	total := new(big.Rat)
	for _, idx := range order {
		e := fresh[idx]
		lo := pos
		hi := new(big.Rat).Add(pos, new(big.Rat).SetInt(e.Power))
		w := new(big.Rat)
		segs := 0
		for s := 0; s < len(segMults); s++ {
			l := ratMax(lo, bounds[s])
			h := ratMin(hi, bounds[s+1])
			if h.Cmp(l) > 0 {
				part := new(big.Rat).Sub(h, l)
				w.Add(w, part.Mul(part, segMults[s]))
				segs++
			}
		}
		if segs > 1 {
			split = true
		}
		pts = append(pts, pt{e.Price, w})
		total.Add(total, w)
		pos = hi
	}
	sort.SliceStable(pts, func(i, j int) bool { return pts[i].price < pts[j].price })
	cum := new(big.Rat)
	two := big.NewRat(2, 1)
	for i := 0; i < len(pts); i++ {
		cum.Add(cum, pts[i].w)
		if i+1 < len(pts) && pts[i+1].price == pts[i].price {
			continue // one point per distinct price
		}
		c := new(big.Rat).Mul(cum, two).Cmp(total)
		if c >= 0 {
			return pts[i].price, c == 0, split
		}
	}
	// unreachable for positive weights
	return pts[len(pts)-1].price, false, split
}

// medianOfOrderInt is medianOfOrder with positions scaled by 32 and weights scaled by 320 (exact).
func medianOfOrderInt(fresh []Entry, order []int, ibounds []*big.Int) (price uint64, exactHalf, split bool) {
	type pt struct {
		price uint64
		w     *big.Int
	}
	pts := make([]pt, 0, len(order))
	pos := new(big.Int)
	total := new(big.Int)
	thirtyTwo := big.NewInt(32)
	var part big.Int
	for _, idx := range order {
		e := fresh[idx]
		lo := pos
		hi := new(big.Int).Mul(e.Power, thirtyTwo)
		hi.Add(hi, pos)
		w := new(big.Int)
		segs := 0
		for s := 0; s < len(segMult10); s++ {
			l, h := lo, hi
			if ibounds[s].Cmp(l) > 0 {
				l = ibounds[s]
			}
			if ibounds[s+1].Cmp(h) < 0 {
				h = ibounds[s+1]
			}
			if h.Cmp(l) > 0 {
				part.Sub(h, l)
				part.Mul(&part, segMult10[s])
				w.Add(w, &part)
				segs++
			}
		}
		if segs > 1 {
			split = true
		}
		pts = append(pts, pt{e.Price, w})
		total.Add(total, w)
		pos = hi
	}
	sort.SliceStable(pts, func(i, j int) bool { return pts[i].price < pts[j].price })
	cum := new(big.Int)
	var dbl big.Int
	for i := 0; i < len(pts); i++ {
		cum.Add(cum, pts[i].w)
		if i+1 < len(pts) && pts[i+1].price == pts[i].price {
			continue
		}
		c := dbl.Lsh(cum, 1).Cmp(total)
		if c >= 0 {
			return pts[i].price, c == 0, split
		}
	}
	return pts[len(pts)-1].price, false, split
}
