package c06

import (
	"fmt"
	"math/big"
	"strconv"
	"strings"
	"time"

	sdkmath "cosmossdk.io/math"

	sdk "github.com/cosmos/cosmos-sdk/types"
	stakingtypes "github.com/cosmos/cosmos-sdk/x/staking/types"

	bandtesting "github.com/bandprotocol/chain/v3/testing"
	feedstypes "github.com/bandprotocol/chain/v3/x/feeds/types"
	oracletypes "github.com/bandprotocol/chain/v3/x/oracle/types"
	"github.com/bandprotocol/chain/v3/zzverif/engine"
)

// The two current feeds of the world layers.  A validator submits both with the same status / price /
// time, so one stored history is judged against two different freshness windows.
const (
	feed1, interval1 = "CS:AAA-USD", int64(60)
	feed2, interval2 = "CS:BBB-USD", int64(1)
)

type deleg struct {
	From string
	Val  int
	Amt  int64
}

// scenario is one validator-set configuration produced from the fixed genesis by real messages.
type scenario struct {
	Name       string
	Desc       string
	Inactive   [3]bool // never activated in x/oracle
	Delegate   []deleg
	Undelegate []deleg
	// Late* happen in the SAME block as the evaluation (after the settling block of the base state): the
	// validator set changes in the x/staking end blocker of the evaluated block itself.
	LateDelegate   []deleg
	LateUndelegate []deleg
	LateJail       []int    // x/staking Keeper.Jail, what x/slashing / x/evidence call from their BeginBlocker
	Tokens         [3]int64 // expected tokens at the end of the evaluated block
	Bonded         [3]bool  // expected bonded status at the end of the evaluated block (after its validator-set update)
}

func (sc scenario) late() bool {
	return len(sc.LateDelegate)+len(sc.LateUndelegate)+len(sc.LateJail) > 0
}

var scenarios = []scenario{
	{Name: "S0-genesis", Desc: "genesis powers 100000000/1000000/99999999, all bonded and oracle-active",
		Tokens: [3]int64{100000000, 1000000, 99999999}, Bonded: [3]bool{true, true, true}},
	{Name: "S1-val2-inactive", Desc: "validator 2 never activated in x/oracle (still bonded: its tokens count in the bonded total)",
		Inactive: [3]bool{false, false, true},
		Tokens:   [3]int64{100000000, 1000000, 99999999}, Bonded: [3]bool{true, true, true}},
	{Name: "S2-val1-unbonded", Desc: "1uband undelegated from validator 1 (999999 tokens left => consensus power 0 => leaves the bonded set), still oracle-active",
		Undelegate: []deleg{{"missed", 1, 1}},
		Tokens:     [3]int64{100000000, 999999, 99999999}, Bonded: [3]bool{true, false, true}},
	{Name: "S3-equal", Desc: "re-weighted by delegations to 100000000 each (full power ties)",
		Delegate: []deleg{{"feepayer", 1, 99000000}, {"val1", 2, 1}},
		Tokens:   [3]int64{100000000, 100000000, 100000000}, Bonded: [3]bool{true, true, true}},
	{Name: "S4-whale", Desc: "validator 1 re-weighted to 401000000 (two thirds of the bonded tokens)",
		Delegate: []deleg{{"feepayer", 1, 100000000}, {"missed", 1, 100000000}, {"val1", 1, 100000000}, {"val2", 1, 100000000}},
		Tokens:   [3]int64{100000000, 401000000, 99999999}, Bonded: [3]bool{true, true, true}},
	{Name: "S5-val0-inactive-val1-unbonded", Desc: "validator 0 oracle-inactive, validator 1 unbonded: only validator 2 counts",
		Inactive:   [3]bool{true, false, false},
		Undelegate: []deleg{{"missed", 1, 1}},
		Tokens:     [3]int64{100000000, 999999, 99999999}, Bonded: [3]bool{true, false, true}},
	{Name: "L1-val1-enters-in-block", Desc: "validator 1 was unbonded (999999 tokens, settled); IN THE EVALUATED BLOCK 100000000uband are delegated to it, so it enters the bonded set in this block's validator-set update",
		Undelegate:   []deleg{{"missed", 1, 1}},
		LateDelegate: []deleg{{"feepayer", 1, 100000000}},
		Tokens:       [3]int64{100000000, 100999999, 99999999}, Bonded: [3]bool{true, true, true}},
	{Name: "L2-val1-leaves-in-block", Desc: "genesis powers; IN THE EVALUATED BLOCK 1uband is undelegated from validator 1 (999999 left), so it leaves the bonded set in this block's validator-set update",
		LateUndelegate: []deleg{{"missed", 1, 1}},
		Tokens:         [3]int64{100000000, 999999, 99999999}, Bonded: [3]bool{true, false, true}},
	{Name: "L3-val2-jailed-in-block", Desc: "genesis powers; IN THE EVALUATED BLOCK validator 2 is jailed (x/staking Keeper.Jail as called by x/slashing / x/evidence), so it leaves the bonded set in this block's validator-set update",
		LateJail: []int{2},
		Tokens:   [3]int64{100000000, 1000000, 99999999}, Bonded: [3]bool{true, true, false}},
}

func scenarioByName(n string) scenario {
	for _, s := range scenarios {
		if s.Name == n {
			return s
		}
	}
	panic("unknown scenario " + n)
}

func account(name string) bandtesting.Account {
	switch name {
	case "feepayer":
		return bandtesting.FeePayer
	case "missed":
		return bandtesting.MissedValidator
	case "carol":
		return bandtesting.Carol
	case "val0":
		return bandtesting.Validators[0]
	case "val1":
		return bandtesting.Validators[1]
	case "val2":
		return bandtesting.Validators[2]
	}
	panic("unknown account " + name)
}

type pair struct {
	Scenario string
	Quorum   string
}

func worldItems() []item {
	return mkItems([]uint64{1, 2, 3}, allOff, []int{offNow, offStale}, []int{offNow, offInterval, offStale})
}

func histItems() []item {
	return mkItems([]uint64{1, 2, 3}, allOff, []int{offNow}, []int{offNow, offStale})
}

func worldPairs(quick bool) (env, hist []pair) {
	if quick {
		env = []pair{
			{"S0-genesis", "0"}, {"S0-genesis", "0.30"}, {"S0-genesis", "1"},
			{"S1-val2-inactive", "0.30"}, {"S1-val2-inactive", "1"},
			{"S2-val1-unbonded", "0.30"}, {"S2-val1-unbonded", "1"},
			{"S3-equal", "0.333333333333333333"}, {"S3-equal", "0.666666666666666667"},
			{"S4-whale", "0.05"}, {"S4-whale", "0.666666666666666667"},
			{"L1-val1-enters-in-block", "0.666666666666666667"}, {"L2-val1-leaves-in-block", "0.30"}, {"L3-val2-jailed-in-block", "0.5"},
		}
		hist = []pair{{"S0-genesis", "0.30"}, {"S3-equal", "0.666666666666666667"}}
		return
	}
	for _, s := range scenarios {
		for _, q := range []string{"0", "0.05", "0.30", "0.333333333333333333", "0.5", "0.666666666666666667", "1"} {
			env = append(env, pair{s.Name, q})
		}
	}
	for _, s := range []string{"S0-genesis", "S3-equal", "S4-whale", "S2-val1-unbonded"} {
		for _, q := range []string{"0.05", "0.30", "0.666666666666666667", "1"} {
			hist = append(hist, pair{s, q})
		}
	}
	return
}

func worldBoundText(quick bool) string {
	env, hist := worldPairs(quick)
	var its, hits []string
	for _, it := range worldItems() {
		its = append(its, it.String())
	}
	for _, it := range histItems() {
		hits = append(hits, it.String())
	}
	var sc []string
	for _, s := range scenarios {
		sc = append(sc, s.Name+" ("+s.Desc+")")
	}
	return fmt.Sprintf("3 genesis validators, 2 current feeds (%s interval %d, %s interval %d; a validator submits both with the same status/price/time); "+
		"world: all triples of items(%d)=%v for (scenario,quorum) in %v through the whole-app EndBlocker; "+
		"hist: all triples of items(%d)=%v for (scenario,quorum) in %v via real MsgSubmitSignalPrices in 4 consecutive blocks at times now-61, now-60, now-1, now, checked at the end of each; scenarios: %v",
		feed1, interval1, feed2, interval2, len(worldItems()), its, env, len(histItems()), hits, hist, sc)
}

// base is a prepared (scenario, quorum) state on one world.
type base struct {
	sc     scenario
	quorum string
	q      *big.Rat
	ctx    sdk.Context
	bonded *big.Int
	tokens [3]*big.Int
}

func mustOK(what string, res engine.TxResult) {
	if !res.OK() {
		engine.Fatal3("C06 base state: %s failed: %v", what, res.Err)
	}
}

func buildBase(w *engine.World, sc scenario, quorum string) *base {
	ctx := engine.Fork(w.Root)
	for i, v := range bandtesting.Validators {
		if !sc.Inactive[i] {
			mustOK("activate", w.Tx(ctx, 0, oracletypes.NewMsgActivate(v.ValAddress)))
		}
	}
	for _, d := range sc.Delegate {
		mustOK("delegate", w.Tx(ctx, 0, stakingtypes.NewMsgDelegate(account(d.From).Address.String(),
			bandtesting.Validators[d.Val].ValAddress.String(), sdk.NewInt64Coin("uband", d.Amt))))
	}
	for _, d := range sc.Undelegate {
		mustOK("undelegate", w.Tx(ctx, 0, stakingtypes.NewMsgUndelegate(account(d.From).Address.String(),
			bandtesting.Validators[d.Val].ValAddress.String(), sdk.NewInt64Coin("uband", d.Amt))))
	}
	k := w.App.FeedsKeeper
	p := k.GetParams(ctx)
	p.PriceQuorum = quorum
	mustOK("MsgUpdateParams(price_quorum="+quorum+")", w.Tx(ctx, 0, feedstypes.NewMsgUpdateParams(k.GetAuthority(), p)))
	ctx, br := w.Block(ctx, 1, time.Second)
	if br.Halt != "" {
		engine.Fatal3("C06 base state %s/%s: block halted: %s", sc.Name, quorum, br.Halt)
	}
	k.SetCurrentFeeds(ctx, []feedstypes.Feed{feedstypes.NewFeed(feed1, 1, interval1), feedstypes.NewFeed(feed2, 1, interval2)})
	// changes of the evaluated block itself (not settled by a block boundary)
	for _, d := range sc.LateDelegate {
		mustOK("late delegate", w.Tx(ctx, 0, stakingtypes.NewMsgDelegate(account(d.From).Address.String(),
			bandtesting.Validators[d.Val].ValAddress.String(), sdk.NewInt64Coin("uband", d.Amt))))
	}
	for _, d := range sc.LateUndelegate {
		mustOK("late undelegate", w.Tx(ctx, 0, stakingtypes.NewMsgUndelegate(account(d.From).Address.String(),
			bandtesting.Validators[d.Val].ValAddress.String(), sdk.NewInt64Coin("uband", d.Amt))))
	}
	for _, v := range sc.LateJail {
		if err := w.App.StakingKeeper.Jail(ctx, sdk.ConsAddress(bandtesting.Validators[v].PubKey.Address())); err != nil {
			engine.Fatal3("C06 base state %s: jail validator %d: %v", sc.Name, v, err)
		}
	}

	b := &base{sc: sc, quorum: quorum, ctx: ctx, bonded: new(big.Int)}
	b.q, _ = new(big.Rat).SetString(quorum)
	if sc.late() {
		// the scenario's expectation describes the END of the evaluated block: verify it on a throw-away
		// branch after the application's EndBlocker (x/staking's validator-set update included)
		ctx = engine.Fork(ctx)
		if _, halt := w.EndBlock(ctx); halt != "" {
			engine.Fatal3("C06 base state %s/%s: EndBlocker halted: %s", sc.Name, quorum, halt)
		}
	}
	for i, v := range bandtesting.Validators {
		val, err := w.App.StakingKeeper.GetValidator(ctx, v.ValAddress)
		if err != nil {
			engine.Fatal3("C06 base state %s: validator %d missing: %v", sc.Name, i, err)
		}
		if !val.Tokens.Equal(sdkmath.NewInt(sc.Tokens[i])) || val.IsBonded() != sc.Bonded[i] {
			engine.Fatal3("C06 base state %s: validator %d has tokens=%s bonded=%v, scenario expects %d / %v", sc.Name, i, val.Tokens, val.IsBonded(), sc.Tokens[i], sc.Bonded[i])
		}
		if st := w.App.OracleKeeper.GetValidatorStatus(ctx, v.ValAddress); st.IsActive == sc.Inactive[i] {
			engine.Fatal3("C06 base state %s: validator %d oracle-active=%v unexpected", sc.Name, i, st.IsActive)
		}
		b.tokens[i] = big.NewInt(sc.Tokens[i])
		if sc.Bonded[i] {
			b.bonded.Add(b.bonded, b.tokens[i])
		}
	}
	tbt, err := w.App.StakingKeeper.TotalBondedTokens(ctx)
	if err != nil || tbt.BigInt().Cmp(b.bonded) != 0 {
		engine.Fatal3("C06 base state %s: total bonded tokens %v (err %v), scenario expects %s", sc.Name, tbt, err, b.bonded)
	}
	return b
}

// ItemJSON is the replay-file form of an item.
type ItemJSON struct {
	Status string `json:"status"`
	Price  uint64 `json:"price"`
	Off    string `json:"time"`
}

// WorldCase is a self-contained world/hist-layer input.
type WorldCase struct {
	Kind     string      `json:"kind"` // world | hist
	Scenario string      `json:"scenario"`
	Desc     string      `json:"scenario_description,omitempty"`
	Quorum   string      `json:"price_quorum"`
	Items    [3]ItemJSON `json:"validator_items"`
	Plans    [][]SubJSON `json:"validator_plans,omitempty"`         // kind resub: per validator the submissions (block, status, price)
	PerSig   [][]SigJSON `json:"validator_signal_prices,omitempty"` // kind rerank: per validator what it submits for each signal
}

// SigJSON is one signal price of a rerank-layer submission.
type SigJSON struct {
	Signal string `json:"signal"`
	Status string `json:"status"`
	Price  uint64 `json:"price"`
}

// SubJSON is one real MsgSubmitSignalPrices of a plan.
type SubJSON struct {
	Block  int    `json:"block"` // 0..3 = the blocks at now-61, now-60, now-1, now
	Status string `json:"status"`
	Price  uint64 `json:"price"`
}

func itemJSON(it item) ItemJSON {
	return ItemJSON{Status: stName[it.Status], Price: it.Price, Off: offName[it.Off]}
}

func itemFromJSON(j ItemJSON) item {
	it := item{Status: -1, Off: -1, Price: j.Price}
	for i, n := range stName {
		if n == j.Status {
			it.Status = i
		}
	}
	for i, n := range offName {
		if n == j.Off {
			it.Off = i
		}
	}
	if it.Status < 0 || it.Off < 0 {
		panic(fmt.Sprintf("bad item %+v", j))
	}
	return it
}

// feedCheck is the judgement of one feed at the end of one block.
type feedCheck struct {
	Step   int
	Feed   string
	O      observed
	A      agg
	V      verdict
	FP     string
	Detail string
	// RefreshCounted: a counted validator's entry is fresh only because it RE-submitted the same (status, price);
	// its first submission of that value is older than the interval
	RefreshCounted bool
	// ignoredMatters: a non-bonded / oracle-inactive validator holds a fresh price whose inclusion would
	// change the admitted result, and the implementation conforms to the statement
	UnbondedIgnored bool
	InactiveIgnored bool
}

func signalPriceOf(it item, sig string) feedstypes.SignalPrice {
	return feedstypes.NewSignalPrice(toProtoStatus(it.Status), sig, it.Price)
}

// checkFeeds judges both feeds on ctx (after an EndBlocker ran at time now) given the entries the three
// validators hold (Status stAbsent = none).
func checkFeeds(w *engine.World, b *base, ctx sdk.Context, events sdk.Events, halt string, held [3]Entry, now int64, step int) []feedCheck {
	return checkFeedList(w, b, ctx, events, halt, []feedSpec{{feed1, interval1}, {feed2, interval2}},
		func(string) [3]Entry { return held }, now, step)
}

// feedSpec is one current feed (signal id, interval).
type feedSpec struct {
	sig string
	iv  int64
}

// checkFeedList judges the given current feeds; heldOf returns, for a signal id, the entries the three validators
// hold FOR THAT SIGNAL (the reference is keyed by signal id, never by position).
func checkFeedList(w *engine.World, b *base, ctx sdk.Context, events sdk.Events, halt string, specs []feedSpec, heldOf func(sig string) [3]Entry, now int64, step int) []feedCheck {
	var out []feedCheck
	k := w.App.FeedsKeeper
	for _, f := range specs {
		held := heldOf(f.sig)
		var counted, all []Entry
		for v := 0; v < 3; v++ {
			all = append(all, held[v])
			if b.sc.Bonded[v] && !b.sc.Inactive[v] {
				counted = append(counted, held[v])
			}
		}
		a, v, med := expectedOf(counted, now, f.iv, b.q, b.bonded)
		fc := feedCheck{Step: step, Feed: f.sig, A: a, V: v}
		if halt != "" {
			fc.O = observed{Status: "ERROR", Err: halt}
			if i := strings.Index(fc.O.Err, "\n"); i > 0 {
				fc.O.Err = fc.O.Err[:i]
			}
			fp, detail := judge(a, v, med, fc.O)
			if fp == "price-error:unexpected" {
				// the halt may be caused by the other feed; only blame this feed if no feed explains it
				fc.FP, fc.Detail = "", ""
				fc.O.Status = "HALT-OTHER"
			} else {
				fc.FP, fc.Detail = fp, "chain halt at end of block: "+detail
			}
			out = append(out, fc)
			continue
		}
		p := k.GetPrice(ctx, f.sig)
		fc.O = observed{Status: priceStatusName(p.Status), Price: p.Price}
		fc.FP, fc.Detail = judge(a, v, med, fc.O)
		if fc.FP == "" {
			// the update_price event must carry what was stored
			n := 0
			for _, e := range engine.EventsOfType(events, feedstypes.EventTypeUpdatePrice) {
				if engine.Attr(e, feedstypes.AttributeKeySignalID) != f.sig {
					continue
				}
				n++
				if engine.Attr(e, feedstypes.AttributeKeyPriceStatus) != p.Status.String() || engine.Attr(e, feedstypes.AttributeKeyPrice) != strconv.FormatUint(p.Price, 10) {
					fc.FP, fc.Detail = "update-price-event-differs-from-store", fmt.Sprintf("event %v vs stored %v", e, p)
				}
			}
			if n != 1 && fc.FP == "" {
				fc.FP, fc.Detail = "update-price-event-count", fmt.Sprintf("%d update_price events for %s in one block", n, f.sig)
			}
			if p.Timestamp != now && fc.FP == "" {
				fc.FP, fc.Detail = "price-timestamp-not-block-time", fmt.Sprintf("stored price timestamp %d, block time %d", p.Timestamp, now)
			}
		}
		if fc.FP == "" && len(all) != len(counted) {
			// would counting the excluded validators have changed what the statement admits?
			a2, v2, med2 := expectedOf(all, now, f.iv, b.q, b.bonded)
			if fp2, _ := judge(a2, v2, med2, fc.O); fp2 != "" {
				for i := 0; i < 3; i++ {
					if held[i].Status != stAbsent && now-held[i].TS <= f.iv {
						if !b.sc.Bonded[i] {
							fc.UnbondedIgnored = true
						}
						if b.sc.Inactive[i] {
							fc.InactiveIgnored = true
						}
					}
				}
			}
		}
		out = append(out, fc)
	}
	// a halt that no feed explains
	if halt != "" {
		explained := false
		for _, fc := range out {
			if fc.FP != "" {
				explained = true
			}
		}
		if !explained {
			out[0].FP, out[0].Detail = "price-error:unexpected", "chain halt at end of block: "+halt
		}
	}
	return out
}

// evalEnv: price lists written with the keeper setter, one whole-app EndBlocker.
func evalEnv(w *engine.World, b *base, items [3]item, discarded bool) []feedCheck {
	c := engine.Fork(b.ctx)
	if discarded {
		// a parameter update with another quorum is executed by the real handler on a branch that is thrown away (what
		// x/gov does with a proposal whose later message fails): the stored parameters, and so the result, are unchanged
		k := w.App.FeedsKeeper
		g := engine.Fork(c)
		p := k.GetParams(g)
		p.PriceQuorum = otherQuorum(b.quorum)
		mustOK("discarded MsgUpdateParams", w.Tx(g, 0, feedstypes.NewMsgUpdateParams(k.GetAuthority(), p)))
	}
	now := c.BlockTime().Unix()
	k := w.App.FeedsKeeper
	var held [3]Entry
	for v := 0; v < 3; v++ {
		it := items[v]
		e := Entry{Status: it.Status, Power: b.tokens[v], Price: it.Price, TS: now - offsetOf(it.Off, interval1)}
		if it.Status == stAbsent {
			e.TS, e.Price = 0, 0
		}
		held[v] = e
		if it.Status == stAbsent && v == 0 {
			continue // validator 0 absent: no list at all; others absent: a list of unspecified entries
		}
		if err := k.SetValidatorPriceList(c, bandtesting.Validators[v].ValAddress, []feedstypes.ValidatorPrice{valPriceOf(e, feed1), valPriceOf(e, feed2)}); err != nil {
			engine.Fatal3("SetValidatorPriceList: %v", err)
		}
	}
	events, halt := w.EndBlock(c)
	return checkFeeds(w, b, c, events, halt, held, now, 0)
}

// otherQuorum is a quorum on the other side of every two-validator power sum of the scenarios.
func otherQuorum(q string) string {
	if q == "1" || q == "0.666666666666666667" {
		return "0.05"
	}
	return "1"
}

// evalHist: prices submitted by real transactions in four consecutive blocks.
func evalHist(w *engine.World, b *base, items [3]item) []feedCheck {
	c := engine.Fork(b.ctx)
	var held [3]Entry
	for v := 0; v < 3; v++ {
		held[v] = Entry{Status: stAbsent, Power: b.tokens[v]}
	}
	kinds := []int{offStale, offInterval, offOne, offNow}
	dts := []time.Duration{time.Second, time.Duration(interval1-1) * time.Second, time.Second}
	var out []feedCheck
	for step, kind := range kinds {
		now := c.BlockTime().Unix()
		for v := 0; v < 3; v++ {
			it := items[v]
			if it.Status == stAbsent || it.Off != kind {
				continue
			}
			msg := feedstypes.NewMsgSubmitSignalPrices(bandtesting.Validators[v].ValAddress.String(), now,
				[]feedstypes.SignalPrice{signalPriceOf(it, feed1), signalPriceOf(it, feed2)})
			res := w.Tx(c, 0, msg)
			eligible := b.sc.Bonded[v] && !b.sc.Inactive[v]
			if res.OK() {
				held[v] = Entry{Status: it.Status, Power: b.tokens[v], Price: it.Price, TS: now}
			} else if eligible {
				engine.Fatal3("C06 hist: MsgSubmitSignalPrices of bonded, active validator %d rejected: %v", v, res.Err)
			}
		}
		events, halt := w.EndBlock(c)
		out = append(out, checkFeeds(w, b, c, events, halt, held, now, step)...)
		if halt != "" {
			return out
		}
		if step < len(dts) {
			var h string
			c, _, h = w.BeginBlock(c, 1, dts[step])
			if h != "" {
				engine.Fatal3("C06 hist: BeginBlocker halted: %s", h)
			}
		}
	}
	return out
}

func evalWorldCase(w *engine.World, c WorldCase) (outs []string, viols []engine.Violation) {
	b := buildBase(w, scenarioByName(c.Scenario), c.Quorum)
	var items [3]item
	var fcs []feedCheck
	if c.Kind == kindRerank {
		var sv [3]sigVals
		for i := range sv {
			sv[i] = sigValsFromJSON(c.PerSig[i])
		}
		fcs = evalRerank(w, b, sv)
	} else if c.Kind == kindResub {
		var pl [3]plan
		for i := range pl {
			pl[i] = planFromJSON(c.Plans[i])
		}
		fcs = evalPlans(w, b, pl)
	} else {
		for i := range items {
			items[i] = itemFromJSON(c.Items[i])
		}
	}
	if c.Kind == kindResub || c.Kind == kindRerank {
		// evaluated above
	} else if c.Kind == "hist" {
		fcs = evalHist(w, b, items)
	} else {
		fcs = evalEnv(w, b, items, c.Kind == kindDiscarded)
	}
	for _, fc := range fcs {
		outs = append(outs, fmt.Sprintf("block%d %s -> %s price=%d (statement admits %v: %s)", fc.Step, fc.Feed, fc.O.Status, fc.O.Price, fc.V.Want, fc.V.Reason))
		if fc.FP != "" {
			viols = append(viols, engine.Violation{Fingerprint: fc.FP, Detail: fc.Detail})
		}
	}
	return
}

func runWorld(r *engine.Run, tally *engine.Tally, quick bool, deadline time.Time) {
	envPairs, histPairs := worldPairs(quick)
	workers := engine.DefaultWorkers()
	worlds := make([]*engine.World, workers)
	for i := range worlds {
		worlds[i] = engine.NewWorld()
	}
	defer func() {
		for _, w := range worlds {
			w.Close()
		}
	}()
	plans := resubPlans(quick)
	run := func(kind string, pr pair, its []item) bool {
		t0 := time.Now()
		sc := scenarioByName(pr.Scenario)
		bases := make([]*base, workers)
		for i, w := range worlds {
			engine.DetRandReset()
			bases[i] = buildBase(w, sc, pr.Quorum)
		}
		n := len(its)
		if kind == kindResub {
			n = len(plans)
		}
		if kind == kindRerank {
			n = len(rerankAlphabet)
		}
		od := engine.Odometer{Sizes: []int{n, n, n}}
		cs := make([]*counters, workers)
		digs := make([][]int, workers)
		for i := range cs {
			cs[i] = newCounters()
		}
		complete := engine.ParallelFor(od.Total(), workers, deadline, func(wk int, idx int64) {
			c := cs[wk]
			digs[wk] = od.Digits(idx, digs[wk])
			var items [3]item
			var pl [3]plan
			var fcs []feedCheck
			var sv [3]sigVals
			if kind == kindRerank {
				sv = [3]sigVals{rerankAlphabet[digs[wk][0]], rerankAlphabet[digs[wk][1]], rerankAlphabet[digs[wk][2]]}
				fcs = evalRerank(worlds[wk], bases[wk], sv)
			} else if kind == kindResub {
				pl = [3]plan{plans[digs[wk][0]], plans[digs[wk][1]], plans[digs[wk][2]]}
				fcs = evalPlans(worlds[wk], bases[wk], pl)
			} else {
				items = [3]item{its[digs[wk][0]], its[digs[wk][1]], its[digs[wk][2]]}
			}
			if kind == kindResub || kind == kindRerank {
				// evaluated above
			} else if kind == "hist" {
				fcs = evalHist(worlds[wk], bases[wk], items)
			} else {
				fcs = evalEnv(worlds[wk], bases[wk], items, kind == kindDiscarded)
			}
			nontrivial := false
			for _, fc := range fcs {
				c.evals++
				c.saw2(kind+":", fc.O.Status)
				c.saw2("status:", fc.O.Status)
				c.saw2("rule:", fc.V.Reason)
				if fc.V.Gap {
					c.saw("quorum:rounding-gap")
					if len(fc.V.Want) == 2 {
						c.saw("quorum:rounding-gap:impl-says-" + fc.O.Status)
					}
				}
				if fc.V.Reason == "all-conditions-met" && fc.V.QuorumExact {
					c.saw("boundary:quorum-exactly-reached")
					c.saw(kind + ":quorum-exactly-reached")
				}
				if fc.A.boundarySeen {
					c.saw(kind + ":fresh-boundary-counted")
				}
				if fc.UnbondedIgnored {
					c.saw("world:unbonded-validator-ignored")
				}
				if fc.InactiveIgnored {
					c.saw("world:inactive-validator-ignored")
				}
				if fc.RefreshCounted {
					c.saw("resub:same-value-resubmission-counted-after-first-is-stale")
				}
				if sc.late() {
					c.saw2("setchange:", fc.O.Status)
				}
				if len(fc.A.fresh) >= 2 {
					for _, e := range fc.A.fresh[1:] {
						if e.Price != fc.A.fresh[0].Price {
							nontrivial = true
						}
					}
				}
				if fc.FP != "" {
					fc := fc
					c.violate(idx, fc.FP, func() (any, []string, string) {
						wc := WorldCase{Kind: kind, Scenario: sc.Name, Desc: sc.Desc, Quorum: pr.Quorum}
						if kind == kindRerank {
							wc.PerSig = [][]SigJSON{sv[0].json(), sv[1].json(), sv[2].json()}
						} else if kind == kindResub {
							wc.Plans = [][]SubJSON{planJSON(pl[0]), planJSON(pl[1]), planJSON(pl[2])}
						} else {
							wc.Items = [3]ItemJSON{itemJSON(items[0]), itemJSON(items[1]), itemJSON(items[2])}
						}
						return wc, []string{kind}, fmt.Sprintf("block %d feed %s: %s", fc.Step, fc.Feed, fc.Detail)
					})
				}
			}
			if nontrivial {
				c.nontrivial++
			}
			if idx == od.Total()/2 {
				if kind == kindRerank {
					tally.Sample(12, map[string]any{"layer": kind, "scenario": sc.Name, "quorum": pr.Quorum,
						"signal_prices": []string{sv[0].String(), sv[1].String(), sv[2].String()}})
				} else if kind == kindResub {
					tally.Sample(12, map[string]any{"layer": kind, "scenario": sc.Name, "quorum": pr.Quorum,
						"plans": []string{pl[0].String(), pl[1].String(), pl[2].String()}})
				} else {
					tally.Sample(12, map[string]any{"layer": kind, "scenario": sc.Name, "quorum": pr.Quorum,
						"items": []string{items[0].String(), items[1].String(), items[2].String()}})
				}
			}
		})
		ev, nt := mergeCounters(r, cs)
		flushViolations(tally, cs)
		if !complete {
			r.Exhaustive = false
			r.CapReasons = append(r.CapReasons, fmt.Sprintf("%s/%s/q=%s: internal deadline reached", kind, pr.Scenario, pr.Quorum))
		}
		r.Configs = append(r.Configs, map[string]any{"layer": kind, "scenario": sc.Name, "quorum": pr.Quorum, "tuples": od.Total(),
			"evaluations": ev, "nontrivial_tuples": nt, "complete": complete})
		fmt.Printf("[C06] %s/%s/q=%s: tuples=%d feed-evaluations=%d nontrivial=%d complete=%v violations=%d (%.1fs)\n",
			kind, sc.Name, pr.Quorum, od.Total(), ev, nt, complete, tally.Violations(), time.Since(t0).Seconds())
		return complete
	}
	for _, pr := range envPairs {
		if !run("world", pr, worldItems()) {
			return
		}
	}
	for _, pr := range histPairs {
		if !run("hist", pr, histItems()) {
			return
		}
	}
	for _, pr := range resubPairs(quick) {
		if !run(kindResub, pr, nil) {
			return
		}
	}
	for _, pr := range rerankPairs(quick) {
		if !run(kindRerank, pr, nil) {
			return
		}
	}
	// world layer again with a parameter update (another quorum) executed on a discarded branch before the EndBlocker
	dp := envPairs
	if quick {
		dp = []pair{{"S0-genesis", "0.30"}, {"S3-equal", "0.666666666666666667"}}
	}
	for _, pr := range dp {
		if !run(kindDiscarded, pr, worldItems()) {
			return
		}
	}
}

const kindDiscarded = "world+discarded-params-update"

// ---- resub layer: re-submissions through the real MsgSubmitSignalPrices ------------------------------------

const kindResub = "resub"

// sub is one submission of a plan: in block Block (0..3 = times now-61, now-60, now-1, now) the validator sends
// a real MsgSubmitSignalPrices carrying (Status, Price) for both feeds.
type sub struct {
	Block  int
	Status int
	Price  uint64
}

// plan is what one validator submits over the four blocks (at most one message per block; consecutive
// submissions are >= 59 s apart, i.e. beyond the 30 s cooldown, so every one is accepted).
type plan []sub

func (p plan) String() string {
	if len(p) == 0 {
		return "absent"
	}
	var parts []string
	for _, s := range p {
		parts = append(parts, fmt.Sprintf("b%d:%s/%d", s.Block, stName[s.Status], s.Price))
	}
	return strings.Join(parts, ",")
}

func planJSON(p plan) []SubJSON {
	out := []SubJSON{}
	for _, s := range p {
		out = append(out, SubJSON{Block: s.Block, Status: stName[s.Status], Price: s.Price})
	}
	return out
}

func planFromJSON(js []SubJSON) plan {
	var p plan
	for _, j := range js {
		st := -1
		for i, n := range stName {
			if n == j.Status {
				st = i
			}
		}
		if st <= 0 || j.Block < 0 || j.Block > 3 {
			panic(fmt.Sprintf("bad submission %+v", j))
		}
		p = append(p, sub{j.Block, st, j.Price})
	}
	return p
}

// resubPlans is the plan alphabet, simplest first.  Values: A1 = AVAILABLE/1, A2 = AVAILABLE/2, U = UNSUPPORTED/0.
func resubPlans(quick bool) []plan {
	type val struct {
		st int
		p  uint64
	}
	a1, a2, u := val{stAvailable, 1}, val{stAvailable, 2}, val{stUnsupported, 0}
	one := func(b int, v val) plan { return plan{{b, v.st, v.p}} }
	two := func(b1 int, v1 val, b2 int, v2 val) plan { return plan{{b1, v1.st, v1.p}, {b2, v2.st, v2.p}} }
	if quick {
		return []plan{
			nil,
			one(3, a1), one(3, a2), one(3, u), one(0, a1), one(1, a2),
			two(0, a1, 2, a1), two(0, a1, 2, a2), two(0, u, 2, u), two(0, u, 2, a1),
			two(0, a2, 3, a2), two(0, a2, 3, a1), two(0, a1, 3, u),
			two(1, a1, 3, a1), two(1, a2, 3, a1), two(1, u, 3, u), two(1, a2, 2, a2),
		}
	}
	vals := []val{a1, a2, u}
	ps := []plan{nil}
	for b := 3; b >= 0; b-- {
		for _, v := range vals {
			ps = append(ps, one(b, v))
		}
	}
	for _, bb := range [][2]int{{0, 2}, {0, 3}, {1, 3}} {
		for _, v1 := range vals {
			for _, v2 := range vals {
				ps = append(ps, two(bb[0], v1, bb[1], v2))
			}
		}
	}
	return ps
}

func resubPairs(quick bool) []pair {
	if quick {
		return []pair{{"S0-genesis", "0.30"}, {"S3-equal", "0.666666666666666667"}}
	}
	return []pair{{"S0-genesis", "0.30"}, {"S0-genesis", "1"}, {"S3-equal", "0.333333333333333333"}, {"S3-equal", "0.666666666666666667"}, {"S4-whale", "0.666666666666666667"}}
}

func resubBoundText(quick bool) string {
	var ps []string
	for _, p := range resubPlans(quick) {
		ps = append(ps, p.String())
	}
	return fmt.Sprintf("resub: all triples of per-validator submission plans(%d)=%v (bK = real MsgSubmitSignalPrices in block K of the four blocks at now-61, now-60, now-1, now; a second submission repeats or changes the value) for (scenario,quorum) in %v, both feeds checked at the end of each block",
		len(ps), ps, resubPairs(quick))
}

// evalPlans: every validator follows its plan through real transactions; the reference holds, per validator,
// the LATEST accepted submission stamped with the time of the block that carried it.
func evalPlans(w *engine.World, b *base, plans [3]plan) []feedCheck {
	c := engine.Fork(b.ctx)
	var held [3]Entry
	var firstTS [3]int64 // time of the first submission of the currently held (status, price)
	for v := 0; v < 3; v++ {
		held[v] = Entry{Status: stAbsent, Power: b.tokens[v]}
	}
	dts := []time.Duration{time.Second, time.Duration(interval1-1) * time.Second, time.Second}
	var out []feedCheck
	for step := 0; step < 4; step++ {
		now := c.BlockTime().Unix()
		for v := 0; v < 3; v++ {
			for _, s := range plans[v] {
				if s.Block != step {
					continue
				}
				it := item{Status: s.Status, Price: s.Price}
				msg := feedstypes.NewMsgSubmitSignalPrices(bandtesting.Validators[v].ValAddress.String(), now,
					[]feedstypes.SignalPrice{signalPriceOf(it, feed1), signalPriceOf(it, feed2)})
				res := w.Tx(c, 0, msg)
				if res.OK() {
					if held[v].Status != s.Status || held[v].Price != s.Price {
						firstTS[v] = now
					}
					held[v] = Entry{Status: s.Status, Power: b.tokens[v], Price: s.Price, TS: now}
				} else if b.sc.Bonded[v] && !b.sc.Inactive[v] {
					engine.Fatal3("C06 resub: MsgSubmitSignalPrices of bonded, active validator %d in block %d rejected: %v", v, step, res.Err)
				}
			}
		}
		events, halt := w.EndBlock(c)
		fcs := checkFeeds(w, b, c, events, halt, held, now, step)
		for i := range fcs {
			iv := interval1
			if fcs[i].Feed == feed2 {
				iv = interval2
			}
			for v := 0; v < 3; v++ {
				if b.sc.Bonded[v] && !b.sc.Inactive[v] && held[v].Status != stAbsent && now-held[v].TS <= iv && now-firstTS[v] > iv {
					fcs[i].RefreshCounted = true
				}
			}
		}
		out = append(out, fcs...)
		if halt != "" {
			return out
		}
		if step < len(dts) {
			var h string
			c, _, h = w.BeginBlock(c, 1, dts[step])
			if h != "" {
				engine.Fatal3("C06 resub: BeginBlocker halted: %s", h)
			}
		}
	}
	return out
}

// ---- rerank layer: per-signal distinct prices, current feed list changed between submission and evaluation ----

const (
	kindRerank = "rerank"
	feed3      = "CS:CCC-USD"
	rerankIv   = int64(60)
)

// sigVals is what one validator submits (one real MsgSubmitSignalPrices) while the current feeds are [A,B]:
// a value for signal A (= feed1) and a value for signal B (= feed2); Status stAbsent = not in the message.
// The price alphabets of the two signals are disjoint, so a report applied to the wrong signal is visible.
type sigVals struct {
	A, B item
}

func (s sigVals) String() string {
	f := func(it item) string {
		if it.Status == stAbsent {
			return "-"
		}
		return fmt.Sprintf("%s/%d", stName[it.Status], it.Price)
	}
	return "A=" + f(s.A) + " B=" + f(s.B)
}

func (s sigVals) json() []SigJSON {
	out := []SigJSON{}
	if s.A.Status != stAbsent {
		out = append(out, SigJSON{feed1, stName[s.A.Status], s.A.Price})
	}
	if s.B.Status != stAbsent {
		out = append(out, SigJSON{feed2, stName[s.B.Status], s.B.Price})
	}
	return out
}

func sigValsFromJSON(js []SigJSON) sigVals {
	var s sigVals
	for _, j := range js {
		st := -1
		for i, n := range stName {
			if n == j.Status {
				st = i
			}
		}
		if st <= 0 {
			panic(fmt.Sprintf("bad signal price %+v", j))
		}
		switch j.Signal {
		case feed1:
			s.A = item{Status: st, Price: j.Price}
		case feed2:
			s.B = item{Status: st, Price: j.Price}
		default:
			panic("bad signal " + j.Signal)
		}
	}
	return s
}

var rerankAlphabet = func() []sigVals {
	as := []item{{Status: stAbsent}, {Status: stAvailable, Price: 1}, {Status: stAvailable, Price: 2}, {Status: stUnsupported}}
	bs := []item{{Status: stAbsent}, {Status: stAvailable, Price: 3}, {Status: stAvailable, Price: 4}, {Status: stUnsupported}}
	var out []sigVals
	for _, b := range bs {
		for _, a := range as {
			out = append(out, sigVals{a, b})
		}
	}
	return out
}()

// rerankLists are the current feed lists installed (environment input, as everywhere in the world layers) in the
// block after the submissions: order swapped, a new feed inserted in front, a feed removed.
var rerankLists = [][]string{{feed2, feed1}, {feed3, feed1, feed2}, {feed2}}

func rerankPairs(quick bool) []pair {
	if quick {
		return []pair{{"S0-genesis", "0.30"}, {"S3-equal", "0.666666666666666667"}}
	}
	return []pair{{"S0-genesis", "0.05"}, {"S0-genesis", "0.30"}, {"S0-genesis", "1"}, {"S3-equal", "0.333333333333333333"}, {"S3-equal", "0.666666666666666667"}, {"S4-whale", "0.666666666666666667"}}
}

func rerankBoundText(quick bool) string {
	var al []string
	for _, s := range rerankAlphabet {
		al = append(al, s.String())
	}
	return fmt.Sprintf("rerank: current feeds [A=%s,B=%s] (interval %d); all triples of per-validator submissions(%d)=%v by one real MsgSubmitSignalPrices each, "+
		"checked at the end of that block; in the next block (1 s later, no re-submission) the current feed list is replaced by each of %v (C=%s) and every feed of the new list is checked "+
		"at the end of the block against the reports stored FOR THAT SIGNAL ID; (scenario,quorum) in %v",
		feed1, feed2, rerankIv, len(al), al, rerankLists, feed3, rerankPairs(quick))
}

func evalRerank(w *engine.World, b *base, sv [3]sigVals) []feedCheck {
	k := w.App.FeedsKeeper
	c := engine.Fork(b.ctx)
	mk := func(sigs []string) []feedstypes.Feed {
		var fs []feedstypes.Feed
		for _, s := range sigs {
			fs = append(fs, feedstypes.NewFeed(s, 1, rerankIv))
		}
		return fs
	}
	specs := func(sigs []string) []feedSpec {
		var fs []feedSpec
		for _, s := range sigs {
			fs = append(fs, feedSpec{s, rerankIv})
		}
		return fs
	}
	k.SetCurrentFeeds(c, mk([]string{feed1, feed2}))
	now := c.BlockTime().Unix()
	held := map[string][3]Entry{}
	for _, sig := range []string{feed1, feed2, feed3} {
		var h [3]Entry
		for v := 0; v < 3; v++ {
			h[v] = Entry{Status: stAbsent, Power: b.tokens[v]}
		}
		held[sig] = h
	}
	for v := 0; v < 3; v++ {
		var sps []feedstypes.SignalPrice
		if sv[v].A.Status != stAbsent {
			sps = append(sps, signalPriceOf(sv[v].A, feed1))
		}
		if sv[v].B.Status != stAbsent {
			sps = append(sps, signalPriceOf(sv[v].B, feed2))
		}
		if len(sps) == 0 {
			continue
		}
		res := w.Tx(c, 0, feedstypes.NewMsgSubmitSignalPrices(bandtesting.Validators[v].ValAddress.String(), now, sps))
		if res.OK() {
			for _, x := range []struct {
				sig string
				it  item
			}{{feed1, sv[v].A}, {feed2, sv[v].B}} {
				if x.it.Status != stAbsent {
					h := held[x.sig]
					h[v] = Entry{Status: x.it.Status, Power: b.tokens[v], Price: x.it.Price, TS: now}
					held[x.sig] = h
				}
			}
		} else if b.sc.Bonded[v] && !b.sc.Inactive[v] {
			engine.Fatal3("C06 rerank: MsgSubmitSignalPrices of bonded, active validator %d rejected: %v", v, res.Err)
		}
	}
	heldOf := func(sig string) [3]Entry { return held[sig] }
	events, halt := w.EndBlock(c)
	out := checkFeedList(w, b, c, events, halt, specs([]string{feed1, feed2}), heldOf, now, 0)
	if halt != "" {
		return out
	}
	c, _, h := w.BeginBlock(c, 1, time.Second)
	if h != "" {
		engine.Fatal3("C06 rerank: BeginBlocker halted: %s", h)
	}
	now = c.BlockTime().Unix()
	for i, list := range rerankLists {
		g := engine.Fork(c)
		k.SetCurrentFeeds(g, mk(list))
		ev, halt := w.EndBlock(g)
		fcs := checkFeedList(w, b, g, ev, halt, specs(list), heldOf, now, i+1)
		for j := range fcs {
			fcs[j].Detail = fmt.Sprintf("after the current feeds changed from [%s %s] to %v: %s", feed1, feed2, list, fcs[j].Detail)
		}
		out = append(out, fcs...)
	}
	return out
}
