// Package c07 checks property C07: votes never exceed voter power; signal totals and current feeds
// follow votes.  Engine: kvmc with a big-integer ledger of standing votes.
package c07

import (
	"encoding/json"
	"fmt"
	"math/big"
	"sort"
	"strconv"
	"strings"
	"time"

	sdkmath "cosmossdk.io/math"
	storetypes "cosmossdk.io/store/types"

	sdk "github.com/cosmos/cosmos-sdk/types"
	authtypes "github.com/cosmos/cosmos-sdk/x/auth/types"
	govtypes "github.com/cosmos/cosmos-sdk/x/gov/types"
	stakingtypes "github.com/cosmos/cosmos-sdk/x/staking/types"

	bandtesting "github.com/bandprotocol/chain/v3/testing"
	feedstypes "github.com/bandprotocol/chain/v3/x/feeds/types"
	restaketypes "github.com/bandprotocol/chain/v3/x/restake/types"
	"github.com/bandprotocol/chain/v3/zzverif/engine"
)

// Cfg is one configuration.
type Cfg struct {
	Step        int64  `json:"power_step_threshold"`
	MinInterval int64  `json:"min_interval"`
	MaxInterval int64  `json:"max_interval"`
	MaxFeeds    uint64 `json:"max_current_feeds"`
	UpdateEvery int64  `json:"current_feeds_update_interval"`
	Depth       int    `json:"depth"`
	Voters      int    `json:"voters"`
	Votes       []int  `json:"votes"` // indices into voteMenu
	DenomEvent  bool   `json:"denom_event"`
}

const maxI64 = int64(^uint64(0) >> 1)

type sig struct {
	ID string
	P  int64
}

// voteMenu: simplest first.  Powers relative to the voters' powers (5 and 3 at the base state).
var voteMenu = [][]sig{
	0:  {},
	1:  {{"A", 1}},
	2:  {{"A", 3}},
	3:  {{"B", 2}},
	4:  {{"A", 2}, {"B", 1}},
	5:  {{"A", 1}, {"B", 2}},
	6:  {{"C", 5}},
	7:  {{"A", 6}},                               // above either voter's base power
	8:  {{"A", 4}, {"B", 2}},                     // sum 6
	9:  {{"A", 1 << 62}},                         // far above
	10: {{"A", maxI64}, {"B", maxI64}, {"C", 2}}, // integer sum 2^64: wraps to 0 in int64
	11: {{"A", maxI64}, {"B", maxI64}, {"C", 5}}, // wraps to 3
	12: {{"A", maxI64}, {"B", 1}},                // wraps negative
	13: {{"A", 1}, {"B", 1}, {"C", 1}},
}

type spec struct{ cfg Cfg }

func (s *spec) Config() any { return s.cfg }

type model struct {
	Votes map[int][]sig     // standing vote per voter index
	Feeds []feedstypes.Feed // current feeds as of the last update block
	Seen  bool              // an update block happened
}

func (m *model) Clone() engine.Model {
	c := &model{Votes: map[int][]sig{}, Feeds: append([]feedstypes.Feed(nil), m.Feeds...), Seen: m.Seen}
	for k, v := range m.Votes {
		c.Votes[k] = append([]sig(nil), v...)
	}
	return c
}

// Key: the standing votes and the feed list are in the feeds store, so the model adds nothing.
func (m *model) Key() string { return "" }

func voters() []bandtesting.Account { return []bandtesting.Account{bandtesting.Alice, bandtesting.Bob} }

func uband(n int64) sdk.Coins { return sdk.NewCoins(sdk.NewInt64Coin("uband", n)) }

func (s *spec) Build(w *engine.World) (sdk.Context, engine.Model) {
	ctx := engine.Fork(w.Root)
	fp := w.App.FeedsKeeper.GetParams(ctx)
	fp.PowerStepThreshold = s.cfg.Step
	fp.MinInterval = s.cfg.MinInterval
	fp.MaxInterval = s.cfg.MaxInterval
	fp.MaxCurrentFeeds = s.cfg.MaxFeeds
	fp.CurrentFeedsUpdateInterval = s.cfg.UpdateEvery
	if err := w.App.FeedsKeeper.SetParams(ctx, fp); err != nil {
		panic(err)
	}
	rp := w.App.RestakeKeeper.GetParams(ctx)
	rp.AllowedDenoms = []string{"uband"}
	if err := w.App.RestakeKeeper.SetParams(ctx, rp); err != nil {
		panic(err)
	}
	for i, amt := range []int64{5, 3} {
		if r := w.Tx(ctx, 0, restaketypes.NewMsgStake(voters()[i].Address, uband(amt))); !r.OK() {
			panic("stake: " + r.Err.Error())
		}
	}
	return ctx, &model{Votes: map[int][]sig{}}
}

func (s *spec) Enabled(w *engine.World, ctx sdk.Context, mm engine.Model, depth int) []string {
	var evs []string
	for v := 0; v < s.cfg.Voters; v++ {
		for _, vi := range s.cfg.Votes {
			evs = append(evs, fmt.Sprintf("vote:%d:%d", v, vi))
		}
		evs = append(evs, fmt.Sprintf("stake:%d:1", v), fmt.Sprintf("unstake:%d:1", v), fmt.Sprintf("unstake:%d:all", v),
			fmt.Sprintf("delegate:%d:2", v), fmt.Sprintf("undelegate:%d:1", v), fmt.Sprintf("undelegate:%d:2", v))
	}
	if s.cfg.DenomEvent {
		evs = append(evs, "denoms") // governance removes / restores the restaked denom: total power drops without any withdrawal
	}
	evs = append(evs, "block")
	return evs
}

func bigSum(v []sig) *big.Int {
	s := new(big.Int)
	for _, x := range v {
		s.Add(s, big.NewInt(x.P))
	}
	return s
}

func (s *spec) Step(w *engine.World, ctx sdk.Context, mm engine.Model, ev string) (sdk.Context, engine.StepResult) {
	m := mm.(*model)
	var st engine.StepResult
	parts := strings.Split(ev, ":")
	fk, rk := w.App.FeedsKeeper, w.App.RestakeKeeper
	totalPower := func(v int) *big.Int {
		p, err := rk.GetTotalPower(ctx, voters()[v].Address)
		if err != nil {
			panic(err)
		}
		return p.BigInt()
	}
	lockOf := func(v int) *big.Int {
		l, ok := rk.GetLock(ctx, voters()[v].Address, feedstypes.ModuleName)
		if !ok {
			return new(big.Int)
		}
		return l.Power.BigInt()
	}
	switch parts[0] {
	case "vote":
		v, _ := strconv.Atoi(parts[1])
		vi, _ := strconv.Atoi(parts[2])
		choice := voteMenu[vi]
		var sigs []feedstypes.Signal
		for _, x := range choice {
			sigs = append(sigs, feedstypes.NewSignal(x.ID, x.P))
		}
		power := totalPower(v) // given (restake/staking ledgers are C16's subject)
		res := w.Tx(ctx, 0, feedstypes.NewMsgVote(voters()[v].Address.String(), sigs))
		st.Outcome = "vote:" + res.ErrName()
		sum := bigSum(choice)
		if res.OK() {
			if sum.Cmp(power) > 0 {
				fp := "vote-accepted-exceeding-power"
				if !sum.IsInt64() {
					fp += ":int64-sum-wraps"
				}
				st.Violate(fp, "voter %d with total power %s cast %v (integer sum %s) and it was accepted", v, power, choice, sum)
				return ctx, st
			}
			m.Votes[v] = append([]sig(nil), choice...)
			if uint64(len(choice)) > s.cfg.MaxFeeds {
				st.Violate("vote-accepted-with-too-many-signals", "%d signals, max %d", len(choice), s.cfg.MaxFeeds)
			}
		} else {
			st.Saw("vote-rejected:" + map[bool]string{true: "over-power", false: "within-power"}[sum.Cmp(power) > 0])
		}
	case "denoms":
		rp := rk.GetParams(ctx)
		if len(rp.AllowedDenoms) > 0 {
			rp.AllowedDenoms = nil
		} else {
			rp.AllowedDenoms = []string{"uband"}
		}
		res := w.Tx(ctx, 0, restaketypes.NewMsgUpdateParams(tsshAuthority, rp))
		st.Outcome = "denoms:" + res.ErrName()
	case "stake", "unstake":
		v, _ := strconv.Atoi(parts[1])
		addr := voters()[v].Address
		var amt int64
		if parts[2] == "all" {
			amt = rk.GetStakedPower(ctx, addr).Int64()
			if amt == 0 {
				amt = 1
			}
		} else {
			amt, _ = strconv.ParseInt(parts[2], 10, 64)
		}
		var res engine.TxResult
		if parts[0] == "stake" {
			res = w.Tx(ctx, 0, restaketypes.NewMsgStake(addr, uband(amt)))
		} else {
			res = w.Tx(ctx, 0, restaketypes.NewMsgUnstake(addr, uband(amt)))
		}
		st.Outcome = parts[0] + ":" + res.ErrName()
	case "delegate", "undelegate":
		v, _ := strconv.Atoi(parts[1])
		amt, _ := strconv.ParseInt(parts[2], 10, 64)
		addr := voters()[v].Address
		val := bandtesting.Validators[0].ValAddress
		var res engine.TxResult
		if parts[0] == "delegate" {
			res = w.Tx(ctx, 0, stakingtypes.NewMsgDelegate(addr.String(), val.String(), sdk.NewInt64Coin("uband", amt)))
		} else {
			res = w.Tx(ctx, 0, stakingtypes.NewMsgUndelegate(addr.String(), val.String(), sdk.NewInt64Coin("uband", amt)))
		}
		st.Outcome = parts[0] + ":" + res.ErrName()
	case "block":
		endHeight := ctx.BlockHeight()
		next, br := w.Block(ctx, 1, 3*time.Second)
		if br.Halt != "" {
			st.Violate("block-halt", "%s", br.Halt)
			return ctx, st
		}
		ctx = next
		st.Outcome = "block"
		if endHeight%s.cfg.UpdateEvery == 0 {
			st.Outcome = "block:update"
			m.Seen = true
			m.Feeds = fk.GetCurrentFeeds(ctx).Feeds
			if v := s.checkFeeds(m); v != "" {
				st.Violate("current-feeds-not-top-k:"+strings.SplitN(v, ":", 2)[0], "%s; votes=%v feeds=%v", v, m.Votes, m.Feeds)
			}
			if len(m.Feeds) > 0 {
				st.Saw(fmt.Sprintf("feeds:%d", len(m.Feeds)))
			}
		}
	}
	// ---- invariants after every transition ----
	totals := map[string]*big.Int{}
	for v := 0; v < len(voters()); v++ {
		standing := m.Votes[v]
		// the chain's record of the vote equals the model's
		got := fk.GetVote(ctx, voters()[v].Address)
		if len(got) != len(standing) {
			st.Violate("vote-record-mismatch", "voter %d: chain %v model %v", v, got, standing)
			continue
		}
		for i := range got {
			if got[i].ID != standing[i].ID || got[i].Power != standing[i].P {
				st.Violate("vote-record-mismatch", "voter %d: chain %v model %v", v, got, standing)
			}
		}
		sum := bigSum(standing)
		for _, x := range standing {
			if totals[x.ID] == nil {
				totals[x.ID] = new(big.Int)
			}
			totals[x.ID].Add(totals[x.ID], big.NewInt(x.P))
		}
		// locked against withdrawal: lock under the feeds vault = sum of the standing vote, and
		// total power never below it
		if l := lockOf(v); l.Cmp(sum) != 0 {
			st.Violate("lock-differs-from-vote-sum", "voter %d: lock %s, integer sum of standing vote %s (%v)", v, l, sum, standing)
		}
		// locked against withdrawal: an accepted unstake / undelegation by the voter never leaves its power below
		// its standing vote (power lost for external reasons, e.g. a denom leaving the allowed list, is not a withdrawal)
		if parts[0] == "unstake" || parts[0] == "undelegate" {
			if vv, _ := strconv.Atoi(parts[1]); vv == v && strings.HasSuffix(st.Outcome, ":ok") {
				if tp := totalPower(v); tp.Cmp(sum) < 0 {
					st.Violate("power-withdrawn-below-standing-vote:"+parts[0], "voter %d: total power %s < standing vote sum %s after accepted %s", v, tp, sum, ev)
				}
			}
		}
	}
	// each signal's total power equals the sum of all standing votes for it
	for _, id := range []string{"A", "B", "C"} {
		want := totals[id]
		if want == nil {
			want = new(big.Int)
		}
		got := new(big.Int)
		if stp, err := fk.GetSignalTotalPower(ctx, id); err == nil {
			got = big.NewInt(stp.Power)
		}
		if got.Cmp(want) != 0 {
			st.Violate("signal-total-differs-from-votes", "signal %s: chain total %s, sum of standing votes %s", id, got, want)
		}
	}
	// the by-power index holds exactly one entry per signal with non-zero total
	idx := 0
	it := storetypes.KVStorePrefixIterator(ctx.KVStore(w.App.GetKVStoreKey()[feedstypes.StoreKey]), feedstypes.SignalTotalPowerByPowerIndexKeyPrefix)
	for ; it.Valid(); it.Next() {
		idx++
		id := string(it.Value())
		stp, err := fk.GetSignalTotalPower(ctx, id)
		if err != nil || string(feedstypes.SignalTotalPowerByPowerIndexKey(id, stp.Power)) != string(it.Key()) {
			st.Violate("stale-power-index-entry", "index entry for %s does not match its total", id)
		}
	}
	it.Close()
	nz := 0
	for _, t := range totals {
		if t.Sign() != 0 {
			nz++
		}
	}
	if idx != nz {
		st.Violate("power-index-size", "index has %d entries, %d signals have non-zero total", idx, nz)
	}
	// between update blocks the feed list does not change
	if m.Seen {
		cur := fk.GetCurrentFeeds(ctx).Feeds
		if fmt.Sprint(cur) != fmt.Sprint(m.Feeds) {
			st.Violate("current-feeds-changed-outside-update", "%v -> %v", m.Feeds, cur)
		}
	}
	return ctx, st
}

// checkFeeds: feeds must be exactly the highest-powered signals reaching the threshold (at most
// MaxFeeds; ties may be broken either way), each with power = total and interval per README:
// max(MinInterval, floor(MaxInterval / floor(power/step))).
func (s *spec) checkFeeds(m *model) string {
	totals := map[string]int64{}
	for _, v := range m.Votes {
		for _, x := range v {
			totals[x.ID] += x.P // totals are small here whenever the vote ledger invariant holds
		}
	}
	var eligible []int64
	for _, p := range totals {
		if p >= s.cfg.Step {
			eligible = append(eligible, p)
		}
	}
	sort.Slice(eligible, func(i, j int) bool { return eligible[i] > eligible[j] })
	want := len(eligible)
	if uint64(want) > s.cfg.MaxFeeds {
		want = int(s.cfg.MaxFeeds)
	}
	if len(m.Feeds) != want {
		return fmt.Sprintf("count: %d feeds, expected %d", len(m.Feeds), want)
	}
	seen := map[string]bool{}
	var got []int64
	for _, f := range m.Feeds {
		if seen[f.SignalID] {
			return "duplicate: " + f.SignalID
		}
		seen[f.SignalID] = true
		if totals[f.SignalID] != f.Power {
			return fmt.Sprintf("power: feed %s has power %d, total is %d", f.SignalID, f.Power, totals[f.SignalID])
		}
		if f.Power < s.cfg.Step {
			return fmt.Sprintf("threshold: feed %s power %d below %d", f.SignalID, f.Power, s.cfg.Step)
		}
		iv := s.cfg.MaxInterval / (f.Power / s.cfg.Step)
		if iv < s.cfg.MinInterval {
			iv = s.cfg.MinInterval
		}
		if f.Interval != iv {
			return fmt.Sprintf("interval: feed %s power %d has interval %d, expected %d", f.SignalID, f.Power, f.Interval, iv)
		}
		got = append(got, f.Power)
	}
	sort.Slice(got, func(i, j int) bool { return got[i] > got[j] })
	for i := range got {
		if got[i] != eligible[i] {
			return fmt.Sprintf("ranking: selected powers %v, highest eligible %v", got, eligible[:want])
		}
	}
	return ""
}

func configs(quick bool) []Cfg {
	base := []int{0, 1, 3, 4, 6, 7, 10, 12}
	if quick {
		return []Cfg{
			{Step: 2, MinInterval: 10, MaxInterval: 60, MaxFeeds: 3, UpdateEvery: 2, Depth: 5, Voters: 2, Votes: base},
			{Step: 3, MinInterval: 20, MaxInterval: 50, MaxFeeds: 1, UpdateEvery: 1, Depth: 5, Voters: 2, Votes: []int{0, 1, 2, 3, 6}},
			{Step: 2, MinInterval: 10, MaxInterval: 60, MaxFeeds: 3, UpdateEvery: 2, Depth: 5, Voters: 1, Votes: []int{0, 1, 2, 4, 6}, DenomEvent: true},
			// the maximum number of current feeds at the extremes of its type (accepted by parameter validation)
			{Step: 2, MinInterval: 10, MaxInterval: 60, MaxFeeds: 1 << 62, UpdateEvery: 1, Depth: 3, Voters: 1, Votes: []int{0, 1, 4}},
			{Step: 2, MinInterval: 10, MaxInterval: 60, MaxFeeds: 1 << 63, UpdateEvery: 1, Depth: 3, Voters: 1, Votes: []int{0, 1, 4}},
			{Step: 2, MinInterval: 10, MaxInterval: 60, MaxFeeds: 1<<64 - 1, UpdateEvery: 1, Depth: 3, Voters: 1, Votes: []int{0, 1, 4}},
		}
	}
	all := make([]int, len(voteMenu))
	for i := range all {
		all[i] = i
	}
	return []Cfg{
		{Step: 2, MinInterval: 10, MaxInterval: 60, MaxFeeds: 3, UpdateEvery: 2, Depth: 6, Voters: 2, Votes: all},
		{Step: 3, MinInterval: 20, MaxInterval: 50, MaxFeeds: 1, UpdateEvery: 1, Depth: 6, Voters: 2, Votes: []int{0, 1, 2, 3, 6, 7}},
		{Step: 1, MinInterval: 1, MaxInterval: 7, MaxFeeds: 2, UpdateEvery: 3, Depth: 6, Voters: 2, Votes: []int{0, 1, 2, 3, 4, 5, 6, 8}},
		{Step: 2, MinInterval: 10, MaxInterval: 60, MaxFeeds: 3, UpdateEvery: 2, Depth: 7, Voters: 2, Votes: []int{0, 1, 2, 4, 6}, DenomEvent: true},
		{Step: 2, MinInterval: 10, MaxInterval: 60, MaxFeeds: 1 << 62, UpdateEvery: 1, Depth: 5, Voters: 2, Votes: []int{0, 1, 2, 4, 6}},
		{Step: 2, MinInterval: 10, MaxInterval: 60, MaxFeeds: 1 << 63, UpdateEvery: 1, Depth: 5, Voters: 2, Votes: []int{0, 1, 2, 4, 6}},
		{Step: 2, MinInterval: 10, MaxInterval: 60, MaxFeeds: 1<<64 - 1, UpdateEvery: 1, Depth: 5, Voters: 2, Votes: []int{0, 1, 2, 4, 6}},
	}
}

var _ = sdkmath.NewInt

var tsshAuthority = authtypes.NewModuleAddress(govtypes.ModuleName).String()

func init() {
	engine.Register(&engine.Check{
		ID: "C07",
		Run: func(r *engine.Run) {
			r.Bound = "2 voters (restaked 5 and 3 uband), signals {A,B,C}, vote menu incl. empty, re-votes, over-power and int64-wrapping sums; stake/unstake/delegate/undelegate; the restaked denom removed from / restored to the allowed list (power drops without a withdrawal); feed-update blocks; depth 5 (quick) / 6 (thorough); 2-3 parameter tuples"
			r.Assumptions = []string{
				"a voter's total power at cast time is read from the restake keeper (its correctness is C16's subject)",
				"validators have share/token rate making delegations of 1-2 uband exact",
			}
			r.Required = []string{"vote:ok", "vote-rejected:over-power", "block:update", "feeds:1", "unstake:ok", "undelegate:ok", "denoms:ok"}
			cfgs := configs(r.Quick())
			for i, c := range cfgs {
				sr := engine.Search(&spec{cfg: c}, engine.SearchOpts{Depth: c.Depth, Deadline: r.SliceDeadline(i, len(cfgs), 6*time.Minute, 40*time.Minute)})
				r.AddSearch(fmt.Sprintf("cfg%d[step=%d,K=%d,every=%d]", i, c.Step, c.MaxFeeds, c.UpdateEvery), c, sr)
			}
			r.ConfirmViolations(func(cfg any) engine.Spec { return &spec{cfg: cfg.(Cfg)} })
		},
		Replay: func(raw json.RawMessage, path []string) (engine.StepResult, []string) {
			var c Cfg
			if err := json.Unmarshal(raw, &c); err != nil {
				panic(err)
			}
			last, outs, _ := engine.Replay(&spec{cfg: c}, path)
			return last, outs
		},
	})
}
