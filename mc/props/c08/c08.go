// Package c08 checks property C08: tunnel packets are produced exactly when due, carry the right
// signals, take gap-free sequence numbers and charge the fee payer exactly once; a failed send leaves
// nothing behind; short-funded tunnels are deactivated; inactive tunnels never produce packets.
//
// Engine: kvmc (explicit-state BFS over the real tunnel / feeds / bandtss / tss / bank keepers through
// the message router and the whole-app End/BeginBlocker) with a lock-step reference model restated
// from the property statement and x/tunnel/README.md, plus a differential "what did the tunnel
// end-blocker change" oracle: every block is executed twice from the same state, once as is and once
// with the active-tunnel index emptied; the two resulting multistores may differ only in the keys the
// model explains by a produced packet or a deactivation.
package c08

import (
	"crypto/sha256"
	"encoding/hex"
	"encoding/json"
	"fmt"
	"math/big"
	"sort"
	"strconv"
	"strings"
	"time"

	sdk "github.com/cosmos/cosmos-sdk/types"
	authtypes "github.com/cosmos/cosmos-sdk/x/auth/types"
	banktypes "github.com/cosmos/cosmos-sdk/x/bank/types"

	bandtesting "github.com/bandprotocol/chain/v3/testing"
	bandtsstypes "github.com/bandprotocol/chain/v3/x/bandtss/types"
	feedstypes "github.com/bandprotocol/chain/v3/x/feeds/types"
	tunneltypes "github.com/bandprotocol/chain/v3/x/tunnel/types"
	"github.com/bandprotocol/chain/v3/zzverif/engine"
	"github.com/bandprotocol/chain/v3/zzverif/tssh"
)

// ---- fixed economic parameters of every configuration -------------------------------------------

const (
	baseFee      = int64(7) // tunnel BasePacketFee (uband)
	feePerSigner = int64(3) // bandtss FeePerSigner (uband)
	nMembers     = 2
	threshold    = 2 // n = t: every signing takes one nonce pair from every member
	minInterval  = uint64(2)
	minDeposit   = int64(10)
	denom        = "uband"
)

// SigCfg is one signal of a tunnel with its deviations in basis points.
type SigCfg struct {
	ID   string `json:"id"`
	Soft uint64 `json:"soft"`
	Hard uint64 `json:"hard"`
}

// TunnelCfg is one tunnel created (and activated) in the base state.
type TunnelCfg struct {
	Route    string   `json:"route"` // "tss" | "ibc" (IBC route without a channel: every send fails)
	Signals  []SigCfg `json:"signals"`
	Interval uint64   `json:"interval"`
	Balance  int64    `json:"balance"` // initial balance of the tunnel's fee payer
	Deposit  int64    `json:"deposit"` // initial deposit by the creator (0: exactly the minimum deposit)
}

// Cfg is one configuration.
type Cfg struct {
	Name     string      `json:"name"`
	Group    bool        `json:"group"`    // a bandtss current signing group exists (2-of-2)
	Incoming bool        `json:"incoming"` // bootstrap window: no current group, the first group (2-of-2) waits for its execution time
	InitDE   uint64      `json:"init_de"`  // nonce pairs per member in the base state
	Tunnels  []TunnelCfg `json:"tunnels"`
	Signals  []string    `json:"signals"` // environment signals (index used in events)
	Init     []string    `json:"init"`    // initial price token per signal
	Tokens   [][]string  `json:"tokens"`  // price alphabet per signal: "m" missing | "<v>" available | "<v>n" not-ready | "<v>u" unknown-signal
	Funds    []int64     `json:"funds"`   // Fund(feePayer, amount) alphabet
	FundCap  int64       `json:"fund_cap"`
	DEAdd    uint64      `json:"de_add"` // SubmitDEs(member, k) event (0: none)
	DECap    uint64      `json:"de_cap"`
	Deposits []int64     `json:"deposits"` // MsgWithdrawFromTunnel / MsgDepositToTunnel(creator, amount) alphabet
	DepCap   int64       `json:"dep_cap"`
	Trigger  bool        `json:"trigger"`
	Toggle   bool        `json:"toggle"` // MsgActivate / MsgDeactivate by the creator
	Dts      []int64     `json:"dts"`    // block time steps (seconds)
	Depth    int         `json:"depth"`
}

type spec struct {
	cfg Cfg
	g   *tssh.Group
	ids []uint64 // tunnel ids
	fp  []sdk.AccAddress
}

func (s *spec) Config() any { return s.cfg }

func (s *spec) routeFee(ti int) int64 {
	if s.cfg.Group && s.cfg.Tunnels[ti].Route == "tss" {
		return feePerSigner * threshold
	}
	return 0
}

// signers reports whether some group can sign: the current group or, in the bootstrap window, the
// incoming one.  Only a current group makes bandtss charge (FeePerSigner x threshold): the route fee
// is what the route really costs at that moment.
func (s *spec) signers() bool { return s.cfg.Group || s.cfg.Incoming }

func (s *spec) totalFee(ti int) int64 { return baseFee + s.routeFee(ti) }

// ---- reference model ------------------------------------------------------------------------------

type mPrice struct {
	Present bool
	Price   uint64
	Status  int32
	Ts      int64
}

func (p mPrice) String() string {
	if !p.Present {
		return "-"
	}
	return fmt.Sprintf("%d/%d@%d", p.Price, p.Status, p.Ts)
}

type mTunnel struct {
	Active   bool
	Seq      uint64
	Latest   map[string]mPrice // what the destination last received, by signal
	LastFull int64             // time of the last full send
	Bal      int64             // fee payer balance
	Dep      int64             // total deposit (the creator is the only depositor)
	Packets  []string          // digest of stored packets 1..Seq (a stored packet never changes)
}

type model struct {
	Prices    []mPrice // environment: current feeds price per signal
	Tok       []string
	T         []*mTunnel
	DE        []uint64 // remaining nonce pairs per member
	NextDE    []uint64
	TotalBase int64
	Signings  uint64
	Phase     int // class index of the last environment event of this block segment (-1: none)
}

func (m *model) Clone() engine.Model {
	c := &model{TotalBase: m.TotalBase, Signings: m.Signings, Phase: m.Phase}
	c.Prices = append([]mPrice(nil), m.Prices...)
	c.Tok = append([]string(nil), m.Tok...)
	c.DE = append([]uint64(nil), m.DE...)
	c.NextDE = append([]uint64(nil), m.NextDE...)
	for _, t := range m.T {
		ct := *t
		ct.Latest = make(map[string]mPrice, len(t.Latest))
		for k, v := range t.Latest {
			ct.Latest[k] = v
		}
		ct.Packets = append([]string(nil), t.Packets...)
		c.T = append(c.T, &ct)
	}
	return c
}

func (m *model) Key() string {
	var sb strings.Builder
	fmt.Fprintf(&sb, "ph%d|tb%d|sg%d|de%v|nd%v|", m.Phase, m.TotalBase, m.Signings, m.DE, m.NextDE)
	for _, p := range m.Prices {
		sb.WriteString(p.String())
		sb.WriteByte(',')
	}
	for _, t := range m.T {
		fmt.Fprintf(&sb, "|%v:%d:%d:%d:%d:", t.Active, t.Seq, t.LastFull, t.Bal, t.Dep)
		keys := make([]string, 0, len(t.Latest))
		for k := range t.Latest {
			keys = append(keys, k)
		}
		sort.Strings(keys)
		for _, k := range keys {
			sb.WriteString(k + "=" + t.Latest[k].String() + ",")
		}
		sb.WriteString(strings.Join(t.Packets, ","))
	}
	return sb.String()
}

// moved reports whether the relative move from old to cur is at least bps basis points
// (|cur-old| / old >= bps / 10000).  From a zero reference every change is an unbounded move.
func moved(old, cur, bps uint64) bool {
	if cur == old {
		return bps == 0
	}
	if old == 0 {
		return true
	}
	d := new(big.Int).Sub(new(big.Int).SetUint64(cur), new(big.Int).SetUint64(old))
	d.Abs(d).Mul(d, big.NewInt(10000))
	rhs := new(big.Int).Mul(new(big.Int).SetUint64(bps), new(big.Int).SetUint64(old))
	return d.Cmp(rhs) >= 0
}

// plan is what the statement prescribes for one tunnel at one block end.
type plan struct {
	due     bool
	full    bool
	hardBy  string   // a signal that moved by at least its hard deviation ("" if none)
	content []string // signals the packet must carry
	why     map[string]string
}

func (s *spec) current(m *model, sig string, now int64) mPrice {
	for i, id := range s.cfg.Signals {
		if id == sig && m.Prices[i].Present {
			return m.Prices[i]
		}
	}
	// a signal the feeds module has no price for is reported with price 0 / NOT_IN_CURRENT_FEEDS
	return mPrice{Present: false, Price: 0, Status: int32(feedstypes.PRICE_STATUS_NOT_IN_CURRENT_FEEDS), Ts: now}
}

func (s *spec) planFor(m *model, ti int, now int64) plan {
	tc := s.cfg.Tunnels[ti]
	t := m.T[ti]
	p := plan{why: map[string]string{}}
	p.full = now >= t.LastFull+int64(tc.Interval)
	for _, sg := range tc.Signals {
		old := t.Latest[sg.ID].Price // zero when never sent
		cur := s.current(m, sg.ID, now).Price
		switch {
		case moved(old, cur, sg.Hard):
			p.hardBy = sg.ID
			p.content = append(p.content, sg.ID)
			p.why[sg.ID] = "hard"
		case p.full:
			p.content = append(p.content, sg.ID)
			p.why[sg.ID] = "interval"
		case moved(old, cur, sg.Soft):
			p.content = append(p.content, sg.ID)
			p.why[sg.ID] = "soft"
		}
	}
	if p.full {
		for _, sg := range tc.Signals {
			if p.why[sg.ID] == "" {
				panic("unreachable")
			}
		}
	}
	p.due = p.full || p.hardBy != ""
	if !p.due {
		p.content = nil
	}
	return p
}

// ---- base state -----------------------------------------------------------------------------------

var creator = bandtesting.Alice

func coins(a int64) sdk.Coins { return sdk.NewCoins(sdk.NewInt64Coin(denom, a)) }

func parseTok(tok string, now int64) mPrice {
	if tok == "m" {
		return mPrice{}
	}
	status := feedstypes.PRICE_STATUS_AVAILABLE
	num := tok
	switch tok[len(tok)-1] {
	case 'n':
		status, num = feedstypes.PRICE_STATUS_NOT_READY, tok[:len(tok)-1]
	case 'u':
		status, num = feedstypes.PRICE_STATUS_UNKNOWN_SIGNAL_ID, tok[:len(tok)-1]
	}
	v, err := strconv.ParseUint(num, 10, 64)
	if err != nil {
		panic("price token " + tok)
	}
	return mPrice{Present: true, Price: v, Status: int32(status), Ts: now}
}

func (s *spec) writePrice(w *engine.World, ctx sdk.Context, sig string, p mPrice) {
	if !p.Present {
		ctx.KVStore(w.App.GetKVStoreKey()[feedstypes.StoreKey]).Delete(feedstypes.PriceStoreKey(sig))
		return
	}
	w.App.FeedsKeeper.SetPrice(ctx, feedstypes.NewPrice(feedstypes.PriceStatus(p.Status), sig, p.Price, p.Ts))
}

func (s *spec) Build(w *engine.World) (sdk.Context, engine.Model) {
	ctx := engine.Fork(w.Root)
	m := &model{Phase: -1}
	if s.cfg.Group && s.cfg.Incoming {
		panic("config: group and incoming are exclusive")
	}
	if s.signers() {
		tssh.ApplyParams(w, ctx, tssh.Params{})
		bp := w.App.BandtssKeeper.GetParams(ctx)
		bp.RewardPercentage = 0
		bp.FeePerSigner = coins(feePerSigner)
		if err := w.App.BandtssKeeper.SetParams(ctx, bp); err != nil {
			panic(err)
		}
		if s.cfg.Group {
			g, c2 := tssh.SetupCurrentGroup(w, ctx, nMembers, threshold, 8)
			s.g, ctx = g, c2
		} else {
			// first-ever transition: proposed by the authority, DKG completed, execution time far beyond
			// the explored depth: signing works (incoming group), but bandtss charges nothing
			accs := tssh.Accounts(nMembers, 8)
			for _, a := range accs {
				tssh.Fund(w, ctx, a.Address, 1_000_000)
			}
			g, res := tssh.ProposeGroup(w, ctx, accs, threshold, ctx.BlockTime().Add(time.Hour))
			tssh.Must(res, "transition group")
			ctx = g.RunDKG(w, ctx)
			s.g = g
			bk := w.App.BandtssKeeper
			tr, found := bk.GetGroupTransition(ctx)
			if bk.GetCurrentGroup(ctx).GroupID != 0 || bk.GetIncomingGroupID(ctx) != g.ID || !found ||
				tr.Status != bandtsstypes.TRANSITION_STATUS_WAITING_EXECUTION {
				panic(fmt.Sprintf("bootstrap window not reached: current %d incoming %d transition %+v", bk.GetCurrentGroup(ctx).GroupID, bk.GetIncomingGroupID(ctx), tr))
			}
		}
		g := s.g
		for i := 0; i < nMembers; i++ {
			if s.cfg.InitDE > 0 {
				tssh.Must(w.Tx(ctx, 0, tssh.SubmitDEsMsg(g.Accounts[i].Address.String(), 0, s.cfg.InitDE)), "init DEs")
			}
			m.DE = append(m.DE, s.cfg.InitDE)
			m.NextDE = append(m.NextDE, s.cfg.InitDE)
		}
	} else if w.App.BandtssKeeper.GetCurrentGroup(ctx).GroupID != 0 || w.App.BandtssKeeper.GetIncomingGroupID(ctx) != 0 {
		panic("base state unexpectedly has a signing group")
	}
	m.Signings = w.App.BandtssKeeper.GetSigningCount(ctx)

	// tunnel parameters through the real MsgUpdateParams handler
	k := w.App.TunnelKeeper
	p := k.GetParams(ctx)
	p.MinDeposit = coins(minDeposit)
	p.MinInterval = minInterval
	p.BasePacketFee = coins(baseFee)
	tssh.Must(w.Tx(ctx, 0, tunneltypes.NewMsgUpdateParams(k.GetAuthority(), p)), "tunnel params")

	// feeds: prices are environment input; the feeds end-blocker must leave them alone
	if cf := w.App.FeedsKeeper.GetCurrentFeeds(ctx); len(cf.Feeds) != 0 {
		panic("feeds current-feed list is not empty")
	}
	upd := w.App.FeedsKeeper.GetParams(ctx).CurrentFeedsUpdateInterval
	for h := ctx.BlockHeight(); h <= ctx.BlockHeight()+int64(s.cfg.Depth)+1; h++ {
		if h%upd == 0 {
			panic("a current-feeds update (which deletes all prices) falls into the explored height range")
		}
	}
	now := ctx.BlockTime().Unix()
	for i, sig := range s.cfg.Signals {
		pr := parseTok(s.cfg.Init[i], now)
		s.writePrice(w, ctx, sig, pr)
		m.Prices = append(m.Prices, pr)
		m.Tok = append(m.Tok, s.cfg.Init[i])
	}

	s.ids, s.fp = nil, nil
	for _, tc := range s.cfg.Tunnels {
		dep := tc.Deposit
		if dep == 0 {
			dep = minDeposit
		}
		var sds []tunneltypes.SignalDeviation
		for _, sg := range tc.Signals {
			sds = append(sds, tunneltypes.SignalDeviation{SignalID: sg.ID, SoftDeviationBPS: sg.Soft, HardDeviationBPS: sg.Hard})
		}
		var msg *tunneltypes.MsgCreateTunnel
		var err error
		if tc.Route == "ibc" {
			msg, err = tunneltypes.NewMsgCreateIBCTunnel(sds, tc.Interval, coins(dep), creator.Address.String())
		} else {
			msg, err = tunneltypes.NewMsgCreateTSSTunnel(sds, tc.Interval, "chain-1", "0xc0ffee", feedstypes.ENCODER_FIXED_POINT_ABI, coins(dep), creator.Address.String())
		}
		if err != nil {
			panic(err)
		}
		tssh.Must(w.Tx(ctx, 0, msg), "create tunnel")
		id := k.GetTunnelCount(ctx)
		t, err := k.GetTunnel(ctx, id)
		if err != nil {
			panic(err)
		}
		fp := sdk.MustAccAddressFromBech32(t.FeePayer)
		if tc.Balance > 0 {
			tssh.Must(w.Tx(ctx, 0, banktypes.NewMsgSend(bandtesting.FeePayer.Address, fp, coins(tc.Balance))), "fund fee payer")
		}
		tssh.Must(w.Tx(ctx, 0, tunneltypes.NewMsgActivate(id, creator.Address.String())), "activate")
		s.ids = append(s.ids, id)
		s.fp = append(s.fp, fp)
		m.T = append(m.T, &mTunnel{Active: true, Latest: map[string]mPrice{}, Bal: tc.Balance, Dep: dep})
	}
	m.TotalBase = k.GetTotalFees(ctx).TotalBasePacketFee.AmountOf(denom).Int64()
	// self-check of the bank key decoder used by the differential oracle
	if len(s.fp) > 0 && s.cfg.Tunnels[0].Balance > 0 {
		key := append([]byte{2, byte(len(s.fp[0]))}, s.fp[0]...)
		key = append(key, []byte(denom)...)
		if !ctx.KVStore(w.App.GetKVStoreKey()[banktypes.StoreKey]).Has(key) {
			panic("bank balance key layout differs from the decoder in c08")
		}
	}
	return ctx, m
}

// ---- alphabet -------------------------------------------------------------------------------------

// Environment events of one block segment (between two of {block, successful trigger}) are pairwise
// independent writes (price of one signal, active flag / fee-payer balance of one tunnel, nonce queue
// of one member); they are explored in one canonical order only (class index non-decreasing; a
// set-type class at most once), which reaches every combination exactly once.
func (s *spec) class(kind string, i int) (idx int, additive bool) {
	S, T := len(s.cfg.Signals), len(s.cfg.Tunnels)
	switch kind {
	case "p":
		return i, false
	case "act", "deact":
		return S + i, false
	case "fund":
		return S + T + i, true
	case "de":
		return S + 2*T + i, true
	}
	panic(kind)
}

func (s *spec) Enabled(w *engine.World, ctx sdk.Context, mm engine.Model, depth int) []string {
	m := mm.(*model)
	ok := func(kind string, i int) bool {
		idx, add := s.class(kind, i)
		return idx > m.Phase || (add && idx == m.Phase)
	}
	var evs []string
	for i := range s.cfg.Signals {
		if !ok("p", i) {
			continue
		}
		for _, tok := range s.cfg.Tokens[i] {
			if tok != m.Tok[i] {
				evs = append(evs, fmt.Sprintf("p:%d:%s", i, tok))
			}
		}
	}
	for ti, t := range m.T {
		if s.cfg.Toggle {
			if t.Active && ok("deact", ti) {
				evs = append(evs, fmt.Sprintf("deact:%d", ti))
			}
			if !t.Active && ok("act", ti) {
				evs = append(evs, fmt.Sprintf("act:%d", ti))
			}
		}
		if ok("fund", ti) {
			for _, a := range s.cfg.Funds {
				if t.Bal+a <= s.cfg.FundCap {
					evs = append(evs, fmt.Sprintf("fund:%d:%d", ti, a))
				}
			}
		}
	}
	if s.signers() && s.cfg.DEAdd > 0 {
		for i := range m.DE {
			if ok("de", i) && m.DE[i]+s.cfg.DEAdd <= s.cfg.DECap {
				evs = append(evs, fmt.Sprintf("de:%d:%d", i, s.cfg.DEAdd))
			}
		}
	}
	// deposit moves change whether a tunnel may be active; they do not commute with act/deact and are
	// always enabled (like trig they start a new segment)
	for ti, t := range m.T {
		for _, a := range s.cfg.Deposits {
			if a <= t.Dep {
				evs = append(evs, fmt.Sprintf("wd:%d:%d", ti, a))
			}
			if t.Dep+a <= s.cfg.DepCap {
				evs = append(evs, fmt.Sprintf("dep:%d:%d", ti, a))
			}
		}
	}
	if s.cfg.Trigger {
		for ti := range m.T {
			evs = append(evs, fmt.Sprintf("trig:%d", ti))
		}
	}
	for _, dt := range s.cfg.Dts {
		evs = append(evs, fmt.Sprintf("blk:%d", dt))
	}
	return evs
}

// ---- observation helpers --------------------------------------------------------------------------

func (s *spec) bal(w *engine.World, ctx sdk.Context, a sdk.AccAddress) int64 {
	return w.App.BankKeeper.GetBalance(ctx, a, denom).Amount.Int64()
}

func (s *spec) deLeft(w *engine.World, ctx sdk.Context, i int) uint64 {
	q := w.App.TSSKeeper.GetDEQueue(ctx, s.g.Accounts[i].Address)
	return q.Tail - q.Head
}

func digest(p tunneltypes.Packet) string {
	b, err := p.Marshal()
	if err != nil {
		panic(err)
	}
	h := sha256.Sum256(b)
	return hex.EncodeToString(h[:6])
}

// tssRouteOpen is the number of signings the signing group can still start: one nonce pair of
// every member each (n = t), none without a group.
func (s *spec) tssCapacity(m *model) uint64 {
	if !s.signers() {
		return 0
	}
	c := m.DE[0]
	for _, d := range m.DE {
		if d < c {
			c = d
		}
	}
	return c
}

// checkPacket verifies a packet the model says was just produced for tunnel ti.
func (s *spec) checkPacket(w *engine.World, ctx sdk.Context, m *model, ti int, seq uint64, pl plan, now int64, st *engine.StepResult) (signing uint64) {
	k := w.App.TunnelKeeper
	tc := s.cfg.Tunnels[ti]
	p, err := k.GetPacket(ctx, s.ids[ti], seq)
	if err != nil {
		st.Violate("produced-packet-not-stored", "tunnel %d seq %d: %v", s.ids[ti], seq, err)
		return 0
	}
	if p.TunnelID != s.ids[ti] || p.Sequence != seq {
		st.Violate("packet-identity-mismatch", "stored under (%d,%d) but says (%d,%d)", s.ids[ti], seq, p.TunnelID, p.Sequence)
	}
	if !p.BaseFee.Equal(coins(baseFee)) || p.RouteFee.AmountOf(denom).Int64() != s.routeFee(ti) || len(p.RouteFee) > 1 {
		st.Violate("packet-fee-fields", "tunnel %d seq %d records base %s route %s, charged %d+%d", s.ids[ti], seq, p.BaseFee, p.RouteFee, baseFee, s.routeFee(ti))
	}
	got := map[string]feedstypes.Price{}
	for _, pr := range p.Prices {
		if _, dup := got[pr.SignalID]; dup {
			st.Violate("content:signal-twice", "tunnel %d seq %d carries %s twice", s.ids[ti], seq, pr.SignalID)
		}
		got[pr.SignalID] = pr
	}
	want := map[string]bool{}
	for _, sig := range pl.content {
		want[sig] = true
		pr, ok := got[sig]
		if !ok {
			st.Violate("content:"+pl.why[sig]+"-signal-missing", "tunnel %d seq %d (full=%v) lacks %s; carries %v", s.ids[ti], seq, pl.full, sig, p.Prices)
			continue
		}
		cur := s.current(m, sig, now)
		if pr.Price != cur.Price || int32(pr.Status) != cur.Status || (cur.Present && pr.Timestamp != cur.Ts) {
			st.Violate("content:price-not-current", "tunnel %d seq %d carries %+v for %s, feeds has %s", s.ids[ti], seq, pr, sig, cur)
		}
	}
	for sig := range got {
		if !want[sig] {
			known := false
			for _, sg := range tc.Signals {
				if sg.ID == sig {
					known = true
				}
			}
			if known {
				st.Violate("content:signal-below-soft-deviation-included", "tunnel %d seq %d (full=%v) carries %s which did not move by its soft deviation", s.ids[ti], seq, pl.full, sig)
			} else {
				st.Violate("content:foreign-signal", "tunnel %d seq %d carries %s", s.ids[ti], seq, sig)
			}
		}
	}
	if tc.Route == "tss" {
		var rc tunneltypes.TSSPacketReceipt
		if p.Receipt == nil || rc.Unmarshal(p.Receipt.Value) != nil || rc.SigningID == 0 {
			st.Violate("packet-without-receipt", "tunnel %d seq %d receipt %v", s.ids[ti], seq, p.Receipt)
			return 0
		}
		return uint64(rc.SigningID)
	}
	return 0
}

// applySuccess advances the model over a produced packet.
func (s *spec) applySuccess(m *model, ti int, pl plan, now int64) {
	t := m.T[ti]
	t.Seq++
	t.Bal -= s.totalFee(ti)
	for _, sig := range pl.content {
		c := s.current(m, sig, now)
		c.Present = true
		t.Latest[sig] = c
	}
	if pl.full {
		t.LastFull = now
	}
	m.TotalBase += baseFee
	if s.cfg.Tunnels[ti].Route == "tss" {
		m.Signings++
		for i := range m.DE {
			m.DE[i]--
		}
	}
}

// monitor compares every property-relevant projection of the stores with the model.
//
// The active-tunnel index is an internal of the implementation; it is compared with the reported
// flag only at block boundaries, after the packet oracle has judged the block, so that a stale index
// entry is first seen through what the statement is about (a packet for an inactive tunnel).
func (s *spec) monitor(w *engine.World, ctx sdk.Context, m *model, produced map[int]bool, st *engine.StepResult, now int64, checkIndex bool) {
	k := w.App.TunnelKeeper
	active := map[uint64]bool{}
	for _, id := range k.GetActiveTunnelIDs(ctx) {
		active[id] = true
	}
	for ti, t := range m.T {
		id := s.ids[ti]
		tn, err := k.GetTunnel(ctx, id)
		if err != nil {
			st.Violate("tunnel-vanished", "%d: %v", id, err)
			continue
		}
		if tn.Sequence != t.Seq {
			st.Violate("sequence-mismatch", "tunnel %d: stored sequence %d, %d packets produced", id, tn.Sequence, t.Seq)
		}
		if tn.IsActive != t.Active {
			st.Violate("active-flag-mismatch", "tunnel %d: flag %v model %v (deposit %d, minimum %d)", id, tn.IsActive, t.Active, t.Dep, minDeposit)
		} else if checkIndex && active[id] != t.Active {
			st.Violate("active-index-disagrees-with-flag", "tunnel %d: flag %v, in end-block index %v", id, tn.IsActive, active[id])
		}
		if got := s.bal(w, ctx, s.fp[ti]); got != t.Bal {
			if produced[ti] {
				st.Violate("fee-not-exact", "tunnel %d: fee payer has %d, expected %d after paying %d+%d once", id, got, t.Bal, baseFee, s.routeFee(ti))
			} else {
				st.Violate("fee-charged-without-packet", "tunnel %d: fee payer has %d, expected %d (no packet produced)", id, got, t.Bal)
			}
		}
		lp, err := k.GetLatestPrices(ctx, id)
		if err != nil {
			st.Violate("latest-prices-vanished", "%d: %v", id, err)
			continue
		}
		ctxName := "without-packet"
		if produced[ti] {
			ctxName = "after-packet"
		}
		if lp.LastInterval != t.LastFull {
			st.Violate("last-full-send-mismatch:"+ctxName, "tunnel %d: LastInterval %d, model %d (now %d)", id, lp.LastInterval, t.LastFull, now)
		}
		seen := map[string]bool{}
		mismatch := false
		for _, pr := range lp.Prices {
			mp, ok := t.Latest[pr.SignalID]
			if seen[pr.SignalID] || !ok || mp.Price != pr.Price || mp.Status != int32(pr.Status) {
				mismatch = true
			}
			seen[pr.SignalID] = true
		}
		if mismatch || len(seen) != len(t.Latest) {
			st.Violate("latest-prices-mismatch:"+ctxName, "tunnel %d: stored %+v, destination last received %v", id, lp.Prices, t.Latest)
		}
		// stored sequences are exactly 1..Seq and never change
		for q := uint64(1); q <= t.Seq; q++ {
			p, err := k.GetPacket(ctx, id, q)
			if err != nil {
				st.Violate("sequence-gap", "tunnel %d: packet %d of %d missing", id, q, t.Seq)
				continue
			}
			if int(q) <= len(t.Packets) {
				if d := digest(p); d != t.Packets[q-1] {
					st.Violate("stored-packet-changed", "tunnel %d packet %d", id, q)
				}
			} else {
				t.Packets = append(t.Packets, digest(p))
			}
		}
		if _, err := k.GetPacket(ctx, id, t.Seq+1); err == nil {
			st.Violate("packet-beyond-sequence", "tunnel %d: packet %d exists but sequence is %d", id, t.Seq+1, t.Seq)
		}
	}
	if got := k.GetTotalFees(ctx).TotalBasePacketFee.AmountOf(denom).Int64(); got != m.TotalBase {
		st.Violate("total-fees-mismatch", "TotalBasePacketFee %d, model %d", got, m.TotalBase)
	}
	if got := w.App.BandtssKeeper.GetSigningCount(ctx); got != m.Signings {
		st.Violate("signing-count-mismatch", "bandtss signings %d, model %d", got, m.Signings)
	}
	for i := range m.DE {
		if got := s.deLeft(w, ctx, i); got != m.DE[i] {
			st.Violate("nonce-queue-mismatch", "member %d has %d nonce pairs, model %d", i, got, m.DE[i])
		}
	}
}

// explain checks that post differs from pre only in keys explained by the packets produced for the
// tunnels in succ and the deactivation of the tunnels in deact.
func (s *spec) explain(w *engine.World, pre, post sdk.Context, m *model, succ, deact map[int]bool, seqOf map[int]uint64, st *engine.StepResult) {
	allowed := map[string]bool{}
	h := func(b []byte) string { return hex.EncodeToString(b) }
	tssSucc := false
	okAddr := map[string]string{}
	for ti := range succ {
		id := s.ids[ti]
		allowed[h(tunneltypes.TunnelStoreKey(id))] = true
		allowed[h(tunneltypes.TunnelPacketStoreKey(id, seqOf[ti]))] = true
		allowed[h(tunneltypes.LatestPricesStoreKey(id))] = true
		allowed[h(tunneltypes.TotalFeeStoreKey)] = true
		okAddr[string(s.fp[ti])] = "fee payer"
		if s.cfg.Tunnels[ti].Route == "tss" {
			tssSucc = true
		}
	}
	if len(succ) > 0 {
		okAddr[string(authtypes.NewModuleAddress(tunneltypes.ModuleName))] = "tunnel module"
		okAddr[string(authtypes.NewModuleAddress(bandtsstypes.ModuleName))] = "bandtss module"
	}
	for ti := range deact {
		id := s.ids[ti]
		allowed[h(tunneltypes.TunnelStoreKey(id))] = true
		allowed[h(tunneltypes.ActiveTunnelIDStoreKey(id))] = true
	}
	cause := "failed-or-absent-send-persisted"
	for _, line := range w.DiffStores(pre, post, nil) {
		slash := strings.IndexByte(line, '/')
		colon := strings.LastIndex(line, ": ")
		store, key := line[:slash], line[slash+1:colon]
		kb, _ := hex.DecodeString(key)
		switch store {
		case tunneltypes.StoreKey:
			if allowed[key] {
				continue
			}
			what := "other"
			switch kb[0] {
			case tunneltypes.TotalFeeStoreKey[0]:
				what = "total-fees"
			case tunneltypes.TunnelStoreKeyPrefix[0]:
				what = "tunnel-record"
			case tunneltypes.PacketStoreKeyPrefix[0]:
				what = "packet"
			case tunneltypes.LatestPricesStoreKeyPrefix[0]:
				what = "latest-prices"
			case tunneltypes.ActiveTunnelIDStoreKeyPrefix[0]:
				what = "active-index"
			}
			st.Violate(cause+":"+what, "tunnel store key %s %s without a produced packet / deactivation explaining it", key, line[colon+2:])
		case banktypes.StoreKey:
			if len(kb) > 2 && kb[0] == 2 && int(kb[1])+2 <= len(kb) {
				addr := string(kb[2 : 2+int(kb[1])])
				if okAddr[addr] != "" {
					continue
				}
				who := "other account"
				for ti := range s.fp {
					if string(s.fp[ti]) == addr {
						who = fmt.Sprintf("fee payer of tunnel %d", s.ids[ti])
					}
				}
				st.Violate(cause+":balance", "balance of %s (%s) %s without a produced packet", sdk.AccAddress(addr), who, line[colon+2:])
			} else if len(succ) == 0 {
				st.Violate(cause+":bank-index", "bank key %s %s", key, line[colon+2:])
			}
		case "tss", "bandtss":
			if !tssSucc {
				st.Violate(cause+":signing-state", "%s store key %s %s although no TSS packet was produced", store, key, line[colon+2:])
			}
		default:
			st.Violate("tunnel-end-block-touched-foreign-store", "%s", line)
		}
	}
}

// ---- transitions ----------------------------------------------------------------------------------

func (s *spec) Step(w *engine.World, ctx sdk.Context, mm engine.Model, ev string) (sdk.Context, engine.StepResult) {
	m := mm.(*model)
	var st engine.StepResult
	parts := strings.Split(ev, ":")
	k := w.App.TunnelKeeper
	now := ctx.BlockTime().Unix()
	produced := map[int]bool{}
	atoi := func(x string) int { v, _ := strconv.Atoi(x); return v }
	switch parts[0] {
	case "p":
		i := atoi(parts[1])
		pr := parseTok(parts[2], now)
		s.writePrice(w, ctx, s.cfg.Signals[i], pr)
		m.Prices[i], m.Tok[i] = pr, parts[2]
		m.Phase, _ = s.class("p", i)
		st.Outcome = "env:price"
	case "fund":
		ti := atoi(parts[1])
		amt, _ := strconv.ParseInt(parts[2], 10, 64)
		tssh.Must(w.Tx(ctx, 0, banktypes.NewMsgSend(bandtesting.FeePayer.Address, s.fp[ti], coins(amt))), "fund")
		m.T[ti].Bal += amt
		m.Phase, _ = s.class("fund", ti)
		st.Outcome = "env:fund"
	case "de":
		i := atoi(parts[1])
		n, _ := strconv.ParseUint(parts[2], 10, 64)
		tssh.Must(w.Tx(ctx, 0, tssh.SubmitDEsMsg(s.g.Accounts[i].Address.String(), m.NextDE[i], n)), "submit DEs")
		m.DE[i] += n
		m.NextDE[i] += n
		m.Phase, _ = s.class("de", i)
		st.Outcome = "env:nonces"
	case "act", "deact":
		ti := atoi(parts[1])
		var msg sdk.Msg = tunneltypes.NewMsgActivate(s.ids[ti], creator.Address.String())
		if parts[0] == "deact" {
			msg = tunneltypes.NewMsgDeactivate(s.ids[ti], creator.Address.String())
		}
		res := w.Tx(ctx, 0, msg)
		if res.OK() {
			m.T[ti].Active = parts[0] == "act"
		}
		m.Phase, _ = s.class(parts[0], ti)
		st.Outcome = parts[0] + ":" + res.ErrName()
	case "wd", "dep":
		ti := atoi(parts[1])
		t := m.T[ti]
		amt, _ := strconv.ParseInt(parts[2], 10, 64)
		var msg sdk.Msg = tunneltypes.NewMsgWithdrawFromTunnel(s.ids[ti], coins(amt), creator.Address.String())
		if parts[0] == "dep" {
			msg = tunneltypes.NewMsgDepositToTunnel(s.ids[ti], coins(amt), creator.Address.String())
		}
		res := w.Tx(ctx, 0, msg)
		// acceptance of deposit moves is C17's subject; C08 needs their effect on activity: a tunnel
		// whose total deposit falls below the minimum is no longer active (README: the deposit must
		// meet the minimum for the tunnel to be active), a deposit never activates by itself
		if !res.OK() {
			panic(fmt.Sprintf("c08: %s rejected (%v) although the creator holds deposit %d", ev, res.Err, t.Dep))
		}
		class := "inactive"
		if parts[0] == "wd" {
			t.Dep -= amt
			if t.Active {
				class = "stays-active"
				if t.Dep < minDeposit {
					t.Active = false
					class = "below-min-deactivates"
				}
			}
		} else {
			t.Dep += amt
			if t.Active {
				class = "active"
			}
		}
		m.Phase = -1
		st.Outcome = parts[0] + ":" + class
	case "trig":
		ti := atoi(parts[1])
		t := m.T[ti]
		tc := s.cfg.Tunnels[ti]
		// a manual trigger sends every signal regardless of interval and deviation
		pl := plan{due: true, full: true, why: map[string]string{}}
		for _, sg := range tc.Signals {
			pl.content = append(pl.content, sg.ID)
			pl.why[sg.ID] = "trigger"
		}
		routeOK := (tc.Route == "tss" && s.tssCapacity(m) > 0)
		funded := t.Bal >= s.totalFee(ti)
		class := "ok"
		switch {
		case !t.Active:
			class = "inactive"
		case !funded:
			class = "short-funds"
		case !routeOK:
			class = "route-fails"
		}
		post, write := ctx.CacheContext()
		post = post.WithEventManager(sdk.NewEventManager())
		res := w.Tx(post, 0, tunneltypes.NewMsgTriggerTunnel(s.ids[ti], creator.Address.String()))
		st.Outcome = "trig:" + class + ":" + res.ErrName()
		if res.OK() {
			st.Saw("trigger:packet")
		} else {
			st.Saw("trigger-rejected:" + class + ":" + s.routeKind(ti))
		}
		if res.OK() != (class == "ok") {
			if res.OK() {
				st.Violate("trigger-produced-packet:"+class, "%s accepted (%s)", ev, class)
			} else {
				st.Violate("trigger-rejected-although-sendable", "%s: %v", ev, res.Err)
			}
			return ctx, st
		}
		if res.OK() {
			s.applySuccess(m, ti, pl, now)
			produced[ti] = true
			if sid := s.checkPacket(w, post, m, ti, t.Seq, pl, now, &st); tc.Route == "tss" && sid != m.Signings {
				st.Violate("packet-receipt-not-the-new-signing", "tunnel %d seq %d receipt signing %d, new signing %d", s.ids[ti], t.Seq, sid, m.Signings)
			}
			s.explain(w, ctx, post, m, map[int]bool{ti: true}, nil, map[int]uint64{ti: t.Seq}, &st)
			m.Phase = -1
		} else if d := w.DiffStores(ctx, post, nil); len(d) != 0 {
			st.Violate("failed-trigger-persisted", "%v", d)
		}
		write()
	case "blk":
		dt, _ := strconv.ParseInt(parts[1], 10, 64)
		// ---- what the statement prescribes, tunnel by tunnel ----
		plans := make([]plan, len(m.T))
		kind := make([]string, len(m.T)) // none | success | fail | deact | deact-optional | tss
		var tssDue []int
		for ti, t := range m.T {
			plans[ti] = s.planFor(m, ti, now)
			switch {
			case !t.Active:
				kind[ti] = "none"
			case t.Bal < s.totalFee(ti):
				if plans[ti].due {
					kind[ti] = "deact"
				} else {
					kind[ti] = "deact-optional" // the statement only fixes deactivation "instead of" a packet
				}
			case !plans[ti].due:
				kind[ti] = "none"
			case s.cfg.Tunnels[ti].Route == "tss":
				kind[ti] = "tss"
				tssDue = append(tssDue, ti)
			default:
				kind[ti] = "fail" // IBC route without a channel
			}
		}
		capacity := s.tssCapacity(m)
		for _, ti := range tssDue {
			switch {
			case capacity >= uint64(len(tssDue)):
				kind[ti] = "success"
			case capacity == 0:
				kind[ti] = "fail"
			}
		}
		// ---- the implementation: the same block with and without the active tunnels ----
		base := engine.Fork(ctx)
		for _, id := range k.GetActiveTunnelIDs(base) {
			k.DeleteActiveTunnelID(base, id)
		}
		if _, halt := w.EndBlock(base); halt != "" {
			st.Violate("block-halt:without-tunnels", "%s", halt)
			return ctx, st
		}
		for _, id := range k.GetActiveTunnelIDs(ctx) {
			k.SetActiveTunnelID(base, id)
		}
		real, write := ctx.CacheContext()
		events, halt := w.EndBlock(real)
		if halt != "" {
			st.Violate("block-halt", "%s", halt)
			return ctx, st
		}
		// ---- classify what happened per tunnel ----
		succ, deact, seqOf := map[int]bool{}, map[int]bool{}, map[int]uint64{}
		nTSS := 0
		for ti, t := range m.T {
			tn, err := k.GetTunnel(real, s.ids[ti])
			if err != nil {
				st.Violate("tunnel-vanished", "%v", err)
				return ctx, st
			}
			made := tn.Sequence != t.Seq
			gone := t.Active && !tn.IsActive
			if made && tn.Sequence != t.Seq+1 {
				st.Violate("sequence-not-next", "tunnel %d: sequence %d -> %d in one block", s.ids[ti], t.Seq, tn.Sequence)
				return ctx, st
			}
			why := "interval"
			if !plans[ti].full {
				why = "hard-deviation"
			}
			switch kind[ti] {
			case "none":
				if made {
					if !t.Active {
						st.Violate("inactive-tunnel-produced-packet", "tunnel %d", s.ids[ti])
					} else {
						st.Violate("packet-when-not-due", "tunnel %d: now %d, last full send %d, interval %d, latest %v, feeds %v", s.ids[ti], now, t.LastFull, s.cfg.Tunnels[ti].Interval, t.Latest, m.Prices)
					}
				}
				if gone {
					st.Violate("funded-tunnel-deactivated", "tunnel %d had %d >= %d", s.ids[ti], t.Bal, s.totalFee(ti))
				}
			case "success":
				if !made {
					st.Violate("due-but-no-packet:"+why, "tunnel %d: now %d, last full send %d, interval %d, latest %v, feeds %v; events %s", s.ids[ti], now, t.LastFull, s.cfg.Tunnels[ti].Interval, t.Latest, m.Prices, failReasons(events))
				}
				if gone {
					st.Violate("funded-tunnel-deactivated", "tunnel %d had %d >= %d", s.ids[ti], t.Bal, s.totalFee(ti))
				}
			case "tss": // shared nonce capacity smaller than demand: which tunnels are served is not fixed
				if gone {
					st.Violate("funded-tunnel-deactivated", "tunnel %d had %d >= %d", s.ids[ti], t.Bal, s.totalFee(ti))
				}
			case "fail":
				if made {
					st.Violate("packet-although-route-cannot-send", "tunnel %d (%s)", s.ids[ti], s.cfg.Tunnels[ti].Route)
				}
				if gone {
					st.Violate("funded-tunnel-deactivated", "tunnel %d had %d >= %d", s.ids[ti], t.Bal, s.totalFee(ti))
				}
				st.Saw("route-failure:" + s.failKind(ti))
			case "deact":
				if made {
					st.Violate("packet-despite-short-funds", "tunnel %d: balance %d < %d", s.ids[ti], t.Bal, s.totalFee(ti))
				}
				if !gone {
					st.Violate("short-funds-not-deactivated", "tunnel %d: balance %d < %d, packet due (%s), still active", s.ids[ti], t.Bal, s.totalFee(ti), why)
				}
			case "deact-optional":
				if made {
					st.Violate("packet-despite-short-funds", "tunnel %d: balance %d < %d", s.ids[ti], t.Bal, s.totalFee(ti))
				}
				if gone {
					st.Saw("deactivated-while-not-due")
				}
			}
			if len(st.Violations) > 0 {
				return ctx, st
			}
			if made {
				succ[ti], seqOf[ti] = true, t.Seq+1
				if s.cfg.Tunnels[ti].Route == "tss" {
					nTSS++
				}
			}
			if gone {
				deact[ti] = true
			}
		}
		if len(tssDue) > 0 && capacity < uint64(len(tssDue)) && uint64(nTSS) != capacity {
			fp := "due-but-no-packet:nonces-available"
			if uint64(nTSS) > capacity {
				fp = "packet-although-route-cannot-send:more-packets-than-nonce-pairs"
			}
			st.Violate(fp, "%d TSS tunnels due, nonce pairs for %d signings, %d sequence numbers taken", len(tssDue), capacity, nTSS)
			return ctx, st
		}
		// ---- advance the model and verify packets, stores and the differential ----
		signingsBefore := m.Signings
		receipts := map[uint64]bool{}
		for ti := range m.T {
			if succ[ti] {
				s.applySuccess(m, ti, plans[ti], now)
				produced[ti] = true
				sid := s.checkPacket(w, real, m, ti, m.T[ti].Seq, plans[ti], now, &st)
				if s.cfg.Tunnels[ti].Route == "tss" {
					if sid <= signingsBefore || sid > signingsBefore+uint64(nTSS) || receipts[sid] {
						st.Violate("packet-receipt-not-the-new-signing", "tunnel %d seq %d receipt signing %d, new signings %d..%d", s.ids[ti], m.T[ti].Seq, sid, signingsBefore+1, signingsBefore+uint64(nTSS))
					}
					receipts[sid] = true
				}
				if plans[ti].full {
					st.Saw("packet:interval")
					if s.cfg.Incoming {
						st.Saw("packet:incoming-group-only:balance=" + strconv.FormatInt(s.cfg.Tunnels[ti].Balance, 10))
					}
				} else {
					st.Saw("packet:hard-deviation")
					for _, sig := range plans[ti].content {
						if plans[ti].why[sig] == "soft" {
							st.Saw("packet:soft-rider")
						}
					}
					if len(plans[ti].content) < len(s.cfg.Tunnels[ti].Signals) {
						st.Saw("packet:partial")
					}
				}
			}
			if deact[ti] {
				m.T[ti].Active = false
				if kind[ti] == "deact" {
					st.Saw("deactivated:short-funds")
				}
			}
			if kind[ti] == "none" && m.T[ti].Active && !plans[ti].due {
				st.Saw("not-due")
				for _, sg := range s.cfg.Tunnels[ti].Signals {
					if moved(m.T[ti].Latest[sg.ID].Price, s.current(m, sg.ID, now).Price, sg.Soft) {
						st.Saw("not-due:soft-only")
					}
				}
			}
			if kind[ti] == "none" && !m.T[ti].Active && plans[ti].due {
				st.Saw("inactive-and-due:no-packet")
			}
		}
		// success events: one per packet
		evSeen := map[string]int{}
		for _, e := range engine.EventsOfType(events, tunneltypes.EventTypeProducePacketSuccess) {
			evSeen[engine.Attr(e, tunneltypes.AttributeKeyTunnelID)+"/"+engine.Attr(e, tunneltypes.AttributeKeySequence)]++
		}
		for ti := range succ {
			key := fmt.Sprintf("%d/%d", s.ids[ti], seqOf[ti])
			if evSeen[key] != 1 {
				st.Violate("success-event-count", "packet %s has %d produce_packet_success events", key, evSeen[key])
			}
			delete(evSeen, key)
		}
		if len(evSeen) != 0 {
			st.Violate("success-event-without-packet", "%v", evSeen)
		}
		s.explain(w, base, real, m, succ, deact, seqOf, &st)
		s.monitor(w, real, m, produced, &st, now, true)
		if len(st.Violations) > 0 {
			return ctx, st
		}
		write()
		next, _, halt := w.BeginBlock(ctx, 1, time.Duration(dt)*time.Second)
		if halt != "" {
			st.Violate("block-halt", "%s", halt)
			return ctx, st
		}
		ctx = next
		m.Phase = -1
		st.Outcome = "block"
		// begin-block must not touch what the property is about
		s.monitor(w, ctx, m, nil, &st, now, true)
		return ctx, st
	default:
		panic("event " + ev)
	}
	s.monitor(w, ctx, m, produced, &st, now, false)
	return ctx, st
}

func (s *spec) failKind(ti int) string {
	switch {
	case s.cfg.Tunnels[ti].Route == "ibc":
		return "ibc-no-channel"
	case !s.signers():
		return "no-signing-group"
	default:
		return "members-out-of-nonces"
	}
}

func (s *spec) routeKind(ti int) string {
	switch {
	case s.cfg.Tunnels[ti].Route == "ibc":
		return "ibc-no-channel"
	case s.cfg.Incoming:
		return "tss-incoming-only"
	case !s.cfg.Group:
		return "tss-no-group"
	default:
		return "tss"
	}
}

func failReasons(evs sdk.Events) string {
	var out []string
	for _, e := range engine.EventsOfType(evs, tunneltypes.EventTypeProducePacketFail) {
		out = append(out, engine.Attr(e, tunneltypes.AttributeKeyTunnelID)+": "+engine.Attr(e, tunneltypes.AttributeKeyReason))
	}
	return strings.Join(out, "; ")
}

// ---- registration ---------------------------------------------------------------------------------

func init() {
	engine.Register(&engine.Check{
		ID: "C08",
		Run: func(r *engine.Run) {
			r.Bound = "per configuration 1-2 active tunnels (TSS route on a real 2-of-2 current signing group / TSS route with only an incoming group waiting for execution / TSS route without a group / IBC route without channel) x 2 signals, soft/hard in {(100,300),(300,300)} bps, interval in {2,4} s (min=2) or 3600 s; every sequence of <= depth events from {Price(signal, token) over per-signal alphabets drawn from {missing,0,100,101,102,103,105,120; available/not-ready}, Fund(feePayer, amount), SubmitDEs(member), Activate/Deactivate, Withdraw/Deposit(creator, amount; keeping the deposit >= min or taking it below), Trigger, Block(dt in {1,2,4})}, modulo the order of independent environment writes inside one block segment; depth 5-6 (quick) / 6-8 (thorough)"
			r.Assumptions = []string{
				"prices are environment input written with the feeds keeper while the feeds current-feed list is empty (the feeds end-blocker then leaves Price records alone; no current-feeds update height falls into the explored range)",
				"bootstrap-window configuration: no current group, the first 2-of-2 group waits for an execution time one hour ahead (never reached); bandtss charges nothing there, so the route fee is 0 and a fee payer holding the base fee is solvent",
				"TSS route: one real 2-of-2 group (n = t, so every signing consumes one nonce pair of every member); signings created by packets are never signed and do not expire within the explored depth (SigningPeriod 100 blocks)",
				"IBC route is only explored without a channel (every send fails); a successful IBC send would need a full IBC handshake",
				"route failure 'fee above limit' is unreachable from the end-blocker because the limit passed to bandtss is the route fee computed in the same context; it is not in the alphabet",
				"a tunnel that is short of funds while no packet is due may or may not be deactivated (the statement only fixes deactivation instead of a packet); the implementation's choice is taken as given and labelled",
				"with two TSS tunnels due and nonce pairs for only one signing, which tunnel is served is taken as given; the number served is checked",
				"Tx seam = ValidateBasic + message-router handler in a cache context (ante chain not executed here; see C02)",
			}
			r.Required = []string{"packet:interval", "packet:hard-deviation", "packet:soft-rider", "packet:partial", "not-due", "not-due:soft-only",
				"deactivated:short-funds", "inactive-and-due:no-packet", "wd:stays-active", "wd:below-min-deactivates", "wd:inactive", "dep:inactive", "dep:active",
				"route-failure:members-out-of-nonces", "route-failure:no-signing-group", "route-failure:ibc-no-channel",
				"packet:incoming-group-only:balance=7", "packet:incoming-group-only:balance=12", "trigger-rejected:short-funds:tss-incoming-only",
				"trigger:packet", "trigger-rejected:inactive:tss", "trigger-rejected:short-funds:tss",
				"trigger-rejected:route-fails:tss", "trigger-rejected:route-fails:tss-no-group", "trigger-rejected:route-fails:ibc-no-channel"}
			deadline := r.Deadline(4*time.Minute, 40*time.Minute)
			for _, c := range configs(r.Quick()) {
				sp := &spec{cfg: c}
				sr := engine.Search(sp, engine.SearchOpts{Depth: c.Depth, Deadline: deadline})
				r.AddSearch(c.Name, c, sr)
				if len(r.Violations) > 0 {
					break
				}
			}
			r.ConfirmViolations(func(cfg any) engine.Spec { return &spec{cfg: cfg.(Cfg)} })
		},
		Replay: func(raw json.RawMessage, path []string) (engine.StepResult, []string) {
			var c Cfg
			if err := json.Unmarshal(raw, &c); err != nil {
				panic(err)
			}
			last, outs, _ := engine.Replay(&spec{cfg: c}, path)
			return last, outs
		},
	})
}
