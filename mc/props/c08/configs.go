package c08

const (
	sigA = "CS:AAA-USD"
	sigB = "CS:BBB-USD"
)

const tssTotal = baseFee + feePerSigner*threshold // 13

func sigs(softA, hardA, softB, hardB uint64) []SigCfg {
	return []SigCfg{{ID: sigA, Soft: softA, Hard: hardA}, {ID: sigB, Soft: softB, Hard: hardB}}
}

func configs(quick bool) []Cfg {
	both := []string{sigA, sigB}
	var out []Cfg
	// 1. deviation boundaries: one full send (interval 3600 s, LastFull = 0), afterwards only deviations decide.
	//    From 100: 101 = 100 bps (soft boundary), 102 = 200 bps, 103 = 300 bps (hard boundary), 105 = 500 bps;
	//    0 and missing = 10000 bps; from 0 everything is an unbounded move.
	dev := Cfg{Name: "deviation", Group: true, InitDE: 12,
		Tunnels: []TunnelCfg{{Route: "tss", Signals: sigs(100, 300, 300, 300), Interval: 3600, Balance: 20 * tssTotal}},
		Signals: both, Init: []string{"100", "100"},
		Tokens: [][]string{{"m", "0", "100", "101", "103", "105", "100n"}, {"100", "102", "103"}},
		Dts:    []int64{1}, Depth: 6}
	// 2. interval boundaries: intervals 2 and 4 against block steps 1, 2, 4.
	itv := Cfg{Name: "interval", Group: true, InitDE: 16,
		Tunnels: []TunnelCfg{
			{Route: "tss", Signals: sigs(100, 300, 300, 300), Interval: 2, Balance: 10 * tssTotal},
			{Route: "tss", Signals: sigs(300, 300, 100, 300), Interval: 4, Balance: 10 * tssTotal}},
		Signals: both, Init: []string{"100", "100"},
		Tokens: [][]string{{"100", "105"}, {"100", "101"}},
		Dts:    []int64{1, 2, 4}, Depth: 6}
	// 3. funds: balances around the total fee, deactivation, re-activation, manual trigger.
	fund := Cfg{Name: "funds", Group: true, InitDE: 10,
		Tunnels: []TunnelCfg{{Route: "tss", Signals: sigs(100, 300, 300, 300), Interval: 2, Balance: tssTotal - 1}},
		Signals: both, Init: []string{"100", "100"},
		Tokens: [][]string{{"100", "105"}, {"100"}},
		Funds:  []int64{1, tssTotal}, FundCap: 3 * tssTotal, Toggle: true, Trigger: true,
		Dts: []int64{1, 2}, Depth: 6}
	fundBase := fund
	fundBase.Name = "funds-base-only"
	fundBase.Tunnels = []TunnelCfg{{Route: "tss", Signals: sigs(100, 300, 300, 300), Interval: 2, Balance: baseFee}}
	fundBase.Funds = []int64{tssTotal - baseFee, 2 * tssTotal}
	// 4. nonces: members run out of nonce pairs at any step; two tunnels compete for them.
	non := Cfg{Name: "nonces", Group: true, InitDE: 1, DEAdd: 1, DECap: 2,
		Tunnels: []TunnelCfg{
			{Route: "tss", Signals: sigs(100, 300, 300, 300), Interval: 2, Balance: 10 * tssTotal},
			{Route: "tss", Signals: sigs(300, 300, 100, 300), Interval: 4, Balance: 10 * tssTotal}},
		Signals: both, Init: []string{"100", "100"},
		Tokens:  [][]string{{"100", "105"}, {"100"}},
		Trigger: true, Dts: []int64{2}, Depth: 6}
	// 5. no signing group at all: every send fails after the base fee was taken and the sequence advanced inside the attempt.
	nog := Cfg{Name: "no-group", Group: false,
		Tunnels: []TunnelCfg{{Route: "tss", Signals: sigs(100, 300, 300, 300), Interval: 2, Balance: baseFee}},
		Signals: both, Init: []string{"m", "100"},
		Tokens: [][]string{{"m", "100", "105"}, {"100"}},
		Funds:  []int64{baseFee}, FundCap: 2 * baseFee, Trigger: true, Toggle: true,
		Dts: []int64{1, 2}, Depth: 5}
	// 6. mixed: an IBC tunnel without channel (always fails) next to a TSS tunnel (succeeds) in the same blocks.
	mix := Cfg{Name: "ibc+tss", Group: true, InitDE: 8,
		Tunnels: []TunnelCfg{
			{Route: "ibc", Signals: sigs(100, 300, 300, 300), Interval: 2, Balance: 3 * baseFee},
			{Route: "tss", Signals: sigs(300, 300, 100, 300), Interval: 2, Balance: 10 * tssTotal}},
		Signals: both, Init: []string{"100", "m"},
		Tokens:  [][]string{{"100", "105", "m"}, {"m", "100"}},
		Trigger: true, Dts: []int64{1, 2}, Depth: 5}
	// 7. deposits: withdrawals that keep the deposit >= min (12 -> 11 -> 10) and that take it below (-> 9),
	//    re-deposit and re-activation, with due and not-due blocks after each.
	dpo := Cfg{Name: "deposits", Group: true, InitDE: 10,
		Tunnels: []TunnelCfg{{Route: "tss", Signals: sigs(100, 300, 300, 300), Interval: 2, Balance: 8 * tssTotal, Deposit: minDeposit + 2}},
		Signals: both, Init: []string{"100", "100"},
		Tokens:   [][]string{{"100"}, {"100"}},
		Deposits: []int64{1, 3}, DepCap: minDeposit + 3, Toggle: true,
		Dts: []int64{1, 2}, Depth: 6}
	// 8. bootstrap window: no current group, first group waiting for execution; signing works but costs
	//    nothing, so the real packet cost is the base fee: balances {base, base+phantom route-1, ample, base-1}.
	inc := Cfg{Name: "incoming-only", Incoming: true, InitDE: 8,
		Tunnels: []TunnelCfg{
			{Route: "tss", Signals: sigs(100, 300, 300, 300), Interval: 2, Balance: baseFee},
			{Route: "tss", Signals: sigs(100, 300, 300, 300), Interval: 2, Balance: tssTotal - 1},
			{Route: "tss", Signals: sigs(100, 300, 300, 300), Interval: 2, Balance: 5 * tssTotal},
			{Route: "tss", Signals: sigs(100, 300, 300, 300), Interval: 2, Balance: baseFee - 1}},
		Signals: both, Init: []string{"100", "100"},
		Tokens:  [][]string{{"100", "105"}, {"100"}},
		Trigger: true, Dts: []int64{1, 2}, Depth: 4}
	// 9. huge prices: last-sent prices near the top of uint64 and collapses from them (|new-old|*10000 does not
	//    fit 64 bits) and the jump 1 -> 2^64-1; interval 3600 s, so after the first send only the deviation decides.
	huge := Cfg{Name: "huge-prices", Group: true, InitDE: 8,
		Tunnels: []TunnelCfg{{Route: "tss", Signals: sigs(100, 300, 300, 300), Interval: 3600, Balance: 10 * tssTotal}},
		Signals: both, Init: []string{"1", "100"},
		Tokens: [][]string{{"m", "0", "1", "1000000000000000", "3000000000000000", "1600000000000000000", "18446744073709551615"}, {"100"}},
		Dts:    []int64{1}, Depth: 5}
	if quick {
		return []Cfg{dev, itv, fund, fundBase, non, nog, mix, dpo, inc, huge}
	}
	h2 := huge
	h2.Tokens = [][]string{{"m", "0", "1", "1000000000000000", "1844674407370955", "1844674407370956", "3000000000000000", "1600000000000000000", "18446744073709551615"},
		{"100", "18446744073709551615"}}
	h2.InitDE = 12
	h2.Depth = 7
	out = append(out, h2)
	i2 := inc
	i2.Funds = []int64{1, baseFee}
	i2.FundCap = 2 * tssTotal
	i2.Tunnels = inc.Tunnels[:2]
	i2.InitDE = 3
	i2.DEAdd, i2.DECap = 1, 3
	i2.Depth = 6
	out = append(out, inc, i2)
	d2 := dpo
	d2.Tokens = [][]string{{"100", "105"}, {"100"}}
	d2.Trigger = true
	d2.Depth = 7
	out = append(out, d2)
	// thorough: larger alphabets, deeper, and the soft/hard/interval variants of the design;
	// cheap configurations first, so that an internal time cap cuts the large ones only
	n2 := non
	n2.Tokens = [][]string{{"100", "105", "m"}, {"100", "101"}}
	n2.Depth = 8
	out = append(out, n2)
	n3 := non
	n3.Name = "nonces-start-empty"
	n3.InitDE = 0
	n3.DECap = 3
	n3.Depth = 8
	out = append(out, n3)
	g2 := nog
	g2.Tokens = [][]string{{"m", "0", "100", "105"}, {"100", "103"}}
	g2.Depth = 7
	out = append(out, g2)
	m2 := mix
	m2.Tokens = [][]string{{"100", "103", "105", "m"}, {"m", "100", "101"}}
	m2.Depth = 6
	out = append(out, m2)
	fb := fundBase
	fb.Depth = 7
	out = append(out, fb)
	for _, b := range []int64{0, tssTotal - 1, tssTotal, 3 * tssTotal} {
		for _, iv := range []uint64{2, 4} {
			c := fund
			c.Name = "funds" + variant([4]uint64{uint64(b), iv, 0, 0})
			c.Tunnels = []TunnelCfg{{Route: "tss", Signals: sigs(100, 300, 300, 300), Interval: iv, Balance: b}}
			c.Tokens = [][]string{{"100", "103", "105"}, {"100"}}
			c.Depth = 7
			out = append(out, c)
		}
	}
	for i, sh := range [][4]uint64{{100, 300, 300, 300}, {300, 300, 100, 300}, {100, 300, 100, 300}} {
		d := dev
		d.Name = "deviation" + variant(sh)
		d.Tunnels = []TunnelCfg{{Route: "tss", Signals: sigs(sh[0], sh[1], sh[2], sh[3]), Interval: 3600, Balance: 40 * tssTotal}}
		d.InitDE = 20
		d.Tokens = [][]string{{"m", "0", "100", "101", "102", "103", "105", "120", "100n", "0n"}, {"m", "100", "101", "102", "103", "120"}}
		d.Depth = 6
		if i == 0 {
			d.Depth = 7
		}
		out = append(out, d)
	}
	for _, iv := range [][2]uint64{{2, 4}, {4, 2}, {2, 2}} {
		c := itv
		c.Name = "interval" + variant([4]uint64{iv[0], iv[1], 0, 0})
		c.Tunnels = []TunnelCfg{
			{Route: "tss", Signals: sigs(100, 300, 300, 300), Interval: iv[0], Balance: 20 * tssTotal},
			{Route: "tss", Signals: sigs(300, 300, 100, 300), Interval: iv[1], Balance: 20 * tssTotal}}
		c.InitDE = 24
		c.Tokens = [][]string{{"100", "101", "105"}, {"100", "101", "m"}}
		c.Depth = 7
		out = append(out, c)
	}
	return out
}

func variant(v [4]uint64) string {
	s := "["
	for i, x := range v {
		if i > 0 {
			s += ","
		}
		s += itoa(x)
	}
	return s + "]"
}

func itoa(x uint64) string {
	if x == 0 {
		return "0"
	}
	var b []byte
	for x > 0 {
		b = append([]byte{byte('0' + x%10)}, b...)
		x /= 10
	}
	return string(b)
}
