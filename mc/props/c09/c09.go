// Package c09 checks property C09: committee selection (oracle validators, TSS signers) is a deterministic
// function of (rolling seed, identity, chain id, eligible set) that follows the fixed sampling specification:
// exactly ask_count / threshold distinct eligible participants or an error when there are too few.
//
// Engine: enum.  Every tuple of the stated finite spaces is executed on the real code (pkg/bandrng, the oracle
// keeper's GetRandomValidators, MsgRequestData through the message router, the tss keeper's GetRandomMembers,
// RequestSigning / InitiateNewSigningRound, the rollingseed BeginBlocker) and compared with an independent
// reference (ref.go: HMAC_DRBG from SP 800-90A validated against the NIST example vector, big-integer samplers).
package c09

import (
	"encoding/hex"
	"encoding/json"
	"fmt"
	"os"
	"strconv"
	"strings"
	"sync"
	"sync/atomic"
	"time"

	"github.com/bandprotocol/chain/v3/zzverif/engine"
)

// Case is one evaluated input; it is what a replay file stores.
type Case struct {
	Kind      string   `json:"kind"`               // drbg | pure | vals | valtx | members | signing | seed
	Fn        string   `json:"fn,omitempty"`       // pure: one | some | max
	Weights   []uint64 `json:"weights,omitempty"`  // pure: weight vector
	Tokens    []string `json:"tokens,omitempty"`   // vals/valtx: validator tokens (decimal), slot order
	Flags     string   `json:"flags,omitempty"`    // vals: E/I/U/X per validator; members: A/I/N/Z; signing: a/A/I/N
	Cnt       int      `json:"cnt,omitempty"`      // ask count / threshold / cnt
	Tries     int      `json:"tries,omitempty"`    // sampling_try_count
	Seed      string   `json:"seed,omitempty"`     // rolling seed (hex)
	Nonce     string   `json:"nonce,omitempty"`    // drbg: nonce (hex)
	ID        uint64   `json:"id,omitempty"`       // request id / signing id
	Attempt   uint64   `json:"attempt,omitempty"`  // members: attempt number in the nonce
	ChainID   string   `json:"chain_id,omitempty"` // personalization string
	HashHex   string   `json:"hash,omitempty"`     // seed: block hash
	Param     string   `json:"param,omitempty"`    // params / tssparams: parameter set to Value through MsgUpdateParams first
	Value     uint64   `json:"value,omitempty"`
	PrevCount uint64   `json:"prev_count,omitempty"` // valtx / signing: request / signing count before the call
}

func (c Case) String() string {
	b, _ := json.Marshal(c)
	return string(b)
}

func mustHex(s string) []byte {
	b, err := hex.DecodeString(s)
	if err != nil {
		panic(err)
	}
	return b
}

// Res is the result of evaluating one case.
type Res struct {
	Viol     []engine.Violation
	Outcomes []string
	Key      string // canonical description of the returned committee ("" when none)
}

func (r *Res) violate(fp, format string, a ...any) {
	r.Viol = append(r.Viol, engine.Violation{Fingerprint: fp, Detail: fmt.Sprintf(format, a...)})
}
func (r *Res) saw(o string) { r.Outcomes = append(r.Outcomes, o) }

// ---- alphabets ------------------------------------------------------------------------------------------------

var seeds = []string{
	strings.Repeat("00", 32),
	"000102030405060708090a0b0c0d0e0f101112131415161718191a1b1c1d1e1f",
	"c09c09c09c09c09c09c09c09c09c09c09c09c09c09c09c09c09c09c09c09ffff",
}

var ids = []uint64{1, 2, ^uint64(0)}

const (
	w62 = uint64(1) << 62
	w63 = uint64(1) << 63
)

var pureAlphabet = []uint64{1, 2, 3, 1_000_000, w62, w63}
var pureAlphabetWide = []uint64{1, 2, 3, 7, 1_000_000, w62, w63 - 1, w63}
var triesAlphabet = []int{1, 2, 3, 10}

// hand-chosen vectors at and around a total of 2^64
var pureExtras = [][]uint64{
	{^uint64(0)},
	{^uint64(0) - 1, 1},
	{1, ^uint64(0) - 1},
	{w63, w63 - 1},
	{w63 - 1, w63},
	{w63, w62, w62 - 1},
	{w62 - 1, w62, w63},
	{w62, w62, w62, w62 - 1},
	{^uint64(0) - 3, 1, 1, 1},
	{1, 1, 1, ^uint64(0) - 3},
	{^uint64(0), 1},       // total 2^64
	{1, ^uint64(0)},       // total 2^64
	{w63, w62, w62},       // total 2^64
	{w63, w63 - 1, 1, 1},  // total 2^64+1
	{w62, w62, w62, w62},  // total 2^64
	{5, 5, 5, 5, 5, 5, 5}, // equal weights, n=7
	{1, 2, 3, 4, 5, 6, 7, 8},
	{100, 1, 1, 1, 1, 1, 1, 1, 1, 1},
	// skewed vectors whose tries can differ in total weight by 2^63 or more (a signed / wrapped comparison of the
	// totals picks the lighter try)
	{12 << 60, 2 << 60, 1 << 60},
	{1 << 60, 2 << 60, 12 << 60},
	{2 << 60, 12 << 60, 1 << 60},
	{10 << 60, 3 << 60, 2 << 60},
	{3 << 60, 2 << 60, 10 << 60},
	{11 << 60, 1 << 60, 1 << 60, 1 << 60, 1 << 60},
	{1 << 60, 1 << 60, 9 << 60, 2 << 60, 2 << 60},
	{w63 + 5, 7, 3},
	{7, w63 + 5, 3},
	{w63 + w62, w62 - 9, 5},
	{w62, 3, w63 + w62 - 7},
	{^uint64(0) - 3, 1, 1, 1},
	{3 << 61, 1 << 61, 1 << 60, 1 << 60},
}

// ---- driver ---------------------------------------------------------------------------------------------------

type driver struct {
	r        *engine.Run
	tally    *engine.Tally
	deadline time.Time
	workers  int
	envs     []*env
	envMu    sync.Mutex
	distinct int64
	shards   [nShards]shard
	only     string
}

// env returns the worker's environment.  Environments are created one after the other (never concurrently).
func (d *driver) env(worker int) *env {
	d.envMu.Lock()
	defer d.envMu.Unlock()
	if d.envs[worker] == nil {
		d.envs[worker] = newEnv()
	}
	return d.envs[worker]
}

// record merges one evaluation into the driver's counters (outcome counts are kept in per-worker shards to keep
// the hot path free of a shared lock).
func (d *driver) record(c Case, res Res) {
	sh := &d.shards[shardOf(c)]
	sh.mu.Lock()
	sh.evals++
	for _, o := range res.Outcomes {
		sh.outcomes[o]++
	}
	sh.mu.Unlock()
	for _, v := range res.Viol {
		d.tally.Violate(c, []string{c.String()}, v.Fingerprint, v.Detail)
	}
}

type shard struct {
	mu       sync.Mutex
	evals    int64
	outcomes map[string]int
	_        [40]byte
}

const nShards = 256

func shardOf(c Case) int {
	h := uint32(2166136261)
	for i := 0; i < len(c.Flags); i++ {
		h = (h ^ uint32(c.Flags[i])) * 16777619
	}
	for _, w := range c.Weights {
		h = (h ^ uint32(w) ^ uint32(w>>32)) * 16777619
	}
	for _, t := range c.Tokens {
		h = (h ^ uint32(len(t)) ^ uint32(t[0])) * 16777619
	}
	h = (h ^ uint32(c.Cnt)) * 16777619
	return int(h % nShards)
}

func (d *driver) evalsSoFar() int64 {
	var n int64
	for i := range d.shards {
		d.shards[i].mu.Lock()
		n += d.shards[i].evals
		d.shards[i].mu.Unlock()
	}
	return n
}

// part runs one enumeration part in parallel and prints its counts.
func (d *driver) part(name string, total int64, fn func(worker int, idx int64)) {
	t0 := time.Now()
	if d.only != "" && !strings.Contains(name, d.only) {
		return
	}
	before := d.evalsSoFar()
	complete := engine.ParallelFor(total, d.workers, d.deadline, fn)
	if !complete {
		d.r.Exhaustive = false
		d.r.CapReasons = append(d.r.CapReasons, name+": internal time cap reached before all units were evaluated")
	}
	fmt.Printf("[C09] %-22s units=%d evaluations=%d complete=%v violations=%d (%.1fs)\n", name, total,
		d.evalsSoFar()-before, complete, d.tally.Violations(), time.Since(t0).Seconds())
	d.r.Configs = append(d.r.Configs, map[string]any{"part": name, "units": total,
		"evaluations": d.evalsSoFar() - before, "complete": complete})
}

func evalCase(e func() *env, c Case) Res {
	switch c.Kind {
	case "drbg":
		return evalDRBG(c)
	case "pure":
		return evalPure(c)
	case "vals":
		return evalVals(e(), c)
	case "valtx":
		return evalValTx(e(), c)
	case "members":
		return evalMembers(e(), c)
	case "signing":
		return evalSigning(e(), c)
	case "seed":
		return evalSeed(e(), c)
	case "sighist":
		return evalSigHist(e(), c)
	case "params":
		return evalParams(e(), c)
	case "tssparams":
		return evalTSSParams(e(), c)
	case "hist": // slot / delta / extra are carried in Attempt / ID / HashHex
		extra, _ := strconv.Atoi(c.HashHex)
		return evalHist(e(), c, int(c.Attempt), int64(c.ID), extra)
	}
	panic("unknown case kind " + c.Kind)
}

func run(r *engine.Run) {
	r.Level = "exploration"
	quick := r.Quick()
	if err := refSelfTest(); err != nil {
		engine.Fatal3("%v", err)
	}
	nMem, nSign := 5, 4
	if !quick {
		nMem, nSign = 6, 5
	}
	if quick {
		r.Bound = "QUICK. pure samplers (ChooseOne/ChooseSome/ChooseSomeMaxWeight): every ordered weight vector over {1,2,3,10^6,2^62,2^63} of length 1..4, " +
			"every vector over {1,3,10^6,2^62,2^63} of length 5, 31 hand-chosen vectors with totals at/around 2^64 (n up to 10); cnt 1..n, tries {1,2,3,10}, 3 seeds x 3 ids " +
			"(vectors whose total exceeds 2^64-1: one seed/id). DRBG stream: 3 seeds x 5 nonces x 4 personalizations, 24 draws. " +
			"oracle keeper GetRandomValidators: 4 validators, every state vector {eligible, oracle-inactive, unbonding-in-index, jailed}^4 x every token vector over {3,10^6,1.5*10^6,2^63}^4, " +
			"ask 1..min(eligible+1,5), (tries,seed,id,chain) in 4 combinations; 3 validators over {1,2^63,2^64-1,2^64} x {eligible,inactive}^3. " +
			"MsgRequestData through the router: 3 and 4 validators, all 4^n state vectors, ask 1..n, 2 seeds, request ids {1,2} and {42,43}. " +
			"tss GetRandomMembers: groups of 1..5 members, every state vector {available, inactive, queue-used-up, inactive+no-queue}^n, threshold 1..n, 3 seeds x 3 signing ids x 2 attempts (+1 other chain id). " +
			"RequestSigning + retry (InitiateNewSigningRound): 1..4 members x {1 nonce, 2 nonces, inactive, queue-used-up}^n, threshold 1..n, 2 seeds, signing ids {1, 2^64-1}. " +
			"rolling seed BeginBlocker: 3 seeds x (empty hash + 256 first bytes x 3 hash lengths). parameter corners: {sampling_try_count, max_ask_count, per_validator_request_gas} x {0,1,2,2^64-1} via MsgUpdateParams, then 4 validators x {E,I,U,X}^4 x ask 1..4 x 2 (seed,id) through GetRandomValidators and MsgRequestData; tss {max_signing_attempt, signing_period, max_de_size} x {0,1,2,2^64-1}, then RequestSigning + retry on 1..3 members. signing histories: 3 members, nonce queues {0,1,2,6}^3, threshold {1,2,3}, 2 or 3 signings requested in one block, all expiring together and retried by the real HandleSigningEndBlock in one end block, 2 seeds; requests and retries replayed sequentially by the reference"
	} else {
		r.Bound = "THOROUGH. pure samplers: every ordered weight vector over {1,2,3,10^6,2^62,2^63} of length 1..6 and over {1,2,3,7,10^6,2^62,2^63-1,2^63} of length 1..5, " +
			"31 hand-chosen vectors at/around a total of 2^64; cnt 1..n, tries {1,2,3,10}, 3 seeds x 3 ids. DRBG stream as quick. " +
			"oracle keeper: 4 validators {E,I,U,X}^4 x {1,3,10^6,1.5*10^6,2^62,2^63}^4, tries {1,3,10} x 2 seeds x 2 ids (+ second chain id); 5 validators {E,I,U,X}^5 x {3,10^6,2^63}^5, tries {1,3}; " +
			"6 validators {E,I}^6 x {3,10^6,1.5*10^6,2^62}^6; near-2^64 as quick. MsgRequestData: additionally 4 equal-stake validators and 5 validators {E,I,U}^5. " +
			"tss GetRandomMembers: groups of 1..6 members; RequestSigning + retry: 1..5 members. rolling seed as quick. parameter corners: {sampling_try_count, max_ask_count, per_validator_request_gas} x {0,1,2,2^64-1} via MsgUpdateParams, then 4 validators x {E,I,U,X}^4 x ask 1..4 x 2 (seed,id) through GetRandomValidators and MsgRequestData; tss {max_signing_attempt, signing_period, max_de_size} x {0,1,2,2^64-1}, then RequestSigning + retry on 1..3 members. signing histories: 3 members, nonce queues {0,1,2,6}^3, threshold {1,2,3}, 2 or 3 signings requested in one block, all expiring together and retried by the real HandleSigningEndBlock in one end block, 2 seeds; requests and retries replayed sequentially by the reference"
	}
	r.Rule = "one evaluation = one call of a real function/handler on one enumerated tuple compared with the reference; tuples are enumerated by " +
		"odometer over the stated alphabets (no sampling); an evaluation is non-trivial when the real code returned a committee; " +
		"distinct_nontrivial counts distinct (part, eligible configuration, size, returned committee) combinations"
	r.Assumptions = []string{
		"the reference HMAC_DRBG is written from SP 800-90A and validated against the NIST SHA-512 example vector; SHA-256 is used for the chain",
		"rolling seeds are 32 bytes (three representatives), ids from {1,2,2^64-1}; cryptographic quality of the stream is not examined",
		"order of the eligible validators = staking power index order (consensus power = tokens/10^6 descending, operator address ascending), taken from the staking module's documented index layout",
		"order of the available members = ascending member id (store order)",
		"weights are positive; a total weight above 2^64-1 (or a single validator above it) panics by design (safeAdd / Uint64) inside the transaction: recorded as outcome, not a violation",
		"validator and member states are written directly through the real keepers' setters in a cache context; how those states are reached is the subject of other properties",
		"zero weights are outside the statement (bonded validators have positive tokens)",
		"parameter corners: sampling_try_count, max_ask_count, per_validator_request_gas (oracle) and max_signing_attempt, signing_period, max_de_size (tss) are set to {0,1,2,2^64-1} through the real MsgUpdateParams handler; only ACCEPTED values are followed by selection cases, where an error is allowed but a returned committee must satisfy the statement (equality with the specification only for 1 <= try count <= 1000)",
	}
	r.Required = []string{
		"drbg:ok",
		"pure:one:ok", "pure:some:ok", "pure:max:ok", "pure:max:later-try-won", "pure:max:tie-first-kept", "pure:overflow-panic",
		"vals:ok", "vals:too-few", "vals:overflow-panic", "vals:order-tie-by-address",
		"valtx:ok", "valtx:too-few",
		"members:ok", "members:too-few",
		"signing:attempt1:ok", "signing:attempt2:ok", "signing:attempt1:too-few", "signing:attempt2:too-few",
		"seed:shifted", "seed:unchanged-empty-hash",
		"pure:max:tries-differ-by-2^63-or-more", "tssparams[max_group_size=2]:accepted", "tssparams[max_group_size=2]:signing:attempt1:ok", "tssparams[max_group_size=0]:rejected",
		"sighist:request:ok", "sighist:retry:ok", "sighist:retry:too-few", "sighist:two-or-more-retries-in-one-endblock", "sighist:retry-and-fall-in-one-endblock",
		"params[sampling_try_count=1]:accepted", "params[sampling_try_count=1]:vals:ok", "params[sampling_try_count=2]:valtx:ok",
		"params[max_ask_count=2]:accepted", "tssparams[signing_period=1]:accepted", "tssparams[signing_period=1]:signing:attempt1:ok",
	}
	d := &driver{r: r, tally: engine.NewTally(), deadline: r.Deadline(6*time.Minute, 40*time.Minute), workers: engine.DefaultWorkers()}
	d.envs = make([]*env, d.workers)
	for i := range d.shards {
		d.shards[i].outcomes = map[string]int{}
	}
	d.only = os.Getenv("C09_ONLY") // development aid: run only the parts whose name contains this string
	if d.only != "" {
		r.Required = nil
		r.Exhaustive = false
		r.CapReasons = append(r.CapReasons, "C09_ONLY="+d.only+": partial run")
	}

	// cheap parts first; in the thorough tier the large extensions follow in order of importance, so that an
	// internal time cap (exhaustive:false) still leaves at least the quick coverage complete
	d.runDRBG()
	d.runPureBase()
	d.runSeed()
	d.runMembers(nMem)
	d.runSigning(nSign)
	d.runSigHist()
	d.runValTx(quick)
	d.runHist()
	d.runValsNear()
	d.runParams()
	d.runTSSParams()
	if quick {
		d.pureUnits("pure:n=5:reduced-alphabet", vectors([]uint64{1, 3, 1_000_000, w62, w63}, 5))
		d.runValsQuick()
	} else {
		d.pureUnits("pure:n=5", vectors(pureAlphabet, 5))
		d.runVals4Thorough()
		d.pureUnits("pure:n=6", vectors(pureAlphabet, 6))
		var wide [][]uint64
		for n := 1; n <= 5; n++ {
			wide = append(wide, vectors(pureAlphabetWide, n)...)
		}
		d.pureUnits("pure:wide-alphabet:n<=5", wide)
		d.runVals5()
		d.runVals6()
	}

	d.tally.MergeInto(r)
	for i := range d.shards {
		r.Evaluations += int(d.shards[i].evals)
		r.Traces += int(d.shards[i].evals)
		for k, v := range d.shards[i].outcomes {
			r.Outcomes[k] += v
		}
	}
	r.Distinct += int(atomic.LoadInt64(&d.distinct))
	// confirm: every distinct fingerprint must reproduce twice on a fresh environment
	seen := map[string]bool{}
	var fresh *env
	mk := func() *env {
		if fresh == nil {
			fresh = newEnv()
		}
		return fresh
	}
	for _, v := range r.Violations {
		if seen[v.Fingerprint] || len(seen) >= 8 {
			continue
		}
		seen[v.Fingerprint] = true
		fmt.Printf("[C09] confirming %s: %s\n     case %s\n", v.Fingerprint, v.Detail, v.Config.(Case))
		for k := 0; k < 2; k++ {
			res := evalCase(mk, v.Config.(Case))
			found := false
			for _, x := range res.Viol {
				if x.Fingerprint == v.Fingerprint {
					found = true
				}
			}
			if !found {
				engine.Fatal3("HARNESS-NONDETERMINISM: violation %q of case %s did not reproduce on re-evaluation %d", v.Fingerprint, v.Config.(Case), k+1)
			}
		}
	}
}

func init() {
	engine.Register(&engine.Check{
		ID:  "C09",
		Run: run,
		Replay: func(raw json.RawMessage, path []string) (engine.StepResult, []string) {
			var c Case
			if err := json.Unmarshal(raw, &c); err != nil {
				panic(err)
			}
			var e *env
			res := evalCase(func() *env {
				if e == nil {
					e = newEnv()
				}
				return e
			}, c)
			var sr engine.StepResult
			sr.Violations = res.Viol
			return sr, []string{strings.Join(res.Outcomes, ",") + " " + res.Key}
		},
	})
}

func (d *driver) addDistinct(n int) { atomic.AddInt64(&d.distinct, int64(n)) }
