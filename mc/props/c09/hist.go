package c09

import (
	"fmt"
	"math/big"

	"cosmossdk.io/math"

	sdk "github.com/cosmos/cosmos-sdk/types"

	oracletypes "github.com/bandprotocol/chain/v3/x/oracle/types"

	"github.com/bandprotocol/chain/v3/pkg/obi"
	bandtesting "github.com/bandprotocol/chain/v3/testing"
	"github.com/bandprotocol/chain/v3/testing/testdata"
	"github.com/bandprotocol/chain/v3/zzverif/engine"
)

// History part (added after a seeded change showed the gap): the committee must be a function of the eligible
// set *at that moment* — several requests in one block with the eligible set changing in between through paths
// that do not touch the oracle validator status (a delegation changes a validator's tokens), and a branch that
// activates a validator and requests, and is then discarded (failed tx / simulation), must not influence later
// requests of the same block.

func (e *env) bumpTokens(ctx sdk.Context, slot int, delta int64) {
	sk := e.w.App.StakingKeeper
	v, err := sk.GetValidator(ctx, e.slots[slot].addr)
	if err != nil {
		panic(err)
	}
	if err := sk.DeleteValidatorByPowerIndex(ctx, v); err != nil {
		panic(err)
	}
	v.Tokens = v.Tokens.Add(math.NewInt(delta))
	if err := sk.SetValidator(ctx, v); err != nil {
		panic(err)
	}
	if err := sk.SetValidatorByPowerIndex(ctx, v); err != nil {
		panic(err)
	}
}

func (e *env) requestOnce(ctx sdk.Context, c Case, id uint64, el eligible, res *Res, label string) {
	msg := oracletypes.NewMsgRequestData(4, obi.MustEncode(testdata.Wasm4Input{IDs: []int64{1}, Calldata: "x"}), uint64(c.Cnt), 1,
		"c09h", bandtesting.Coins100000000uband, bandtesting.TestDefaultPrepareGas, bandtesting.TestDefaultExecuteGas,
		bandtesting.FeePayer.Address, oracletypes.ENCODER_UNSPECIFIED)
	tx := e.w.Tx(ctx, 0, msg)
	var got []string
	failed, failure := !tx.OK(), tx.ErrName()
	if !failed {
		req, err := e.w.App.OracleKeeper.GetRequest(ctx, oracletypes.RequestID(e.w.App.OracleKeeper.GetRequestCount(ctx)))
		if err != nil {
			res.violate("hist-request-missing", "%s: %v", label, err)
			return
		}
		got = req.RequestedValidators
	}
	var sub Res
	judgeCommittee(&sub, "hist:"+label, el, c, id, got, failed, failure)
	res.Viol = append(res.Viol, sub.Viol...)
	res.Outcomes = append(res.Outcomes, "hist:"+label)
	res.Key += sub.Key + ";"
}

func evalHist(e *env, c Case, bumpSlot int, delta int64, extra int) (res Res) {
	tokens := parseTokens(c.Tokens)
	ctx := engine.Fork(e.valBase)
	e.applyVals(ctx, tokens, c.Flags)
	ctx = e.prepVals(ctx, c)
	e.w.App.OracleKeeper.SetRequestCount(ctx, c.PrevCount)
	// 1. first request of the block
	e.requestOnce(ctx, c, c.PrevCount+1, e.refEligible(tokens, c.Flags), &res, "first")
	n1 := e.w.App.OracleKeeper.GetRequestCount(ctx)
	// 2. a discarded branch: an inactive validator activates and a request is made, then everything is thrown away
	if extra >= 0 {
		br := engine.Fork(ctx)
		if r := e.w.Tx(br, 0, oracletypes.NewMsgActivate(e.slots[extra].addr)); r.OK() {
			fl := []byte(c.Flags)
			fl[extra] = 'E'
			c2 := c
			c2.Flags = string(fl)
			e.requestOnce(br, c2, n1+1, e.refEligible(tokens, c2.Flags), &res, "in-discarded-branch")
		}
	}
	// 3. a delegation-like token change (no oracle status write), then the next request of the same block
	tokens2 := make([]*big.Int, len(tokens))
	for i := range tokens {
		tokens2[i] = new(big.Int).Set(tokens[i])
	}
	if bumpSlot >= 0 {
		e.bumpTokens(ctx, bumpSlot, delta)
		tokens2[bumpSlot].Add(tokens2[bumpSlot], big.NewInt(delta))
	}
	c3 := c
	c3.Tokens = nil
	for _, t := range tokens2 {
		c3.Tokens = append(c3.Tokens, t.String())
	}
	e.requestOnce(ctx, c3, n1+1, e.refEligible(tokens2, c.Flags), &res, "after-token-change")
	return res
}

func (d *driver) runHist() {
	type hc struct {
		c     Case
		slot  int
		delta int64
		extra int
	}
	var cases []hc
	toks := [][]string{{"3000000", "2000000", "1000000", "1000000"}, {"100000000", "1000000", "99999999", "5000000"}}
	for _, tk := range toks {
		for _, fl := range []string{"EEEI", "EEIE", "EIEE", "EEEE", "EIIE"} {
			for ask := 1; ask <= 4; ask++ {
				for _, s := range seeds[:2] {
					for slot := 0; slot < 4; slot++ {
						for _, delta := range []int64{7_000_000, 250_000_000} {
							extra := -1
							for i, f := range fl {
								if f == 'I' {
									extra = i
								}
							}
							cases = append(cases, hc{Case{Kind: "hist", Tokens: tk, Flags: fl, Cnt: ask, Tries: 3, Seed: s, ChainID: engine.ChainID, PrevCount: 7,
								Attempt: uint64(slot), ID: uint64(delta), HashHex: fmt.Sprint(extra)}, slot, delta, extra})
						}
					}
				}
			}
		}
	}
	d.part("hist:several-requests-in-one-block", int64(len(cases)), func(worker int, idx int64) {
		h := cases[idx]
		res := evalHist(d.env(worker), h.c, h.slot, h.delta, h.extra)
		d.record(h.c, res)
		d.tally.Nontrivial(fmt.Sprintf("hist|%s|%v|%d|%d|%d|%s", h.c.Flags, h.c.Tokens, h.c.Cnt, h.slot, h.delta, res.Key))
	})
}
