package c09

import (
	"fmt"
	"strings"

	sdk "github.com/cosmos/cosmos-sdk/types"

	"github.com/bandprotocol/chain/v3/pkg/obi"
	bandtesting "github.com/bandprotocol/chain/v3/testing"
	"github.com/bandprotocol/chain/v3/testing/testdata"
	oracletypes "github.com/bandprotocol/chain/v3/x/oracle/types"
	tsstypes "github.com/bandprotocol/chain/v3/x/tss/types"
	"github.com/bandprotocol/chain/v3/zzverif/engine"
)

// ---- corner values of the parameters that take part in committee selection --------------------------------------
//
// Every (parameter, value) pair is submitted through the real MsgUpdateParams handler with the module's authority.
// A rejected update is only counted.  After an ACCEPTED update the selection cases are run and the statement's
// committee properties are required: exactly ask_count / threshold distinct eligible participants, equal to the
// sampling specification where the specification is defined for the parameter value (try count >= 1), or an error.

var cornerValues = []uint64{0, 1, 2, ^uint64(0)}

var oracleSelectionParams = []string{"sampling_try_count", "max_ask_count", "per_validator_request_gas"}

var tssSelectionParams = []string{"max_signing_attempt", "signing_period", "max_de_size"}

func valueName(v uint64) string {
	if v == ^uint64(0) {
		return "2^64-1"
	}
	return fmt.Sprint(v)
}

func paramTag(c Case) string { return fmt.Sprintf("params[%s=%s]", c.Param, valueName(c.Value)) }

func evalParams(e *env, c Case) (res Res) {
	tag := paramTag(c)
	tokens := parseTokens(c.Tokens)
	ctx := engine.Fork(e.valBase)
	e.applyVals(ctx, tokens, c.Flags)
	el := e.refEligible(tokens, c.Flags)
	e.w.App.RollingseedKeeper.SetRollingSeed(ctx, mustHex(c.Seed))
	ctx = ctx.WithChainID(c.ChainID)
	ok := e.w.App.OracleKeeper
	p := ok.GetParams(ctx)
	switch c.Param {
	case "sampling_try_count":
		p.SamplingTryCount = c.Value
	case "max_ask_count":
		p.MaxAskCount = c.Value
	case "per_validator_request_gas":
		p.PerValidatorRequestGas = c.Value
	default:
		panic("param " + c.Param)
	}
	tx := e.w.Tx(ctx, 0, oracletypes.NewMsgUpdateParams(ok.GetAuthority(), p))
	if !tx.OK() {
		res.saw(tag + ":rejected")
		return
	}
	res.saw(tag + ":accepted")
	now := ok.GetParams(ctx)
	if now.SamplingTryCount != p.SamplingTryCount || now.MaxAskCount != p.MaxAskCount || now.PerValidatorRequestGas != p.PerValidatorRequestGas {
		res.violate(tag+"-accepted-update-not-stored", "stored params %v differ from the accepted update %v", now, p)
		return
	}
	// the specification's number of tries is what the chain's parameter says; it defines a sampling only for a
	// positive count (values that are not a small positive integer are not replayed by the reference)
	c.Tries = 0
	if now.SamplingTryCount >= 1 && now.SamplingTryCount <= 1000 {
		c.Tries = int(now.SamplingTryCount)
	}
	// (a) the keeper function
	got, err, pan := e.callVals(ctx, c)
	failed, failure := failureOf(err, pan)
	var sub Res
	judgeCommittee(&sub, tag+":vals", el, c, c.ID, got, failed, failure)
	res.Viol = append(res.Viol, sub.Viol...)
	res.Outcomes = append(res.Outcomes, sub.Outcomes...)
	res.Key = sub.Key
	// (b) a real request: Request.RequestedValidators
	prev := ok.GetRequestCount(ctx)
	msg := oracletypes.NewMsgRequestData(4, obi.MustEncode(testdata.Wasm4Input{IDs: []int64{1}, Calldata: "x"}), uint64(c.Cnt), 1,
		"c09", bandtesting.Coins100000000uband, bandtesting.TestDefaultPrepareGas, bandtesting.TestDefaultExecuteGas,
		bandtesting.FeePayer.Address, oracletypes.ENCODER_UNSPECIFIED)
	rtx := e.w.Tx(ctx, 0, msg)
	failed, failure = !rtx.OK(), rtx.ErrName()
	got = nil
	sub = Res{}
	if !failed {
		req, err := ok.GetRequest(ctx, oracletypes.RequestID(prev+1))
		if err != nil {
			res.violate(tag+":valtx-request-missing", "request %d not stored: %v", prev+1, err)
			return
		}
		got = req.RequestedValidators
	}
	judgeCommittee(&sub, tag+":valtx", el, c, prev+1, got, failed, failure)
	res.Viol = append(res.Viol, sub.Viol...)
	res.Outcomes = append(res.Outcomes, sub.Outcomes...)
	res.Key += ";" + sub.Key
	// one root cause (an accepted parameter value that breaks selection) = one fingerprint per (parameter, value);
	// the failing clause goes into the detail
	for i, v := range res.Viol {
		res.Viol[i] = engine.Violation{Fingerprint: tag + ":accepted-value-yields-invalid-committee",
			Detail: fmt.Sprintf("MsgUpdateParams with %s=%s was accepted; afterwards %s: %s", c.Param, valueName(c.Value), strings.TrimPrefix(v.Fingerprint, tag+":"), v.Detail)}
	}
	return
}

func (d *driver) runParams() {
	var cases []Case
	toks := []string{"1500000", "1000000", "3", "99999999"}
	for _, pn := range oracleSelectionParams {
		for _, v := range cornerValues {
			for _, fl := range flagVectors(valFlags, 4) {
				for ask := 1; ask <= 4; ask++ {
					for si, s := range seeds[:2] {
						cases = append(cases, Case{Kind: "params", Param: pn, Value: v, Tokens: toks, Flags: fl, Cnt: ask, Seed: s,
							ID: []uint64{1, ^uint64(0)}[si], ChainID: engine.ChainID})
					}
				}
			}
		}
	}
	d.part("params:oracle-corners", int64(len(cases)), func(worker int, idx int64) {
		c := cases[idx]
		res := evalParams(d.env(worker), c)
		d.record(c, res)
		if strings.Contains(res.Key, ",") {
			d.tally.Nontrivial(fmt.Sprintf("params|%s|%d|%s|%d|%s", c.Param, c.Value, c.Flags, c.Cnt, res.Key))
		}
		if idx%1531 == 17 {
			d.tally.Sample(60, map[string]any{"case": c, "outcomes": res.Outcomes, "committees": res.Key})
		}
	})
}

// ---- tss parameters on the signing path ----------------------------------------------------------------------------

func evalTSSParams(e *env, c Case) Res {
	tag := fmt.Sprintf("tssparams[%s=%s]", c.Param, valueName(c.Value))
	return evalSigningPre(e, c, tag+":", func(ctx sdk.Context, res *Res) bool {
		k := e.w.App.TSSKeeper
		p := k.GetParams(ctx)
		switch c.Param {
		case "max_signing_attempt":
			p.MaxSigningAttempt = c.Value
		case "signing_period":
			p.SigningPeriod = c.Value
		case "max_de_size":
			p.MaxDESize = c.Value
		case "max_group_size":
			p.MaxGroupSize = c.Value
		default:
			panic("tss param " + c.Param)
		}
		tx := e.w.Tx(ctx, 0, tsstypes.NewMsgUpdateParams(k.GetAuthority(), p))
		if !tx.OK() {
			res.saw(tag + ":rejected")
			return false
		}
		res.saw(tag + ":accepted")
		return true
	})
}

func (d *driver) runTSSParams() {
	var cases []Case
	for _, pn := range tssSelectionParams {
		for _, v := range cornerValues {
			for n := 1; n <= 3; n++ {
				for _, fl := range flagVectors([]byte{'a', 'A', 'I', 'N'}, n) {
					for t := 1; t <= n; t++ {
						cases = append(cases, Case{Kind: "tssparams", Param: pn, Value: v, Flags: fl, Cnt: t, Seed: seeds[1], ChainID: engine.ChainID})
					}
				}
			}
		}
	}
	// max_group_size is enforced at group creation only: lowering it afterwards must not change which members of an
	// EXISTING larger group are eligible.  5-member groups, the limit lowered to every value below / at / above the
	// group size after the group exists; errors are NOT tolerated here when enough members are available.
	for _, v := range []uint64{0, 1, 2, 3, 4, 5, ^uint64(0)} {
		for _, fl := range flagVectors([]byte{'a', 'A', 'I', 'N'}, 5) {
			for _, t := range []int{3, 2} {
				cases = append(cases, Case{Kind: "tssparams", Param: "max_group_size", Value: v, Flags: fl, Cnt: t, Seed: seeds[1], ChainID: engine.ChainID})
			}
		}
	}
	d.part("params:tss-corners", int64(len(cases)), func(worker int, idx int64) {
		c := cases[idx]
		res := evalTSSParams(d.env(worker), c)
		d.record(c, res)
		if strings.Contains(res.Key, "[") {
			d.tally.Nontrivial(fmt.Sprintf("tssparams|%s|%d|%s|%d|%s", c.Param, c.Value, c.Flags, c.Cnt, res.Key))
		}
	})
}
