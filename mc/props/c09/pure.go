package c09

import (
	"fmt"
	"math/big"
	"sync/atomic"

	"github.com/bandprotocol/chain/v3/pkg/bandrng"
	"github.com/bandprotocol/chain/v3/zzverif/engine"
)

// ---- DRBG stream ----------------------------------------------------------------------------------------------

const drbgDraws = 24

func evalDRBG(c Case) (res Res) {
	seed, nonce, pers := mustHex(c.Seed), mustHex(c.Nonce), []byte(c.ChainID)
	ref := newRefRng(seed, nonce, pers)
	var got [2][]uint64
	for k := 0; k < 2; k++ {
		func() {
			defer func() {
				if r := recover(); r != nil {
					res.violate("drbg-panic", "NewRng/NextUint64 panicked: %v", r)
				}
			}()
			rng, err := bandrng.NewRng(seed, nonce, pers)
			if err != nil {
				res.violate("drbg-init-error:32-byte-seed", "NewRng failed on a 32-byte seed: %v", err)
				return
			}
			for i := 0; i < drbgDraws; i++ {
				got[k] = append(got[k], rng.NextUint64())
			}
		}()
	}
	if len(res.Viol) > 0 {
		return
	}
	for i := 0; i < drbgDraws; i++ {
		want := ref.u64()
		if got[0][i] != want {
			res.violate("drbg-stream-differs-from-sp800-90a", "draw %d: real %d, reference %d", i, got[0][i], want)
			return
		}
	}
	if !u64sEq(got[0], got[1]) {
		res.violate("drbg-not-repeatable", "two generators with identical inputs produced different streams")
		return
	}
	res.saw("drbg:ok")
	return
}

func (d *driver) runDRBG() {
	nonces := []string{"", "00", "0000000000000001", "ffffffffffffffff", "00000000000000010000000000000002"}
	chains := []string{"", "bandchain", "laozi-mainnet", "band-laozi-testnet6-with-a-rather-long-chain-identifier-0123456789"}
	var cases []Case
	for _, s := range seeds {
		for _, n := range nonces {
			for _, ch := range chains {
				cases = append(cases, Case{Kind: "drbg", Seed: s, Nonce: n, ChainID: ch})
			}
		}
	}
	d.part("drbg-stream", int64(len(cases)), func(_ int, idx int64) {
		c := cases[idx]
		res := evalDRBG(c)
		d.record(c, res)
		if idx < 2 {
			d.tally.Sample(40, map[string]any{"case": c, "outcomes": res.Outcomes})
		}
	})
}

// ---- pure samplers --------------------------------------------------------------------------------------------

// realPure calls the real sampler on a private copy of the weights.
func realPure(fn string, seed, nonce, pers []byte, ws []uint64, cnt, tries int) (out []int, pan string, mutated bool, initErr error) {
	in := append([]uint64(nil), ws...)
	defer func() {
		if r := recover(); r != nil {
			pan = fmt.Sprint(r)
		}
		mutated = !u64sEq(in, ws)
	}()
	rng, err := bandrng.NewRng(seed, nonce, pers)
	if err != nil {
		return nil, "", false, err
	}
	switch fn {
	case "one":
		out = []int{bandrng.ChooseOne(rng, in)}
	case "some":
		out = bandrng.ChooseSome(rng, in, cnt)
	case "max":
		out = bandrng.ChooseSomeMaxWeight(rng, in, cnt, tries)
	default:
		panic("fn " + fn)
	}
	return
}

var fnName = map[string]string{"one": "ChooseOne", "some": "ChooseSome", "max": "ChooseSomeMaxWeight"}

func evalPure(c Case) (res Res) {
	seed, nonce, pers := mustHex(c.Seed), be8(c.ID), []byte(c.ChainID)
	ws := c.Weights
	ref := newRefRng(seed, nonce, pers)
	var want []int
	var ok, tie bool
	winner := 0
	switch c.Fn {
	case "one":
		var i int
		i, ok = refChooseOne(ref, ws)
		want = []int{i}
	case "some":
		want, ok = refChooseSome(ref, ws, c.Cnt)
	case "max":
		want, winner, tie, ok = refChooseSomeMaxWeight(ref, ws, c.Cnt, c.Tries)
	}
	got, pan, mutated, initErr := realPure(c.Fn, seed, nonce, pers, ws, c.Cnt, c.Tries)
	if initErr != nil {
		res.violate("drbg-init-error:32-byte-seed", "NewRng failed: %v", initErr)
		return
	}
	if !ok {
		// total weight is not representable: the specification's "draw mod total" cannot be computed in 64 bits
		if pan == "" {
			res.violate("overflowing-total-not-rejected:"+fnName[c.Fn], "weights %s sum above 2^64-1 but %s returned %v", fmtU64s(ws), fnName[c.Fn], got)
			return
		}
		res.saw("pure:overflow-panic")
		return
	}
	if pan != "" {
		res.violate("sampler-panic-on-valid-input:"+fnName[c.Fn], "weights %s cnt %d tries %d: panic %q", fmtU64s(ws), c.Cnt, c.Tries, pan)
		return
	}
	n := c.Cnt
	if c.Fn == "one" {
		n = 1
	}
	if len(got) != n {
		res.violate("committee-size:"+fnName[c.Fn], "asked %d, got %d: %v (weights %s tries %d)", n, len(got), got, fmtU64s(ws), c.Tries)
	}
	if !distinctInts(got) {
		res.violate("committee-duplicate:"+fnName[c.Fn], "returned %v (weights %s cnt %d tries %d)", got, fmtU64s(ws), c.Cnt, c.Tries)
	}
	for _, i := range got {
		if i < 0 || i >= len(ws) {
			res.violate("committee-index-out-of-range:"+fnName[c.Fn], "returned %v for %d weights", got, len(ws))
			break
		}
	}
	if !intsEq(got, want) {
		res.violate("committee-differs-from-spec:"+fnName[c.Fn], "weights %s cnt %d tries %d seed %s id %d: real %v, specification %v",
			fmtU64s(ws), c.Cnt, c.Tries, c.Seed[:8], c.ID, got, want)
	}
	if mutated {
		res.violate("sampler-mutates-caller-weights:"+fnName[c.Fn], "weights %s were modified by the call (cnt %d tries %d)", fmtU64s(ws), c.Cnt, c.Tries)
	}
	if c.Tries <= 2 {
		again, pan2, _, _ := realPure(c.Fn, seed, nonce, pers, ws, c.Cnt, c.Tries)
		if pan2 != "" || !intsEq(again, got) {
			res.violate("not-repeatable:"+fnName[c.Fn], "second call with identical inputs returned %v (panic %q), first %v", again, pan2, got)
		}
	}
	if len(res.Viol) > 0 {
		return
	}
	res.saw("pure:" + c.Fn + ":ok")
	if c.Fn == "max" {
		if winner > 0 {
			res.saw("pure:max:later-try-won")
		}
		if tie {
			res.saw("pure:max:tie-first-kept")
		}
		if total, _ := refTotal(ws); total.BitLen() >= 64 && c.Tries >= 2 {
			// vacuity label: two tries of this evaluation differ in total weight by 2^63 or more
			d2 := newRefRng(seed, nonce, pers)
			var lo, hi *big.Int
			for t := 0; t < c.Tries; t++ {
				cand, _ := refChooseSome(d2, ws, c.Cnt)
				sum := new(big.Int)
				for _, i := range cand {
					sum.Add(sum, bigU(ws[i]))
				}
				if lo == nil || sum.Cmp(lo) < 0 {
					lo = sum
				}
				if hi == nil || sum.Cmp(hi) > 0 {
					hi = sum
				}
			}
			if new(big.Int).Sub(hi, lo).BitLen() >= 64 {
				res.saw("pure:max:tries-differ-by-2^63-or-more")
			}
		}
	}
	res.Key = fmt.Sprint(got)
	return
}

type pureUnit struct {
	ws  []uint64
	cnt int
}

func vectors(alpha []uint64, n int) [][]uint64 {
	od := engine.Odometer{Sizes: make([]int, n)}
	for i := range od.Sizes {
		od.Sizes[i] = len(alpha)
	}
	var out [][]uint64
	var dg []int
	for i := int64(0); i < od.Total(); i++ {
		dg = od.Digits(i, dg)
		v := make([]uint64, n)
		for k, x := range dg {
			v[k] = alpha[x]
		}
		out = append(out, v)
	}
	return out
}

func (d *driver) pureUnits(name string, vecs [][]uint64) {
	var units []pureUnit
	for _, v := range vecs {
		for cnt := 1; cnt <= len(v); cnt++ {
			units = append(units, pureUnit{v, cnt})
		}
	}
	d.part(name, int64(len(units)), func(_ int, idx int64) {
		u := units[idx]
		keys := map[string]struct{}{}
		_, fits := refTotal(u.ws)
		for si, s := range seeds {
			for ii, id := range ids {
				if !fits && (si > 0 || ii > 0) {
					continue // an unrepresentable total is rejected before the first draw: one (seed, id) pair suffices
				}
				var cases []Case
				if u.cnt == 1 {
					cases = append(cases, Case{Kind: "pure", Fn: "one", Weights: u.ws, Cnt: 1, Seed: s, ID: id, ChainID: engine.ChainID})
				}
				cases = append(cases, Case{Kind: "pure", Fn: "some", Weights: u.ws, Cnt: u.cnt, Seed: s, ID: id, ChainID: engine.ChainID})
				for _, tr := range triesAlphabet {
					cases = append(cases, Case{Kind: "pure", Fn: "max", Weights: u.ws, Cnt: u.cnt, Tries: tr, Seed: s, ID: id, ChainID: engine.ChainID})
				}
				for _, c := range cases {
					res := evalPure(c)
					d.record(c, res)
					if res.Key != "" && len(u.ws) >= 2 {
						keys[res.Key] = struct{}{}
					}
					if idx%9973 == 7 && c.Fn == "max" && c.Tries == 3 && id == 1 {
						d.tally.Sample(40, map[string]any{"case": c, "outcomes": res.Outcomes, "committee": res.Key})
					}
				}
			}
		}
		atomic.AddInt64(&d.distinct, int64(len(keys)))
	})
}

// runPureBase: lengths 1..4 over the full alphabet and the hand-chosen vectors (both tiers).
func (d *driver) runPureBase() {
	var vecs [][]uint64
	for n := 1; n <= 4; n++ {
		vecs = append(vecs, vectors(pureAlphabet, n)...)
	}
	d.pureUnits("pure:n<=4", vecs)
	d.pureUnits("pure:extras-near-2^64", pureExtras)
}
