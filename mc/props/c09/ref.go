package c09

import (
	"bytes"
	"crypto/hmac"
	"crypto/sha256"
	"crypto/sha512"
	"encoding/binary"
	"encoding/hex"
	"fmt"
	"hash"
	"math/big"
	"sort"
	"strings"
)

// ---- reference HMAC_DRBG (NIST SP 800-90A Rev.1, section 10.1.2), written from the standard -------------------
//
//	Instantiate: K = 00..00, V = 01..01 (outlen bytes), (K,V) = Update(entropy || nonce || personalization)
//	Update(data): K = HMAC(K, V || 00 || data); V = HMAC(K, V);
//	              if data != "": K = HMAC(K, V || 01 || data); V = HMAC(K, V)
//	Generate(n) (no additional input): repeat V = HMAC(K, V), output V, until n bytes; then (K,V) = Update("")
//
// The sampling specification draws one big-endian uint64 per Generate(8) call.

type refDRBG struct {
	h    func() hash.Hash
	k, v []byte
}

func (d *refDRBG) mac(key []byte, parts ...[]byte) []byte {
	m := hmac.New(d.h, key)
	for _, p := range parts {
		m.Write(p)
	}
	return m.Sum(nil)
}

func (d *refDRBG) update(data []byte) {
	d.k = d.mac(d.k, d.v, []byte{0x00}, data)
	d.v = d.mac(d.k, d.v)
	if len(data) == 0 {
		return
	}
	d.k = d.mac(d.k, d.v, []byte{0x01}, data)
	d.v = d.mac(d.k, d.v)
}

func newRefDRBG(h func() hash.Hash, entropy, nonce, pers []byte) *refDRBG {
	n := h().Size()
	d := &refDRBG{h: h, k: make([]byte, n), v: bytes.Repeat([]byte{0x01}, n)}
	var seed []byte
	seed = append(seed, entropy...)
	seed = append(seed, nonce...)
	seed = append(seed, pers...)
	d.update(seed)
	return d
}

func (d *refDRBG) generate(n int) []byte {
	var out []byte
	for len(out) < n {
		d.v = d.mac(d.k, d.v)
		out = append(out, d.v...)
	}
	out = out[:n:n]
	d.update(nil)
	return out
}

// u64 is one draw of the sampling specification.
func (d *refDRBG) u64() uint64 { return binary.BigEndian.Uint64(d.generate(8)) }

func newRefRng(seed, nonce, chainID []byte) *refDRBG {
	return newRefDRBG(sha256.New, seed, nonce, chainID)
}

// refSelfTest checks the reference against the NIST example vector (SHA-512).
func refSelfTest() error {
	dec := func(s string) []byte {
		b, err := hex.DecodeString(s)
		if err != nil {
			panic(err)
		}
		return b
	}
	d := newRefDRBG(sha512.New, dec(katEntropy), dec(katNonce), nil)
	if !bytes.Equal(d.k, dec(katK)) || !bytes.Equal(d.v, dec(katV)) {
		return fmt.Errorf("reference HMAC_DRBG: instantiate does not reproduce the NIST example (K/V)")
	}
	if o := d.generate(128); !bytes.Equal(o, dec(katOut1)) {
		return fmt.Errorf("reference HMAC_DRBG: first generate does not reproduce the NIST example")
	}
	if o := d.generate(128); !bytes.Equal(o, dec(katOut2)) {
		return fmt.Errorf("reference HMAC_DRBG: second generate does not reproduce the NIST example")
	}
	return nil
}

// ---- reference samplers (big-integer arithmetic) --------------------------------------------------------------

var maxU64 = new(big.Int).SetUint64(^uint64(0))

func bigU(x uint64) *big.Int { return new(big.Int).SetUint64(x) }

// refTotal returns the exact total weight and whether it is representable in 64 bits.
func refTotal(ws []uint64) (*big.Int, bool) {
	t := new(big.Int)
	for _, w := range ws {
		t.Add(t, bigU(w))
	}
	return t, t.Cmp(maxU64) <= 0
}

// refChooseOne: lucky = draw mod total; the pick is the first index whose cumulative weight exceeds lucky.
// ok=false: the total is not a positive 64-bit number (outside the specification).
func refChooseOne(d *refDRBG, ws []uint64) (int, bool) {
	total, fits := refTotal(ws)
	if !fits || total.Sign() == 0 {
		return -1, false
	}
	lucky := new(big.Int).Mod(bigU(d.u64()), total)
	cum := new(big.Int)
	for i, w := range ws {
		cum.Add(cum, bigU(w))
		if cum.Cmp(lucky) > 0 {
			return i, true
		}
	}
	panic("reference: unreachable")
}

// refChooseSome: cnt picks without replacement; the pool keeps its order when an element is removed.
func refChooseSome(d *refDRBG, ws []uint64, cnt int) ([]int, bool) {
	type item struct {
		idx int
		w   uint64
	}
	var pool []item
	for i, w := range ws {
		pool = append(pool, item{i, w})
	}
	var out []int
	for r := 0; r < cnt; r++ {
		cur := make([]uint64, len(pool))
		for i, it := range pool {
			cur[i] = it.w
		}
		p, ok := refChooseOne(d, cur)
		if !ok {
			return nil, false
		}
		out = append(out, pool[p].idx)
		var next []item
		for i, it := range pool {
			if i != p {
				next = append(next, it)
			}
		}
		pool = next
	}
	return out, true
}

// refChooseSomeMaxWeight: `tries` independent samplings from the same stream, the one with the largest
// total weight wins, the earliest among equals.  winner is the index of the winning try; tie reports that a
// later try reached the same total as the best so far with a different sequence (and was, correctly, not taken).
func refChooseSomeMaxWeight(d *refDRBG, ws []uint64, cnt, tries int) (best []int, winner int, tie bool, ok bool) {
	var bestSum *big.Int
	for t := 0; t < tries; t++ {
		cand, ok := refChooseSome(d, ws, cnt)
		if !ok {
			return nil, 0, false, false
		}
		sum := new(big.Int)
		for _, i := range cand {
			sum.Add(sum, bigU(ws[i]))
		}
		switch {
		case bestSum == nil || sum.Cmp(bestSum) > 0:
			best, bestSum, winner = cand, sum, t
		case sum.Cmp(bestSum) == 0 && !intsEq(cand, best):
			tie = true
		}
	}
	return best, winner, tie, true
}

// refSigners: partial Fisher-Yates over the available members listed in ascending member-id order:
// for i = 0..t-1: r = draw mod (m-i); take slot r; move the last live slot (m-i-1) into slot r.
// The committee is reported in ascending member-id order.  ids must be ascending.
func refSigners(d *refDRBG, ids []uint64, t int) []uint64 {
	slots := append([]uint64(nil), ids...)
	m := len(slots)
	var out []uint64
	for i := 0; i < t; i++ {
		r := int(d.u64() % uint64(m-i))
		out = append(out, slots[r])
		slots[r] = slots[m-i-1]
	}
	sort.Slice(out, func(a, b int) bool { return out[a] < out[b] })
	return out
}

// ---- small helpers --------------------------------------------------------------------------------------------

func be8(x uint64) []byte {
	var b [8]byte
	binary.BigEndian.PutUint64(b[:], x)
	return b[:]
}

func distinctInts(xs []int) bool {
	seen := map[int]bool{}
	for _, x := range xs {
		if seen[x] {
			return false
		}
		seen[x] = true
	}
	return true
}

func intsEq(a, b []int) bool {
	if len(a) != len(b) {
		return false
	}
	for i := range a {
		if a[i] != b[i] {
			return false
		}
	}
	return true
}

func strsEq(a, b []string) bool {
	if len(a) != len(b) {
		return false
	}
	for i := range a {
		if a[i] != b[i] {
			return false
		}
	}
	return true
}

func u64sEq(a, b []uint64) bool {
	if len(a) != len(b) {
		return false
	}
	for i := range a {
		if a[i] != b[i] {
			return false
		}
	}
	return true
}

func distinctStrs(xs []string) bool {
	seen := map[string]bool{}
	for _, x := range xs {
		if seen[x] {
			return false
		}
		seen[x] = true
	}
	return true
}

func fmtU64s(xs []uint64) string {
	var p []string
	for _, x := range xs {
		p = append(p, fmt.Sprintf("%d", x))
	}
	return "[" + strings.Join(p, ",") + "]"
}
