package c09

import (
	"fmt"

	sdk "github.com/cosmos/cosmos-sdk/types"

	"github.com/bandprotocol/chain/v3/pkg/tss"
	bandtesting "github.com/bandprotocol/chain/v3/testing"
	tsstypes "github.com/bandprotocol/chain/v3/x/tss/types"
	"github.com/bandprotocol/chain/v3/zzverif/engine"
)

// Signing histories: several signings are requested in ONE block on a small group, nobody signs, they all expire in
// the same later block and are retried by the real HandleSigningEndBlock in that one end block.  The reference replays
// the requests and then the retries SEQUENTIALLY (expiration order = request order): a member is eligible for a
// selection iff it is active and has a queued nonce AT THAT MOMENT, i.e. after every earlier selection of the history
// (also the earlier retries of the same end block) has consumed its nonces.
//
// Case: Flags = queued nonces per member as decimal digits ("160" = member 1: 1, member 2: 6, member 3: none),
// Cnt = threshold, Tries = number of signings requested in the block, Seed = rolling seed at request time (the
// end block runs with the next seed of the alphabet).

func (e *env) applyQueues(ctx sdk.Context, queues []int, threshold int) {
	k := e.w.App.TSSKeeper
	n := len(queues)
	k.SetGroup(ctx, tsstypes.NewGroup(1, uint64(n), uint64(threshold), e.pub, tsstypes.GROUP_STATUS_ACTIVE, 1, "tss"))
	k.SetGroupCount(ctx, 1)
	de := 0
	for i := 0; i < n; i++ {
		k.SetMember(ctx, tsstypes.Member{ID: tss.MemberID(i + 1), GroupID: 1, Address: e.memAddr[i].String(), PubKey: e.pub, IsActive: true})
		for j := 0; j < queues[i]; j++ {
			k.SetDE(ctx, e.memAddr[i], uint64(j), tsstypes.NewDE(e.des[de%len(e.des)].PubKey, e.des[(de+1)%len(e.des)].PubKey))
			de += 2
		}
		if queues[i] > 0 {
			k.SetDEQueue(ctx, e.memAddr[i], tsstypes.NewDEQueue(0, uint64(queues[i])))
		}
	}
}

func availQueues(q []int) []uint64 {
	var out []uint64
	for i, x := range q {
		if x > 0 {
			out = append(out, uint64(i+1))
		}
	}
	return out
}

func evalSigHist(e *env, c Case) (res Res) {
	k := e.w.App.TSSKeeper
	q := make([]int, len(c.Flags))
	for i := range c.Flags {
		q[i] = int(c.Flags[i] - '0')
	}
	ctx := engine.Fork(e.tssBase)
	e.applyQueues(ctx, q, c.Cnt)
	p := k.GetParams(ctx)
	p.SigningPeriod = 1
	if err := k.SetParams(ctx, p); err != nil {
		panic(err)
	}
	e.w.App.RollingseedKeeper.SetRollingSeed(ctx, mustHex(c.Seed))
	k.SetSigningCount(ctx, c.PrevCount)
	ctx = ctx.WithChainID(c.ChainID)

	readAttempt := func(cx sdk.Context, id, attempt uint64) (ids []uint64, addrs []string, err error) {
		sa, err := k.GetSigningAttempt(cx, tss.SigningID(id), attempt)
		if err != nil {
			return nil, nil, err
		}
		for _, am := range sa.AssignedMembers {
			ids = append(ids, uint64(am.MemberID))
			addrs = append(addrs, am.Address)
		}
		return ids, addrs, nil
	}

	// ---- the block in which the signings are requested (each request = one transaction)
	var created []uint64
	for s := 0; s < c.Tries; s++ {
		br := engine.Fork(ctx)
		var gotID tss.SigningID
		var err error
		pan := ""
		func() {
			defer func() {
				if r := recover(); r != nil {
					pan = fmt.Sprint(r)
				}
			}()
			o := tsstypes.NewDirectOriginator(engine.ChainID, bandtesting.Alice.Address.String(), "c09")
			gotID, err = k.RequestSigning(br, 1, &o, tsstypes.NewTextSignatureOrder([]byte(fmt.Sprintf("c09-%d", s))))
		}()
		failed, failure := failureOf(err, pan)
		avail := availQueues(q)
		id := c.PrevCount + uint64(len(created)) + 1
		var got []uint64
		var addrs []string
		if !failed {
			if uint64(gotID) != id {
				res.violate("sighist-signing-id", "request %d returned id %d, expected %d", s+1, gotID, id)
				return
			}
			if got, addrs, err = readAttempt(br, id, 1); err != nil {
				res.violate("sighist-attempt-missing", "signing %d attempt 1 not stored: %v", id, err)
				return
			}
		}
		var sub Res
		e.judgeSigners(&sub, "sighist:request", avail, c, id, 1, got, addrs, failed, failure)
		res.Viol = append(res.Viol, sub.Viol...)
		res.Outcomes = append(res.Outcomes, sub.Outcomes...)
		res.Key += sub.Key
		if len(sub.Viol) > 0 {
			return
		}
		if failed {
			continue // the failed transaction is rolled back: br is dropped
		}
		// commit the transaction: replay it on ctx itself (deterministic) so that later requests see it
		o := tsstypes.NewDirectOriginator(engine.ChainID, bandtesting.Alice.Address.String(), "c09")
		if _, err := k.RequestSigning(ctx, 1, &o, tsstypes.NewTextSignatureOrder([]byte(fmt.Sprintf("c09-%d", s)))); err != nil {
			res.violate("sighist-request-not-repeatable", "the same request failed when re-executed on the same state: %v", err)
			return
		}
		for _, g := range got {
			q[g-1]--
		}
		created = append(created, id)
	}
	if len(created) == 0 {
		res.saw("sighist:nothing-created")
		return
	}

	// ---- the block in which they all expire: the real end-block handler retries them in one go
	ectx := ctx.WithBlockHeight(ctx.BlockHeight() + 1)
	seed2 := seeds[0]
	if c.Seed == seeds[0] {
		seed2 = seeds[1]
	}
	e.w.App.RollingseedKeeper.SetRollingSeed(ectx, mustHex(seed2))
	pan := ""
	func() {
		defer func() {
			if r := recover(); r != nil {
				pan = fmt.Sprint(r)
			}
		}()
		k.HandleSigningEndBlock(ectx)
	}()
	if pan != "" {
		res.violate("sighist-endblock-panic", "HandleSigningEndBlock panicked: %s", pan)
		return
	}
	c2 := c
	c2.Seed = seed2
	retried, fallen := 0, 0
	for _, id := range created {
		sg, err := k.GetSigning(ectx, tss.SigningID(id))
		if err != nil {
			res.violate("sighist-signing-missing", "signing %d: %v", id, err)
			return
		}
		avail := availQueues(q)
		got, addrs, aerr := readAttempt(ectx, id, 2)
		failed := sg.Status == tsstypes.SIGNING_STATUS_FALLEN
		if !failed && (aerr != nil || sg.CurrentAttempt != 2 || sg.Status != tsstypes.SIGNING_STATUS_WAITING) {
			res.violate("sighist-retry-state", "signing %d after the expiry block: status %v attempt %d, attempt-2 record err %v", id, sg.Status, sg.CurrentAttempt, aerr)
			return
		}
		if failed && aerr == nil {
			res.violate("sighist-fallen-signing-has-committee", "signing %d is FALLEN but an attempt-2 committee %v is stored", id, got)
			return
		}
		var sub Res
		e.judgeSigners(&sub, "sighist:retry", avail, c2, id, 2, got, addrs, failed, "fallen")
		res.Viol = append(res.Viol, sub.Viol...)
		res.Outcomes = append(res.Outcomes, sub.Outcomes...)
		res.Key += "/" + sub.Key
		if len(sub.Viol) > 0 {
			return
		}
		if failed {
			fallen++
			continue
		}
		retried++
		for _, g := range got {
			q[g-1]--
		}
	}
	if retried >= 2 {
		res.saw("sighist:two-or-more-retries-in-one-endblock")
	}
	if retried >= 1 && fallen >= 1 {
		res.saw("sighist:retry-and-fall-in-one-endblock")
	}
	// the queues after the history: every selection consumed exactly one nonce of each chosen member
	for i := range q {
		dq := k.GetDEQueue(ectx, e.memAddr[i])
		if left := int(dq.Tail - dq.Head); left != q[i] {
			res.violate("sighist-nonce-queue-length", "member %d has %d queued nonces after the history, the selections imply %d (start %s)", i+1, left, q[i], c.Flags)
			break
		}
	}
	return
}

func (d *driver) runSigHist() {
	var cases []Case
	for _, fl := range flagVectors([]byte{'0', '1', '2', '6'}, 3) {
		for _, t := range []int{2, 1, 3} {
			for _, n := range []int{2, 3} {
				for _, s := range seeds[:2] {
					cases = append(cases, Case{Kind: "sighist", Flags: fl, Cnt: t, Tries: n, Seed: s, ChainID: engine.ChainID})
				}
			}
		}
	}
	d.part("sighist:retries-in-one-endblock", int64(len(cases)), func(worker int, idx int64) {
		c := cases[idx]
		res := evalSigHist(d.env(worker), c)
		d.record(c, res)
		if res.Key != "" {
			d.tally.Nontrivial(fmt.Sprintf("sighist|%s|%d|%d|%s|%s", c.Flags, c.Cnt, c.Tries, c.Seed[:4], res.Key))
		}
		if idx%53 == 4 {
			d.tally.Sample(70, map[string]any{"case": c, "outcomes": res.Outcomes, "committees": res.Key})
		}
	})
}
