package c09

import (
	"bytes"
	"fmt"
	"strings"

	"cosmossdk.io/core/header"

	sdk "github.com/cosmos/cosmos-sdk/types"

	"github.com/bandprotocol/chain/v3/pkg/tss"
	bandtesting "github.com/bandprotocol/chain/v3/testing"
	"github.com/bandprotocol/chain/v3/x/rollingseed"
	tsstypes "github.com/bandprotocol/chain/v3/x/tss/types"
	"github.com/bandprotocol/chain/v3/zzverif/engine"
)

// ---- member configurations ------------------------------------------------------------------------------------

// deCount gives, per flag, (active, queue head, queue tail):
//
//	A active, one queued nonce        a active, one queued nonce (signing part: A has two)
//	I inactive, queued nonce(s)       N active, queue used up (head == tail == 1)
//	Z inactive, no queue record
func memberState(part string, f byte) (active bool, head, tail uint64) {
	switch f {
	case 'A':
		if part == "signing" {
			return true, 0, 2
		}
		return true, 0, 1
	case 'a':
		return true, 0, 1
	case 'I':
		return false, 0, 2
	case 'N':
		return true, 1, 1
	case 'Z':
		return false, 0, 0
	}
	panic("member flag")
}

func (e *env) applyMembers(ctx sdk.Context, part, flags string, threshold int) {
	k := e.w.App.TSSKeeper
	n := len(flags)
	k.SetGroup(ctx, tsstypes.NewGroup(1, uint64(n), uint64(threshold), e.pub, tsstypes.GROUP_STATUS_ACTIVE, 1, "tss"))
	k.SetGroupCount(ctx, 2)
	deIdx := 0
	setQueue := func(addr sdk.AccAddress, head, tail uint64) {
		if head == 0 && tail == 0 {
			return
		}
		for i := head; i < tail; i++ {
			k.SetDE(ctx, addr, i, tsstypes.NewDE(e.des[deIdx%len(e.des)].PubKey, e.des[(deIdx+1)%len(e.des)].PubKey))
			deIdx += 2
		}
		k.SetDEQueue(ctx, addr, tsstypes.NewDEQueue(head, tail))
	}
	for i := 0; i < n; i++ {
		active, head, tail := memberState(part, flags[i])
		k.SetMember(ctx, tsstypes.Member{ID: tss.MemberID(i + 1), GroupID: 1, Address: e.memAddr[i].String(), PubKey: e.pub, IsActive: active})
		setQueue(e.memAddr[i], head, tail)
	}
	// a second group whose members are all available: must never leak into group 1's committee
	k.SetGroup(ctx, tsstypes.NewGroup(2, 2, 1, e.pub, tsstypes.GROUP_STATUS_ACTIVE, 1, "tss"))
	for i, a := range e.decoy {
		k.SetMember(ctx, tsstypes.Member{ID: tss.MemberID(i + 1), GroupID: 2, Address: a.String(), PubKey: e.pub, IsActive: true})
		setQueue(a, 0, 2)
	}
}

func tssNonce(id, attempt uint64) []byte { return append(be8(id), be8(attempt)...) }

// judgeSigners compares the ids/addresses of a returned signer committee with the specification.
func (e *env) judgeSigners(res *Res, part string, avail []uint64, c Case, id, attempt uint64, gotIDs []uint64, gotAddr []string, failed bool, failure string) {
	t := c.Cnt
	if len(avail) < t {
		if !failed {
			res.violate(part+"-committee-despite-too-few-available", "%d available < threshold %d but members %v were chosen (flags %s)", len(avail), t, gotIDs, c.Flags)
			return
		}
		res.saw(part + ":too-few")
		res.saw(part + ":too-few:" + failure)
		return
	}
	if failed && c.Param != "" && c.Param != "max_group_size" {
		res.saw(part + ":failed:" + failure)
		return
	}
	if failed {
		res.violate(part+"-error-despite-enough-available", "%d available >= threshold %d but the call failed: %s (flags %s)", len(avail), t, failure, c.Flags)
		return
	}
	if len(gotIDs) != t {
		res.violate(part+"-committee-size", "threshold %d, got %d members: %v (flags %s)", t, len(gotIDs), gotIDs, c.Flags)
	}
	seen := map[uint64]bool{}
	ok := map[uint64]bool{}
	for _, a := range avail {
		ok[a] = true
	}
	for i, g := range gotIDs {
		if seen[g] {
			res.violate(part+"-committee-duplicate", "members %v (flags %s threshold %d)", gotIDs, c.Flags, t)
			break
		}
		seen[g] = true
		if !ok[g] {
			res.violate(part+"-committee-member-not-available", "member %d chosen but not active with a queued nonce (flags %s, available %v)", g, c.Flags, avail)
			break
		}
		if g >= 1 && int(g) <= len(e.memAddr) && gotAddr[i] != e.memAddr[g-1].String() {
			res.violate(part+"-committee-member-address", "member %d returned with address %s", g, gotAddr[i])
			break
		}
	}
	want := refSigners(newRefRng(mustHex(c.Seed), tssNonce(id, attempt), []byte(c.ChainID)), avail, t)
	if !u64sEq(gotIDs, want) {
		res.violate(part+"-committee-differs-from-spec", "flags %s threshold %d seed %s signing %d attempt %d chain %q: real %v, specification %v (available %v)",
			c.Flags, t, c.Seed[:8], id, attempt, c.ChainID, gotIDs, want, avail)
	}
	if len(res.Viol) == 0 {
		res.saw(part + ":ok")
		res.Key += fmt.Sprint(gotIDs)
	}
}

func (e *env) callMembers(ctx sdk.Context, nonce []byte) (ids []uint64, addrs []string, err error, pan string) {
	defer func() {
		if r := recover(); r != nil {
			pan = fmt.Sprint(r)
		}
	}()
	ms, err := e.w.App.TSSKeeper.GetRandomMembers(ctx, 1, nonce)
	for _, m := range ms {
		if m.GroupID != 1 {
			ids = append(ids, 1<<32+uint64(m.ID)) // a foreign member can never match an available id
		} else {
			ids = append(ids, uint64(m.ID))
		}
		addrs = append(addrs, m.Address)
	}
	return ids, addrs, err, ""
}

func availableOf(part, flags string, used map[int]uint64) []uint64 {
	var out []uint64
	for i := range flags {
		active, head, tail := memberState(part, flags[i])
		if active && tail-head > used[i] {
			out = append(out, uint64(i+1))
		}
	}
	return out
}

func evalMembers(e *env, c Case) (res Res) {
	ctx := engine.Fork(e.tssBase)
	e.applyMembers(ctx, "members", c.Flags, c.Cnt)
	e.w.App.RollingseedKeeper.SetRollingSeed(ctx, mustHex(c.Seed))
	ctx = ctx.WithChainID(c.ChainID)
	return evalMembersOn(e, ctx, c)
}

func evalMembersOn(e *env, ctx sdk.Context, c Case) (res Res) {
	avail := availableOf("members", c.Flags, nil)
	ids, addrs, err, pan := e.callMembers(ctx, tssNonce(c.ID, c.Attempt))
	failed, failure := failureOf(err, pan)
	e.judgeSigners(&res, "members", avail, c, c.ID, c.Attempt, ids, addrs, failed, failure)
	if len(res.Viol) == 0 && !failed {
		again, _, err2, pan2 := e.callMembers(ctx, tssNonce(c.ID, c.Attempt))
		if err2 != nil || pan2 != "" || !u64sEq(again, ids) {
			res.violate("members-not-repeatable", "second call on the same state returned %v (err %v panic %q), first %v", again, err2, pan2, ids)
		}
	}
	return
}

func (d *driver) runMembers(nMax int) {
	type unit struct {
		flags string
		t     int
	}
	var units []unit
	for n := 1; n <= nMax; n++ {
		for _, fl := range flagVectors([]byte{'A', 'I', 'N', 'Z'}, n) {
			for t := 1; t <= n; t++ {
				units = append(units, unit{fl, t})
			}
		}
	}
	d.part(fmt.Sprintf("members:n<=%d", nMax), int64(len(units)), func(worker int, idx int64) {
		e := d.env(worker)
		u := units[idx]
		ctx := engine.Fork(e.tssBase)
		e.applyMembers(ctx, "members", u.flags, u.t)
		keys := map[string]struct{}{}
		for _, s := range seeds {
			e.w.App.RollingseedKeeper.SetRollingSeed(ctx, mustHex(s))
			for _, id := range ids {
				for _, at := range []uint64{1, 2} {
					for ci, ch := range []string{engine.ChainID, "other-chain-1"} {
						if ci == 1 && (id != 1 || at != 1) {
							continue
						}
						c := Case{Kind: "members", Flags: u.flags, Cnt: u.t, Seed: s, ID: id, Attempt: at, ChainID: ch}
						res := evalMembersOn(e, ctx.WithChainID(ch), c)
						d.record(c, res)
						if res.Key != "" && strings.Count(u.flags, "A") >= 2 {
							keys[res.Key] = struct{}{}
						}
						if idx%1009 == 3 && id == 1 && at == 1 && ci == 0 {
							d.tally.Sample(40, map[string]any{"case": c, "outcomes": res.Outcomes, "committee": res.Key})
						}
					}
				}
			}
		}
		d.addDistinct(len(keys))
	})
}

// ---- through the real signing creation: SigningAttempt.AssignedMembers ------------------------------------------

func evalSigning(e *env, c Case) (res Res) { return evalSigningPre(e, c, "", nil) }

// evalSigningPre: pre (optional) runs on the prepared state before the signing is requested; when it returns false
// the case ends there.  prefix is prepended to the oracle-clause / outcome names.
func evalSigningPre(e *env, c Case, prefix string, pre func(ctx sdk.Context, res *Res) bool) (res Res) {
	k := e.w.App.TSSKeeper
	ctx := engine.Fork(e.tssBase)
	e.applyMembers(ctx, "signing", c.Flags, c.Cnt)
	e.w.App.RollingseedKeeper.SetRollingSeed(ctx, mustHex(c.Seed))
	k.SetSigningCount(ctx, c.PrevCount)
	ctx = ctx.WithChainID(c.ChainID)
	if pre != nil && !pre(ctx, &res) {
		return
	}
	id := c.PrevCount + 1
	used := map[int]uint64{}

	read := func(cx sdk.Context, attempt uint64) (idsOut []uint64, addrs []string, ok bool) {
		sa, err := k.GetSigningAttempt(cx, tss.SigningID(id), attempt)
		if err != nil {
			res.violate("signing-attempt-missing", "signing %d attempt %d not stored after success: %v", id, attempt, err)
			return nil, nil, false
		}
		for _, am := range sa.AssignedMembers {
			idsOut = append(idsOut, uint64(am.MemberID))
			addrs = append(addrs, am.Address)
		}
		return idsOut, addrs, true
	}

	// attempt 1: RequestSigning
	c1 := engine.Fork(ctx)
	var gotID tss.SigningID
	var err error
	pan := ""
	func() {
		defer func() {
			if r := recover(); r != nil {
				pan = fmt.Sprint(r)
			}
		}()
		o := tsstypes.NewDirectOriginator(engine.ChainID, bandtesting.Alice.Address.String(), "c09")
		gotID, err = k.RequestSigning(c1, 1, &o, tsstypes.NewTextSignatureOrder([]byte("c09")))
	}()
	failed, failure := failureOf(err, pan)
	avail := availableOf("signing", c.Flags, used)
	var sub Res
	var got []uint64
	var addrs []string
	if !failed {
		if uint64(gotID) != id {
			res.violate("signing-id", "RequestSigning returned id %d, expected %d", gotID, id)
			return
		}
		var ok bool
		if got, addrs, ok = read(c1, 1); !ok {
			return
		}
	}
	e.judgeSigners(&sub, prefix+"signing:attempt1", avail, c, id, 1, got, addrs, failed, failure)
	res.Viol = append(res.Viol, sub.Viol...)
	res.Outcomes = append(res.Outcomes, sub.Outcomes...)
	res.Key = sub.Key
	if failed || len(sub.Viol) > 0 {
		return
	}
	for _, g := range got {
		used[int(g-1)]++
	}
	// attempt 2: the retry path
	c2 := engine.Fork(c1)
	err, pan = nil, ""
	func() {
		defer func() {
			if r := recover(); r != nil {
				pan = fmt.Sprint(r)
			}
		}()
		err = k.InitiateNewSigningRound(c2, tss.SigningID(id))
	}()
	failed, failure = failureOf(err, pan)
	avail = availableOf("signing", c.Flags, used)
	sub = Res{}
	got, addrs = nil, nil
	if !failed {
		var ok bool
		if got, addrs, ok = read(c2, 2); !ok {
			return
		}
		if sg, err := k.GetSigning(c2, tss.SigningID(id)); err != nil || sg.CurrentAttempt != 2 {
			res.violate("signing-current-attempt", "after the retry CurrentAttempt is %d (err %v)", sg.CurrentAttempt, err)
		}
	}
	e.judgeSigners(&sub, prefix+"signing:attempt2", avail, c, id, 2, got, addrs, failed, failure)
	res.Viol = append(res.Viol, sub.Viol...)
	res.Outcomes = append(res.Outcomes, sub.Outcomes...)
	res.Key += "/" + sub.Key
	return
}

func (d *driver) runSigning(nMax int) {
	var cases []Case
	for n := 1; n <= nMax; n++ {
		for _, fl := range flagVectors([]byte{'a', 'A', 'I', 'N'}, n) {
			for t := 1; t <= n; t++ {
				for _, s := range seeds[:2] {
					for _, pc := range []uint64{0, ^uint64(0) - 1} {
						cases = append(cases, Case{Kind: "signing", Flags: fl, Cnt: t, Seed: s, ChainID: engine.ChainID, PrevCount: pc})
					}
				}
			}
		}
	}
	d.part(fmt.Sprintf("signing:n<=%d", nMax), int64(len(cases)), func(worker int, idx int64) {
		c := cases[idx]
		res := evalSigning(d.env(worker), c)
		d.record(c, res)
		if strings.Contains(res.Key, "[") {
			d.tally.Nontrivial(fmt.Sprintf("signing|%s|%d|%s", c.Flags, c.Cnt, res.Key))
		}
		if idx%499 == 9 {
			d.tally.Sample(40, map[string]any{"case": c, "outcomes": res.Outcomes, "committees": res.Key})
		}
	})
}

// ---- rolling seed ---------------------------------------------------------------------------------------------

func evalSeed(e *env, c Case) (res Res) {
	ctx := engine.Fork(e.w.Root)
	seed, hash := mustHex(c.Seed), mustHex(c.HashHex)
	k := e.w.App.RollingseedKeeper
	k.SetRollingSeed(ctx, seed)
	var err error
	pan := ""
	func() {
		defer func() {
			if r := recover(); r != nil {
				pan = fmt.Sprint(r)
			}
		}()
		err = rollingseed.BeginBlocker(ctx.WithHeaderInfo(header.Info{Hash: hash, Height: ctx.BlockHeight(), ChainID: ctx.ChainID()}), k)
	}()
	if err != nil || pan != "" {
		res.violate("rolling-seed-beginblock-failed", "BeginBlocker failed: err %v panic %q", err, pan)
		return
	}
	got := k.GetRollingSeed(ctx)
	want := append([]byte(nil), seed...)
	if len(hash) > 0 {
		want = append(want[1:], hash[0])
	}
	if !bytes.Equal(got, want) {
		res.violate("rolling-seed-not-shifted-by-first-hash-byte", "seed %x hash %x: stored %x, expected %x", seed, hash, got, want)
		return
	}
	if len(got) != 32 {
		res.violate("rolling-seed-length", "stored seed has %d bytes", len(got))
		return
	}
	if len(hash) > 0 {
		res.saw("seed:shifted")
	} else {
		res.saw("seed:unchanged-empty-hash")
	}
	return
}

func (d *driver) runSeed() {
	var cases []Case
	for _, s := range seeds {
		cases = append(cases, Case{Kind: "seed", Seed: s, HashHex: ""})
		for b := 0; b < 256; b++ {
			for _, l := range []int{1, 20, 32} {
				h := bytes.Repeat([]byte{0x5a}, l)
				h[0] = byte(b)
				cases = append(cases, Case{Kind: "seed", Seed: s, HashHex: fmt.Sprintf("%x", h)})
			}
		}
	}
	d.part("rolling-seed", int64(len(cases)), func(worker int, idx int64) {
		c := cases[idx]
		res := evalSeed(d.env(worker), c)
		d.record(c, res)
	})
}
