package c09

import (
	"bytes"
	"fmt"
	"math/big"
	"os"
	"sort"
	"strings"
	"sync/atomic"

	errorsmod "cosmossdk.io/errors"
	"cosmossdk.io/math"

	sdk "github.com/cosmos/cosmos-sdk/types"
	stakingtypes "github.com/cosmos/cosmos-sdk/x/staking/types"

	"github.com/bandprotocol/chain/v3/pkg/obi"
	"github.com/bandprotocol/chain/v3/pkg/tss"
	bandtesting "github.com/bandprotocol/chain/v3/testing"
	"github.com/bandprotocol/chain/v3/testing/testdata"
	oracletypes "github.com/bandprotocol/chain/v3/x/oracle/types"
	"github.com/bandprotocol/chain/v3/zzverif/engine"
)

// env is one worker's real application plus the prepared base states.
type env struct {
	w *engine.World
	// validators
	valBase sdk.Context
	slots   []valSlot
	// tss
	tssBase sdk.Context
	memAddr []sdk.AccAddress // members of group 1 (ids 1..)
	decoy   []sdk.AccAddress // members of group 2
	des     []tss.KeyPair    // pool of valid curve points used as (D,E) pairs
	pub     tss.Point
}

type valSlot struct {
	addr sdk.ValAddress
	base stakingtypes.Validator
}

const maxSlots = 6

func newEnv() *env {
	w := engine.NewWorld()
	e := &env{w: w}
	// ---- validators: the three genesis validators plus three fresh records, none in the power index
	ctx := engine.Fork(w.Root)
	sk := w.App.StakingKeeper
	accs := []bandtesting.Account{bandtesting.Validators[0], bandtesting.Validators[1], bandtesting.Validators[2],
		bandtesting.Alice, bandtesting.Bob, bandtesting.Carol}
	for i, a := range accs {
		var v stakingtypes.Validator
		if i < 3 {
			var err error
			v, err = sk.GetValidator(ctx, a.ValAddress)
			if err != nil {
				panic(err)
			}
			if err := sk.DeleteValidatorByPowerIndex(ctx, v); err != nil {
				panic(err)
			}
		} else {
			var err error
			v, err = stakingtypes.NewValidator(a.ValAddress.String(), a.PubKey, stakingtypes.Description{Moniker: fmt.Sprintf("c09-%d", i)})
			if err != nil {
				panic(err)
			}
			v.DelegatorShares = math.LegacyOneDec()
		}
		// parked: not bonded, not in the power index, oracle-inactive
		v.Status = stakingtypes.Unbonded
		if err := sk.SetValidator(ctx, v); err != nil {
			panic(err)
		}
		w.App.OracleKeeper.SetValidatorStatus(ctx, a.ValAddress, oracletypes.NewValidatorStatus(false, engine.GenesisTime))
		e.slots = append(e.slots, valSlot{addr: a.ValAddress, base: v})
	}
	e.valBase = ctx
	// ---- tss
	tctx := engine.Fork(w.Root)
	engine.DetRandResetTo(0xc09)
	kps, err := tss.GenerateKeyPairs(32)
	if err != nil {
		panic(err)
	}
	e.des = kps
	e.pub = kps[0].PubKey
	for i := 0; i < 8; i++ {
		e.memAddr = append(e.memAddr, sdk.AccAddress(bytes.Repeat([]byte{byte(0xa0 + i)}, 20)))
	}
	for i := 0; i < 2; i++ {
		e.decoy = append(e.decoy, sdk.AccAddress(bytes.Repeat([]byte{byte(0xd0 + i)}, 20)))
	}
	e.tssBase = tctx
	return e
}

// ---- validator configurations ---------------------------------------------------------------------------------

// flags: E eligible (bonded, in the power index, oracle-active); I bonded but oracle-inactive;
// U oracle-active and in the power index but not bonded (unbonding); X oracle-active but jailed: unbonding and
// absent from the power index.
func (e *env) applyVals(ctx sdk.Context, tokens []*big.Int, flags string) {
	sk := e.w.App.StakingKeeper
	for i := range tokens {
		v := e.slots[i].base
		v.Tokens = math.NewIntFromBigInt(tokens[i])
		active := true
		switch flags[i] {
		case 'E':
			v.Status = stakingtypes.Bonded
		case 'I':
			v.Status = stakingtypes.Bonded
			active = false
		case 'U':
			v.Status = stakingtypes.Unbonding
		case 'X':
			v.Status = stakingtypes.Unbonding
			v.Jailed = true
		default:
			panic("flag")
		}
		if err := sk.SetValidator(ctx, v); err != nil {
			panic(err)
		}
		if flags[i] != 'X' {
			if err := sk.SetValidatorByPowerIndex(ctx, v); err != nil {
				panic(err)
			}
		}
		e.w.App.OracleKeeper.SetValidatorStatus(ctx, e.slots[i].addr, oracletypes.NewValidatorStatus(active, engine.GenesisTime))
	}
}

type eligible struct {
	addrs   []string // operator addresses in selection order
	weights []uint64
	above64 bool // some eligible validator holds more than 2^64-1 tokens
	tie     bool // two eligible validators share the same consensus power (order decided by address)
}

var powerReduction = big.NewInt(1_000_000)

// refEligible: the eligible validators in staking power order (consensus power descending, operator address
// ascending), with their token amounts as weights.
func (e *env) refEligible(tokens []*big.Int, flags string) eligible {
	type it struct {
		addr  sdk.ValAddress
		tok   *big.Int
		power *big.Int
	}
	var xs []it
	for i := range tokens {
		if flags[i] == 'E' {
			xs = append(xs, it{e.slots[i].addr, tokens[i], new(big.Int).Quo(tokens[i], powerReduction)})
		}
	}
	var el eligible
	sort.SliceStable(xs, func(a, b int) bool {
		if c := xs[a].power.Cmp(xs[b].power); c != 0 {
			return c > 0
		}
		return bytes.Compare(xs[a].addr, xs[b].addr) < 0
	})
	for i, x := range xs {
		if i > 0 && xs[i-1].power.Cmp(x.power) == 0 {
			el.tie = true
		}
		el.addrs = append(el.addrs, x.addr.String())
		if x.tok.Cmp(maxU64) > 0 {
			el.above64 = true
			el.weights = append(el.weights, 0)
		} else {
			el.weights = append(el.weights, x.tok.Uint64())
		}
	}
	return el
}

func parseTokens(ts []string) []*big.Int {
	var out []*big.Int
	for _, t := range ts {
		b, ok := new(big.Int).SetString(t, 10)
		if !ok {
			panic("token " + t)
		}
		out = append(out, b)
	}
	return out
}

// callVals invokes the real GetRandomValidators the way a transaction would (panics recovered).
func (e *env) callVals(ctx sdk.Context, c Case) (out []string, err error, pan string) {
	defer func() {
		if r := recover(); r != nil {
			pan = fmt.Sprint(r)
		}
	}()
	vals, err := e.w.App.OracleKeeper.GetRandomValidators(ctx, c.Cnt, c.ID)
	for _, v := range vals {
		out = append(out, v.String())
	}
	return out, err, ""
}

// prepVals sets seed / try count / chain id on ctx.
func (e *env) prepVals(ctx sdk.Context, c Case) sdk.Context {
	p := e.w.App.OracleKeeper.GetParams(ctx)
	p.SamplingTryCount = uint64(c.Tries)
	if err := e.w.App.OracleKeeper.SetParams(ctx, p); err != nil {
		panic(err)
	}
	e.w.App.RollingseedKeeper.SetRollingSeed(ctx, mustHex(c.Seed))
	return ctx.WithChainID(c.ChainID)
}

// judgeCommittee compares a returned committee with the specification.
func judgeCommittee(res *Res, part string, el eligible, c Case, id uint64, got []string, failed bool, failure string) {
	if len(el.addrs) < c.Cnt {
		if !failed {
			res.violate(part+"-committee-despite-too-few-eligible", "%d eligible < ask %d but a committee was returned: %v (flags %s tokens %v)",
				len(el.addrs), c.Cnt, got, c.Flags, c.Tokens)
			return
		}
		res.saw(part + ":too-few")
		res.saw(part + ":too-few:" + failure)
		return
	}
	if el.above64 {
		// outside the representable domain: only record what happened, but a returned committee must still be sane
		if failed {
			res.saw(part + ":token-above-uint64:" + failure)
			return
		}
		res.saw(part + ":token-above-uint64:committee")
	}
	_, fits := refTotal(el.weights)
	if !el.above64 && !fits {
		if !failed {
			res.violate(part+"-overflowing-total-not-rejected", "eligible tokens %v sum above 2^64-1 but a committee was returned: %v", el.weights, got)
			return
		}
		res.saw(part + ":overflow-panic")
		return
	}
	if failed && c.Param != "" {
		// corner-parameter runs: an error is an allowed outcome ("a committee or an error"); it is only counted
		res.saw(part + ":failed:" + failure)
		return
	}
	if failed {
		res.violate(part+"-error-despite-enough-eligible", "%d eligible >= ask %d but the call failed: %s (flags %s tokens %v tries %d)",
			len(el.addrs), c.Cnt, failure, c.Flags, c.Tokens, c.Tries)
		return
	}
	if len(got) != c.Cnt {
		res.violate(part+"-committee-size", "ask %d, got %d: %v", c.Cnt, len(got), got)
	}
	if !distinctStrs(got) {
		res.violate(part+"-committee-duplicate", "committee %v (flags %s tokens %v)", got, c.Flags, c.Tokens)
	}
	ok := map[string]bool{}
	for _, a := range el.addrs {
		ok[a] = true
	}
	for _, g := range got {
		if !ok[g] {
			res.violate(part+"-committee-member-not-eligible", "%s chosen but not bonded+oracle-active (flags %s, eligible %v)", g, c.Flags, el.addrs)
			break
		}
	}
	if el.above64 {
		return
	}
	if c.Tries < 1 {
		// corner-parameter runs with a try count for which the specification defines no sampling (0, or not a
		// positive machine integer): the committee must still be a valid one (checked above)
		if len(res.Viol) == 0 {
			res.saw(part + ":valid-committee-no-spec")
		}
		return
	}
	ref := newRefRng(mustHex(c.Seed), be8(id), []byte(c.ChainID))
	idx, _, _, _ := refChooseSomeMaxWeight(ref, el.weights, c.Cnt, c.Tries)
	var want []string
	for _, i := range idx {
		want = append(want, el.addrs[i])
	}
	if !strsEq(got, want) {
		res.violate(part+"-committee-differs-from-spec", "flags %s tokens %v ask %d tries %d seed %s id %d chain %q: real %v, specification %v (eligible order %v)",
			c.Flags, c.Tokens, c.Cnt, c.Tries, c.Seed[:8], id, c.ChainID, short(got), short(want), short(el.addrs))
	}
	if len(res.Viol) == 0 {
		res.saw(part + ":ok")
		if el.tie {
			res.saw(part + ":order-tie-by-address")
		}
		res.Key = strings.Join(short(got), ",")
	}
}

func short(as []string) []string {
	var out []string
	for _, a := range as {
		if len(a) > 8 {
			a = a[len(a)-6:]
		}
		out = append(out, a)
	}
	return out
}

func failureOf(err error, pan string) (bool, string) {
	if pan != "" {
		return true, "panic"
	}
	if err != nil {
		return true, engineErrName(err)
	}
	return false, ""
}

func engineErrName(err error) string {
	cs, code, _ := errorsmod.ABCIInfo(err, false)
	return fmt.Sprintf("%s/%d", cs, code)
}

func evalValsOn(e *env, ctx sdk.Context, el eligible, c Case) (res Res) {
	ctx = e.prepVals(ctx, c)
	got, err, pan := e.callVals(ctx, c)
	failed, failure := failureOf(err, pan)
	judgeCommittee(&res, "vals", el, c, c.ID, got, failed, failure)
	if len(res.Viol) == 0 && !failed {
		again, err2, pan2 := e.callVals(ctx, c)
		if err2 != nil || pan2 != "" || !strsEq(again, got) {
			res.violate("vals-not-repeatable", "second call on the same state returned %v (err %v panic %q), first %v", again, err2, pan2, got)
		}
	}
	return
}

func evalVals(e *env, c Case) Res {
	tokens := parseTokens(c.Tokens)
	ctx := engine.Fork(e.valBase)
	e.applyVals(ctx, tokens, c.Flags)
	return evalValsOn(e, ctx, e.refEligible(tokens, c.Flags), c)
}

var valFlags = []byte{'E', 'I', 'U', 'X'}

func flagVectors(alpha []byte, n int) []string {
	od := engine.Odometer{Sizes: make([]int, n)}
	for i := range od.Sizes {
		od.Sizes[i] = len(alpha)
	}
	var out []string
	var dg []int
	for i := int64(0); i < od.Total(); i++ {
		dg = od.Digits(i, dg)
		b := make([]byte, n)
		for k, x := range dg {
			b[k] = alpha[x]
		}
		out = append(out, string(b))
	}
	return out
}

func tokenVectors(alpha []string, n int) [][]string {
	od := engine.Odometer{Sizes: make([]int, n)}
	for i := range od.Sizes {
		od.Sizes[i] = len(alpha)
	}
	var out [][]string
	var dg []int
	for i := int64(0); i < od.Total(); i++ {
		dg = od.Digits(i, dg)
		v := make([]string, n)
		for k, x := range dg {
			v[k] = alpha[x]
		}
		out = append(out, v)
	}
	return out
}

const (
	tok62  = "4611686018427387904"
	tok63  = "9223372036854775808"
	tok64m = "18446744073709551615" // 2^64-1
	tok64  = "18446744073709551616" // 2^64
)

type valCombo struct {
	tries int
	seed  string
	id    uint64
	chain string
}

// combosFull: every tries x 2 seeds x 2 ids on the first chain id, plus the other chain ids with (seed0, id 1).
func combosFull(triesList []int, chains []string) []valCombo {
	var out []valCombo
	for _, tr := range triesList {
		for _, s := range seeds[:2] {
			for _, id := range []uint64{1, ^uint64(0)} {
				out = append(out, valCombo{tr, s, id, chains[0]})
			}
		}
		for _, ch := range chains[1:] {
			out = append(out, valCombo{tr, seeds[0], 1, ch})
		}
	}
	return out
}

func (d *driver) valsPart(name string, n int, tokAlpha []string, flagsList []string, combos []valCombo) {
	toks := tokenVectors(tokAlpha, n)
	total := int64(len(toks)) * int64(len(flagsList))
	d.part(name, total, func(worker int, idx int64) {
		e := d.env(worker)
		tv := toks[idx%int64(len(toks))]
		fl := flagsList[idx/int64(len(toks))]
		tokens := parseTokens(tv)
		ctx := engine.Fork(e.valBase)
		e.applyVals(ctx, tokens, fl)
		el := e.refEligible(tokens, fl)
		keys := map[string]struct{}{}
		// asks above eligible+1 all take the same "too few" path: enumerate 1..min(eligible+1, n+1)
		maxAsk := len(el.addrs) + 1
		if maxAsk > n+1 {
			maxAsk = n + 1
		}
		for ask := 1; ask <= maxAsk; ask++ {
			for _, cb := range combos {
				c := Case{Kind: "vals", Tokens: tv, Flags: fl, Cnt: ask, Tries: cb.tries, Seed: cb.seed, ID: cb.id, ChainID: cb.chain}
				res := evalValsOn(e, ctx, el, c)
				d.record(c, res)
				if res.Key != "" && len(el.addrs) >= 2 {
					keys[fmt.Sprintf("%d|%s", ask, res.Key)] = struct{}{}
				}
				if idx%4099 == 11 && cb.tries == 3 && cb.id == 1 && ask == 2 {
					d.tally.Sample(40, map[string]any{"case": c, "outcomes": res.Outcomes, "committee": res.Key})
				}
			}
		}
		atomic.AddInt64(&d.distinct, int64(len(keys)))
	})
}

var valChains = []string{engine.ChainID, "other-chain-1"}

// token alphabets: two values per consensus-power class (1 and 3 in class 0; 1000000 and 1500000 in class 1: ties in
// the power index are broken by address), and the huge ones

// runValsNear: single validators at / above the uint64 limit and totals crossing it.
func (d *driver) runValsNear() {
	d.valsPart("vals:near-2^64", 3, []string{"1", tok63, tok64m, tok64}, flagVectors([]byte{'E', 'I'}, 3), combosFull([]int{1, 3}, valChains[:1]))
}

func (d *driver) runValsQuick() {
	combos := []valCombo{{1, seeds[0], 1, valChains[0]}, {3, seeds[0], 1, valChains[0]}, {3, seeds[1], ^uint64(0), valChains[0]}, {3, seeds[0], 1, valChains[1]}}
	d.valsPart("vals:n=4", 4, []string{"3", "1000000", "1500000", tok63}, flagVectors(valFlags, 4), combos)
}

func (d *driver) runVals4Thorough() {
	d.valsPart("vals:n=4", 4, []string{"1", "3", "1000000", "1500000", tok62, tok63}, flagVectors(valFlags, 4), combosFull([]int{1, 3, 10}, valChains))
}

func (d *driver) runVals5() {
	d.valsPart("vals:n=5", 5, []string{"3", "1000000", tok63}, flagVectors(valFlags, 5), combosFull([]int{1, 3}, valChains[:1]))
}

func (d *driver) runVals6() {
	d.valsPart("vals:n=6:eligible-or-inactive", 6, []string{"3", "1000000", "1500000", tok62}, flagVectors([]byte{'E', 'I'}, 6), combosFull([]int{3}, valChains[:1]))
}

// ---- through the message router: MsgRequestData -> Request.RequestedValidators ---------------------------------

func evalValTx(e *env, c Case) (res Res) {
	tokens := parseTokens(c.Tokens)
	ctx := engine.Fork(e.valBase)
	e.applyVals(ctx, tokens, c.Flags)
	el := e.refEligible(tokens, c.Flags)
	ctx = e.prepVals(ctx, c)
	e.w.App.OracleKeeper.SetRequestCount(ctx, c.PrevCount)
	// two consecutive requests in the same block: ids PrevCount+1 and PrevCount+2
	for k := uint64(1); k <= 2; k++ {
		msg := oracletypes.NewMsgRequestData(4, obi.MustEncode(testdata.Wasm4Input{IDs: []int64{1}, Calldata: "x"}), uint64(c.Cnt), 1,
			"c09", bandtesting.Coins100000000uband, bandtesting.TestDefaultPrepareGas, bandtesting.TestDefaultExecuteGas,
			bandtesting.FeePayer.Address, oracletypes.ENCODER_UNSPECIFIED)
		tx := e.w.Tx(ctx, 0, msg)
		id := c.PrevCount + k
		var got []string
		failed, failure := !tx.OK(), tx.ErrName()
		if failed && failure != "oracle/34" && os.Getenv("C09_DEBUG") != "" {
			fmt.Printf("DEBUG valtx %s: %v\n", c, tx.Err)
		}
		var sub Res
		if !failed {
			if cnt := e.w.App.OracleKeeper.GetRequestCount(ctx); cnt != id {
				sub.violate("valtx-request-id", "request count %d after request, expected %d", cnt, id)
			}
			req, err := e.w.App.OracleKeeper.GetRequest(ctx, oracletypes.RequestID(id))
			if err != nil {
				sub.violate("valtx-request-missing", "request %d not stored: %v", id, err)
			} else {
				got = req.RequestedValidators
			}
		} else if len(el.addrs) < c.Cnt && failure != "oracle/34" {
			sub.violate("valtx-too-few-wrong-error", "too few eligible validators but the request failed with %s: %v", failure, tx.Err)
		}
		if len(sub.Viol) == 0 {
			judgeCommittee(&sub, "valtx", el, c, id, got, failed, failure)
		}
		res.Viol = append(res.Viol, sub.Viol...)
		res.Outcomes = append(res.Outcomes, sub.Outcomes...)
		res.Key += sub.Key + ";"
		if failed {
			if e.w.App.OracleKeeper.GetRequestCount(ctx) != c.PrevCount+k-1 {
				res.violate("valtx-failed-request-left-state", "request count changed by a failed request")
			}
			break
		}
	}
	return
}

func (d *driver) runValTx(quick bool) {
	var cases []Case
	add := func(n int, toks []string, flagAlpha []byte) {
		for _, fl := range flagVectors(flagAlpha, n) {
			for ask := 1; ask <= n; ask++ {
				for _, s := range seeds[:2] {
					for _, pc := range []uint64{0, 41} {
						cases = append(cases, Case{Kind: "valtx", Tokens: toks, Flags: fl, Cnt: ask, Tries: 3, Seed: s, ChainID: engine.ChainID, PrevCount: pc})
					}
				}
			}
		}
	}
	add(3, []string{"100000000", "1000000", "99999999"}, valFlags) // the genesis stakes
	add(4, []string{"1500000", "1000000", "3", "99999999"}, valFlags)
	if !quick {
		add(4, []string{"3", "3", "3", "3"}, valFlags)
		add(5, []string{"1", "1000000", "1500000", "99999999", tok62}, []byte{'E', 'I', 'U'})
	}
	d.part("valtx:MsgRequestData", int64(len(cases)), func(worker int, idx int64) {
		c := cases[idx]
		res := evalValTx(d.env(worker), c)
		d.record(c, res)
		if strings.Contains(res.Key, ",") {
			d.tally.Nontrivial(fmt.Sprintf("valtx|%s|%v|%d|%s", c.Flags, c.Tokens, c.Cnt, res.Key))
		}
		if idx%97 == 5 {
			d.tally.Sample(40, map[string]any{"case": c, "outcomes": res.Outcomes, "committees": res.Key})
		}
	})
}
