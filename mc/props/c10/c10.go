// Package c10 checks property C10 (every signing terminates: success or bounded-retry failure; idle
// members penalised) with the shared signing life-cycle specification (props/tsssig).
package c10

import (
	"time"

	"github.com/bandprotocol/chain/v3/zzverif/engine"
	"github.com/bandprotocol/chain/v3/zzverif/props/tsssig"
)

func configs(quick bool) []tsssig.Cfg {
	ev := []string{"req", "sig", "de1", "act", "block"}
	if quick {
		return []tsssig.Cfg{
			{N: 3, T: 2, SigningPeriod: 1, MaxSigningAttempt: 2, MaxDESize: 4, InitDE: 2, MaxReq: 2, Depth: 8, Events: ev, FeePerSigner: 10},
			{N: 3, T: 2, SigningPeriod: 2, MaxSigningAttempt: 2, MaxDESize: 4, InitDE: 1, MaxReq: 2, Depth: 8, Events: ev, FeePerSigner: 10},
			{N: 3, T: 2, SigningPeriod: 1, MaxSigningAttempt: 1, MaxDESize: 4, InitDE: 2, MaxReq: 2, Depth: 7, Events: ev, FeePerSigner: 10},
			// signing_period reduced / restored by governance while attempts are in flight
			{N: 3, T: 2, SigningPeriod: 3, MaxSigningAttempt: 2, MaxDESize: 4, InitDE: 3, MaxReq: 2, Depth: 8, Events: []string{"req", "sig", "period", "block"}, FeePerSigner: 10},
			// max_signing_attempt lowered / restored by governance while attempts are in flight
			{N: 4, T: 2, SigningPeriod: 1, MaxSigningAttempt: 3, MaxDESize: 5, InitDE: 4, MaxReq: 1, Depth: 8, Events: []string{"req", "sig", "maxatt", "block"}, FeePerSigner: 10},
			// threshold = group size: every member is needed, an unavailable one makes the signing fall
			{N: 2, T: 2, SigningPeriod: 1, MaxSigningAttempt: 3, MaxDESize: 4, InitDE: 3, MaxReq: 2, Depth: 7, Events: ev, FeePerSigner: 10},
		}
	}
	var out []tsssig.Cfg
	for _, p := range []uint64{1, 2} {
		for _, a := range []uint64{1, 2, 3} {
			for _, init := range []uint64{1, 3} {
				out = append(out, tsssig.Cfg{N: 3, T: 2, SigningPeriod: p, MaxSigningAttempt: a, MaxDESize: 4, InitDE: init, MaxReq: 3, Depth: 10, Events: ev, FeePerSigner: 10})
			}
		}
	}
	out = append(out, tsssig.Cfg{N: 3, T: 2, SigningPeriod: 3, MaxSigningAttempt: 3, MaxDESize: 5, InitDE: 4, MaxReq: 3, Depth: 10, Events: []string{"req", "sig", "period", "act", "block"}, FeePerSigner: 10})
	out = append(out, tsssig.Cfg{N: 3, T: 2, SigningPeriod: 1, MaxSigningAttempt: 3, MaxDESize: 5, InitDE: 4, MaxReq: 2, Depth: 10, Events: []string{"req", "sig", "maxatt", "act", "block"}, FeePerSigner: 10},
		tsssig.Cfg{N: 2, T: 2, SigningPeriod: 1, MaxSigningAttempt: 3, MaxDESize: 4, InitDE: 3, MaxReq: 2, Depth: 10, Events: ev, FeePerSigner: 10})
	out = append(out, tsssig.Cfg{N: 3, T: 3, SigningPeriod: 1, MaxSigningAttempt: 2, MaxDESize: 4, InitDE: 2, MaxReq: 2, Depth: 10, Events: ev, FeePerSigner: 10},
		tsssig.Cfg{N: 2, T: 1, SigningPeriod: 2, MaxSigningAttempt: 3, MaxDESize: 3, InitDE: 2, MaxReq: 3, Depth: 10, Events: ev, FeePerSigner: 10})
	return out
}

func init() {
	engine.Register(&engine.Check{
		ID: "C10",
		Run: func(r *engine.Run) {
			r.Bound = "group of 3 (t=2; thorough also t=3 and n=2,t=1) installed by a real DKG; <=2/3 signings in flight; per-block choices of which assigned member submits, tops up one nonce, re-activates; signing_period in {1,2} (and 3 reduced to 1 / restored by governance in flight), max_signing_attempt in {1,2,3}; depth 7-8 (quick) / 10 (thorough)"
			r.Assumptions = []string{
				"committee choice is read back from the stored attempt (selection is C09's subject) and only checked for size, distinctness and eligibility",
				"partial signatures are honest (bad shares are C03's subject)",
				"block rewards to members switched off (bandtss RewardPercentage=0) so balances isolate signing fees",
			}
			r.Required = []string{"signing_success", "signing_failed", "retry", "fallen:max-attempts", "fallen:no-members", "act:ok", "sig-late:tss/28", "period:ok", "expiry-deferred-behind-earlier-attempt"}
			tsssig.Run(r, "C10", configs(r.Quick()), 5*time.Minute, 45*time.Minute)
		},
		Replay: tsssig.Replay,
	})
}
