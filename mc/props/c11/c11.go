// Package c11 checks property C11: signed payloads are bound to their request and decode to on-chain
// data.  Engine: enum — bounded-exhaustive enumeration of originators, content kinds, encoders,
// on-chain values, block times and signing ids, every tuple executed on the real repository code
// (pure encoders, the real content router, and the real Msg handlers on a real application) and
// compared with an independent reference written from the statement (ref.go).
package c11

import (
	"encoding/json"
	"fmt"
	"strings"
	"time"

	"github.com/bandprotocol/chain/v3/zzverif/engine"
)

var required = []string{
	"signal-id:round-trip", "signal-id:oversize-refused", "content:feeds:oversize-signal-id-rejected", "content:tunnel:oversize-signal-id-rejected", "direct:feeds:oversize-signal-id-rejected",
	"orig:DirectOriginator", "orig:TunnelOriginator", "encode-signing", "tag-constant",
	"tick:boundary", "tick:below-boundary", "tick:midpoint", "tick:dense", "tick:special", "tick:price-band-1e-15",
	"content:text:Text", "content:oracle:Proto", "content:oracle:FullABI", "content:oracle:PartialABI",
	"content:feeds:FixedPointABI", "content:feeds:TickABI", "content:tunnel:FixedPointABI", "content:tunnel:TickABI",
	"content:transition:Transition",
	"direct:text:Text:ok", "direct:oracle:Proto:ok", "direct:oracle:FullABI:ok", "direct:oracle:PartialABI:ok",
	"direct:feeds:FixedPointABI:ok", "direct:feeds:TickABI:ok", "direct:repeat-in-same-block:distinct-message",
	"internal-rejected:tunnel", "internal-rejected:transition",
	"internal-rejected:tunnel:sender=authority", "internal-rejected:transition:sender=authority",
	"internal-rejected:tunnel:sender=bandtss-module", "internal-rejected:transition:sender=bandtss-module",
	"internal-rejected:tunnel:sender=tss-member", "internal-rejected:transition:sender=tss-member", "content-kind:internal", "content-kind:user",
	"tunnel:FixedPointABI:ok", "tunnel:TickABI:ok", "tunnel:packet-equals-feed-prices-at-request-time",
	"transition:ok",
}

const rule = "inputs are enumerated as cartesian products of explicit alphabets (see bound); one evaluation = one call of the real code " +
	"(Originator.Encode, EncodeSigning, a route handler of the sealed content router, a Msg handler sequence on a forked real state, PriceToTick). " +
	"distinct_nontrivial counts distinct canonical inputs for which the statement defines the encoding and the real code produced one " +
	"(inputs outside the statement such as unknown encoders, over-long text/memo or >32-byte signal ids are executed and labelled but not counted); " +
	"for ticks: distinct probed prices (each integer tick boundary in [1,2^64), boundary-1, midpoint, every price of the dense range, special values)."

func run(r *engine.Run, only string) {
	r.Level = "exploration"
	r.Rule = rule
	dense := "2^22"
	if !r.Quick() {
		dense = "2^28"
	}
	r.Bound = "originators: 27 strings (empty, single chars, 'ab' vs 'a'+'b' splits, delimiter-like, NUL, 32x0xff, 33 chars, case-only and leading/trailing-space variants, EIP-55 mixed-case hex with its lower/upper forms, base58, upper/lower chain ids) per field and 7 tunnel ids: 27^3 direct + 27*7*27^2 tunnel, with collision sets on the encoding and on hash(originator); " +
		"EncodeSigning: 9 originators x 9 block times (0..2^63-1, -1) x 8 signing ids (0..2^64-1) x 12 contents; " +
		"contents through the sealed real content router: 15 user texts (0..1001 bytes, imitations of other kinds); oracle results with clientID/calldata/result lengths {0,1,33} (thorough +32) x " +
		"os{0,1,max} x ask{0,max} x min{0,max} x rid{1,2,max} x ans{0,max} x request_time{0,-1,max} x resolve_time{0,max} x status{0..3} (thorough + int64/int32 extremes) x 3 encoders; " +
		"feeds lists of 0..2 signals from 4 ids (thorough 6 ids and lists of 3) x {absent,0,1,1e9,1000099999,2^64-1} x 2 encoders x block times {0,now,9999-12-31} (thorough +1); " +
		"tunnel packets seq{0,1,max} x 25 price lists x created_at{0,1,-1,now,max} x 2 encoders; transitions 3 keys x 4 times; signal ids of 31/32/33/34 bytes built from 2-, 3- and 4-byte runes and ids of 32+w bytes whose last 32 bytes are a legal id (pure StringToBytes32, feeds and tunnel handlers, real MsgRequestSignature): <=32 bytes must round-trip, >32 bytes must be refused, never truncated; unknown encoders executed and labelled; " +
		"real MsgRequestSignature: 3 senders (2 users, the module authority) x 8 memos (0..101 chars, case/space variants) x 4 block times x signing ids {1,2,2^64-1} x 11 contents, plus the same request twice in one block; " +
		"users requesting internal kinds: 54 tunnel packets + 13 transitions + zero values x 6 senders (2 users, validator, module authority, bandtss module account, funded tss member; each must fail with ErrContentNotAllowed and leave the tss and bandtss signing counts unchanged) x 2 memos, and every registered Content implementation; " +
		"real tunnel create/fund/activate/trigger: 14^2 (thorough 15^2) destination chain x contract strings (incl. empty -> rejected, case-only / space variants, EIP-55 / lower / base58 addresses, ETH/eth) x tunnel ids {1,2,2^64-1} x 2 encoders x 3 feed states x {(now,id 1),(9999-12-31,id 2^64-1)}, plus an upper-case source chain id for tunnel id 1; signed prefix message[0:32] of every accepted request kept in an injectivity set keyed by the stored route (source chain, tunnel id, destination chain, contract) resp. (chain, requester, memo); " +
		"real group transitions with complete DKG: 4 (thorough 7) with exec offsets 1s..7d and signing ids {next,2,2^64-1}; " +
		"ticks: all 524287 ticks (integer boundary, boundary-1, midpoint to the next boundary), every price 1.." + dense + ", 2^64-4096..2^64-1, 2^k+-2, 10^k+-1"
	r.Assumptions = []string{
		"keccak-256 is collision free on the enumerated set (checked by the collision sets) and in general (assumed)",
		"the price of tick t is the repository's fixed-point X96(t) (tickToPriceX96), accepted after checking it is strictly increasing and within 1e-15 relative of 10^9*1.0001^t; PriceToTick is judged against it exactly",
		"on-chain data (oracle results, feed prices, signing/tunnel counters, block time) are installed by keeper setters on a forked state of a real app whose current tss group was created by the real DKG handlers",
		"Tx seam = ValidateBasic + message-router handler (ante chain and Any unpacking from tx bytes not executed)",
		"route names (tss, oracle, bandtss, feeds, tunnel) and kind names (Text, Transition, Proto, FullABI, PartialABI, FixedPointABI, TickABI, DirectOriginator, TunnelOriginator) are the documented ones; selectors/tags are recomputed as keccak256(name)[:4]",
		"requester of a group-transition signing is the bandtss module account with an empty memo",
	}
	r.Required = required
	deadline := r.Deadline(4*time.Minute, 40*time.Minute)
	raw := engine.NewTally()
	t := newLimited(raw)
	want := func(s string) bool { return only == "" || only == s }

	t0 := time.Now()
	if want("originator") {
		runOriginators(t)
	}
	if want("encode-signing") {
		runEncodeSigning(t)
	}
	if want("tags") {
		runTags(t)
	}
	if want("signal-id") {
		runSignalIDs(t)
	}
	fmt.Printf("[C11] pure sections done: evaluations=%d violations=%d (%.1fs)\n", t.Evals, t.Violations(), time.Since(t0).Seconds())

	var tt *tickTable
	if want("tick") {
		tt = runTick(r, deadline)
	} else {
		ts := &tickSection{}
		ts.build()
		tt = ts.table
	}

	e := &env{r: r, quick: r.Quick(), deadline: deadline, tt: tt, pool: newPool(), contents: newSyncCollisions(), messages: newSyncCollisions(), prefixes: newSyncCollisions()}
	defer e.pool.close()
	for _, sec := range []struct {
		name string
		fn   func(*env, tally)
	}{
		{"contents", runContents}, {"direct", runDirect}, {"internal", runInternal}, {"tunnel", runTunnel}, {"transition", runTransition},
	} {
		if !want(sec.name) {
			continue
		}
		t1 := time.Now()
		before := t.Evals
		sec.fn(e, t)
		fmt.Printf("[C11] %s: evaluations=%d violations(total)=%d (%.1fs)\n", sec.name, t.Evals-before, t.Violations(), time.Since(t1).Seconds())
	}
	raw.MergeInto(r)
	if tot := t.totals(); len(tot) > 0 {
		r.Notes = append(r.Notes, "violation occurrences before the per-fingerprint cap: "+strings.Join(tot, "; "))
	}
	if only != "" {
		r.Required = nil
	}
}

func init() {
	engine.Register(&engine.Check{
		ID:  "C11",
		Run: func(r *engine.Run) { run(r, "") },
		// Replay re-executes the section named in path[0] ("section=<name>") at the quick tier and
		// reports the violations found for the stored input (path[1]); all of the section's violations if the input is absent.
		Replay: func(raw json.RawMessage, path []string) (engine.StepResult, []string) {
			section := ""
			if len(path) > 0 {
				section = strings.TrimPrefix(path[0], "section=")
			}
			r := engine.NewRun("C11", "quick")
			run(r, section)
			var last engine.StepResult
			var all []engine.Violation
			for _, v := range r.Violations {
				all = append(all, v.Violation)
				if len(path) > 1 && len(v.Path) > 1 && v.Path[1] == path[1] {
					last.Violations = append(last.Violations, v.Violation)
				}
			}
			if len(last.Violations) == 0 {
				last.Violations = all
			}
			outs := []string{"section re-executed", fmt.Sprintf("%d violation(s)", len(last.Violations))}
			return last, outs
		},
	})
}
