package c11

import (
	"bytes"
	"fmt"
	"math"
	"strings"
	"time"
	"unicode/utf8"

	sdk "github.com/cosmos/cosmos-sdk/types"

	bandtsstypes "github.com/bandprotocol/chain/v3/x/bandtss/types"
	feedstypes "github.com/bandprotocol/chain/v3/x/feeds/types"
	oracletypes "github.com/bandprotocol/chain/v3/x/oracle/types"
	tsstypes "github.com/bandprotocol/chain/v3/x/tss/types"
	tunneltypes "github.com/bandprotocol/chain/v3/x/tunnel/types"
)

const nulClause = "signal-id-with-leading-nul-not-recoverable-from-bytes32"

// clauseErr is a decode failure that names the violated clause (becomes part of the fingerprint).
type clauseErr struct {
	clause string
	msg    string
}

func (e *clauseErr) Error() string { return e.msg }

func cerr(clause, format string, a ...any) error {
	return &clauseErr{clause: clause, msg: fmt.Sprintf(format, a...)}
}

// contentCase is one content instance together with the on-chain data it refers to and the reference.
type contentCase struct {
	kind    string // text | oracle | feeds | tunnel | transition
	route   string // documented route (module) name
	tag     string // documented kind / encoder name whose keccak prefix tags the payload
	desc    string
	install func(b *base, ctx sdk.Context) // environment write of the on-chain data (nil: none)
	content tsstypes.Content
	// want returns the reference payload and the canonical identity of the values it carries;
	// ok=false: the statement does not define an encoding for this input (observed, not judged).
	want func(unix int64) (payload []byte, canon string, ok bool)
	// decode independently decodes a payload and compares with the on-chain values.
	decode func(payload []byte, unix int64) error
	// mustReject is non-empty when no payload can carry the on-chain values (a signal id longer than
	// 32 bytes does not fit a bytes32): the input has to be refused, never encoded in a truncated form.
	mustReject string
}

// oversize returns the reason when some signal id does not fit a bytes32.
func oversize(states []feedState) string {
	for _, s := range states {
		if len(s.ID) > 32 {
			return fmt.Sprintf("signal id %q is %d bytes (%d characters) and does not fit a bytes32", s.ID, len(s.ID), utf8.RuneCountInString(s.ID))
		}
	}
	return ""
}

// multiByteIDs are signal ids around the 32-byte limit built from 2-, 3- and 4-byte runes (padded
// with ASCII to the exact byte length), plus for each rune an id of 32+w bytes whose last 32 bytes
// are themselves a legal id (a truncating encoder makes the two collide).
func multiByteIDs() (legal, tooLong []string) {
	for _, r := range []string{"\u00e9", "\u20ac", "\U0001F600"} {
		w := len(r)
		mk := func(n int) string { return strings.Repeat("x", n%w) + strings.Repeat(r, n/w) }
		for _, n := range []int{31, 32} {
			legal = append(legal, mk(n))
		}
		for _, n := range []int{33, 34} {
			tooLong = append(tooLong, mk(n))
		}
		tooLong = append(tooLong, r+mk(32))
	}
	return legal, tooLong
}

// ---- text -------------------------------------------------------------------------------------

func textCase(msg []byte) contentCase {
	return contentCase{
		kind: "text", route: "tss", tag: "Text", desc: fmt.Sprintf("text(%s)", short(msg)),
		content: tsstypes.NewTextSignatureOrder(msg),
		want: func(int64) ([]byte, string, bool) {
			return msg, fmt.Sprintf("tss/Text/%x", msg), len(msg) <= 1000
		},
		decode: func(p []byte, _ int64) error {
			if !bytes.Equal(p, msg) {
				return cerr("text-differs", "payload %s is not the user text %s", short(p), short(msg))
			}
			return nil
		},
	}
}

func textCases() []contentCase {
	pat := func(n int) []byte {
		b := make([]byte, n)
		for i := range b {
			b[i] = byte(i*7 + 1)
		}
		return b
	}
	msgs := [][]byte{nil, {0x00}, []byte("a"), []byte("ab"), pat(31), pat(32), pat(33), pat(999), pat(1000), pat(1001)}
	// texts that imitate other kinds
	pk := append([]byte{0x02}, bytes.Repeat([]byte{0x11}, 32)...)
	msgs = append(msgs,
		cat(refTag("Transition"), pk, be64(1_700_000_000)),
		cat(refTag("bandtss"), refTag("Transition"), pk, be64(1_700_000_000)),
		cat(refTag("tunnel"), refTag("FixedPointABI"), make([]byte, 96)),
		refTag("Text"), cat(refTag("tss"), refTag("Text")),
	)
	var out []contentCase
	for _, m := range msgs {
		out = append(out, textCase(m))
	}
	return out
}

// ---- oracle -----------------------------------------------------------------------------------

func toOracle(r refResult) oracletypes.Result {
	return oracletypes.NewResult(r.ClientID, oracletypes.OracleScriptID(r.OracleScriptID), r.Calldata, r.AskCount, r.MinCount,
		oracletypes.RequestID(r.RequestID), r.AnsCount, r.RequestTime, r.ResolveTime, oracletypes.ResolveStatus(r.ResolveStatus), r.Result)
}

var oracleEncoderName = map[int32]string{1: "Proto", 2: "FullABI", 3: "PartialABI"}

func oracleCase(r refResult, enc int32) contentCase {
	name, known := oracleEncoderName[enc]
	partial := refResultPartial{Calldata: r.Calldata, OracleScriptID: r.OracleScriptID, RequestID: r.RequestID, MinCount: r.MinCount,
		ResolveTime: r.ResolveTime, ResolveStatus: r.ResolveStatus, Result: r.Result}
	return contentCase{
		kind: "oracle", route: "oracle", tag: name, desc: fmt.Sprintf("oracle(enc=%d,result=%s)", enc, r),
		install: func(b *base, ctx sdk.Context) {
			b.w.App.OracleKeeper.SetResult(ctx, oracletypes.RequestID(r.RequestID), toOracle(r))
		},
		content: oracletypes.NewOracleResultSignatureOrder(oracletypes.RequestID(r.RequestID), oracletypes.Encoder(enc)),
		want: func(int64) ([]byte, string, bool) {
			if !known {
				return nil, "", false
			}
			switch enc {
			case 1:
				return refResultProto(r), "oracle/Proto/" + r.String(), true
			case 2:
				p, err := refFullArgs.Pack(&r)
				if err != nil {
					panic(err)
				}
				return p, "oracle/FullABI/" + r.String(), true
			default:
				p, err := refPartialArgs.Pack(&partial)
				if err != nil {
					panic(err)
				}
				return p, fmt.Sprintf("oracle/PartialABI/%+v", partial), true
			}
		},
		decode: func(p []byte, _ int64) error {
			switch enc {
			case 1:
				d, err := decodeResultProto(p)
				if err != nil {
					return cerr("proto-undecodable", "%v", err)
				}
				if !sameResult(d, r) {
					return cerr("decoded-result-differs", "decoded %s, on-chain %s", d, r)
				}
			case 2:
				var d refResult
				if err := decodeABITuple(refFullArgs, p, &d); err != nil {
					return cerr("abi-undecodable", "%v", err)
				}
				if !sameResult(d, r) {
					return cerr("decoded-result-differs", "decoded %s, on-chain %s", d, r)
				}
			case 3:
				var d refResultPartial
				if err := decodeABITuple(refPartialArgs, p, &d); err != nil {
					return cerr("abi-undecodable", "%v", err)
				}
				if !bytes.Equal(d.Calldata, partial.Calldata) || d.OracleScriptID != partial.OracleScriptID || d.RequestID != partial.RequestID ||
					d.MinCount != partial.MinCount || d.ResolveTime != partial.ResolveTime || d.ResolveStatus != partial.ResolveStatus || !bytes.Equal(d.Result, partial.Result) {
					return cerr("decoded-result-differs", "decoded %+v, on-chain %+v", d, partial)
				}
			}
			return nil
		},
	}
}

func patBytes(n int, seed byte) []byte {
	if n == 0 {
		return nil
	}
	b := make([]byte, n)
	for i := range b {
		b[i] = seed + byte(i)
	}
	return b
}

// oracleResults enumerates results: every combination of dynamic-field lengths x numeric profiles.
func oracleResults(quick bool) []refResult {
	lens := []int{0, 1, 32, 33}
	if quick {
		lens = []int{0, 1, 33}
	}
	type nums struct {
		os, ask, min, rid, ans uint64
		rt, st                 int64
		status                 int32
	}
	var profiles []nums
	mx := uint64(math.MaxUint64)
	if false {
		mid := nums{3, 4, 2, 9, 3, 1_700_000_000, 1_700_000_005, 1}
		profiles = append(profiles, mid,
			nums{0, 0, 0, 1, 0, 0, 0, 0},
			nums{mx, mx, mx, mx, mx, math.MaxInt64, math.MaxInt64, 3})
		for f := 0; f < 8; f++ {
			for _, hi := range []bool{false, true} {
				p := mid
				u, i := uint64(0), int64(0)
				if hi {
					u, i = mx, math.MaxInt64
				}
				switch f {
				case 0:
					p.os = u
				case 1:
					p.ask = u
				case 2:
					p.min = u
				case 3:
					p.rid = u
					if !hi {
						p.rid = 1
					}
				case 4:
					p.ans = u
				case 5:
					p.rt = i
					if !hi {
						p.rt = -1
					}
				case 6:
					p.st = i
					if !hi {
						p.st = -1
					}
				case 7:
					p.status = 2
					if hi {
						p.status = 3
					}
				}
				profiles = append(profiles, p)
			}
		}
	} else {
		for _, os := range []uint64{0, 1, mx} {
			for _, ask := range []uint64{0, mx} {
				for _, mn := range []uint64{0, mx} {
					for _, rid := range []uint64{1, 2, mx} {
						for _, ans := range []uint64{0, mx} {
							for _, rt := range []int64{0, -1, math.MaxInt64} {
								for _, st := range []int64{0, math.MaxInt64} {
									for _, status := range []int32{0, 1, 2, 3} {
										profiles = append(profiles, nums{os, ask, mn, rid, ans, rt, st, status})
									}
								}
							}
						}
					}
				}
			}
		}
		profiles = append(profiles, nums{3, 4, 2, 9, 3, math.MinInt64, math.MinInt64, math.MaxInt32}, nums{3, 4, 2, 9, 3, 5, 6, -1})
	}
	var out []refResult
	for _, lc := range lens {
		for _, ld := range lens {
			for _, lr := range lens {
				for _, p := range profiles {
					out = append(out, refResult{
						ClientID: strings.Repeat("c", lc), OracleScriptID: p.os, Calldata: patBytes(ld, 0x10), AskCount: p.ask, MinCount: p.min,
						RequestID: p.rid, AnsCount: p.ans, RequestTime: p.rt, ResolveTime: p.st, ResolveStatus: p.status, Result: patBytes(lr, 0xa0),
					})
				}
			}
		}
	}
	return out
}

// ---- feeds / tunnel price lists ---------------------------------------------------------------

// feedState is the on-chain state of one signal: absent from the price store, or present with a price.
type feedState struct {
	ID      string
	Present bool
	Price   uint64
}

func (f feedState) String() string {
	if !f.Present {
		return fmt.Sprintf("{%q absent}", f.ID)
	}
	return fmt.Sprintf("{%q price=%d}", f.ID, f.Price)
}

func (f feedState) value() uint64 {
	if !f.Present {
		return 0
	}
	return f.Price
}

var feedsEncoderName = map[int32]string{1: "FixedPointABI", 2: "TickABI"}

// relayEntries is the reference list carried by the payload: (bytes32(signal id), price or tick+2^18, 0 stays 0).
func relayEntries(states []feedState, enc int32, tt *tickTable) ([]refRelayPrice, string, bool) {
	entries := make([]refRelayPrice, 0, len(states))
	var sb strings.Builder
	for _, s := range states {
		id, ok := refSignalBytes32(s.ID)
		if !ok {
			return nil, "", false
		}
		v := s.value()
		if enc == 2 && v != 0 {
			t, ok := tt.refTick(v)
			if !ok {
				return nil, "", false
			}
			v = uint64(t + refOffset)
		}
		entries = append(entries, refRelayPrice{SignalID: id, Price: v})
		fmt.Fprintf(&sb, "(%q,%d)", s.ID, v)
	}
	return entries, sb.String(), true
}

func checkEntries(got []refRelayPrice, states []feedState, want []refRelayPrice) error {
	if len(got) != len(want) {
		return cerr("price-count-differs", "decoded %d entries, on-chain list has %d", len(got), len(want))
	}
	for i := range got {
		if id := decodeSignalID(got[i].SignalID); id != states[i].ID {
			clause := "signal-id-differs"
			if strings.HasPrefix(states[i].ID, "\x00") && got[i].SignalID == want[i].SignalID {
				clause = nulClause
			}
			return cerr(clause, "entry %d decodes to signal id %q, on-chain signal id is %q", i, id, states[i].ID)
		}
		if got[i].Price != want[i].Price {
			return cerr("price-value-differs", "entry %d (%q) carries %d, expected %d (on-chain price %d)", i, states[i].ID, got[i].Price, want[i].Price, states[i].value())
		}
	}
	return nil
}

func mustRejectIf(knownEncoder bool, states []feedState) string {
	if !knownEncoder {
		return ""
	}
	return oversize(states)
}

func feedsCase(states []feedState, enc int32, tt *tickTable) contentCase {
	name, known := feedsEncoderName[enc]
	ids := make([]string, len(states))
	for i, s := range states {
		ids[i] = s.ID
	}
	return contentCase{
		kind: "feeds", route: "feeds", tag: name, desc: fmt.Sprintf("feeds(enc=%d,signals=%+v)", enc, states),
		mustReject: mustRejectIf(known, states),
		install: func(b *base, ctx sdk.Context) {
			for _, s := range states {
				if s.Present {
					b.w.App.FeedsKeeper.SetPrice(ctx, feedstypes.NewPrice(feedstypes.PRICE_STATUS_AVAILABLE, s.ID, s.Price, 1_600_000_000))
				}
			}
		},
		content: feedstypes.NewFeedSignatureOrder(ids, feedstypes.Encoder(enc)),
		want: func(unix int64) ([]byte, string, bool) {
			if !known {
				return nil, "", false
			}
			entries, canon, ok := relayEntries(states, enc, tt)
			if !ok {
				return nil, "", false
			}
			p, err := refFeedsArgs.Pack(entries, unix)
			if err != nil {
				panic(err)
			}
			return p, fmt.Sprintf("feeds/%s/%s/ts=%d", name, canon, unix), true
		},
		decode: func(p []byte, unix int64) error {
			want, _, _ := relayEntries(states, enc, tt)
			got, ts, err := decodeFeedsABI(p)
			if err != nil {
				return cerr("abi-undecodable", "%v", err)
			}
			if ts != unix {
				return cerr("timestamp-not-block-time", "decoded timestamp %d, block time %d", ts, unix)
			}
			return checkEntries(got, states, want)
		},
	}
}

func tunnelOrderCase(seq uint64, states []feedState, createdAt int64, enc int32, tt *tickTable) contentCase {
	name, known := feedsEncoderName[enc]
	prices := make([]feedstypes.Price, len(states))
	for i, s := range states {
		prices[i] = feedstypes.NewPrice(feedstypes.PRICE_STATUS_AVAILABLE, s.ID, s.value(), 1_600_000_000)
	}
	return contentCase{
		kind: "tunnel", route: "tunnel", tag: name, desc: fmt.Sprintf("tunnelpacket(enc=%d,seq=%d,created=%d,prices=%+v)", enc, seq, createdAt, states),
		mustReject: mustRejectIf(known, states),
		content:    tunneltypes.NewTunnelSignatureOrder(seq, prices, createdAt, feedstypes.Encoder(enc)),
		want: func(int64) ([]byte, string, bool) {
			if !known {
				return nil, "", false
			}
			entries, canon, ok := relayEntries(states, enc, tt)
			if !ok {
				return nil, "", false
			}
			p, err := refPacketArgs.Pack(&refPacket{Sequence: seq, RelayPrices: entries, CreatedAt: createdAt})
			if err != nil {
				panic(err)
			}
			return p, fmt.Sprintf("tunnel/%s/seq=%d/%s/created=%d", name, seq, canon, createdAt), true
		},
		decode: func(p []byte, _ int64) error {
			want, _, _ := relayEntries(states, enc, tt)
			var d refPacket
			if err := decodeABITuple(refPacketArgs, p, &d); err != nil {
				return cerr("abi-undecodable", "%v", err)
			}
			if d.Sequence != seq {
				return cerr("sequence-differs", "decoded sequence %d, packet sequence %d", d.Sequence, seq)
			}
			if d.CreatedAt != createdAt {
				return cerr("created-at-differs", "decoded created_at %d, packet created_at %d", d.CreatedAt, createdAt)
			}
			return checkEntries(d.RelayPrices, states, want)
		},
	}
}

var (
	z32  = strings.Repeat("z", 32)
	ff32 = strings.Repeat("\xff", 32)
)

// priceLists enumerates ordered lists of 0..maxLen distinct signals, each in every state.
func priceLists(ids []string, prices []uint64, withAbsent bool, maxLen int) [][]feedState {
	var states func(id string) []feedState
	states = func(id string) []feedState {
		var out []feedState
		if withAbsent {
			out = append(out, feedState{ID: id})
		}
		for _, p := range prices {
			out = append(out, feedState{ID: id, Present: true, Price: p})
		}
		return out
	}
	out := [][]feedState{{}}
	var rec func(prefix []feedState, used map[string]bool)
	rec = func(prefix []feedState, used map[string]bool) {
		if len(prefix) == maxLen {
			return
		}
		for _, id := range ids {
			if used[id] {
				continue
			}
			for _, s := range states(id) {
				l := append(append([]feedState{}, prefix...), s)
				out = append(out, l)
				used[id] = true
				rec(l, used)
				used[id] = false
			}
		}
	}
	rec(nil, map[string]bool{})
	return out
}

// ---- transition -------------------------------------------------------------------------------

func transitionCase(pub []byte, unix int64) contentCase {
	return contentCase{
		kind: "transition", route: "bandtss", tag: "Transition", desc: fmt.Sprintf("transition(pubkey=%x,time=%d)", pub, unix),
		content: bandtsstypes.NewGroupTransitionSignatureOrder(pub, time.Unix(unix, 0).UTC()),
		want: func(int64) ([]byte, string, bool) {
			return cat(pub, be64(uint64(unix))), fmt.Sprintf("bandtss/Transition/%x/%d", pub, unix), len(pub) == 33
		},
		decode: func(p []byte, _ int64) error {
			if len(p) != 33+8 {
				return cerr("length", "payload is %d bytes, expected 33-byte compressed key + 8-byte time", len(p))
			}
			if !bytes.Equal(p[:33], pub) {
				return cerr("pubkey-differs", "decoded key %x, transition key %x", p[:33], pub)
			}
			if !bytes.Equal(p[33:], be64(uint64(unix))) {
				return cerr("time-differs", "decoded time %x, transition time %d", p[33:], unix)
			}
			return nil
		},
	}
}

// ---- evaluation through the real content router -----------------------------------------------

// evalContent installs the on-chain data, calls the real route handler registered in app.go (with
// its selector wrapper) and judges the produced content.  It returns the content bytes (nil on error).
func evalContent(b *base, t tally, cs *syncCollisions, ctx sdk.Context, c contentCase, section string) []byte {
	cfg := map[string]any{"section": section}
	unix := ctx.BlockTime().Unix()
	input := fmt.Sprintf("%s@time=%d", c.desc, unix)
	path := []string{"section=" + section, input}
	t.Eval()
	if c.install != nil {
		c.install(b, ctx)
	}
	route := c.content.OrderRoute()
	if !b.router.HasRoute(route) {
		t.Violate(cfg, path, "content-route:not-registered:"+c.kind, fmt.Sprintf("%s: route %q has no handler", input, route))
		return nil
	}
	got, err := b.router.GetRoute(route)(ctx, c.content)
	if b.lastOut != nil && !bytes.Equal(b.lastOut, b.lastCopy) {
		t.Violate(cfg, path, "content-bytes-of-earlier-request-changed-by-later-request", fmt.Sprintf("content returned for %s was %s and reads %s after encoding %s: requests share a buffer", b.lastDesc, short(b.lastCopy), short(b.lastOut), input))
	}
	b.lastOut, b.lastCopy, b.lastDesc = got, append([]byte(nil), got...), input
	if c.mustReject != "" {
		if err == nil {
			detail := fmt.Sprintf("%s: %s, yet the handler produced the content %s", input, c.mustReject, short(got))
			t.Violate(cfg, path, "content:signal-id-longer-than-32-bytes-encoded:"+c.kind, detail)
		} else {
			t.Saw("content:" + c.kind + ":oversize-signal-id-rejected")
		}
		return got
	}
	payload, canon, ok := c.want(unix)
	if !ok {
		if err != nil {
			t.Saw("content:" + c.kind + ":outside-statement:rejected")
		} else {
			t.Saw("content:" + c.kind + ":outside-statement:encoded")
		}
		return got
	}
	t.Nontrivial(canon)
	if err != nil {
		t.Violate(cfg, path, "content-handler:error-on-valid-input:"+c.kind+":"+c.tag, fmt.Sprintf("%s: handler error %v", input, err))
		return nil
	}
	want := refContent(c.route, c.tag, payload)
	decodeFailed := false
	switch {
	case len(got) < 8:
		t.Violate(cfg, path, "content:shorter-than-selector-and-tag:"+c.kind, fmt.Sprintf("%s: content %x", input, got))
	case !bytes.Equal(got[:4], want[:4]):
		t.Violate(cfg, path, "content:route-selector-not-keccak-of-route:"+c.kind, fmt.Sprintf("%s: selector %x, expected keccak256(%q)[:4]=%x", input, got[:4], c.route, want[:4]))
	case !bytes.Equal(got[4:8], want[4:8]):
		t.Violate(cfg, path, "content:tag-not-keccak-of-kind-name:"+c.tag, fmt.Sprintf("%s: tag %x, expected keccak256(%q)[:4]=%x", input, got[4:8], c.tag, want[4:8]))
	default:
		if derr := c.decode(got[8:], unix); derr != nil {
			decodeFailed = true
			clause := "other"
			if ce, ok := derr.(*clauseErr); ok {
				clause = ce.clause
			}
			fp := "content-decode:" + c.kind + ":" + c.tag + ":" + clause
			if clause == nulClause {
				fp = "content-decode:" + nulClause // one root cause, whatever the encoder
			}
			t.Violate(cfg, path, fp, fmt.Sprintf("%s: %v; payload %s", input, derr, short(got[8:])))
		} else if !bytes.Equal(got, want) {
			t.Violate(cfg, path, "content-bytes:"+c.kind+":"+c.tag, fmt.Sprintf("%s: got %s want %s", input, short(got), short(want)))
		}
	}
	if decodeFailed {
		return got // root cause already reported; do not also report the resulting collision
	}
	if other, bad := cs.add(got, canon); bad {
		t.Violate(cfg, path, "content-collision:"+c.kind, fmt.Sprintf("two different inputs share the content %s: %s and %s", short(got), other, canon))
	}
	t.Saw("content:" + c.kind + ":" + c.tag)
	return got
}
