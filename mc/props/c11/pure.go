package c11

import (
	"bytes"
	"encoding/hex"
	"fmt"
	"math"
	"strings"
	"time"
	"unicode/utf8"

	cmtproto "github.com/cometbft/cometbft/proto/tendermint/types"

	sdk "github.com/cosmos/cosmos-sdk/types"

	"github.com/bandprotocol/chain/v3/x/bandtss"
	feedstypes "github.com/bandprotocol/chain/v3/x/feeds/types"
	"github.com/bandprotocol/chain/v3/x/oracle"
	"github.com/bandprotocol/chain/v3/x/tss"
	tsstypes "github.com/bandprotocol/chain/v3/x/tss/types"
	"github.com/bandprotocol/chain/v3/zzverif/engine"
)

// strAlphabet is the string alphabet for originator fields: empty, single characters, a string and
// its two splits ("ab" vs "a","b"), delimiter-like strings, NUL, a 32-byte 0xff block, a long string,
// strings that differ only in letter case or in leading/trailing spaces, an EIP-55 mixed-case hex
// address with its lower- and upper-case forms, a base58-like address and upper/lower-case chain ids.
var strAlphabet = []string{
	"", "a", "b", "ab", "a|b", "|", "a,b", "a\x00", "\x00", "a/b", " ",
	strings.Repeat("\xff", 32), strings.Repeat("a", 33), "bandchain", "band-laozi-testnet",
	"A", "aB", "AB", " a", "a ", "BANDCHAIN", "eth", "ETH",
	eip55Addr, strings.ToLower(eip55Addr), "0X" + strings.ToUpper(eip55Addr[2:]), base58Addr,
}

const (
	eip55Addr  = "0x5aAeb6053F3E94C9b9A09f33669435E7Ef1BeAed"  // EIP-55 checksummed (mixed case)
	base58Addr = "7EcDhSYGxXyscszYEp35KHN8vvw3svAuLKTzXwCFLtV" // base58 (case-sensitive)
)

var tunnelIDAlphabet = []uint64{0, 1, 2, 0x6162 /* "ab" */, 1 << 32, math.MaxUint64 - 1, math.MaxUint64}

// collisionSet detects two different inputs with identical encodings.
type collisionSet struct {
	seen map[string]string // encoding -> canonical input
}

func newCollisionSet() *collisionSet { return &collisionSet{seen: map[string]string{}} }

// add returns the previously stored input when enc was already produced by a different input.
func (c *collisionSet) add(enc []byte, input string) (other string, collided bool) {
	k := string(enc)
	if prev, ok := c.seen[k]; ok {
		if prev != input {
			return prev, true
		}
		return "", false
	}
	c.seen[k] = input
	return "", false
}

func short(b []byte) string {
	if len(b) <= 48 {
		return hex.EncodeToString(b)
	}
	return hex.EncodeToString(b[:24]) + ".." + hex.EncodeToString(b[len(b)-16:]) + fmt.Sprintf("(%dB)", len(b))
}

// runOriginators: every direct originator (chain x requester x memo) and every tunnel originator
// (chain x tunnel id x destination chain x destination contract) over the alphabets.
func runOriginators(t tally) {
	cfg := map[string]any{"section": "originator"}
	set := newCollisionSet()
	hashes := newCollisionSet()
	check := func(kind, input string, enc []byte, err error, want []byte, wantLen int) {
		t.Eval()
		path := []string{"section=originator", input}
		if err != nil {
			t.Violate(cfg, path, "originator-encode:error", fmt.Sprintf("%s: Encode() error %v", input, err))
			return
		}
		t.Nontrivial(input)
		if len(enc) != wantLen {
			t.Violate(cfg, path, "originator-encode:not-fixed-width:"+kind, fmt.Sprintf("%s encodes to %d bytes, expected the fixed width %d (tag + hashed/fixed-width fields): %s", input, len(enc), wantLen, short(enc)))
		} else if !bytes.Equal(enc[:4], want[:4]) {
			t.Violate(cfg, path, "originator-encode:tag-is-not-keccak-of-kind-name:"+kind, fmt.Sprintf("%s: tag %x, expected keccak256(%q)[:4] = %x", input, enc[:4], kind, want[:4]))
		} else if !bytes.Equal(enc, want) {
			t.Violate(cfg, path, "originator-encode:layout:"+kind, fmt.Sprintf("%s: got %x want %x", input, enc, want))
		}
		if other, bad := set.add(enc, input); bad {
			t.Violate(cfg, path, "originator-encode:collision", fmt.Sprintf("two different originators share the encoding %s: %s and %s", short(enc), other, input))
		}
		// injectivity monitor on what is actually signed: the 32-byte hash of the encoding
		if other, bad := hashes.add(keccak(enc), input); bad {
			t.Violate(cfg, path, "originator-hash:shared-by-different-originators:"+kind, fmt.Sprintf("two originators that differ in some field share hash(originator) %x: %s and %s", keccak(enc), other, input))
		}
		t.Saw("orig:" + kind)
	}
	for _, chain := range strAlphabet {
		for _, req := range strAlphabet {
			for _, memo := range strAlphabet {
				o := tsstypes.NewDirectOriginator(chain, req, memo)
				enc, err := o.Encode()
				check("DirectOriginator", fmt.Sprintf("direct(chain=%q,requester=%q,memo=%q)", chain, req, memo), enc, err, refDirectOriginator(chain, req, memo), 4+3*32)
			}
		}
	}
	for _, chain := range strAlphabet {
		for _, id := range tunnelIDAlphabet {
			for _, dc := range strAlphabet {
				for _, da := range strAlphabet {
					o := tsstypes.NewTunnelOriginator(chain, id, dc, da)
					enc, err := o.Encode()
					check("TunnelOriginator", fmt.Sprintf("tunnel(chain=%q,id=%d,dst_chain=%q,dst_contract=%q)", chain, id, dc, da), enc, err, refTunnelOriginator(chain, id, dc, da), 4+32+8+2*32)
				}
			}
		}
	}
	t.Sample(40, map[string]any{"section": "originator", "example": "direct(\"a|b\",\"\",\"\") vs direct(\"a\",\"b\",\"\")",
		"a": short(refDirectOriginator("a|b", "", "")), "b": short(refDirectOriginator("a", "b", ""))})
}

// runEncodeSigning: the real EncodeSigning over originator bytes x block time x signing id x content.
func runEncodeSigning(t tally) {
	cfg := map[string]any{"section": "encode-signing"}
	origs := [][]byte{
		nil, {0x00}, {0x01}, []byte("a"), []byte("ab"),
		refDirectOriginator("bandchain", "band1xyz", ""), refDirectOriginator("bandchain", "band1xyz", "m"),
		refTunnelOriginator("bandchain", 1, "eth", "0x01"), refTunnelOriginator("bandchain", 2, "eth", "0x01"),
	}
	times := []int64{0, 1, 2, 255, 256, 1_700_000_003, 1 << 32, math.MaxInt64, -1}
	ids := []uint64{0, 1, 2, 255, 256, 1 << 32, math.MaxUint64 - 1, math.MaxUint64}
	contents := [][]byte{
		nil, {0x00}, {0x01}, []byte("a"), []byte("ab"), be64(1), be64(2), cat(be64(1), be64(2)), cat(be64(2), []byte("a")),
		refContent("tss", "Text", nil), refContent("tss", "Text", []byte("a")), refContent("feeds", "TickABI", bytes.Repeat([]byte{0xff}, 96)),
	}
	set := newCollisionSet()
	for oi, o := range origs {
		for _, tm := range times {
			ctx := sdk.Context{}.WithBlockHeader(cmtproto.Header{Time: time.Unix(tm, 0).UTC()})
			if ctx.BlockTime().Unix() != tm {
				engine.Fatal3("C11: cannot represent block time %d in a context (got %d)", tm, ctx.BlockTime().Unix())
			}
			for _, id := range ids {
				for ci, c := range contents {
					t.Eval()
					input := fmt.Sprintf("EncodeSigning(originator#%d=%x, time=%d, id=%d, content#%d=%x)", oi, o, tm, id, ci, c)
					path := []string{"section=encode-signing", input}
					got := tsstypes.EncodeSigning(ctx, id, o, c)
					want := refMessage(o, tm, id, c)
					t.Nontrivial(input)
					switch {
					case len(got) != 48+len(c):
						t.Violate(cfg, path, "signing-message:header-not-48-bytes", fmt.Sprintf("%s: %d bytes, expected 32+8+8+%d", input, len(got), len(c)))
					case !bytes.Equal(got[:32], want[:32]):
						t.Violate(cfg, path, "signing-message:bytes-0-32-not-keccak-of-originator", fmt.Sprintf("%s: got %x want %x", input, got[:32], want[:32]))
					case !bytes.Equal(got[32:40], want[32:40]):
						t.Violate(cfg, path, "signing-message:bytes-32-40-not-block-time", fmt.Sprintf("%s: got %x want %x", input, got[32:40], want[32:40]))
					case !bytes.Equal(got[40:48], want[40:48]):
						t.Violate(cfg, path, "signing-message:bytes-40-48-not-signing-id", fmt.Sprintf("%s: got %x want %x", input, got[40:48], want[40:48]))
					case !bytes.Equal(got[48:], c):
						t.Violate(cfg, path, "signing-message:tail-not-content", fmt.Sprintf("%s: got %x want %x", input, got[48:], c))
					}
					if other, bad := set.add(got, input); bad {
						t.Violate(cfg, path, "signing-message:collision", fmt.Sprintf("two different (originator,time,id,content) tuples share the message %s: %s and %s", short(got), other, input))
					}
					t.Saw("encode-signing")
				}
			}
		}
	}
}

// runTags: the tag constants the repository exports equal keccak256(name)[:4] and are pairwise distinct
// within the namespace where they are used.
func runTags(t tally) {
	cfg := map[string]any{"section": "tags"}
	tags := []struct{ ns, name, got string }{
		{"originator", "DirectOriginator", tsstypes.DirectOriginatorPrefix},
		{"originator", "TunnelOriginator", tsstypes.TunnelOriginatorPrefix},
		{"route:tss", "Text", tss.TextMsgPrefix},
		{"route:bandtss", "Transition", bandtss.GroupTransitionMsgPrefix},
		{"route:oracle", "Proto", oracle.EncoderProtoPrefix},
		{"route:oracle", "FullABI", oracle.EncoderFullABIPrefix},
		{"route:oracle", "PartialABI", oracle.EncoderPartialABIPrefix},
		{"route:feeds+tunnel", "FixedPointABI", feedstypes.EncoderFixedPointABIPrefix},
		{"route:feeds+tunnel", "TickABI", feedstypes.EncoderTickABIPrefix},
	}
	seen := map[string]string{}
	for _, tg := range tags {
		t.Eval()
		t.Nontrivial("tag:" + tg.name)
		want := refTag(tg.name)
		if !bytes.Equal([]byte(tg.got), want) {
			t.Violate(cfg, []string{"section=tags", "tag=" + tg.name}, "tag-constant:not-keccak-of-name:"+tg.name,
				fmt.Sprintf("tag constant of %q is %x, documented keccak256(%q)[:4] = %x", tg.name, tg.got, tg.name, want))
		}
		if prev, ok := seen[tg.got]; ok {
			t.Violate(cfg, []string{"section=tags", "tag=" + tg.name}, "tag-constant:duplicate",
				fmt.Sprintf("kinds %q and %q share the tag %x", prev, tg.name, tg.got))
		}
		seen[tg.got] = tg.name
		t.Saw("tag-constant")
	}
}

// runSignalIDs: the real StringToBytes32 on signal ids around the 32-byte limit (ASCII and multi-byte
// UTF-8): an id of at most 32 BYTES is carried right-aligned and decodes back; a longer one is refused.
func runSignalIDs(t tally) {
	cfg := map[string]any{"section": "signal-id"}
	legalMB, longMB := multiByteIDs()
	ids := []string{"", "a", "CS:BTC-USD", strings.Repeat("z", 31), z32, strings.Repeat("z", 33), strings.Repeat("z", 64), ff32, ff32 + "\xff", "\x01"}
	ids = append(append(ids, legalMB...), longMB...)
	seen := map[[32]byte]string{}
	for _, id := range ids {
		t.Eval()
		input := fmt.Sprintf("StringToBytes32(%q) [%d bytes, %d characters]", id, len(id), utf8.RuneCountInString(id))
		path := []string{"section=signal-id", input}
		got, err := feedstypes.StringToBytes32(id)
		want, fits := refSignalBytes32(id)
		t.Nontrivial(input)
		switch {
		case !fits && err == nil:
			t.Violate(cfg, path, "signal-id:longer-than-32-bytes-not-refused", fmt.Sprintf("%s = %x (decodes to %q): an id that does not fit must be refused, not truncated", input, got, decodeSignalID(got)))
		case !fits:
			t.Saw("signal-id:oversize-refused")
		case err != nil:
			t.Violate(cfg, path, "signal-id:refused-although-it-fits", fmt.Sprintf("%s: %v", input, err))
		case got != want || decodeSignalID(got) != id:
			t.Violate(cfg, path, "signal-id:bytes32-does-not-decode-back", fmt.Sprintf("%s = %x, decodes to %q; expected %x", input, got, decodeSignalID(got), want))
		default:
			t.Saw("signal-id:round-trip")
		}
		if err == nil {
			if prev, ok := seen[got]; ok && prev != id {
				t.Violate(cfg, path, "signal-id:two-ids-one-bytes32", fmt.Sprintf("%q and %q both encode to %x", prev, id, got))
			}
			seen[got] = id
		}
	}
}
