package c11

// Independent reference for property C11, written from the property statement and the documented
// formats (proto field lists, "keccak(name)[:4]" tag comments, Solidity struct layouts); nothing in
// this file calls repository encoders.  Byte layouts are produced with golang.org/x/crypto/sha3,
// encoding/binary, a hand-written protobuf writer and go-ethereum's abi package driven by type
// definitions declared here.

import (
	"bytes"
	"encoding/binary"
	"fmt"
	"math/big"

	"github.com/ethereum/go-ethereum/accounts/abi"
	"golang.org/x/crypto/sha3"
)

func keccak(parts ...[]byte) []byte {
	h := sha3.NewLegacyKeccak256()
	for _, p := range parts {
		h.Write(p)
	}
	return h.Sum(nil)
}

func be64(u uint64) []byte {
	var b [8]byte
	binary.BigEndian.PutUint64(b[:], u)
	return b[:]
}

// refTag is the documented 4-byte tag of a kind: the first four bytes of keccak256(name).
func refTag(name string) []byte { return keccak([]byte(name))[:4] }

func cat(parts ...[]byte) []byte { return bytes.Join(parts, nil) }

// refDirectOriginator: tag("DirectOriginator") | H(source chain) | H(requester) | H(memo).
func refDirectOriginator(chain, requester, memo string) []byte {
	return cat(refTag("DirectOriginator"), keccak([]byte(chain)), keccak([]byte(requester)), keccak([]byte(memo)))
}

// refTunnelOriginator: tag("TunnelOriginator") | H(source chain) | be64(tunnel id) | H(dest chain) | H(dest contract).
func refTunnelOriginator(chain string, tunnelID uint64, dstChain, dstContract string) []byte {
	return cat(refTag("TunnelOriginator"), keccak([]byte(chain)), be64(tunnelID), keccak([]byte(dstChain)), keccak([]byte(dstContract)))
}

// refMessage: H(originator) | be64(block time) | be64(signing id) | content.
func refMessage(originator []byte, unix int64, signingID uint64, content []byte) []byte {
	return cat(keccak(originator), be64(uint64(unix)), be64(signingID), content)
}

// refContent: selector(route) | tag(kind) | payload.
func refContent(route, kind string, payload []byte) []byte {
	return cat(refTag(route), refTag(kind), payload)
}

// ---- oracle result ----------------------------------------------------------------------------

// refResult is the on-chain oracle result (field list of band.oracle.v1.Result).
type refResult struct {
	ClientID       string
	OracleScriptID uint64
	Calldata       []byte
	AskCount       uint64
	MinCount       uint64
	RequestID      uint64
	AnsCount       uint64
	RequestTime    int64
	ResolveTime    int64
	ResolveStatus  int32
	Result         []byte
}

func (r refResult) String() string {
	return fmt.Sprintf("{cid=%q os=%d cd=%x ask=%d min=%d rid=%d ans=%d rt=%d st=%d status=%d res=%x}",
		r.ClientID, r.OracleScriptID, r.Calldata, r.AskCount, r.MinCount, r.RequestID, r.AnsCount, r.RequestTime, r.ResolveTime, r.ResolveStatus, r.Result)
}

type refResultPartial struct {
	Calldata       []byte
	OracleScriptID uint64
	RequestID      uint64
	MinCount       uint64
	ResolveTime    int64
	ResolveStatus  int32
	Result         []byte
}

func mustType(t string, internal string, comps []abi.ArgumentMarshaling) abi.Type {
	ty, err := abi.NewType(t, internal, comps)
	if err != nil {
		panic(err)
	}
	return ty
}

var (
	refFullArgs = abi.Arguments{{Name: "result", Type: mustType("tuple", "result", []abi.ArgumentMarshaling{
		{Name: "ClientID", Type: "string"},
		{Name: "OracleScriptID", Type: "uint64"},
		{Name: "Calldata", Type: "bytes"},
		{Name: "AskCount", Type: "uint64"},
		{Name: "MinCount", Type: "uint64"},
		{Name: "RequestID", Type: "uint64"},
		{Name: "AnsCount", Type: "uint64"},
		{Name: "RequestTime", Type: "int64"},
		{Name: "ResolveTime", Type: "int64"},
		{Name: "ResolveStatus", Type: "int32"},
		{Name: "Result", Type: "bytes"},
	})}}
	refPartialArgs = abi.Arguments{{Name: "result", Type: mustType("tuple", "result", []abi.ArgumentMarshaling{
		{Name: "Calldata", Type: "bytes"},
		{Name: "OracleScriptID", Type: "uint64"},
		{Name: "RequestID", Type: "uint64"},
		{Name: "MinCount", Type: "uint64"},
		{Name: "ResolveTime", Type: "int64"},
		{Name: "ResolveStatus", Type: "int32"},
		{Name: "Result", Type: "bytes"},
	})}}
	refPricesType = mustType("tuple[]", "struct Prices[]", []abi.ArgumentMarshaling{
		{Name: "SignalID", Type: "bytes32"},
		{Name: "Price", Type: "uint64"},
	})
	// feeds signature order: abi.encode(Prices[] prices, int64 timestamp)
	refFeedsArgs = abi.Arguments{
		{Name: "Prices", Type: refPricesType},
		{Name: "Timestamp", Type: mustType("int64", "", nil)},
	}
	// tunnel packet: abi.encode(struct{uint64 sequence; Prices[] prices; int64 createdAt})
	refPacketArgs = abi.Arguments{{Name: "packet", Type: mustType("tuple", "result", []abi.ArgumentMarshaling{
		{Name: "Sequence", Type: "uint64"},
		{Name: "RelayPrices", Type: "tuple[]", InternalType: "struct Prices[]", Components: []abi.ArgumentMarshaling{
			{Name: "SignalID", Type: "bytes32"},
			{Name: "Price", Type: "uint64"},
		}},
		{Name: "CreatedAt", Type: "int64"},
	})}}
)

// refRelayPrice is one (signal, value) entry as seen by the destination contract.
type refRelayPrice struct {
	SignalID [32]byte
	Price    uint64
}

type refPacket struct {
	Sequence    uint64
	RelayPrices []refRelayPrice
	CreatedAt   int64
}

// decodeABI unpacks data with args into out (a pointer to a struct mirroring the single tuple
// argument, or a pointer to a struct with one field per argument) and requires the canonical
// re-encoding of the decoded values to be byte-identical to data (no trailing or ambiguous bytes).
func decodeABITuple(args abi.Arguments, data []byte, out any) error {
	vals, err := args.Unpack(data)
	if err != nil {
		return fmt.Errorf("unpack: %w", err)
	}
	if len(vals) != 1 {
		return fmt.Errorf("unpack: %d values", len(vals))
	}
	abi.ConvertType(vals[0], out)
	re, err := args.Pack(out)
	if err != nil {
		return fmt.Errorf("repack: %w", err)
	}
	if !bytes.Equal(re, data) {
		return fmt.Errorf("payload is not the canonical ABI encoding of its decoded values (len %d vs %d)", len(data), len(re))
	}
	return nil
}

func decodeFeedsABI(data []byte) (prices []refRelayPrice, ts int64, err error) {
	vals, err := refFeedsArgs.Unpack(data)
	if err != nil {
		return nil, 0, fmt.Errorf("unpack: %w", err)
	}
	if len(vals) != 2 {
		return nil, 0, fmt.Errorf("unpack: %d values", len(vals))
	}
	abi.ConvertType(vals[0], &prices)
	ts = vals[1].(int64)
	if prices == nil {
		prices = []refRelayPrice{}
	}
	re, err := refFeedsArgs.Pack(prices, ts)
	if err != nil {
		return nil, 0, fmt.Errorf("repack: %w", err)
	}
	if !bytes.Equal(re, data) {
		return nil, 0, fmt.Errorf("payload is not the canonical ABI encoding of its decoded values (len %d vs %d)", len(data), len(re))
	}
	return prices, ts, nil
}

// ---- protobuf (hand-written proto3 writer/reader for band.oracle.v1.Result) --------------------

func pbVarint(b []byte, v uint64) []byte {
	for v >= 0x80 {
		b = append(b, byte(v)|0x80)
		v >>= 7
	}
	return append(b, byte(v))
}

func pbUint(b []byte, field int, v uint64) []byte {
	if v == 0 {
		return b
	}
	b = pbVarint(b, uint64(field)<<3|0)
	return pbVarint(b, v)
}

func pbBytes(b []byte, field int, v []byte) []byte {
	if len(v) == 0 {
		return b
	}
	b = pbVarint(b, uint64(field)<<3|2)
	b = pbVarint(b, uint64(len(v)))
	return append(b, v...)
}

// refResultProto is the canonical proto3 encoding of the result (fields 1..11 in order, defaults omitted).
func refResultProto(r refResult) []byte {
	var b []byte
	b = pbBytes(b, 1, []byte(r.ClientID))
	b = pbUint(b, 2, r.OracleScriptID)
	b = pbBytes(b, 3, r.Calldata)
	b = pbUint(b, 4, r.AskCount)
	b = pbUint(b, 5, r.MinCount)
	b = pbUint(b, 6, r.RequestID)
	b = pbUint(b, 7, r.AnsCount)
	b = pbUint(b, 8, uint64(r.RequestTime))
	b = pbUint(b, 9, uint64(r.ResolveTime))
	b = pbUint(b, 10, uint64(int64(r.ResolveStatus)))
	b = pbBytes(b, 11, r.Result)
	return b
}

// decodeResultProto reads a proto3 encoding of Result (strict: known fields, ascending order, each at most once).
func decodeResultProto(b []byte) (refResult, error) {
	var r refResult
	last := 0
	readVarint := func() (uint64, error) {
		var v uint64
		for s := uint(0); ; s += 7 {
			if len(b) == 0 || s > 63 {
				return 0, fmt.Errorf("bad varint")
			}
			c := b[0]
			b = b[1:]
			v |= uint64(c&0x7f) << s
			if c < 0x80 {
				return v, nil
			}
		}
	}
	for len(b) > 0 {
		key, err := readVarint()
		if err != nil {
			return r, err
		}
		field, wt := int(key>>3), int(key&7)
		if field <= last {
			return r, fmt.Errorf("field %d out of order / repeated", field)
		}
		last = field
		switch wt {
		case 0:
			v, err := readVarint()
			if err != nil {
				return r, err
			}
			switch field {
			case 2:
				r.OracleScriptID = v
			case 4:
				r.AskCount = v
			case 5:
				r.MinCount = v
			case 6:
				r.RequestID = v
			case 7:
				r.AnsCount = v
			case 8:
				r.RequestTime = int64(v)
			case 9:
				r.ResolveTime = int64(v)
			case 10:
				r.ResolveStatus = int32(int64(v))
			default:
				return r, fmt.Errorf("unexpected varint field %d", field)
			}
		case 2:
			n, err := readVarint()
			if err != nil || n > uint64(len(b)) {
				return r, fmt.Errorf("bad length")
			}
			v := append([]byte{}, b[:n]...)
			b = b[n:]
			switch field {
			case 1:
				r.ClientID = string(v)
			case 3:
				r.Calldata = v
			case 11:
				r.Result = v
			default:
				return r, fmt.Errorf("unexpected bytes field %d", field)
			}
		default:
			return r, fmt.Errorf("unexpected wire type %d", wt)
		}
	}
	return r, nil
}

func sameResult(a, b refResult) bool {
	return a.ClientID == b.ClientID && a.OracleScriptID == b.OracleScriptID && bytes.Equal(a.Calldata, b.Calldata) &&
		a.AskCount == b.AskCount && a.MinCount == b.MinCount && a.RequestID == b.RequestID && a.AnsCount == b.AnsCount &&
		a.RequestTime == b.RequestTime && a.ResolveTime == b.ResolveTime && a.ResolveStatus == b.ResolveStatus && bytes.Equal(a.Result, b.Result)
}

// ---- signal ids -------------------------------------------------------------------------------

// refSignalBytes32: a signal id is carried as a bytes32 right-aligned (left padded with zero bytes).
func refSignalBytes32(id string) ([32]byte, bool) {
	var out [32]byte
	if len(id) > 32 {
		return out, false
	}
	copy(out[32-len(id):], id)
	return out, true
}

// decodeSignalID is what a consumer recovers from the bytes32: the bytes after the zero padding.
func decodeSignalID(b [32]byte) string {
	i := 0
	for i < 32 && b[i] == 0 {
		i++
	}
	return string(b[i:])
}

// ---- tick reference ---------------------------------------------------------------------------

const (
	refMaxTick = 262143 // 2^18 - 1
	refOffset  = 262144 // 2^18: encoded tick = tick + 2^18
)

var two96 = new(big.Int).Lsh(big.NewInt(1), 96)

// tickTable holds, for every tick in [-refMaxTick, refMaxTick], the smallest integer price that is
// >= the tick's price (price*2^96 >= X96(tick)), i.e. the first price that decodes to this tick or
// a higher one.  bound[i] belongs to tick i-refMaxTick; values above 2^64-1 are stored as inf.
type tickTable struct {
	bound []uint64 // ceil(X96(t)/2^96), saturated
	inf   []bool   // bound exceeds 2^64-1 (tick unreachable for uint64 prices)
}

// refTick returns the largest tick whose boundary is <= price (by binary search); ok=false when no tick qualifies.
func (tt *tickTable) refTick(price uint64) (int64, bool) {
	lo, hi := 0, len(tt.bound) // first index with bound > price
	for lo < hi {
		mid := (lo + hi) / 2
		if tt.inf[mid] || tt.bound[mid] > price {
			hi = mid
		} else {
			lo = mid + 1
		}
	}
	if lo == 0 {
		return 0, false
	}
	return int64(lo-1) - refMaxTick, true
}
