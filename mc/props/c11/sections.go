package c11

import (
	"bytes"
	"errors"
	"fmt"
	"math"
	"sort"
	"strings"
	"sync"
	"time"
	"unicode/utf8"

	sdk "github.com/cosmos/cosmos-sdk/types"
	banktypes "github.com/cosmos/cosmos-sdk/x/bank/types"

	"github.com/bandprotocol/chain/v3/pkg/tss"
	bandtesting "github.com/bandprotocol/chain/v3/testing"
	bandtsstypes "github.com/bandprotocol/chain/v3/x/bandtss/types"
	feedstypes "github.com/bandprotocol/chain/v3/x/feeds/types"
	tsstypes "github.com/bandprotocol/chain/v3/x/tss/types"
	tunneltypes "github.com/bandprotocol/chain/v3/x/tunnel/types"
	"github.com/bandprotocol/chain/v3/zzverif/engine"
)

// maxBlockTime is the largest block time a chain can carry (9999-12-31T23:59:59Z, the protobuf Timestamp limit).
const maxBlockTime = int64(253402300799)

type env struct {
	r        *engine.Run
	quick    bool
	deadline time.Time
	tt       *tickTable
	pool     *pool
	contents *syncCollisions
	messages *syncCollisions
	prefixes *syncCollisions // message[0:32] -> route / requester that produced it

	vmu     sync.Mutex
	pending []pendingViol
}

// tally is what the judging code needs from engine.Tally.
type tally interface {
	Eval()
	Nontrivial(key string)
	Saw(o string)
	Sample(max int, s any)
	Violate(cfg any, path []string, fp, detail string)
}

type pendingViol struct {
	idx        int64
	cfg        any
	path       []string
	fp, detail string
}

// ordered is a tally whose violations are buffered with the index of the job that found them, so
// that they can be reported in enumeration order (simplest first) whatever the worker scheduling.
type ordered struct {
	tally
	e   *env
	idx int64
}

// limited keeps at most perFingerprint violations of each fingerprint (in arrival order), so that a
// flood of one kind cannot exhaust the engine's cap of kept violations and hide another kind.
type limited struct {
	*engine.Tally
	mu    sync.Mutex
	count map[string]int
}

const perFingerprint = 4

func newLimited(t *engine.Tally) *limited { return &limited{Tally: t, count: map[string]int{}} }

func (l *limited) Violate(cfg any, path []string, fp, detail string) {
	l.mu.Lock()
	l.count[fp]++
	n := l.count[fp]
	l.mu.Unlock()
	if n <= perFingerprint {
		l.Tally.Violate(cfg, path, fp, detail)
	}
}

// totals lists "fingerprint: occurrences" for the run notes.
func (l *limited) totals() []string {
	l.mu.Lock()
	defer l.mu.Unlock()
	var out []string
	for fp, n := range l.count {
		out = append(out, fmt.Sprintf("%s: %d occurrence(s)", fp, n))
	}
	sort.Strings(out)
	return out
}

func (o ordered) Violate(cfg any, path []string, fp, detail string) {
	o.e.vmu.Lock()
	if len(o.e.pending) < 4096 {
		o.e.pending = append(o.e.pending, pendingViol{o.idx, cfg, path, fp, detail})
	}
	o.e.vmu.Unlock()
}

// flush hands the buffered violations to the tally in job order.
func (e *env) flush(t tally) {
	e.vmu.Lock()
	defer e.vmu.Unlock()
	sort.SliceStable(e.pending, func(i, j int) bool { return e.pending[i].idx < e.pending[j].idx })
	for _, v := range e.pending {
		t.Violate(v.cfg, v.path, v.fp, v.detail)
	}
	e.pending = nil
}

func (e *env) capped(name string) {
	e.r.Exhaustive = false
	e.r.CapReasons = append(e.r.CapReasons, name+": internal deadline")
}

func uband(n int64) sdk.Coins { return sdk.NewCoins(sdk.NewInt64Coin("uband", n)) }

func fixedPoint(seed byte) []byte {
	s := make([]byte, 32)
	s[31] = seed
	s[0] = seed >> 1
	p := tss.Scalar(s).Point()
	return p
}

// ---- section "contents": every content kind through the real route handlers ---------------------

type contentJob struct {
	c    contentCase
	unix int64
}

func contentJobs(e *env, baseTime int64) []contentJob {
	var jobs []contentJob
	for _, c := range textCases() {
		jobs = append(jobs, contentJob{c, baseTime})
	}
	// oracle
	results := oracleResults(e.quick)
	for i, r := range results {
		for _, enc := range []int32{1, 2, 3} {
			jobs = append(jobs, contentJob{oracleCase(r, enc), baseTime})
		}
		if i == 0 {
			jobs = append(jobs, contentJob{oracleCase(r, 0), baseTime}, contentJob{oracleCase(r, 4), baseTime})
		}
	}
	// feeds
	ids := []string{"a", "CS:BTC-USD", z32, ff32}
	prices := []uint64{0, 1, 1_000_000_000, 1_000_099_999, math.MaxUint64}
	maxLen := 2
	times := []int64{0, baseTime, maxBlockTime}
	if !e.quick {
		ids = append(ids, "b", "\x01")
		times = []int64{0, 1, baseTime, maxBlockTime}
	}
	lists := priceLists(ids, prices, true, maxLen)
	if !e.quick {
		// a few lists of three signals
		lists = append(lists, priceLists([]string{"a", "b", z32}, []uint64{1, math.MaxUint64}, true, 3)...)
	}
	for li, l := range lists {
		for _, enc := range []int32{1, 2} {
			for _, tm := range times {
				jobs = append(jobs, contentJob{feedsCase(l, enc, e.tt), tm})
			}
		}
		if li < 3 {
			jobs = append(jobs, contentJob{feedsCase(l, 0, e.tt), baseTime}, contentJob{feedsCase(l, 3, e.tt), baseTime})
		}
	}
	// signal ids outside the 32-byte limit (must be refused) and multi-byte UTF-8 ids around the limit
	jobs = append(jobs, contentJob{feedsCase([]feedState{{ID: strings.Repeat("z", 33), Present: true, Price: 1}}, 1, e.tt), baseTime})
	legalMB, longMB := multiByteIDs()
	for _, enc := range []int32{1, 2} {
		for _, id := range append(append([]string{}, legalMB...), longMB...) {
			for _, st := range []feedState{{ID: id}, {ID: id, Present: true, Price: 5_000_000_000}} {
				jobs = append(jobs, contentJob{feedsCase([]feedState{st}, enc, e.tt), baseTime},
					contentJob{feedsCase([]feedState{{ID: "a", Present: true, Price: 1}, st}, enc, e.tt), baseTime})
				if st.Present {
					jobs = append(jobs, contentJob{tunnelOrderCase(1, []feedState{st}, baseTime, enc, e.tt), baseTime})
				}
			}
		}
		// an over-long id next to the legal id that is its last 32 bytes
		for _, long := range longMB {
			if suffix := long[len(long)-32:]; utf8.ValidString(suffix) {
				jobs = append(jobs, contentJob{feedsCase([]feedState{{ID: long, Present: true, Price: 7}, {ID: suffix, Present: true, Price: 9}}, enc, e.tt), baseTime})
			}
		}
	}
	// (signal ids with leading NUL bytes, which a bytes32 cannot carry, are exercised through the real
	// MsgRequestSignature handler in section "direct")
	// tunnel packets (content-supplied values)
	tlists := priceLists([]string{"a", z32}, []uint64{0, 1, math.MaxUint64}, false, 2)
	for _, seq := range []uint64{0, 1, math.MaxUint64} {
		for _, l := range tlists {
			for _, created := range []int64{0, 1, -1, baseTime, math.MaxInt64} {
				for _, enc := range []int32{1, 2} {
					jobs = append(jobs, contentJob{tunnelOrderCase(seq, l, created, enc, e.tt), baseTime})
				}
			}
		}
	}
	jobs = append(jobs, contentJob{tunnelOrderCase(1, tlists[1], 5, 0, e.tt), baseTime})
	// transition
	for _, seed := range []byte{1, 2, 0x7f} {
		for _, tm := range []int64{0, 1, baseTime + 10, maxBlockTime} {
			jobs = append(jobs, contentJob{transitionCase(fixedPoint(seed), tm), baseTime})
		}
	}
	return jobs
}

func runContents(e *env, t tally) {
	b0 := e.pool.get(0)
	jobs := contentJobs(e, b0.baseTime)
	done := engine.ParallelFor(int64(len(jobs)), 0, e.deadline, func(worker int, idx int64) {
		b := e.pool.get(worker)
		j := jobs[idx]
		ctx := b.atTime(j.unix)
		evalContent(b, ordered{t, e, idx}, e.contents, ctx, j.c, "contents")
		if idx%997 == 0 {
			t.Sample(40, map[string]any{"section": "contents", "input": j.c.desc, "time": j.unix})
		}
	})
	e.flush(t)
	if !done {
		e.capped("contents")
	}
	fmt.Printf("[C11] contents: %d inputs through the real route handlers, %d distinct encodings\n", len(jobs), e.contents.size())
}

// ---- section "direct": MsgRequestSignature through the real handler -----------------------------

func directContentCases(e *env) []contentCase {
	mid := refResult{ClientID: "cid", OracleScriptID: 3, Calldata: patBytes(33, 0x10), AskCount: 4, MinCount: 2, RequestID: 9, AnsCount: 3,
		RequestTime: 1_700_000_000, ResolveTime: 1_700_000_005, ResolveStatus: 1, Result: patBytes(33, 0xa0)}
	two := []feedState{{ID: "a", Present: true, Price: 1_000_000_000}, {ID: "CS:BTC-USD", Present: true, Price: math.MaxUint64}}
	cs := []contentCase{
		textCase(nil), textCase([]byte("a")), textCase(patBytes(1000, 1)), textCase(patBytes(1001, 1)),
		oracleCase(mid, 1), oracleCase(mid, 2), oracleCase(mid, 3),
		feedsCase(two, 1, e.tt), feedsCase(two, 2, e.tt),
		feedsCase([]feedState{{ID: z32}}, 1, e.tt),
	}
	// a user asks for "\x00CS:BTC-USD" (absent) while "CS:BTC-USD" has an on-chain price
	nul := feedsCase([]feedState{{ID: "\x00CS:BTC-USD"}}, 1, e.tt)
	nul.desc += "+onchain{\"CS:BTC-USD\" price=5000000000}"
	nul.install = func(b *base, ctx sdk.Context) {
		b.w.App.FeedsKeeper.SetPrice(ctx, feedstypes.NewPrice(feedstypes.PRICE_STATUS_AVAILABLE, "CS:BTC-USD", 5_000_000_000, 1_600_000_000))
	}
	cs = append(cs, nul)
	// user-supplied multi-byte signal ids at and above the 32-byte limit
	e16, e17 := strings.Repeat("\u00e9", 16), strings.Repeat("\u00e9", 17)
	for _, enc := range []int32{1, 2} {
		cs = append(cs, feedsCase([]feedState{{ID: e16, Present: true, Price: 5_000_000_000}}, enc, e.tt),
			feedsCase([]feedState{{ID: e17, Present: true, Price: 5_000_000_000}}, enc, e.tt))
	}
	cs = append(cs, feedsCase([]feedState{{ID: "x" + strings.Repeat("\U0001F600", 8)}}, 1, e.tt))
	return cs
}

type directJob struct {
	sender string
	memo   string
	unix   int64
	id     uint64
	c      contentCase
	pair   bool
}

func (b *base) requestSignature(ctx sdk.Context, c contentCase, sender, memo string) engine.TxResult {
	msg, err := bandtsstypes.NewMsgRequestSignature(c.content, uband(1000), sender)
	if err != nil {
		engine.Fatal3("C11: NewMsgRequestSignature: %v", err)
	}
	msg.Memo = memo
	return b.w.Tx(ctx, 0, msg)
}

func runDirect(e *env, t tally) {
	b0 := e.pool.get(0)
	// two users and the module authority (fee-exempt requester; allowed kinds are accepted from it too)
	senders := []string{bandtesting.Alice.Address.String(), bandtesting.Bob.Address.String(), b0.w.App.BandtssKeeper.GetAuthority()}
	memos := []string{"", "a", "A", " a", "a ", "a|b", strings.Repeat("m", 100), strings.Repeat("m", 101)}
	times := []int64{b0.baseTime, 0, 1, maxBlockTime}
	ids := []uint64{1, 2, math.MaxUint64}
	cases := directContentCases(e)
	var jobs []directJob
	for _, s := range senders {
		for _, m := range memos {
			for _, tm := range times {
				for _, id := range ids {
					for _, c := range cases {
						jobs = append(jobs, directJob{sender: s, memo: m, unix: tm, id: id, c: c})
					}
				}
			}
		}
	}
	for _, c := range cases {
		jobs = append(jobs, directJob{sender: senders[0], memo: "p", unix: b0.baseTime, id: 7, c: c, pair: true})
	}
	cfg := map[string]any{"section": "direct"}
	done := engine.ParallelFor(int64(len(jobs)), 0, e.deadline, func(worker int, idx int64) {
		b := e.pool.get(worker)
		j := jobs[idx]
		t := ordered{t, e, idx}
		ctx := b.atTime(j.unix)
		k := b.w.App.TSSKeeper
		k.SetSigningCount(ctx, j.id-1)
		if j.c.install != nil {
			j.c.install(b, ctx)
		}
		rounds := 1
		if j.pair {
			rounds = 2
		}
		var first []byte
		for round := 0; round < rounds; round++ {
			id := j.id + uint64(round)
			input := fmt.Sprintf("MsgRequestSignature(sender=%s,memo=%q,%s)@time=%d,signing_id=%d", j.sender, j.memo, j.c.desc, j.unix, id)
			path := []string{"section=direct", input}
			t.Eval()
			res := b.requestSignature(ctx, j.c, j.sender, j.memo)
			payload, canon, ok := j.c.want(j.unix)
			inStatement := ok && len(j.memo) <= 100
			if j.c.mustReject != "" {
				if res.OK() {
					detail := fmt.Sprintf("%s: %s, yet the request was accepted", input, j.c.mustReject)
					if m, err := b.signingMessage(ctx, id); err == nil {
						detail += "; the group signs " + short(m)
					}
					t.Violate(cfg, path, "content:signal-id-longer-than-32-bytes-encoded:direct:"+j.c.kind, detail)
				} else {
					t.Saw("direct:" + j.c.kind + ":oversize-signal-id-rejected")
				}
				return
			}
			if !res.OK() {
				t.Saw("direct:" + j.c.kind + ":" + j.c.tag + ":rejected:" + res.ErrName())
				if res.Panic != "" {
					t.Violate(cfg, path, "direct-request:panic", fmt.Sprintf("%s: %s", input, res.Panic))
				}
				return
			}
			if got := k.GetSigningCount(ctx); got != id {
				t.Violate(cfg, path, "direct-request:signing-count", fmt.Sprintf("%s: accepted but the tss signing count is %d, expected %d (exactly one signing by the current group)", input, got, id))
				return
			}
			msg, err := b.signingMessage(ctx, id)
			if err != nil {
				t.Violate(cfg, path, "direct-request:signing-missing", fmt.Sprintf("%s: accepted but signing %d is not stored: %v", input, id, err))
				return
			}
			if !inStatement {
				t.Saw("direct:" + j.c.kind + ":outside-statement:accepted")
				return
			}
			t.Nontrivial(input)
			if len(msg) >= 32 {
				rcanon := fmt.Sprintf("direct(chain=%q,requester=%q,memo=%q)", engine.ChainID, j.sender, j.memo)
				if other, bad := e.prefixes.add(msg[:32], rcanon); bad {
					t.Violate(cfg, path, "signing-message:originator-hash-shared-by-different-requesters:direct",
						fmt.Sprintf("%s: the signed prefix %x is also the prefix of a different originator: %s vs %s", input, msg[:32], other, rcanon))
				}
			}
			want := refMessage(refDirectOriginator(engine.ChainID, j.sender, j.memo), j.unix, id, refContent(j.c.route, j.c.tag, payload))
			if !bytes.Equal(msg, want) {
				t.Violate(cfg, path, "signing-message:"+explainMessage(msg, want)+":direct:"+j.c.kind,
					fmt.Sprintf("%s: Signing.Message = %s, expected keccak(originator)|time|id|content = %s", input, short(msg), short(want)))
				return
			}
			if derr := j.c.decode(msg[56:], j.unix); derr != nil {
				fp := "content-decode:direct:" + j.c.kind + ":" + j.c.tag
				if ce, ok := derr.(*clauseErr); ok && ce.clause == nulClause {
					fp = "content-decode:" + nulClause
				}
				t.Violate(cfg, path, fp, fmt.Sprintf("%s: %v; the group signs %s", input, derr, short(msg)))
				return
			}
			mcanon := fmt.Sprintf("direct(%q,%q,%q)/time=%d/id=%d/%s", engine.ChainID, j.sender, j.memo, j.unix, id, canon)
			if other, bad := e.messages.add(msg, mcanon); bad {
				t.Violate(cfg, path, "signing-message:collision", fmt.Sprintf("two different requests share the signed message %s: %s and %s", short(msg), other, mcanon))
			}
			if round == 0 {
				first = msg
			} else if bytes.Equal(first, msg) {
				t.Violate(cfg, path, "signing-message:repeated-request-same-message", fmt.Sprintf("%s: the second identical request in the same block got the same message %s", input, short(msg)))
			} else {
				t.Saw("direct:repeat-in-same-block:distinct-message")
			}
			t.Saw("direct:" + j.c.kind + ":" + j.c.tag + ":ok")
			if idx%211 == 0 {
				t.Sample(40, map[string]any{"section": "direct", "input": input, "message": short(msg)})
			}
		}
	})
	e.flush(t)
	if !done {
		e.capped("direct")
	}
}

// ---- section "internal": module-internal kinds are refused from users ---------------------------

// Kinds whose handler encodes values supplied by the content itself (a packet, a group key) instead
// of looking them up on chain: a user who could request them would obtain a signature over forged data.
var internalKinds = map[string]bool{
	"/band.bandtss.v1beta1.GroupTransitionSignatureOrder": true,
	"/band.tunnel.v1beta1.TunnelSignatureOrder":           true,
}

var userKinds = map[string]bool{
	"/band.tss.v1beta1.TextSignatureOrder":       true,
	"/band.oracle.v1.OracleResultSignatureOrder": true,
	"/band.feeds.v1beta1.FeedsSignatureOrder":    true,
}

func runInternal(e *env, t tally) {
	b := e.pool.get(0)
	cfg := map[string]any{"section": "internal"}
	var cases []contentCase
	tlists := priceLists([]string{"a", z32}, []uint64{0, 1, math.MaxUint64}, false, 2)
	for _, seq := range []uint64{0, 1, math.MaxUint64} {
		for _, l := range tlists {
			for _, enc := range []int32{1, 2} {
				cases = append(cases, tunnelOrderCase(seq, l, b.baseTime, enc, e.tt))
			}
		}
	}
	for _, seed := range []byte{1, 2, 0x7f} {
		for _, tm := range []int64{0, 1, b.baseTime + 10, maxBlockTime} {
			cases = append(cases, transitionCase(fixedPoint(seed), tm))
		}
	}
	// the current group's own key and the zero-value contents
	if g, err := b.w.App.TSSKeeper.GetGroup(b.ctx, b.gid1); err == nil {
		cases = append(cases, transitionCase(g.PubKey, b.baseTime+3600))
	}
	cases = append(cases,
		contentCase{kind: "tunnel", tag: "zero-value", desc: "TunnelSignatureOrder{}", content: &tunneltypes.TunnelSignatureOrder{}},
		contentCase{kind: "transition", tag: "zero-value", desc: "GroupTransitionSignatureOrder{}", content: &bandtsstypes.GroupTransitionSignatureOrder{}})
	// senders: ordinary accounts, a validator, and the privileged ones - the module authority (the
	// governance account, i.e. an executed proposal; it is exempt from the signing fee), the bandtss
	// module account (the requester of genuine transition signings) and a funded member of the
	// current tss group.  MsgRequestSignature is the user entry point whoever signs it.
	member := b.g1.Accounts[0].Address
	type snd struct{ role, addr string }
	senders := []snd{
		{"user", bandtesting.Alice.Address.String()}, {"user", bandtesting.Bob.Address.String()}, {"validator", bandtesting.Validators[0].Address.String()},
		{"authority", b.w.App.BandtssKeeper.GetAuthority()}, {"bandtss-module", b.bandtssAddr}, {"tss-member", member.String()},
	}
	for _, c := range cases {
		for _, s := range senders {
			for _, memo := range []string{"", "a"} {
				t.Eval()
				input := fmt.Sprintf("MsgRequestSignature(sender=%s[%s],memo=%q,%s)", s.addr, s.role, memo, c.desc)
				path := []string{"section=internal", input}
				ctx := b.atTime(b.baseTime)
				if s.role == "tss-member" {
					if res := b.w.Tx(ctx, 0, banktypes.NewMsgSend(bandtesting.FeePayer.Address, member, uband(1_000_000))); !res.OK() {
						engine.Fatal3("C11: cannot fund the tss member: %v", res.Err)
					}
				}
				before := b.w.App.TSSKeeper.GetSigningCount(ctx)
				beforeB := b.w.App.BandtssKeeper.GetSigningCount(ctx)
				res := b.requestSignature(ctx, c, s.addr, memo)
				t.Nontrivial(input)
				if res.OK() || b.w.App.TSSKeeper.GetSigningCount(ctx) != before || b.w.App.BandtssKeeper.GetSigningCount(ctx) != beforeB {
					detail := input + ": accepted"
					if m, err := b.signingMessage(ctx, before+1); err == nil {
						detail += "; the group will sign " + short(m)
					}
					t.Violate(cfg, path, "internal-content:request-accepted:"+c.kind+":sender="+s.role, detail)
					continue
				}
				if !errors.Is(res.Err, bandtsstypes.ErrContentNotAllowed) {
					// refused, but not because the kind is internal: the refusal is incidental (fee, funds, ...)
					t.Violate(cfg, path, "internal-content:refused-for-another-reason:"+c.kind+":sender="+s.role,
						fmt.Sprintf("%s: rejected with %s (%v), not with 'content not allowed'", input, res.ErrName(), res.Err))
					continue
				}
				t.Saw("internal-rejected:" + c.kind)
				t.Saw("internal-rejected:" + c.kind + ":sender=" + s.role)
				t.Saw("internal-rejected:" + c.kind + ":" + res.ErrName())
			}
		}
	}
	// registered implementations of the Content interface
	reg := b.w.App.InterfaceRegistry()
	urls := reg.ListImplementations("tss.v1beta1.Content")
	urls = append(urls, "/band.tunnel.v1beta1.TunnelSignatureOrder") // not registered for transactions, still a Content implementation
	seen := map[string]bool{}
	for _, url := range urls {
		if seen[url] {
			continue
		}
		seen[url] = true
		t.Eval()
		var c tsstypes.Content
		if url == "/band.tunnel.v1beta1.TunnelSignatureOrder" {
			c = &tunneltypes.TunnelSignatureOrder{}
		} else {
			m, err := reg.Resolve(url)
			if err != nil {
				e.r.Notes = append(e.r.Notes, fmt.Sprintf("content implementation %s cannot be resolved: %v", url, err))
				continue
			}
			var ok bool
			if c, ok = m.(tsstypes.Content); !ok {
				continue
			}
		}
		path := []string{"section=internal", "kind=" + url}
		switch {
		case internalKinds[url] && !c.IsInternal():
			t.Violate(cfg, path, "internal-content:kind-not-marked-internal:"+url, fmt.Sprintf("%s carries content-supplied values but IsInternal() is false", url))
		case internalKinds[url]:
			t.Saw("content-kind:internal")
		case userKinds[url]:
			t.Saw("content-kind:user")
		default:
			e.r.Notes = append(e.r.Notes, fmt.Sprintf("content kind %s (internal=%v) is not known to this check", url, c.IsInternal()))
			t.Saw("content-kind:unknown")
		}
		if !b.router.HasRoute(c.OrderRoute()) {
			t.Violate(cfg, path, "content-route:not-registered:"+url, fmt.Sprintf("%s: route %q has no handler", url, c.OrderRoute()))
		}
	}
	// route selectors pairwise distinct
	sel := map[string]string{}
	for _, route := range []string{"tss", "oracle", "bandtss", "feeds", "tunnel"} {
		t.Eval()
		s := string(refTag(route))
		if prev, ok := sel[s]; ok {
			t.Violate(cfg, []string{"section=internal", "route=" + route}, "content-route:selector-collision", fmt.Sprintf("routes %q and %q share the selector %x", prev, route, s))
		}
		sel[s] = route
		if !b.router.HasRoute(route) {
			t.Violate(cfg, []string{"section=internal", "route=" + route}, "content-route:not-registered:"+route, fmt.Sprintf("route %q has no handler", route))
		}
	}
}

// ---- section "tunnel": packets produced and sent by the real tunnel module -----------------------

type tunnelJob struct {
	srcChain              string
	dstChain, dstContract string
	tunnelID              uint64
	enc                   int32
	cfg                   int
	unix                  int64
	sid                   uint64
}

var tunnelPriceCfgs = [][]feedState{
	{{ID: "a", Present: true, Price: 1_000_000_000}, {ID: z32, Present: true, Price: math.MaxUint64}},
	{{ID: "a"}, {ID: z32, Present: true, Price: 1}},
	{{ID: "CS:BTC-USD", Present: true, Price: 1_000_099_999}},
}

func runTunnel(e *env, t tally) {
	b0 := e.pool.get(0)
	// destination chain ids and contract addresses: split pairs, delimiter-like, strings differing only in
	// letter case or in leading/trailing spaces, EIP-55 mixed-case hex and its lower-case form, base58,
	// upper/lower-case chain ids, and the empty string (not legal for a TSS route: observed as rejected)
	strs := []string{"a", "b", "ab", "a|b", "A", "aB", " a", "a ", "eth", "ETH", eip55Addr, strings.ToLower(eip55Addr), base58Addr, ""}
	if !e.quick {
		strs = append(strs, ff32)
	}
	var jobs []tunnelJob
	for _, dc := range strs {
		for _, da := range strs {
			for _, id := range []uint64{1, 2, math.MaxUint64} {
				for _, enc := range []int32{1, 2} {
					for cfgI := range tunnelPriceCfgs {
						for ti, tm := range []int64{b0.baseTime, maxBlockTime} {
							sid := uint64(1)
							if ti == 1 {
								sid = math.MaxUint64
							}
							jobs = append(jobs, tunnelJob{engine.ChainID, dc, da, id, enc, cfgI, tm, sid})
							if id == 1 && cfgI == 0 {
								jobs = append(jobs, tunnelJob{strings.ToUpper(engine.ChainID), dc, da, id, enc, cfgI, tm, sid})
							}
						}
					}
				}
			}
		}
	}
	cfg := map[string]any{"section": "tunnel"}
	creator := bandtesting.Alice.Address.String()
	done := engine.ParallelFor(int64(len(jobs)), 0, e.deadline, func(worker int, idx int64) {
		b := e.pool.get(worker)
		j := jobs[idx]
		t := ordered{t, e, idx}
		states := tunnelPriceCfgs[j.cfg]
		input := fmt.Sprintf("tunnel(src_chain=%q,id=%d,dst_chain=%q,dst_contract=%q,enc=%d,feeds=%+v)@time=%d,signing_id=%d", j.srcChain, j.tunnelID, j.dstChain, j.dstContract, j.enc, states, j.unix, j.sid)
		path := []string{"section=tunnel", input}
		t.Eval()
		ctx := b.atTime(j.unix).WithChainID(j.srcChain)
		app := b.w.App
		app.TSSKeeper.SetSigningCount(ctx, j.sid-1)
		app.TunnelKeeper.SetTunnelCount(ctx, j.tunnelID-1)
		var devs []tunneltypes.SignalDeviation
		for _, s := range states {
			if s.Present {
				app.FeedsKeeper.SetPrice(ctx, feedstypes.NewPrice(feedstypes.PRICE_STATUS_AVAILABLE, s.ID, s.Price, j.unix))
			}
			devs = append(devs, tunneltypes.SignalDeviation{SignalID: s.ID, SoftDeviationBPS: 100, HardDeviationBPS: 100})
		}
		create, err := tunneltypes.NewMsgCreateTSSTunnel(devs, 60, j.dstChain, j.dstContract, feedstypes.Encoder(j.enc), uband(1000), creator)
		if err != nil {
			engine.Fatal3("C11: NewMsgCreateTSSTunnel: %v", err)
		}
		if res := b.w.Tx(ctx, 0, create); !res.OK() {
			t.Saw("tunnel:create-rejected:" + res.ErrName())
			return
		}
		tun, err := app.TunnelKeeper.GetTunnel(ctx, j.tunnelID)
		if err != nil {
			t.Saw("tunnel:not-found-after-create")
			return
		}
		feePayer, _ := sdk.AccAddressFromBech32(tun.FeePayer)
		steps := []sdk.Msg{
			banktypes.NewMsgSend(bandtesting.FeePayer.Address, feePayer, uband(1_000_000)),
			tunneltypes.NewMsgActivate(j.tunnelID, creator),
			tunneltypes.NewMsgTriggerTunnel(j.tunnelID, creator),
		}
		for i, m := range steps {
			if res := b.w.Tx(ctx, 0, m); !res.OK() {
				t.Saw(fmt.Sprintf("tunnel:step%d-rejected:%s", i, res.ErrName()))
				return
			}
		}
		if got := app.TSSKeeper.GetSigningCount(ctx); got != j.sid {
			t.Violate(cfg, path, "tunnel-packet:signing-count", fmt.Sprintf("%s: packet sent but the tss signing count is %d, expected %d", input, got, j.sid))
			return
		}
		packet, err := app.TunnelKeeper.GetPacket(ctx, j.tunnelID, 1)
		if err != nil {
			t.Violate(cfg, path, "tunnel-packet:not-stored", fmt.Sprintf("%s: %v", input, err))
			return
		}
		msg, err := b.signingMessage(ctx, j.sid)
		if err != nil {
			t.Violate(cfg, path, "tunnel-packet:signing-missing", fmt.Sprintf("%s: %v", input, err))
			return
		}
		// the on-chain datum is the stored packet
		pstates := make([]feedState, len(packet.Prices))
		matchesFeeds := len(packet.Prices) == len(states) && packet.CreatedAt == j.unix && packet.Sequence == 1
		for i, p := range packet.Prices {
			pstates[i] = feedState{ID: p.SignalID, Present: true, Price: p.Price}
			if matchesFeeds && (p.SignalID != states[i].ID || p.Price != states[i].value()) {
				matchesFeeds = false
			}
		}
		if matchesFeeds {
			t.Saw("tunnel:packet-equals-feed-prices-at-request-time")
		} else {
			t.Saw("tunnel:packet-differs-from-feed-prices")
		}
		oc := tunnelOrderCase(packet.Sequence, pstates, packet.CreatedAt, j.enc, e.tt)
		payload, canon, ok := oc.want(j.unix)
		if !ok {
			t.Saw("tunnel:outside-statement")
			return
		}
		t.Nontrivial(input)
		// the originator is made of the route as stored on chain
		dstChain, dstContract := j.dstChain, j.dstContract
		if rv, err := tun.GetRouteValue(); err == nil {
			if tr, ok := rv.(*tunneltypes.TSSRoute); ok {
				dstChain, dstContract = tr.DestinationChainID, tr.DestinationContractAddress
			}
		}
		if dstChain != j.dstChain || dstContract != j.dstContract {
			t.Saw("tunnel:stored-route-differs-from-request")
		}
		// injectivity monitor: routes that differ in any byte of (source chain, tunnel id, destination
		// chain, contract address) must not share the signed prefix hash(originator)
		if len(msg) >= 32 {
			rcanon := fmt.Sprintf("tunnel-route(src_chain=%q,id=%d,dst_chain=%q,dst_contract=%q)", j.srcChain, j.tunnelID, dstChain, dstContract)
			if other, bad := e.prefixes.add(msg[:32], rcanon); bad {
				t.Violate(cfg, path, "signing-message:originator-hash-shared-by-different-routes:tunnel",
					fmt.Sprintf("%s: the signed prefix %x is also the prefix of a different route: %s vs %s", input, msg[:32], other, rcanon))
			}
		}
		want := refMessage(refTunnelOriginator(j.srcChain, j.tunnelID, dstChain, dstContract), j.unix, j.sid, refContent("tunnel", oc.tag, payload))
		if !bytes.Equal(msg, want) {
			t.Violate(cfg, path, "signing-message:"+explainMessage(msg, want)+":tunnel",
				fmt.Sprintf("%s: Signing.Message = %s, expected %s (stored packet seq=%d created_at=%d prices=%+v)", input, short(msg), short(want), packet.Sequence, packet.CreatedAt, pstates))
			return
		}
		if derr := oc.decode(msg[56:], j.unix); derr != nil {
			t.Violate(cfg, path, "content-decode:tunnel:"+oc.tag, fmt.Sprintf("%s: %v", input, derr))
			return
		}
		mcanon := fmt.Sprintf("tunnel(%q,%d,%q,%q)/time=%d/id=%d/%s", j.srcChain, j.tunnelID, dstChain, dstContract, j.unix, j.sid, canon)
		if other, bad := e.messages.add(msg, mcanon); bad {
			t.Violate(cfg, path, "signing-message:collision", fmt.Sprintf("two different requests share the signed message %s: %s and %s", short(msg), other, mcanon))
		}
		t.Saw("tunnel:" + oc.tag + ":ok")
		if idx%97 == 0 {
			t.Sample(40, map[string]any{"section": "tunnel", "input": input, "message": short(msg)})
		}
	})
	e.flush(t)
	if !done {
		e.capped("tunnel")
	}
}

// ---- section "transition": the signing created when an incoming group finishes its DKG ----------

func runTransition(e *env, t tally) {
	b := e.pool.get(0)
	cfg := map[string]any{"section": "transition"}
	type tj struct {
		n   int
		thr uint64
		off time.Duration
		sid uint64 // 0: next free id
	}
	jobs := []tj{
		{2, 1, time.Second, 0}, {2, 2, time.Hour, 0}, {3, 2, 7 * 24 * time.Hour, 0},
		{2, 1, time.Minute, math.MaxUint64},
	}
	if !e.quick {
		jobs = append(jobs, tj{3, 3, time.Second, 2}, tj{4, 2, 24 * time.Hour, 0}, tj{2, 2, 7*24*time.Hour - time.Second, math.MaxUint64})
	}
	for i, j := range jobs {
		t.Eval()
		engine.DetRandResetTo(uint64(1100 + i))
		ctx := engine.Fork(b.ctx)
		unix := ctx.BlockTime().Unix()
		app := b.w.App
		if j.sid != 0 {
			app.TSSKeeper.SetSigningCount(ctx, j.sid-1)
		}
		accounts := mkAccounts(int64(2200+i), j.n)
		exec := ctx.BlockTime().Add(j.off)
		input := fmt.Sprintf("MsgTransitionGroup(n=%d,threshold=%d,exec_time=%d)+DKG@time=%d", j.n, j.thr, exec.Unix(), unix)
		path := []string{"section=transition", input}
		if res := b.w.Tx(ctx, 0, bandtsstypes.NewMsgTransitionGroup(addrs(accounts), j.thr, exec, b.authority)); !res.OK() {
			t.Saw("transition:msg-rejected:" + res.ErrName())
			continue
		}
		gid2 := tss.GroupID(app.TSSKeeper.GetGroupCount(ctx))
		before := app.TSSKeeper.GetSigningCount(ctx)
		if _, err := runDKG(b.w, ctx, gid2, accounts); err != nil {
			t.Saw("transition:dkg-failed")
			e.r.Notes = append(e.r.Notes, fmt.Sprintf("%s: DKG failed: %v", input, err))
			continue
		}
		tr, found := app.BandtssKeeper.GetGroupTransition(ctx)
		if !found || tr.Status != bandtsstypes.TRANSITION_STATUS_WAITING_SIGN {
			t.Saw("transition:no-signing-created")
			continue
		}
		sid := uint64(tr.SigningID)
		if sid != before+1 || app.TSSKeeper.GetSigningCount(ctx) != sid {
			t.Violate(cfg, path, "transition:signing-count", fmt.Sprintf("%s: transition signing id %d, signing count before %d / after %d", input, sid, before, app.TSSKeeper.GetSigningCount(ctx)))
			continue
		}
		g2, err := app.TSSKeeper.GetGroup(ctx, gid2)
		if err != nil {
			engine.Fatal3("C11: group %d: %v", gid2, err)
		}
		if !tr.ExecTime.Equal(exec) || !bytes.Equal(tr.IncomingGroupPubKey, g2.PubKey) {
			t.Violate(cfg, path, "transition:on-chain-transition-differs-from-request", fmt.Sprintf("%s: stored exec time %v key %x, group key %x", input, tr.ExecTime, tr.IncomingGroupPubKey, g2.PubKey))
			continue
		}
		msg, err := b.signingMessage(ctx, sid)
		if err != nil {
			t.Violate(cfg, path, "transition:signing-missing", fmt.Sprintf("%s: %v", input, err))
			continue
		}
		t.Nontrivial(input)
		tc := transitionCase(g2.PubKey, exec.Unix())
		payload, canon, _ := tc.want(unix)
		if len(msg) >= 32 {
			rcanon := fmt.Sprintf("direct(chain=%q,requester=%q,memo=%q)", engine.ChainID, b.bandtssAddr, "")
			if other, bad := e.prefixes.add(msg[:32], rcanon); bad {
				t.Violate(cfg, path, "signing-message:originator-hash-shared-by-different-requesters:transition",
					fmt.Sprintf("%s: the signed prefix %x is also the prefix of a different originator: %s vs %s", input, msg[:32], other, rcanon))
			}
		}
		want := refMessage(refDirectOriginator(engine.ChainID, b.bandtssAddr, ""), unix, sid, refContent("bandtss", "Transition", payload))
		if !bytes.Equal(msg, want) {
			t.Violate(cfg, path, "signing-message:"+explainMessage(msg, want)+":transition",
				fmt.Sprintf("%s: Signing.Message = %s, expected %s (incoming key %x)", input, short(msg), short(want), g2.PubKey))
			continue
		}
		mcanon := fmt.Sprintf("direct(%q,%q,%q)/time=%d/id=%d/%s", engine.ChainID, b.bandtssAddr, "", unix, sid, canon)
		if other, bad := e.messages.add(msg, mcanon); bad {
			t.Violate(cfg, path, "signing-message:collision", fmt.Sprintf("two different requests share the signed message %s: %s and %s", short(msg), other, mcanon))
		}
		t.Saw("transition:ok")
		t.Sample(60, map[string]any{"section": "transition", "input": input, "message": short(msg)})
	}
}
