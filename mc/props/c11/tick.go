package c11

import (
	"fmt"
	"math/big"
	"sync"
	"sync/atomic"
	"time"

	"github.com/bandprotocol/chain/v3/pkg/tickmath"
	"github.com/bandprotocol/chain/v3/zzverif/engine"
)

// Tick section.  "The price of tick t" is the repository's fixed-point value X96(t) =
// tickToPriceX96(t) (price * 10^9 * 2^96), the same quantity TickToPrice (the decoder) rounds; it
// is taken as given after two independent sanity checks (strictly increasing in t; within 1e-15
// relative of 10^9 * 1.0001^t computed with 256-bit floats).  The property clause checked is:
// PriceToTick(p) - 2^18 is the largest tick t with X96(t) <= p * 2^96, for p in [1, 2^64).

type tickStats struct {
	evals    int64
	distinct int64
	outcomes sync.Map // label -> *int64
}

func (s *tickStats) saw(label string, n int64) {
	v, _ := s.outcomes.LoadOrStore(label, new(int64))
	atomic.AddInt64(v.(*int64), n)
}

type tickViolation struct {
	fp, detail, input string
}

type tickSection struct {
	stats      tickStats
	mu         sync.Mutex
	viol       []tickViolation
	table      *tickTable
	x96        []*big.Int
	maxRelDiff string
}

func (ts *tickSection) violate(fp, input, format string, a ...any) {
	ts.mu.Lock()
	if len(ts.viol) < 64 {
		ts.viol = append(ts.viol, tickViolation{fp: fp, input: input, detail: fmt.Sprintf(format, a...)})
	}
	ts.mu.Unlock()
}

func (ts *tickSection) nviol() int {
	ts.mu.Lock()
	defer ts.mu.Unlock()
	return len(ts.viol)
}

// build computes X96(t) for every tick through the real tickToPriceX96 and derives the boundary table.
func (ts *tickSection) build() {
	n := 2*refMaxTick + 1
	ts.x96 = make([]*big.Int, n)
	tt := &tickTable{bound: make([]uint64, n), inf: make([]bool, n)}
	maxU64 := new(big.Int).SetUint64(^uint64(0))
	engine.ParallelFor(int64(n), 0, time.Time{}, func(_ int, idx int64) {
		t := idx - refMaxTick
		x, err := tickmath.VerifTickToPriceX96(t)
		if err != nil || x == nil || x.Sign() <= 0 {
			ts.violate("tick-price:undefined-inside-range", fmt.Sprintf("tick=%d", t), "tickToPriceX96(%d) = %v, err %v (every tick in [-(2^18-1), 2^18-1] has a positive price)", t, x, err)
			x = big.NewInt(0)
		}
		ts.x96[idx] = x
		// ceil(x / 2^96)
		q, r := new(big.Int).QuoRem(x, two96, new(big.Int))
		if r.Sign() > 0 {
			q.Add(q, big.NewInt(1))
		}
		if q.Cmp(maxU64) > 0 {
			tt.inf[idx] = true
		} else {
			tt.bound[idx] = q.Uint64()
		}
	})
	ts.table = tt
	// out-of-range ticks must be refused by the price function
	for _, t := range []int64{refMaxTick + 1, -refMaxTick - 1} {
		if x, err := tickmath.VerifTickToPriceX96(t); err == nil {
			ts.violate("tick-price:defined-outside-range", fmt.Sprintf("tick=%d", t), "tickToPriceX96(%d) = %v without error", t, x)
		}
	}
}

// sanity: strictly increasing, and close to the real 1.0001^t * 10^9.
func (ts *tickSection) sanity() {
	n := len(ts.x96)
	for i := 1; i < n; i++ {
		if ts.x96[i].Cmp(ts.x96[i-1]) <= 0 {
			ts.violate("tick-price:not-strictly-increasing", fmt.Sprintf("tick=%d", i-refMaxTick),
				"X96(%d)=%v <= X96(%d)=%v: 'largest tick whose price does not exceed p' is ill-defined", i-refMaxTick, ts.x96[i], i-1-refMaxTick, ts.x96[i-1])
			break
		}
	}
	const prec = 256
	tol := new(big.Float).SetPrec(prec).SetFloat64(1e-15)
	f := func(x *big.Int) *big.Float { return new(big.Float).SetPrec(prec).SetInt(x) }
	scale := f(two96)
	num, den := f(big.NewInt(10001)), f(big.NewInt(10000))
	maxDiff := new(big.Float).SetPrec(prec)
	var maxAt int64
	check := func(t int64, real *big.Float) bool {
		got := new(big.Float).SetPrec(prec).Quo(f(ts.x96[t+refMaxTick]), scale)
		diff := new(big.Float).SetPrec(prec).Sub(got, real)
		diff.Abs(diff)
		diff.Quo(diff, real)
		ts.stats.evals++
		if diff.Cmp(maxDiff) > 0 {
			maxDiff.Set(diff)
			maxAt = t
		}
		if diff.Cmp(tol) > 0 {
			ts.violate("tick-price:not-1.0001^tick", fmt.Sprintf("tick=%d", t),
				"X96(%d)/2^96 = %s but 10^9*1.0001^%d = %s (relative difference %s > 1e-15)", t, got.Text('g', 30), t, real.Text('g', 30), diff.Text('g', 6))
			return false
		}
		return true
	}
	up := f(big.NewInt(1_000_000_000))
	down := f(big.NewInt(1_000_000_000))
	check(0, up)
	for t := int64(1); t <= refMaxTick; t++ {
		up = new(big.Float).SetPrec(prec).Quo(new(big.Float).SetPrec(prec).Mul(up, num), den)
		down = new(big.Float).SetPrec(prec).Quo(new(big.Float).SetPrec(prec).Mul(down, den), num)
		if !check(t, up) || !check(-t, down) {
			break
		}
	}
	ts.stats.saw("tick:price-band-1e-15", 2*refMaxTick+1)
	ts.maxRelDiff = fmt.Sprintf("%s at tick %d", maxDiff.Text('g', 4), maxAt)
}

// probe runs the real PriceToTick on one price and compares with the table.
func (ts *tickSection) probe(label string, p uint64) {
	atomic.AddInt64(&ts.stats.evals, 1)
	want, ok := ts.table.refTick(p)
	got, err := tickmath.PriceToTick(p)
	if !ok {
		// no tick has a price <= p: cannot happen for p >= 1 with the documented range (price of tick -262143 is ~4e-3)
		ts.violate("tick-range:price-below-min-tick", fmt.Sprintf("price=%d", p), "no tick in range has price <= %d", p)
		return
	}
	if err != nil {
		ts.violate("price-to-tick:error-for-valid-price", fmt.Sprintf("price=%d", p), "PriceToTick(%d) returned error %v; the largest tick with price <= %d is %d", p, err, p, want)
		return
	}
	if int64(got)-refOffset != want {
		dir := "low"
		if int64(got)-refOffset > want {
			dir = "high"
		}
		ts.violate("price-to-tick:not-largest-tick-below-price:"+dir+":"+label, fmt.Sprintf("price=%d", p),
			"PriceToTick(%d) = %d (tick %d) but the largest tick whose price does not exceed %d is %d (boundary of tick %d is %d, of tick %d is %s)",
			p, got, int64(got)-refOffset, p, want, want, ts.table.bound[want+refMaxTick], want+1, ts.boundStr(want+1))
	}
}

func (ts *tickSection) boundStr(t int64) string {
	i := t + refMaxTick
	if i < 0 || i >= int64(len(ts.table.bound)) {
		return "n/a"
	}
	if ts.table.inf[i] {
		return ">2^64-1"
	}
	return fmt.Sprint(ts.table.bound[i])
}

// run executes the whole tick section and merges the result into r.
func runTick(r *engine.Run, deadline time.Time) *tickTable {
	ts := &tickSection{}
	t0 := time.Now()
	ts.build()
	ts.sanity()
	fmt.Printf("[C11] tick: table of %d ticks built and sanity-checked in %.1fs (violations so far %d; max relative distance of X96(t)/2^96 from 10^9*1.0001^t: %s)\n", len(ts.x96), time.Since(t0).Seconds(), ts.nviol(), ts.maxRelDiff)

	if ts.nviol() == 0 {
		tt := ts.table
		n := int64(len(tt.bound))
		// zero price is refused (the encoder maps price 0 to the literal 0 itself)
		if _, err := tickmath.PriceToTick(0); err == nil {
			ts.violate("price-to-tick:accepts-zero", "price=0", "PriceToTick(0) succeeded")
		}
		// (a) every tick boundary, boundary-1 and the midpoint to the next boundary
		var reach int64
		complete := engine.ParallelFor(n, 0, deadline, func(_ int, idx int64) {
			if tt.inf[idx] {
				return
			}
			b := tt.bound[idx]
			if b == 0 {
				return
			}
			strict := idx == 0 || tt.bound[idx-1] < b
			if !strict {
				return // several ticks share this integer boundary; the first of them probes it
			}
			atomic.AddInt64(&reach, 1)
			ts.probe("boundary", b)
			ts.stats.saw("tick:boundary", 1)
			atomic.AddInt64(&ts.stats.distinct, 1)
			if b > 1 {
				ts.probe("below-boundary", b-1)
				ts.stats.saw("tick:below-boundary", 1)
				atomic.AddInt64(&ts.stats.distinct, 1)
			}
			// next strictly larger boundary
			j := idx + 1
			for j < n && !tt.inf[j] && tt.bound[j] == b {
				j++
			}
			var nb uint64
			if j < n && !tt.inf[j] {
				nb = tt.bound[j]
			} else {
				nb = ^uint64(0)
			}
			if nb-b >= 2 {
				ts.probe("midpoint", b+(nb-b)/2)
				ts.stats.saw("tick:midpoint", 1)
				atomic.AddInt64(&ts.stats.distinct, 1)
			}
		})
		if !complete {
			r.Exhaustive = false
			r.CapReasons = append(r.CapReasons, "tick boundaries: internal deadline")
		}
		fmt.Printf("[C11] tick: %d distinct integer boundaries in [1,2^64) probed (%.1fs)\n", reach, time.Since(t0).Seconds())

		// (b) dense range 1..2^k
		k := uint(22)
		if !r.Quick() {
			k = 28
		}
		const block = 1 << 12
		blocks := int64(1) << (k - 12)
		var done int64
		complete = engine.ParallelFor(blocks, 0, deadline, func(_ int, bi int64) {
			if ts.nviol() > 0 {
				return
			}
			lo := uint64(bi) * block
			for p := lo; p < lo+block; p++ {
				if p == 0 {
					continue
				}
				ts.probe("dense", p)
			}
			atomic.AddInt64(&done, 1)
		})
		ts.stats.saw("tick:dense", done*block)
		atomic.AddInt64(&ts.stats.distinct, done*block)
		if !complete {
			r.Exhaustive = false
			r.CapReasons = append(r.CapReasons, fmt.Sprintf("tick dense range: internal deadline after %d of %d blocks of 4096 prices", done, blocks))
		}
		// (c) top of the range and neighbourhoods of powers of two and of ten
		var special []uint64
		for i := uint64(0); i < 1<<12; i++ {
			special = append(special, ^uint64(0)-i)
		}
		for e := uint(0); e < 64; e++ {
			for d := int64(-2); d <= 2; d++ {
				v := (uint64(1) << e) + uint64(d)
				if v != 0 {
					special = append(special, v)
				}
			}
		}
		for v, e := uint64(1), 0; e < 20; v, e = v*10, e+1 {
			special = append(special, v-1, v, v+1)
		}
		for _, p := range special {
			if p == 0 {
				continue
			}
			ts.probe("special", p)
		}
		ts.stats.saw("tick:special", int64(len(special)))
		atomic.AddInt64(&ts.stats.distinct, int64(len(special)))
	}

	r.Evaluations += int(ts.stats.evals)
	r.Traces += int(ts.stats.evals)
	r.Distinct += int(ts.stats.distinct)
	ts.stats.outcomes.Range(func(k, v any) bool {
		r.Outcomes[k.(string)] += int(*v.(*int64))
		return true
	})
	for _, v := range ts.viol {
		r.Violate(map[string]any{"section": "tick"}, []string{"section=tick", v.input}, v.fp, "%s", v.detail)
	}
	r.Samples = append(r.Samples, map[string]any{"section": "tick", "probes": []string{
		fmt.Sprintf("boundary(tick 0)=%s", ts.boundStr(0)), fmt.Sprintf("boundary(tick 1)=%s", ts.boundStr(1)),
		fmt.Sprintf("boundary(tick -207244)=%s", ts.boundStr(-207244)), fmt.Sprintf("boundary(tick 236000)=%s", ts.boundStr(236000))}})
	fmt.Printf("[C11] tick: evaluations=%d violations=%d (%.1fs)\n", ts.stats.evals, len(ts.viol), time.Since(t0).Seconds())
	return ts.table
}
