package c11

import (
	"bytes"
	"crypto/sha256"
	"fmt"
	"math/rand"
	"sync"
	"time"

	sdk "github.com/cosmos/cosmos-sdk/types"
	authtypes "github.com/cosmos/cosmos-sdk/x/auth/types"
	govtypes "github.com/cosmos/cosmos-sdk/x/gov/types"

	"github.com/bandprotocol/chain/v3/pkg/tss"
	bandtesting "github.com/bandprotocol/chain/v3/testing"
	bandtsstypes "github.com/bandprotocol/chain/v3/x/bandtss/types"
	tsstestutil "github.com/bandprotocol/chain/v3/x/tss/testutil"
	tsstypes "github.com/bandprotocol/chain/v3/x/tss/types"
	"github.com/bandprotocol/chain/v3/zzverif/engine"
)

// base is one real application (one per worker) whose bandtss current group is an ACTIVE tss group
// created by the real DKG handlers, so that signing requests of every kind succeed.
type base struct {
	w           *engine.World
	ctx         sdk.Context
	authority   string
	bandtssAddr string
	gid1        tss.GroupID
	g1          *tsstestutil.GroupContext
	router      *tsstypes.ContentRouter
	baseTime    int64
	// the content returned for the previous request of this worker, and a private copy of it: the bytes handed to
	// one request must not change when a later request is encoded (no buffer shared between requests)
	lastOut, lastCopy []byte
	lastDesc          string
}

var buildMu sync.Mutex

func mkAccounts(seed int64, n int) []bandtesting.Account {
	r := rand.New(rand.NewSource(seed))
	out := make([]bandtesting.Account, n)
	for i := range out {
		out[i] = bandtesting.CreateArbitraryAccount(r)
	}
	return out
}

func addrs(accs []bandtesting.Account) []string {
	out := make([]string, len(accs))
	for i, a := range accs {
		out[i] = a.Address.String()
	}
	return out
}

// runDKG drives the three DKG rounds of group gid through the real tss message server and queues DEs.
func runDKG(w *engine.World, ctx sdk.Context, gid tss.GroupID, accounts []bandtesting.Account) (*tsstestutil.GroupContext, error) {
	n := len(accounts)
	secrets := make([]tss.Scalar, n)
	for i := range secrets {
		s, err := tss.RandomScalar()
		if err != nil {
			return nil, err
		}
		secrets[i] = s
	}
	gc := &tsstestutil.GroupContext{GroupID: gid, Accounts: accounts, DEs: make([][]tsstestutil.DEWithPrivateNonce, n), Secrets: secrets}
	k := w.App.TSSKeeper
	if err := gc.SubmitRound1(ctx, k); err != nil {
		return nil, fmt.Errorf("round1: %w", err)
	}
	if err := gc.SubmitRound2(ctx, k); err != nil {
		return nil, fmt.Errorf("round2: %w", err)
	}
	if err := gc.SubmitRound3(ctx, k); err != nil {
		return nil, fmt.Errorf("round3: %w", err)
	}
	if err := gc.GenerateDE(ctx, k); err != nil {
		return nil, fmt.Errorf("DEs: %w", err)
	}
	return gc, nil
}

// buildBase is deterministic: the randomness stream is rewound and builds are serialised.
func buildBase() *base {
	buildMu.Lock()
	defer buildMu.Unlock()
	engine.DetRandReset()
	w := engine.NewWorld()
	ctx := engine.Fork(w.Root)
	b := &base{w: w, authority: authtypes.NewModuleAddress(govtypes.ModuleName).String(),
		bandtssAddr: authtypes.NewModuleAddress(bandtsstypes.ModuleName).String()}

	bp := w.App.BandtssKeeper.GetParams(ctx)
	bp.MinTransitionDuration = time.Second
	if err := w.App.BandtssKeeper.SetParams(ctx, bp); err != nil {
		engine.Fatal3("C11 base: bandtss params: %v", err)
	}
	tp := w.App.TunnelKeeper.GetParams(ctx)
	tp.MinDeposit = sdk.NewCoins(sdk.NewInt64Coin("uband", 1))
	if err := w.App.TunnelKeeper.SetParams(ctx, tp); err != nil {
		engine.Fatal3("C11 base: tunnel params: %v", err)
	}

	accounts := mkAccounts(1101, 2)
	exec := ctx.BlockTime().Add(10 * time.Second)
	res := w.Tx(ctx, 0, bandtsstypes.NewMsgTransitionGroup(addrs(accounts), 2, exec, b.authority))
	if !res.OK() {
		engine.Fatal3("C11 base: MsgTransitionGroup: %v", res.Err)
	}
	b.gid1 = tss.GroupID(w.App.TSSKeeper.GetGroupCount(ctx))
	gc, err := runDKG(w, ctx, b.gid1, accounts)
	if err != nil {
		engine.Fatal3("C11 base: DKG: %v", err)
	}
	b.g1 = gc
	for i := 0; i < 3 && w.App.BandtssKeeper.GetCurrentGroup(ctx).GroupID != b.gid1; i++ {
		var br engine.BlockResult
		ctx, br = w.Block(ctx, 1, 10*time.Second)
		if br.Halt != "" {
			engine.Fatal3("C11 base: block halted: %s", br.Halt)
		}
	}
	if w.App.BandtssKeeper.GetCurrentGroup(ctx).GroupID != b.gid1 {
		engine.Fatal3("C11 base: group %d did not become the current group", b.gid1)
	}
	b.ctx = ctx
	b.baseTime = ctx.BlockTime().Unix()
	b.router = w.App.TSSKeeper.VerifContentRouter()
	return b
}

// pool hands one base to each worker.
type pool struct {
	mu    sync.Mutex
	bases map[int]*base
}

func newPool() *pool { return &pool{bases: map[int]*base{}} }

func (p *pool) get(worker int) *base {
	p.mu.Lock()
	b := p.bases[worker]
	p.mu.Unlock()
	if b != nil {
		return b
	}
	b = buildBase()
	p.mu.Lock()
	p.bases[worker] = b
	p.mu.Unlock()
	return b
}

func (p *pool) close() {
	for _, b := range p.bases {
		b.w.Close()
	}
}

// syncCollisions is the global "two different inputs, one encoding" detector (keyed by SHA-256 of the encoding).
type syncCollisions struct {
	mu sync.Mutex
	m  map[[20]byte]string
}

func newSyncCollisions() *syncCollisions { return &syncCollisions{m: map[[20]byte]string{}} }

func (c *syncCollisions) add(enc []byte, canon string) (other string, collided bool) {
	h := sha256.Sum256(enc)
	var k [20]byte
	copy(k[:], h[:20])
	c.mu.Lock()
	defer c.mu.Unlock()
	if prev, ok := c.m[k]; ok {
		if prev != canon {
			return prev, true
		}
		return "", false
	}
	c.m[k] = canon
	return "", false
}

func (c *syncCollisions) size() int {
	c.mu.Lock()
	defer c.mu.Unlock()
	return len(c.m)
}

// atTime returns a private fork of the base state whose block time is unix (height unchanged).
func (b *base) atTime(unix int64) sdk.Context {
	return engine.Fork(b.ctx).WithBlockTime(time.Unix(unix, 0).UTC())
}

// lastSigningMessage returns the message of tss signing id.
func (b *base) signingMessage(ctx sdk.Context, id uint64) ([]byte, error) {
	s, err := b.w.App.TSSKeeper.GetSigning(ctx, tss.SigningID(id))
	if err != nil {
		return nil, err
	}
	return s.Message, nil
}

// explainMessage names the first clause of the message format that got violates w.r.t. want.
func explainMessage(got, want []byte) (clause string) {
	switch {
	case len(got) < 48:
		return "header-shorter-than-48-bytes"
	case !bytes.Equal(got[:32], want[:32]):
		return "bytes-0-32-not-keccak-of-originator"
	case !bytes.Equal(got[32:40], want[32:40]):
		return "bytes-32-40-not-block-time"
	case !bytes.Equal(got[40:48], want[40:48]):
		return "bytes-40-48-not-signing-id"
	case len(got) < 52 || !bytes.Equal(got[48:52], want[48:52]):
		return "content-route-selector"
	case len(got) < 56 || !bytes.Equal(got[52:56], want[52:56]):
		return "content-kind-tag"
	default:
		return "content-payload"
	}
}
