package c12

import (
	"bytes"
	"crypto/sha256"
	"encoding/binary"
	"fmt"
	"math/big"

	"github.com/ethereum/go-ethereum/accounts/abi"
	ethcrypto "github.com/ethereum/go-ethereum/crypto"
)

// Reference verifier: a port of the destination-chain ("bridge") algorithm, written from the property
// statement and the layout documentation in proto/band/base/oracle/v1/proof.proto.  It consumes only
// the ABI-encoded bytes a relayer would submit and never calls the proof package.
//
//	relayAndVerify(bytes data):       (bytes relayData, bytes verifyData) = abi.decode(data)
//	relayBlock(multiStore, merkleParts, commonEncodedVotePart, signatures[]):
//	    appHash   = multiStore.getAppHash()
//	    blockHash = merkleParts.getBlockHeader(appHash)
//	    common    = prefix || blockHash || suffix            (prefix 15|24 bytes, suffix 38 bytes)
//	    for each signature: signer = ecrecover(sha256(len || common || 42 || len(ts) || ts || 50 || len(chainID) || chainID), v, r, s)
//	                        signers strictly ascending, each a validator
//	    remember oracleState[height] = multiStore.oracleIAVLStateHash
//	verifyOracleData(blockHeight, result, version, merklePaths[]):
//	    leaf = sha256(0 || 2 || varint(version) || 9 || 0xff || be64(requestID) || 32 || sha256(proto(result)))
//	    fold merklePaths; root must equal oracleState[blockHeight]

// ---- ABI types (Bridge.sol structs) -------------------------------------------------------------

type evMultiStore struct {
	OracleIAVLStateHash                   [32]byte
	MintStoreMerkleHash                   [32]byte
	ParamsToRestakeStoresMerkleHash       [32]byte
	RollingseedToTransferStoresMerkleHash [32]byte
	TssToUpgradeStoresMerkleHash          [32]byte
	AuthToIcahostStoresMerkleHash         [32]byte
}

type evHeaderParts struct {
	VersionAndChainIdHash             [32]byte
	Height                            uint64
	TimeSecond                        uint64
	TimeNanoSecond                    uint32
	LastBlockIdAndOther               [32]byte
	NextValidatorHashAndConsensusHash [32]byte
	LastResultsHash                   [32]byte
	EvidenceAndProposerHash           [32]byte
}

type evCommon struct {
	SignedDataPrefix []byte
	SignedDataSuffix []byte
}

type evSig struct {
	R                [32]byte
	S                [32]byte
	V                uint8
	EncodedTimestamp []byte
}

type evRelay struct {
	MultiStore            evMultiStore
	MerkleParts           evHeaderParts
	CommonEncodedVotePart evCommon
	Signatures            []evSig
}

type evResult struct {
	ClientID       string
	OracleScriptID uint64
	Params         []byte
	AskCount       uint64
	MinCount       uint64
	RequestID      uint64
	AnsCount       uint64
	RequestTime    uint64
	ResolveTime    uint64
	ResolveStatus  uint8
	Result         []byte
}

type evPath struct {
	IsDataOnRight  bool
	SubtreeHeight  uint8
	SubtreeSize    *big.Int
	SubtreeVersion *big.Int
	SiblingHash    [32]byte
}

type evVerify struct {
	BlockHeight *big.Int
	Result      evResult
	Version     *big.Int
	MerklePaths []evPath
}

type evVerifyCount struct {
	BlockHeight *big.Int
	Count       *big.Int
	Version     *big.Int
	MerklePaths []evPath
}

type am = abi.ArgumentMarshaling

func mkArgs(defs ...am) abi.Arguments {
	var out abi.Arguments
	for _, d := range defs {
		t, err := abi.NewType(d.Type, "", d.Components)
		if err != nil {
			panic(err)
		}
		out = append(out, abi.Argument{Name: d.Name, Type: t})
	}
	return out
}

func f(name, typ string) am { return am{Name: name, Type: typ} }

var (
	pathComponents = []am{f("isDataOnRight", "bool"), f("subtreeHeight", "uint8"), f("subtreeSize", "uint256"),
		f("subtreeVersion", "uint256"), f("siblingHash", "bytes32")}

	outerSingleArgs = mkArgs(f("relayData", "bytes"), f("verifyData", "bytes"))
	outerMultiArgs  = mkArgs(f("relayData", "bytes"), f("verifyData", "bytes[]"))

	relayArgs = mkArgs(
		am{Name: "multiStore", Type: "tuple", Components: []am{
			f("oracleIAVLStateHash", "bytes32"), f("mintStoreMerkleHash", "bytes32"), f("paramsToRestakeStoresMerkleHash", "bytes32"),
			f("rollingseedToTransferStoresMerkleHash", "bytes32"), f("tssToUpgradeStoresMerkleHash", "bytes32"), f("authToIcahostStoresMerkleHash", "bytes32")}},
		am{Name: "merkleParts", Type: "tuple", Components: []am{
			f("versionAndChainIdHash", "bytes32"), f("height", "uint64"), f("timeSecond", "uint64"), f("timeNanoSecond", "uint32"),
			f("lastBlockIdAndOther", "bytes32"), f("nextValidatorHashAndConsensusHash", "bytes32"), f("lastResultsHash", "bytes32"),
			f("evidenceAndProposerHash", "bytes32")}},
		am{Name: "commonEncodedVotePart", Type: "tuple", Components: []am{f("signedDataPrefix", "bytes"), f("signedDataSuffix", "bytes")}},
		am{Name: "signatures", Type: "tuple[]", Components: []am{f("r", "bytes32"), f("s", "bytes32"), f("v", "uint8"), f("encodedTimestamp", "bytes")}},
	)

	verifyArgs = mkArgs(
		f("blockHeight", "uint256"),
		am{Name: "result", Type: "tuple", Components: []am{
			f("clientID", "string"), f("oracleScriptID", "uint64"), f("params", "bytes"), f("askCount", "uint64"), f("minCount", "uint64"),
			f("requestID", "uint64"), f("ansCount", "uint64"), f("requestTime", "uint64"), f("resolveTime", "uint64"),
			f("resolveStatus", "uint8"), f("result", "bytes")}},
		f("version", "uint256"),
		am{Name: "merklePaths", Type: "tuple[]", Components: pathComponents},
	)

	verifyCountArgs = mkArgs(
		f("blockHeight", "uint256"), f("count", "uint256"), f("version", "uint256"),
		am{Name: "merklePaths", Type: "tuple[]", Components: pathComponents},
	)
)

func decodeInto(args abi.Arguments, data []byte, dst any) error {
	vals, err := args.Unpack(data)
	if err != nil {
		return err
	}
	return args.Copy(dst, vals)
}

// ---- hashing primitives -------------------------------------------------------------------------

func sha(parts ...[]byte) []byte {
	h := sha256.New()
	for _, p := range parts {
		h.Write(p)
	}
	return h.Sum(nil)
}

func merkleLeaf(b []byte) []byte     { return sha([]byte{0}, b) }
func merkleInner(l, r []byte) []byte { return sha([]byte{1}, l, r) }

func uvarint(v uint64) []byte {
	var buf [binary.MaxVarintLen64]byte
	n := binary.PutUvarint(buf[:], v)
	return buf[:n]
}

// svarint is the bridge's encodeVarintSigned: the unsigned varint of 2*value (value >= 0).
func svarint(v *big.Int) ([]byte, error) {
	if v.Sign() < 0 || v.BitLen() > 62 {
		return nil, fmt.Errorf("value %s outside the non-negative int63 range", v)
	}
	return uvarint(v.Uint64() * 2), nil
}

// ---- IAVL ---------------------------------------------------------------------------------------

func iavlLeaf(version *big.Int, key, valueHash []byte) ([]byte, error) {
	ver, err := svarint(version)
	if err != nil {
		return nil, err
	}
	if len(key) > 127 {
		return nil, fmt.Errorf("key too long")
	}
	return sha([]byte{0}, []byte{2}, ver, []byte{uint8(len(key))}, key, []byte{32}, valueHash), nil
}

func iavlFold(leaf []byte, paths []evPath) ([]byte, error) {
	cur := leaf
	for i, p := range paths {
		size, err := svarint(p.SubtreeSize)
		if err != nil {
			return nil, fmt.Errorf("path %d size: %v", i, err)
		}
		ver, err := svarint(p.SubtreeVersion)
		if err != nil {
			return nil, fmt.Errorf("path %d version: %v", i, err)
		}
		if p.SubtreeHeight > 63 {
			return nil, fmt.Errorf("path %d height %d", i, p.SubtreeHeight)
		}
		l, r := cur, p.SiblingHash[:]
		if p.IsDataOnRight {
			l, r = p.SiblingHash[:], cur
		}
		cur = sha([]byte{p.SubtreeHeight << 1}, size, ver, []byte{32}, l, []byte{32}, r)
	}
	return cur, nil
}

// protoResult is the protobuf encoding of band.oracle.v1.Result from the relayed fields (proto3: default
// values are omitted), as the bridge's ResultCodec does.
func protoResult(r evResult) []byte {
	var b bytes.Buffer
	str := func(tag byte, v []byte) {
		if len(v) > 0 {
			b.WriteByte(tag)
			b.Write(uvarint(uint64(len(v))))
			b.Write(v)
		}
	}
	num := func(tag byte, v uint64) {
		if v != 0 {
			b.WriteByte(tag)
			b.Write(uvarint(v))
		}
	}
	str(0x0a, []byte(r.ClientID))
	num(0x10, r.OracleScriptID)
	str(0x1a, r.Params)
	num(0x20, r.AskCount)
	num(0x28, r.MinCount)
	num(0x30, r.RequestID)
	num(0x38, r.AnsCount)
	num(0x40, r.RequestTime)
	num(0x48, r.ResolveTime)
	num(0x50, uint64(r.ResolveStatus))
	str(0x5a, r.Result)
	return b.Bytes()
}

func resultKey(id uint64) []byte {
	k := make([]byte, 9)
	k[0] = 0xff
	binary.BigEndian.PutUint64(k[1:], id)
	return k
}

var requestCountKey = append([]byte{0}, []byte("RequestCount")...)

// ---- multistore ---------------------------------------------------------------------------------

// appHashOf folds the oracle store root with the five sibling hashes in the documented positions:
//
//	[AppHash] = inner([auth..icahost], inner(inner(inner(inner([mint], leaf(oracle)), [params..restake]), [rollingseed..transfer]), [tss..upgrade]))
func appHashOf(m evMultiStore) []byte {
	oracleLeaf := merkleLeaf(append(append([]byte{6}, []byte("oracle")...), append([]byte{32}, sha(m.OracleIAVLStateHash[:])...)...))
	n := merkleInner(m.MintStoreMerkleHash[:], oracleLeaf)
	n = merkleInner(n, m.ParamsToRestakeStoresMerkleHash[:])
	n = merkleInner(n, m.RollingseedToTransferStoresMerkleHash[:])
	n = merkleInner(n, m.TssToUpgradeStoresMerkleHash[:])
	return merkleInner(m.AuthToIcahostStoresMerkleHash[:], n)
}

// ---- header -------------------------------------------------------------------------------------

func protoTime(sec uint64, nano uint32) []byte {
	var b []byte
	if sec != 0 {
		b = append(append(b, 0x08), uvarint(sec)...)
	}
	if nano != 0 {
		b = append(append(b, 0x10), uvarint(uint64(nano))...)
	}
	return b
}

func blockHashOf(p evHeaderParts, appHash []byte) []byte {
	var heightLeaf []byte
	if p.Height != 0 {
		heightLeaf = append([]byte{0x08}, uvarint(p.Height)...)
	}
	n1B := merkleInner(merkleLeaf(heightLeaf), merkleLeaf(protoTime(p.TimeSecond, p.TimeNanoSecond)))
	n2A := merkleInner(p.VersionAndChainIdHash[:], n1B)
	n3A := merkleInner(n2A, p.LastBlockIdAndOther[:])
	n1F := merkleInner(merkleLeaf(append([]byte{0x0a, 0x20}, appHash...)), p.LastResultsHash[:])
	n2C := merkleInner(p.NextValidatorHashAndConsensusHash[:], n1F)
	n3B := merkleInner(n2C, p.EvidenceAndProposerHash[:])
	return merkleInner(n3A, n3B)
}

// ---- signatures ---------------------------------------------------------------------------------

func recoverSigner(common []byte, sig evSig, chainID string) ([]byte, error) {
	if len(chainID) > 255 || len(sig.EncodedTimestamp) > 255 {
		return nil, fmt.Errorf("length prefix overflow")
	}
	msg := append([]byte{}, common...)
	msg = append(msg, 42, uint8(len(sig.EncodedTimestamp)))
	msg = append(msg, sig.EncodedTimestamp...)
	msg = append(msg, 50, uint8(len(chainID)))
	msg = append(msg, chainID...)
	if len(msg) > 255 {
		return nil, fmt.Errorf("vote longer than a single-byte length prefix allows")
	}
	digest := sha([]byte{uint8(len(msg))}, msg)
	if sig.V != 27 && sig.V != 28 {
		return nil, fmt.Errorf("v=%d", sig.V)
	}
	rs := append(append(append([]byte{}, sig.R[:]...), sig.S[:]...), sig.V-27)
	pub, err := ethcrypto.Ecrecover(digest, rs)
	if err != nil {
		return nil, err
	}
	return ethcrypto.Keccak256(pub[1:])[12:], nil
}

// ethAddressOfCompressed is the Ethereum address of a 33-byte compressed secp256k1 public key.
func ethAddressOfCompressed(pub33 []byte) []byte {
	pk, err := ethcrypto.DecompressPubkey(pub33)
	if err != nil {
		panic(err)
	}
	return ethcrypto.PubkeyToAddress(*pk).Bytes()
}

// ---- whole algorithm ----------------------------------------------------------------------------

// truth is what the driver knows about the block independently of the proof service.
type truth struct {
	Height     int64
	ChainID    string
	AppHash    []byte   // app hash in the header of that block
	BlockHash  []byte   // CometBFT's Header.Hash()
	Committers [][]byte // Ethereum addresses of the validators whose precommit for this block is in the commit
}

type failure struct {
	fp     string
	detail string
}

func failf(fp, format string, a ...any) *failure { return &failure{fp, fmt.Sprintf(format, a...)} }

// relayBlock runs the block part; it returns the oracle store root the bridge would remember.
func relayBlock(relayData []byte, tr truth) (oracleRoot []byte, rel evRelay, signers int, fl *failure) {
	if err := decodeInto(relayArgs, relayData, &rel); err != nil {
		return nil, rel, 0, failf("evm-bytes-undecodable:relay", "%v", err)
	}
	appHash := appHashOf(rel.MultiStore)
	if !bytes.Equal(appHash, tr.AppHash) {
		return nil, rel, 0, failf("app-hash-mismatch", "multistore fold gives %x, header app hash is %x (oracle root %x)", appHash, tr.AppHash, rel.MultiStore.OracleIAVLStateHash)
	}
	if rel.MerkleParts.Height != uint64(tr.Height) {
		return nil, rel, 0, failf("header-height-mismatch", "merkle parts height %d, block %d", rel.MerkleParts.Height, tr.Height)
	}
	blockHash := blockHashOf(rel.MerkleParts, appHash)
	if !bytes.Equal(blockHash, tr.BlockHash) {
		return nil, rel, 0, failf("block-hash-mismatch", "header fold gives %x, block hash is %x (height %d time %d.%09d)", blockHash, tr.BlockHash,
			rel.MerkleParts.Height, rel.MerkleParts.TimeSecond, rel.MerkleParts.TimeNanoSecond)
	}
	pl, sl := len(rel.CommonEncodedVotePart.SignedDataPrefix), len(rel.CommonEncodedVotePart.SignedDataSuffix)
	if pl != 15 && pl != 24 {
		return nil, rel, 0, failf("vote-prefix-size", "prefix %x has %d bytes (15 or 24 in the fixed vote format)", rel.CommonEncodedVotePart.SignedDataPrefix, pl)
	}
	if sl != 38 {
		return nil, rel, 0, failf("vote-suffix-size", "suffix %x has %d bytes (38 in the fixed vote format)", rel.CommonEncodedVotePart.SignedDataSuffix, sl)
	}
	common := append(append(append([]byte{}, rel.CommonEncodedVotePart.SignedDataPrefix...), blockHash...), rel.CommonEncodedVotePart.SignedDataSuffix...)
	if len(rel.Signatures) == 0 {
		return nil, rel, 0, failf("no-signatures", "proof carries no signature")
	}
	var last []byte
	for i, s := range rel.Signatures {
		addr, err := recoverSigner(common, s, tr.ChainID)
		if err != nil {
			return nil, rel, 0, failf("signature-unrecoverable", "signature %d: %v", i, err)
		}
		ok := false
		for _, c := range tr.Committers {
			if bytes.Equal(c, addr) {
				ok = true
			}
		}
		if !ok {
			return nil, rel, 0, failf("signer-not-precommitter", "signature %d (ts %x) recovers %x which did not precommit this block (committers %x)", i, s.EncodedTimestamp, addr, tr.Committers)
		}
		if last != nil && bytes.Compare(addr, last) <= 0 {
			return nil, rel, 0, failf("signer-order", "signature %d recovers %x after %x: not strictly ascending", i, addr, last)
		}
		last = addr
	}
	return rel.MultiStore.OracleIAVLStateHash[:], rel, len(rel.Signatures), nil
}

func verifyOracleData(verifyData []byte, oracleRoot []byte, height int64) (evVerify, *failure) {
	var v evVerify
	if err := decodeInto(verifyArgs, verifyData, &v); err != nil {
		return v, failf("evm-bytes-undecodable:verify", "%v", err)
	}
	if v.BlockHeight.Cmp(big.NewInt(height)) != 0 {
		return v, failf("verify-height-mismatch", "oracle data proof is for block %s, relayed block is %d", v.BlockHeight, height)
	}
	leaf, err := iavlLeaf(v.Version, resultKey(v.Result.RequestID), sha(protoResult(v.Result)))
	if err != nil {
		return v, failf("iavl-leaf-unencodable", "%v", err)
	}
	root, err := iavlFold(leaf, v.MerklePaths)
	if err != nil {
		return v, failf("iavl-path-unencodable", "%v", err)
	}
	if !bytes.Equal(root, oracleRoot) {
		return v, failf("iavl-root-mismatch:result", "request %d: folding %d path steps from the value leaf (version %s) gives %x, oracle store root is %x",
			v.Result.RequestID, len(v.MerklePaths), v.Version, root, oracleRoot)
	}
	return v, nil
}

func verifyCount(verifyData []byte, oracleRoot []byte, height int64) (evVerifyCount, *failure) {
	var v evVerifyCount
	if err := decodeInto(verifyCountArgs, verifyData, &v); err != nil {
		return v, failf("evm-bytes-undecodable:count", "%v", err)
	}
	if v.BlockHeight.Cmp(big.NewInt(height)) != 0 {
		return v, failf("verify-height-mismatch", "count proof is for block %s, relayed block is %d", v.BlockHeight, height)
	}
	if !v.Count.IsUint64() {
		return v, failf("count-out-of-range", "%s", v.Count)
	}
	var val [8]byte
	binary.BigEndian.PutUint64(val[:], v.Count.Uint64())
	leaf, err := iavlLeaf(v.Version, requestCountKey, sha(val[:]))
	if err != nil {
		return v, failf("iavl-leaf-unencodable", "%v", err)
	}
	root, err := iavlFold(leaf, v.MerklePaths)
	if err != nil {
		return v, failf("iavl-path-unencodable", "%v", err)
	}
	if !bytes.Equal(root, oracleRoot) {
		return v, failf("iavl-root-mismatch:count", "count %s: folding %d path steps (version %s) gives %x, oracle store root is %x",
			v.Count, len(v.MerklePaths), v.Version, root, oracleRoot)
	}
	return v, nil
}
