// Package c12 checks property C12: relay proofs produced by the proof service verify with the bridge
// algorithm against the real store layout, header and signatures.
//
// Engine: enum on a real application that commits blocks.  A fixed scenario of signed transactions is
// delivered through FinalizeBlock/Commit so that oracle results accumulate over committed IAVL versions.
// The unmodified proof service (client/grpc/oracle/proof) runs against a fake CometBFT RPC client whose
// ABCIQueryWithOptions is the application's real Query (with proofs) and whose Commit returns a signed
// header built with CometBFT's own types (Header.Hash, canonical vote sign-bytes, secp256k1 keys).
// Every tuple of the stated finite spaces is evaluated; the produced EvmProofBytes are verified by an
// independent port of the bridge algorithm (bridge.go) against the application's committed app hash,
// CometBFT's block hash and the set of validators that pre-committed the block.
package c12

import (
	"bytes"
	"context"
	"crypto/sha256"
	"encoding/json"
	"fmt"
	"math/big"
	"runtime/debug"
	"sort"
	"strings"
	"sync"
	"sync/atomic"
	"time"

	cmttypes "github.com/cometbft/cometbft/types"

	"github.com/cosmos/cosmos-sdk/client"
	"github.com/cosmos/cosmos-sdk/server/config"

	"github.com/bandprotocol/chain/v3/client/grpc/oracle/proof"
	oracletypes "github.com/bandprotocol/chain/v3/x/oracle/types"
	"github.com/bandprotocol/chain/v3/zzverif/engine"
)

// Tuple is one evaluation: which proof is asked from the service and which signed header the node serves.
type Tuple struct {
	Kind string   `json:"kind"` // proof | proof-latest | count | multi
	IDs  []uint64 `json:"ids,omitempty"`
	Sc   Scenario `json:"scenario"`
	// AdvanceAfter > 0: live node. The node's latest block is Sc.Height when the request starts and the next
	// block (height+1) arrives right after the AdvanceAfter-th RPC call the service makes for this request.
	// Headers of both blocks are chainScenario(height); only "latest" requests (multi, proof-latest) use it.
	AdvanceAfter int `json:"advance_after,omitempty"`
}

// Cfg is stored in replay files.
type Cfg struct {
	N int `json:"n_requests"`
}

// versionState caches the quantifier domain per committed version.
type versionState struct {
	count   uint64
	results map[uint64]oracletypes.Result
}

type worker struct {
	c      *chain
	states map[int64]*versionState
	out    map[string]int
}

func (wk *worker) state(v int64) *versionState {
	if s, ok := wk.states[v]; ok {
		return s
	}
	cnt, res := wk.c.stateAt(v)
	s := &versionState{cnt, res}
	wk.states[v] = s
	return s
}

// evalResult is what one evaluation reports.
type evalResult struct {
	labels   []string
	fail     *failure
	proofKey string // non-empty: a proof was required, produced and verified (key = hash of the proof bytes)
}

func (e *evalResult) saw(l string) { e.labels = append(e.labels, l) }

func errClass(err error) string {
	s := err.Error()
	for _, k := range []string{"no match address found", "no valid precommit", "IAVL existence proof not found", "Proof not found", "not available", "invalid request"} {
		if strings.Contains(s, k) {
			return strings.ReplaceAll(k, " ", "-")
		}
	}
	if len(s) > 40 {
		s = s[:40]
	}
	return s
}

// eval runs one tuple on the worker's chain.
func (wk *worker) eval(t Tuple) (er evalResult) {
	c := wk.c
	H := t.Sc.Height
	prev, ok := c.blocks[H-1]
	if !ok || H-1 < 2 {
		panic(fmt.Sprintf("tuple height %d outside the chain", H))
	}
	sh, tr, inScope := signedHeader(t.Sc, prev.AppHash)
	node := &fakeNode{c: c, sh: sh}
	live := t.AdvanceAfter > 0
	var trNext truth
	if live {
		if _, ok := c.blocks[H+1]; !ok {
			panic("live tuple at the last block")
		}
		shNext, tn, _ := signedHeader(chainScenario(c, H+1), c.blocks[H].AppHash)
		trNext = tn
		node.live, node.latest, node.advanceAfter = true, H, t.AdvanceAfter
		node.headerAt = func(h int64) *cmttypes.SignedHeader {
			switch h {
			case H:
				return sh
			case H + 1:
				return shNext
			}
			x, _, _ := signedHeader(chainScenario(c, h), c.blocks[h-1].AppHash)
			return x
		}
	}
	srv := proof.NewProofServer(client.Context{}.WithClient(node), config.Config{})
	st := wk.state(H - 1)

	var (
		evm        []byte
		single     *proof.ProofResponse
		multi      *proof.MultiProofResponse
		count      *proof.RequestCountProofResponse
		err        error
		panicked   string
		allStored  = true
		wantHeight = H
	)
	for _, id := range t.IDs {
		if _, ok := st.results[id]; !ok {
			allStored = false
		}
	}
	func() {
		defer func() {
			if r := recover(); r != nil {
				panicked = fmt.Sprintf("%v | %s", r, trim(debug.Stack()))
			}
		}()
		switch t.Kind {
		case "proof":
			single, err = srv.Proof(context.Background(), &proof.ProofRequest{RequestId: t.IDs[0], Height: H})
		case "proof-latest":
			single, err = srv.Proof(context.Background(), &proof.ProofRequest{RequestId: t.IDs[0], Height: 0})
			wantHeight = 0
		case "multi":
			multi, err = srv.MultiProof(context.Background(), &proof.MultiProofRequest{RequestIds: t.IDs})
		case "count":
			count, err = srv.RequestCountProof(context.Background(), &proof.RequestCountProofRequest{})
		default:
			panic("kind " + t.Kind)
		}
	}()
	_ = wantHeight
	if live {
		er.saw(fmt.Sprintf("live:next-block-after-call-%d", t.AdvanceAfter))
		claimed := uint64(0)
		switch {
		case panicked != "" || err != nil:
			er.saw("live:failed-as-a-whole")
		case single != nil:
			claimed = single.Result.Proof.BlockHeight
		case multi != nil:
			claimed = multi.Result.Proof.BlockHeight
		}
		switch claimed {
		case 0:
		case uint64(H):
			er.saw("live:response-for-first-latest-block")
		case uint64(H + 1):
			// the response claims the block that arrived during the request: everything in it (header parts,
			// signatures, multistore proof, IAVL paths) must belong to that ONE block
			er.saw("live:response-for-next-block")
			H, tr, st = H+1, trNext, wk.state(H)
			allStored = true
			for _, id := range t.IDs {
				if _, ok := st.results[id]; !ok {
					allStored = false
				}
			}
		default:
			er.fail = failf("live:response-for-block-never-served", "response claims block %d, node served %d and %d", claimed, H, H+1)
			return
		}
	}
	kind := t.Kind
	if kind == "proof-latest" {
		kind = "proof"
	}

	// ---- cases the statement does not speak about: observed, not asserted ----
	if !inScope {
		switch {
		case panicked != "":
			er.saw("out-of-scope(vote>=128B):panic")
		case err != nil:
			er.saw("out-of-scope(vote>=128B):" + errClass(err))
		default:
			er.saw("out-of-scope(vote>=128B):response")
		}
		return
	}
	// A MultiProof batch in which some ids have no stored result: the call must either fail as a whole or
	// return, for EVERY id it reports, proofs that verify end to end (checked below like any other response).
	partial := false
	if !allStored && t.Kind == "multi" {
		_, firstStored := st.results[t.IDs[0]]
		anyStored := false
		for _, id := range t.IDs {
			if _, ok := st.results[id]; ok {
				anyStored = true
			}
		}
		switch {
		case !anyStored:
			er.saw("batch-shape:all-missing")
		case !firstStored:
			er.saw("batch-shape:first-missing-later-stored")
		default:
			er.saw("batch-shape:first-stored-later-missing")
		}
		switch {
		case panicked != "":
			er.saw("batch-with-missing-id:panic")
			return
		case err != nil:
			er.saw("batch-with-missing-id:failed-as-a-whole:" + errClass(err))
			return
		}
		partial = true
	}
	if !allStored && !partial {
		switch {
		case panicked != "":
			er.saw("result-not-stored:panic")
		case err != nil:
			er.saw("result-not-stored:" + errClass(err))
		default:
			er.saw("result-not-stored:response")
		}
		return
	}

	// ---- a proof must be produced ----
	if panicked != "" {
		er.fail = failf("proof-service-panic:"+kind, "%s", panicked)
		return
	}
	if err != nil {
		er.fail = failf("no-proof-produced:"+kind+":"+errClass(err), "%v", err)
		return
	}

	var (
		relayData  []byte
		verifyData [][]byte
		structRel  proof.BlockRelayProof
		structH    uint64
	)
	switch {
	case single != nil:
		evm, structRel, structH = single.Result.EvmProofBytes, single.Result.Proof.BlockRelayProof, single.Result.Proof.BlockHeight
		var o struct{ RelayData, VerifyData []byte }
		if e := decodeInto(outerSingleArgs, evm, &o); e != nil {
			er.fail = failf("evm-bytes-undecodable:outer", "%v", e)
			return
		}
		relayData, verifyData = o.RelayData, [][]byte{o.VerifyData}
	case count != nil:
		evm, structRel, structH = count.Result.EvmProofBytes, count.Result.Proof.BlockRelayProof, count.Result.Proof.BlockHeight
		var o struct{ RelayData, VerifyData []byte }
		if e := decodeInto(outerSingleArgs, evm, &o); e != nil {
			er.fail = failf("evm-bytes-undecodable:outer", "%v", e)
			return
		}
		relayData, verifyData = o.RelayData, [][]byte{o.VerifyData}
	case multi != nil:
		evm, structRel, structH = multi.Result.EvmProofBytes, multi.Result.Proof.BlockRelayProof, multi.Result.Proof.BlockHeight
		var o struct {
			RelayData  []byte
			VerifyData [][]byte
		}
		if e := decodeInto(outerMultiArgs, evm, &o); e != nil {
			er.fail = failf("evm-bytes-undecodable:outer", "%v", e)
			return
		}
		relayData, verifyData = o.RelayData, o.VerifyData
		if partial && len(verifyData) == 0 {
			er.saw("batch-with-missing-id:empty-response")
			return
		}
		if !partial && len(verifyData) != len(t.IDs) {
			er.fail = failf("multi-proof-length", "%d ids requested, %d oracle data proofs relayed", len(t.IDs), len(verifyData))
			return
		}
	}

	// ---- the bridge algorithm on the relayed bytes ----
	oracleRoot, rel, nsig, fl := relayBlock(relayData, tr)
	if fl != nil {
		er.fail = fl
		return
	}
	if structH != uint64(H) {
		er.fail = failf("struct-block-height", "response block height %d, block %d", structH, H)
		return
	}
	if fl := compareRelay(structRel, rel); fl != nil {
		er.fail = fl
		return
	}
	er.saw(fmt.Sprintf("vote-prefix:%dB", len(rel.CommonEncodedVotePart.SignedDataPrefix)))
	er.saw(fmt.Sprintf("signatures:%d", nsig))
	if nsig == len(tr.Committers) {
		er.saw("signatures:all-precommitters-included")
	} else {
		er.saw("signatures:fewer-than-precommitters")
	}
	for _, s := range rel.Signatures {
		er.saw(fmt.Sprintf("vote-timestamp:%dB", len(s.EncodedTimestamp)))
	}

	switch {
	case count != nil:
		v, fl := verifyCount(verifyData[0], oracleRoot, H)
		if fl != nil {
			er.fail = fl
			return
		}
		if v.Count.Uint64() != st.count {
			er.fail = failf("proved-count-differs-from-state", "proved %s, keeper at version %d has %d", v.Count, H-1, st.count)
			return
		}
		p := count.Result.Proof.CountProof
		if p.Count != v.Count.Uint64() || p.Version != v.Version.Uint64() {
			er.fail = failf("evm-struct-mismatch:count", "struct %d/%d evm %s/%s", p.Count, p.Version, v.Count, v.Version)
			return
		}
		if fl := comparePaths(p.MerklePaths, v.MerklePaths); fl != nil {
			er.fail = fl
			return
		}
		shapeLabels(&er, v.MerklePaths)
		er.saw("count:verified")
	default:
		var structs []proof.OracleDataProof
		if single != nil {
			structs = []proof.OracleDataProof{single.Result.Proof.OracleDataProof}
		} else {
			structs = multi.Result.Proof.OracleDataMultiProof
		}
		next := 0 // partial responses: the reported ids must be a subsequence of the requested ids
		for i, vd := range verifyData {
			v, fl := verifyOracleData(vd, oracleRoot, H)
			if fl != nil {
				er.fail = fl
				return
			}
			want := uint64(0)
			if partial {
				for next < len(t.IDs) && t.IDs[next] != v.Result.RequestID {
					next++
				}
				if next == len(t.IDs) {
					er.fail = failf("batch-reports-unrequested-id", "batch %v: reported proof %d is for request %d", t.IDs, i, v.Result.RequestID)
					return
				}
				want = t.IDs[next]
				next++
				if _, ok := st.results[want]; !ok {
					er.fail = failf("batch-reports-unstored-id", "batch %v: proof reported for request %d which has no result at version %d", t.IDs, want, H-1)
					return
				}
			} else {
				want = t.IDs[i]
			}
			if v.Result.RequestID != want {
				er.fail = failf("proved-result-of-other-request", "asked %d, proved %d", want, v.Result.RequestID)
				return
			}
			if fl := compareResult(st.results[want], v.Result, "state"); fl != nil {
				er.fail = fl
				return
			}
			if i >= len(structs) {
				er.fail = failf("evm-struct-mismatch:proof-count", "%d struct proofs, %d evm proofs", len(structs), len(verifyData))
				return
			}
			if fl := compareResult(structs[i].Result, v.Result, "struct"); fl != nil {
				er.fail = fl
				return
			}
			if structs[i].Version != v.Version.Uint64() {
				er.fail = failf("evm-struct-mismatch:version", "struct %d evm %s", structs[i].Version, v.Version)
				return
			}
			if fl := comparePaths(structs[i].MerklePaths, v.MerklePaths); fl != nil {
				er.fail = fl
				return
			}
			shapeLabels(&er, v.MerklePaths)
			er.saw(fmt.Sprintf("result-status:%d", v.Result.ResolveStatus))
		}
		if partial {
			er.saw("batch-with-missing-id:partial-response-verified")
		} else {
			er.saw(kind + ":verified")
		}
	}
	sum := sha256.Sum256(evm)
	er.proofKey = string(sum[:8])
	return
}

func shapeLabels(er *evalResult, paths []evPath) {
	er.saw(fmt.Sprintf("iavl-depth:%02d", len(paths)))
	for _, p := range paths {
		if p.IsDataOnRight {
			er.saw("iavl-step:data-on-right")
		} else {
			er.saw("iavl-step:data-on-left")
		}
	}
}

func trim(b []byte) string {
	var out []string
	for _, l := range strings.Split(string(b), "\n") {
		if strings.Contains(l, "bandprotocol/chain") && !strings.Contains(l, "zzverif") {
			out = append(out, strings.TrimSpace(l))
		}
		if len(out) >= 6 {
			break
		}
	}
	return strings.Join(out, " | ")
}

func eq32(a []byte, b [32]byte) bool { return bytes.Equal(a, b[:]) }

func compareRelay(s proof.BlockRelayProof, e evRelay) *failure {
	ms, em := s.MultiStoreProof, e.MultiStore
	switch {
	case !eq32(ms.OracleIAVLStateHash, em.OracleIAVLStateHash), !eq32(ms.MintStoreMerkleHash, em.MintStoreMerkleHash),
		!eq32(ms.ParamsToRestakeStoresMerkleHash, em.ParamsToRestakeStoresMerkleHash),
		!eq32(ms.RollingseedToTransferStoresMerkleHash, em.RollingseedToTransferStoresMerkleHash),
		!eq32(ms.TssToUpgradeStoresMerkleHash, em.TssToUpgradeStoresMerkleHash),
		!eq32(ms.AuthToIcahostStoresMerkleHash, em.AuthToIcahostStoresMerkleHash):
		return failf("evm-struct-mismatch:multistore", "struct %+v evm %+v", ms, em)
	}
	hp, eh := s.BlockHeaderMerkleParts, e.MerkleParts
	switch {
	case !eq32(hp.VersionAndChainIdHash, eh.VersionAndChainIdHash), hp.Height != eh.Height, hp.TimeSecond != eh.TimeSecond,
		hp.TimeNanoSecond != eh.TimeNanoSecond, !eq32(hp.LastBlockIdAndOther, eh.LastBlockIdAndOther),
		!eq32(hp.NextValidatorHashAndConsensusHash, eh.NextValidatorHashAndConsensusHash),
		!eq32(hp.LastResultsHash, eh.LastResultsHash), !eq32(hp.EvidenceAndProposerHash, eh.EvidenceAndProposerHash):
		return failf("evm-struct-mismatch:header-parts", "struct %+v evm %+v", hp, eh)
	}
	if !bytes.Equal(s.CommonEncodedVotePart.SignedDataPrefix, e.CommonEncodedVotePart.SignedDataPrefix) ||
		!bytes.Equal(s.CommonEncodedVotePart.SignedDataSuffix, e.CommonEncodedVotePart.SignedDataSuffix) {
		return failf("evm-struct-mismatch:common-vote-part", "struct %+v evm %+v", s.CommonEncodedVotePart, e.CommonEncodedVotePart)
	}
	if len(s.Signatures) != len(e.Signatures) {
		return failf("evm-struct-mismatch:signatures", "struct %d evm %d", len(s.Signatures), len(e.Signatures))
	}
	for i := range s.Signatures {
		a, b := s.Signatures[i], e.Signatures[i]
		if !eq32(a.R, b.R) || !eq32(a.S, b.S) || a.V != uint32(b.V) || !bytes.Equal(a.EncodedTimestamp, b.EncodedTimestamp) {
			return failf("evm-struct-mismatch:signatures", "signature %d: struct %+v evm %+v", i, a, b)
		}
	}
	return nil
}

func comparePaths(s []proof.IAVLMerklePath, e []evPath) *failure {
	if len(s) != len(e) {
		return failf("evm-struct-mismatch:merkle-paths", "struct %d steps, evm %d", len(s), len(e))
	}
	for i := range s {
		a, b := s[i], e[i]
		if a.IsDataOnRight != b.IsDataOnRight || a.SubtreeHeight != uint32(b.SubtreeHeight) ||
			new(big.Int).SetUint64(a.SubtreeSize).Cmp(b.SubtreeSize) != 0 || new(big.Int).SetUint64(a.SubtreeVersion).Cmp(b.SubtreeVersion) != 0 ||
			!eq32(a.SiblingHash, b.SiblingHash) {
			return failf("evm-struct-mismatch:merkle-paths", "step %d: struct %+v evm %+v", i, a, b)
		}
	}
	return nil
}

func compareResult(r oracletypes.Result, e evResult, what string) *failure {
	if r.ClientID != e.ClientID || uint64(r.OracleScriptID) != e.OracleScriptID || !bytes.Equal(r.Calldata, e.Params) ||
		r.AskCount != e.AskCount || r.MinCount != e.MinCount || uint64(r.RequestID) != e.RequestID || r.AnsCount != e.AnsCount ||
		r.RequestTime < 0 || uint64(r.RequestTime) != e.RequestTime || r.ResolveTime < 0 || uint64(r.ResolveTime) != e.ResolveTime ||
		r.ResolveStatus < 0 || uint64(r.ResolveStatus) != uint64(e.ResolveStatus) || !bytes.Equal(r.Result, e.Result) {
		return failf("proved-result-differs-from-"+what, "%s %+v, relayed %+v", what, r, e)
	}
	return nil
}

// ---- alphabets ----------------------------------------------------------------------------------

const realChainID = engine.ChainID // "BANDCHAIN"

// chainScenario is the header served for height H in the accumulation phase: the block's own time,
// data hash empty exactly when the block has no txs, three validators whose flags, round and
// timestamps rotate with H.
func chainScenario(c *chain, H int64) Scenario {
	b := c.blocks[H]
	s := Scenario{Height: H, ChainID: realChainID, Sec: b.Time.Unix(), Nano: int32(b.Time.Nanosecond()), Round: int32(H % 3), Total: uint32(1 + H%3)}
	if len(b.Txs) == 0 {
		s.Empty = 1 << 2
	}
	for i := 0; i < 3; i++ {
		v := ValSpec{Key: (i + int(H)) % 3, Flag: flagCommit, Sec: b.Time.Unix() + 1, Nano: int32(1000 * (i + 1))}
		if int(H%4) == i+1 {
			v.Flag = []int{flagAbsent, flagNil, flagAbsent}[i]
		}
		s.Vals = append(s.Vals, v)
	}
	return s
}

// accumulationTuples: at every header height H (3..last), the count proof, the proof of every request id
// 1..N (stored or not), every ordered pair of stored results and the list of all stored results through
// MultiProof; at the last height additionally Proof with height 0 ("latest").
func accumulationTuples(c *chain, states func(int64) *versionState) []Tuple {
	var out []Tuple
	for H := int64(3); H <= c.last; H++ {
		sc := chainScenario(c, H)
		out = append(out, Tuple{Kind: "count", Sc: sc})
		st := states(H - 1)
		var stored []uint64
		for id := uint64(1); id <= uint64(c.n); id++ {
			out = append(out, Tuple{Kind: "proof", IDs: []uint64{id}, Sc: sc})
			if _, ok := st.results[id]; ok {
				stored = append(stored, id)
			}
		}
		if len(stored) > 0 {
			out = append(out, Tuple{Kind: "multi", IDs: stored, Sc: sc})
		}
		for _, i := range stored {
			for _, j := range stored {
				if i != j {
					out = append(out, Tuple{Kind: "multi", IDs: []uint64{i, j}, Sc: sc})
				}
			}
		}
		if H == c.last {
			for id := uint64(1); id <= uint64(c.n); id++ {
				out = append(out, Tuple{Kind: "proof-latest", IDs: []uint64{id}, Sc: sc})
			}
		}
	}
	return out
}

// batchTuples: MultiProof batches over the alphabet {R1: result stored by block W1, R2: result stored by a
// block W2 != W1, P: request exists but is still pending (no result), X: id that never exists}, every
// sequence (with repetition) of length 1..3, at every header height at which all four classes exist.
func batchTuples(c *chain, states func(int64) *versionState) (out []Tuple, heights []int64) {
	for H := int64(3); H <= c.last; H++ {
		st := states(H - 1)
		var r1, r2, p uint64
		for id := uint64(1); id <= uint64(c.n); id++ {
			_, stored := st.results[id]
			switch {
			case stored && r1 == 0:
				r1 = id
			case stored && c.resolvedAt[id] != c.resolvedAt[r1]:
				r2 = id // the latest one resolved in another block
			case !stored && id <= st.count && p == 0:
				p = id
			}
		}
		if r1 == 0 || r2 == 0 || p == 0 {
			continue
		}
		heights = append(heights, H)
		alpha := []uint64{r1, r2, p, uint64(c.n) + 7}
		sc := chainScenario(c, H)
		for l := 1; l <= 3; l++ {
			total := 1
			for i := 0; i < l; i++ {
				total *= len(alpha)
			}
			for x := 0; x < total; x++ {
				ids := make([]uint64, l)
				y := x
				for i := 0; i < l; i++ {
					ids[i] = alpha[y%len(alpha)]
					y /= len(alpha)
				}
				out = append(out, Tuple{Kind: "multi", IDs: ids, Sc: sc})
			}
		}
	}
	return
}

// liveTuples: requests for the LATEST block while the chain advances.  For every height L (3..last-1) whose
// block stored at least one result: ids {O1: oldest result in state L-1, O2: newest result in state L-1,
// N: a result stored by block L itself (in state L, not in L-1)}; MultiProof of every sequence (with
// repetition) of length 1..3 and Proof(latest) of each id, x the next block arriving after the k-th RPC
// call of the request, k = 1..maxK.
func liveTuples(c *chain, states func(int64) *versionState, maxK int) (out []Tuple, heights []int64) {
	for L := int64(3); L < c.last; L++ {
		prev, cur := states(L-1), states(L)
		var o1, o2, nw uint64
		for id := uint64(1); id <= uint64(c.n); id++ {
			_, inPrev := prev.results[id]
			_, inCur := cur.results[id]
			switch {
			case inPrev && o1 == 0:
				o1 = id
			case inPrev:
				o2 = id
			case inCur && nw == 0:
				nw = id
			}
		}
		if o1 == 0 || o2 == 0 || nw == 0 {
			continue
		}
		heights = append(heights, L)
		alpha := []uint64{o1, o2, nw}
		sc := chainScenario(c, L)
		for k := 1; k <= maxK; k++ {
			for _, id := range alpha {
				out = append(out, Tuple{Kind: "proof-latest", IDs: []uint64{id}, Sc: sc, AdvanceAfter: k})
			}
			for l := 1; l <= 3; l++ {
				total := 1
				for i := 0; i < l; i++ {
					total *= len(alpha)
				}
				for x := 0; x < total; x++ {
					ids := make([]uint64, l)
					y := x
					for i := 0; i < l; i++ {
						ids[i] = alpha[y%len(alpha)]
						y /= len(alpha)
					}
					out = append(out, Tuple{Kind: "multi", IDs: ids, Sc: sc, AdvanceAfter: k})
				}
			}
		}
	}
	return
}

type tsVariant struct {
	sec  int64
	nano int32
}

func tsVariants(quick bool) []tsVariant {
	secs := []int64{0, 1, 1_700_000_000}
	if !quick {
		secs = append(secs, 253_402_300_799) // year 9999: 6-byte varint
	}
	var out []tsVariant
	for _, s := range secs {
		for _, n := range []int32{0, 1, 999_999_999} {
			out = append(out, tsVariant{s, n})
		}
	}
	return out
}

// flagPatterns lists every assignment of {commit, nil, absent} to n slots with at least one commit.
func flagPatterns(n int) [][]int {
	var out [][]int
	total := 1
	for i := 0; i < n; i++ {
		total *= 3
	}
	for x := 0; x < total; x++ {
		p := make([]int, n)
		y, has := x, false
		for i := 0; i < n; i++ {
			p[i] = []int{flagCommit, flagNil, flagAbsent}[y%3]
			if p[i] == flagCommit {
				has = true
			}
			y /= 3
		}
		if has {
			out = append(out, p)
		}
	}
	return out
}

// voteSpace is a product space about the vote format: (flag pattern) x round x timestamp base x
// chain-id length x slot order, on the last block, proving result N.  Slot order 0 puts key i in slot i,
// order 1 puts key n-1-i in slot i, so that for every pair of signing slots both relative orders of
// their Ethereum addresses occur (a validator set is ordered by power and CometBFT address, which is
// unrelated to the order of the Ethereum addresses the bridge requires).
type voteSpace struct {
	name     string
	patterns [][]int
	rounds   []int32
	ts       []tsVariant
	chainLen []int
	orders   int
}

func (v voteSpace) odo() engine.Odometer {
	return engine.Odometer{Sizes: []int{len(v.patterns), len(v.rounds), len(v.ts), len(v.chainLen), v.orders}}
}

func (v voteSpace) tuple(c *chain, idx int64) Tuple {
	d := v.odo().Digits(idx, nil)
	pat := v.patterns[d[0]]
	H := c.last
	b := c.blocks[H]
	sc := Scenario{Height: H, ChainID: chainIDOfLen(v.chainLen[d[3]]), Sec: b.Time.Unix(), Nano: int32(b.Time.Nanosecond()),
		Round: v.rounds[d[1]], Total: 1}
	for i, f := range pat {
		t := v.ts[(d[2]+i)%len(v.ts)] // slot i gets the i-th next timestamp variant: different validators sign different times
		key := i
		if d[4] == 1 {
			key = len(pat) - 1 - i
		}
		sc.Vals = append(sc.Vals, ValSpec{Key: key, Flag: f, Sec: t.sec, Nano: t.nano})
	}
	return Tuple{Kind: "proof", IDs: []uint64{uint64(c.n)}, Sc: sc}
}

// headerSpace is a product space about the header and the block id: empty-mask x header time x height x
// app version x chain-id length x object x part-set total, one validator, round 0.
type headerSpace struct {
	masks    int
	times    []tsVariant
	heights  []int64
	appVers  []uint64
	chainLen []int
	totals   []uint32
}

func (h headerSpace) odo() engine.Odometer {
	return engine.Odometer{Sizes: []int{h.masks, len(h.times), len(h.heights), len(h.appVers), len(h.chainLen), 2, len(h.totals)}}
}

func (h headerSpace) tuple(c *chain, idx int64) Tuple {
	d := h.odo().Digits(idx, nil)
	t := h.times[d[1]]
	sc := Scenario{Height: h.heights[d[2]], ChainID: chainIDOfLen(h.chainLen[d[4]]), Sec: t.sec, Nano: t.nano, AppVer: h.appVers[d[3]],
		Empty: uint(d[0]), Round: 0, Total: h.totals[d[6]], Vals: []ValSpec{{Key: 0, Flag: flagCommit, Sec: t.sec, Nano: t.nano}}}
	if d[5] == 0 {
		return Tuple{Kind: "count", Sc: sc}
	}
	return Tuple{Kind: "proof", IDs: []uint64{1}, Sc: sc}
}

func patternsUpTo(lo, hi int) [][]int {
	var out [][]int
	for n := lo; n <= hi; n++ {
		out = append(out, flagPatterns(n)...)
	}
	return out
}

func seq(lo, hi int) []int {
	var out []int
	for i := lo; i <= hi; i++ {
		out = append(out, i)
	}
	return out
}

// ---- run ----------------------------------------------------------------------------------------

var buildMu sync.Mutex

func newWorker(n int) *worker {
	buildMu.Lock()
	defer buildMu.Unlock()
	return &worker{c: buildChain(n), states: map[int64]*versionState{}, out: map[string]int{}}
}

func run(r *engine.Run) {
	quick := r.Quick()
	n := 12
	if !quick {
		n = 48
	}
	r.Level = "exploration"
	deadline := r.Deadline(8*time.Minute, 35*time.Minute)

	nw := engine.DefaultWorkers()
	workers := make([]*worker, nw)
	t0 := time.Now()
	for i := range workers {
		workers[i] = newWorker(n)
		if fp := workers[i].c.fingerprint(); fp != workers[0].c.fingerprint() {
			engine.Fatal3("HARNESS-NONDETERMINISM: worker %d built a different chain", i)
		}
	}
	c0 := workers[0].c
	fmt.Printf("[C12] %d chains of %d blocks (%d requests) built in %.1fs; stores mounted: %d\n", nw, c0.last, n, time.Since(t0).Seconds(), len(c0.w.StoreNames()))

	tally := engine.NewTally()
	cfg := Cfg{N: n}
	// violations are collected with their position in the enumeration so that the reported
	// counterexample of every fingerprint is the first one in enumeration order (simplest first)
	type found struct {
		pos  int64
		t    Tuple
		fail *failure
	}
	var (
		fmu      sync.Mutex
		founds   []found
		nviol    atomic.Int64
		spaceOff int64
	)
	evalAndRecord := func(wi int, idx int64, t Tuple) {
		if nviol.Load() >= 200 {
			return // enough counterexamples: stop evaluating (the run fails anyway)
		}
		wk := workers[wi]
		er := wk.eval(t)
		tally.Eval()
		for _, l := range er.labels {
			wk.out[l]++
		}
		if er.fail != nil {
			nviol.Add(1)
			fmu.Lock()
			founds = append(founds, found{spaceOff + idx, t, er.fail})
			fmu.Unlock()
		}
		if er.proofKey != "" {
			tally.Nontrivial(er.proofKey)
		}
	}

	// ---- space A: accumulation ----
	accum := accumulationTuples(c0, workers[0].state)
	for i, t := range accum {
		if i%(len(accum)/6+1) == 0 {
			tally.Sample(24, t)
		}
	}
	complete := engine.ParallelFor(int64(len(accum)), nw, deadline, func(wi int, idx int64) { evalAndRecord(wi, idx, accum[idx]) })
	fmt.Printf("[C12] space A (accumulation): %d tuples, complete=%v, evaluations=%d violations=%d (%.1fs)\n", len(accum), complete, tally.Evals, int(nviol.Load()), time.Since(t0).Seconds())
	if !complete {
		r.Exhaustive = false
		r.CapReasons = append(r.CapReasons, "space A: internal deadline")
	}
	spaceOff += int64(len(accum))

	// ---- space A2: MultiProof batches with pending / nonexistent ids ----
	batches, bheights := batchTuples(c0, workers[0].state)
	if len(bheights) < 3 {
		engine.Fatal3("C12: only %d heights have two resolve blocks and a pending request", len(bheights))
	}
	for i, t := range batches {
		if i%(len(batches)/4+1) == 7 {
			tally.Sample(24, t)
		}
	}
	before := tally.Evals
	complete = engine.ParallelFor(int64(len(batches)), nw, deadline, func(wi int, idx int64) { evalAndRecord(wi, idx, batches[idx]) })
	fmt.Printf("[C12] space A2 (MultiProof batches, %d heights %v): %d tuples, complete=%v, evaluated=%d violations=%d (%.1fs)\n", len(bheights), bheights, len(batches), complete, tally.Evals-before, int(nviol.Load()), time.Since(t0).Seconds())
	if !complete {
		r.Exhaustive = false
		r.CapReasons = append(r.CapReasons, "space A2: internal deadline")
	}
	spaceOff += int64(len(batches))

	// ---- space A3: latest-block requests while the next block arrives ----
	lives, lheights := liveTuples(c0, workers[0].state, 8)
	if len(lheights) < 3 {
		engine.Fatal3("C12: only %d heights qualify for the live-node space", len(lheights))
	}
	for i, t := range lives {
		if i%(len(lives)/4+1) == 5 {
			tally.Sample(24, t)
		}
	}
	before = tally.Evals
	complete = engine.ParallelFor(int64(len(lives)), nw, deadline, func(wi int, idx int64) { evalAndRecord(wi, idx, lives[idx]) })
	fmt.Printf("[C12] space A3 (latest block while the chain advances, %d heights %v): %d tuples, complete=%v, evaluated=%d violations=%d (%.1fs)\n", len(lheights), lheights, len(lives), complete, tally.Evals-before, int(nviol.Load()), time.Since(t0).Seconds())
	if !complete {
		r.Exhaustive = false
		r.CapReasons = append(r.CapReasons, "space A3: internal deadline")
	}
	spaceOff += int64(len(lives))

	// ---- space B: vote format ----
	var vspaces []voteSpace
	if quick {
		vspaces = []voteSpace{{name: "B(votes,n<=4)", patterns: patternsUpTo(1, 4), rounds: []int32{0, 1, 2}, ts: tsVariants(true), chainLen: seq(1, 20), orders: 2}}
	} else {
		vspaces = []voteSpace{
			{name: "B(votes,n<=5)", patterns: patternsUpTo(1, 5), rounds: []int32{0, 1, 2, 2147483647}, ts: tsVariants(false), chainLen: seq(1, 20), orders: 2},
			{name: "B'(votes,n=6..7)", patterns: patternsUpTo(6, 7), rounds: []int32{0, 1}, ts: tsVariants(true)[3:6], chainLen: []int{9, 17}, orders: 2},
		}
	}
	for _, vs := range vspaces {
		if int(nviol.Load()) > 0 {
			break
		}
		total := vs.odo().Total()
		for _, i := range []int64{0, total / 3, total - 1} {
			tally.Sample(24, vs.tuple(c0, i))
		}
		before := tally.Evals
		complete := engine.ParallelFor(total, nw, deadline, func(wi int, idx int64) { evalAndRecord(wi, idx, vs.tuple(workers[wi].c, idx)) })
		fmt.Printf("[C12] space %s: %d tuples, complete=%v, evaluated=%d violations=%d (%.1fs)\n", vs.name, total, complete, tally.Evals-before, int(nviol.Load()), time.Since(t0).Seconds())
		if !complete {
			r.Exhaustive = false
			r.CapReasons = append(r.CapReasons, "space "+vs.name+": internal deadline")
		}
		spaceOff += total
	}

	// ---- space C: header ----
	if int(nviol.Load()) == 0 {
		hs := headerSpace{masks: 256, times: []tsVariant{{1, 0}, {1, 1}, {1, 999_999_999}, {1_700_000_000, 0}, {1_700_000_000, 1}, {1_700_000_000, 999_999_999},
			{4_102_444_800, 0}, {4_102_444_800, 1}, {4_102_444_800, 999_999_999}},
			heights: []int64{3, c0.last}, appVers: []uint64{0, 1}, chainLen: []int{1, 20}, totals: []uint32{1, 127}}
		if !quick {
			hs.heights = []int64{3, (3 + c0.last) / 2, c0.last}
			hs.appVers = []uint64{0, 1, 1 << 62}
			hs.chainLen = []int{1, 9, 17, 20}
			hs.totals = []uint32{1, 2, 127}
		}
		total := hs.odo().Total()
		for _, i := range []int64{0, total / 2, total - 1} {
			tally.Sample(24, hs.tuple(c0, i))
		}
		before := tally.Evals
		complete := engine.ParallelFor(total, nw, deadline, func(wi int, idx int64) { evalAndRecord(wi, idx, hs.tuple(workers[wi].c, idx)) })
		fmt.Printf("[C12] space C (header): %d tuples, complete=%v, evaluated=%d violations=%d (%.1fs)\n", total, complete, tally.Evals-before, int(nviol.Load()), time.Since(t0).Seconds())
		if !complete {
			r.Exhaustive = false
			r.CapReasons = append(r.CapReasons, "space C: internal deadline")
		}
	}

	tally.MergeInto(r)
	if !r.Exhaustive && nviol.Load() == 0 {
		// an internal time cap skipped part of a space: the labels only that part produces cannot be required
		r.Required = nil
		r.Notes = append(r.Notes, "vacuity guard disabled: enumeration was cut by the internal deadline")
	}
	if nviol.Load() >= 200 {
		r.Exhaustive = false
		r.CapReasons = append(r.CapReasons, "enumeration stopped after 200 counterexamples")
	}
	sort.Slice(founds, func(i, j int) bool { return founds[i].pos < founds[j].pos })
	for _, fd := range founds {
		b, _ := json.Marshal(fd.t)
		r.Violate(cfg, []string{string(b)}, fd.fail.fp, "%s", fd.fail.detail)
	}
	for _, wk := range workers {
		for k, v := range wk.out {
			r.Outcomes[k] += v
		}
	}
	var names []string
	for k := range r.Outcomes {
		names = append(names, k)
	}
	sort.Strings(names)
	for _, k := range names {
		fmt.Printf("[C12]   %-48s %d\n", k, r.Outcomes[k])
	}
	{
		whole, part := 0, r.Outcomes["batch-with-missing-id:partial-response-verified"]
		for k, v := range r.Outcomes {
			if strings.HasPrefix(k, "batch-with-missing-id:failed-as-a-whole") {
				whole += v
			}
		}
		r.Notes = append(r.Notes, fmt.Sprintf("MultiProof batches containing an id without a stored result (pending or nonexistent): %d failed as a whole, %d returned a partial response whose every reported proof verified end to end "+
			"(the unchanged tree fails the whole batch with 'IAVL existence proof not found'; either behaviour satisfies the check, a successful response with a non-verifying proof does not)", whole, part))
	}
	r.Notes = append(r.Notes, fmt.Sprintf("latest-block requests while the next block arrives during the request (space A3): %d failed as a whole, %d answered for the block that was latest at the first Commit call, %d answered for the block that arrived meanwhile; "+
		"the unchanged tree fetches the commit once and never switches blocks (results stored by the latest block itself fail with 'IAVL existence proof not found'); any answer must verify end to end against the one block it claims",
		r.Outcomes["live:failed-as-a-whole"], r.Outcomes["live:response-for-first-latest-block"], r.Outcomes["live:response-for-next-block"]))
	r.Notes = append(r.Notes, fmt.Sprintf("stores mounted by the app (sorted): %s", strings.Join(c0.w.StoreNames(), ",")))

	// confirm: every distinct fingerprint must reproduce twice on fresh chains
	seen := map[string]bool{}
	for _, v := range r.Violations {
		if seen[v.Fingerprint] || len(seen) >= 4 {
			continue
		}
		seen[v.Fingerprint] = true
		for k := 0; k < 2; k++ {
			fl := replayTuple(n, v.Path)
			if fl == nil || fl.fp != v.Fingerprint {
				engine.Fatal3("HARNESS-NONDETERMINISM: violation %q on %v did not reproduce on replay %d", v.Fingerprint, v.Path, k+1)
			}
		}
	}
}

func replayTuple(n int, path []string) *failure {
	var t Tuple
	if len(path) != 1 || json.Unmarshal([]byte(path[0]), &t) != nil {
		panic("bad replay path")
	}
	wk := newWorker(n)
	defer wk.c.w.Close()
	return wk.eval(t).fail
}

func init() {
	engine.Register(&engine.Check{
		ID: "C12",
		Run: func(r *engine.Run) {
			r.Bound = "real BandApp committing a fixed scenario of signed txs: N=12 (quick) / 48 (thorough) requests resolving 1-2 per block (14 / 41 blocks). " +
				"Space A: every header height 3..last x {count proof, Proof(k) for every k<=N, Proof(k, latest) at the last height, MultiProof of every ordered pair and of the full list of stored results}; round, part-set total, flags and slot order of 3 validators rotate with the height. " +
				"Space A2: at every header height where two results stored by different blocks, a pending request and a never-existing id are all available: MultiProof of every sequence (with repetition) of length 1..3 over {R1,R2,pending,nonexistent}; a batch must fail as a whole or every reported proof must verify end to end. " +
				"Space A3 (live node): for every height L whose block stored a result, requests for the LATEST block (MultiProof of every sequence of length 1..3 over {oldest and newest result of state L-1, a result stored by block L}, Proof(latest) of each) while the node's latest block advances from L to L+1 right after the k-th RPC call of the request, k=1..8; " +
				"a call must fail as a whole or every reported proof must verify end to end against the ONE block the response claims. " +
				"Space B (last block, result N): every assignment of {precommit, nil-precommit, absent} to 1..4 (thorough 1..5) validator slots with >=1 precommit x round {0,1,2}(thorough +2^31-1) x " +
				"vote timestamps sec {0,1,1.7e9}(thorough +year 9999) x nanos {0,1,999999999} (consecutive variants per slot) x chain-id length 1..20 x slot order {keys ascending, reversed}; " +
				"thorough also B': 6..7 slots x round {0,1} x 3 timestamps x chain-id length {9,17} x 2 slot orders. " +
				"Space C: 2^8 empty/non-empty masks of the optional header fields x header time sec {1,1.7e9,4102444800} x nanos {0,1,999999999} x heights {3,last}(thorough +middle) x app version {0,1}(thorough +2^62) x " +
				"chain-id length {1,20}(thorough +9,17) x {count, result 1} x part-set total {1,127}(thorough +2)."
			r.Rule = "one evaluation = one call of the unmodified proof service (Proof / MultiProof / RequestCountProof) against the committed app and one signed header, followed by the reference bridge verifier on the returned EvmProofBytes; " +
				"tuples are enumerated by odometer over the stated alphabets (space A: explicit list). A tuple is non-trivial when the requested results are stored at the proved version and every precommit fits the single-byte vote length prefix, " +
				"i.e. a verifying proof is required; distinct_nontrivial counts distinct EvmProofBytes (SHA-256) that were produced and verified"
			r.Assumptions = []string{
				"the node is replaced by a fake CometBFT RPC client: ABCIQueryWithOptions = the app's real Query with proofs, Commit = a SignedHeader built with CometBFT types (Header.Hash, canonical vote sign-bytes); header fields other than AppHash are synthetic 32-byte values or empty",
				"validators use secp256k1 consensus keys (the chain's only allowed key type)",
				"votes of 128 bytes or more (chain id too long for the single-byte length prefix) are outside the statement: observed, not asserted",
				"requests for results not stored at the proved version are observed, not asserted",
				"header time seconds >= 1 (the Unix-epoch second itself is not in the header alphabet)",
				"the reference verifier is a Go port of the bridge algorithm written from the statement and the layout documented in proof.proto; the bridge's own bounds on timestamp size (6..12 bytes) and voting-power accounting are not part of the statement and not checked",
			}
			r.Required = []string{"proof:verified", "count:verified", "multi:verified", "vote-prefix:15B", "vote-prefix:24B",
				"iavl-step:data-on-right", "iavl-step:data-on-left", "result-status:1", "result-status:2",
				"signatures:1", "signatures:3", "signatures:4", "vote-timestamp:0B", "vote-timestamp:12B",
				"out-of-scope(vote>=128B):no-match-address-found", "result-not-stored:IAVL-existence-proof-not-found",
				"live:response-for-first-latest-block", "live:failed-as-a-whole", "live:next-block-after-call-1", "batch-shape:all-missing", "batch-shape:first-missing-later-stored", "batch-shape:first-stored-later-missing"}
			run(r)
		},
		Replay: func(raw json.RawMessage, path []string) (engine.StepResult, []string) {
			var c Cfg
			if err := json.Unmarshal(raw, &c); err != nil {
				panic(err)
			}
			var st engine.StepResult
			fl := replayTuple(c.N, path)
			out := "verified-or-not-asserted"
			if fl != nil {
				st.Violate(fl.fp, "%s", fl.detail)
				out = fl.fp
			}
			return st, []string{out}
		},
	})
}
