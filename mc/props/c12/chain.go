package c12

import (
	"bytes"
	"fmt"
	"math/rand"
	"strings"
	"time"

	"github.com/bytecodealliance/wasmtime-go/v20"

	abci "github.com/cometbft/cometbft/abci/types"
	cmttypes "github.com/cometbft/cometbft/types"

	"github.com/cosmos/cosmos-sdk/client"
	cryptotypes "github.com/cosmos/cosmos-sdk/crypto/types"
	sdk "github.com/cosmos/cosmos-sdk/types"
	moduletestutil "github.com/cosmos/cosmos-sdk/types/module/testutil"

	"github.com/bandprotocol/chain/v3/pkg/obi"
	bandtesting "github.com/bandprotocol/chain/v3/testing"
	"github.com/bandprotocol/chain/v3/testing/testdata"
	oracletypes "github.com/bandprotocol/chain/v3/x/oracle/types"
	"github.com/bandprotocol/chain/v3/zzverif/engine"
)

// The chain: a real BandApp that finalizes and commits blocks made of signed transactions.
//
//	block 1            genesis (engine.NewWorld)
//	block 2            MsgActivate x3, MsgCreateDataSource (zero fee, id 6), MsgCreateOracleScript (never returns, id 10)
//	block 3 ...        every block creates 1 or 2 oracle requests and reports the requests created in the
//	                   previous block, so results 1..N accumulate one or two per block
//	2 trailing blocks  empty
//
// Every block is delivered through FinalizeBlock + Commit, so every height is a committed IAVL version
// that can be queried with proofs.

// watNoReturn asks data source 6 once and never sets return data: resolves with status FAILURE and an
// empty result.
const watNoReturn = `
(module
	(type $t0 (func))
	(type $t1 (func (param i64 i64 i64 i64)))
	(import "env" "ask_external_data" (func $ask_external_data (type $t1)))
	(func $prepare (export "prepare") (type $t0)
	  i64.const 1
	  i64.const 6
	  i64.const 1024
	  i64.const 4
	  call $ask_external_data)
	(func $execute (export "execute") (type $t0))
	(memory $memory (export "memory") 17)
	(data (i32.const 1024) "test"))`

const (
	freeDataSourceID = 6
	noReturnScriptID = 10
	concatScriptID   = 4
)

// blockInfo is what the driver knows about one committed block (no proof code involved).
type blockInfo struct {
	Height  int64
	Time    time.Time
	Txs     [][]byte
	AppHash []byte // app hash after committing this block (goes into the header of Height+1)
	Results []*abci.ExecTxResult
}

type chain struct {
	w      *engine.World
	txCfg  client.TxConfig
	rnd    *rand.Rand
	accNum map[string]uint64
	accSeq map[string]uint64
	blocks map[int64]*blockInfo
	last   int64
	n      int // number of requests (= results at the end)
	// resolvedAt[i] = height of the block whose EndBlock stored result i (driver's schedule)
	resolvedAt map[uint64]int64
}

type signer struct {
	addr sdk.AccAddress
	priv cryptotypes.PrivKey
}

func accSigner(a bandtesting.Account) signer { return signer{a.Address, a.PrivKey} }

func (c *chain) tx(s signer, msgs ...sdk.Msg) []byte {
	key := s.addr.String()
	if _, ok := c.accNum[key]; !ok {
		ctx, err := c.w.App.CreateQueryContext(0, false)
		if err != nil {
			panic(err)
		}
		acc := c.w.App.AccountKeeper.GetAccount(ctx, s.addr)
		if acc == nil {
			panic("no account " + key)
		}
		c.accNum[key] = acc.GetAccountNumber()
		c.accSeq[key] = acc.GetSequence()
	}
	tx, err := bandtesting.GenSignedMockTx(c.rnd, c.txCfg, msgs, sdk.Coins{sdk.NewInt64Coin("uband", 0)}, 5_000_000,
		engine.ChainID, []uint64{c.accNum[key]}, []uint64{c.accSeq[key]}, s.priv)
	if err != nil {
		panic(err)
	}
	c.accSeq[key]++
	bz, err := c.txCfg.TxEncoder()(tx)
	if err != nil {
		panic(err)
	}
	return bz
}

// deliver finalizes and commits one block; every tx must succeed (the scenario is fixed, a failing tx is
// a harness error, not a property violation).
func (c *chain) deliver(txs [][]byte) *blockInfo {
	h := c.last + 1
	t := engine.GenesisTime.Add(time.Duration(h-1) * 3 * time.Second).Add(time.Duration(h%4) * 250 * time.Millisecond)
	res, err := c.w.App.FinalizeBlock(&abci.RequestFinalizeBlock{Height: h, Time: t, Txs: txs})
	if err != nil {
		engine.Fatal3("C12 chain: FinalizeBlock %d: %v", h, err)
	}
	for i, r := range res.TxResults {
		if r.Code != 0 {
			engine.Fatal3("C12 chain: tx %d of block %d failed: %s/%d %s", i, h, r.Codespace, r.Code, r.Log)
		}
	}
	if _, err := c.w.App.Commit(); err != nil {
		engine.Fatal3("C12 chain: Commit %d: %v", h, err)
	}
	bi := &blockInfo{Height: h, Time: t, Txs: txs, AppHash: append([]byte(nil), res.AppHash...), Results: res.TxResults}
	c.blocks[h] = bi
	c.last = h
	return bi
}

type reqTemplate struct {
	script   uint64
	calldata []byte
	ask, min uint64
	clientID string
	allAsked bool // all asked validators report (else exactly min)
}

func template(i int) reqTemplate {
	am := [][2]uint64{{1, 1}, {2, 1}, {2, 2}, {3, 2}, {3, 3}, {3, 1}}[i%6]
	t := reqTemplate{ask: am[0], min: am[1], allAsked: i%2 == 1}
	switch i % 8 {
	case 0, 4:
		t.clientID = ""
	case 1, 5:
		t.clientID = "c"
	case 3:
		t.clientID = strings.Repeat("k", 127)
	default:
		t.clientID = fmt.Sprintf("client-%d", i)
	}
	if i%5 == 0 {
		t.script = noReturnScriptID
		if i%10 == 0 {
			t.calldata = []byte{} // empty calldata, empty result, FAILURE: the smallest stored Result
		} else {
			t.calldata = []byte("nr")
		}
	} else {
		t.script = concatScriptID
		t.calldata = obi.MustEncode(testdata.Wasm4Input{IDs: []int64{freeDataSourceID}, Calldata: strings.Repeat("x", (i%3)*20)})
	}
	return t
}

func valByAddr(addr string) bandtesting.Account {
	for _, v := range bandtesting.Validators {
		if v.ValAddress.String() == addr {
			return v
		}
	}
	panic("unknown validator " + addr)
}

// buildChain builds the fixed scenario with n requests on a fresh world.
func buildChain(n int) *chain {
	engine.DetRandReset()
	w := engine.NewWorld()
	c := &chain{w: w, txCfg: moduletestutil.MakeTestTxConfig(), rnd: rand.New(rand.NewSource(12)),
		accNum: map[string]uint64{}, accSeq: map[string]uint64{}, blocks: map[int64]*blockInfo{}, last: 1, n: n,
		resolvedAt: map[uint64]int64{}}
	// block 1 was committed by NewWorld; its app hash is the last commit id
	c.blocks[1] = &blockInfo{Height: 1, Time: engine.GenesisTime, AppHash: append([]byte(nil), w.App.LastCommitID().Hash...)}

	// ---- block 2: activation, free data source, never-returning script ----
	code, err := wasmtime.Wat2Wasm(watNoReturn)
	if err != nil {
		panic(err)
	}
	owner := accSigner(bandtesting.Owner)
	var txs [][]byte
	for _, v := range bandtesting.Validators {
		txs = append(txs, c.tx(accSigner(v), oracletypes.NewMsgActivate(v.ValAddress)))
	}
	txs = append(txs, c.tx(owner, oracletypes.NewMsgCreateDataSource("free", "zero fee", []byte("executable"), sdk.NewCoins(),
		bandtesting.Treasury.Address, bandtesting.Owner.Address, bandtesting.Owner.Address)))
	txs = append(txs, c.tx(owner, oracletypes.NewMsgCreateOracleScript("noreturn", "d", "s", "u", code, bandtesting.Owner.Address, bandtesting.Owner.Address)))
	c.deliver(txs)
	{
		ctx, _ := w.App.CreateQueryContext(0, false)
		if got := w.App.OracleKeeper.GetDataSourceCount(ctx); got != freeDataSourceID {
			engine.Fatal3("C12 chain: expected free data source id %d, got %d", freeDataSourceID, got)
		}
		if got := w.App.OracleKeeper.GetOracleScriptCount(ctx); got != noReturnScriptID {
			engine.Fatal3("C12 chain: expected script id %d, got %d", noReturnScriptID, got)
		}
	}

	// ---- request / report blocks ----
	payer := accSigner(bandtesting.FeePayer)
	created := 0
	var pending []int // request ids created in the previous block
	for created < n || len(pending) > 0 {
		h := c.last + 1
		var txs [][]byte
		// reports for the requests of the previous block
		if len(pending) > 0 {
			ctx, _ := w.App.CreateQueryContext(0, false)
			for _, id := range pending {
				req, err := w.App.OracleKeeper.GetRequest(ctx, oracletypes.RequestID(id))
				if err != nil {
					engine.Fatal3("C12 chain: request %d missing: %v", id, err)
				}
				t := template(id)
				reporters := req.RequestedValidators
				if !t.allAsked {
					reporters = reporters[:t.min]
				}
				for vi, va := range reporters {
					var raws []oracletypes.RawReport
					for _, rr := range req.RawRequests {
						raws = append(raws, oracletypes.NewRawReport(rr.ExternalID, 0,
							[]byte(fmt.Sprintf("r%d-v%d%s;", id, vi, strings.Repeat("z", id%4)))))
					}
					v := valByAddr(va)
					txs = append(txs, c.tx(accSigner(v), oracletypes.NewMsgReportData(oracletypes.RequestID(id), raws, v.ValAddress)))
				}
				c.resolvedAt[uint64(id)] = h
			}
			pending = nil
		}
		k := 1
		if h%3 == 0 {
			k = 2
		}
		for j := 0; j < k && created < n; j++ {
			created++
			t := template(created)
			txs = append(txs, c.tx(payer, oracletypes.NewMsgRequestData(oracletypes.OracleScriptID(t.script), t.calldata, t.ask, t.min,
				t.clientID, bandtesting.Coins100000000uband, bandtesting.TestDefaultPrepareGas, bandtesting.TestDefaultExecuteGas,
				bandtesting.FeePayer.Address, oracletypes.ENCODER_UNSPECIFIED)))
			pending = append(pending, created)
		}
		c.deliver(txs)
	}
	c.deliver(nil)
	c.deliver(nil)

	// sanity of the scenario itself (harness errors, not property violations)
	ctx, _ := w.App.CreateQueryContext(0, false)
	if got := w.App.OracleKeeper.GetRequestCount(ctx); got != uint64(n) {
		engine.Fatal3("C12 chain: request count %d, expected %d", got, n)
	}
	for id := 1; id <= n; id++ {
		if _, err := w.App.OracleKeeper.GetResult(ctx, oracletypes.RequestID(id)); err != nil {
			engine.Fatal3("C12 chain: result %d not stored: %v", id, err)
		}
	}
	return c
}

// stateAt reads, through the keeper at a committed version, which results are stored and the request
// count: this is the quantifier domain ("any stored oracle result or the request count").
func (c *chain) stateAt(version int64) (count uint64, results map[uint64]oracletypes.Result) {
	ctx, err := c.w.App.CreateQueryContext(version, false)
	if err != nil {
		engine.Fatal3("C12: query context at %d: %v", version, err)
	}
	count = c.w.App.OracleKeeper.GetRequestCount(ctx)
	results = map[uint64]oracletypes.Result{}
	for id := uint64(1); id <= uint64(c.n); id++ {
		if r, err := c.w.App.OracleKeeper.GetResult(ctx, oracletypes.RequestID(id)); err == nil {
			results[id] = r
		}
	}
	return
}

// fingerprint of the whole chain (all app hashes), used to check that every worker built the same chain.
func (c *chain) fingerprint() string {
	var b bytes.Buffer
	for h := int64(1); h <= c.last; h++ {
		fmt.Fprintf(&b, "%d:%x|", h, c.blocks[h].AppHash)
	}
	return b.String()
}

func dataHash(txs [][]byte) []byte {
	if len(txs) == 0 {
		return nil
	}
	l := make(cmttypes.Txs, len(txs))
	for i, t := range txs {
		l[i] = t
	}
	return l.Hash()
}
