package c12

import (
	"context"
	"crypto/sha256"
	"fmt"
	"strings"
	"time"

	abci "github.com/cometbft/cometbft/abci/types"
	"github.com/cometbft/cometbft/crypto/secp256k1"
	cmtbytes "github.com/cometbft/cometbft/libs/bytes"
	cmtversion "github.com/cometbft/cometbft/proto/tendermint/version"
	rpcclient "github.com/cometbft/cometbft/rpc/client"
	coretypes "github.com/cometbft/cometbft/rpc/core/types"
	cmttypes "github.com/cometbft/cometbft/types"

	"github.com/cosmos/cosmos-sdk/client"
)

// Flags of one validator slot in the commit (CometBFT's BlockIDFlag values).
const (
	flagAbsent = 1
	flagCommit = 2
	flagNil    = 3
)

// ValSpec is one slot of the commit.
type ValSpec struct {
	Key  int   `json:"key"`  // index into valKeys
	Flag int   `json:"flag"` // 1 absent, 2 precommit for the block, 3 precommit for nil
	Sec  int64 `json:"sec"`  // vote timestamp
	Nano int32 `json:"nano"`
}

// Scenario is one signed header served by the fake node.  Everything except AppHash (the app's real
// committed hash) comes from the alphabet.
type Scenario struct {
	Height  int64     `json:"height"` // header height H; app hash and proofs are those of version H-1
	ChainID string    `json:"chain_id"`
	Sec     int64     `json:"sec"` // header time
	Nano    int32     `json:"nano"`
	AppVer  uint64    `json:"app_version"`
	Empty   uint      `json:"empty_mask"` // bit i set: optional header field i is empty (see headerFields)
	Round   int32     `json:"round"`
	Total   uint32    `json:"part_total"`
	Vals    []ValSpec `json:"vals"`
}

var headerFields = []string{"last_block_id", "last_commit_hash", "data_hash", "next_validators_hash", "consensus_hash",
	"last_results_hash", "evidence_hash", "proposer_address"}

var valKeys []secp256k1.PrivKey

func init() {
	for i := 0; i < 8; i++ {
		valKeys = append(valKeys, secp256k1.GenPrivKeySecp256k1([]byte(fmt.Sprintf("c12-validator-%d", i))))
	}
}

func h32(label string, h int64) []byte {
	s := sha256.Sum256([]byte(fmt.Sprintf("c12|%s|%d", label, h)))
	return s[:]
}

// signedHeader builds the header and commit with CometBFT's own types: the block hash is
// Header.Hash(), every precommit is signed over CometBFT's canonical vote sign-bytes.
// inScope is false when a precommit for the block does not fit the single-byte length prefix
// (vote of 128 bytes or more), which the statement excludes.
func signedHeader(s Scenario, appHash []byte) (sh *cmttypes.SignedHeader, tr truth, inScope bool) {
	H := s.Height
	hdr := &cmttypes.Header{
		Version:            cmtversion.Consensus{Block: 11, App: s.AppVer},
		ChainID:            s.ChainID,
		Height:             H,
		Time:               time.Unix(s.Sec, int64(s.Nano)).UTC(),
		LastBlockID:        cmttypes.BlockID{Hash: h32("last-block", H), PartSetHeader: cmttypes.PartSetHeader{Total: 1, Hash: h32("last-parts", H)}},
		LastCommitHash:     h32("last-commit", H),
		DataHash:           h32("data", H),
		ValidatorsHash:     h32("validators", H),
		NextValidatorsHash: h32("next-validators", H),
		ConsensusHash:      h32("consensus", H),
		AppHash:            appHash,
		LastResultsHash:    h32("last-results", H),
		EvidenceHash:       h32("evidence", H),
		ProposerAddress:    h32("proposer", H)[:20],
	}
	for i := range headerFields {
		if s.Empty&(1<<uint(i)) == 0 {
			continue
		}
		switch i {
		case 0:
			hdr.LastBlockID = cmttypes.BlockID{}
		case 1:
			hdr.LastCommitHash = nil
		case 2:
			hdr.DataHash = nil
		case 3:
			hdr.NextValidatorsHash = nil
		case 4:
			hdr.ConsensusHash = nil
		case 5:
			hdr.LastResultsHash = nil
		case 6:
			hdr.EvidenceHash = nil
		case 7:
			hdr.ProposerAddress = nil
		}
	}
	blockHash := hdr.Hash()
	if len(blockHash) != 32 {
		panic("header hash")
	}
	commit := &cmttypes.Commit{
		Height:  H,
		Round:   s.Round,
		BlockID: cmttypes.BlockID{Hash: blockHash, PartSetHeader: cmttypes.PartSetHeader{Total: s.Total, Hash: h32("parts", H)}},
	}
	for _, v := range s.Vals {
		if v.Flag == flagAbsent {
			commit.Signatures = append(commit.Signatures, cmttypes.NewCommitSigAbsent())
			continue
		}
		commit.Signatures = append(commit.Signatures, cmttypes.CommitSig{
			BlockIDFlag:      cmttypes.BlockIDFlag(v.Flag),
			ValidatorAddress: valKeys[v.Key].PubKey().Address(),
			Timestamp:        time.Unix(v.Sec, int64(v.Nano)).UTC(),
		})
	}
	inScope = true
	tr = truth{Height: H, ChainID: s.ChainID, AppHash: appHash, BlockHash: blockHash}
	for i, v := range s.Vals {
		if v.Flag == flagAbsent {
			continue
		}
		sb := commit.VoteSignBytes(s.ChainID, int32(i))
		sig, err := valKeys[v.Key].Sign(sb)
		if err != nil {
			panic(err)
		}
		commit.Signatures[i].Signature = sig
		if !valKeys[v.Key].PubKey().VerifySignature(sb, sig) {
			panic("self-check: CometBFT does not verify the precommit just signed")
		}
		if v.Flag == flagCommit {
			if sb[0] >= 0x80 { // length prefix needs two bytes: vote >= 128 bytes
				inScope = false
			}
			tr.Committers = append(tr.Committers, ethAddressOfCompressed(valKeys[v.Key].PubKey().Bytes()))
		}
	}
	return &cmttypes.SignedHeader{Header: hdr, Commit: commit}, tr, inScope
}

// fakeNode is the CometBFT RPC client handed to the unmodified proof service: Commit returns the
// scenario's signed header, ABCIQueryWithOptions is the application's real Query (with proofs).
type fakeNode struct {
	client.CometRPC // nil: any other method is not used by the proof service (would panic)
	c               *chain
	sh              *cmttypes.SignedHeader
	queries         int

	// live mode: the node's latest block is `latest`; after the advanceAfter-th RPC call of the request
	// (Commit and ABCI queries both count) the next block arrives and latest becomes latest+1.
	live         bool
	latest       int64
	advanceAfter int
	calls        int
	headerAt     func(h int64) *cmttypes.SignedHeader
}

func (n *fakeNode) tick() {
	n.calls++
	if n.live && n.calls == n.advanceAfter {
		n.latest++
	}
}

func (n *fakeNode) Commit(_ context.Context, height *int64) (*coretypes.ResultCommit, error) {
	if n.live {
		defer n.tick()
		h := n.latest
		if height != nil {
			h = *height
		}
		if h > n.latest || h < 3 {
			return nil, fmt.Errorf("fake node: height %d is not available (latest %d)", h, n.latest)
		}
		return &coretypes.ResultCommit{SignedHeader: *n.headerAt(h), CanonicalCommit: true}, nil
	}
	if height != nil && *height != n.sh.Height {
		return nil, fmt.Errorf("fake node: height %d is not available (serving %d)", *height, n.sh.Height)
	}
	return &coretypes.ResultCommit{SignedHeader: *n.sh, CanonicalCommit: true}, nil
}

func (n *fakeNode) ABCIQueryWithOptions(ctx context.Context, path string, data cmtbytes.HexBytes, opts rpcclient.ABCIQueryOptions) (*coretypes.ResultABCIQuery, error) {
	n.queries++
	if n.live {
		defer n.tick()
		if opts.Height > n.latest {
			return nil, fmt.Errorf("fake node: state %d is not available (latest %d)", opts.Height, n.latest)
		}
	}
	resp, err := n.c.w.App.Query(ctx, &abci.RequestQuery{Path: path, Data: data, Height: opts.Height, Prove: opts.Prove})
	if err != nil {
		return nil, err
	}
	return &coretypes.ResultABCIQuery{Response: *resp}, nil
}

func (n *fakeNode) ABCIQuery(ctx context.Context, path string, data cmtbytes.HexBytes) (*coretypes.ResultABCIQuery, error) {
	return n.ABCIQueryWithOptions(ctx, path, data, rpcclient.DefaultABCIQueryOptions)
}

func chainIDOfLen(n int) string {
	const base = "bandchain-laozi-testnet-0123456789"
	if n <= len(base) {
		return base[:n]
	}
	return base + strings.Repeat("x", n-len(base))
}
