// Package c13 checks property C13: service fees are exact, within the caller's limit and atomic with
// the service.  Part (a), oracle side: bounded-exhaustive enumeration of data-source fee vectors x ask
// counts x fee limits x payer balances through the real MsgRequestData handler against an exact ledger.
// Part (b), signing side: the shared signing life-cycle search (props/tsssig) with the escrow monitors.
package c13

import (
	"encoding/json"
	"fmt"
	"sort"
	"strings"
	"sync"
	"time"

	sdkmath "cosmossdk.io/math"

	sdk "github.com/cosmos/cosmos-sdk/types"
	banktypes "github.com/cosmos/cosmos-sdk/x/bank/types"

	"github.com/bandprotocol/chain/v3/pkg/obi"
	bandtesting "github.com/bandprotocol/chain/v3/testing"
	"github.com/bandprotocol/chain/v3/testing/testdata"
	oracletypes "github.com/bandprotocol/chain/v3/x/oracle/types"
	"github.com/bandprotocol/chain/v3/zzverif/engine"
	"github.com/bandprotocol/chain/v3/zzverif/props/tsssig"
	"github.com/bandprotocol/chain/v3/zzverif/tssh"
)

// fee menus (per data source)
var feeMenu = []sdk.Coins{
	nil,
	sdk.NewCoins(sdk.NewInt64Coin("uband", 1)),
	sdk.NewCoins(sdk.NewInt64Coin("uband", 2), sdk.NewInt64Coin("tok", 3)),
	sdk.NewCoins(sdk.NewInt64Coin("tok", 5)),
}

type base struct {
	w        *engine.World
	ctx      sdk.Context
	dsIDs    []int64 // data source id per fee menu entry
	treasury []sdk.AccAddress
	payer    sdk.AccAddress
}

func buildBase() *base {
	w := engine.NewWorld()
	ctx := engine.Fork(w.Root)
	for _, v := range bandtesting.Validators {
		tssh.Must(w.Tx(ctx, 0, oracletypes.NewMsgActivate(v.ValAddress)), "activate")
	}
	b := &base{w: w, ctx: ctx}
	tres := tssh.Accounts(len(feeMenu), 77)
	// "tok" supply: mint to the fee payer through the mint module account (real bank keeper calls)
	tok := sdk.NewCoins(sdk.NewInt64Coin("tok", 1_000_000))
	if err := w.App.BankKeeper.MintCoins(ctx, "mint", tok); err != nil {
		panic(err)
	}
	if err := w.App.BankKeeper.SendCoinsFromModuleToAccount(ctx, "mint", bandtesting.FeePayer.Address, tok); err != nil {
		panic(err)
	}
	for i, fee := range feeMenu {
		msg := oracletypes.NewMsgCreateDataSource(fmt.Sprintf("ds%d", i), "d", []byte("exec"), fee, tres[i].Address, bandtesting.Owner.Address, bandtesting.Owner.Address)
		tssh.Must(w.Tx(ctx, 0, msg), "create ds")
		b.dsIDs = append(b.dsIDs, int64(w.App.OracleKeeper.GetDataSourceCount(ctx)))
		b.treasury = append(b.treasury, tres[i].Address)
	}
	b.payer = tssh.Accounts(1, 78)[0].Address
	return b
}

type tuple struct {
	Sources []int // indices into feeMenu, one per raw request (repeats allowed)
	Ask     uint64
	Limit   string // exact | minus1:<denom> | plus1 | missing:<denom> | empty
	Balance string // ample | exact | short:<k>  (one unit short in the denom of the k-th charging source)
	// Discarded: before the request, a transaction [edit every requested data source to another fee and treasury, request
	// data from them] is executed by the real handlers on a branch of the state that is thrown away (what the chain does
	// with a gas simulation and with a transaction whose later message fails)
	Discarded bool `json:",omitempty"`
}

func cost(t tuple) sdk.Coins {
	c := sdk.NewCoins()
	for _, s := range t.Sources {
		for _, f := range feeMenu[s] {
			c = c.Add(sdk.NewCoin(f.Denom, f.Amount.Mul(sdkmath.NewIntFromUint64(t.Ask))))
		}
	}
	return c
}

func sourceLists() [][]int {
	var out [][]int
	n := len(feeMenu)
	for a := 0; a < n; a++ {
		out = append(out, []int{a})
	}
	for a := 0; a < n; a++ {
		for b := 0; b < n; b++ {
			out = append(out, []int{a, b})
		}
	}
	for a := 0; a < n; a++ {
		for b := 0; b < n; b++ {
			for c := 0; c < n; c++ {
				out = append(out, []int{a, b, c})
			}
		}
	}
	return out
}

func runOracle(r *engine.Run, deadline time.Time) {
	srcs := sourceLists()
	if r.Quick() {
		srcs = srcs[:4+16+24] // all singles and pairs, 24 triples
	}
	var tuples []tuple
	for _, sl := range srcs {
		for ask := uint64(1); ask <= 3; ask++ {
			c := cost(tuple{Sources: sl, Ask: ask})
			limits := []string{"exact", "plus1", "empty"}
			for _, coin := range c {
				limits = append(limits, "minus1:"+coin.Denom, "missing:"+coin.Denom)
			}
			for _, lim := range limits {
				bals := []string{"ample", "exact"}
				charging := 0
				for _, s := range sl {
					if !feeMenu[s].Empty() {
						bals = append(bals, fmt.Sprintf("short:%d", charging))
						charging++
					}
				}
				for _, bl := range bals {
					tuples = append(tuples, tuple{Sources: sl, Ask: ask, Limit: lim, Balance: bl})
					if (lim == "exact" || lim == "plus1") && bl != "ample" && (!r.Quick() || ask == 2) {
						tuples = append(tuples, tuple{Sources: sl, Ask: ask, Limit: lim, Balance: bl, Discarded: true})
					}
				}
			}
		}
	}
	tally := engine.NewTally()
	nw := engine.DefaultWorkers()
	bases := make([]*base, nw)
	var bmu sync.Mutex
	complete := engine.ParallelFor(int64(len(tuples)), nw, deadline, func(wi int, idx int64) {
		bmu.Lock()
		if bases[wi] == nil {
			engine.DetRandReset()
			bases[wi] = buildBase()
		}
		b := bases[wi]
		bmu.Unlock()
		checkOracleTuple(b, tuples[idx], tally)
	})
	for _, b := range bases {
		if b != nil {
			b.w.Close()
		}
	}
	if !complete {
		r.Exhaustive = false
		r.CapReasons = append(r.CapReasons, "oracle fee enumeration: time cap")
	}
	// confirm on fresh applications (the workers evaluate many tuples on branches of one application): a record that does
	// not reproduce is dropped when another one does, and is a harness error otherwise
	var kept []engine.FoundViolation
	seen := map[string]bool{}
	var bad string
	for _, fv := range tally.Found() {
		if seen[fv.Fingerprint] || len(seen) >= 8 {
			continue
		}
		seen[fv.Fingerprint] = true
		t := fv.Config.(map[string]any)["tuple"].(tuple)
		ok := true
		for k := 0; k < 2 && ok; k++ {
			ok = false
			for _, x := range replayOracleTuple(t) {
				ok = ok || x.Fingerprint == fv.Fingerprint
			}
		}
		if ok {
			kept = append(kept, fv)
		} else if bad == "" {
			bad = fmt.Sprintf("oracle-fee violation %q on tuple %+v did not reproduce on a fresh application", fv.Fingerprint, t)
		}
	}
	if bad != "" && len(kept) == 0 {
		engine.Fatal3("HARNESS-NONDETERMINISM: %s", bad)
	}
	tally.MergeInto(r)
	if bad != "" {
		var vs []engine.FoundViolation
		for _, v := range r.Violations {
			for _, k := range kept {
				if v.Fingerprint == k.Fingerprint {
					vs = append(vs, v)
					break
				}
			}
		}
		r.Violations = vs
		r.Notes = append(r.Notes, "not reported (unreproducible, consequence of state kept outside the stores): "+bad)
	}
	fmt.Printf("[C13] oracle fee tuples=%d evaluated=%d\n", len(tuples), tally.Evals)
}

func replayOracleTuple(t tuple) []engine.Violation {
	engine.DetRandReset()
	b := buildBase()
	defer b.w.Close()
	tl := engine.NewTally()
	checkOracleTuple(b, t, tl)
	var out []engine.Violation
	for _, fv := range tl.Found() {
		out = append(out, fv.Violation)
	}
	return out
}

func checkOracleTuple(b *base, t tuple, tally *engine.Tally) {
	w := b.w
	ctx := engine.Fork(b.ctx)
	c := cost(t)
	// fee limit
	limit := sdk.NewCoins()
	switch {
	case t.Limit == "exact":
		limit = c
	case t.Limit == "plus1":
		for _, x := range c {
			limit = limit.Add(sdk.NewCoin(x.Denom, x.Amount.AddRaw(1)))
		}
	case t.Limit == "empty":
	case strings.HasPrefix(t.Limit, "minus1:"):
		d := strings.TrimPrefix(t.Limit, "minus1:")
		for _, x := range c {
			if x.Denom == d {
				if x.Amount.GT(sdkmath.OneInt()) {
					limit = limit.Add(sdk.NewCoin(x.Denom, x.Amount.SubRaw(1)))
				}
			} else {
				limit = limit.Add(x)
			}
		}
	case strings.HasPrefix(t.Limit, "missing:"):
		d := strings.TrimPrefix(t.Limit, "missing:")
		for _, x := range c {
			if x.Denom != d {
				limit = limit.Add(x)
			}
		}
	}
	// payer balance
	balance := sdk.NewCoins()
	switch {
	case t.Balance == "ample":
		balance = sdk.NewCoins(sdk.NewInt64Coin("uband", 1000), sdk.NewInt64Coin("tok", 1000))
	case t.Balance == "exact":
		balance = c
	case strings.HasPrefix(t.Balance, "short:"):
		var k int
		fmt.Sscanf(t.Balance, "short:%d", &k)
		// one unit short in the first denom of the k-th charging source: earlier sources can be paid
		balance = c
		charging := 0
		for _, s := range t.Sources {
			if feeMenu[s].Empty() {
				continue
			}
			if charging == k {
				d := feeMenu[s][0].Denom
				balance = balance.Sub(sdk.NewInt64Coin(d, 1))
				break
			}
			charging++
		}
	}
	if !balance.Empty() {
		tssh.Must(w.Tx(ctx, 0, banktypes.NewMsgSend(bandtesting.FeePayer.Address, b.payer, balance)), "fund payer")
	}
	ids := make([]int64, len(t.Sources))
	for i, s := range t.Sources {
		ids[i] = b.dsIDs[s]
	}
	calldata := obi.MustEncode(testdata.Wasm4Input{IDs: ids, Calldata: "x"})
	if t.Discarded {
		g := engine.Fork(ctx)
		var msgs []sdk.Msg
		for _, s := range t.Sources {
			other := sdk.NewCoins(sdk.NewInt64Coin("uband", 4))
			for _, f := range feeMenu[s] {
				other = other.Add(sdk.NewCoin(f.Denom, f.Amount.MulRaw(2)))
			}
			msgs = append(msgs, oracletypes.NewMsgEditDataSource(oracletypes.DataSourceID(b.dsIDs[s]), oracletypes.DoNotModify, oracletypes.DoNotModify,
				oracletypes.DoNotModifyBytes, other, b.payer, bandtesting.Owner.Address, bandtesting.Owner.Address))
		}
		ample := sdk.NewCoins(sdk.NewInt64Coin("uband", 500), sdk.NewInt64Coin("tok", 500))
		msgs = append(msgs, oracletypes.NewMsgRequestData(4, calldata, t.Ask, 1, "c13-discarded", ample, bandtesting.TestDefaultPrepareGas, bandtesting.TestDefaultExecuteGas,
			bandtesting.FeePayer.Address, oracletypes.ENCODER_UNSPECIFIED))
		if res := w.Tx(g, 0, msgs...); res.OK() {
			tally.Saw("oracle:discarded-edit-and-request-executed")
		} else {
			tally.Saw("oracle:discarded-edit-and-request-rejected:" + res.ErrName())
		}
	}
	msg := oracletypes.NewMsgRequestData(4, calldata, t.Ask, 1, "c13", limit, bandtesting.TestDefaultPrepareGas, bandtesting.TestDefaultExecuteGas, b.payer, oracletypes.ENCODER_UNSPECIFIED)
	snapshot := func() map[string]string {
		m := map[string]string{"payer": w.App.BankKeeper.GetAllBalances(ctx, b.payer).String()}
		for i, tr := range b.treasury {
			m[fmt.Sprintf("treasury%d", i)] = w.App.BankKeeper.GetAllBalances(ctx, tr).String()
		}
		return m
	}
	before := snapshot()
	cntBefore := w.App.OracleKeeper.GetRequestCount(ctx)
	res := w.Tx(ctx, 0, msg)
	after := snapshot()
	tally.Eval()
	key := fmt.Sprintf("%v|%d|%s|%s", t.Sources, t.Ask, t.Limit, t.Balance)
	if t.Discarded {
		key += "|after-discarded-edit-and-request"
	}
	cfg := map[string]any{"part": "oracle-fees", "tuple": t}
	// reference: accept iff within limit and within balance, per denom
	within := true
	for _, x := range c {
		if x.Amount.GT(limit.AmountOf(x.Denom)) || x.Amount.GT(balance.AmountOf(x.Denom)) {
			within = false
		}
	}
	if !c.Empty() {
		tally.Nontrivial(key)
	}
	tally.Saw("oracle:" + res.ErrName())
	path := []string{key}
	if res.OK() {
		if !within {
			tally.Violate(cfg, path, "C13/request-accepted-beyond-limit-or-balance", fmt.Sprintf("cost %s limit %s balance %s accepted", c, limit, balance))
			return
		}
		if got := w.App.BankKeeper.GetAllBalances(ctx, b.payer); !got.Equal(balance.Sub(c...)) {
			tally.Violate(cfg, path, "C13/payer-not-charged-exactly", fmt.Sprintf("payer has %s, expected %s - %s", got, balance, c))
		}
		// each treasury receives ask * fee * multiplicity
		mult := map[int]int64{}
		for _, s := range t.Sources {
			mult[s]++
		}
		for i, tr := range b.treasury {
			want := sdk.NewCoins()
			for _, f := range feeMenu[i] {
				want = want.Add(sdk.NewCoin(f.Denom, f.Amount.MulRaw(int64(t.Ask)*mult[i])))
			}
			if got := w.App.BankKeeper.GetAllBalances(ctx, tr); !got.Equal(want) {
				tally.Violate(cfg, path, "C13/treasury-not-paid-exactly", fmt.Sprintf("treasury %d has %s, expected %s", i, got, want))
			}
		}
		req, err := w.App.OracleKeeper.GetRequest(ctx, oracletypes.RequestID(cntBefore+1))
		if err != nil {
			tally.Violate(cfg, path, "C13/accepted-request-missing", err.Error())
		} else if !req.FeeLimit.Equal(limit.Sub(c...)) {
			tally.Violate(cfg, path, "C13/remaining-fee-limit", fmt.Sprintf("stored remaining limit %s, expected %s", req.FeeLimit, limit.Sub(c...)))
		}
	} else {
		if within {
			tally.Violate(cfg, path, "C13/affordable-request-rejected", fmt.Sprintf("cost %s limit %s balance %s rejected: %v", c, limit, balance, res.Err))
		}
		var ks []string
		for k := range before {
			ks = append(ks, k)
		}
		sort.Strings(ks)
		for _, k := range ks {
			if before[k] != after[k] {
				tally.Violate(cfg, path, "C13/rejected-request-moved-coins", fmt.Sprintf("%s: %s -> %s", k, before[k], after[k]))
			}
		}
		if w.App.OracleKeeper.GetRequestCount(ctx) != cntBefore {
			tally.Violate(cfg, path, "C13/rejected-request-stored", "request count changed")
		}
	}
	tally.Sample(6, t)
}

func sigConfigs(quick bool) []tsssig.Cfg {
	ev := []string{"req", "reqlow", "reqnolimit", "reqotherdenom", "reqgov", "reqpoor", "oreq", "oreqlow", "oreqmany", "feechg", "sig", "block"}
	if quick {
		return []tsssig.Cfg{
			{N: 3, T: 2, SigningPeriod: 1, MaxSigningAttempt: 2, MaxDESize: 6, InitDE: 4, MaxReq: 2, Depth: 7, Events: ev, FeePerSigner: 10},
			{N: 2, T: 1, SigningPeriod: 2, MaxSigningAttempt: 1, MaxDESize: 6, InitDE: 3, MaxReq: 3, Depth: 7, Events: ev, FeePerSigner: 7},
		}
	}
	return []tsssig.Cfg{
		{N: 3, T: 2, SigningPeriod: 1, MaxSigningAttempt: 2, MaxDESize: 6, InitDE: 4, MaxReq: 3, Depth: 9, Events: ev, FeePerSigner: 10},
		{N: 3, T: 3, SigningPeriod: 2, MaxSigningAttempt: 2, MaxDESize: 6, InitDE: 4, MaxReq: 2, Depth: 9, Events: ev, FeePerSigner: 1},
		{N: 2, T: 1, SigningPeriod: 2, MaxSigningAttempt: 1, MaxDESize: 6, InitDE: 3, MaxReq: 3, Depth: 9, Events: ev, FeePerSigner: 7},
		{N: 3, T: 2, SigningPeriod: 1, MaxSigningAttempt: 3, MaxDESize: 6, InitDE: 5, MaxReq: 2, Depth: 9, Events: ev, FeePerSigner: 0},
	}
}

func init() {
	engine.Register(&engine.Check{
		ID: "C13",
		Run: func(r *engine.Run) {
			r.Bound = "oracle: 1-3 raw requests over 4 fee vectors (none, 1uband, 2uband+3tok, 5tok; repeats), ask 1..3, limits {exact, +1, empty, -1 per denom, denom missing}, balances {ample, exact, one unit short at the k-th charging source}; signing: group t of n from a real DKG, paid / under-limit / no-limit / limit-in-another-denom / unaffordable / governance requests, oracle results put to the group with and without room in the remaining fee limit, fee_per_signer changes in flight, retries, depth 7 (quick) / 9 (thorough)"
			r.Assumptions = []string{
				"signing fees while a group transition is pending are covered by C18's search, not here",
				"IBC-relayed oracle requests use the same CollectFee path and are not enumerated separately",
			}
			r.Required = []string{"oracle:ok", "oracle:discarded-edit-and-request-executed", "oracle:oracle/43", "oracle:sdk/5", "req:ok", "reqlow:bandtss/3", "reqgov:ok", "reqpoor:sdk/5", "reqnolimit:sdk/10", "reqotherdenom:bandtss/3", "oracle-signing-created", "oracle-signing-refused:fee-limit", "signing_success", "signing_failed", "feechg:ok"}
			deadline := r.Deadline(3*time.Minute, 20*time.Minute)
			runOracle(r, deadline)
			tsssig.Run(r, "C13", sigConfigs(r.Quick()), 6*time.Minute, 45*time.Minute)
		},
		Replay: func(raw json.RawMessage, path []string) (engine.StepResult, []string) {
			var head struct {
				Part  string `json:"part"`
				Tuple tuple  `json:"tuple"`
			}
			if json.Unmarshal(raw, &head) == nil && head.Part == "oracle-fees" {
				var st engine.StepResult
				st.Violations = replayOracleTuple(head.Tuple)
				st.Outcome = fmt.Sprintf("%d violations", len(st.Violations))
				outs := make([]string, len(path))
				if len(outs) > 0 {
					outs[len(outs)-1] = st.Outcome
				}
				return st, outs
			}
			return tsssig.Replay(raw, path)
		},
	})
}
