// Package c14 checks property C14: block reward allocation conserves coins and pays only active
// participants.
//
// Engine: enum.  Every tuple of the stated finite space (fee-pool contents, vote powers,
// oracle-active flags, proposer, current-group shape with per-member (active, has-nonce) flags,
// the two reward percentages, community tax, mint on/off) is executed on the REAL whole-app
// BeginBlocker (w.BeginBlock on a Fork of a base state built by real handlers) and judged by an
// independent reference written from the property statement with big.Int / big.Rat.
//
// To attribute balance changes to "the oracle share" and "the tss share" the same begin block is
// executed a second time on a sibling Fork module by module, walking the application's own
// module manager in the application's own order (the same loop as module.Manager.BeginBlock), with
// snapshots of all balances / supply / distribution records around the oracle and bandtss begin
// blockers.  The two executions must end in the same state (otherwise: harness error, exit 3).
package c14

import (
	"fmt"
	"math/big"
	"sort"
	"strings"
	"time"

	abci "github.com/cometbft/cometbft/abci/types"
	cmtproto "github.com/cometbft/cometbft/proto/tendermint/types"

	"cosmossdk.io/core/appmodule"
	sdkmath "cosmossdk.io/math"
	storetypes "cosmossdk.io/store/types"

	sdk "github.com/cosmos/cosmos-sdk/types"
	authtypes "github.com/cosmos/cosmos-sdk/x/auth/types"
	distrtypes "github.com/cosmos/cosmos-sdk/x/distribution/types"
	govtypes "github.com/cosmos/cosmos-sdk/x/gov/types"
	minttypes "github.com/cosmos/cosmos-sdk/x/mint/types"

	band "github.com/bandprotocol/chain/v3/app"
	"github.com/bandprotocol/chain/v3/pkg/tss"
	bandtesting "github.com/bandprotocol/chain/v3/testing"
	bandtsstypes "github.com/bandprotocol/chain/v3/x/bandtss/types"
	oracletypes "github.com/bandprotocol/chain/v3/x/oracle/types"
	tsstestutil "github.com/bandprotocol/chain/v3/x/tss/testutil"
	tsstypes "github.com/bandprotocol/chain/v3/x/tss/types"
	"github.com/bandprotocol/chain/v3/zzverif/engine"
)

const (
	denom1 = "uband"
	denom2 = "uusd"
)

// GroupCfg is the shape of the current bandtss group: N members (0 = no current group), each with
// an activity flag and a "has a queued nonce (DE)" flag.
type GroupCfg struct {
	N      int    `json:"members"`
	Active []bool `json:"active"`
	HasDE  []bool `json:"has_nonce"`
	// Refilled: the queues have a history — every member first queues one nonce, a signing request by the authority
	// consumes the nonces of the assigned members, and the members flagged has_nonce then queue one more (the others
	// reset their queue).  The allocation rule is the same; the queues' head positions are not 0 any more.
	Refilled bool `json:"refilled_queues,omitempty"`
	// MaxSize > 0: after the group became the current group, governance lowers the tss parameter MaxGroupSize to this
	// value (real tss MsgUpdateParams by the authority), below the size of the existing group.  Membership is unchanged.
	MaxSize uint64 `json:"tss_max_group_size_lowered_to,omitempty"`
	// Incoming: a hand-over to a second group with finished key generation is waiting for its execution time
	// (MsgForceTransitionGroup by the authority; the incoming members were added to bandtss, are active and each has a
	// queued nonce).  "disjoint": incoming = {Owner, FeePayer}; "overlap": incoming = {current member 0, Owner}.
	// Until execution only the current group's members are "current-group signing members".
	Incoming string `json:"incoming_group_waiting_execution,omitempty"`
}

// incomingAccounts lists the members of the incoming group.
func (g GroupCfg) incomingAccounts() []bandtesting.Account {
	switch g.Incoming {
	case "disjoint":
		return []bandtesting.Account{bandtesting.Owner, bandtesting.FeePayer}
	case "overlap":
		return []bandtesting.Account{memberAccounts()[0], bandtesting.Owner}
	}
	return nil
}

// incomingOnly lists the incoming members that are not members of the current group.
func (g GroupCfg) incomingOnly() []string {
	var out []string
	for _, a := range g.incomingAccounts() {
		cur := false
		for i := 0; i < g.N; i++ {
			cur = cur || memberAccounts()[i].Address.Equals(a.Address)
		}
		if !cur {
			out = append(out, a.Address.String())
		}
	}
	return out
}

func (g GroupCfg) key() string {
	k := fmt.Sprintf("%d:%v:%v", g.N, g.Active, g.HasDE)
	if g.Refilled {
		k += ":refilled"
	}
	if g.MaxSize > 0 {
		k += fmt.Sprintf(":maxgroupsize=%d", g.MaxSize)
	}
	if g.Incoming != "" {
		k += ":incoming-" + g.Incoming
	}
	return k
}

// Tuple is one point of the enumerated space.
type Tuple struct {
	Pool   string   `json:"pool_uband"`        // tx fees sitting in the fee collector before the block
	Pool2  string   `json:"pool_second_denom"` // "" = single denom
	Mint   bool     `json:"mint_on"`           // false: inflation forced to 0 so that the pool is exactly Pool
	Powers [3]int64 `json:"vote_powers"`
	OAct   [3]bool  `json:"oracle_active"`
	Prop   int      `json:"proposer"`
	Group  GroupCfg `json:"group"`
	OPct   uint64   `json:"oracle_reward_percentage"`
	TPct   uint64   `json:"tss_reward_percentage"`
	Tax    string   `json:"community_tax"`
	// Discarded: see space.Discarded
	Discarded bool `json:"discarded_executions,omitempty"`
	// Jailed: validator i has just been jailed in x/staking (StakingKeeper.Jail, the call x/slashing and x/evidence make in
	// their begin blockers) and no validator-set update has taken effect yet, so it is still in the last-commit vote
	// set.  Its oracle status is untouched; the statement pays by oracle activity and voting power, not by jailing.
	Jailed [3]bool `json:"jailed_in_staking"`
}

func (t Tuple) String() string {
	s := fmt.Sprintf("pool=%s/%q mint=%v powers=%v oact=%v prop=%d group=%s opct=%d tpct=%d tax=%s",
		t.Pool, t.Pool2, t.Mint, t.Powers, t.OAct, t.Prop, t.Group.key(), t.OPct, t.TPct, t.Tax)
	if t.Discarded {
		s += " +discarded-executions"
	}
	if t.Jailed != [3]bool{} {
		s += fmt.Sprintf(" jailed=%v", t.Jailed)
	}
	return s
}

// ---- base states ------------------------------------------------------------------------------

var memberAccounts = func() []bandtesting.Account {
	return []bandtesting.Account{bandtesting.Alice, bandtesting.Bob, bandtesting.Carol}
}

type worker struct {
	w      *engine.World
	groups map[int]sdk.Context    // group size -> base with that current group (all members active, no nonce)
	incom  map[string]sdk.Context // (group size, incoming kind) -> groups[n] plus a forced transition waiting for execution
	bases  map[string]sdk.Context // (oracle flags, group cfg) -> base
	secret tss.Scalar
}

func newWorker() *worker {
	return &worker{w: engine.NewWorld(), groups: map[int]sdk.Context{}, incom: map[string]sdk.Context{}, bases: map[string]sdk.Context{}}
}

func must(err error, what string) {
	if err != nil {
		engine.Fatal3("C14 base-state construction: %s: %v", what, err)
	}
}

// groupBase builds (once per worker) a state whose current bandtss group has n members, through the
// real path: MsgTransitionGroup from the authority, the three DKG rounds through the tss message
// server, and the bandtss EndBlocker executing the transition at its execution time.
func (wk *worker) groupBase(n int) sdk.Context {
	if c, ok := wk.groups[n]; ok {
		return c
	}
	w := wk.w
	engine.DetRandResetTo(uint64(1000 + n))
	ctx := engine.Fork(w.Root)
	if n > 0 {
		accs := memberAccounts()[:n]
		var members []string
		for _, a := range accs {
			members = append(members, a.Address.String())
		}
		authority := authtypes.NewModuleAddress(govtypes.ModuleName).String()
		exec := ctx.BlockTime().Add(24 * time.Hour)
		res := w.Tx(ctx, 0, bandtsstypes.NewMsgTransitionGroup(members, uint64((n+2)/2), exec, authority))
		must(res.Err, "MsgTransitionGroup")
		gid := tss.GroupID(w.App.TSSKeeper.GetGroupCount(ctx))
		secrets := make([]tss.Scalar, n)
		for i := range secrets {
			s, err := tss.RandomScalar()
			must(err, "RandomScalar")
			secrets[i] = s
		}
		gc := &tsstestutil.GroupContext{GroupID: gid, Accounts: accs, DEs: make([][]tsstestutil.DEWithPrivateNonce, n), Secrets: secrets}
		must(gc.SubmitRound1(ctx, w.App.TSSKeeper), "DKG round 1")
		must(gc.SubmitRound2(ctx, w.App.TSSKeeper), "DKG round 2")
		must(gc.SubmitRound3(ctx, w.App.TSSKeeper), "DKG round 3")
		var br engine.BlockResult
		ctx, br = w.Block(ctx, 1, 24*time.Hour)
		if br.Halt != "" {
			engine.Fatal3("C14 base: block halt %s", br.Halt)
		}
		ctx, br = w.Block(ctx, 1, 3*time.Second)
		if br.Halt != "" {
			engine.Fatal3("C14 base: block halt %s", br.Halt)
		}
		if got := w.App.BandtssKeeper.GetCurrentGroup(ctx).GroupID; got != gid {
			engine.Fatal3("C14 base: current group is %d, want %d", got, gid)
		}
	}
	if wk.secret == nil {
		s, err := tss.RandomScalar()
		must(err, "RandomScalar")
		wk.secret = s
	}
	wk.groups[n] = ctx
	return ctx
}

// dkg runs the three key-generation rounds of group gid through the tss message server.
func (wk *worker) dkg(ctx sdk.Context, gid tss.GroupID, accs []bandtesting.Account) {
	w := wk.w
	secrets := make([]tss.Scalar, len(accs))
	for i := range secrets {
		s, err := tss.RandomScalar()
		must(err, "RandomScalar")
		secrets[i] = s
	}
	gc := &tsstestutil.GroupContext{GroupID: gid, Accounts: accs, DEs: make([][]tsstestutil.DEWithPrivateNonce, len(accs)), Secrets: secrets}
	must(gc.SubmitRound1(ctx, w.App.TSSKeeper), "DKG round 1")
	must(gc.SubmitRound2(ctx, w.App.TSSKeeper), "DKG round 2")
	must(gc.SubmitRound3(ctx, w.App.TSSKeeper), "DKG round 3")
}

// incomingBase extends groupBase(n) by a hand-over that waits for its execution time: the authority proposes a second
// group (MsgTransitionGroup), its key generation completes, the hand-over signing cannot be created because no current
// member has a nonce queued at that moment, so that proposal ends as failed while the second group stays ACTIVE in tss;
// the authority then forces the transition to it (MsgForceTransitionGroup).  The incoming members queue a nonce each.
func (wk *worker) incomingBase(g GroupCfg) sdk.Context {
	key := fmt.Sprintf("%d:%s", g.N, g.Incoming)
	if c, ok := wk.incom[key]; ok {
		return c
	}
	w := wk.w
	ctx := engine.Fork(wk.groupBase(g.N))
	engine.DetRandResetTo(uint64(2000 + 10*g.N + len(g.Incoming)))
	cur := w.App.BandtssKeeper.GetCurrentGroup(ctx).GroupID
	accs := g.incomingAccounts()
	var members []string
	for _, a := range accs {
		members = append(members, a.Address.String())
	}
	authority := authtypes.NewModuleAddress(govtypes.ModuleName).String()
	exec := ctx.BlockTime().Add(48 * time.Hour)
	must(w.Tx(ctx, 0, bandtsstypes.NewMsgTransitionGroup(members, 2, exec, authority)).Err, "MsgTransitionGroup (second group)")
	gid := tss.GroupID(w.App.TSSKeeper.GetGroupCount(ctx))
	wk.dkg(ctx, gid, accs)
	if tr, found := w.App.BandtssKeeper.GetGroupTransition(ctx); found {
		engine.Fatal3("C14 base: proposal to group %d still in progress after key generation (status %s)", gid, tr.Status)
	}
	must(w.Tx(ctx, 0, bandtsstypes.NewMsgForceTransitionGroup(gid, exec, authority)).Err, "MsgForceTransitionGroup")
	tr, found := w.App.BandtssKeeper.GetGroupTransition(ctx)
	if !found || tr.Status != bandtsstypes.TRANSITION_STATUS_WAITING_EXECUTION || tr.IncomingGroupID != gid || w.App.BandtssKeeper.GetCurrentGroup(ctx).GroupID != cur || cur == 0 {
		engine.Fatal3("C14 base: forced transition not waiting for execution (found %v, %+v, current %d)", found, tr, cur)
	}
	for _, a := range g.incomingOnly() {
		de := tsstestutil.GenerateDE(wk.secret)
		must(w.Tx(ctx, 0, tsstypes.NewMsgSubmitDEs([]tsstypes.DE{de.PubDE}, a)).Err, "MsgSubmitDEs (incoming member)")
	}
	wk.incom[key] = ctx
	return ctx
}

// base returns the state for (oracle-active flags, group configuration): validators activated by
// MsgActivate, members deactivated by the bandtss keeper's DeactivateMember (the function the
// module itself calls; there is no message for it), nonces queued by MsgSubmitDEs.
func (wk *worker) base(oact [3]bool, g GroupCfg) sdk.Context {
	key := fmt.Sprintf("%v|%s", oact, g.key())
	if c, ok := wk.bases[key]; ok {
		return c
	}
	w := wk.w
	parent := wk.groupBase(g.N)
	if g.Incoming != "" {
		parent = wk.incomingBase(g)
	}
	ctx := engine.Fork(parent)
	for i, on := range oact {
		if on {
			res := w.Tx(ctx, 0, oracletypes.NewMsgActivate(bandtesting.Validators[i].ValAddress))
			must(res.Err, "MsgActivate")
		}
		if got := w.App.OracleKeeper.GetValidatorStatus(ctx, bandtesting.Validators[i].ValAddress).IsActive; got != on {
			engine.Fatal3("C14 base: validator %d oracle status %v, want %v", i, got, on)
		}
	}
	if g.N > 0 && g.Refilled {
		for i := 0; i < g.N; i++ {
			de := tsstestutil.GenerateDE(wk.secret)
			must(w.Tx(ctx, 0, tsstypes.NewMsgSubmitDEs([]tsstypes.DE{de.PubDE}, memberAccounts()[i].Address.String())).Err, "MsgSubmitDEs (first fill)")
		}
		rs, err := bandtsstypes.NewMsgRequestSignature(tsstypes.NewTextSignatureOrder([]byte("c14")), sdk.NewCoins(sdk.NewInt64Coin(denom1, 1000)), w.App.BandtssKeeper.GetAuthority())
		must(err, "NewMsgRequestSignature")
		must(w.Tx(ctx, 0, rs).Err, "MsgRequestSignature by the authority")
		for i := 0; i < g.N; i++ {
			if !g.HasDE[i] {
				must(w.Tx(ctx, 0, &tsstypes.MsgResetDE{Sender: memberAccounts()[i].Address.String()}).Err, "MsgResetDE")
			}
		}
	}
	if g.N > 0 {
		gid := w.App.BandtssKeeper.GetCurrentGroup(ctx).GroupID
		for i := 0; i < g.N; i++ {
			acc := memberAccounts()[i]
			if !g.Active[i] {
				must(w.App.BandtssKeeper.DeactivateMember(ctx, acc.Address, gid), "DeactivateMember")
			}
			if g.HasDE[i] {
				de := tsstestutil.GenerateDE(wk.secret)
				res := w.Tx(ctx, 0, tsstypes.NewMsgSubmitDEs([]tsstypes.DE{de.PubDE}, acc.Address.String()))
				must(res.Err, "MsgSubmitDEs")
			}
			// sanity: the stores say what the configuration says
			m, err := w.App.TSSKeeper.GetMember(ctx, gid, tss.MemberID(i+1))
			must(err, "tss GetMember")
			if m.Address != acc.Address.String() {
				engine.Fatal3("C14 base: member %d of group %d is %s, want %s", i+1, gid, m.Address, acc.Address)
			}
			bm, err := w.App.BandtssKeeper.GetMember(ctx, acc.Address, gid)
			must(err, "bandtss GetMember")
			q := w.App.TSSKeeper.GetDEQueue(ctx, acc.Address)
			if g.Refilled {
				// the queue bookkeeping is the implementation's; what the configuration fixes is what was submitted
				// and consumed through the handlers, so only the activity flags are cross-checked here
				q.Head, q.Tail = 0, map[bool]uint64{true: 1, false: 0}[g.HasDE[i]]
			}
			if m.IsActive != g.Active[i] || bm.IsActive != g.Active[i] || (q.Tail > q.Head) != g.HasDE[i] {
				engine.Fatal3("C14 base: member %d flags (tss %v, bandtss %v, queue %d..%d) do not match configuration %s",
					i, m.IsActive, bm.IsActive, q.Head, q.Tail, g.key())
			}
		}
	}
	// last step, so that everything above happened while the parameter still had its old value
	if g.MaxSize > 0 {
		p := w.App.TSSKeeper.GetParams(ctx)
		p.MaxGroupSize = g.MaxSize
		must(w.Tx(ctx, 0, tsstypes.NewMsgUpdateParams(authtypes.NewModuleAddress(govtypes.ModuleName).String(), p)).Err, "tss MsgUpdateParams")
	}
	wk.bases[key] = ctx
	return ctx
}

func parseInt(s string) *big.Int {
	if s == "" {
		return new(big.Int)
	}
	v, ok := new(big.Int).SetString(s, 10)
	if !ok {
		panic("bad integer " + s)
	}
	return v
}

// prepare applies the tuple to a private Fork of the base: fee pool contents, the three parameters,
// mint switch, and the consensus inputs (votes, proposer) of the block about to begin.
func (wk *worker) prepare(t Tuple) sdk.Context {
	w := wk.w
	ctx := engine.Fork(wk.base(t.OAct, t.Group))
	fc := authtypes.NewModuleAddress(authtypes.FeeCollectorName)
	if old := w.App.BankKeeper.GetAllBalances(ctx, fc); !old.IsZero() {
		must(w.App.BankKeeper.SendCoinsFromModuleToAccount(ctx, authtypes.FeeCollectorName, bandtesting.Treasury.Address, old), "empty fee collector")
	}
	pool := sdk.NewCoins()
	if a := parseInt(t.Pool); a.Sign() > 0 {
		pool = pool.Add(sdk.NewCoin(denom1, sdkmath.NewIntFromBigInt(a)))
	}
	if a := parseInt(t.Pool2); a.Sign() > 0 {
		pool = pool.Add(sdk.NewCoin(denom2, sdkmath.NewIntFromBigInt(a)))
	}
	if !pool.IsZero() {
		must(w.App.BankKeeper.MintCoins(ctx, minttypes.ModuleName, pool), "mint pool")
		must(w.App.BankKeeper.SendCoinsFromModuleToModule(ctx, minttypes.ModuleName, authtypes.FeeCollectorName, pool), "fund fee collector")
	}
	op := w.App.OracleKeeper.GetParams(ctx)
	op.OracleRewardPercentage = t.OPct
	must(w.App.OracleKeeper.SetParams(ctx, op), "oracle params")
	bp := w.App.BandtssKeeper.GetParams(ctx)
	bp.RewardPercentage = t.TPct
	must(w.App.BandtssKeeper.SetParams(ctx, bp), "bandtss params")
	dp, err := w.App.DistrKeeper.Params.Get(ctx)
	must(err, "distr params")
	dp.CommunityTax = sdkmath.LegacyMustNewDecFromStr(t.Tax)
	must(w.App.DistrKeeper.Params.Set(ctx, dp), "distr params")
	if !t.Mint {
		mp, err := w.App.MintKeeper.Params.Get(ctx)
		must(err, "mint params")
		mp.InflationMax, mp.InflationMin, mp.InflationRateChange = sdkmath.LegacyZeroDec(), sdkmath.LegacyZeroDec(), sdkmath.LegacyZeroDec()
		must(w.App.MintKeeper.Params.Set(ctx, mp), "mint params")
		mt, err := w.App.MintKeeper.Minter.Get(ctx)
		must(err, "minter")
		mt.Inflation, mt.AnnualProvisions = sdkmath.LegacyZeroDec(), sdkmath.LegacyZeroDec()
		must(w.App.MintKeeper.Minter.Set(ctx, mt), "minter")
	}
	for i, j := range t.Jailed {
		if j {
			cons := sdk.ConsAddress(bandtesting.Validators[i].PubKey.Address())
			must(w.App.StakingKeeper.Jail(ctx, cons), "staking Jail")
			val, err := w.App.StakingKeeper.GetValidatorByConsAddr(ctx, cons)
			must(err, "GetValidatorByConsAddr")
			if !val.IsJailed() || w.App.OracleKeeper.GetValidatorStatus(ctx, bandtesting.Validators[i].ValAddress).IsActive != t.OAct[i] {
				engine.Fatal3("C14 prepare: validator %d jailed=%v, oracle status changed by jailing", i, val.IsJailed())
			}
		}
	}
	var votes []abci.VoteInfo
	for i, p := range t.Powers {
		votes = append(votes, abci.VoteInfo{
			Validator:   abci.Validator{Address: bandtesting.Validators[i].PubKey.Address(), Power: p},
			BlockIdFlag: cmtproto.BlockIDFlagCommit,
		})
	}
	if t.Discarded {
		wk.discardedExecutions(engine.Fork(ctx), t)
	}
	h := ctx.BlockHeader()
	h.ProposerAddress = bandtesting.Validators[t.Prop].PubKey.Address()
	return ctx.WithBlockHeader(h).WithVoteInfos(votes)
}

// discardedExecutions runs, on a branch g that the caller throws away, the real messages that would change who is paid
// and how much: MsgActivate of every oracle-inactive validator, bandtss MsgActivate and MsgSubmitDEs of every member that
// is inactive / has no nonce, and parameter updates with other percentages.  This is what the chain does with a
// transaction whose later message fails, with a proposal whose later message fails, and with every gas simulation; the
// stores of the block that follows are untouched, so the allocation must be the one of the tuple.
func (wk *worker) discardedExecutions(g sdk.Context, t Tuple) {
	w := wk.w
	for i, on := range t.OAct {
		if !on {
			w.Tx(g, 0, oracletypes.NewMsgActivate(bandtesting.Validators[i].ValAddress))
		}
	}
	if t.Group.N > 0 {
		gid := w.App.BandtssKeeper.GetCurrentGroup(g).GroupID
		for i := 0; i < t.Group.N; i++ {
			acc := memberAccounts()[i]
			if !t.Group.Active[i] {
				w.Tx(g.WithBlockTime(g.BlockTime().Add(240*time.Hour)), 0, &bandtsstypes.MsgActivate{Sender: acc.Address.String(), GroupID: gid})
			}
			if !t.Group.HasDE[i] {
				de := tsstestutil.GenerateDE(wk.secret)
				w.Tx(g, 0, tsstypes.NewMsgSubmitDEs([]tsstypes.DE{de.PubDE}, acc.Address.String()))
			}
		}
	}
	op := w.App.OracleKeeper.GetParams(g)
	op.OracleRewardPercentage = 100 - t.OPct
	w.Tx(g, 0, oracletypes.NewMsgUpdateParams(w.App.OracleKeeper.GetAuthority(), op))
	bp := w.App.BandtssKeeper.GetParams(g)
	bp.RewardPercentage = 100 - t.TPct
	w.Tx(g, 0, bandtsstypes.NewMsgUpdateParams(w.App.BandtssKeeper.GetAuthority(), bp))
}

// ---- snapshots --------------------------------------------------------------------------------

type amt map[string]*big.Int // denom -> amount

func (a amt) get(d string) *big.Int {
	if v, ok := a[d]; ok {
		return v
	}
	return new(big.Int)
}

func (a amt) add(d string, v *big.Int) {
	if _, ok := a[d]; !ok {
		a[d] = new(big.Int)
	}
	a[d].Add(a[d], v)
}

func (a amt) String() string {
	var ds []string
	for d, v := range a {
		if v.Sign() != 0 {
			ds = append(ds, d)
		}
	}
	sort.Strings(ds)
	var sb strings.Builder
	sb.WriteString("{")
	for i, d := range ds {
		if i > 0 {
			sb.WriteString(",")
		}
		sb.WriteString(a[d].String() + d)
	}
	sb.WriteString("}")
	return sb.String()
}

func (a amt) isZero() bool {
	for _, v := range a {
		if v.Sign() != 0 {
			return false
		}
	}
	return true
}

// sub returns b - a per denom.
func sub(b, a amt) amt {
	out := amt{}
	for d, v := range b {
		out.add(d, v)
	}
	for d, v := range a {
		out.add(d, new(big.Int).Neg(v))
	}
	return out
}

func eq(a, b amt) bool { return sub(a, b).isZero() }

var scale = new(big.Int).Exp(big.NewInt(10), big.NewInt(18), nil) // LegacyDec fixed point

func fromCoins(cs sdk.Coins) amt {
	out := amt{}
	for _, c := range cs {
		out.add(c.Denom, c.Amount.BigInt())
	}
	return out
}

func fromDecCoins(cs sdk.DecCoins) amt { // scaled by 1e18
	out := amt{}
	for _, c := range cs {
		out.add(c.Denom, c.Amount.BigInt())
	}
	return out
}

// snap is the observation point of the property: all bank balances, total supply, and the
// distribution module's records (amounts of the latter scaled by 1e18).
type snap struct {
	bal    map[string]amt // bech32 account -> balance
	supply amt
	out    map[string]amt // valoper -> outstanding rewards (scaled)
	pool   amt            // community pool (scaled)
}

func (wk *worker) snapshot(ctx sdk.Context) *snap {
	w := wk.w
	s := &snap{bal: map[string]amt{}, supply: amt{}, out: map[string]amt{}, pool: amt{}}
	w.App.BankKeeper.IterateAllBalances(ctx, func(a sdk.AccAddress, c sdk.Coin) bool {
		k := a.String()
		if s.bal[k] == nil {
			s.bal[k] = amt{}
		}
		s.bal[k].add(c.Denom, c.Amount.BigInt())
		return false
	})
	w.App.BankKeeper.IterateTotalSupply(ctx, func(c sdk.Coin) bool {
		s.supply.add(c.Denom, c.Amount.BigInt())
		return false
	})
	w.App.DistrKeeper.IterateValidatorOutstandingRewards(ctx, func(v sdk.ValAddress, r distrtypes.ValidatorOutstandingRewards) bool {
		s.out[v.String()] = fromDecCoins(r.Rewards)
		return false
	})
	fp, err := w.App.DistrKeeper.FeePool.Get(ctx)
	must(err, "fee pool")
	s.pool = fromDecCoins(fp.CommunityPool)
	return s
}

func (s *snap) balance(addr string) amt {
	if a, ok := s.bal[addr]; ok {
		return a
	}
	return amt{}
}

func (s *snap) outstanding(val string) amt {
	if a, ok := s.out[val]; ok {
		return a
	}
	return amt{}
}

func (s *snap) sumOut() amt {
	t := amt{}
	for _, a := range s.out {
		for d, v := range a {
			t.add(d, v)
		}
	}
	return t
}

func (s *snap) sumBal() amt {
	t := amt{}
	for _, a := range s.bal {
		for d, v := range a {
			t.add(d, v)
		}
	}
	return t
}

func (s *snap) equal(o *snap) bool {
	if !eq(s.supply, o.supply) || !eq(s.pool, o.pool) {
		return false
	}
	for k := range unionKeys(s.bal, o.bal) {
		if !eq(s.balance(k), o.balance(k)) {
			return false
		}
	}
	for k := range unionKeys(s.out, o.out) {
		if !eq(s.outstanding(k), o.outstanding(k)) {
			return false
		}
	}
	return true
}

func unionKeys(a, b map[string]amt) map[string]bool {
	u := map[string]bool{}
	for k := range a {
		u[k] = true
	}
	for k := range b {
		u[k] = true
	}
	return u
}

func denomsOf(as ...amt) []string {
	u := map[string]bool{}
	for _, a := range as {
		for d := range a {
			u[d] = true
		}
	}
	var out []string
	for d := range u {
		out = append(out, d)
	}
	sort.Strings(out)
	return out
}

// ---- execution --------------------------------------------------------------------------------

var (
	fcAddr    = authtypes.NewModuleAddress(authtypes.FeeCollectorName).String()
	distrAddr = authtypes.NewModuleAddress(distrtypes.ModuleName).String()
)

// phases is the module-by-module execution of one begin block.
type phases struct {
	s0, preOracle, postOracle, preTss, postTss, final *snap
	haltModule, halt                                  string
	order                                             []string // modules with a begin blocker, in execution order
}

// stepwise runs the begin block on ctx with exactly the header / header info / header hash that
// the engine's whole-app BeginBlock used (taken from the context it returned).
func (wk *worker) stepwise(ctx, like sdk.Context) (sdk.Context, *phases) {
	w := wk.w
	mm := band.VerifC14ModuleManager(w.App)
	c := ctx.WithBlockHeader(like.BlockHeader()).WithHeaderHash(like.HeaderHash()).WithHeaderInfo(like.HeaderInfo()).
		WithEventManager(sdk.NewEventManager()).WithGasMeter(storetypes.NewInfiniteGasMeter())
	ph := &phases{s0: wk.snapshot(c)}
	for _, name := range mm.OrderBeginBlockers {
		mod, ok := mm.Modules[name].(appmodule.HasBeginBlocker)
		if !ok {
			continue
		}
		ph.order = append(ph.order, name)
		switch name {
		case oracletypes.ModuleName:
			ph.preOracle = wk.snapshot(c)
		case bandtsstypes.ModuleName:
			ph.preTss = wk.snapshot(c)
		}
		func() {
			defer func() {
				if r := recover(); r != nil {
					ph.halt = fmt.Sprintf("panic: %v", r)
				}
			}()
			if err := mod.BeginBlock(c); err != nil {
				ph.halt = "error: " + err.Error()
			}
		}()
		if ph.halt != "" {
			ph.haltModule = name
			return c, ph
		}
		switch name {
		case oracletypes.ModuleName:
			ph.postOracle = wk.snapshot(c)
		case bandtsstypes.ModuleName:
			ph.postTss = wk.snapshot(c)
		}
	}
	ph.final = wk.snapshot(c)
	return c, ph
}

func firstLines(s string, n int) string {
	l := strings.Split(s, "\n")
	if len(l) > n {
		l = l[:n]
	}
	return strings.Join(l, " <- ")
}

func haltClass(msg string) string {
	switch {
	case strings.Contains(msg, "negative coin amount"), strings.Contains(msg, "negative"):
		return "negative-amount"
	case strings.Contains(msg, "insufficient"):
		return "insufficient-funds"
	case strings.Contains(msg, "validator does not exist"), strings.Contains(msg, "no validator found"):
		return "validator-not-found"
	case strings.Contains(msg, "overflow"):
		return "overflow"
	}
	if strings.HasPrefix(msg, "panic") {
		return "panic"
	}
	return "error"
}

// result of judging one tuple.
type verdict struct {
	viol       []engine.Violation
	labels     []string
	nontrivial bool
}

func (v *verdict) violate(fp, format string, a ...any) {
	v.viol = append(v.viol, engine.Violation{Fingerprint: fp, Detail: fmt.Sprintf(format, a...)})
}

func (v *verdict) saw(l string) { v.labels = append(v.labels, l) }

// evaluate executes one tuple on the real code (whole-app begin block + module-by-module twin) and
// applies the oracle.  fullHash additionally compares every KV store of the two executions.
func (wk *worker) evaluate(t Tuple, fullHash bool) *verdict {
	w := wk.w
	v := &verdict{}
	ctx := wk.prepare(t)

	// (A) the real whole-app BeginBlocker, uncached and unrecovered as in FinalizeBlock
	a := engine.Fork(ctx)
	aNext, aEvents, aHalt := w.BeginBlock(a, 1, 3*time.Second)
	// (B) the same begin block, module by module in the application's own order
	bNext, ph := wk.stepwise(engine.Fork(ctx), aNext)

	if aHalt != "" {
		mod := ph.haltModule
		if mod == "" {
			engine.Fatal3("C14: whole-app BeginBlocker halted (%s) but the module-by-module execution did not; tuple %s", aHalt, t)
		}
		v.violate("begin-block-halt:"+mod+":"+haltClass(ph.halt), "whole-app BeginBlocker halts the chain in module %q: %s | tuple: %s", mod, firstLines(aHalt, 4), t)
		v.saw("halt:" + mod)
		return v
	}
	if ph.halt != "" {
		engine.Fatal3("C14: module-by-module execution halted in %s (%s) but the whole-app BeginBlocker did not; tuple %s", ph.haltModule, ph.halt, t)
	}
	after := wk.snapshot(aNext)
	before := ph.s0 // both executions start from forks of the same prepared state
	if !after.equal(ph.final) {
		engine.Fatal3("C14: whole-app BeginBlocker and module-by-module execution end in different states; tuple %s", t)
	}
	if fullHash {
		if ha, hb := w.HashStores(aNext, nil, nil), w.HashStores(bNext, nil, nil); ha != hb {
			engine.Fatal3("C14: whole-app BeginBlocker and module-by-module execution differ in some KV store (%v); tuple %s", w.DiffStores(aNext, bNext, nil), t)
		}
	}
	if ph.preOracle == nil || ph.preTss == nil {
		engine.Fatal3("C14: oracle or bandtss has no begin blocker in this application (order %v)", ph.order)
	}

	// ---- end-to-end clauses on the whole-app execution -------------------------------------
	minted := amt{}
	for _, e := range engine.EventsOfType(aEvents, minttypes.EventTypeMint) {
		minted.add(denom1, parseInt(engine.Attr(e, sdk.AttributeKeyAmount)))
	}
	if !t.Mint && !minted.isZero() {
		engine.Fatal3("C14: mint switched off but %s minted", minted)
	}
	if d := sub(sub(after.supply, before.supply), minted); !d.isZero() {
		v.violate("total-supply-changed:whole-block", "total supply changed by %s beyond the mint provision %s | tuple: %s", d, minted, t)
	}
	if d := sub(sub(after.sumBal(), before.sumBal()), minted); !d.isZero() {
		v.violate("balances-not-zero-sum:whole-block", "sum of all balance changes is %s (mint provision %s excluded) | tuple: %s", d, minted, t)
	}

	// ---- per-segment conservation ------------------------------------------------------------
	segs := []struct {
		name     string
		from, to *snap
	}{
		{"before-oracle", ph.s0, ph.preOracle}, {"oracle", ph.preOracle, ph.postOracle}, {"between", ph.postOracle, ph.preTss},
		{"bandtss", ph.preTss, ph.postTss}, {"after-bandtss", ph.postTss, ph.final},
	}
	for _, sg := range segs {
		dSupply := sub(sg.to.supply, sg.from.supply)
		if sg.name == "before-oracle" {
			dSupply = sub(dSupply, minted)
		}
		if !dSupply.isZero() {
			v.violate("total-supply-changed:"+sg.name, "supply changed by %s in segment %s | tuple: %s", dSupply, sg.name, t)
		}
		dBal := sub(sg.to.sumBal(), sg.from.sumBal())
		if sg.name == "before-oracle" {
			dBal = sub(dBal, minted)
		}
		if !dBal.isZero() {
			v.violate("balances-not-zero-sum:"+sg.name, "balance changes sum to %s in segment %s | tuple: %s", dBal, sg.name, t)
		}
		// every coin that enters the distribution module account is owed to somebody
		// (validator outstanding rewards or community pool), and nothing is owed without a coin
		dMod := sub(sg.to.balance(distrAddr), sg.from.balance(distrAddr))
		dOwed := sub(sg.to.sumOut(), sg.from.sumOut())
		for d, x := range sub(sg.to.pool, sg.from.pool) {
			dOwed.add(d, x)
		}
		for _, d := range denomsOf(dMod, dOwed) {
			have := new(big.Int).Mul(dMod.get(d), scale)
			switch have.Cmp(dOwed.get(d)) {
			case -1:
				v.violate("distribution-unbacked:"+sg.name, "segment %s: distribution account received %s%s but records grew by %s e-18 (coins created on paper) | tuple: %s", sg.name, dMod.get(d), d, dOwed.get(d), t)
			case 1:
				v.violate("distribution-stranded:"+sg.name, "segment %s: distribution account received %s%s but outstanding rewards + community pool grew only by %s e-18 (coins destroyed in effect) | tuple: %s", sg.name, dMod.get(d), d, dOwed.get(d), t)
			}
		}
	}
	// "then the configured percentage of what remains": nothing touches the pool in between
	if !eq(ph.postOracle.balance(fcAddr), ph.preTss.balance(fcAddr)) {
		v.violate("pool-changed-between-oracle-and-tss", "fee pool %s after the oracle share, %s when the tss share is taken | tuple: %s", ph.postOracle.balance(fcAddr), ph.preTss.balance(fcAddr), t)
	}
	if !t.Mint {
		want := amt{denom1: parseInt(t.Pool), denom2: parseInt(t.Pool2)}
		if !eq(ph.preOracle.balance(fcAddr), want) {
			engine.Fatal3("C14: fee pool before the oracle begin blocker is %s, configured %s", ph.preOracle.balance(fcAddr), want)
		}
	}

	wk.judgeOracle(t, ph.preOracle, ph.postOracle, v)
	wk.judgeTss(t, ph.preTss, ph.postTss, v)

	if t.Pool2 != "" && t.Pool2 != "0" {
		v.saw("pool:multi-denom")
	}
	if t.Mint {
		v.saw("mint:on")
	} else {
		v.saw("mint:off")
	}
	return v
}

func pctOf(pool amt, pct uint64) amt {
	out := amt{}
	for d, x := range pool {
		q := new(big.Int).Mul(x, new(big.Int).SetUint64(pct))
		q.Quo(q, big.NewInt(100)) // amounts are non-negative: Quo == floor
		out[d] = q
	}
	return out
}

func rat(i *big.Int) *big.Rat { return new(big.Rat).SetInt(i) }

var (
	ratScale = rat(scale)
	ratOne   = big.NewRat(1, 1)
)

func taxRat(t Tuple) *big.Rat {
	r, ok := new(big.Rat).SetString(t.Tax)
	if !ok {
		panic("bad tax " + t.Tax)
	}
	return r
}

// onlyTheseChanged reports the accounts other than the listed ones whose balance changed.
func othersChanged(from, to *snap, allowed map[string]bool) []string {
	var out []string
	for k := range unionKeys(from.bal, to.bal) {
		if allowed[k] {
			continue
		}
		if d := sub(to.balance(k), from.balance(k)); !d.isZero() {
			out = append(out, k+":"+d.String())
		}
	}
	sort.Strings(out)
	return out
}

// judgeOracle: "the configured percentage of the fee pool is allocated to oracle-active validators
// in proportion to their voting power ... with the community-tax share going to the community pool
// and rounding remainders to the proposer ...; inactive participants receive nothing".
func (wk *worker) judgeOracle(t Tuple, pre, post *snap, v *verdict) {
	pool := pre.balance(fcAddr)
	totalPower := int64(0)
	nActive := 0
	for i := range t.Powers {
		if t.OAct[i] {
			totalPower += t.Powers[i]
			nActive++
		}
	}
	dFC := sub(post.balance(fcAddr), pre.balance(fcAddr))
	dDistr := sub(post.balance(distrAddr), pre.balance(distrAddr))
	dPool := sub(post.pool, pre.pool)
	if oc := othersChanged(pre, post, map[string]bool{fcAddr: true, distrAddr: true}); len(oc) > 0 {
		v.violate("oracle-share-paid-outside-distribution", "oracle begin blocker changed balances of %v | tuple: %s", oc, t)
	}
	dOut := map[int]amt{}
	for i := range t.Powers {
		val := bandtesting.Validators[i].ValAddress.String()
		dOut[i] = sub(post.outstanding(val), pre.outstanding(val))
	}
	for k := range unionKeys(pre.out, post.out) {
		known := false
		for i := range t.Powers {
			if bandtesting.Validators[i].ValAddress.String() == k {
				known = true
			}
		}
		if d := sub(post.outstanding(k), pre.outstanding(k)); !known && !d.isZero() {
			v.violate("oracle-inactive-validator-paid", "validator %s outside the vote set got %s e-18 | tuple: %s", k, d, t)
		}
	}
	if totalPower == 0 {
		// nobody to reward: the oracle share must not be taken at all
		changed := !dFC.isZero() || !dDistr.isZero() || !dPool.isZero()
		for _, d := range dOut {
			changed = changed || !d.isZero()
		}
		if changed {
			v.violate("oracle-allocated-with-no-active-validator", "no oracle-active voting power, yet fee collector %s, distribution %s, community pool %s e-18 | tuple: %s", dFC, dDistr, dPool, t)
		}
		v.saw("oracle:none-active")
		return
	}
	share := pctOf(pool, t.OPct)
	if !eq(sub(amt{}, dFC), share) {
		v.violate("oracle-share-amount", "fee pool %s, percentage %d: expected %s to leave the fee collector, observed %s | tuple: %s", pool, t.OPct, share, sub(amt{}, dFC), t)
		return
	}
	if !eq(dDistr, share) {
		v.violate("oracle-share-paid-outside-distribution", "oracle share %s left the fee collector but the distribution account changed by %s | tuple: %s", share, dDistr, t)
		return
	}
	tax := taxRat(t)
	anyShare, remainderSeen, inactiveZero, propInactiveDust, jailedPaid := false, false, false, false, false
	for _, d := range denomsOf(share, dPool, dOut[0], dOut[1], dOut[2]) {
		O := rat(share.get(d))
		cp := new(big.Rat).Quo(rat(dPool.get(d)), ratScale) // community pool growth in coins
		// community-tax share, up to rounding of less than one base unit
		diff := new(big.Rat).Sub(cp, new(big.Rat).Mul(O, tax))
		if diff.Abs(diff).Cmp(ratOne) >= 0 || cp.Sign() < 0 {
			v.violate("oracle-community-tax", "denom %s: oracle share %s, tax %s: community pool grew by %s | tuple: %s", d, O.FloatString(0), t.Tax, cp.FloatString(18), t)
			continue
		}
		R := new(big.Rat).Sub(O, cp) // what is left for validators
		eps := new(big.Rat).Quo(new(big.Rat).Add(R, ratOne), ratScale)
		sum := new(big.Rat)
		for i := range t.Powers {
			got := new(big.Rat).Quo(rat(dOut[i].get(d)), ratScale)
			sum.Add(sum, got)
			exact := new(big.Rat)
			if t.OAct[i] {
				exact.Mul(R, big.NewRat(t.Powers[i], totalPower))
			}
			isProp := i == t.Prop
			short := new(big.Rat).Sub(exact, got) // how much less than the exact proportional share
			if t.Jailed[i] && t.OAct[i] && exact.Sign() > 0 && got.Sign() > 0 && short.Cmp(eps) <= 0 {
				jailedPaid = true
			}
			switch {
			case !t.OAct[i] && !isProp:
				if got.Sign() != 0 {
					v.violate("oracle-inactive-validator-paid", "denom %s: validator %d is not oracle-active and not the proposer but got %s | tuple: %s", d, i, got.FloatString(18), t)
				} else if R.Sign() > 0 {
					inactiveZero = true
				}
			case !isProp:
				if short.Sign() < 0 || short.Cmp(eps) > 0 {
					v.violate("oracle-not-proportional", "denom %s: validator %d (power %d of %d) should get %s of %s, got %s | tuple: %s", d, i, t.Powers[i], totalPower, exact.FloatString(18), R.FloatString(18), got.FloatString(18), t)
				}
			default: // proposer: own share (if active) plus all rounding remainders
				maxDust := new(big.Rat).Mul(eps, big.NewRat(int64(nActive), 1))
				if short.Cmp(eps) > 0 || new(big.Rat).Neg(short).Cmp(maxDust) > 0 {
					fp := "oracle-not-proportional"
					if !t.OAct[i] {
						fp = "oracle-inactive-validator-paid"
					}
					v.violate(fp, "denom %s: proposer %d (active %v, power %d of %d) should get %s plus rounding dust, got %s | tuple: %s", d, i, t.OAct[i], t.Powers[i], totalPower, exact.FloatString(18), got.FloatString(18), t)
				}
				if short.Sign() < 0 {
					remainderSeen = true
					if !t.OAct[i] {
						propInactiveDust = true
					}
				}
			}
		}
		if sum.Cmp(R) != 0 {
			v.violate("oracle-remainder-not-to-proposer", "denom %s: validators received %s in total, oracle share after tax is %s | tuple: %s", d, sum.FloatString(18), R.FloatString(18), t)
		}
		if O.Sign() > 0 {
			anyShare = true
		}
	}
	switch {
	case anyShare:
		v.saw("oracle:allocated")
		v.nontrivial = true
	default:
		v.saw("oracle:share-is-zero")
	}
	if remainderSeen {
		v.saw("oracle:rounding-remainder-to-proposer")
	}
	if inactiveZero {
		v.saw("oracle:inactive-validator-gets-0")
	}
	if propInactiveDust {
		v.saw("oracle:inactive-proposer-gets-only-dust")
	}
	if jailedPaid {
		v.saw("oracle:jailed-active-voter-paid")
	}
}

// judgeTss: "then the configured percentage of what remains is split equally among active
// current-group signing members that have a queued nonce, with the community-tax share going to
// the community pool and rounding remainders to the ... community pool; inactive participants
// receive nothing".
func (wk *worker) judgeTss(t Tuple, pre, post *snap, v *verdict) {
	pool := pre.balance(fcAddr)
	var valid, excluded []string
	for i := 0; i < t.Group.N; i++ {
		a := memberAccounts()[i].Address.String()
		if t.Group.Active[i] && t.Group.HasDE[i] {
			valid = append(valid, a)
		} else {
			excluded = append(excluded, a)
		}
	}
	dFC := sub(post.balance(fcAddr), pre.balance(fcAddr))
	dDistr := sub(post.balance(distrAddr), pre.balance(distrAddr))
	dPool := sub(post.pool, pre.pool)
	if !sub(post.sumOut(), pre.sumOut()).isZero() {
		v.violate("tss-validator-rewards-changed", "bandtss begin blocker changed validator outstanding rewards by %s e-18 | tuple: %s", sub(post.sumOut(), pre.sumOut()), t)
	}
	for _, a := range excluded {
		if d := sub(post.balance(a), pre.balance(a)); !d.isZero() {
			v.violate("tss-excluded-member-paid", "member %s (inactive or without queued nonce) received %s | tuple: %s", a, d, t)
		}
	}
	allowed := map[string]bool{fcAddr: true, distrAddr: true}
	incomingPaid := false
	for _, a := range t.Group.incomingOnly() {
		allowed[a] = true
		if d := sub(post.balance(a), pre.balance(a)); !d.isZero() {
			incomingPaid = true
			v.violate("tss-incoming-group-member-paid", "%s is a member of the incoming group only (hand-over not executed yet) but received %s | tuple: %s", a, d, t)
		}
	}
	for _, a := range valid {
		allowed[a] = true
	}
	for _, a := range excluded {
		allowed[a] = true // reported above
	}
	if oc := othersChanged(pre, post, allowed); len(oc) > 0 {
		v.violate("tss-share-paid-to-non-member", "bandtss begin blocker changed balances of %v | tuple: %s", oc, t)
	}
	if len(valid) == 0 {
		changed := !dFC.isZero() || !dDistr.isZero() || !dPool.isZero()
		if changed {
			v.violate("tss-allocated-with-no-valid-member", "no active member with a queued nonce, yet fee collector %s, distribution %s, community pool %s e-18 | tuple: %s", dFC, dDistr, dPool, t)
		}
		if t.Group.N == 0 {
			v.saw("tss:no-current-group")
		} else {
			v.saw("tss:no-valid-member")
		}
		return
	}
	share := pctOf(pool, t.TPct)
	if !eq(sub(amt{}, dFC), share) {
		v.violate("tss-share-amount", "remaining fee pool %s, percentage %d: expected %s to leave the fee collector, observed %s | tuple: %s", pool, t.TPct, share, sub(amt{}, dFC), t)
		return
	}
	tax := taxRat(t)
	n := big.NewRat(int64(len(valid)), 1)
	paidAny, dust := false, false
	first := sub(post.balance(valid[0]), pre.balance(valid[0]))
	for _, a := range valid[1:] {
		if d := sub(post.balance(a), pre.balance(a)); !eq(d, first) {
			v.violate("tss-unequal-split", "member %s received %s, member %s received %s | tuple: %s", valid[0], first, a, d, t)
		}
	}
	for _, d := range denomsOf(share, first, dPool, dDistr) {
		T := rat(share.get(d))
		mu := rat(first.get(d))
		exact := new(big.Rat).Mul(T, new(big.Rat).Sub(ratOne, tax))
		exact.Quo(exact, n)
		short := new(big.Rat).Sub(exact, mu)
		// whole coins only; fixed-point truncation of 1/n may cost up to (T+1)e-18 more
		tol := new(big.Rat).Add(ratOne, new(big.Rat).Quo(new(big.Rat).Add(T, ratOne), ratScale))
		if short.Sign() < 0 || short.Cmp(tol) >= 0 {
			v.violate("tss-member-share-size", "denom %s: tss share %s, tax %s, %d valid members: each should get %s rounded down, got %s | tuple: %s", d, T.FloatString(0), t.Tax, len(valid), exact.FloatString(18), mu.FloatString(0), t)
		}
		rest := new(big.Int).Sub(share.get(d), new(big.Int).Mul(first.get(d), big.NewInt(int64(len(valid)))))
		if dDistr.get(d).Cmp(rest) != 0 || dPool.get(d).Cmp(new(big.Int).Mul(rest, scale)) != 0 {
			v.violate("tss-remainder-not-to-community-pool", "denom %s: tss share %s, members got %d x %s, so %s must go to the community pool; distribution account changed by %s, community pool by %s e-18 | tuple: %s",
				d, share.get(d), len(valid), first.get(d), rest, dDistr.get(d), dPool.get(d), t)
		}
		if mu.Sign() > 0 {
			paidAny = true
		}
		if rat(rest).Cmp(new(big.Rat).Mul(T, tax)) > 0 {
			dust = true
		}
	}
	if paidAny {
		v.saw("tss:members-paid")
		v.nontrivial = true
		if len(excluded) > 0 {
			v.saw("tss:excluded-member-gets-0")
		}
		if t.Group.Incoming != "" && !incomingPaid {
			v.saw("tss:incoming-group-member-gets-0")
		}
		if t.Group.MaxSize > 0 {
			for i := int(t.Group.MaxSize); i < t.Group.N; i++ {
				if t.Group.Active[i] && t.Group.HasDE[i] {
					v.saw("tss:member-above-lowered-max-group-size-paid")
					break
				}
			}
		}
	} else {
		v.saw("tss:member-share-is-zero")
	}
	if dust {
		v.saw("tss:rounding-remainder-to-community-pool")
	}
}
