package c14

import (
	"encoding/json"
	"fmt"
	"runtime/debug"
	"strings"
	"sync/atomic"
	"time"

	"cosmossdk.io/core/appmodule"

	distrtypes "github.com/cosmos/cosmos-sdk/x/distribution/types"
	minttypes "github.com/cosmos/cosmos-sdk/x/mint/types"

	band "github.com/bandprotocol/chain/v3/app"
	bandtsstypes "github.com/bandprotocol/chain/v3/x/bandtss/types"
	oracletypes "github.com/bandprotocol/chain/v3/x/oracle/types"
	"github.com/bandprotocol/chain/v3/zzverif/engine"
)

// space is one cartesian product of alphabets; the explored space is a union of such products.
type space struct {
	Name   string     `json:"name"`
	Pools  []string   `json:"pool_uband"`
	Pools2 []string   `json:"pool_second_denom"`
	OPct   []uint64   `json:"oracle_pct"`
	TPct   []uint64   `json:"tss_pct"`
	Tax    []string   `json:"community_tax"`
	Mint   []bool     `json:"mint_on"`
	Powers [][3]int64 `json:"vote_powers"`
	Prop   []int      `json:"proposer"`
	OAct   [][3]bool  `json:"oracle_active"`
	Groups []GroupCfg `json:"-"`
	GroupN string     `json:"groups"`
	// Discarded: before the block, the state-changing messages that would flip each "off" flag of the tuple (and parameter
	// updates with other percentages) are executed by the real handlers on a branch that is thrown away
	Discarded bool `json:"discarded_executions,omitempty"`
	// Jailed: which of the voting validators were jailed in x/staking just before the block (nil = nobody)
	Jailed [][3]bool `json:"jailed_in_staking,omitempty"`
}

func (s space) jailed() [][3]bool {
	if len(s.Jailed) == 0 {
		return [][3]bool{{}}
	}
	return s.Jailed
}

// dimension order: fastest first; the two dimensions that select the base state are the slowest so
// that a worker's cache of base states is hit.
func (s space) odometer() engine.Odometer {
	return engine.Odometer{Sizes: []int{len(s.Pools), len(s.Pools2), len(s.OPct), len(s.TPct), len(s.Tax), len(s.Mint),
		len(s.Powers), len(s.Prop), len(s.jailed()), len(s.OAct), len(s.Groups)}}
}

func (s space) tuple(d []int) Tuple {
	return Tuple{Pool: s.Pools[d[0]], Pool2: s.Pools2[d[1]], OPct: s.OPct[d[2]], TPct: s.TPct[d[3]], Tax: s.Tax[d[4]], Mint: s.Mint[d[5]],
		Powers: s.Powers[d[6]], Prop: s.Prop[d[7]], Jailed: s.jailed()[d[8]], OAct: s.OAct[d[9]], Group: s.Groups[d[10]], Discarded: s.Discarded}
}

func inS[T comparable](xs []T, x T) bool {
	for _, y := range xs {
		if y == x {
			return true
		}
	}
	return false
}

// contains reports whether the tuple is a point of this product (used to count every distinct
// tuple once although the products overlap).
func (s space) contains(t Tuple) bool {
	g := false
	for _, x := range s.Groups {
		if x.key() == t.Group.key() {
			g = true
		}
	}
	return g && s.Discarded == t.Discarded && inS(s.Pools, t.Pool) && inS(s.Pools2, t.Pool2) && inS(s.OPct, t.OPct) && inS(s.TPct, t.TPct) && inS(s.Tax, t.Tax) &&
		inS(s.Mint, t.Mint) && inS(s.Powers, t.Powers) && inS(s.Prop, t.Prop) && inS(s.OAct, t.OAct) && inS(s.jailed(), t.Jailed)
}

func powerVectors(alpha []int64) [][3]int64 {
	var out [][3]int64
	for _, a := range alpha {
		for _, b := range alpha {
			for _, c := range alpha {
				out = append(out, [3]int64{c, b, a})
			}
		}
	}
	return out
}

func allFlags3() [][3]bool {
	var out [][3]bool
	// simplest first: all active, then the others
	for m := 7; m >= 0; m-- {
		out = append(out, [3]bool{m&1 != 0, m&2 != 0, m&4 != 0})
	}
	return out
}

// groupConfigs lists every (active, has-nonce) flag assignment for every member count in ns
// (0 = no current group).
func groupConfigs(ns ...int) []GroupCfg {
	var out []GroupCfg
	for _, n := range ns {
		if n == 0 {
			out = append(out, GroupCfg{N: 0, Active: []bool{}, HasDE: []bool{}})
			continue
		}
		for m := (1 << (2 * n)) - 1; m >= 0; m-- {
			g := GroupCfg{N: n}
			for i := 0; i < n; i++ {
				g.Active = append(g.Active, m&(1<<(2*i)) != 0)
				g.HasDE = append(g.HasDE, m&(1<<(2*i+1)) != 0)
			}
			out = append(out, g)
		}
	}
	return out
}

// refilled returns the configurations with the queue-history flag set.
// jailedSets lists every non-empty subset of the three validators.
func jailedSets() [][3]bool {
	var out [][3]bool
	for m := 1; m < 8; m++ {
		out = append(out, [3]bool{m&1 != 0, m&2 != 0, m&4 != 0})
	}
	return out
}

// maxSizeLowered lists, for every given shape with n >= 2 members, the variants with tss MaxGroupSize lowered to 1..n-1.
func maxSizeLowered(gs []GroupCfg) []GroupCfg {
	var out []GroupCfg
	for _, g := range gs {
		for c := 1; c < g.N; c++ {
			x := g
			x.MaxSize = uint64(c)
			out = append(out, x)
		}
	}
	return out
}

// withIncoming lists every given shape (n >= 1) with a disjoint and with an overlapping incoming group waiting for execution.
func withIncoming(gs []GroupCfg) []GroupCfg {
	var out []GroupCfg
	for _, kind := range []string{"disjoint", "overlap"} {
		for _, g := range gs {
			if g.N > 0 {
				g.Incoming = kind
				out = append(out, g)
			}
		}
	}
	return out
}

func refilled(gs []GroupCfg) []GroupCfg {
	var out []GroupCfg
	for _, g := range gs {
		if g.N > 0 {
			g.Refilled = true
			out = append(out, g)
		}
	}
	return out
}

var (
	pct6   = []uint64{0, 1, 33, 50, 99, 100}
	tax4   = []string{"0", "0.02", "0.5", "1"}
	tax5   = []string{"0", "0.02", "0.5", "1", "0.333333333333333333"}
	poolsQ = []string{"0", "1", "2", "3", "99", "1000001", "1000000000000000007"}
	poolsT = []string{"0", "1", "2", "3", "99", "100", "1000001", "1000000000000000000", "1000000000000000007"}
	poolsX = []string{"0", "1", "2", "3", "7", "99", "100", "101", "1000000", "1000001", "1000000000000000000", "1000000000000000007", "3000000000000000000"}
	bothOn = GroupCfg{N: 2, Active: []bool{true, true}, HasDE: []bool{true, true}}
)

func spaces(quick bool) []space {
	on3 := [3]bool{true, true, true}
	one := "one group of 2 valid members"
	if quick {
		return []space{
			{Name: "discarded-executions", Discarded: true, Pools: []string{"3", "1000001"}, Pools2: []string{"", "5"}, OPct: []uint64{33}, TPct: []uint64{33}, Tax: []string{"0.02"}, Mint: []bool{false},
				Powers: [][3]int64{{1, 2, 10}}, Prop: []int{0, 2}, OAct: allFlags3(), Groups: groupConfigs(0, 1, 2), GroupN: "no group; 1,2 members x all flags"},
			{Name: "tss-refilled-queues", Pools: []string{"3", "1000001"}, Pools2: []string{"", "5"}, OPct: []uint64{0, 33}, TPct: []uint64{1, 33, 100}, Tax: []string{"0.02"}, Mint: []bool{false},
				Powers: [][3]int64{{1, 2, 10}}, Prop: []int{0}, OAct: [][3]bool{on3}, Groups: refilled(groupConfigs(1, 2, 3)), GroupN: "1,2,3 members x all (active,nonce) flags, queues refilled after a signing consumed the first nonces"},
			{Name: "tss-max-group-size-lowered", Pools: []string{"1000001"}, Pools2: []string{"", "5"}, OPct: []uint64{0}, TPct: []uint64{33, 100}, Tax: []string{"0.02"}, Mint: []bool{false},
				Powers: [][3]int64{{1, 2, 10}}, Prop: []int{0}, OAct: [][3]bool{on3}, Groups: maxSizeLowered(groupConfigs(2, 3)), GroupN: "2,3 members x all (active,nonce) flags x tss MaxGroupSize lowered to 1..n-1 after the group exists"},
			{Name: "tss-incoming-group-waiting", Pools: []string{"1000001"}, Pools2: []string{"", "5"}, OPct: []uint64{0}, TPct: []uint64{33, 100}, Tax: []string{"0.02"}, Mint: []bool{false},
				Powers: [][3]int64{{1, 2, 10}}, Prop: []int{0}, OAct: [][3]bool{on3}, Groups: withIncoming(groupConfigs(1, 2)), GroupN: "1,2 members x all flags x forced hand-over to a disjoint / overlapping second group waiting for execution"},
			{Name: "oracle-jailed-voters", Jailed: jailedSets(), Pools: []string{"3", "1000001"}, Pools2: []string{""}, OPct: []uint64{33, 100}, TPct: []uint64{50}, Tax: []string{"0.02"}, Mint: []bool{false},
				Powers: powerVectors([]int64{1, 3, 10}), Prop: []int{0, 1, 2}, OAct: allFlags3(), Groups: []GroupCfg{bothOn}, GroupN: one},
			{Name: "oracle", Pools: poolsQ, Pools2: []string{""}, OPct: pct6, TPct: []uint64{50}, Tax: tax4, Mint: []bool{false},
				Powers: powerVectors([]int64{1, 3, 10}), Prop: []int{0, 1, 2}, OAct: allFlags3(), Groups: []GroupCfg{bothOn}, GroupN: one},
			{Name: "oracle-multidenom-mint", Pools: []string{"3", "1000001"}, Pools2: []string{"5"}, OPct: []uint64{1, 33, 100}, TPct: []uint64{50}, Tax: []string{"0.02", "0.5"}, Mint: []bool{false, true},
				Powers: powerVectors([]int64{1, 3, 10}), Prop: []int{0, 1, 2}, OAct: allFlags3(), Groups: []GroupCfg{bothOn}, GroupN: one},
			{Name: "tss", Pools: []string{"0", "1", "3", "99", "1000001", "1000000000000000007"}, Pools2: []string{"", "5"}, OPct: []uint64{0, 33}, TPct: pct6, Tax: tax4, Mint: []bool{false},
				Powers: [][3]int64{{1, 2, 10}}, Prop: []int{0}, OAct: [][3]bool{on3}, Groups: groupConfigs(0, 1, 2, 3), GroupN: "no group; 1,2,3 members x all (active,nonce) flags"},
			{Name: "cross", Pools: []string{"3", "1000001"}, Pools2: []string{"", "5"}, OPct: []uint64{0, 33, 100}, TPct: []uint64{0, 33, 100}, Tax: []string{"0.02"}, Mint: []bool{false, true},
				Powers: [][3]int64{{1, 2, 10}}, Prop: []int{0}, OAct: allFlags3(), Groups: groupConfigs(0, 1, 2), GroupN: "no group; 1,2 members x all flags"},
		}
	}
	// thorough: the smaller products first so that an internal time cap can only cut the largest one
	return []space{
		{Name: "discarded-executions", Discarded: true, Pools: []string{"3", "99", "1000001"}, Pools2: []string{"", "5"}, OPct: []uint64{0, 33, 100}, TPct: []uint64{0, 33, 100}, Tax: []string{"0.02"}, Mint: []bool{false, true},
			Powers: [][3]int64{{1, 1, 1}, {1, 2, 10}}, Prop: []int{0, 1, 2}, OAct: allFlags3(), Groups: groupConfigs(0, 1, 2, 3), GroupN: "no group; 1,2,3 members x all flags"},
		{Name: "tss-refilled-queues", Pools: []string{"3", "99", "1000001"}, Pools2: []string{"", "5"}, OPct: []uint64{0, 33, 100}, TPct: pct6, Tax: []string{"0", "0.02"}, Mint: []bool{false, true},
			Powers: [][3]int64{{1, 2, 10}}, Prop: []int{0}, OAct: [][3]bool{on3}, Groups: refilled(groupConfigs(1, 2, 3)), GroupN: "1,2,3 members x all (active,nonce) flags, queues refilled after a signing consumed the first nonces"},
		{Name: "tss-max-group-size-lowered", Pools: []string{"3", "99", "1000001"}, Pools2: []string{"", "5"}, OPct: []uint64{0, 33}, TPct: pct6, Tax: []string{"0", "0.02"}, Mint: []bool{false, true},
			Powers: [][3]int64{{1, 2, 10}}, Prop: []int{0}, OAct: [][3]bool{on3}, Groups: maxSizeLowered(groupConfigs(2, 3)), GroupN: "2,3 members x all (active,nonce) flags x tss MaxGroupSize lowered to 1..n-1 after the group exists"},
		{Name: "tss-incoming-group-waiting", Pools: []string{"3", "99", "1000001"}, Pools2: []string{"", "5"}, OPct: []uint64{0, 33}, TPct: pct6, Tax: []string{"0", "0.02"}, Mint: []bool{false, true},
			Powers: [][3]int64{{1, 2, 10}}, Prop: []int{0}, OAct: [][3]bool{on3}, Groups: withIncoming(groupConfigs(1, 2, 3)), GroupN: "1,2,3 members x all flags x forced hand-over to a disjoint / overlapping second group waiting for execution"},
		{Name: "oracle-jailed-voters", Jailed: jailedSets(), Pools: []string{"3", "99", "1000001", "1000000000000000007"}, Pools2: []string{"", "5"}, OPct: []uint64{1, 33, 100}, TPct: []uint64{50}, Tax: []string{"0", "0.02", "0.5"}, Mint: []bool{false, true},
			Powers: powerVectors([]int64{1, 3, 10}), Prop: []int{0, 1, 2}, OAct: allFlags3(), Groups: []GroupCfg{bothOn}, GroupN: one},
		{Name: "tss", Pools: poolsX, Pools2: []string{"", "1", "5", "1000003"}, OPct: []uint64{0, 1, 33, 99, 100}, TPct: pct6, Tax: tax5, Mint: []bool{false, true},
			Powers: [][3]int64{{1, 2, 10}}, Prop: []int{0}, OAct: [][3]bool{on3}, Groups: groupConfigs(0, 1, 2, 3), GroupN: "no group; 1,2,3 members x all (active,nonce) flags"},
		{Name: "cross", Pools: []string{"3", "99", "1000001", "1000000000000000007"}, Pools2: []string{"", "5"}, OPct: []uint64{0, 33, 50, 100}, TPct: []uint64{0, 33, 50, 100}, Tax: []string{"0", "0.02", "1"}, Mint: []bool{false, true},
			Powers: [][3]int64{{1, 1, 1}, {1, 2, 10}, {3, 3, 1}}, Prop: []int{0, 1, 2}, OAct: allFlags3(), Groups: groupConfigs(0, 1, 2), GroupN: "no group; 1,2 members x all flags"},
		{Name: "oracle-large-power", Pools: poolsX, Pools2: []string{"", "5"}, OPct: pct6, TPct: []uint64{50}, Tax: tax5, Mint: []bool{false},
			Powers: powerVectors([]int64{1, 333333333, 1000000000000}), Prop: []int{0, 1, 2}, OAct: allFlags3(), Groups: []GroupCfg{bothOn}, GroupN: one},
		{Name: "oracle", Pools: poolsT, Pools2: []string{"", "5"}, OPct: pct6, TPct: []uint64{50}, Tax: tax5, Mint: []bool{false, true},
			Powers: powerVectors([]int64{0, 1, 2, 3, 10}), Prop: []int{0, 1, 2}, OAct: allFlags3(), Groups: []GroupCfg{bothOn}, GroupN: one},
	}
}

func checkOrder(wk *worker) (ok bool, order []string) {
	mm := band.VerifC14ModuleManager(wk.w.App)
	idx := map[string]int{}
	for _, name := range mm.OrderBeginBlockers {
		if _, has := mm.Modules[name].(appmodule.HasBeginBlocker); has {
			idx[name] = len(order) + 1
			order = append(order, name)
		}
	}
	m, o, b, d := idx[minttypes.ModuleName], idx[oracletypes.ModuleName], idx[bandtsstypes.ModuleName], idx[distrtypes.ModuleName]
	return m > 0 && m < o && o < b && b < d, order
}

func run(r *engine.Run) {
	r.Level = "exploration"
	r.Bound = "3 bonded validators, all voting, proposer any of them; current bandtss group absent or with 1..3 members; union of cartesian products listed in coverage.configs. " +
		"quick: oracle{pool uband 0,1,2,3,99,10^6+1,10^18+7; powers {1,3,10}^3; all 2^3 oracle-active sets; 3 proposers; oracle pct 0,1,33,50,99,100; tax 0,0.02,0.5,1; mint off} + " +
		"oracle-multidenom-mint{2 pools x second denom, mint off/on, same powers/flags/proposers} + " +
		"tss{6 pools x optional second denom; no group and every (active,has-nonce) assignment for 1,2,3 members (85 shapes); tss pct 0,1,33,50,99,100; oracle pct 0,33; 4 taxes} + " +
		"cross{2 pools x optional second denom x oracle pct 0,33,100 x tss pct 0,33,100 x mint off/on x all oracle-active sets x all shapes with <=2 members} + " +
		"oracle-jailed-voters{every non-empty subset of the voting validators jailed in x/staking just before the block (no validator-set update yet) x powers {1,3,10}^3 x all oracle-active sets x 3 proposers} + " +
		"tss-max-group-size-lowered{2,3 members x all flags x tss MaxGroupSize lowered by MsgUpdateParams to 1..n-1 after the group exists} + " +
		"tss-incoming-group-waiting{1,2 members x all flags x forced hand-over to a disjoint / overlapping second group waiting for execution} + " +
		"discarded-executions and tss-refilled-queues (see coverage.configs). " +
		"thorough: the same four products over larger alphabets (13 pool amounts up to 3*10^18, second denom 1,5,10^6+3, tax also 0.333333333333333333, powers {0,1,2,3,10}^3 and {1,333333333,10^12}^3, 3 proposers everywhere)"
	r.Rule = "one evaluation = one tuple executed on the real whole-app BeginBlocker and on its module-by-module twin; tuples are enumerated by an odometer over each product, every index is executed; " +
		"a tuple is non-trivial when the oracle share or the per-member tss payment is non-zero in some denom; distinct_nontrivial counts non-trivial tuples, a tuple lying in several products counted once"
	r.Assumptions = []string{
		"votes are given: every vote refers to a validator known to staking (bonded, or in product oracle-jailed-voters jailed by StakingKeeper.Jail - the call x/slashing and x/evidence make - with the set update not yet in effect), BlockIDFlagCommit, powers from the alphabet (not tied to staking power); the proposer is one of the three validators",
		"reward percentages within 0..100 and community tax within 0..1 as quantified (out-of-range parameters are C02's subject)",
		"share amounts: 'configured percentage' is taken as floor(pool*pct/100) per denom (anchors: trunc); the community-tax part is required only up to rounding of less than one base unit; proportional parts only up to the 18-digit fixed-point truncation; the rest is exact",
		"the SDK distribution module's own allocation (after the two shares) is judged only for conservation and for backing of its records, not for its split",
		"bandtss members are deactivated through the keeper function the module itself uses (no message exists); everything else in the base states goes through message handlers and block boundaries",
		"mint provision is the only permitted supply change; its amount is read from the mint event of the whole-app execution",
	}
	r.Required = []string{
		"oracle:allocated", "oracle:none-active", "oracle:share-is-zero", "oracle:rounding-remainder-to-proposer", "oracle:inactive-validator-gets-0",
		"oracle:inactive-proposer-gets-only-dust", "oracle:jailed-active-voter-paid",
		"tss:incoming-group-member-gets-0", "tss:member-above-lowered-max-group-size-paid",
		"tss:members-paid", "tss:no-current-group", "tss:no-valid-member", "tss:excluded-member-gets-0", "tss:rounding-remainder-to-community-pool",
		"tss:member-share-is-zero", "pool:multi-denom", "mint:on", "mint:off", "begin-block-order:mint<oracle<bandtss<distribution",
	}
	debug.SetGCPercent(400) // the SDK iterators allocate heavily; memory is not a constraint here
	nw := engine.DefaultWorkers()
	workers := make([]*worker, nw)
	for i := range workers {
		workers[i] = newWorker()
	}
	if ok, order := checkOrder(workers[0]); !ok {
		r.Violate(nil, []string{"order"}, "begin-block-order", "statement requires mint, then oracle share, then tss share of what remains, then distribution; application order of begin blockers is %v", order)
		return
	} else {
		r.Outcomes["begin-block-order:mint<oracle<bandtss<distribution"]++
		r.Notes = append(r.Notes, "begin blockers in application order: "+strings.Join(order, ","))
	}
	// internal time cap (never a failure): every product gets a share of the cap proportional to its
	// size, unused time rolls over to the later products
	started := time.Now()
	capTotal := time.Until(r.Deadline(5*time.Minute, 40*time.Minute))
	tally := engine.NewTally()
	sps := spaces(r.Quick())
	var nontrivial int64
	var all, cum int64
	for _, sp := range sps {
		all += sp.odometer().Total()
	}
	for si, sp := range sps {
		od := sp.odometer()
		total := od.Total()
		cum += total
		deadline := started.Add(time.Duration(float64(capTotal) * float64(cum) / float64(all)))
		// small products (and the construction of their base states) get at least a minute, within the overall cap
		if min := time.Now().Add(time.Minute); deadline.Before(min) {
			deadline = min
		}
		if overall := started.Add(capTotal); deadline.After(overall) {
			deadline = overall
		}
		var done int64
		complete := engine.ParallelFor(total, nw, deadline, func(wi int, idx int64) {
			if tally.Violations() >= 8 {
				return // enough counterexamples; the run fails anyway
			}
			var buf [11]int
			t := sp.tuple(od.Digits(idx, buf[:0]))
			for _, earlier := range sps[:si] {
				if earlier.contains(t) {
					atomic.AddInt64(&done, 1)
					return // already executed as a point of an earlier product
				}
			}
			v := workers[wi].evaluate(t, idx%257 == 0)
			tally.Eval()
			atomic.AddInt64(&done, 1)
			for _, l := range v.labels {
				tally.Saw(l)
			}
			if v.nontrivial {
				atomic.AddInt64(&nontrivial, 1)
			}
			if idx%(total/3+1) == 1 {
				tally.Sample(16, map[string]any{"space": sp.Name, "index": idx, "tuple": t, "observed": v.labels})
			}
			for _, x := range v.viol {
				tally.Violate(t, []string{sp.Name, fmt.Sprint(idx)}, x.Fingerprint, x.Detail)
			}
		})
		complete = complete || atomic.LoadInt64(&done) == total // the cap may expire while the last chunk is running
		r.Configs = append(r.Configs, map[string]any{"space": sp, "tuples": total, "executed_or_deduplicated": atomic.LoadInt64(&done), "complete": complete})
		fmt.Printf("[C14] space %-18s tuples=%d done=%d complete=%v evals=%d violations=%d\n", sp.Name, total, done, complete, atomic.LoadInt64(&tally.Evals), tally.Violations())
		if !complete {
			r.Exhaustive = false
			r.CapReasons = append(r.CapReasons, fmt.Sprintf("space %s: internal time cap reached after %d of %d tuples", sp.Name, done, total))
		}
		if tally.Violations() > 0 {
			break
		}
	}
	tally.MergeInto(r)
	r.Distinct += int(nontrivial)
	// confirm every distinct fingerprint twice on fresh worlds.  The workers evaluate many tuples on one application, each on
	// a branch that is thrown away; a violation that a fresh application does not show can therefore only come from state the
	// implementation keeps outside the stores.  Such a record is not reported: the "discarded-executions" product contains the
	// same situation as an explicit, reproducible tuple.  If nothing reproduces the divergence is a harness error.
	seen := map[string]bool{}
	drop := map[string]bool{}
	reproduced := 0
	var firstBad string
	for _, fv := range r.Violations {
		if seen[fv.Fingerprint] || len(seen) >= 8 {
			continue
		}
		seen[fv.Fingerprint] = true
		t, ok := fv.Config.(Tuple)
		if !ok {
			continue
		}
		for k := 0; k < 2; k++ {
			v := newWorker().evaluate(t, true)
			found := false
			for _, x := range v.viol {
				found = found || x.Fingerprint == fv.Fingerprint
			}
			if !found {
				if k == 1 {
					engine.Fatal3("HARNESS-NONDETERMINISM: violation %q on tuple %s reproduced on the first replay but not on the second", fv.Fingerprint, t)
				}
				drop[fv.Fingerprint] = true
				if firstBad == "" {
					firstBad = fmt.Sprintf("violation %q on tuple %s did not reproduce on replay", fv.Fingerprint, t)
				}
				break
			}
			if k == 1 {
				reproduced++
			}
		}
	}
	if len(drop) > 0 {
		if reproduced == 0 {
			engine.Fatal3("HARNESS-NONDETERMINISM: %s", firstBad)
		}
		var keep []engine.FoundViolation
		for _, fv := range r.Violations {
			if !drop[fv.Fingerprint] {
				keep = append(keep, fv)
			}
		}
		r.Violations = keep
		r.Notes = append(r.Notes, "not reported (unreproducible on a fresh application, consequence of state kept outside the stores): "+firstBad)
	}
}

func init() {
	engine.Register(&engine.Check{
		ID:  "C14",
		Run: run,
		Replay: func(raw json.RawMessage, path []string) (engine.StepResult, []string) {
			var st engine.StepResult
			wk := newWorker()
			if len(path) == 1 && path[0] == "order" {
				if ok, order := checkOrder(wk); !ok {
					st.Violate("begin-block-order", "application order of begin blockers is %v", order)
				}
				return st, []string{"order"}
			}
			var t Tuple
			if err := json.Unmarshal(raw, &t); err != nil {
				panic(err)
			}
			v := wk.evaluate(t, true)
			st.Violations = v.viol
			st.Outcomes = v.labels
			outs := make([]string, len(path))
			if len(outs) > 0 {
				outs[len(outs)-1] = strings.Join(v.labels, " ")
			}
			return st, outs
		},
	})
}
