// Package c15 checks property C15: validators are oracle-active only after explicitly activating,
// can re-activate only once the inactivity penalty has elapsed, and are deactivated only for a
// genuine miss (oracle: an expired request without their report although they were active before
// the request was made; feeds: a current feed without a sufficiently recent price once every grace
// period and block-height fallback is over).
//
// Engine: kvmc.  The real oracle / feeds / restake keepers are driven through the message router
// and the whole-app End/BeginBlocker; a boring reference model of the four clocks (written from the
// statement and x/feeds/README.md) is stepped in lock-step and decides whether every observed
// status change is permitted.
package c15

import (
	"encoding/json"
	"fmt"
	"sort"
	"strconv"
	"strings"
	"time"

	sdk "github.com/cosmos/cosmos-sdk/types"
	sdkaddress "github.com/cosmos/cosmos-sdk/types/address"

	"github.com/bytecodealliance/wasmtime-go/v20"

	bandtesting "github.com/bandprotocol/chain/v3/testing"
	feedstypes "github.com/bandprotocol/chain/v3/x/feeds/types"
	oracletypes "github.com/bandprotocol/chain/v3/x/oracle/types"
	restaketypes "github.com/bandprotocol/chain/v3/x/restake/types"
	"github.com/bandprotocol/chain/v3/zzverif/engine"
)

// ---- constants of every configuration (DESIGN.md C15) -----------------------------------------

const (
	grace       = int64(6)  // feeds GracePeriod, seconds
	minInterval = int64(6)  // feeds MinInterval
	maxInterval = int64(12) // feeds MaxInterval: power 1 -> 12 s, power >=2 -> 6 s
	powerStep   = int64(1)  // feeds PowerStepThreshold
	penalty     = int64(10) // oracle InactivePenaltyDuration, seconds
	updateEvery = int64(4)  // feeds CurrentFeedsUpdateInterval, blocks
	cooldown    = int64(1)  // feeds CooldownTime (smallest accepted value)
	// guaranteed block time used by the block-height fallback (x/feeds/types/constant.go and README)
	guaranteeBlockTime = int64(3)
	nVals              = 4 // the three bonded validators and one operator with a 32-byte address (index 3)
	nBonded            = 3
	// every time in the reference model is a full-precision unix time in nanoseconds
	sec = int64(time.Second)
)

// ts prints a model time as unix seconds (with milliseconds when it is not on a whole second).
func ts(ns int64) string {
	if ns%sec == 0 {
		return strconv.FormatInt(ns/sec, 10)
	}
	return fmt.Sprintf("%d.%03d", ns/sec, (ns%sec)/int64(time.Millisecond))
}

func (p pRec) String() string { return fmt.Sprintf("{%s h%d}", ts(p.T), p.H) }

type sig struct {
	ID string
	P  int64
}

// voteMenu: what the single voter (Alice, 5 uband restaked) may have standing.
var voteMenu = [][]sig{
	0: {},                   // no current feed at all
	1: {{"A", 1}},           // A every 12 s
	2: {{"A", 2}},           // A every 6 s
	3: {{"A", 1}, {"B", 2}}, // A every 12 s, B every 6 s
	4: {{"B", 1}},           // A leaves the list, B (12 s) enters
	// ranking swap without a change of the number of feeds (used with max interval 24 s: power 2 ->
	// 12 s, power 3 -> 8 s): the list is ordered by power, so 5 -> 6 reorders [B,A] into [A,B]
	5: {{"A", 2}, {"B", 3}},
	6: {{"A", 3}, {"B", 2}},
}

// Cfg is one configuration (one search).
type Cfg struct {
	Name     string  `json:"name"`
	Vals     []int   `json:"validators"`                            // validators the alphabet acts on
	PreAct   []int   `json:"pre_activated"`                         // activated in the base state (at its block time)
	PrePrice []int   `json:"pre_priced,omitempty"`                  // of those: submitted a price for every current feed in the base state
	MaxIv    int64   `json:"max_interval,omitempty"`                // feeds MaxInterval; 0 = 12 s
	UpdEvery int64   `json:"update_interval_blocks,omitempty"`      // feeds CurrentFeedsUpdateInterval; 0 = 4 blocks
	TsOffs   []int64 `json:"price_msg_timestamp_offsets,omitempty"` // events "pricets:v:off": all feeds, message timestamp = block time + off s
	Penalty  int64   `json:"penalty_seconds,omitempty"`             // oracle InactivePenaltyDuration; 0 = 10 s
	BaseMs   int64   `json:"base_offset_ms,omitempty"`              // sub-second part of the base state's block time (last base block is 3 s + this)
	DtsMs    []int64 `json:"block_dt_milliseconds,omitempty"`       // additional block events "blockms:N"
	InitVote int     `json:"initial_vote"`                          // index into voteMenu, current at the base state
	Votes    []int   `json:"votes"`                                 // vote events offered
	Phase    int     `json:"phase"`                                 // extra 3-second blocks after the base update block (height 4)
	Exp      uint64  `json:"expiration_blocks"`
	MaxReq   int     `json:"max_requests"`
	MaxVote  int     `json:"max_votes"`
	MaxPrice int     `json:"max_price_msgs"`
	Dts      []int64 `json:"block_dt_seconds"`
	PriceOne bool    `json:"price_subset_event"`
	Depth    int     `json:"depth"`
	// Trap: requests use an oracle script whose execute traps, so every request that reaches min_count is resolved as
	// FAILURE in that block and then waits for its expiry (reports must still protect their validators there)
	Trap bool `json:"failing_script,omitempty"`
}

// watTrap asks two data sources in prepare and traps in execute.
const watTrap = `
(module
	(type $t0 (func))
	(type $t1 (func (param i64 i64 i64 i64)))
	(import "env" "ask_external_data" (func $ask_external_data (type $t1)))
	(func $prepare (export "prepare") (type $t0)
	  i64.const 5
	  i64.const 2
	  i64.const 1024
	  i64.const 4
	  call $ask_external_data
	  i64.const 9
	  i64.const 1
	  i64.const 1024
	  i64.const 4
	  call $ask_external_data)
	(func $execute (export "execute") (type $t0)
	  unreachable)
	(memory $memory (export "memory") 17)
	(data (i32.const 1024) "test"))`

type spec struct {
	cfg    Cfg
	script uint64 // oracle script requested by "req" (1, or the trapping script of a Trap configuration)
}

func (s *spec) Config() any { return s.cfg }

// ---- reference model --------------------------------------------------------------------------

type pRec struct{ T, H int64 } // last accepted submission of one signal: block time, block height

type vState struct {
	Active    bool
	Since     int64 // time of the last change (unix ns); meaningful when Active or EverDeact
	EverDeact bool
	DeactAt   int64
	Prices    map[string]pRec
}

type mReq struct {
	ID       uint64
	Time     int64
	Height   int64
	Chosen   []int // given: committee selection is C09's subject
	EIDs     []uint64
	Reported map[int]bool
}

type feed struct {
	ID       string
	Interval int64
}

type model struct {
	V        [nVals]vState
	Reqs     []*mReq // live (not yet expired) requests in id order
	NReq     int
	NVote    int
	NPrice   int
	Vote     int    // standing vote (menu index)
	Feeds    []feed // current feed list as of the last update block, sorted by id
	LastUpdT int64
	LastUpdH int64
}

func (m *model) Clone() engine.Model {
	c := *m
	for i := range m.V {
		c.V[i].Prices = map[string]pRec{}
		for k, v := range m.V[i].Prices {
			c.V[i].Prices[k] = v
		}
	}
	c.Reqs = nil
	for _, r := range m.Reqs {
		cr := *r
		cr.Reported = map[int]bool{}
		for k, v := range r.Reported {
			cr.Reported[k] = v
		}
		c.Reqs = append(c.Reqs, &cr)
	}
	c.Feeds = append([]feed(nil), m.Feeds...)
	return &c
}

func (m *model) Key() string {
	var sb strings.Builder
	for i := range m.V {
		v := &m.V[i]
		fmt.Fprintf(&sb, "v%d:%v:%d:%v:%d[", i, v.Active, v.Since, v.EverDeact, v.DeactAt)
		ids := make([]string, 0, len(v.Prices))
		for id := range v.Prices {
			ids = append(ids, id)
		}
		sort.Strings(ids)
		for _, id := range ids {
			fmt.Fprintf(&sb, "%s@%d/%d,", id, v.Prices[id].T, v.Prices[id].H)
		}
		sb.WriteString("]")
	}
	for _, r := range m.Reqs {
		rep := make([]int, 0, len(r.Reported))
		for k := range r.Reported {
			rep = append(rep, k)
		}
		sort.Ints(rep)
		fmt.Fprintf(&sb, "r%d:%d:%d:%v:%v|", r.ID, r.Time, r.Height, r.Chosen, rep)
	}
	fmt.Fprintf(&sb, "n%d/%d/%d vote%d feeds%v upd%d/%d", m.NReq, m.NVote, m.NPrice, m.Vote, m.Feeds, m.LastUpdT, m.LastUpdH)
	return sb.String()
}

// feedsFromVote: README "Feed Interval": a signal is a current feed when its total power reaches
// PowerStepThreshold; interval = max(MinInterval, floor(MaxInterval / floor(power/step))).
// pen is the inactivity penalty of this configuration in nanoseconds.
func (s *spec) pen() int64 {
	if s.cfg.Penalty > 0 {
		return s.cfg.Penalty * sec
	}
	return penalty * sec
}

func (s *spec) upd() int64 {
	if s.cfg.UpdEvery > 0 {
		return s.cfg.UpdEvery
	}
	return updateEvery
}

func (s *spec) maxIv() int64 {
	if s.cfg.MaxIv > 0 {
		return s.cfg.MaxIv
	}
	return maxInterval
}

func (s *spec) feedsFromVote(vote int) []feed {
	var out []feed
	for _, x := range voteMenu[vote] {
		if x.P < powerStep {
			continue
		}
		iv := s.maxIv() / (x.P / powerStep)
		if iv < minInterval {
			iv = minInterval
		}
		out = append(out, feed{ID: x.ID, Interval: iv})
	}
	sort.Slice(out, func(i, j int) bool { return out[i].ID < out[j].ID })
	return out
}

// feedClauses lists, for one current feed and one active validator at a block end (time now,
// height h), the clauses of the statement that still protect the validator.  Empty = genuine miss.
//
//	activation-grace     now has not passed since+grace
//	update-grace-time    now has not passed lastUpdate+grace
//	update-grace-blocks  height has not passed lastUpdateBlock + grace/3 (slow-block fallback)
//	price-time           the validator's last price is not older than the feed interval
//	price-blocks         ... by the block-height fallback (interval/3 blocks)
func (m *model) feedClauses(f feed, v *vState, now, h int64) []string {
	var c []string
	if !(now > v.Since+grace*sec) {
		c = append(c, "activation-grace")
	}
	if !(now > m.LastUpdT+grace*sec) {
		c = append(c, "update-grace-time")
	}
	if !(h > m.LastUpdH+grace/guaranteeBlockTime) {
		c = append(c, "update-grace-blocks")
	}
	if p, ok := v.Prices[f.ID]; ok {
		if !(now > p.T+f.Interval*sec) {
			c = append(c, "price-time")
		}
		if !(h > p.H+f.Interval/guaranteeBlockTime) {
			c = append(c, "price-blocks")
		}
	}
	return c
}

// ---- base state -------------------------------------------------------------------------------

func voter() bandtesting.Account { return bandtesting.Alice }

func voteMsg(vote int) *feedstypes.MsgVote {
	var sigs []feedstypes.Signal
	for _, x := range voteMenu[vote] {
		sigs = append(sigs, feedstypes.NewSignal(x.ID, x.P))
	}
	return feedstypes.NewMsgVote(voter().Address.String(), sigs)
}

func (s *spec) Build(w *engine.World) (sdk.Context, engine.Model) {
	ctx := engine.Fork(w.Root)
	fp := w.App.FeedsKeeper.GetParams(ctx)
	fp.GracePeriod = grace
	fp.MinInterval = minInterval
	fp.MaxInterval = s.maxIv()
	fp.PowerStepThreshold = powerStep
	fp.CurrentFeedsUpdateInterval = s.upd()
	fp.CooldownTime = cooldown
	fp.MaxCurrentFeeds = 3
	if err := w.App.FeedsKeeper.SetParams(ctx, fp); err != nil {
		panic(err)
	}
	op := w.App.OracleKeeper.GetParams(ctx)
	op.InactivePenaltyDuration = uint64(s.pen())
	op.ExpirationBlockCount = s.cfg.Exp
	if err := w.App.OracleKeeper.SetParams(ctx, op); err != nil {
		panic(err)
	}
	rp := w.App.RestakeKeeper.GetParams(ctx)
	rp.AllowedDenoms = []string{"uband"}
	if err := w.App.RestakeKeeper.SetParams(ctx, rp); err != nil {
		panic(err)
	}
	if r := w.Tx(ctx, 0, restaketypes.NewMsgStake(voter().Address, sdk.NewCoins(sdk.NewInt64Coin("uband", 5)))); !r.OK() {
		panic("stake: " + r.Err.Error())
	}
	s.script = 1
	if s.cfg.Trap {
		code, err := wasmtime.Wat2Wasm(watTrap)
		if err != nil {
			panic(err)
		}
		if r := w.Tx(ctx, 0, oracletypes.NewMsgCreateOracleScript("trap", "d", "s", "u", code, bandtesting.Owner.Address, bandtesting.Owner.Address)); !r.OK() {
			panic("create script: " + r.Err.Error())
		}
		s.script = w.App.OracleKeeper.GetOracleScriptCount(ctx)
	}
	m := &model{Vote: s.cfg.InitVote}
	for i := range m.V {
		m.V[i].Prices = map[string]pRec{}
	}
	if len(voteMenu[s.cfg.InitVote]) > 0 {
		if r := w.Tx(ctx, 0, voteMsg(s.cfg.InitVote)); !r.OK() {
			panic("vote: " + r.Err.Error())
		}
	}
	// blocks 2,3,4 end (4 is an update block), then cfg.Phase more; 3 s each
	for i := 0; i < 3+s.cfg.Phase; i++ {
		h, now := ctx.BlockHeight(), ctx.BlockTime().UnixNano()
		if h%s.upd() == 0 {
			m.Feeds, m.LastUpdT, m.LastUpdH = s.feedsFromVote(m.Vote), now, h
		}
		dt := 3 * time.Second
		if i == 3+s.cfg.Phase-1 {
			dt += time.Duration(s.cfg.BaseMs) * time.Millisecond
		}
		next, br := w.Block(ctx, 1, dt)
		if br.Halt != "" {
			panic("base block: " + br.Halt)
		}
		ctx = next
	}
	for _, i := range s.cfg.PreAct {
		if r := w.Tx(ctx, 0, oracletypes.NewMsgActivate(valAddr(i))); !r.OK() {
			panic("activate: " + r.Err.Error())
		}
		m.V[i].Active, m.V[i].Since = true, ctx.BlockTime().UnixNano()
	}
	for _, i := range s.cfg.PrePrice {
		var sps []feedstypes.SignalPrice
		for _, f := range m.Feeds {
			sps = append(sps, feedstypes.NewSignalPrice(feedstypes.SIGNAL_PRICE_STATUS_AVAILABLE, f.ID, 1000))
			m.V[i].Prices[f.ID] = pRec{T: ctx.BlockTime().UnixNano(), H: ctx.BlockHeight()}
		}
		if r := w.Tx(ctx, 0, feedstypes.NewMsgSubmitSignalPrices(valAddr(i).String(), ctx.BlockTime().Unix(), sps)); !r.OK() { // message timestamp: whole seconds
			panic("base prices: " + r.Err.Error())
		}
	}
	if d := s.compare(w, ctx, m); d != "" {
		panic("base state differs from model: " + d)
	}
	return ctx, m
}

// compare: the implementation's projection (status per validator, current feed list and its
// update stamp) against the model's.  "" when equal.
func (s *spec) compare(w *engine.World, ctx sdk.Context, m *model) string {
	for i := 0; i < nVals; i++ {
		st := w.App.OracleKeeper.GetValidatorStatus(ctx, valAddr(i))
		mv := &m.V[i]
		if st.IsActive != mv.Active {
			return fmt.Sprintf("status: validator %d chain active=%v model active=%v", i, st.IsActive, mv.Active)
		}
		if mv.Active || mv.EverDeact {
			if st.Since.UnixNano() != mv.Since {
				return fmt.Sprintf("since: validator %d chain since=%s model since=%s", i, ts(st.Since.UnixNano()), ts(mv.Since))
			}
		} else if !st.Since.IsZero() {
			return fmt.Sprintf("since: validator %d never changed but chain since=%v", i, st.Since)
		}
	}
	cf := w.App.FeedsKeeper.GetCurrentFeeds(ctx)
	var got []feed
	for _, f := range cf.Feeds {
		got = append(got, feed{f.SignalID, f.Interval})
	}
	sort.Slice(got, func(i, j int) bool { return got[i].ID < got[j].ID })
	if fmt.Sprint(got) != fmt.Sprint(m.Feeds) || cf.LastUpdateTimestamp != m.LastUpdT/sec || cf.LastUpdateBlock != m.LastUpdH {
		return fmt.Sprintf("feeds: chain %v upd %d/%d, model %v upd %s/%d", got, cf.LastUpdateTimestamp, cf.LastUpdateBlock, m.Feeds, ts(m.LastUpdT), m.LastUpdH)
	}
	return ""
}

// longVal is an operator address of 32 bytes (the length of ADR-028 derived accounts: interchain
// accounts, group policies; sdk.VerifyAddressFormat accepts up to 255 bytes).
var longVal = sdk.ValAddress(sdkaddress.Module("interchainaccounts", []byte("connection-0/owner")))

func valAddr(i int) sdk.ValAddress {
	if i == nBonded {
		return longVal
	}
	return bandtesting.Validators[i].ValAddress
}

func valIndex(addr string) int {
	for i := 0; i < nVals; i++ {
		if valAddr(i).String() == addr {
			return i
		}
	}
	return -1
}

// ---- alphabet ---------------------------------------------------------------------------------

func (s *spec) Enabled(w *engine.World, ctx sdk.Context, mm engine.Model, depth int) []string {
	m := mm.(*model)
	var evs []string
	for _, i := range s.cfg.Vals {
		evs = append(evs, fmt.Sprintf("act:%d", i))
	}
	nActive := 0
	for i := 0; i < nBonded; i++ {
		if m.V[i].Active {
			nActive++
		}
	}
	if m.NReq < s.cfg.MaxReq && nActive > 0 {
		evs = append(evs, "req")
	}
	for _, r := range m.Reqs {
		for _, c := range r.Chosen {
			if c >= 0 && !r.Reported[c] {
				evs = append(evs, fmt.Sprintf("rep:%d:%d", r.ID, c))
			}
		}
	}
	if m.NPrice < s.cfg.MaxPrice && len(m.Feeds) > 0 {
		for _, i := range s.cfg.Vals {
			if m.V[i].Active {
				evs = append(evs, fmt.Sprintf("price:%d:all", i))
				if s.cfg.PriceOne && len(m.Feeds) > 1 {
					evs = append(evs, fmt.Sprintf("price:%d:one", i))
				}
				for _, off := range s.cfg.TsOffs {
					evs = append(evs, fmt.Sprintf("pricets:%d:%d", i, off))
				}
			}
		}
	}
	if m.NVote < s.cfg.MaxVote {
		for _, k := range s.cfg.Votes {
			if k != m.Vote {
				evs = append(evs, fmt.Sprintf("vote:%d", k))
			}
		}
	}
	for _, dt := range s.cfg.Dts {
		evs = append(evs, fmt.Sprintf("block:%d", dt))
	}
	for _, dt := range s.cfg.DtsMs {
		evs = append(evs, fmt.Sprintf("blockms:%d", dt))
	}
	return evs
}

func (s *spec) Step(w *engine.World, ctx sdk.Context, mm engine.Model, ev string) (sdk.Context, engine.StepResult) {
	m := mm.(*model)
	var st engine.StepResult
	parts := strings.Split(ev, ":")
	ok := w.App.OracleKeeper
	now, h := ctx.BlockTime().UnixNano(), ctx.BlockHeight()
	switch parts[0] {
	case "act":
		i, _ := strconv.Atoi(parts[1])
		v := &m.V[i]
		res := w.Tx(ctx, 0, oracletypes.NewMsgActivate(valAddr(i)))
		pen := s.pen()
		permitted := !v.Active && (!v.EverDeact || now >= v.DeactAt+pen)
		if res.OK() {
			switch {
			case v.Active:
				st.Violate("activate-accepted:already-active", "%s accepted at t=%s although validator %d is active since %s", ev, ts(now), i, ts(v.Since))
				return ctx, st
			case !permitted:
				fp := "activate-accepted:before-penalty-elapsed"
				if now/sec-v.DeactAt/sec >= pen/sec {
					fp += ":whole-seconds-elapsed-but-not-full-time"
				}
				st.Violate(fp, "%s accepted at t=%s, validator %d was deactivated at %s, penalty %d s (earliest %s)", ev, ts(now), i, ts(v.DeactAt), pen/sec, ts(v.DeactAt+pen))
				return ctx, st
			}
			if v.EverDeact {
				st.Outcome = "act:ok:after-penalty"
				if now == v.DeactAt+pen {
					st.Saw("act:ok:exactly-at-penalty-end")
				}
			} else {
				st.Outcome = "act:ok:first"
			}
			v.Active, v.Since = true, now
		} else {
			st.Outcome = "act:" + res.ErrName()
			if permitted {
				// the statement does not oblige the chain to accept; recorded, not asserted
				st.Saw("act:rejected-although-permitted:" + res.ErrName())
			} else if !v.Active {
				if now == v.DeactAt+pen-sec {
					st.Saw("act:rejected:one-second-before-penalty-end")
				}
				if now/sec-v.DeactAt/sec >= pen/sec {
					// the penalty has elapsed on truncated unix seconds but not in full precision
					st.Saw("act:rejected:less-than-a-second-before-penalty-end")
				}
			}
		}
	case "req":
		ask := uint64(0)
		for i := 0; i < nBonded; i++ {
			if m.V[i].Active {
				ask++
			}
		}
		msg := oracletypes.NewMsgRequestData(oracletypes.OracleScriptID(s.script), []byte("cd"), ask, 1, "c15", bandtesting.Coins100000000uband,
			bandtesting.TestDefaultPrepareGas, bandtesting.TestDefaultExecuteGas, bandtesting.FeePayer.Address, oracletypes.ENCODER_UNSPECIFIED)
		res := w.Tx(ctx, 0, msg)
		st.Outcome = "req:" + res.ErrName()
		m.NReq++
		if res.OK() {
			id := ok.GetRequestCount(ctx)
			req, err := ok.GetRequest(ctx, oracletypes.RequestID(id))
			if err != nil {
				st.Violate("accepted-request-not-stored", "id %d: %v", id, err)
				return ctx, st
			}
			if m.V[nBonded].Active {
				// The committee is drawn from bonded validators, and the test application's staking
				// genesis only makes 20-byte operators.  The 32-byte operator (activated by a real
				// MsgActivate) is therefore added to the stored committee of the real request with the
				// keeper setter; everything after that (reports, expiry) is the real code again.
				req.RequestedValidators = append(req.RequestedValidators, longVal.String())
				ok.SetRequest(ctx, oracletypes.RequestID(id), req)
			}
			mr := &mReq{ID: id, Time: now, Height: h, Reported: map[int]bool{}}
			for _, c := range req.RequestedValidators {
				ci := valIndex(c)
				mr.Chosen = append(mr.Chosen, ci)
				// only an active validator may be given work (otherwise "already active before the
				// request was made" could never hold for it)
				if ci < 0 || !m.V[ci].Active {
					st.Violate("request-assigned-to-inactive-validator", "request %d chose %s which is not oracle-active", id, c)
				}
			}
			for _, rr := range req.RawRequests {
				mr.EIDs = append(mr.EIDs, uint64(rr.ExternalID))
			}
			m.Reqs = append(m.Reqs, mr)
		}
	case "rep":
		rid, _ := strconv.ParseUint(parts[1], 10, 64)
		i, _ := strconv.Atoi(parts[2])
		var mr *mReq
		for _, r := range m.Reqs {
			if r.ID == rid {
				mr = r
			}
		}
		if mr == nil {
			st.Outcome = "rep:stale-event"
			break
		}
		var raws []oracletypes.RawReport
		for _, e := range mr.EIDs {
			raws = append(raws, oracletypes.NewRawReport(oracletypes.ExternalID(e), 0, []byte("x")))
		}
		res := w.Tx(ctx, 0, oracletypes.NewMsgReportData(oracletypes.RequestID(rid), raws, valAddr(i)))
		st.Outcome = "rep:" + res.ErrName()
		if res.OK() {
			mr.Reported[i] = true // acceptance of reports is C01's subject; here it is given
		}
	case "price":
		i, _ := strconv.Atoi(parts[1])
		var sps []feedstypes.SignalPrice
		for k, f := range m.Feeds {
			if parts[2] == "one" && k > 0 {
				break
			}
			sps = append(sps, feedstypes.NewSignalPrice(feedstypes.SIGNAL_PRICE_STATUS_AVAILABLE, f.ID, 1000))
		}
		res := w.Tx(ctx, 0, feedstypes.NewMsgSubmitSignalPrices(valAddr(i).String(), now/sec, sps))
		st.Outcome = "price:" + parts[2] + ":" + res.ErrName()
		m.NPrice++
		if res.OK() {
			for _, sp := range sps {
				m.V[i].Prices[sp.SignalID] = pRec{T: now, H: h}
			}
		}
	case "pricets":
		// a submission for every current feed whose message timestamp differs from the block time (a
		// feeder clock that lags or leads).  Whatever the message says, a price accepted in this block
		// was reported now: the reference measures its age from this block's time and height.
		i, _ := strconv.Atoi(parts[1])
		off, _ := strconv.ParseInt(parts[2], 10, 64)
		var sps []feedstypes.SignalPrice
		for _, f := range m.Feeds {
			sps = append(sps, feedstypes.NewSignalPrice(feedstypes.SIGNAL_PRICE_STATUS_AVAILABLE, f.ID, 1000))
		}
		res := w.Tx(ctx, 0, feedstypes.NewMsgSubmitSignalPrices(valAddr(i).String(), now/sec+off, sps))
		st.Outcome = "pricets:" + res.ErrName()
		switch {
		case off < -60 || off > 60:
			st.Saw("pricets:beyond-allowed-discrepancy:" + res.ErrName())
		case off < 0:
			st.Saw("pricets:lagging-clock:" + res.ErrName())
		case off > 0:
			st.Saw("pricets:leading-clock:" + res.ErrName())
		}
		m.NPrice++
		if res.OK() {
			for _, sp := range sps {
				m.V[i].Prices[sp.SignalID] = pRec{T: now, H: h}
			}
		}
	case "vote":
		k, _ := strconv.Atoi(parts[1])
		res := w.Tx(ctx, 0, voteMsg(k))
		st.Outcome = "vote:" + res.ErrName()
		m.NVote++
		if res.OK() {
			m.Vote = k
		}
	case "block":
		dt, _ := strconv.ParseInt(parts[1], 10, 64)
		return s.block(w, ctx, m, ev, time.Duration(dt)*time.Second)
	case "blockms":
		dt, _ := strconv.ParseInt(parts[1], 10, 64)
		return s.block(w, ctx, m, ev, time.Duration(dt)*time.Millisecond)
	}
	// Outside block ends nothing but a successful MsgActivate (already applied to the model above)
	// may change any validator's status; the feed list never changes.
	if d := s.compare(w, ctx, m); d != "" {
		st.Violate("status-changed-outside-activate-or-block-end:"+parts[0]+":"+strings.SplitN(d, ":", 2)[0], "after %s at t=%s h=%d: %s", ev, ts(now), h, d)
	}
	return ctx, st
}

// block = EndBlock of the current block (time now, height h), then BeginBlock of the next.
func (s *spec) block(w *engine.World, ctx sdk.Context, m *model, ev string, dt time.Duration) (sdk.Context, engine.StepResult) {
	var st engine.StepResult
	now, h := ctx.BlockTime().UnixNano(), ctx.BlockHeight()
	st.Outcome = "block"

	// -- model, oracle clock: requests reaching their expiration height, in id order
	type verdict struct {
		oracleMiss  []string // justification(s) for a deactivation
		feedsMiss   []string
		oracleSpare []string // why an unreported/expiring request does not justify one
		feedsSpare  []string // per feed: the protecting clauses
	}
	var vd [nVals]verdict
	var live []*mReq
	for _, r := range m.Reqs {
		if r.Height+int64(s.cfg.Exp) > h {
			live = append(live, r)
			continue
		}
		for _, c := range r.Chosen {
			if c < 0 || !m.V[c].Active {
				continue
			}
			switch {
			case r.Reported[c]:
				vd[c].oracleSpare = append(vd[c].oracleSpare, "reported")
			case !(m.V[c].Since < r.Time):
				vd[c].oracleSpare = append(vd[c].oracleSpare, "active-since-not-before-request")
			default:
				vd[c].oracleMiss = append(vd[c].oracleMiss, fmt.Sprintf("request %d (made t=%s h=%d, active since %s) expired unreported", r.ID, ts(r.Time), r.Height, ts(m.V[c].Since)))
			}
		}
	}
	m.Reqs = live

	// -- model, feed list: recomputed from the standing vote at every update block.  Neither the
	// statement nor the README fixes whether the misses of an update block are judged against the
	// outgoing or the incoming list, so a miss under the outgoing list (and its stamps) also counts.
	var outgoingMiss [nVals]bool
	if h%s.upd() == 0 {
		for i := range m.V {
			for _, f := range m.Feeds {
				if m.V[i].Active && len(m.feedClauses(f, &m.V[i], now, h)) == 0 {
					outgoingMiss[i] = true
				}
			}
		}
		nf := s.feedsFromVote(m.Vote)
		keep := map[string]bool{}
		for _, f := range nf {
			keep[f.ID] = true
		}
		for i := range m.V {
			for id := range m.V[i].Prices {
				if !keep[id] {
					// a price for a signal that left the list is no protection any more (the
					// chain may or may not remember it; the lenient reading is taken)
					delete(m.V[i].Prices, id)
				}
			}
		}
		if fmt.Sprint(nf) != fmt.Sprint(m.Feeds) {
			st.Saw("block:update:list-changed")
		}
		m.Feeds, m.LastUpdT, m.LastUpdH = nf, now, h
		st.Outcome = "block:update"
	}

	// -- model, feeds clocks
	for i := range m.V {
		v := &m.V[i]
		if !v.Active {
			continue
		}
		for _, f := range m.Feeds {
			c := m.feedClauses(f, v, now, h)
			if len(c) == 0 {
				age := "no price ever"
				if p, ok := v.Prices[f.ID]; ok {
					age = fmt.Sprintf("last price t=%s h=%d", ts(p.T), p.H)
				}
				vd[i].feedsMiss = append(vd[i].feedsMiss, fmt.Sprintf("feed %s/%ds: %s", f.ID, f.Interval, age))
			} else {
				vd[i].feedsSpare = append(vd[i].feedsSpare, strings.Join(c, "+"))
			}
		}
	}

	// -- implementation
	if _, halt := w.EndBlock(ctx); halt != "" {
		st.Violate("block-halt", "%s", halt)
		return ctx, st
	}
	var post [nVals]oracletypes.ValidatorStatus
	for i := 0; i < nVals; i++ {
		post[i] = w.App.OracleKeeper.GetValidatorStatus(ctx, valAddr(i))
	}
	for i := 0; i < nVals; i++ {
		v := &m.V[i]
		switch {
		case !v.Active && post[i].IsActive:
			st.Violate("active-without-activate-message", "validator %d became active in the block end at t=%s h=%d", i, ts(now), h)
		case v.Active && !post[i].IsActive:
			if len(vd[i].oracleMiss) == 0 && len(vd[i].feedsMiss) == 0 && !outgoingMiss[i] {
				why := ""
				if len(vd[i].oracleSpare) > 0 {
					why = "oracle[" + strings.Join(uniq(vd[i].oracleSpare), ",") + "]"
				} else {
					why = "oracle[no-expiring-request]"
				}
				if len(m.Feeds) == 0 {
					why += " feeds[no-current-feed]"
				} else {
					why += " feeds[" + fewest(vd[i].feedsSpare) + "]"
				}
				st.Violate("deactivated-without-genuine-miss:"+why,
					"validator %d (active since %s) deactivated in the block end at t=%s h=%d; feeds=%v lastUpdate=%s/%d prices=%v expiring-request clauses=%v feed clauses=%v",
					i, ts(v.Since), ts(now), h, m.Feeds, ts(m.LastUpdT), m.LastUpdH, v.Prices, vd[i].oracleSpare, vd[i].feedsSpare)
				return ctx, st
			}
			switch {
			case len(vd[i].oracleMiss) > 0 && len(vd[i].feedsMiss) > 0:
				st.Saw("deactivated:oracle+feeds")
			case len(vd[i].oracleMiss) > 0:
				st.Saw("deactivated:oracle")
				if i == nBonded {
					st.Saw("deactivated:oracle:32-byte-operator")
				}
			case len(vd[i].feedsMiss) == 0:
				st.Saw("deactivated:feeds:under-outgoing-list")
			default:
				st.Saw("deactivated:feeds")
				if _, has := v.Prices[firstFeed(vd[i].feedsMiss)]; has {
					st.Saw("deactivated:feeds:stale-price")
				} else {
					st.Saw("deactivated:feeds:no-price")
				}
			}
			v.Active, v.Since, v.EverDeact, v.DeactAt = false, now, true, now
		case v.Active && post[i].IsActive:
			// the converse (a genuine miss must deactivate) is not fixed by the statement: recorded only
			if len(vd[i].oracleMiss) > 0 {
				st.Saw("genuine-miss-not-deactivated:oracle")
			}
			if len(vd[i].feedsMiss) > 0 {
				st.Saw("genuine-miss-not-deactivated:feeds")
			}
			for _, c := range uniq(vd[i].oracleSpare) {
				st.Saw("spared:oracle:" + c)
				if i == nBonded {
					st.Saw("spared:oracle:" + c + ":32-byte-operator")
				}
			}
			for _, c := range uniq(vd[i].feedsSpare) {
				if !strings.Contains(c, "+") {
					st.Saw("spared:feeds:only-" + c) // exactly one clause protects: a boundary case
				}
			}
			if len(vd[i].oracleSpare) == 0 && len(m.Feeds) > 0 {
				st.Saw("active-kept")
			}
		}
	}
	if d := s.compare(w, ctx, m); d != "" {
		st.Violate("block-end-projection-differs:"+strings.SplitN(d, ":", 2)[0], "after EndBlock at t=%s h=%d: %s", ts(now), h, d)
		return ctx, st
	}
	// live requests of the model are exactly the stored ones (expiry itself is C01's subject; a
	// disagreement would make the justification above meaningless)
	stored := map[uint64]bool{}
	for id := uint64(1); id <= w.App.OracleKeeper.GetRequestCount(ctx); id++ {
		if w.App.OracleKeeper.HasRequest(ctx, oracletypes.RequestID(id)) {
			stored[id] = true
		}
	}
	if len(stored) != len(m.Reqs) {
		st.Violate("request-expiry-differs-from-model", "stored live requests %v, model %d live (h=%d, expiration %d blocks)", stored, len(m.Reqs), h, s.cfg.Exp)
		return ctx, st
	}
	for _, r := range m.Reqs {
		if !stored[r.ID] {
			st.Violate("request-expiry-differs-from-model", "request %d live in the model but not stored (h=%d)", r.ID, h)
			return ctx, st
		}
	}

	next, _, halt := w.BeginBlock(ctx, 1, dt)
	if halt != "" {
		st.Violate("block-halt", "%s", halt)
		return ctx, st
	}
	ctx = next
	if d := s.compare(w, ctx, m); d != "" {
		st.Violate("status-changed-outside-activate-or-block-end:begin-block:"+strings.SplitN(d, ":", 2)[0], "after BeginBlock of h=%d: %s", h+1, d)
	}
	return ctx, st
}

func uniq(in []string) []string {
	seen := map[string]bool{}
	var out []string
	for _, x := range in {
		if !seen[x] {
			seen[x] = true
			out = append(out, x)
		}
	}
	sort.Strings(out)
	return out
}

// fewest returns the clause set with the fewest protecting clauses (the closest feed to a miss).
func fewest(in []string) string {
	best := ""
	for _, x := range in {
		if best == "" || strings.Count(x, "+") < strings.Count(best, "+") || (strings.Count(x, "+") == strings.Count(best, "+") && x < best) {
			best = x
		}
	}
	return best
}

func firstFeed(miss []string) string {
	if len(miss) == 0 {
		return ""
	}
	s := strings.TrimPrefix(miss[0], "feed ")
	return s[:strings.Index(s, "/")]
}

// ---- configurations and registration ----------------------------------------------------------

var allDts = []int64{0, 1, 3, 6, 10, 12}

// keyStores: the stores whose content the events of this alphabet read (validator status, requests
// and reports; feeds, votes and validator prices; the voter's lock; the committee seed; fee payer
// balance).  The staking store is left out on purpose: its HistoricalInfo entries record the header
// time of every past block, which no handler in the alphabet reads, and would keep states with equal
// clocks apart.  Header height and time are always part of the key.
var keyStores = []string{"bank", "feeds", "oracle", "restake", "rollingseed"}

func configs(quick bool) []Cfg {
	if quick {
		return []Cfg{
			// feeds clocks, one validator, feed A/12 s; all six block deltas
			{Name: "feeds-A12", Vals: []int{0}, InitVote: 1, Votes: []int{2}, Phase: 0, Exp: 2, MaxVote: 1, MaxPrice: 2, Dts: allDts, Depth: 6},
			// feeds clocks from a pre-activated validator, feed A/6 s, two blocks before the next update
			{Name: "feeds-A6-preact", Vals: []int{0}, PreAct: []int{0}, InitVote: 2, Votes: []int{3}, Phase: 2, Exp: 2, MaxVote: 1, MaxPrice: 2, Dts: allDts, Depth: 6},
			// oracle clock only (no current feed): two validators, requests, reports, expiry
			{Name: "oracle-exp1", Vals: []int{0, 1}, InitVote: 0, Phase: 0, Exp: 1, MaxReq: 2, Dts: []int64{0, 3, 10}, Depth: 7},
			// the same with a script that traps in execute: resolved as FAILURE at min_count, judged at expiry
			{Name: "oracle-exp2-trap", Vals: []int{0, 1}, PreAct: []int{0, 1}, InitVote: 0, Phase: 0, Exp: 2, MaxReq: 1, Dts: []int64{0, 3, 10}, Depth: 6, Trap: true},
			{Name: "oracle-exp2", Vals: []int{0, 1}, PreAct: []int{0}, InitVote: 0, Phase: 1, Exp: 2, MaxReq: 2, Dts: []int64{0, 1, 10}, Depth: 7},
			// both clocks
			// two feeds whose power ranking is swapped by the vote (same number of feeds, different order
			// in the list), prices for both already submitted, then partial submissions
			{Name: "feeds-reorder", Vals: []int{0}, PreAct: []int{0}, PrePrice: []int{0}, InitVote: 5, Votes: []int{6}, Phase: 3, Exp: 2, MaxIv: 24,
				MaxVote: 1, MaxPrice: 2, PriceOne: true, Dts: []int64{0, 1, 6}, Depth: 6},
			// block times with a sub-second part (base state at x.9 s, steps of 1 s, 2 s and 500 ms), penalty
			// 2 s: the request expires in a block at D = x.9 or x.4, activation is then attempted before,
			// inside and after [floor(D)+penalty, D+penalty) and exactly at D+penalty
			{Name: "penalty-subsecond", Vals: []int{0}, PreAct: []int{0}, InitVote: 0, Phase: 0, Exp: 1, Penalty: 2, BaseMs: 900, MaxReq: 1,
				Dts: []int64{1, 2}, DtsMs: []int64{500}, Depth: 7},
			// message timestamps that differ from the block time by -55, -1, +1, +55 s (legal) and -61, +61 s
			// (beyond the 60 s allowance); feed A/6 s, no feed-list update during the search (interval 16
			// blocks, base two blocks after the update at height 16)
			{Name: "feeds-msgtime", Vals: []int{0}, PreAct: []int{0}, InitVote: 2, Phase: 13, UpdEvery: 16, Exp: 2, MaxPrice: 1,
				TsOffs: []int64{-55, -1, 1, 55, -61, 61}, Dts: []int64{0, 1, 6}, Depth: 6},
			// an oracle validator whose operator address has 32 bytes, next to an ordinary one
			{Name: "oracle-longaddr", Vals: []int{0, 3}, PreAct: []int{0, 3}, InitVote: 0, Phase: 0, Exp: 1, MaxReq: 1, Dts: []int64{0, 3}, Depth: 6},
			{Name: "both", Vals: []int{0, 1}, PreAct: []int{1}, InitVote: 3, Votes: []int{4}, Phase: 1, Exp: 2, MaxReq: 1, MaxVote: 1, MaxPrice: 2, PriceOne: true, Dts: []int64{1, 6, 12}, Depth: 6},
		}
	}
	var out []Cfg
	all := []int{0, 1, 2, 3, 4}
	// feeds clocks: every initial list x every distance to the next update block
	for _, iv := range []int{1, 2, 3} {
		for phase := 0; phase < 4; phase++ {
			c := Cfg{Name: fmt.Sprintf("feeds-v%d-p%d", iv, phase), Vals: []int{0}, InitVote: iv, Votes: all, Phase: phase, Exp: 2,
				MaxVote: 2, MaxPrice: 3, PriceOne: true, Dts: allDts, Depth: 7}
			if phase%2 == 1 {
				c.Name += "-preact"
				c.PreAct = []int{0}
			}
			out = append(out, c)
		}
	}
	// deeper, with thinner alphabets (re-activation after a feeds deactivation, second update block)
	out = append(out,
		Cfg{Name: "feeds-deep-v1-p0", Vals: []int{0}, InitVote: 1, Votes: []int{2, 4}, Phase: 0, Exp: 2, MaxVote: 1, MaxPrice: 2, Dts: []int64{0, 3, 6, 12}, Depth: 9},
		Cfg{Name: "feeds-deep-v2-p2-preact", Vals: []int{0}, PreAct: []int{0}, InitVote: 2, Votes: []int{1, 3}, Phase: 2, Exp: 2, MaxVote: 1, MaxPrice: 2, Dts: []int64{1, 3, 10, 12}, Depth: 9},
		Cfg{Name: "feeds-deep-v3-p1-preact", Vals: []int{0}, PreAct: []int{0}, InitVote: 3, Votes: []int{0, 4}, Phase: 1, Exp: 2, MaxVote: 1, MaxPrice: 2, PriceOne: true, Dts: []int64{0, 1, 6, 10}, Depth: 9},
		Cfg{Name: "feeds-deep-v1-p3", Vals: []int{0}, InitVote: 1, Votes: []int{3}, Phase: 3, Exp: 2, MaxVote: 1, MaxPrice: 2, Dts: []int64{0, 3, 10, 12}, Depth: 9},
	)
	for _, ph := range []int{1, 3} {
		out = append(out, Cfg{Name: fmt.Sprintf("feeds-reorder-p%d", ph), Vals: []int{0}, PreAct: []int{0}, PrePrice: []int{0}, InitVote: 5, Votes: []int{6, 4}, Phase: ph, Exp: 2, MaxIv: 24,
			MaxVote: 2, MaxPrice: 3, PriceOne: true, Dts: []int64{0, 1, 3, 6, 12}, Depth: 8})
	}
	// sub-second block times: oracle clock (penalty 2 s and 1 s) and feeds clock
	out = append(out,
		Cfg{Name: "penalty-subsecond-2s", Vals: []int{0}, PreAct: []int{0}, InitVote: 0, Phase: 0, Exp: 1, Penalty: 2, BaseMs: 900, MaxReq: 2,
			Dts: []int64{0, 1, 2}, DtsMs: []int64{100, 500}, Depth: 8},
		Cfg{Name: "penalty-subsecond-1s", Vals: []int{0, 1}, PreAct: []int{0}, InitVote: 0, Phase: 1, Exp: 2, Penalty: 1, BaseMs: 300, MaxReq: 1,
			Dts: []int64{1}, DtsMs: []int64{300, 700}, Depth: 8},
		Cfg{Name: "feeds-msgtime-A12", Vals: []int{0}, PreAct: []int{0}, InitVote: 1, Phase: 13, UpdEvery: 16, Exp: 2, MaxPrice: 2,
			TsOffs: []int64{-60, -55, -1, 1, 55, 60, -61, 61}, Dts: []int64{0, 1, 3, 12}, Depth: 8},
		Cfg{Name: "feeds-msgtime-A6", Vals: []int{0}, InitVote: 2, Phase: 13, UpdEvery: 16, Exp: 2, MaxPrice: 2,
			TsOffs: []int64{-60, -55, -1, 1, 55, 60, -61, 61}, Dts: []int64{0, 1, 6}, Depth: 8},
		Cfg{Name: "feeds-subsecond", Vals: []int{0}, PreAct: []int{0}, InitVote: 2, Votes: []int{1}, Phase: 1, Exp: 2, Penalty: 3, BaseMs: 900, MaxVote: 1, MaxPrice: 2,
			Dts: []int64{0, 3, 6}, DtsMs: []int64{500}, Depth: 8},
	)
	for _, exp := range []uint64{1, 2, 3} {
		out = append(out, Cfg{Name: fmt.Sprintf("oracle-exp%d-trap", exp), Vals: []int{0, 1}, PreAct: []int{0, 1}, InitVote: 0, Phase: 0, Exp: exp, MaxReq: 2, Dts: []int64{0, 3, 10}, Depth: 7, Trap: true})
	}
	out = append(out, Cfg{Name: "oracle-longaddr", Vals: []int{0, 3}, PreAct: []int{0}, InitVote: 0, Phase: 1, Exp: 2, MaxReq: 2, Dts: []int64{0, 3, 10}, Depth: 9})
	for _, exp := range []uint64{1, 2, 3} {
		out = append(out, Cfg{Name: fmt.Sprintf("oracle-exp%d", exp), Vals: []int{0, 1}, InitVote: 0, Phase: 0, Exp: exp, MaxReq: 3, Dts: []int64{0, 1, 3, 10}, Depth: 8})
		out = append(out, Cfg{Name: fmt.Sprintf("oracle-exp%d-preact", exp), Vals: []int{0, 1}, PreAct: []int{0, 1}, InitVote: 0, Phase: 1, Exp: exp, MaxReq: 3, Dts: []int64{0, 1, 3, 10}, Depth: 8})
	}
	for _, iv := range []int{1, 3} {
		for _, exp := range []uint64{1, 2} {
			out = append(out, Cfg{Name: fmt.Sprintf("both-v%d-exp%d", iv, exp), Vals: []int{0, 1}, PreAct: []int{1}, InitVote: iv, Votes: []int{0, 2, 4}, Phase: 1, Exp: exp,
				MaxReq: 2, MaxVote: 1, MaxPrice: 3, PriceOne: true, Dts: allDts, Depth: 7})
		}
	}
	return out
}

func init() {
	engine.Register(&engine.Check{
		ID: "C15",
		Run: func(r *engine.Run) {
			r.Bound = "3 bonded validators (1-2 acted on), one configuration with an additional 32-byte operator address; events Activate(v), RequestData(ask = all active, min 1), ReportData(id,v), SubmitSignalPrices(v, all | first current feed; one configuration with message timestamps block time -55/-1/+1/+55 s and +-61 s), Vote from a 5-entry menu (feed list {}, {A/12s}, {A/6s}, {A/12s,B/6s}, {B/12s}; plus a configuration with max interval 24 s whose vote swaps the power ranking of two feeds [B/8s,A/12s] -> [A/8s,B/12s] after prices for both were submitted) taking effect at the next update block, Block(dh=1, dt in {0,1,3,6,10,12} s; configurations with block times off the whole second: base at x.9 s, dt in {1 s, 2 s, 500 ms}, penalty 2 s); grace 6 s, intervals 6/12 s, penalty 10 s, feed update every 4 blocks, expiration 1-3 blocks; base states 0-3 blocks after an update, validators fresh or pre-activated; depth 6-7 (quick) / 8-9 (thorough)"
			r.Assumptions = []string{
				"committee of a request (RequestedValidators) and acceptance of reports / price submissions are taken as given (C09, C01, C06); the reference records a report or a price iff the transaction succeeded",
				"the statement is one-directional: only 'deactivated => genuine miss', 'activate accepted => inactive and penalty elapsed', 'active => activated by message' and 'status changes only by MsgActivate or in a block end' are asserted; a genuine miss that does not deactivate, or a permitted MsgActivate that is refused, is only recorded (labels genuine-miss-not-deactivated:*, act:rejected-although-permitted:*)",
				"'active before the request was made' is read on block timestamps as since < request time (equal timestamps do not count as before); 'grace period is over' as now > start+grace; 'no sufficiently recent price' as now > price time + interval; block-height fallback = grace/3 resp. interval/3 blocks (x/feeds/types/constant.go MaxGuaranteeBlockTime)",
				"at an update block a miss may be judged against the outgoing or the incoming feed list (the order is not fixed by the statement)",
				"validator index 3 is an operator with a 32-byte address (ADR-028 length). It activates and reports through the real handlers; because the test application's staking genesis only bonds 20-byte operators and committees are drawn from bonded validators, it is appended to the stored committee of a real request with OracleKeeper.SetRequest",
				"a price is as old as the block that accepted it (time and height of that block), whatever timestamp the message carries; AllowableBlockTimeDiscrepancy stays at its default 60 s and the refusal beyond it is recorded, not asserted",
				"a price submitted for a signal is forgotten by the reference when that signal leaves the current feed list (the lenient reading; the chain keeps it until the validator's next submission)",
				"the reference keeps every time (activation, deactivation, request, price, update) in full nanosecond precision; the chain's whole-second stamps (feed-list update, price timestamps, request time) are never later than those, which only makes the chain more lenient than the reference",
				"block times are whole seconds except in the *-subsecond configurations; dh = 1 for every block; Tx seam = ValidateBasic + message-router handler in a cache context (ante chain not executed)",
			}
			r.Required = required(r.Quick())
			// the wall-clock cap is shared: every configuration gets an equal slice of what is left, so
			// that a loaded machine thins every search instead of starving the last ones
			end := r.Deadline(12*time.Minute, 40*time.Minute)
			cfgs := configs(r.Quick())
			for i, c := range cfgs {
				slice := time.Until(end) / time.Duration(len(cfgs)-i)
				sr := engine.Search(&spec{cfg: c}, engine.SearchOpts{Depth: c.Depth, Deadline: time.Now().Add(slice), KeyStores: keyStores})
				r.AddSearch(c.Name, c, sr)
				if len(r.Violations) > 0 {
					break
				}
			}
			r.ConfirmViolations(func(cfg any) engine.Spec { return &spec{cfg: cfg.(Cfg)} })
		},
		Replay: func(raw json.RawMessage, path []string) (engine.StepResult, []string) {
			var c Cfg
			if err := json.Unmarshal(raw, &c); err != nil {
				panic(err)
			}
			last, outs, _ := engine.Replay(&spec{cfg: c}, path)
			return last, outs
		},
	})
}

func required(quick bool) []string {
	return []string{
		// activation: first, refused while active, refused inside the penalty (also one second before
		// its end), accepted after it (also exactly at its end)
		"act:ok:first", "act:oracle/16", "act:oracle/17", "act:rejected:one-second-before-penalty-end",
		"act:ok:after-penalty", "act:ok:exactly-at-penalty-end",
		// ... and refused when only the whole unix seconds, not the full time, have elapsed (sub-second block times)
		"act:rejected:less-than-a-second-before-penalty-end",
		// price messages stamped by a lagging / leading clock: accepted within the allowance, refused beyond it
		"pricets:lagging-clock:ok", "pricets:leading-clock:ok", "pricets:beyond-allowed-discrepancy:feeds/6",
		// both kinds of genuine miss, and every protecting clause observed alone (boundary cases)
		"deactivated:oracle", "deactivated:feeds", "deactivated:feeds:no-price", "deactivated:feeds:stale-price",
		"spared:oracle:reported", "spared:oracle:active-since-not-before-request",
		"spared:oracle:reported:32-byte-operator", "deactivated:oracle:32-byte-operator",
		"spared:feeds:only-activation-grace", "spared:feeds:only-update-grace-time", "spared:feeds:only-update-grace-blocks",
		"spared:feeds:only-price-blocks", "spared:feeds:only-price-time",
		"block:update", "block:update:list-changed", "req:ok", "rep:ok", "price:all:ok", "vote:ok",
	}
}
