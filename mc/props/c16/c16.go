// Package c16 checks property C16: restake — locked power cannot be withdrawn; stakes are fully
// backed.  Engine: kvmc (explicit-state BFS over the real restake keeper, the real staking message
// server with the restake hooks wired in, and the real bank keeper) with a lock-step ledger model
// written from the property statement and x/restake/README.md.
package c16

import (
	"bytes"
	"encoding/binary"
	"encoding/hex"
	"encoding/json"
	"fmt"
	"math/big"
	"sort"
	"strings"
	"time"

	"github.com/cometbft/cometbft/crypto/ed25519"

	errorsmod "cosmossdk.io/errors"
	sdkmath "cosmossdk.io/math"
	storetypes "cosmossdk.io/store/types"

	cryptocodec "github.com/cosmos/cosmos-sdk/crypto/codec"
	sdk "github.com/cosmos/cosmos-sdk/types"
	authtypes "github.com/cosmos/cosmos-sdk/x/auth/types"
	minttypes "github.com/cosmos/cosmos-sdk/x/mint/types"
	stakingtypes "github.com/cosmos/cosmos-sdk/x/staking/types"

	bandtesting "github.com/bandprotocol/chain/v3/testing"
	restaketypes "github.com/bandprotocol/chain/v3/x/restake/types"
	"github.com/bandprotocol/chain/v3/zzverif/engine"
)

// ---- configuration ----------------------------------------------------------------------------

// Cfg is one configuration: a base state (built by applying Base through the same transition
// function as the search) and an explicit alphabet of symbolic events.
//
// Event grammar (amounts are decimal literals or 2^63-1, 2^63, 2^64-1, 2^64):
//
//	stake:<acc>:<denom>:<amt>
//	unstake:<acc>:<denom>:<amt|all|toLock|belowLock>
//	del:<acc>:<val>:<amt>
//	undel:<acc>:<val>:<amt|all|toLock|belowLock>
//	redel:<acc>:<src>:<dst>:<amt|all>
//	lock:<acc>:<vault>:<amt|P-1|P|P+1|neg>          (P = current total power of <acc>)
//	deact:<vault>
//	params:<i>                                       (AllowedDenoms := ParamSets[i])
//
// toLock = the amount that leaves total power exactly at the largest lock in an active vault,
// belowLock = one more than that.
type Cfg struct {
	Name      string     `json:"name"`
	Accounts  []string   `json:"accounts"`
	Vals      int        `json:"validators"`
	Funds     []string   `json:"funds"` // "<acc>:<denom>:<amt>" minted to the account in Build
	ParamSets [][]string `json:"param_sets"`
	Base      []string   `json:"base"`
	Events    []string   `json:"events"`
	Depth     int        `json:"depth"`
}

type spec struct{ cfg Cfg }

func (s *spec) Config() any { return s.cfg }

// ---- numbers ----------------------------------------------------------------------------------

var (
	two63 = new(big.Int).Lsh(big.NewInt(1), 63)
	two64 = new(big.Int).Lsh(big.NewInt(1), 64)
)

func bi(x int64) *big.Int { return big.NewInt(x) }

func parseAmt(s string) (*big.Int, bool) {
	switch s {
	case "2^63-1":
		return new(big.Int).Sub(two63, bi(1)), true
	case "2^63":
		return new(big.Int).Set(two63), true
	case "2^64-1":
		return new(big.Int).Sub(two64, bi(1)), true
	case "2^64":
		return new(big.Int).Set(two64), true
	}
	v, ok := new(big.Int).SetString(s, 10)
	return v, ok
}

func sdkInt(b *big.Int) sdkmath.Int { return sdkmath.NewIntFromBigInt(b) }

// ---- reference model (ledger) -----------------------------------------------------------------

type acct struct {
	Stake map[string]*big.Int // denom -> recorded stake
	Del   []*big.Int          // per validator: delegated tokens (share/token rate is 1)
	Lock  map[string]*big.Int // vault -> last successfully set locked power
}

const (
	vaultActive      = 1
	vaultDeactivated = 2
)

type model struct {
	Names   []string
	Acc     map[string]*acct
	Vault   map[string]int // absent = never created
	Allowed []string       // AllowedDenoms as last successfully set (a list; the statement treats it as a set)
}

func (m *model) Clone() engine.Model {
	c := &model{Names: m.Names, Acc: map[string]*acct{}, Vault: map[string]int{}, Allowed: append([]string(nil), m.Allowed...)}
	for n, a := range m.Acc {
		ca := &acct{Stake: map[string]*big.Int{}, Lock: map[string]*big.Int{}}
		for k, v := range a.Stake {
			ca.Stake[k] = new(big.Int).Set(v)
		}
		for k, v := range a.Lock {
			ca.Lock[k] = new(big.Int).Set(v)
		}
		for _, v := range a.Del {
			ca.Del = append(ca.Del, new(big.Int).Set(v))
		}
		c.Acc[n] = ca
	}
	for k, v := range m.Vault {
		c.Vault[k] = v
	}
	return c
}

func sortedKeys[T any](mp map[string]T) []string {
	var ks []string
	for k := range mp {
		ks = append(ks, k)
	}
	sort.Strings(ks)
	return ks
}

func (m *model) Key() string {
	var sb strings.Builder
	for _, n := range m.Names {
		a := m.Acc[n]
		fmt.Fprintf(&sb, "%s{", n)
		for _, d := range sortedKeys(a.Stake) {
			if a.Stake[d].Sign() != 0 {
				fmt.Fprintf(&sb, "s:%s=%s,", d, a.Stake[d])
			}
		}
		for i, d := range a.Del {
			fmt.Fprintf(&sb, "d%d=%s,", i, d)
		}
		for _, v := range sortedKeys(a.Lock) {
			fmt.Fprintf(&sb, "l:%s=%s,", v, a.Lock[v])
		}
		sb.WriteString("}")
	}
	for _, v := range sortedKeys(m.Vault) {
		fmt.Fprintf(&sb, "v:%s=%d,", v, m.Vault[v])
	}
	fmt.Fprintf(&sb, "allowed=%v", m.Allowed)
	return sb.String()
}

func (m *model) allowedSet() map[string]bool {
	s := map[string]bool{}
	for _, d := range m.Allowed {
		s[d] = true
	}
	return s
}

func (m *model) dupAllowed() bool { return len(m.allowedSet()) != len(m.Allowed) }

// power = bonded delegations + restaked coins of the denominations that give power.
func (m *model) power(a *acct) *big.Int {
	p := new(big.Int)
	for _, d := range a.Del {
		p.Add(p, d)
	}
	for d := range m.allowedSet() {
		if v, ok := a.Stake[d]; ok {
			p.Add(p, v)
		}
	}
	return p
}

// maxLock = largest lock of the account in a vault that is still active (0 if none).
func (m *model) maxLock(a *acct, status int) *big.Int {
	mx := new(big.Int)
	for v, l := range a.Lock {
		if m.Vault[v] == status && l.Cmp(mx) > 0 {
			mx = l
		}
	}
	return new(big.Int).Set(mx)
}

func (a *acct) stake(d string) *big.Int {
	if v, ok := a.Stake[d]; ok {
		return v
	}
	return new(big.Int)
}

// ---- actors -----------------------------------------------------------------------------------

func accOf(name string) bandtesting.Account {
	switch name {
	case "alice":
		return bandtesting.Alice
	case "bob":
		return bandtesting.Bob
	}
	panic("unknown account " + name)
}

// operators of the two rate-1 validators created in Build
func valOperator(i int) bandtesting.Account {
	if i == 0 {
		return bandtesting.FeePayer
	}
	return bandtesting.MissedValidator
}

func valIdx(s string) int { return int(s[len(s)-1] - '0') }

var keyStores = []string{"bank", "staking", "restake"}
var rejectStores = []string{"auth", "bank", "distribution", "restake", "staking"}

// ---- base state -------------------------------------------------------------------------------

func (s *spec) Build(w *engine.World) (sdk.Context, engine.Model) {
	ctx := engine.Fork(w.Root)
	// validators whose share/token rate is exactly 1 (the genesis validators have 1 share for 10^8 tokens)
	for i := 0; i < s.cfg.Vals; i++ {
		op := valOperator(i)
		pk, err := cryptocodec.FromCmtPubKeyInterface(ed25519.GenPrivKeyFromSecret([]byte(fmt.Sprintf("c16-val-%d", i))).PubKey())
		if err != nil {
			panic(err)
		}
		msg, err := stakingtypes.NewMsgCreateValidator(op.ValAddress.String(), pk, sdk.NewInt64Coin("uband", 2_000_000),
			stakingtypes.NewDescription(fmt.Sprintf("c16v%d", i), "", "", "", ""),
			stakingtypes.NewCommissionRates(sdkmath.LegacyZeroDec(), sdkmath.LegacyZeroDec(), sdkmath.LegacyZeroDec()), sdkmath.OneInt())
		if err != nil {
			panic(err)
		}
		if r := w.Tx(ctx, 0, msg); !r.OK() {
			panic("create validator: " + r.Err.Error())
		}
	}
	if s.cfg.Vals > 0 {
		next, br := w.Block(ctx, 1, 3*time.Second)
		if br.Halt != "" {
			panic("base block: " + br.Halt)
		}
		ctx = next
		for i := 0; i < s.cfg.Vals; i++ {
			v, err := w.App.StakingKeeper.GetValidator(ctx, valOperator(i).ValAddress)
			if err != nil || !v.IsBonded() || !v.DelegatorShares.Equal(sdkmath.LegacyNewDecFromInt(v.Tokens)) {
				panic(fmt.Sprintf("validator %d not bonded at rate 1: %v %+v", i, err, v))
			}
		}
	}
	for _, f := range s.cfg.Funds {
		p := strings.Split(f, ":")
		amt, ok := parseAmt(p[2])
		if !ok {
			panic("fund " + f)
		}
		coins := sdk.NewCoins(sdk.NewCoin(p[1], sdkInt(amt)))
		if err := w.App.BankKeeper.MintCoins(ctx, minttypes.ModuleName, coins); err != nil {
			panic(err)
		}
		if err := w.App.BankKeeper.SendCoinsFromModuleToAccount(ctx, minttypes.ModuleName, accOf(p[0]).Address, coins); err != nil {
			panic(err)
		}
	}
	m := &model{Names: s.cfg.Accounts, Acc: map[string]*acct{}, Vault: map[string]int{}}
	for _, n := range s.cfg.Accounts {
		a := &acct{Stake: map[string]*big.Int{}, Lock: map[string]*big.Int{}}
		for i := 0; i < s.cfg.Vals; i++ {
			a.Del = append(a.Del, new(big.Int))
		}
		m.Acc[n] = a
	}
	m.Allowed = append([]string(nil), w.App.RestakeKeeper.GetParams(ctx).AllowedDenoms...)
	for _, ev := range s.cfg.Base {
		var st engine.StepResult
		ctx, st = s.Step(w, ctx, m, ev)
		if len(st.Violations) > 0 {
			panic(fmt.Sprintf("base event %s violates: %+v", ev, st.Violations))
		}
		if !strings.HasSuffix(st.Outcome, ":ok") {
			panic(fmt.Sprintf("base event %s did not succeed: %s", ev, st.Outcome))
		}
	}
	return ctx, m
}

// ---- alphabet ---------------------------------------------------------------------------------

// resolve turns the symbolic amount of a withdrawal into a number (nil = not applicable here).
func (m *model) resolveWithdraw(a *acct, sym string, avail *big.Int, countsAsPower bool) *big.Int {
	switch sym {
	case "all":
		if avail.Sign() <= 0 {
			return nil
		}
		return new(big.Int).Set(avail)
	case "toLock", "belowLock":
		l := m.maxLock(a, vaultActive)
		if l.Sign() <= 0 || !countsAsPower {
			return nil
		}
		amt := new(big.Int).Sub(m.power(a), l)
		if sym == "belowLock" {
			amt.Add(amt, bi(1))
		}
		if amt.Sign() <= 0 || amt.Cmp(avail) > 0 {
			return nil
		}
		return amt
	}
	v, ok := parseAmt(sym)
	if !ok {
		panic("amount " + sym)
	}
	return v
}

func (m *model) resolveLock(a *acct, sym string) *big.Int {
	p := m.power(a)
	switch sym {
	case "P-1":
		if p.Sign() <= 0 {
			return nil
		}
		return p.Sub(p, bi(1))
	case "P":
		return p
	case "P+1":
		return p.Add(p, bi(1))
	case "neg":
		return bi(-1)
	}
	v, ok := parseAmt(sym)
	if !ok {
		panic("lock amount " + sym)
	}
	return v
}

// amountOf returns the concrete amount an event stands for in this state (nil = event not applicable).
func (m *model) amountOf(parts []string) *big.Int {
	a := m.Acc[parts[1]]
	switch parts[0] {
	case "stake", "del":
		v, ok := parseAmt(parts[3])
		if !ok {
			panic("amount " + parts[3])
		}
		return v
	case "unstake":
		return m.resolveWithdraw(a, parts[3], a.stake(parts[2]), m.allowedSet()[parts[2]])
	case "undel":
		return m.resolveWithdraw(a, parts[3], a.Del[valIdx(parts[2])], true)
	case "redel":
		return m.resolveWithdraw(a, parts[4], a.Del[valIdx(parts[2])], true)
	case "lock":
		return m.resolveLock(a, parts[3])
	}
	return nil
}

func (s *spec) Enabled(w *engine.World, ctx sdk.Context, mm engine.Model, depth int) []string {
	m := mm.(*model)
	var evs []string
	for _, ev := range s.cfg.Events {
		parts := strings.Split(ev, ":")
		switch parts[0] {
		case "deact", "params":
			evs = append(evs, ev)
		default:
			if m.amountOf(parts) != nil {
				evs = append(evs, ev)
			}
		}
	}
	return evs
}

// ---- transition + oracle ----------------------------------------------------------------------

func errName(err error) string {
	if err == nil {
		return "ok"
	}
	cs, code, _ := errorsmod.ABCIInfo(err, false)
	return fmt.Sprintf("%s/%d", cs, code)
}

// keeperCall runs a keeper entry point that other modules call inside their own handlers; the
// write happens iff it returns nil.  On error the private layer is *inspected* (a rejected attempt
// must have changed nothing even before the caller's transaction is rolled back).
func keeperCall(w *engine.World, ctx sdk.Context, f func(c sdk.Context) error) (err error, dirty bool) {
	c, write := ctx.CacheContext()
	c = c.WithEventManager(sdk.NewEventManager())
	func() {
		defer func() {
			if r := recover(); r != nil {
				err = fmt.Errorf("panic: %v", r)
			}
		}()
		err = f(c)
	}()
	if err == nil {
		write()
		return nil, false
	}
	if isPanic(err) {
		return err, false
	}
	return err, w.HashStores(c, rejectStores, nil) != w.HashStores(ctx, rejectStores, nil)
}

func isPanic(err error) bool { return err != nil && strings.HasPrefix(err.Error(), "panic: ") }

func (s *spec) Step(w *engine.World, ctx sdk.Context, mm engine.Model, ev string) (sdk.Context, engine.StepResult) {
	m := mm.(*model)
	var st engine.StepResult
	parts := strings.Split(ev, ":")
	op := parts[0]
	k := w.App.RestakeKeeper

	// discriminating condition for the fingerprints: AllowedDenoms lists a denomination twice and the
	// implementation's own total power of the acting account differs from the statement's.
	dup := ""
	if m.dupAllowed() && len(parts) > 2 && m.Acc[parts[1]] != nil {
		if tp, err := k.GetTotalPower(ctx, accOf(parts[1]).Address); err == nil && tp.BigInt().Cmp(m.power(m.Acc[parts[1]])) != 0 {
			dup = ":dup-allowed-denoms"
		}
	}

	switch op {
	case "stake", "unstake", "del", "undel", "redel":
		name := parts[1]
		a := m.Acc[name]
		addr := accOf(name).Address
		amt := m.amountOf(parts)
		if amt == nil {
			// only reachable when replaying a path that is not applicable; treat as a no-op
			st.Outcome = op + ":n/a"
			return ctx, st
		}
		p0 := m.power(a)
		l0 := m.maxLock(a, vaultActive)
		var msg sdk.Msg
		switch op {
		case "stake":
			msg = restaketypes.NewMsgStake(addr, sdk.NewCoins(sdk.NewCoin(parts[2], sdkInt(amt))))
		case "unstake":
			msg = restaketypes.NewMsgUnstake(addr, sdk.NewCoins(sdk.NewCoin(parts[2], sdkInt(amt))))
		case "del":
			msg = stakingtypes.NewMsgDelegate(addr.String(), valOperator(valIdx(parts[2])).ValAddress.String(), sdk.NewCoin("uband", sdkInt(amt)))
		case "undel":
			msg = stakingtypes.NewMsgUndelegate(addr.String(), valOperator(valIdx(parts[2])).ValAddress.String(), sdk.NewCoin("uband", sdkInt(amt)))
		case "redel":
			msg = stakingtypes.NewMsgBeginRedelegate(addr.String(), valOperator(valIdx(parts[2])).ValAddress.String(),
				valOperator(valIdx(parts[3])).ValAddress.String(), sdk.NewCoin("uband", sdkInt(amt)))
		}
		before := w.HashStores(ctx, rejectStores, nil)
		res := w.Tx(ctx, 0, msg)
		st.Outcome = op + ":" + res.ErrName()
		if !res.OK() {
			if res.Panic != "" {
				st.Violate("handler-panic:"+op, "%s (amount %s) panicked: %s", ev, amt, res.Err)
				return ctx, st
			}
			if w.HashStores(ctx, rejectStores, nil) != before {
				st.Violate("rejected-op-changed-state:"+op, "%s (amount %s) failed with %s but stores differ: %v", ev, amt, res.ErrName(),
					"(auth, bank, distribution, restake, staking)")
				return ctx, st
			}
			// what would the withdrawal have left?
			if op == "unstake" || op == "undel" || op == "redel" {
				// lowest total power any check during the operation can legitimately see
				low := new(big.Int).Set(p0)
				if op != "unstake" || m.allowedSet()[parts[2]] {
					low.Sub(low, amt)
				}
				restakeRefusal := res.Codespace == restaketypes.ModuleName && (res.Code == 2 || res.Code == 13)
				switch {
				case low.Cmp(l0) < 0 && op != "redel":
					st.Saw(op + ":rejected:would-go-below-lock")
					if new(big.Int).Add(low, bi(1)).Cmp(l0) == 0 {
						st.Saw(op + ":rejected:one-below-lock")
					}
				case restakeRefusal && low.Cmp(l0) >= 0:
					if m.maxLock(a, vaultDeactivated).Cmp(low) > 0 {
						st.Violate("deactivated-vault-still-constrains:"+op, "%s (amount %s) refused with %s although it leaves power %s >= largest active lock %s; a deactivated vault holds lock %s",
							ev, amt, res.ErrName(), low, l0, m.maxLock(a, vaultDeactivated))
						return ctx, st
					}
					st.Saw(op + ":refused-though-statement-allows")
				case restakeRefusal:
					st.Saw(op + ":refused-on-intermediate-power")
				}
			}
			if op == "del" && res.Codespace == restaketypes.ModuleName {
				st.Saw("del:refused-by-restake-hook")
			}
			break
		}
		// accepted: update the ledger
		switch op {
		case "stake":
			a.Stake[parts[2]] = new(big.Int).Add(a.stake(parts[2]), amt)
			if !m.allowedSet()[parts[2]] {
				st.Saw("stake:accepted-denom-without-power")
			}
		case "unstake":
			a.Stake[parts[2]] = new(big.Int).Sub(a.stake(parts[2]), amt)
		case "del":
			a.Del[valIdx(parts[2])].Add(a.Del[valIdx(parts[2])], amt)
		case "undel":
			a.Del[valIdx(parts[2])].Sub(a.Del[valIdx(parts[2])], amt)
		case "redel":
			a.Del[valIdx(parts[2])].Sub(a.Del[valIdx(parts[2])], amt)
			a.Del[valIdx(parts[3])].Add(a.Del[valIdx(parts[3])], amt)
		}
		if op == "unstake" || op == "undel" || op == "redel" {
			p1 := m.power(a)
			l1 := m.maxLock(a, vaultActive)
			if p1.Cmp(l1) < 0 {
				big63 := ""
				if l1.Cmp(two63) >= 0 {
					big63 = ":lock>=2^63"
				}
				kind := op
				// the full removal of a delegation goes through a different hook (BeforeDelegationRemoved)
				if op != "unstake" && a.Del[valIdx(parts[2])].Sign() == 0 {
					kind += "-full-removal"
				}
				if dup != "" {
					kind = "" // one root cause, one fingerprint
					dup = dup[1:]
				}
				st.Violate("withdrawal-below-lock:"+kind+dup+big63,
					"%s (amount %s) succeeded: total power of %s %s -> %s, but its largest lock in an active vault is %s (locks %s, vaults %v, allowed denoms %v)",
					ev, amt, name, p0, p1, l1, fmtLocks(a), m.Vault, m.Allowed)
				return ctx, st
			}
			if l1.Sign() > 0 && p1.Cmp(l1) == 0 && p0.Cmp(p1) > 0 {
				st.Saw(op + ":ok:leaves-exactly-lock")
			}
			if m.maxLock(a, vaultDeactivated).Cmp(p1) > 0 {
				st.Saw(op + ":ok:below-deactivated-lock")
			}
		}

	case "lock":
		name, vault := parts[1], parts[2]
		a := m.Acc[name]
		p := m.resolveLock(a, parts[3])
		if p == nil {
			st.Outcome = "lock:n/a"
			return ctx, st
		}
		pw := m.power(a)
		err, dirty := keeperCall(w, ctx, func(c sdk.Context) error {
			return k.SetLockedPower(c, accOf(name).Address, vault, sdkInt(p))
		})
		st.Outcome = "lock:" + errName(err)
		rel := "below-power"
		switch {
		case p.Sign() < 0:
			rel = "negative"
		case p.Cmp(two64) >= 0:
			rel = "not-uint64"
		case p.Cmp(pw) == 0:
			rel = "at-power"
		case p.Cmp(pw) > 0:
			rel = "above-power"
		}
		vs := map[int]string{0: "new-vault", vaultActive: "active-vault", vaultDeactivated: "deactivated-vault"}[m.Vault[vault]]
		st.Saw(fmt.Sprintf("lock:%s:%s:%s", rel, vs, map[bool]string{true: "ok", false: "rejected"}[err == nil]))
		if isPanic(err) {
			st.Violate("handler-panic:lock", "%s (power %s) panicked: %v", ev, p, err)
			return ctx, st
		}
		if err != nil {
			if dirty {
				st.Violate("rejected-op-changed-state:lock", "%s (power %s) failed with %s but left writes behind", ev, p, errName(err))
				return ctx, st
			}
			break
		}
		if p.Cmp(pw) > 0 {
			st.Violate("lock-set-above-power"+dup, "%s: lock %s accepted for %s whose total power is %s (stake %v, delegations %v, allowed denoms %v)",
				ev, p, name, pw, a.Stake, a.Del, m.Allowed)
			return ctx, st
		}
		if m.Vault[vault] == vaultDeactivated {
			st.Violate("lock-set-in-deactivated-vault", "%s: lock %s accepted in deactivated vault %s", ev, p, vault)
			return ctx, st
		}
		m.Vault[vault] = vaultActive
		a.Lock[vault] = p
		if p.Cmp(two63) >= 0 {
			st.Saw("lock:ok:>=2^63")
		}

	case "deact":
		vault := parts[1]
		err, dirty := keeperCall(w, ctx, func(c sdk.Context) error { return k.DeactivateVault(c, vault) })
		st.Outcome = "deact:" + errName(err)
		if isPanic(err) {
			st.Violate("handler-panic:deact", "%s panicked: %v", ev, err)
			return ctx, st
		}
		if err != nil {
			if dirty {
				st.Violate("rejected-op-changed-state:deact", "%s failed with %s but left writes behind", ev, errName(err))
				return ctx, st
			}
			break
		}
		if m.Vault[vault] != vaultActive {
			st.Violate("deactivate-accepted-for-non-active-vault", "%s accepted although the vault is %v (0 = never created, 2 = already deactivated)", ev, m.Vault[vault])
			return ctx, st
		}
		m.Vault[vault] = vaultDeactivated

	case "params":
		var i int
		fmt.Sscanf(parts[1], "%d", &i)
		set := s.cfg.ParamSets[i]
		before := w.HashStores(ctx, rejectStores, nil)
		res := w.Tx(ctx, 0, restaketypes.NewMsgUpdateParams(k.GetAuthority(), restaketypes.NewParams(set)))
		st.Outcome = "params:" + res.ErrName()
		if !res.OK() {
			if w.HashStores(ctx, rejectStores, nil) != before {
				st.Violate("rejected-op-changed-state:params", "%s failed with %s but stores differ", ev, res.ErrName())
				return ctx, st
			}
			break
		}
		m.Allowed = append([]string(nil), set...)
		if m.dupAllowed() {
			st.Saw("params:ok:duplicate-denoms-accepted")
		}
		for _, n := range m.Names {
			if a := m.Acc[n]; m.power(a).Cmp(m.maxLock(a, vaultActive)) < 0 {
				st.Saw("params:ok:power-drops-below-lock")
			}
		}

	default:
		panic("event " + ev)
	}

	s.monitors(w, ctx, m, ev, &st)
	return ctx, st
}

func fmtLocks(a *acct) string {
	var out []string
	for _, v := range sortedKeys(a.Lock) {
		out = append(out, v+"="+a.Lock[v].String())
	}
	return "{" + strings.Join(out, ",") + "}"
}

// monitors are evaluated on the state after every transition.
func (s *spec) monitors(w *engine.World, ctx sdk.Context, m *model, ev string, st *engine.StepResult) {
	k := w.App.RestakeKeeper
	nameOf := map[string]string{}
	for _, n := range m.Names {
		nameOf[accOf(n).Address.String()] = n
	}

	// (1) vaults: created active by the first lock, inactive only after DeactivateVault, never active again
	seenVault := map[string]bool{}
	for _, v := range k.GetVaults(ctx) {
		seenVault[v.Key] = true
		switch want := m.Vault[v.Key]; {
		case want == vaultDeactivated && v.IsActive:
			st.Violate("vault-reactivated", "after %s vault %s is active again although it had been deactivated", ev, v.Key)
		case want == vaultActive && !v.IsActive:
			st.Violate("vault-status-mismatch:inactive-without-deactivation", "after %s vault %s is inactive but was never deactivated", ev, v.Key)
		case want == 0:
			st.Violate("vault-status-mismatch:unexpected-vault", "after %s vault %s exists but no lock was ever accepted in it", ev, v.Key)
		}
	}
	for v := range m.Vault {
		if !seenVault[v] {
			st.Violate("vault-status-mismatch:vault-vanished", "after %s vault %s no longer exists", ev, v)
		}
	}

	// (2) recorded stakes = ledger of accepted stakes/unstakes; module account = sum of recorded stakes
	sum := sdk.NewCoins()
	seenStake := map[string]bool{}
	for _, rec := range k.GetStakes(ctx) {
		sum = sum.Add(rec.Coins...)
		n, ok := nameOf[rec.StakerAddress]
		if !ok {
			st.Violate("stake-ledger-mismatch:unknown-staker", "after %s a stake of %s is recorded for %s", ev, rec.Coins, rec.StakerAddress)
			continue
		}
		seenStake[n] = true
		if !sameCoins(rec.Coins, m.Acc[n].Stake) {
			st.Violate("stake-ledger-mismatch", "after %s recorded stake of %s is %s, ledger says %v", ev, n, rec.Coins, m.Acc[n].Stake)
		}
	}
	for _, n := range m.Names {
		if !seenStake[n] && !sameCoins(nil, m.Acc[n].Stake) {
			st.Violate("stake-ledger-mismatch", "after %s no stake is recorded for %s, ledger says %v", ev, n, m.Acc[n].Stake)
		}
	}
	modBal := w.App.BankKeeper.GetAllBalances(ctx, authtypes.NewModuleAddress(restaketypes.ModuleName))
	if !modBal.Equal(sum) {
		st.Violate("module-balance-not-sum-of-stakes", "after %s module account holds %s, recorded stakes sum to %s", ev, modBal, sum)
	}

	// (3) locks = last accepted SetLockedPower per (account, vault)
	type lk struct{ addr, key, power string }
	var stored []lk
	seenLock := map[string]bool{}
	for _, l := range k.GetLocks(ctx) {
		stored = append(stored, lk{l.StakerAddress, l.Key, l.Power.String()})
		n, ok := nameOf[l.StakerAddress]
		if !ok {
			st.Violate("lock-store-mismatch:unknown-account", "after %s lock %+v exists", ev, l)
			continue
		}
		seenLock[n+"/"+l.Key] = true
		want, has := m.Acc[n].Lock[l.Key]
		if !has || want.String() != l.Power.String() {
			st.Violate("lock-store-mismatch", "after %s stored lock of %s in %s is %s, last accepted value is %v", ev, n, l.Key, l.Power, want)
		}
	}
	for _, n := range m.Names {
		for v, p := range m.Acc[n].Lock {
			if !seenLock[n+"/"+v] {
				st.Violate("lock-store-mismatch:lock-vanished", "after %s the lock of %s in %s (%s) is gone", ev, n, v, p)
			}
		}
	}

	// (4) LocksByPower index (README: 0x80 | AddrLen | Addr | BigEndian(Power) | Key -> Key) has exactly one entry per lock
	want := map[string]bool{}
	for _, l := range stored {
		want[l.addr+"/"+l.power+"/"+l.key] = true
	}
	store := ctx.KVStore(w.App.GetKVStoreKey()[restaketypes.StoreKey])
	it := storetypes.KVStorePrefixIterator(store, []byte{0x80})
	got := map[string]bool{}
	for ; it.Valid(); it.Next() {
		kb := it.Key()
		if len(kb) < 2 || len(kb) < 2+int(kb[1])+8 {
			st.Violate("lock-index-mismatch:malformed-key", "after %s index key %s is too short", ev, hex.EncodeToString(kb))
			continue
		}
		al := int(kb[1])
		addr := sdk.AccAddress(kb[2 : 2+al]).String()
		power := new(big.Int).SetUint64(binary.BigEndian.Uint64(kb[2+al : 2+al+8])).String()
		key := string(kb[2+al+8:])
		if !bytes.Equal(it.Value(), []byte(key)) {
			st.Violate("lock-index-mismatch:value-differs-from-key-suffix", "after %s index entry %s -> %q", ev, hex.EncodeToString(kb), it.Value())
		}
		id := addr + "/" + power + "/" + key
		got[id] = true
		if !want[id] {
			st.Violate("lock-index-mismatch:stale-or-wrong-entry", "after %s index holds (%s) but no such lock is stored; locks: %v", ev, id, stored)
		}
	}
	it.Close()
	for id := range want {
		if !got[id] {
			st.Violate("lock-index-mismatch:missing-entry", "after %s lock (%s) has no index entry", ev, id)
		}
	}

	// (5) given facts the ledger relies on: delegations as recorded by x/staking (rate 1) — a
	// disagreement here is a broken harness assumption, not a property violation.
	for _, n := range m.Names {
		a := m.Acc[n]
		for i := range a.Del {
			d, err := w.App.StakingKeeper.GetDelegation(ctx, accOf(n).Address, valOperator(i).ValAddress)
			have := sdkmath.LegacyZeroDec()
			if err == nil {
				have = d.Shares
			}
			if !have.Equal(sdkmath.LegacyNewDecFromBigInt(a.Del[i])) {
				engine.Fatal3("C16 ledger assumption broken after %s: delegation of %s to validator %d is %s shares, ledger %s", ev, n, i, have, a.Del[i])
			}
		}
		// observation only: the implementation's own notion of total power
		if tp, err := k.GetTotalPower(ctx, accOf(n).Address); err == nil && tp.BigInt().Cmp(m.power(a)) != 0 {
			st.Saw("impl-total-power-differs-from-statement")
		}
	}
}

func sameCoins(c sdk.Coins, led map[string]*big.Int) bool {
	n := 0
	for d, v := range led {
		if v.Sign() == 0 {
			continue
		}
		n++
		if c.AmountOf(d).BigInt().Cmp(v) != 0 {
			return false
		}
	}
	nz := 0
	for _, x := range c {
		if !x.Amount.IsZero() {
			nz++
		}
	}
	return n == nz
}

// ---- registration -----------------------------------------------------------------------------

func mkSpec(cfg any) engine.Spec {
	switch c := cfg.(type) {
	case Cfg:
		return &spec{cfg: c}
	case *Cfg:
		return &spec{cfg: *c}
	}
	panic(fmt.Sprintf("config %T", cfg))
}

func init() {
	engine.Register(&engine.Check{
		ID: "C16",
		Run: func(r *engine.Run) {
			cfgs := configs(r.Quick())
			var names []string
			for _, c := range cfgs {
				names = append(names, fmt.Sprintf("%s(depth %d, %d events)", c.Name, c.Depth, len(c.Events)))
			}
			r.Bound = "all event sequences up to the stated depth from each configuration's base state; 1-2 accounts, 2 rate-1 bonded validators, 2 vaults, <=2 denominations, " +
				"amounts 1/5/all/exactly-to-the-lock/one-below-the-lock, lock values 0/P-1/P/P+1/-1 and 2^63-1/2^63/2^64-1/2^64, AllowedDenoms from a fixed list of settings; configurations: " + strings.Join(names, "; ")
			r.Assumptions = []string{
				"total power = sum of the account's delegations (as x/staking records them; all validators used are bonded, rate 1, never slashed) + its restaked coins of the denominations currently in AllowedDenoms (README: allowed_denoms = denominations that give power), AllowedDenoms read as a set",
				"no Block events inside the search: unbonding/redelegation entries never mature, no rewards exist; therefore the state key is header + stores bank, staking, restake + ledger model (distribution's period counters cannot influence any outcome)",
				"SetLockedPower and DeactivateVault are keeper entry points used by other modules; they are driven directly (written iff they return nil), MsgStake/MsgUnstake/MsgUpdateParams/MsgDelegate/MsgUndelegate/MsgBeginRedelegate through ValidateBasic + the real message router (ante chain not executed; see C02)",
				"withdrawal clause is checked in the stated direction only: an accepted unstake/undelegate/redelegate must leave power >= largest lock in an active vault; refusals are violations only when attributable to a deactivated vault",
				"liquid-staker (32-byte) addresses, slashing, validator unbonding and direct bank sends to the module account are outside the alphabet",
			}
			r.Required = []string{
				"stake:ok", "unstake:ok", "del:ok", "undel:ok", "redel:ok", "params:ok", "deact:ok", "lock:ok",
				"unstake:restake/13", "undel:restake/2", "redel:restake/2", "unstake:restake/11",
				"lock:restake/6", "lock:restake/4", "deact:restake/4", "deact:restake/3",
				"unstake:ok:leaves-exactly-lock", "undel:ok:leaves-exactly-lock",
				"unstake:rejected:one-below-lock", "undel:rejected:one-below-lock",
				"unstake:ok:below-deactivated-lock", "undel:ok:below-deactivated-lock",
				"lock:at-power:active-vault:ok", "lock:at-power:new-vault:ok", "lock:above-power:active-vault:rejected",
				"lock:below-power:deactivated-vault:rejected", "lock:not-uint64:active-vault:rejected", "lock:ok:>=2^63",
				"params:ok:power-drops-below-lock",
			}
			deadline := r.Deadline(6*time.Minute, 40*time.Minute)
			for _, c := range cfgs {
				sr := engine.Search(&spec{cfg: c}, engine.SearchOpts{Depth: c.Depth, Deadline: deadline, KeyStores: keyStores, MaxViol: 4096})
				r.AddSearch(c.Name, c, sr)
			}
			r.ConfirmViolations(mkSpec)
		},
		Replay: func(raw json.RawMessage, path []string) (engine.StepResult, []string) {
			var c Cfg
			if err := json.Unmarshal(raw, &c); err != nil {
				panic(err)
			}
			last, outs, _ := engine.Replay(&spec{cfg: c}, path)
			return last, outs
		},
	})
}
