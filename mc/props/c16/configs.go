package c16

// configs returns the configurations of a tier.  Every configuration is a small explicit alphabet
// over a base state that already contains stakes/delegations, so that the boundary cases of the
// statement (exactly the locked power, one below; several vaults; several validators; powers
// beyond 2^63; AllowedDenoms changes) are reached within the depth bound.
func configs(quick bool) []Cfg {
	d := func(q, t int) int {
		if quick {
			return q
		}
		return t
	}
	var out []Cfg

	// (1) stake / unstake against locks of two vaults, with AllowedDenoms changes (two denominations)
	out = append(out, Cfg{
		Name: "unstake", Accounts: []string{"alice"}, Vals: 0,
		Funds:     []string{"alice:ulst:12", "alice:ustx:3"},
		ParamSets: [][]string{{"ulst"}, {"ulst", "ustx"}, {}},
		Base:      []string{"params:0", "stake:alice:ulst:5"},
		Events: []string{
			"stake:alice:ulst:1", "stake:alice:ulst:5", "stake:alice:ustx:1",
			"unstake:alice:ulst:1", "unstake:alice:ulst:all", "unstake:alice:ulst:toLock", "unstake:alice:ulst:belowLock", "unstake:alice:ustx:all",
			"lock:alice:va:0", "lock:alice:va:P-1", "lock:alice:va:P", "lock:alice:va:P+1",
			"lock:alice:vb:1", "lock:alice:vb:P-1", "lock:alice:vb:P", "lock:alice:vb:P+1",
			"deact:va", "deact:vb", "params:0", "params:1", "params:2",
		},
		Depth: d(7, 9),
	})

	// (2) undelegate / redelegate / full removal over two validators, plus a restaked part
	out = append(out, Cfg{
		Name: "delegation", Accounts: []string{"alice"}, Vals: 2,
		Funds:     []string{"alice:ulst:4"},
		ParamSets: [][]string{{"ulst"}, {}},
		Base:      []string{"params:0", "del:alice:v0:5", "del:alice:v1:3", "stake:alice:ulst:2"},
		Events: []string{
			"del:alice:v0:1", "del:alice:v1:5",
			"undel:alice:v0:1", "undel:alice:v0:all", "undel:alice:v0:toLock", "undel:alice:v0:belowLock",
			"undel:alice:v1:1", "undel:alice:v1:all", "undel:alice:v1:toLock", "undel:alice:v1:belowLock",
			"redel:alice:v0:v1:1", "redel:alice:v0:v1:all", "redel:alice:v1:v0:all",
			"unstake:alice:ulst:all", "unstake:alice:ulst:toLock", "unstake:alice:ulst:belowLock",
			"lock:alice:va:P-1", "lock:alice:va:P", "lock:alice:va:P+1",
			"lock:alice:vb:0", "lock:alice:vb:3", "lock:alice:vb:P",
			"deact:va", "deact:vb", "params:1", "params:0",
		},
		Depth: d(5, 6),
	})

	// (3) two accounts sharing vaults and a validator: locks of one account never bind the other
	out = append(out, Cfg{
		Name: "two-accounts", Accounts: []string{"alice", "bob"}, Vals: 1,
		Funds:     []string{"alice:ulst:4", "bob:ulst:4"},
		ParamSets: [][]string{{"ulst"}},
		Base:      []string{"params:0", "stake:alice:ulst:3", "stake:bob:ulst:3", "del:alice:v0:3", "del:bob:v0:4"},
		Events: []string{
			"stake:alice:ulst:1",
			"unstake:alice:ulst:all", "unstake:alice:ulst:toLock", "unstake:alice:ulst:belowLock",
			"unstake:bob:ulst:all", "unstake:bob:ulst:toLock", "unstake:bob:ulst:belowLock",
			"undel:alice:v0:all", "undel:alice:v0:toLock", "undel:alice:v0:belowLock",
			"undel:bob:v0:all", "undel:bob:v0:toLock", "undel:bob:v0:belowLock",
			"lock:alice:va:P", "lock:alice:va:2", "lock:alice:vb:P",
			"lock:bob:va:P", "lock:bob:va:2", "lock:bob:vb:P-1",
			"deact:va", "deact:vb",
		},
		Depth: d(6, 8),
	})

	// (4) powers around 2^63 and 2^64 in the 8-byte big-endian index key
	out = append(out, Cfg{
		Name: "big-powers", Accounts: []string{"alice"}, Vals: 0,
		Funds:     []string{"alice:ulst:2^64", "alice:ulst:2"},
		ParamSets: [][]string{{"ulst"}},
		Base:      []string{"params:0"},
		Events: []string{
			"stake:alice:ulst:1", "stake:alice:ulst:2^63-1", "stake:alice:ulst:2^63",
			"unstake:alice:ulst:1", "unstake:alice:ulst:2^63", "unstake:alice:ulst:all", "unstake:alice:ulst:toLock", "unstake:alice:ulst:belowLock",
			"lock:alice:va:P-1", "lock:alice:va:P", "lock:alice:va:P+1", "lock:alice:va:2^63", "lock:alice:va:2^64-1", "lock:alice:va:2^64", "lock:alice:va:neg",
			"lock:alice:vb:P", "lock:alice:vb:2^63-1", "lock:alice:vb:255", "lock:alice:vb:256",
			"deact:va",
		},
		Depth: d(7, 9),
	})

	// (5) AllowedDenoms settings that list a denomination twice (accepted by Params.Validate)
	out = append(out, Cfg{
		Name: "allowed-denoms-list", Accounts: []string{"alice"}, Vals: 1,
		Funds:     []string{"alice:ulst:8"},
		ParamSets: [][]string{{"ulst"}, {"ulst", "ulst"}},
		Base:      []string{"params:0", "stake:alice:ulst:5", "del:alice:v0:2"},
		Events: []string{
			"params:1", "params:0",
			"stake:alice:ulst:1",
			"unstake:alice:ulst:1", "unstake:alice:ulst:all", "unstake:alice:ulst:toLock", "unstake:alice:ulst:belowLock",
			"undel:alice:v0:all", "undel:alice:v0:toLock", "undel:alice:v0:belowLock",
			"lock:alice:va:P-1", "lock:alice:va:P", "lock:alice:va:P+1",
		},
		Depth: d(4, 5),
	})
	return out
}
