// Package c17 checks property C17: tunnel deposits are fully backed, owner-withdrawable, and gate
// activation.  Engine: kvmc (explicit-state BFS over the real tunnel/bank keepers through the message
// router and the whole-app End/BeginBlocker) with a lock-step ledger model written from the
// statement: three ledgers (per-depositor records, tunnel total, module balance) plus the wallets of
// the depositors, and monitors on the active flag / active index / end-block processing.
package c17

import (
	"encoding/json"
	"fmt"
	"sort"
	"strconv"
	"strings"
	"sync"
	"time"

	sdk "github.com/cosmos/cosmos-sdk/types"
	authtypes "github.com/cosmos/cosmos-sdk/x/auth/types"
	banktypes "github.com/cosmos/cosmos-sdk/x/bank/types"
	minttypes "github.com/cosmos/cosmos-sdk/x/mint/types"

	bandtesting "github.com/bandprotocol/chain/v3/testing"
	feedstypes "github.com/bandprotocol/chain/v3/x/feeds/types"
	tunneltypes "github.com/bandprotocol/chain/v3/x/tunnel/types"
	"github.com/bandprotocol/chain/v3/zzverif/engine"
)

// ---- configuration ----------------------------------------------------------------------------

// PreTunnel is a tunnel created in the base state.
type PreTunnel struct {
	Creator string `json:"creator"` // actor name
	Deposit string `json:"deposit"` // amount kind: 0 | min-1 | min
}

// Cfg is one configuration.
type Cfg struct {
	Name       string            `json:"name"`
	MinDeposit string            `json:"min_deposit"`     // e.g. "4uband" or "3uband,2uusd"
	BaseFee    string            `json:"base_packet_fee"` // "" or "1uband"
	Route      string            `json:"route"`           // tss (no signing group) | ibc (no channel) | tss-ready (group + funded fee payers) | tss-funded (no group, funded fee payers, packets due every block)
	Actors     []string          `json:"actors"`          // A B C
	Balances   map[string]string `json:"balances"`        // wallet of every actor in the base state
	Pre        []PreTunnel       `json:"pre_tunnels"`
	MaxTunnels int               `json:"max_tunnels"`
	MaxBlocks  int               `json:"max_blocks"`
	Depth      int               `json:"depth"`
	// MaxRaises > 0 puts governance raises of the minimum deposit (real MsgUpdateParams) into the
	// alphabet: "+1" on the first denom and, if RaiseDenom is set, "+denom" (one more required denom).
	MaxRaises  int    `json:"max_raises,omitempty"`
	RaiseDenom string `json:"raise_denom,omitempty"`
	// SwapDenom set: the parameter events are instead "swap": governance REPLACES the denom of the
	// minimum deposit (base denom <-> SwapDenom, same amount), so recorded deposits may be in a denom
	// that is no longer accepted for new deposits.
	SwapDenom string `json:"swap_denom,omitempty"`
	// Genesis: after every accepted transition the tunnel genesis is exported and imported into a
	// fresh application, and the invariants are checked on the imported state.
	Genesis bool `json:"genesis_roundtrip,omitempty"`
}

type spec struct {
	cfg Cfg
	min coins // minimum deposit of the base state

	mu      sync.Mutex
	imports map[int]*engine.World // per search world: the fresh application genesis is imported into
}

func newSpec(c Cfg) *spec {
	return &spec{cfg: c, min: parseCoins(c.MinDeposit), imports: map[int]*engine.World{}}
}

func (s *spec) Config() any { return s.cfg }

func actor(name string) bandtesting.Account {
	switch name {
	case "A":
		return bandtesting.Alice
	case "B":
		return bandtesting.Bob
	case "C":
		return bandtesting.Carol
	}
	panic("actor " + name)
}

// ---- boring coins -----------------------------------------------------------------------------

type coins map[string]int64

func parseCoins(s string) coins {
	c := coins{}
	if strings.TrimSpace(s) == "" {
		return c
	}
	parsed, err := sdk.ParseCoinsNormalized(s)
	if err != nil {
		panic(err)
	}
	for _, p := range parsed {
		c[p.Denom] = p.Amount.Int64()
	}
	return c
}

func fromSDK(cs sdk.Coins) coins {
	c := coins{}
	for _, p := range cs {
		if !p.Amount.IsInt64() {
			c[p.Denom] = 1 << 62
			continue
		}
		if p.Amount.Int64() != 0 {
			c[p.Denom] = p.Amount.Int64()
		}
	}
	return c
}

func (c coins) sdk() sdk.Coins {
	var out sdk.Coins
	for _, d := range c.denoms() {
		out = append(out, sdk.NewInt64Coin(d, c[d]))
	}
	return out // sorted by denom, all positive
}

func (c coins) denoms() []string {
	var ds []string
	for d, v := range c {
		if v != 0 {
			ds = append(ds, d)
		}
	}
	sort.Strings(ds)
	return ds
}

func (c coins) clone() coins {
	o := coins{}
	for d, v := range c {
		if v != 0 {
			o[d] = v
		}
	}
	return o
}

func (c coins) plus(b coins) coins {
	o := c.clone()
	for d, v := range b {
		o[d] += v
		if o[d] == 0 {
			delete(o, d)
		}
	}
	return o
}

func (c coins) minus(b coins) coins {
	o := c.clone()
	for d, v := range b {
		o[d] -= v
		if o[d] == 0 {
			delete(o, d)
		}
	}
	return o
}

func (c coins) isZero() bool { return len(c.denoms()) == 0 }

// covers: for every denom of b, c holds at least as much.
func (c coins) covers(b coins) bool {
	for d, v := range b {
		if c[d] < v {
			return false
		}
	}
	return true
}

func (c coins) equal(b coins) bool { return c.String() == b.String() }

func (c coins) String() string {
	var sb strings.Builder
	for i, d := range c.denoms() {
		if i > 0 {
			sb.WriteByte(',')
		}
		fmt.Fprintf(&sb, "%d%s", c[d], d)
	}
	if sb.Len() == 0 {
		return "0"
	}
	return sb.String()
}

// ---- reference model --------------------------------------------------------------------------

type mTunnel struct {
	ID       uint64
	Creator  string           // actor name
	Deposits map[string]coins // actor name -> recorded deposit
}

func (t *mTunnel) total() coins {
	sum := coins{}
	for _, d := range t.Deposits {
		sum = sum.plus(d)
	}
	return sum
}

type model struct {
	Tunnels []*mTunnel
	Bal     map[string]coins // wallets of the actors
	Blocks  int
	Min     coins // current minimum deposit (changes only by a raise event)
	Raises  int
}

func (m *model) Clone() engine.Model {
	c := &model{Bal: map[string]coins{}, Blocks: m.Blocks, Min: m.Min.clone(), Raises: m.Raises}
	for a, b := range m.Bal {
		c.Bal[a] = b.clone()
	}
	for _, t := range m.Tunnels {
		ct := &mTunnel{ID: t.ID, Creator: t.Creator, Deposits: map[string]coins{}}
		for a, d := range t.Deposits {
			ct.Deposits[a] = d.clone()
		}
		c.Tunnels = append(c.Tunnels, ct)
	}
	return c
}

func sortedKeys[V any](m map[string]V) []string {
	var ks []string
	for k := range m {
		ks = append(ks, k)
	}
	sort.Strings(ks)
	return ks
}

func (m *model) Key() string {
	var sb strings.Builder
	fmt.Fprintf(&sb, "b%d|min=%s|r%d|", m.Blocks, m.Min, m.Raises)
	for _, a := range sortedKeys(m.Bal) {
		fmt.Fprintf(&sb, "%s=%s|", a, m.Bal[a])
	}
	for _, t := range m.Tunnels {
		fmt.Fprintf(&sb, "t%d:%s:", t.ID, t.Creator)
		for _, a := range sortedKeys(t.Deposits) {
			if !t.Deposits[a].isZero() {
				fmt.Fprintf(&sb, "%s=%s,", a, t.Deposits[a])
			}
		}
		sb.WriteByte('|')
	}
	return sb.String()
}

func (m *model) tunnel(id uint64) *mTunnel {
	for _, t := range m.Tunnels {
		if t.ID == id {
			return t
		}
	}
	return nil
}

// ---- base state -------------------------------------------------------------------------------

var treasury = bandtesting.Treasury

func (s *spec) createMsg(creator string, dep coins) *tunneltypes.MsgCreateTunnel {
	sds := []tunneltypes.SignalDeviation{{SignalID: "CS:BAND-USD", SoftDeviationBPS: 100, HardDeviationBPS: 200}}
	var msg *tunneltypes.MsgCreateTunnel
	var err error
	addr := actor(creator).Address.String()
	switch s.cfg.Route {
	case "ibc":
		msg, err = tunneltypes.NewMsgCreateIBCTunnel(sds, s.interval(), dep.sdk(), addr)
	default:
		msg, err = tunneltypes.NewMsgCreateTSSTunnel(sds, s.interval(), "chain-1", "0xc0ffee", feedstypes.ENCODER_FIXED_POINT_ABI, dep.sdk(), addr)
	}
	if err != nil {
		panic(err)
	}
	return msg
}

// funded: packets are due every block and the tunnels' fee payers can pay (tss-ready: the send then
// succeeds; tss-funded: no signing group, so every due packet is created, charged and then fails to be
// sent inside the end-blocker's branch, which must leave nothing behind).
func (s *spec) funded() bool { return s.cfg.Route == "tss-ready" || s.cfg.Route == "tss-funded" }

func (s *spec) interval() uint64 {
	if s.funded() {
		return 1 // every block (dt = 3 s) is due, so an active tunnel is observably processed each block
	}
	return 60
}

func mustOK(what string, r engine.TxResult) {
	if !r.OK() {
		panic(what + ": " + r.Err.Error())
	}
}

func (s *spec) Build(w *engine.World) (sdk.Context, engine.Model) {
	ctx := engine.Fork(w.Root)
	k := w.App.TunnelKeeper
	// parameters through the real MsgUpdateParams handler
	p := k.GetParams(ctx)
	p.MinDeposit = s.min.sdk()
	p.BasePacketFee = parseCoins(s.cfg.BaseFee).sdk()
	if s.funded() {
		p.MinInterval = 1
	}
	mustOK("update params", w.Tx(ctx, 0, tunneltypes.NewMsgUpdateParams(k.GetAuthority(), p)))

	// wallets: small balances so that "all" and "all+1" are part of a small alphabet
	m := &model{Bal: map[string]coins{}, Min: s.min.clone()}
	for _, a := range s.cfg.Actors {
		want := parseCoins(s.cfg.Balances[a])
		acc := actor(a)
		have := fromSDK(w.App.BankKeeper.GetAllBalances(ctx, acc.Address))
		for _, d := range want.denoms() {
			if have[d] < want[d] { // environment write: mint the missing denom
				c := sdk.NewCoins(sdk.NewInt64Coin(d, want[d]-have[d]))
				if err := w.App.BankKeeper.MintCoins(ctx, minttypes.ModuleName, c); err != nil {
					panic(err)
				}
				if err := w.App.BankKeeper.SendCoinsFromModuleToAccount(ctx, minttypes.ModuleName, acc.Address, c); err != nil {
					panic(err)
				}
			}
		}
		have = fromSDK(w.App.BankKeeper.GetAllBalances(ctx, acc.Address))
		if excess := have.minus(want); !excess.isZero() {
			mustOK("drain "+a, w.Tx(ctx, 0, banktypes.NewMsgSend(acc.Address, treasury.Address, excess.sdk())))
		}
		m.Bal[a] = want
	}
	if s.cfg.Route == "tss-ready" {
		ctx = s.buildSigningGroup(w, ctx)
	}
	if s.cfg.Genesis {
		// a second, untouched application per search world: the import target (Build runs serialised)
		s.mu.Lock()
		if s.imports[w.ID] == nil {
			s.imports[w.ID] = engine.NewWorld()
		}
		s.mu.Unlock()
	}
	for _, pt := range s.cfg.Pre {
		dep := s.amount(pt.Deposit, coins{}, s.min)
		mustOK("pre-create", w.Tx(ctx, 0, s.createMsg(pt.Creator, dep)))
		id := k.GetTunnelCount(ctx)
		t := &mTunnel{ID: id, Creator: pt.Creator, Deposits: map[string]coins{}}
		if !dep.isZero() {
			t.Deposits[pt.Creator] = dep
			m.Bal[pt.Creator] = m.Bal[pt.Creator].minus(dep)
		}
		m.Tunnels = append(m.Tunnels, t)
		s.afterCreate(w, ctx, id)
	}
	return ctx, m
}

// afterCreate funds the fee payer of a new tunnel in the tss-ready configuration (environment:
// a bank send from the genesis FeePayer account through the real MsgSend handler).
func (s *spec) afterCreate(w *engine.World, ctx sdk.Context, id uint64) {
	if !s.funded() {
		return
	}
	t, err := w.App.TunnelKeeper.GetTunnel(ctx, id)
	if err != nil {
		panic(err)
	}
	mustOK("fund fee payer", w.Tx(ctx, 0, banktypes.NewMsgSend(bandtesting.FeePayer.Address,
		sdk.MustAccAddressFromBech32(t.FeePayer), sdk.NewCoins(sdk.NewInt64Coin("uband", 1000)))))
}

// amount resolves an amount kind against a reference quantity ("all" = ref).
func (s *spec) amount(kind string, ref coins, min coins) coins {
	denoms := min.denoms()
	d0 := denoms[0]
	switch kind {
	case "0":
		return coins{}
	case "1":
		return coins{d0: 1}
	case "1own": // one unit of the first denom of the reference quantity (the own deposit)
		if rd := ref.denoms(); len(rd) > 0 {
			return coins{rd[0]: 1}
		}
		return coins{}
	case "1b":
		if len(denoms) < 2 {
			return coins{}
		}
		return coins{denoms[1]: 1}
	case "min-1":
		return min.minus(coins{d0: 1})
	case "min":
		return min.clone()
	case "all":
		return ref.clone()
	case "all+1":
		return ref.plus(coins{d0: 1})
	}
	panic("amount kind " + kind)
}

// ---- alphabet ---------------------------------------------------------------------------------

var moveKinds = []string{"1", "1own", "1b", "min-1", "min", "all", "all+1"}

func (s *spec) accepted(c coins, min coins) coins {
	// the part of a wallet that is in denominations of the minimum deposit
	o := coins{}
	for _, d := range min.denoms() {
		if c[d] != 0 {
			o[d] = c[d]
		}
	}
	return o
}

func (s *spec) Enabled(w *engine.World, ctx sdk.Context, mm engine.Model, depth int) []string {
	m := mm.(*model)
	var evs []string
	if len(m.Tunnels) < s.cfg.MaxTunnels {
		for _, a := range s.cfg.Actors {
			seen := map[string]bool{}
			for _, kd := range []string{"0", "min-1", "min", "all+1"} {
				amt := s.amount(kd, s.accepted(m.Bal[a], m.Min), m.Min)
				if seen[amt.String()] {
					continue
				}
				seen[amt.String()] = true
				evs = append(evs, fmt.Sprintf("create:%s:%s", a, kd))
			}
		}
	}
	ids := []uint64{}
	for _, t := range m.Tunnels {
		ids = append(ids, t.ID)
	}
	ghost := uint64(len(m.Tunnels) + 1) // a tunnel that does not exist
	for _, id := range append(ids, ghost) {
		t := m.tunnel(id)
		for ai, a := range s.cfg.Actors {
			if t == nil && ai > 0 {
				continue
			}
			for _, op := range []string{"dep", "wd"} {
				ref := s.accepted(m.Bal[a], m.Min)
				if op == "wd" {
					ref = coins{}
					if t != nil {
						ref = t.Deposits[a]
					}
				}
				seen := map[string]bool{}
				for _, kd := range moveKinds {
					if t == nil && kd != "1" {
						continue
					}
					amt := s.amount(kd, ref, m.Min)
					if amt.isZero() || seen[amt.String()] {
						continue
					}
					seen[amt.String()] = true
					evs = append(evs, fmt.Sprintf("%s:%d:%s:%s", op, id, a, kd))
				}
			}
		}
		// management messages: by the creator and by one stranger
		who := []string{s.cfg.Actors[0]}
		if t != nil {
			who = []string{t.Creator}
			for _, a := range s.cfg.Actors {
				if a != t.Creator {
					who = append(who, a)
					break
				}
			}
		}
		if t != nil {
			// privileged non-creators: the module authority (governance account), the tunnel's own fee
			// payer account and the tunnel module account; the statement allows none of them
			who = append(who, "GOV", "FP", "MOD")
		}
		for _, a := range who {
			for _, op := range []string{"act", "deact", "trig"} {
				evs = append(evs, fmt.Sprintf("%s:%d:%s", op, id, a))
			}
		}
	}
	if m.Raises < s.cfg.MaxRaises && s.cfg.SwapDenom != "" {
		evs = append(evs, "raise:swap")
	} else if m.Raises < s.cfg.MaxRaises {
		evs = append(evs, "raise:+1")
		if d := s.cfg.RaiseDenom; d != "" && m.Min[d] == 0 {
			evs = append(evs, "raise:+denom")
		}
	}
	if m.Blocks < s.cfg.MaxBlocks {
		evs = append(evs, "block")
	}
	return evs
}

// ---- step -------------------------------------------------------------------------------------

// signer resolves the sender of a management message: an actor, the module authority, the fee payer
// account of the tunnel (given: read from the stored tunnel) or the tunnel module account.
func (s *spec) signer(w *engine.World, ctx sdk.Context, name string, tid uint64) string {
	switch name {
	case "GOV":
		return w.App.TunnelKeeper.GetAuthority()
	case "MOD":
		return authtypes.NewModuleAddress(tunneltypes.ModuleName).String()
	case "FP":
		t, err := w.App.TunnelKeeper.GetTunnel(ctx, tid)
		if err != nil {
			panic(err)
		}
		return t.FeePayer
	}
	return actor(name).Address.String()
}

type evInfo struct {
	kind     string // create dep wd act deact trig block
	tid      uint64
	by       string
	accepted bool
	legalAct bool // an Activate by the creator while the (model) total covers the minimum
	belowMin bool // an accepted withdrawal left the (model) total below the minimum
}

func (e evInfo) tag() string {
	if e.kind == "block" {
		return "at-block"
	}
	if e.accepted {
		return "after-accepted-" + e.kind
	}
	return "after-rejected-" + e.kind
}

func (s *spec) flags(w *engine.World, ctx sdk.Context) map[uint64]bool {
	out := map[uint64]bool{}
	for _, t := range w.App.TunnelKeeper.GetTunnels(ctx) {
		out[t.ID] = t.IsActive
	}
	return out
}

func (s *spec) Step(w *engine.World, ctx sdk.Context, mm engine.Model, ev string) (sdk.Context, engine.StepResult) {
	m := mm.(*model)
	var st engine.StepResult
	k := w.App.TunnelKeeper
	parts := strings.Split(ev, ":")
	info := evInfo{kind: parts[0]}
	pre := s.flags(w, ctx) // the stored flag of the parent state (verified against the index when it was reached)
	cov := func(t *mTunnel) string {
		if t == nil {
			return "no-tunnel"
		}
		if t.total().covers(m.Min) {
			return "covered"
		}
		return "below-min"
	}
	role := func(t *mTunnel, by string) string {
		if t == nil {
			return "anyone"
		}
		if t.Creator == by {
			return "creator"
		}
		switch by {
		case "GOV":
			return "authority"
		case "FP":
			return "fee-payer"
		case "MOD":
			return "module-account"
		}
		return "stranger"
	}
	onoff := func(b bool) string {
		if b {
			return "active"
		}
		return "inactive"
	}

	switch info.kind {
	case "create":
		info.by = parts[1]
		dep := s.amount(parts[2], s.accepted(m.Bal[info.by], m.Min), m.Min)
		before := k.GetTunnelCount(ctx)
		res := w.Tx(ctx, 0, s.createMsg(info.by, dep))
		info.accepted = res.OK()
		class := "affordable"
		if !m.Bal[info.by].covers(dep) {
			class = "over-balance"
		}
		st.Outcome = fmt.Sprintf("create:%s:%s:%s", parts[2], class, res.ErrName())
		st.Saw(fmt.Sprintf("create:%s:%s:%s", parts[2], class, verdict(res)))
		if res.OK() {
			id := k.GetTunnelCount(ctx)
			if id != before+1 || id != uint64(len(m.Tunnels))+1 {
				st.Violate("create:tunnel-id-not-sequential", "count %d -> %d with %d tunnels known", before, id, len(m.Tunnels))
				return ctx, st
			}
			info.tid = id
			t := &mTunnel{ID: id, Creator: info.by, Deposits: map[string]coins{}}
			if !dep.isZero() {
				t.Deposits[info.by] = dep
				m.Bal[info.by] = m.Bal[info.by].minus(dep)
			}
			m.Tunnels = append(m.Tunnels, t)
			s.afterCreate(w, ctx, id)
		}
	case "dep", "wd":
		info.tid, _ = strconv.ParseUint(parts[1], 10, 64)
		info.by = parts[2]
		t := m.tunnel(info.tid)
		acc := actor(info.by)
		if info.kind == "dep" {
			amt := s.amount(parts[3], s.accepted(m.Bal[info.by], m.Min), m.Min)
			res := w.Tx(ctx, 0, tunneltypes.NewMsgDepositToTunnel(info.tid, amt.sdk(), acc.Address.String()))
			info.accepted = res.OK()
			class := "affordable"
			if t == nil {
				class = "no-tunnel"
			} else if !m.Bal[info.by].covers(amt) {
				class = "over-balance"
			}
			st.Outcome = fmt.Sprintf("dep:%s:%s", class, res.ErrName())
			st.Saw(fmt.Sprintf("dep:%s:%s", class, verdict(res)))
			if res.OK() {
				if t == nil {
					st.Violate("deposit-accepted:no-such-tunnel", "%s accepted", ev)
					return ctx, st
				}
				// the statement's ledger: the record and the total grow by the amount, the wallet shrinks by it
				t.Deposits[info.by] = t.Deposits[info.by].plus(amt)
				m.Bal[info.by] = m.Bal[info.by].minus(amt)
			}
		} else {
			own := coins{}
			if t != nil {
				own = t.Deposits[info.by]
			}
			amt := s.amount(parts[3], own, m.Min)
			res := w.Tx(ctx, 0, tunneltypes.NewMsgWithdrawFromTunnel(info.tid, amt.sdk(), acc.Address.String()))
			info.accepted = res.OK()
			class := "within-own-deposit"
			switch {
			case t == nil:
				class = "no-tunnel"
			case own.isZero():
				class = "no-deposit"
			case !own.covers(amt):
				class = "exceeds-own-deposit"
			}
			expect := class == "within-own-deposit"
			st.Outcome = fmt.Sprintf("wd:%s:%s", class, res.ErrName())
			st.Saw(fmt.Sprintf("wd:%s:%s", class, verdict(res)))
			if class == "within-own-deposit" && !s.accepted(amt, m.Min).equal(amt) {
				st.Saw("wd:within-own-deposit:denom-no-longer-accepted:" + verdict(res))
			}
			if res.OK() && !expect {
				others := "others-hold-nothing"
				if t != nil && t.total().covers(amt) {
					others = "covered-by-other-depositors"
				}
				st.Violate("withdraw-accepted:"+class+":"+others,
					"%s withdrew %s from tunnel %d but its recorded deposit there is %s (%s)", info.by, amt, info.tid, own, ev)
				return ctx, st
			}
			if !res.OK() && expect {
				st.Violate("withdraw-of-own-deposit-rejected", "%s could not withdraw %s of its deposit %s from tunnel %d: %s (%s)",
					info.by, amt, own, info.tid, res.ErrName(), ev)
				return ctx, st
			}
			if res.OK() {
				t.Deposits[info.by] = own.minus(amt)
				m.Bal[info.by] = m.Bal[info.by].plus(amt)
				info.belowMin = !t.total().covers(m.Min)
				if pre[info.tid] {
					if info.belowMin {
						st.Saw("wd-from-active:to-below-min")
					} else {
						st.Saw("wd-from-active:still-covered")
					}
				}
			}
		}
	case "act", "deact", "trig":
		info.tid, _ = strconv.ParseUint(parts[1], 10, 64)
		info.by = parts[2]
		t := m.tunnel(info.tid)
		addr := s.signer(w, ctx, info.by, info.tid)
		var msg sdk.Msg
		switch info.kind {
		case "act":
			msg = tunneltypes.NewMsgActivate(info.tid, addr)
		case "deact":
			msg = tunneltypes.NewMsgDeactivate(info.tid, addr)
		default:
			msg = tunneltypes.NewMsgTriggerTunnel(info.tid, addr)
		}
		res := w.Tx(ctx, 0, msg)
		info.accepted = res.OK()
		st.Outcome = fmt.Sprintf("%s:%s:%s:%s:%s", info.kind, role(t, info.by), cov(t), onoff(pre[info.tid]), res.ErrName())
		st.Saw(fmt.Sprintf("%s:%s:%s:%s:%s", info.kind, role(t, info.by), cov(t), onoff(pre[info.tid]), verdict(res)))
		info.legalAct = info.kind == "act" && t != nil && t.Creator == info.by && t.total().covers(m.Min)
		if res.OK() {
			switch {
			case t == nil:
				st.Violate(info.kind+"-accepted:no-such-tunnel", "%s accepted", ev)
			case t.Creator != info.by:
				st.Violate(info.kind+"-accepted:not-the-creator", "%s accepted although the creator of tunnel %d is %s", ev, info.tid, t.Creator)
			case info.kind == "act" && !t.total().covers(m.Min):
				st.Violate("act-accepted:total-deposit-below-minimum", "%s accepted with total deposit %s < minimum %s", ev, t.total(), m.Min)
			case info.kind == "trig" && !pre[info.tid]:
				st.Violate("trig-accepted:tunnel-not-flagged-active", "%s accepted on an inactive tunnel", ev)
			}
			if len(st.Violations) > 0 {
				return ctx, st
			}
		}
	case "raise":
		// governance raises the minimum deposit through the real MsgUpdateParams handler; the statement
		// ties activation and withdrawal-deactivation to the minimum in force, nothing else may change
		newMin := m.Min.plus(coins{m.Min.denoms()[0]: 1})
		if parts[1] == "+denom" {
			newMin = m.Min.plus(coins{s.cfg.RaiseDenom: 1})
		}
		if parts[1] == "swap" { // replace the denom: base denom <-> SwapDenom, same amount
			from, to := s.min.denoms()[0], s.cfg.SwapDenom
			if m.Min[from] == 0 {
				from, to = to, from
			}
			newMin = m.Min.minus(coins{from: m.Min[from]}).plus(coins{to: m.Min[from]})
		}
		p := k.GetParams(ctx)
		p.MinDeposit = newMin.sdk()
		res := w.Tx(ctx, 0, tunneltypes.NewMsgUpdateParams(k.GetAuthority(), p))
		info.accepted = res.OK()
		st.Outcome = fmt.Sprintf("raise:%s:%s", parts[1], res.ErrName())
		if res.OK() {
			m.Min = newMin
			m.Raises++
			for _, t := range m.Tunnels {
				if pre[t.ID] && !t.total().covers(m.Min) {
					st.Saw("raise:leaves-active-tunnel-below-minimum")
				}
			}
		}
	case "block":
		info.accepted = true
		m.Blocks++
		// given (C08's subject): whether a tunnel is due by its interval at this end-block; a tunnel that
		// is not due and sees no price deviation is iterated without leaving an observable trace
		due := map[uint64]bool{}
		for _, t := range m.Tunnels {
			tun, err1 := k.GetTunnel(ctx, t.ID)
			lp, err2 := k.GetLatestPrices(ctx, t.ID)
			due[t.ID] = err1 == nil && err2 == nil && ctx.BlockTime().Unix() >= int64(tun.Interval)+lp.LastInterval
		}
		next, br := w.Block(ctx, 1, 3*time.Second)
		if br.Halt != "" {
			st.Violate("block-halt", "%s", br.Halt)
			return ctx, st
		}
		ctx = next
		// processed as active <=> flagged active (the flag of the state the end-block started from)
		processed := map[uint64]bool{}
		for _, e := range br.EndEvents {
			switch e.Type {
			case tunneltypes.EventTypeProducePacketFail, tunneltypes.EventTypeProducePacketSuccess, tunneltypes.EventTypeDeactivateTunnel:
				id, _ := strconv.ParseUint(engine.Attr(e, tunneltypes.AttributeKeyTunnelID), 10, 64)
				processed[id] = true
				st.Saw("endblock:" + e.Type)
			}
		}
		n := 0
		for _, t := range m.Tunnels {
			if pre[t.ID] && !due[t.ID] {
				st.Saw("endblock:active-but-not-due")
			}
			if pre[t.ID] && due[t.ID] && !processed[t.ID] {
				st.Violate("endblock-skipped-a-tunnel-flagged-active", "tunnel %d is flagged active and due but the end-block emitted no produce/deactivate event for it", t.ID)
			}
			if !pre[t.ID] && processed[t.ID] {
				st.Violate("endblock-processed-a-tunnel-not-flagged-active", "tunnel %d is not flagged active but was processed at end-block", t.ID)
			}
			if pre[t.ID] {
				n++
			}
		}
		st.Outcome = fmt.Sprintf("block:active=%d", n)
	default:
		panic("event " + ev)
	}

	s.checkLedger(w, ctx, m, &st, info)
	s.checkFlags(w, ctx, m, &st, pre, info)
	if s.cfg.Genesis && info.accepted && len(st.Violations) == 0 {
		s.checkGenesisRoundTrip(w, ctx, m, &st)
	}
	return ctx, st
}

// checkLedger compares the three ledgers and the wallets with the model.
func (s *spec) checkLedger(w *engine.World, ctx sdk.Context, m *model, st *engine.StepResult, info evInfo) {
	k := w.App.TunnelKeeper
	tag := info.tag()
	if n := k.GetTunnelCount(ctx); n != uint64(len(m.Tunnels)) {
		st.Violate("tunnel-count-differs:"+tag, "stored %d, expected %d", n, len(m.Tunnels))
		return
	}
	name := map[string]string{}
	for _, a := range s.cfg.Actors {
		name[actor(a).Address.String()] = a
	}
	sumTotals := coins{}
	expTotals := coins{}
	for _, t := range m.Tunnels {
		st0, err := k.GetTunnel(ctx, t.ID)
		if err != nil {
			st.Violate("tunnel-missing:"+tag, "tunnel %d: %v", t.ID, err)
			continue
		}
		if st0.Creator != actor(t.Creator).Address.String() {
			st.Violate("creator-changed:"+tag, "tunnel %d creator %s, expected %s", t.ID, st0.Creator, t.Creator)
		}
		stored := fromSDK(st0.TotalDeposit)
		sum := coins{}
		recs := map[string]coins{}
		for _, d := range k.GetDeposits(ctx, t.ID) {
			amt := fromSDK(d.Amount)
			sum = sum.plus(amt)
			n, ok := name[d.Depositor]
			if !ok {
				n = d.Depositor
			}
			recs[n] = recs[n].plus(amt)
			if d.TunnelID != t.ID {
				st.Violate("deposit-record-under-wrong-tunnel:"+tag, "record %+v listed under tunnel %d", d, t.ID)
			}
		}
		if !sum.equal(stored) {
			st.Violate("total-deposit-differs-from-sum-of-deposit-records:"+tag, "tunnel %d: TotalDeposit %s, sum of records %s", t.ID, stored, sum)
		}
		if !stored.equal(t.total()) {
			st.Violate("total-deposit-differs-from-ledger:"+tag, "tunnel %d: TotalDeposit %s, expected %s", t.ID, stored, t.total())
		}
		for _, a := range sortedKeys(recs) {
			if !recs[a].equal(t.Deposits[a]) {
				st.Violate("deposit-record-differs-from-ledger:"+tag, "tunnel %d depositor %s: recorded %s, expected %s", t.ID, a, recs[a], t.Deposits[a])
			}
		}
		for _, a := range sortedKeys(t.Deposits) {
			if _, ok := recs[a]; !ok && !t.Deposits[a].isZero() {
				st.Violate("deposit-record-differs-from-ledger:"+tag, "tunnel %d depositor %s: no record, expected %s", t.ID, a, t.Deposits[a])
			}
		}
		sumTotals = sumTotals.plus(stored)
		expTotals = expTotals.plus(t.total())
	}
	module := fromSDK(w.App.BankKeeper.GetAllBalances(ctx, authtypes.NewModuleAddress(tunneltypes.ModuleName)))
	if !module.covers(sumTotals) {
		st.Violate("deposits-not-held-by-module-account:"+tag, "module account holds %s, total deposits %s", module, sumTotals)
	}
	fees := fromSDK(k.GetTotalFees(ctx).TotalBasePacketFee)
	if !module.equal(expTotals.plus(fees)) {
		st.Violate("module-balance-differs-from-deposits-plus-base-fees:"+tag, "module account holds %s, deposits %s + collected base packet fees %s", module, expTotals, fees)
	}
	for _, a := range s.cfg.Actors {
		got := fromSDK(w.App.BankKeeper.GetAllBalances(ctx, actor(a).Address))
		if !got.equal(m.Bal[a]) {
			fp := "wallet-differs-from-ledger:" + tag
			if info.kind == "wd" && info.accepted && a == info.by {
				fp = "withdrawer-did-not-receive-exactly-the-amount"
			}
			st.Violate(fp, "%s holds %s, expected %s", a, got, m.Bal[a])
		}
	}
}

// checkFlags: monitors on the active flag, the active index and what may change them.
func (s *spec) checkFlags(w *engine.World, ctx sdk.Context, m *model, st *engine.StepResult, pre map[uint64]bool, info evInfo) {
	k := w.App.TunnelKeeper
	post := s.flags(w, ctx)
	index := map[uint64]bool{}
	for _, id := range k.GetActiveTunnelIDs(ctx) {
		index[id] = true
	}
	for _, t := range m.Tunnels {
		f0, f1 := pre[t.ID], post[t.ID]
		mine := info.tid == t.ID
		if f1 && !index[t.ID] {
			st.Violate("flagged-active-but-not-in-active-index:"+info.tag(), "tunnel %d", t.ID)
		}
		if !f1 && index[t.ID] {
			st.Violate("in-active-index-but-not-flagged-active:"+info.tag(), "tunnel %d", t.ID)
		}
		if !f0 && f1 {
			switch {
			case !(mine && info.kind == "act" && info.accepted):
				st.Violate("became-active-without-activate:"+info.tag(), "tunnel %d became active by %s %d", t.ID, info.kind, info.tid)
			case t.Creator != info.by:
				st.Violate("act-accepted:not-the-creator", "tunnel %d activated by %s, creator %s", t.ID, info.by, t.Creator)
			case !info.legalAct:
				st.Violate("act-accepted:total-deposit-below-minimum", "tunnel %d activated with total %s < %s", t.ID, t.total(), m.Min)
			}
		}
		if mine && info.accepted {
			switch info.kind {
			case "act":
				if !f1 {
					st.Violate("activate-accepted-but-tunnel-not-active", "tunnel %d", t.ID)
				}
			case "deact":
				if f1 {
					st.Violate("deactivate-accepted-but-tunnel-still-active", "tunnel %d", t.ID)
				}
			case "wd":
				if info.belowMin && f1 {
					st.Violate("withdrawal-below-minimum-left-tunnel-active", "tunnel %d: total %s < minimum %s but still active", t.ID, t.total(), m.Min)
				}
				if info.belowMin && f0 && !f1 {
					st.Saw("wd-below-min:deactivated")
				}
			}
		}
		if f0 && !f1 {
			st.Saw("flag-off-by:" + info.kind)
		}
	}
	for id := range index {
		if m.tunnel(id) == nil {
			st.Violate("active-index-names-unknown-tunnel:"+info.tag(), "id %d", id)
		}
	}
}

// ---- registration -----------------------------------------------------------------------------

func configs(quick bool) []Cfg {
	ab := []string{"A", "B"}
	abc := []string{"A", "B", "C"}
	q := []Cfg{
		{Name: "1denom-2pre", MinDeposit: "4uband", BaseFee: "", Route: "tss", Actors: ab,
			Balances: map[string]string{"A": "6uband", "B": "5uband"},
			Pre:      []PreTunnel{{"A", "0"}, {"B", "min"}}, MaxTunnels: 2, MaxBlocks: 1, Depth: 5},
		{Name: "1denom-create", MinDeposit: "3uband", BaseFee: "1uband", Route: "ibc", Actors: ab,
			Balances: map[string]string{"A": "4uband", "B": "3uband"},
			Pre:      nil, MaxTunnels: 2, MaxBlocks: 1, Depth: 5},
		{Name: "2denom-1pre", MinDeposit: "3uband,2uusd", BaseFee: "", Route: "tss", Actors: ab,
			Balances: map[string]string{"A": "4uband,3uusd", "B": "3uband,2uusd"},
			Pre:      []PreTunnel{{"A", "min-1"}}, MaxTunnels: 2, MaxBlocks: 1, Depth: 4},
		{Name: "delivering", MinDeposit: "3uband", BaseFee: "1uband", Route: "tss-ready", Actors: ab,
			Balances: map[string]string{"A": "4uband", "B": "3uband"},
			Pre:      []PreTunnel{{"A", "min"}}, MaxTunnels: 2, MaxBlocks: 2, Depth: 5},
		{Name: "failing-funded", MinDeposit: "3uband", BaseFee: "1uband", Route: "tss-funded", Actors: ab,
			Balances: map[string]string{"A": "4uband", "B": "3uband"},
			Pre:      []PreTunnel{{"A", "min"}}, MaxTunnels: 2, MaxBlocks: 2, Depth: 5},
	}
	// genesis round trip: states reached by the alphabet plus governance raises of the minimum deposit
	// (so that active tunnels below the minimum in force exist), each exported and imported afresh
	gen := Cfg{Name: "genesis-roundtrip", MinDeposit: "3uband", BaseFee: "", Route: "tss", Actors: ab,
		Balances: map[string]string{"A": "4uband", "B": "3uband"},
		Pre:      []PreTunnel{{"A", "min"}, {"B", "0"}}, MaxTunnels: 2, MaxBlocks: 1, MaxRaises: 1, Genesis: true, Depth: 5}
	// denom replacement: governance swaps the denom of the minimum deposit (3uband <-> 3uusd) while
	// deposits recorded in the old denom exist; they must stay withdrawable by their owners
	swap := Cfg{Name: "denom-swap", MinDeposit: "3uband", BaseFee: "", Route: "tss", Actors: ab,
		Balances: map[string]string{"A": "4uband,3uusd", "B": "3uband"},
		Pre:      []PreTunnel{{"A", "min"}, {"B", "0"}}, MaxTunnels: 2, MaxBlocks: 1, MaxRaises: 2, SwapDenom: "uusd", Genesis: true, Depth: 4}
	if quick {
		q[0].Depth = 6
		return append(q, gen, swap)
	}
	// thorough: two levels deeper with two end-blocks; the two small single-denom configurations run
	// last and until the frontier is empty (with the number of blocks bounded their reachable state
	// space is finite), so that the global time cap cannot starve the other configurations
	t := []Cfg{}
	for _, i := range []int{2, 3, 4} {
		c := q[i]
		c.Depth += 2
		c.MaxBlocks = 2
		t = append(t, c)
	}
	t = append(t,
		Cfg{Name: "1denom-3actors", MinDeposit: "4uband", BaseFee: "1uband", Route: "tss", Actors: abc,
			Balances: map[string]string{"A": "5uband", "B": "4uband", "C": "2uband"},
			Pre:      []PreTunnel{{"A", "1"}, {"B", "0"}}, MaxTunnels: 3, MaxBlocks: 2, Depth: 5},
		Cfg{Name: "2denom-3actors", MinDeposit: "2uband,2uusd", BaseFee: "", Route: "ibc", Actors: abc,
			Balances: map[string]string{"A": "3uband,2uusd", "B": "2uband,3uusd", "C": "1uband,1uusd"},
			Pre:      []PreTunnel{{"A", "min"}, {"C", "0"}}, MaxTunnels: 2, MaxBlocks: 2, Depth: 5},
	)
	gen.Depth, gen.MaxRaises, gen.MaxBlocks = 6, 2, 2
	swap.Depth = 6
	t = append(t, swap, gen,
		Cfg{Name: "genesis-roundtrip-2denom", MinDeposit: "2uband", BaseFee: "1uband", Route: "ibc", Actors: ab,
			Balances: map[string]string{"A": "3uband,1uusd", "B": "2uband,1uusd"},
			Pre:      []PreTunnel{{"A", "min"}}, MaxTunnels: 2, MaxBlocks: 1, MaxRaises: 2, RaiseDenom: "uusd", Genesis: true, Depth: 5})
	for _, i := range []int{0, 1} {
		c := q[i]
		c.Depth = 14
		c.MaxBlocks = 2
		t = append(t, c)
	}
	return t
}

func init() {
	engine.Register(&engine.Check{
		ID: "C17",
		Run: func(r *engine.Run) {
			r.Bound = "2-3 accounts with wallets of 1-6 units per denom, <=2-3 tunnels (pre-created and/or created during the search), minimum deposit of 1 or 2 denoms, routes that fail (tss without group, ibc without channel) or deliver (tss with a live 2-of-2 group and funded fee payers); every create/deposit/withdraw amount in {1 per denom, min-1, min, all, all+1} resolved against the wallet / the own deposit, activate/deactivate/trigger by the creator, a stranger, the module authority (gov account), the tunnel's fee payer and the tunnel module account, one non-existent tunnel id, <=1 (quick; 2 in the delivering configuration) / <=2 (thorough) end-blocks; BFS depth 4-6 (quick) / 5-7 and to an empty frontier for the two small single-denom configurations (thorough)"
			r.Assumptions = []string{
				"Tx seam = ValidateBasic + message-router handler in a cache context (ante chain not executed here; see C02)",
				"deposit and create acceptance are taken as given (the statement does not fix them); their effects on the three ledgers and on the wallet are checked",
				"activation acceptance is checked in the stated direction only (accepted => creator and total >= minimum)",
				"the minimum deposit changes only in the genesis-roundtrip configurations (raise events through the real MsgUpdateParams); the statement is read against the minimum in force: a raise does not by itself deactivate a tunnel",
				"genesis round trip: TunnelKeeper ExportGenesis -> InitGenesis into a clean branch of a fresh application; the module account's bank balance (carried by the bank genesis, not the tunnel genesis) is supplied from the source state; fee payer accounts and latest prices are not carried",
				"routes never deliver in the tss/ibc configurations (no signing group / no channel): an active tunnel is observed as processed through its produce_packet_fail or deactivate_tunnel end-block event",
			}
			r.Required = required(r.Quick())
			deadline := r.Deadline(12*time.Minute, 40*time.Minute)
			for _, c := range configs(r.Quick()) {
				sp := newSpec(c)
				sr := engine.Search(sp, engine.SearchOpts{Depth: c.Depth, Deadline: deadline})
				r.AddSearch(c.Name, c, sr)
				if len(r.Violations) > 0 {
					break
				}
			}
			if !r.Exhaustive {
				// a run cut short by the time cap need not have met every observation; never a failure
				r.Required = nil
				r.Notes = append(r.Notes, "vacuity guard not applied: the time cap ended the run before all configurations were explored")
			}
			r.ConfirmViolations(func(cfg any) engine.Spec { return newSpec(cfg.(Cfg)) })
		},
		Replay: func(raw json.RawMessage, path []string) (engine.StepResult, []string) {
			var c Cfg
			if err := json.Unmarshal(raw, &c); err != nil {
				panic(err)
			}
			last, outs, _ := engine.Replay(newSpec(c), path)
			return last, outs
		},
	})
}

// verdict is the code-independent part of a transaction outcome (used by the vacuity guard).
func verdict(r engine.TxResult) string {
	if r.OK() {
		return "accepted"
	}
	return "rejected"
}

// required lists the observations without which a run would be vacuous: every clause of the
// statement must have been exercised in both directions on the explored state space.
func required(quick bool) []string {
	return []string{
		"create:0:affordable:accepted", "create:min:affordable:accepted", "create:min:over-balance:rejected",
		"dep:affordable:accepted", "dep:over-balance:rejected", "dep:no-tunnel:rejected",
		"wd:within-own-deposit:accepted", "wd:exceeds-own-deposit:rejected", "wd:no-deposit:rejected", "wd:no-tunnel:rejected",
		"act:creator:covered:inactive:accepted", "act:creator:below-min:inactive:rejected",
		"act:stranger:covered:inactive:rejected", "act:stranger:below-min:inactive:rejected",
		"deact:creator:covered:active:accepted", "deact:stranger:covered:active:rejected",
		"trig:creator:covered:active:accepted", "trig:creator:covered:inactive:rejected", "trig:stranger:covered:active:rejected",
		"act:authority:covered:inactive:rejected", "deact:authority:covered:active:rejected", "trig:authority:covered:active:rejected",
		"act:fee-payer:covered:inactive:rejected", "act:module-account:covered:inactive:rejected",
		"wd-from-active:to-below-min", "wd-from-active:still-covered", "wd-below-min:deactivated",
		"block:active=1", "block:active=2",
		"raise:leaves-active-tunnel-below-minimum", "genesis-roundtrip:active=0", "genesis-roundtrip:active=1",
		"genesis-roundtrip:active-tunnel-below-current-minimum",
		"wd:within-own-deposit:denom-no-longer-accepted:accepted",
		"endblock:produce_packet_fail", "endblock:produce_packet_success", "endblock:deactivate_tunnel", "endblock:active-but-not-due",
	}
}
