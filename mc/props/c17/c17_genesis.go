package c17

import (
	"fmt"
	"runtime/debug"
	"strconv"
	"strings"

	sdk "github.com/cosmos/cosmos-sdk/types"
	minttypes "github.com/cosmos/cosmos-sdk/x/mint/types"

	tunnelkeeper "github.com/bandprotocol/chain/v3/x/tunnel/keeper"
	tunneltypes "github.com/bandprotocol/chain/v3/x/tunnel/types"
	"github.com/bandprotocol/chain/v3/zzverif/engine"
)

// checkGenesisRoundTrip exports the tunnel genesis of the state just reached, imports it into a
// clean branch of a fresh application (hard fork / restart from an exported genesis) and requires
// on the imported state what the statement requires of every state, restricted to what the tunnel
// genesis carries: the tunnel records, deposit records and collected fees are those of the source,
// every total is the sum of its deposit records, a tunnel is flagged active iff it is in the active
// index iff the end-block processes it.  The bank balance of the module account is not part of the
// tunnel genesis (the bank genesis carries it): the source's balance is supplied as environment.
func (s *spec) checkGenesisRoundTrip(w *engine.World, ctx sdk.Context, m *model, st *engine.StepResult) {
	s.mu.Lock()
	w2 := s.imports[w.ID]
	s.mu.Unlock()
	if w2 == nil {
		panic("c17: no import world")
	}
	src := w.App.TunnelKeeper
	dst := w2.App.TunnelKeeper
	gs := tunnelkeeper.ExportGenesis(ctx, src)
	ictx := engine.Fork(w2.Root)

	// environment: what the bank genesis would carry for the tunnel module account
	if bal := src.GetModuleBalance(ctx); !bal.IsZero() {
		if err := w2.App.BankKeeper.MintCoins(ictx, minttypes.ModuleName, bal); err != nil {
			panic(err)
		}
		if err := w2.App.BankKeeper.SendCoinsFromModuleToModule(ictx, minttypes.ModuleName, tunneltypes.ModuleName, bal); err != nil {
			panic(err)
		}
	}
	var crash string
	func() {
		defer func() {
			if r := recover(); r != nil {
				crash = fmt.Sprintf("%v\n%s", r, firstRepoFrames(debug.Stack()))
			}
		}()
		tunnelkeeper.InitGenesis(ictx, dst, gs)
	}()
	if crash != "" {
		st.Violate("genesis-import-of-reachable-state-panics", "InitGenesis(ExportGenesis(state)) panicked: %s", crash)
		return
	}
	st.Saw("genesis-roundtrip")

	// the tunnel genesis is reproduced
	gs2 := tunnelkeeper.ExportGenesis(ictx, dst)
	if a, b := canon(w, gs), canon(w2, gs2); a != b {
		st.Violate("genesis-roundtrip-changes-exported-state", "exported %s, re-exported after import %s", a, b)
	}
	// totals, records, flag, index
	index := map[uint64]bool{}
	for _, id := range dst.GetActiveTunnelIDs(ictx) {
		index[id] = true
	}
	flagged := map[uint64]bool{}
	nActive := 0
	for _, t := range m.Tunnels {
		it, err := dst.GetTunnel(ictx, t.ID)
		if err != nil {
			st.Violate("genesis-import:tunnel-missing", "tunnel %d: %v", t.ID, err)
			continue
		}
		sum := coins{}
		for _, d := range dst.GetDeposits(ictx, t.ID) {
			sum = sum.plus(fromSDK(d.Amount))
		}
		if tot := fromSDK(it.TotalDeposit); !tot.equal(sum) || !tot.equal(t.total()) {
			st.Violate("genesis-import:total-deposit-differs-from-sum-of-deposit-records", "tunnel %d: TotalDeposit %s, records %s, expected %s", t.ID, tot, sum, t.total())
		}
		flagged[t.ID] = it.IsActive
		if it.IsActive {
			nActive++
			if !t.total().covers(m.Min) {
				st.Saw("genesis-roundtrip:active-tunnel-below-current-minimum")
			}
		}
		if it.IsActive && !index[t.ID] {
			st.Violate("genesis-import:flagged-active-but-not-in-active-index", "tunnel %d (total %s, minimum in force %s)", t.ID, t.total(), m.Min)
		}
		if !it.IsActive && index[t.ID] {
			st.Violate("genesis-import:in-active-index-but-not-flagged-active", "tunnel %d", t.ID)
		}
	}
	st.Saw(fmt.Sprintf("genesis-roundtrip:active=%d", nActive))
	if len(st.Violations) > 0 {
		return
	}
	// processed at end-block <=> flagged active (after an import every tunnel is due: LastInterval = 0)
	evs, halt := w2.EndBlock(ictx)
	if halt != "" {
		st.Violate("genesis-import:block-halt", "%s", halt)
		return
	}
	processed := map[uint64]bool{}
	for _, e := range evs {
		switch e.Type {
		case tunneltypes.EventTypeProducePacketFail, tunneltypes.EventTypeProducePacketSuccess, tunneltypes.EventTypeDeactivateTunnel:
			id, _ := strconv.ParseUint(engine.Attr(e, tunneltypes.AttributeKeyTunnelID), 10, 64)
			processed[id] = true
		}
	}
	for _, t := range m.Tunnels {
		if flagged[t.ID] && !processed[t.ID] {
			st.Violate("genesis-import:endblock-skipped-a-tunnel-flagged-active", "tunnel %d", t.ID)
		}
		if !flagged[t.ID] && processed[t.ID] {
			st.Violate("genesis-import:endblock-processed-a-tunnel-not-flagged-active", "tunnel %d", t.ID)
		}
	}
}

func canon(w *engine.World, gs *tunneltypes.GenesisState) string {
	bz, err := w.App.AppCodec().MarshalJSON(gs)
	if err != nil {
		return "marshal error: " + err.Error()
	}
	return string(sdk.MustSortJSON(bz))
}

func firstRepoFrames(b []byte) string {
	var out []string
	for _, l := range strings.Split(string(b), "\n") {
		if strings.Contains(l, "bandprotocol/chain") && !strings.Contains(l, "zzverif") {
			out = append(out, strings.TrimSpace(l))
		}
		if len(out) >= 6 {
			break
		}
	}
	return strings.Join(out, " | ")
}
