package c17

import (
	"fmt"
	"time"

	sdk "github.com/cosmos/cosmos-sdk/types"

	"github.com/bandprotocol/chain/v3/pkg/tss"
	bandtesting "github.com/bandprotocol/chain/v3/testing"
	bandtsstypes "github.com/bandprotocol/chain/v3/x/bandtss/types"
	tsstypes "github.com/bandprotocol/chain/v3/x/tss/types"
	"github.com/bandprotocol/chain/v3/zzverif/engine"
)

// buildSigningGroup brings up a 2-of-2 bandtss signing group through the real handlers
// (MsgTransitionGroup by the authority, the three DKG rounds, MsgSubmitDEs, whole-app blocks up to
// the execution time), so that TSS-route packets are delivered and their fees are charged.  It is
// environment for C17 (group life cycle is C04/C18's subject).
func (s *spec) buildSigningGroup(w *engine.World, ctx sdk.Context) sdk.Context {
	members := []bandtesting.Account{bandtesting.Validators[0], bandtesting.Validators[1]}
	n, threshold := uint64(len(members)), uint64(2)
	block := func(dt time.Duration) {
		next, br := w.Block(ctx, 1, dt)
		if br.Halt != "" {
			panic("tss-ready base: " + br.Halt)
		}
		ctx = next
	}
	bk := w.App.BandtssKeeper
	bp := bk.GetParams(ctx)
	bp.MinTransitionDuration = time.Second
	mustOK("bandtss params", w.Tx(ctx, 0, bandtsstypes.NewMsgUpdateParams(bk.GetAuthority(), bp)))
	var addrs []string
	for _, m := range members {
		addrs = append(addrs, m.Address.String())
	}
	exec := ctx.BlockTime().Add(30 * time.Second)
	mustOK("transition group", w.Tx(ctx, 0, bandtsstypes.NewMsgTransitionGroup(addrs, threshold, exec, bk.GetAuthority())))
	gid := tss.GroupID(w.App.TSSKeeper.GetGroupCount(ctx))
	dkg, err := w.App.TSSKeeper.GetDKGContext(ctx, gid)
	if err != nil {
		panic(err)
	}

	// round 1
	r1 := make([]tss.Round1Info, n)
	for i := uint64(0); i < n; i++ {
		mid := tss.MemberID(i + 1)
		r, err := tss.GenerateRound1Info(mid, threshold, dkg)
		if err != nil {
			panic(err)
		}
		r1[i] = *r
		info := tsstypes.NewRound1Info(mid, r.CoefficientCommits, r.OneTimePubKey, r.A0Signature, r.OneTimeSignature)
		mustOK("round1", w.Tx(ctx, 0, tsstypes.NewMsgSubmitDKGRound1(gid, info, addrs[i])))
	}
	block(3 * time.Second)

	// round 2
	pubs := make(tss.Points, n)
	for i := range r1 {
		pubs[i] = r1[i].OneTimePubKey
	}
	enc := make([]tss.EncSecretShares, n)
	for i := uint64(0); i < n; i++ {
		mid := tss.MemberID(i + 1)
		e, err := tss.ComputeEncryptedSecretShares(mid, r1[i].OneTimePrivKey, pubs, r1[i].Coefficients, tss.DefaultNonce16Generator{})
		if err != nil {
			panic(err)
		}
		enc[i] = e
		mustOK("round2", w.Tx(ctx, 0, tsstypes.NewMsgSubmitDKGRound2(gid, tsstypes.NewRound2Info(mid, e), addrs[i])))
	}
	block(3 * time.Second)

	// round 3: every member derives its own key and confirms
	secrets := make([]tss.Scalar, n)
	for i := uint64(0); i < n; i++ {
		mid := tss.MemberID(i + 1)
		shares := make(tss.Scalars, n)
		for j := uint64(0); j < n; j++ {
			if j == i {
				sh, err := tss.ComputeSecretShare(r1[j].Coefficients, mid)
				if err != nil {
					panic(err)
				}
				shares[j] = sh
				continue
			}
			sym, err := tss.ComputeSecretSym(r1[i].OneTimePrivKey, r1[j].OneTimePubKey)
			if err != nil {
				panic(err)
			}
			shift := uint64(0)
			if i > j {
				shift = 1
			}
			sh, err := tss.DecryptSecretShare(enc[j][i-shift], sym)
			if err != nil {
				panic(err)
			}
			shares[j] = sh
		}
		priv, err := tss.ComputeOwnPrivateKey(shares...)
		if err != nil {
			panic(err)
		}
		secrets[i] = priv
		sig, err := tss.SignOwnPubKey(mid, dkg, priv.Point(), priv)
		if err != nil {
			panic(err)
		}
		mustOK("confirm", w.Tx(ctx, 0, tsstypes.NewMsgConfirm(gid, mid, sig, addrs[i])))
	}
	block(3 * time.Second)
	if g := w.App.TSSKeeper.MustGetGroup(ctx, gid); g.Status != tsstypes.GROUP_STATUS_ACTIVE {
		panic(fmt.Sprintf("tss-ready base: group status %s", g.Status))
	}

	// nonces: enough for every packet of the deepest path
	for i := uint64(0); i < n; i++ {
		var des []tsstypes.DE
		for j := 0; j < 40; j++ {
			d, err := tss.GenerateSigningNonce(secrets[i])
			if err != nil {
				panic(err)
			}
			e, err := tss.GenerateSigningNonce(secrets[i])
			if err != nil {
				panic(err)
			}
			des = append(des, tsstypes.NewDE(d.Point(), e.Point()))
		}
		mustOK("submit DEs", w.Tx(ctx, 0, tsstypes.NewMsgSubmitDEs(des, addrs[i])))
	}
	block(40 * time.Second) // past the execution time: the incoming group becomes the current group
	if cur := bk.GetCurrentGroup(ctx).GroupID; cur != gid {
		block(3 * time.Second)
		if cur = bk.GetCurrentGroup(ctx).GroupID; cur != gid {
			panic(fmt.Sprintf("tss-ready base: current group %d, want %d", cur, gid))
		}
	}
	return ctx
}
