package c18

import (
	"encoding/json"
	"fmt"
	"time"

	"github.com/bandprotocol/chain/v3/zzverif/engine"
)

func configs(quick bool) []Cfg {
	life := []string{"propose:min", "propose:max", "propose:past", "propose:late", "probe", "dkg", "spoil", "sig", "block", "jump"}
	handover := []string{"force:min", "force:max", "probe", "req", "reqgov", "inde", "sig", "block", "jumpexec"}
	boot := []string{"propose:min", "propose:max", "probe", "dkg", "req", "inde", "sig", "block", "jump"}
	retry := []string{"propose:max", "dkgfast", "sigany", "act", "block", "jumpexec"}
	nonce := []string{"propose:max", "dkgfast", "req", "sig", "block", "jumpexec"}
	signed := []string{"propose:max", "dkgfast", "sig", "req", "inde", "block", "jumpexec"}
	again := []string{"propose:min", "propose:max", "force:min", "probe", "dkgfast", "block", "jumpexec", "expire"}
	staleSig := []string{"propose:max", "dkgfast", "stale", "sig", "block", "jumpexec"}
	frac := []string{"propose:frac", "force:frac", "probe", "dkgfast", "sig", "block", "jumpfrac"}
	overlap := []string{"propose:max", "dkgfast", "sig", "req", "act", "block"}
	gsize := []string{"force:min", "propose:max", "dkgfast", "sig", "maxgs", "probe", "block", "jumpexec"}
	if quick {
		return []Cfg{
			// A: the whole life cycle of one proposal at round granularity, all timings around the exec time
			{Name: "lifecycle", CurN: 3, CurT: 2, IncN: 2, IncT: 2, SigningPeriod: 2, MaxSigningAttempt: 1, CreationPeriod: 5,
				InitDE: 3, MaxProposals: 1, MaxReq: 0, MaxTransitionSec: 30, FeePerSigner: 10, Events: life, Depth: 12},
			// B: forced transitions to a finished former group, requests while the transition awaits execution
			{Name: "handover-requests", CurN: 2, CurT: 2, IncN: 2, IncT: 1, Spare: true, SigningPeriod: 2, MaxSigningAttempt: 1, CreationPeriod: 5,
				InitDE: 3, MaxProposals: 1, MaxReq: 1, MaxTransitionSec: 30, FeePerSigner: 10, Events: handover, Depth: 8},
			// C: the module's first group (nobody to hand over)
			{Name: "first-group", CurN: 0, IncN: 2, IncT: 1, SigningPeriod: 2, MaxSigningAttempt: 1, CreationPeriod: 5,
				InitDE: 0, MaxProposals: 1, MaxReq: 1, MaxTransitionSec: 30, FeePerSigner: 10, Events: boot, Depth: 9},
			// D: hand-over signing timed out and retried, idle members deactivated and re-activated
			{Name: "retry", CurN: 3, CurT: 2, IncN: 2, IncT: 2, SameAccounts: true, SigningPeriod: 1, MaxSigningAttempt: 2, CreationPeriod: 8,
				InitDE: 2, MaxProposals: 1, MaxReq: 0, MaxTransitionSec: 60, FeePerSigner: 5, Events: retry, Depth: 10},
			// E: too few nonces for the hand-over signing
			{Name: "scarce-nonces", CurN: 2, CurT: 2, IncN: 2, IncT: 2, SigningPeriod: 2, MaxSigningAttempt: 1, CreationPeriod: 8,
				InitDE: 1, MaxProposals: 1, MaxReq: 1, MaxTransitionSec: 60, FeePerSigner: 5, Events: nonce, Depth: 8},
			// F: requests during a signed (not forced) hand-over: incoming group with and without nonces
			{Name: "signed-handover-requests", CurN: 2, CurT: 1, IncN: 2, IncT: 2, SigningPeriod: 3, MaxSigningAttempt: 1, CreationPeriod: 8,
				InitDE: 3, MaxProposals: 1, MaxReq: 1, MaxTransitionSec: 60, FeePerSigner: 7, Events: signed, Depth: 9},
			// G: a second proposal after a dropped one; forced transitions to groups left behind by dropped proposals
			// (unfinished, expired, finished)
			{Name: "after-a-dropped-proposal", CurN: 2, CurT: 2, IncN: 2, IncT: 1, SigningPeriod: 3, MaxSigningAttempt: 1, CreationPeriod: 3,
				InitDE: 3, MaxProposals: 2, MaxReq: 0, MaxTransitionSec: 60, FeePerSigner: 7, Events: again, Depth: 8},
			// H: the hand-over signing of a dropped transition stays open in x/tss (long signing period) and is
			// signed while a second transition waits for its own hand-over signature
			{Name: "stale-handover-signing", CurN: 2, CurT: 1, IncN: 2, IncT: 1, SigningPeriod: 30, MaxSigningAttempt: 2, CreationPeriod: 8,
				InitDE: 4, MaxProposals: 2, MaxReq: 0, MaxTransitionSec: 15, FeePerSigner: 7, Events: staleSig, Depth: 11},
			// I: exec times with a sub-second part and block times in the same second just before / at them
			{Name: "sub-second-exec-time", CurN: 2, CurT: 1, IncN: 2, IncT: 1, Spare: true, SigningPeriod: 3, MaxSigningAttempt: 1, CreationPeriod: 8,
				InitDE: 3, MaxProposals: 1, MaxReq: 0, MaxTransitionSec: 20, FeePerSigner: 7, Events: frac, Depth: 8},
			// J: overlapping membership (current {A,B,C} t=2, incoming {A,B}): a request mirrored to the incoming
			// group whose copy nobody signs; (de)activations of one membership must not touch the other
			{Name: "overlapping-membership", CurN: 3, CurT: 2, IncN: 2, IncT: 2, SameAccounts: true, SigningPeriod: 1, MaxSigningAttempt: 1, CreationPeriod: 8,
				InitDE: 4, MaxProposals: 1, MaxReq: 2, MaxTransitionSec: 90, FeePerSigner: 5, Events: overlap, Depth: 9},
			// K: governance lowers tss max_group_size (a creation-time limit) below the size of existing groups and
			// restores it, before / while a forced or signed transition between 3-member groups runs and executes
			{Name: "max-group-size-lowered", CurN: 3, CurT: 2, IncN: 3, IncT: 2, Spare: true, SigningPeriod: 4, MaxSigningAttempt: 1, CreationPeriod: 8,
				InitDE: 3, MaxProposals: 1, MaxReq: 0, MaxTransitionSec: 30, FeePerSigner: 5, Events: gsize, Depth: 6},
		}
	}
	lifeMsg := []string{"propose:max", "probe", "dkg", "dkgmsg", "spoil", "sigany", "block", "jumpexec"}
	stale := []string{"propose:min", "propose:max", "probe", "dkg", "stale", "sig", "block", "jumpexec"}
	handoverT := []string{"force:min", "force:max", "probe", "req", "reqgov", "inde", "sig", "act", "block", "jump"}
	retryT := []string{"propose:max", "dkgfast", "sigany", "req", "act", "block", "jumpexec"}
	signedT := []string{"propose:max", "dkgfast", "sig", "req", "reqgov", "inde", "block", "jump"}
	againT := []string{"propose:min", "propose:max", "force:min", "force:max", "probe", "dkg", "spoil", "sig", "block", "jumpexec", "expire"}
	return []Cfg{
		{Name: "lifecycle", CurN: 3, CurT: 2, IncN: 2, IncT: 2, SigningPeriod: 2, MaxSigningAttempt: 1, CreationPeriod: 5,
			InitDE: 3, MaxProposals: 1, MaxReq: 0, MaxTransitionSec: 30, FeePerSigner: 10, Events: life, Depth: 18},
		{Name: "lifecycle-per-message", CurN: 3, CurT: 2, IncN: 2, IncT: 2, SigningPeriod: 2, MaxSigningAttempt: 2, CreationPeriod: 6,
			InitDE: 3, MaxProposals: 1, MaxReq: 0, MaxTransitionSec: 45, FeePerSigner: 10, Events: lifeMsg, Depth: 20},
		{Name: "lifecycle-same-accounts", CurN: 2, CurT: 2, IncN: 2, IncT: 1, SameAccounts: true, SigningPeriod: 2, MaxSigningAttempt: 1, CreationPeriod: 5,
			InitDE: 3, MaxProposals: 1, MaxReq: 1, MaxTransitionSec: 30, FeePerSigner: 10, Events: append(append([]string{}, life...), "req"), Depth: 11},
		{Name: "two-proposals-stale-keygen", CurN: 2, CurT: 1, IncN: 2, IncT: 1, SigningPeriod: 2, MaxSigningAttempt: 1, CreationPeriod: 6,
			InitDE: 4, MaxProposals: 2, MaxReq: 0, MaxTransitionSec: 30, FeePerSigner: 10, Events: stale, Depth: 13},
		{Name: "handover-requests", CurN: 2, CurT: 2, IncN: 2, IncT: 1, Spare: true, SigningPeriod: 2, MaxSigningAttempt: 2, CreationPeriod: 5,
			InitDE: 3, MaxProposals: 2, MaxReq: 2, MaxTransitionSec: 30, FeePerSigner: 10, Events: handoverT, Depth: 7},
		{Name: "first-group", CurN: 0, IncN: 3, IncT: 2, SigningPeriod: 2, MaxSigningAttempt: 2, CreationPeriod: 5,
			InitDE: 0, MaxProposals: 2, MaxReq: 2, MaxTransitionSec: 30, FeePerSigner: 10, Events: boot, Depth: 10},
		{Name: "retry", CurN: 3, CurT: 2, IncN: 2, IncT: 2, SameAccounts: true, SigningPeriod: 1, MaxSigningAttempt: 3, CreationPeriod: 8,
			InitDE: 3, MaxProposals: 1, MaxReq: 1, MaxTransitionSec: 60, FeePerSigner: 5, Events: retryT, Depth: 11},
		{Name: "scarce-nonces", CurN: 3, CurT: 2, IncN: 2, IncT: 2, SigningPeriod: 2, MaxSigningAttempt: 2, CreationPeriod: 8,
			InitDE: 1, MaxProposals: 1, MaxReq: 2, MaxTransitionSec: 60, FeePerSigner: 5, Events: nonce, Depth: 11},
		{Name: "signed-handover-requests", CurN: 2, CurT: 1, IncN: 2, IncT: 2, SigningPeriod: 3, MaxSigningAttempt: 1, CreationPeriod: 8,
			InitDE: 3, MaxProposals: 1, MaxReq: 2, MaxTransitionSec: 60, FeePerSigner: 7, Events: signedT, Depth: 8},
		{Name: "after-a-dropped-proposal", CurN: 2, CurT: 2, IncN: 2, IncT: 1, SigningPeriod: 3, MaxSigningAttempt: 1, CreationPeriod: 4,
			InitDE: 3, MaxProposals: 2, MaxReq: 0, MaxTransitionSec: 60, FeePerSigner: 7, Events: againT, Depth: 11},
		{Name: "stale-handover-signing", CurN: 2, CurT: 2, IncN: 2, IncT: 1, SigningPeriod: 6, MaxSigningAttempt: 3, CreationPeriod: 8,
			InitDE: 6, MaxProposals: 2, MaxReq: 0, MaxTransitionSec: 15, FeePerSigner: 7, Events: append(append([]string{}, staleSig...), "sigany", "probe", "jump"), Depth: 11},
		{Name: "sub-second-exec-time", CurN: 2, CurT: 2, IncN: 2, IncT: 1, Spare: true, SigningPeriod: 3, MaxSigningAttempt: 1, CreationPeriod: 8,
			InitDE: 3, MaxProposals: 2, MaxReq: 1, MaxTransitionSec: 20, FeePerSigner: 7, Events: append(append([]string{}, frac...), "req", "jump"), Depth: 8},
		{Name: "overlapping-membership", CurN: 3, CurT: 2, IncN: 3, IncT: 2, SameAccounts: true, SigningPeriod: 2, MaxSigningAttempt: 2, CreationPeriod: 8,
			InitDE: 6, MaxProposals: 1, MaxReq: 2, MaxTransitionSec: 90, FeePerSigner: 5, Events: append(append([]string{}, overlap...), "sigany", "reqgov", "jumpexec"), Depth: 9},
		{Name: "max-group-size-lowered", CurN: 3, CurT: 2, IncN: 3, IncT: 2, Spare: true, SigningPeriod: 4, MaxSigningAttempt: 1, CreationPeriod: 8,
			InitDE: 3, MaxProposals: 2, MaxReq: 1, MaxTransitionSec: 30, FeePerSigner: 5, Events: append(append([]string{}, gsize...), "req", "spoil", "dkg"), Depth: 9},
	}
}

func mk(cfg any) engine.Spec { return &spec{cfg: cfg.(Cfg)} }

func init() {
	engine.Register(&engine.Check{
		ID: "C18",
		Run: func(r *engine.Run) {
			r.Bound = "current group t-of-n in {2/3, 2/2, 1/2, none} installed by real DKGs (optionally a former current group kept as a target for forced transitions); <=1 (quick) / <=2 (thorough) accepted proposals per path, each a fresh incoming group 1..2-of-2 (3 in one thorough configuration) whose DKG is driven per round (per message in one thorough configuration) incl. one corrupted share + complaint, stalled until expiry, or finishing after the exec time; exec time in {now+min, now+max, now-1s, now+max+1s}; block times +3s or placed at exec-1s / exec / exec+3s; hand-over signing by each assigned member, timed out, retried, failed or impossible (no nonces); <=1 (quick) / <=2 (thorough) paid or governance signature requests in every phase with and without nonces of the incoming members; re-activation of deactivated members; depth 7-12 (quick) / 9-20 (thorough); signing_period 1-3, max_signing_attempt 1-3, creation_period 3-8 blocks"
			r.Assumptions = []string{
				"progress of the tss module itself is read back as given: group status (DKG soundness is C04's subject), signing status, committees and partial-signature verification (C03/C09/C10), eligibility = active member holding a nonce pair",
				"key generation that completes in a block whose time is already past the exec time counts as too late (the transition is dropped); completing exactly at the exec time is in time",
				"a transition whose hand-over signing cannot be created (too few eligible current members) or fails is dropped at that block end, not only at the exec time",
				"member list: exactly the current group's members whenever no transition awaits execution (so in particular right after an execution); while one awaits execution only 'superset of current, subset of current+incoming' is asserted",
				"CurrentGroup.ActiveTime is not asserted; activity flags (tss record and bandtss mirror) of every membership address/group are only asserted to change for a reason of their own group: off only at a block end where the member missed a signing of that group whose period ended (expiration queue read back as given), on only by its own MsgActivate; whether a due deactivation happens is C10's subject",
				"block rewards to members switched off (bandtss RewardPercentage=0) so that balances isolate signing fees; requester always funded; fee limit = exact price (limits are C13's subject)",
				"Tx seam = ValidateBasic + message-router handler in a cache context; the authority check of the governance messages is not exercised (sender is always the authority)",
				"LastCommitHash is empty in the harness, so a group's DKG context depends only on its id; member-side DKG material is generated once per configuration",
			}
			r.Required = []string{
				"executed", "executed:forced", "executed:first-group",
				"dropped:exec-time-reached:creating-group", "dropped:exec-time-reached:waiting-sign",
				"dropped:dkg-failed", "dropped:dkg-expired", "dropped:handover-signing-failed", "dropped:handover-signing-impossible",
				"handover-signed", "handover-signing-timeout-retry", "dkg-finished-after-exec-time", "dkg:complaint:COMPLAINT_STATUS_SUCCESS",
				"proposal-while-in-progress:rejected", "forced-while-in-progress:rejected", "forced-to-unfinished-group:rejected",
				"proposal-exec-time-past:rejected", "proposal-exec-time-beyond-max:rejected",
				"req-during-handover:also-put-to-incoming-group", "req-during-handover:incoming-group-unable",
				"current-group-signing-success:paid", "current-group-signing-success:paid:after-execution", "incoming-group-signing-success:unpaid",
				"act:ok",
				"member-deactivated-after-missing-signing:current-group", "member-deactivated-after-missing-signing:incoming-group",
			}
			// internal caps per configuration (never an oracle): a configuration that hits its cap is
			// reported as exhaustive:false and the next one still runs
			per := 6 * time.Minute
			if r.Quick() {
				per = 75 * time.Second
			}
			for i, c := range configs(r.Quick()) {
				sr := engine.Search(&spec{cfg: c}, engine.SearchOpts{Depth: c.Depth, Deadline: time.Now().Add(per)})
				r.AddSearch(fmt.Sprintf("cfg%d[%s]", i, c.Name), c, sr)
			}
			r.ConfirmViolations(mk)
		},
		Replay: func(raw json.RawMessage, path []string) (engine.StepResult, []string) {
			var c Cfg
			if err := json.Unmarshal(raw, &c); err != nil {
				panic(err)
			}
			last, outs, _ := engine.Replay(&spec{cfg: c}, path)
			return last, outs
		},
	})
}
