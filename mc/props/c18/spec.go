// Package c18 checks property C18: the group that signs for the chain changes only by executing a
// scheduled transition (at/after its execution time, incoming group finished key generation, and,
// unless forced by governance, the current group signed the hand-over message); otherwise the
// transition is dropped and the current group stays; at most one transition is in progress; requests
// made while a transition awaits execution are additionally put to the incoming group (best effort,
// unpaid) without affecting the current group's signing; after execution the module's member list is
// exactly the new group's members.
//
// Engine: kvmc.  The alphabet drives the real bandtss / tss message handlers (MsgTransitionGroup,
// MsgForceTransitionGroup, the three DKG rounds incl. a corrupted share and the resulting complaint,
// MsgSubmitDEs, MsgSubmitSignature, MsgRequestSignature, MsgActivate) and the whole-app block boundary
// with block times placed just before / at / after the execution time.  A reference model of the
// transition life cycle written from the statement and the module README is stepped in lock-step; the
// progress of the tss module itself (group status, signing status, committee) is read back as *given*
// (it is the subject of C03/C04/C09/C10).  Independent monitors restate the statement on every
// (parent, event, child) triple of chain states.
package c18

import (
	"bytes"
	"fmt"
	"sort"
	"strconv"
	"strings"
	"time"

	sdk "github.com/cosmos/cosmos-sdk/types"

	"github.com/bandprotocol/chain/v3/pkg/tss"
	bandtesting "github.com/bandprotocol/chain/v3/testing"
	bandtsstypes "github.com/bandprotocol/chain/v3/x/bandtss/types"
	tsstypes "github.com/bandprotocol/chain/v3/x/tss/types"
	"github.com/bandprotocol/chain/v3/zzverif/engine"
	"github.com/bandprotocol/chain/v3/zzverif/tssh"
)

// Cfg is one configuration of the transition search.
type Cfg struct {
	Name              string
	CurN, CurT        int  // current group of the base state (CurN = 0: the module has no group yet)
	IncN, IncT        int  // shape of every proposed incoming group
	SameAccounts      bool // incoming groups consist of the current group's accounts (new key, same people)
	Spare             bool // base state: a former current group (ACTIVE in tss, no longer current) exists
	SigningPeriod     uint64
	MaxSigningAttempt uint64
	CreationPeriod    uint64
	InitDE            uint64 // nonce pairs of every current-group member in the base state
	MaxProposals      int    // accepted proposals (normal + forced) along a path
	MaxReq            int    // signature requests along a path
	MaxTransitionSec  int64  // bandtss MaxTransitionDuration
	FeePerSigner      int64
	Events            []string // kinds: propose:min propose:max propose:frac propose:past propose:late force:min force:max force:frac probe dkg dkgmsg dkgfast spoil stale sig sigany req reqgov inde act maxgs block jump jumpexec jumpfrac expire
	Depth             int
}

const (
	penalty   = 6 * time.Second // bandtss InactivePenaltyDuration
	blockTime = 3 * time.Second
	minDur    = time.Second // bandtss MinTransitionDuration (set by tssh.ApplyParams)
)

// preGroup is the member-side material of one future incoming group, generated in Build so that the
// deterministic randomness stream is consumed in a path-independent order.
type preGroup struct {
	g        *tssh.Group
	r1, r2   []sdk.Msg
	r2bad    sdk.Msg // member 1's round-2 message with a corrupted share for member 2
	confirm  []sdk.Msg
	complain sdk.Msg // member 2's complaint against member 1 about that share
}

type spec struct {
	cfg        Cfg
	groups     map[uint64]*tssh.Group // member-side keys of every group, by tss group id
	pre        []*preGroup            // pre[k] = material of the (k+1)-th accepted MsgTransitionGroup
	baseGroups uint64                 // tss group count of the base state
	incAccs    []bandtesting.Account
	maxGS      uint64   // tss max_group_size of the base state
	tracked    []string // addresses whose uband balance the fee ledger predicts
	module     string
}

func (s *spec) Config() any { return s.cfg }

// ---- reference model ---------------------------------------------------------------------------

type mTrans struct {
	Incoming uint64
	Cur      uint64 // current group when the transition was proposed
	Status   byte   // 'C' creating group, 'S' waiting for the hand-over signature, 'E' waiting for execution
	Exec     int64  // unix nanoseconds
	Force    bool
	SID      uint64 // hand-over signing (tss id), status 'S' and later
}

type mReq struct {
	BID, CurSID, IncSID uint64
	Fee                 int64 // per signer, charged at request time (0: free)
	CurOpen, IncOpen    bool
}

type model struct {
	Cur       uint64
	Tr        *mTrans
	Proposals int // accepted proposals so far (normal + forced)
	Normal    int // accepted MsgTransitionGroup so far (index into spec.pre)
	Reqs      int
	InDE      bool
	NextDE    map[string]uint64
	Spoiled   map[uint64]bool
	Handover  []uint64 // tss ids of hand-over signings ever created
	ReqList   []mReq
	Bal       map[string]int64
	BuildErr  string // the honest transition(s) that make up the base state did not install the group
}

func (m *model) Clone() engine.Model {
	c := &model{BuildErr: m.BuildErr, Cur: m.Cur, Proposals: m.Proposals, Normal: m.Normal, Reqs: m.Reqs, InDE: m.InDE,
		NextDE: map[string]uint64{}, Spoiled: map[uint64]bool{}, Bal: map[string]int64{},
		Handover: append([]uint64(nil), m.Handover...), ReqList: append([]mReq(nil), m.ReqList...)}
	if m.Tr != nil {
		t := *m.Tr
		c.Tr = &t
	}
	for k, v := range m.NextDE {
		c.NextDE[k] = v
	}
	for k, v := range m.Spoiled {
		c.Spoiled[k] = v
	}
	for k, v := range m.Bal {
		c.Bal[k] = v
	}
	return c
}

func (m *model) Key() string {
	var sb strings.Builder
	fmt.Fprintf(&sb, "cur=%d|p=%d/%d|r=%d|inde=%v|", m.Cur, m.Proposals, m.Normal, m.Reqs, m.InDE)
	if m.Tr != nil {
		fmt.Fprintf(&sb, "tr=%+v|", *m.Tr)
	}
	ks := make([]string, 0, len(m.NextDE))
	for k, v := range m.NextDE {
		ks = append(ks, fmt.Sprintf("%s:%d", k, v))
	}
	sort.Strings(ks)
	sb.WriteString(strings.Join(ks, ","))
	var sp []int
	for g, v := range m.Spoiled {
		if v {
			sp = append(sp, int(g))
		}
	}
	sort.Ints(sp)
	fmt.Fprintf(&sb, "|sp=%v|ho=%v|rq=%+v", sp, m.Handover, m.ReqList)
	return sb.String()
}

// ---- base state ----------------------------------------------------------------------------------

var requester = func() bandtesting.Account { return bandtesting.Alice }

func (s *spec) has(kind string) bool {
	for _, e := range s.cfg.Events {
		if e == kind {
			return true
		}
	}
	return false
}

func mustBlock(w *engine.World, ctx sdk.Context) sdk.Context {
	next, br := w.Block(ctx, 1, blockTime)
	if br.Halt != "" {
		panic("halt while building the base state: " + br.Halt)
	}
	return next
}

func bal(w *engine.World, ctx sdk.Context, a sdk.AccAddress) int64 {
	return w.App.BankKeeper.GetBalance(ctx, a, "uband").Amount.Int64()
}

// Build creates the base state.  The base itself is a run of the protocol (an honest proposal, key
// generation, hand-over signature and the execution time passing); if it does not install the expected
// current group the failure is reported as a violation by the single event "base" instead of crashing.
func (s *spec) Build(w *engine.World) (ctx sdk.Context, mm engine.Model) {
	defer func() {
		if r := recover(); r != nil {
			ctx = engine.Fork(w.Root)
			mm = &model{BuildErr: fmt.Sprint(r), NextDE: map[string]uint64{}, Spoiled: map[uint64]bool{}, Bal: map[string]int64{}}
		}
	}()
	return s.build(w)
}

func (s *spec) build(w *engine.World) (sdk.Context, engine.Model) {
	c := s.cfg
	tk, bk := w.App.TSSKeeper, w.App.BandtssKeeper
	ctx := engine.Fork(w.Root)
	// generous periods while the base is built; the configuration's values are applied at the end
	tssh.ApplyParams(w, ctx, tssh.Params{SigningPeriod: 30, MaxSigningAttempt: c.MaxSigningAttempt, MaxDESize: 30, CreationPeriod: 60})
	bp := bk.GetParams(ctx)
	bp.RewardPercentage = 0 // block rewards to members are C14's subject; balances isolate signing fees
	bp.InactivePenaltyDuration = penalty
	bp.FeePerSigner = sdk.NewCoins(sdk.NewInt64Coin("uband", c.FeePerSigner))
	if err := bk.SetParams(ctx, bp); err != nil {
		panic(err)
	}
	groups := map[uint64]*tssh.Group{}
	m := &model{NextDE: map[string]uint64{}, Spoiled: map[uint64]bool{}, Bal: map[string]int64{}}
	var cur *tssh.Group
	switch {
	case c.CurN == 0:
	case !c.Spare:
		cur, ctx = tssh.SetupCurrentGroup(w, ctx, c.CurN, uint64(c.CurT), 2)
		groups[uint64(cur.ID)] = cur
	default:
		// group A becomes the first current group, then hands over to group B through a complete,
		// signed transition: B is the current group of the base state, A a finished group that
		// governance may force the module back to.
		var ga *tssh.Group
		ga, ctx = tssh.SetupCurrentGroup(w, ctx, c.CurN, uint64(c.CurT), 1)
		groups[uint64(ga.ID)] = ga
		for _, a := range ga.Accounts {
			tssh.Must(w.Tx(ctx, 0, tssh.SubmitDEsMsg(a.Address.String(), 0, 2)), "DEs of the first group")
			m.NextDE[a.Address.String()] = 2
		}
		accsB := tssh.Accounts(c.CurN, 2)
		for _, a := range accsB {
			tssh.Fund(w, ctx, a.Address, 1_000_000)
		}
		exec := ctx.BlockTime().Add(30 * time.Second)
		gb, res := tssh.ProposeGroup(w, ctx, accsB, uint64(c.CurT), exec)
		tssh.Must(res, "base transition A->B")
		ctx = gb.RunDKG(w, ctx)
		tr, found := bk.GetGroupTransition(ctx)
		if !found || tr.Status != bandtsstypes.TRANSITION_STATUS_WAITING_SIGN {
			panic(fmt.Sprintf("base transition A->B: expected WAITING_SIGN, have %v %v", found, tr.Status))
		}
		sg := tk.MustGetSigning(ctx, tr.SigningID)
		sa := tk.MustGetSigningAttempt(ctx, tr.SigningID, sg.CurrentAttempt)
		for _, am := range sa.AssignedMembers {
			msg, err := ga.SubmitSigMsg(w, ctx, tr.SigningID, am.MemberID)
			if err != nil {
				panic(err)
			}
			tssh.Must(w.Tx(ctx, 0, msg), "base hand-over signature")
		}
		for i := 0; i < 20 && bk.GetCurrentGroup(ctx).GroupID != gb.ID; i++ {
			ctx = mustBlock(w, ctx)
		}
		if bk.GetCurrentGroup(ctx).GroupID != gb.ID {
			panic("base transition A->B did not execute")
		}
		groups[uint64(gb.ID)] = gb
		cur = gb
	}
	if cur != nil {
		m.Cur = uint64(cur.ID)
		for _, a := range cur.Accounts {
			addr := a.Address.String()
			if c.InitDE > 0 {
				tssh.Must(w.Tx(ctx, 0, tssh.SubmitDEsMsg(addr, m.NextDE[addr], c.InitDE)), "DEs of the current group")
				m.NextDE[addr] += c.InitDE
			}
		}
	}
	// incoming accounts
	if c.SameAccounts && cur != nil {
		s.incAccs = cur.Accounts[:c.IncN]
	} else {
		s.incAccs = tssh.Accounts(c.IncN, 3)
	}
	// the configuration's periods
	tssh.ApplyParams(w, ctx, tssh.Params{SigningPeriod: c.SigningPeriod, MaxSigningAttempt: c.MaxSigningAttempt, MaxDESize: 30, CreationPeriod: c.CreationPeriod})
	bp = bk.GetParams(ctx)
	bp.MaxTransitionDuration = time.Duration(c.MaxTransitionSec) * time.Second
	if err := bk.SetParams(ctx, bp); err != nil {
		panic(err)
	}
	s.baseGroups = tk.GetGroupCount(ctx)
	s.maxGS = tk.GetParams(ctx).MaxGroupSize
	// member-side material of the future incoming groups.  The DKG context of a group depends only on
	// its id and the chain id (LastCommitHash is empty in this harness), so it is obtained from a
	// throw-away branch in which the same proposal is made; Step verifies it against the real one.
	s.pre = nil
	for k := 0; k < c.MaxProposals; k++ {
		scratch := engine.Fork(ctx)
		for j := 0; j < k; j++ {
			if _, err := tk.CreateGroup(scratch, []sdk.AccAddress{s.incAccs[0].Address}, 1, "verif-scratch"); err != nil {
				panic(err)
			}
		}
		g, res := tssh.ProposeGroup(w, scratch, s.incAccs, uint64(c.IncT), scratch.BlockTime().Add(minDur))
		tssh.Must(res, "scratch proposal")
		if uint64(g.ID) != s.baseGroups+uint64(k)+1 {
			panic("scratch proposal: unexpected group id")
		}
		g.GenRound1()
		g.GenRound2()
		g.GenRound3()
		pg := &preGroup{g: g}
		for i := 0; i < c.IncN; i++ {
			pg.r1 = append(pg.r1, g.Round1Msg(i))
			pg.r2 = append(pg.r2, g.Round2Msg(i))
			pg.confirm = append(pg.confirm, g.ConfirmMsg(i))
		}
		if c.IncN >= 2 {
			bad := g.Enc[0].Clone()
			bad[0][31] ^= 0x01 // share dealt by member 1 to member 2
			pg.r2bad = tsstypes.NewMsgSubmitDKGRound2(g.ID, tsstypes.NewRound2Info(1, bad), g.Accounts[0].Address.String())
			csig, keySym, err := tss.SignComplaint(g.R1[1].OneTimePubKey, g.R1[0].OneTimePubKey, g.R1[1].OneTimePrivKey)
			if err != nil {
				panic(err)
			}
			pg.complain = tsstypes.NewMsgComplain(g.ID, []tsstypes.Complaint{tsstypes.NewComplaint(2, 1, keySym, csig)}, g.Accounts[1].Address.String())
		}
		s.pre = append(s.pre, pg)
		groups[uint64(g.ID)] = g
	}
	s.groups = groups
	// fee ledger: starting balances are given
	s.module = bk.GetBandtssAccount(ctx).GetAddress().String()
	seen := map[string]bool{}
	s.tracked = nil
	add := func(a string) {
		if !seen[a] {
			seen[a] = true
			s.tracked = append(s.tracked, a)
		}
	}
	add(s.module)
	add(requester().Address.String())
	var gids []int
	for gid := range groups {
		gids = append(gids, int(gid))
	}
	sort.Ints(gids)
	for _, gid := range gids {
		for _, a := range groups[uint64(gid)].Accounts {
			add(a.Address.String())
		}
	}
	for _, a := range s.tracked {
		m.Bal[a] = bal(w, ctx, sdk.MustAccAddressFromBech32(a))
	}
	return ctx, m
}

// ---- given facts read back from the tss module ---------------------------------------------------

func (s *spec) groupStatus(w *engine.World, ctx sdk.Context, gid uint64) tsstypes.GroupStatus {
	g, err := w.App.TSSKeeper.GetGroup(ctx, tss.GroupID(gid))
	if err != nil {
		return tsstypes.GROUP_STATUS_UNSPECIFIED
	}
	return g.Status
}

// eligible counts the members of a group that can be assigned to a signing: active and holding a nonce pair.
func (s *spec) eligible(w *engine.World, ctx sdk.Context, gid uint64) int {
	ms, err := w.App.TSSKeeper.GetGroupMembers(ctx, tss.GroupID(gid))
	if err != nil {
		return 0
	}
	n := 0
	for _, mb := range ms {
		q := w.App.TSSKeeper.GetDEQueue(ctx, sdk.MustAccAddressFromBech32(mb.Address))
		if mb.IsActive && q.Head < q.Tail {
			n++
		}
	}
	return n
}

// listedEligible counts the members of a group that the bandtss module lists as active and that hold
// a nonce pair: what the module itself promises can sign.
func (s *spec) listedEligible(w *engine.World, ctx sdk.Context, gid uint64) int {
	g := s.groups[gid]
	if g == nil {
		return 0
	}
	n := 0
	for _, a := range g.Accounts {
		mb, err := w.App.BandtssKeeper.GetMember(ctx, a.Address, tss.GroupID(gid))
		q := w.App.TSSKeeper.GetDEQueue(ctx, a.Address)
		if err == nil && mb.IsActive && q.Head < q.Tail {
			n++
		}
	}
	return n
}

// activity snapshots the activity flags of every membership "address/group": the tss member record
// and, where the bandtss module lists the member, its mirror.
func (s *spec) activity(w *engine.World, ctx sdk.Context) (tssAct, listed map[string]bool) {
	tssAct, listed = map[string]bool{}, map[string]bool{}
	for gid, g := range s.groups {
		ms, err := w.App.TSSKeeper.GetGroupMembers(ctx, tss.GroupID(gid))
		if err != nil {
			continue
		}
		for _, mb := range ms {
			tssAct[fmt.Sprintf("%s/%d", mb.Address, gid)] = mb.IsActive
		}
		for _, a := range g.Accounts {
			if mb, err := w.App.BandtssKeeper.GetMember(ctx, a.Address, tss.GroupID(gid)); err == nil {
				listed[fmt.Sprintf("%s/%d", a.Address.String(), gid)] = mb.IsActive
			}
		}
	}
	return tssAct, listed
}

// role names a membership relative to the transition for fingerprints.
func (s *spec) role(m *model, cur uint64, inc uint64, key string) string {
	gid, _ := strconv.ParseUint(key[strings.LastIndex(key, "/")+1:], 10, 64)
	switch {
	case gid == cur:
		return "current-group"
	case inc != 0 && gid == inc:
		return "incoming-group"
	}
	return "other-group"
}

// checkActivity compares two activity snapshots: a membership may be switched off only if it is in
// `off` (it missed a signing of ITS OWN group whose period ended) and switched on only if it is `on`
// (it activated itself for that group).  Nothing that happens to another group's signing or membership
// may touch it.
func (s *spec) checkActivity(m *model, cur, inc uint64, bt, bl, at, al map[string]bool, off map[string]bool, on string, st *engine.StepResult, ev string) {
	for i, layer := range []string{"tss", "bandtss"} {
		before, after := bt, at
		if i == 1 {
			before, after = bl, al
		}
		keys := make([]string, 0, len(before))
		for k := range before {
			keys = append(keys, k)
		}
		sort.Strings(keys)
		for _, k := range keys {
			a, ok := after[k]
			if !ok || a == before[k] {
				continue
			}
			if !a && !off[k] {
				st.Violate("membership-deactivated-without-missing-a-signing-of-its-own-group:"+layer+":"+s.role(m, cur, inc, k),
					"%s record of %s switched off by %s although it missed no signing of that group", layer, k, ev)
			}
			if a && k != on {
				st.Violate("membership-activated-without-its-own-activation:"+layer+":"+s.role(m, cur, inc, k),
					"%s record of %s switched on by %s", layer, k, ev)
			}
		}
	}
}

// timeouts lists the memberships "address/group" that miss a signing whose period ends with the
// block being ended (given: the tss module's expiration queue, processed in order up to the first
// entry that has not expired) and that the bandtss module lists for that group.
func (s *spec) timeouts(w *engine.World, ctx sdk.Context, listed map[string]bool) map[string]bool {
	tk := w.App.TSSKeeper
	off := map[string]bool{}
	for _, se := range tk.GetSigningExpirations(ctx) {
		sa, err := tk.GetSigningAttempt(ctx, se.SigningID, se.SigningAttempt)
		if err != nil {
			continue
		}
		if sa.ExpiredHeight > uint64(ctx.BlockHeight()) {
			break
		}
		sg, err := tk.GetSigning(ctx, se.SigningID)
		if err != nil {
			continue
		}
		for _, am := range sa.AssignedMembers {
			if !tk.HasPartialSignature(ctx, se.SigningID, sa.Attempt, am.MemberID) {
				k := fmt.Sprintf("%s/%d", am.Address, sg.GroupID)
				if _, ok := listed[k]; ok {
					off[k] = true
				}
			}
		}
	}
	return off
}

func (s *spec) threshold(gid uint64) int {
	if g := s.groups[gid]; g != nil {
		return int(g.T)
	}
	return 0
}

// unsubmitted lists the member ids of the current attempt of a waiting signing that have not signed yet.
func (s *spec) unsubmitted(w *engine.World, ctx sdk.Context, sid uint64) []tss.MemberID {
	tk := w.App.TSSKeeper
	sg, err := tk.GetSigning(ctx, tss.SigningID(sid))
	if err != nil || sg.Status != tsstypes.SIGNING_STATUS_WAITING {
		return nil
	}
	sa, err := tk.GetSigningAttempt(ctx, tss.SigningID(sid), sg.CurrentAttempt)
	if err != nil {
		return nil
	}
	var out []tss.MemberID
	for _, am := range sa.AssignedMembers {
		if !tk.HasPartialSignature(ctx, tss.SigningID(sid), sa.Attempt, am.MemberID) {
			out = append(out, am.MemberID)
		}
	}
	return out
}

func (s *spec) preOf(gid uint64) *preGroup {
	if gid <= s.baseGroups {
		return nil
	}
	for _, pg := range s.pre {
		if uint64(pg.g.ID) == gid {
			return pg
		}
	}
	return nil
}

// dkgNext lists the honest messages still missing in the current round of a group under creation.
func (s *spec) dkgNext(w *engine.World, ctx sdk.Context, m *model, pg *preGroup) (round int, msgs []sdk.Msg) {
	tk := w.App.TSSKeeper
	gid := pg.g.ID
	switch s.groupStatus(w, ctx, uint64(gid)) {
	case tsstypes.GROUP_STATUS_ROUND_1:
		for i := range pg.r1 {
			if !tk.HasRound1Info(ctx, gid, tss.MemberID(i+1)) {
				msgs = append(msgs, pg.r1[i])
			}
		}
		return 1, msgs
	case tsstypes.GROUP_STATUS_ROUND_2:
		for i := range pg.r2 {
			if !tk.HasRound2Info(ctx, gid, tss.MemberID(i+1)) {
				msgs = append(msgs, pg.r2[i])
			}
		}
		return 2, msgs
	case tsstypes.GROUP_STATUS_ROUND_3:
		for i := range pg.confirm {
			mid := tss.MemberID(i + 1)
			if tk.HasConfirm(ctx, gid, mid) || tk.HasComplaintsWithStatus(ctx, gid, mid) {
				continue
			}
			if i == 1 && m.Spoiled[uint64(gid)] {
				msgs = append(msgs, pg.complain) // the honest reaction to a share that does not verify
			} else {
				msgs = append(msgs, pg.confirm[i])
			}
		}
		return 3, msgs
	}
	return 0, nil
}

// ---- alphabet --------------------------------------------------------------------------------------

func (s *spec) Enabled(w *engine.World, ctx sdk.Context, mm engine.Model, depth int) []string {
	m := mm.(*model)
	if m.BuildErr != "" {
		return []string{"base"}
	}
	tk, bk := w.App.TSSKeeper, w.App.BandtssKeeper
	var out []string
	now := ctx.BlockTime()
	// proposals; while a transition exists a proposal is a probe that must be rejected
	if m.Tr != nil {
		if s.has("probe") {
			out = append(out, "propose:max", fmt.Sprintf("force:max:%d", m.Tr.Incoming))
			if s.cfg.Spare && m.Cur != 1 && m.Tr.Incoming != 1 {
				out = append(out, "force:max:1")
			}
		}
	} else if m.Proposals < s.cfg.MaxProposals {
		for _, k := range []string{"propose:min", "propose:max", "propose:frac", "propose:past", "propose:late"} {
			if s.has(k) {
				out = append(out, k)
			}
		}
		n := tk.GetGroupCount(ctx)
		for gid := uint64(1); gid <= n; gid++ {
			if gid == m.Cur {
				continue
			}
			for _, k := range []string{"force:min", "force:max", "force:frac"} {
				if s.has(k) {
					out = append(out, fmt.Sprintf("%s:%d", k, gid))
				}
			}
		}
	}
	// key generation of incoming groups
	for k := 0; k < m.Normal && k < len(s.pre); k++ {
		pg := s.pre[k]
		gid := uint64(pg.g.ID)
		live := m.Tr != nil && m.Tr.Incoming == gid
		if !live && !s.has("stale") {
			continue
		}
		round, msgs := s.dkgNext(w, ctx, m, pg)
		if len(msgs) == 0 {
			continue
		}
		if s.has("dkg") {
			out = append(out, fmt.Sprintf("dkg:%d", gid))
		}
		if s.has("dkgfast") && round == 1 && len(msgs) == len(pg.r1) {
			out = append(out, fmt.Sprintf("dkgfast:%d", gid))
		}
		if s.has("dkgmsg") && len(msgs) > 1 {
			out = append(out, fmt.Sprintf("dkgmsg:%d", gid))
		}
		if s.has("spoil") && round == 2 && len(msgs) == len(pg.r2) && pg.r2bad != nil {
			out = append(out, fmt.Sprintf("spoil:%d", gid))
		}
	}
	// partial signatures
	var sids []uint64
	for _, sid := range m.Handover {
		if (m.Tr != nil && m.Tr.SID == sid) || s.has("stale") {
			sids = append(sids, sid)
		}
	}
	for _, r := range m.ReqList {
		if r.CurOpen {
			sids = append(sids, r.CurSID)
		}
		if r.IncOpen {
			sids = append(sids, r.IncSID)
		}
	}
	for _, sid := range sids {
		un := s.unsubmitted(w, ctx, sid)
		if !s.has("sigany") && len(un) > 1 {
			un = un[:1]
		}
		if s.has("sig") || s.has("sigany") {
			for _, mid := range un {
				out = append(out, fmt.Sprintf("sig:%d:%d", sid, mid))
			}
		}
	}
	if m.Reqs < s.cfg.MaxReq {
		for _, k := range []string{"req", "reqgov"} {
			if s.has(k) {
				out = append(out, k)
			}
		}
	}
	if s.has("inde") && !m.InDE && m.Tr != nil && !s.cfg.SameAccounts {
		out = append(out, "inde")
	}
	if s.has("act") {
		for _, mb := range bk.GetMembers(ctx) {
			if !mb.IsActive {
				if g := s.groups[uint64(mb.GroupID)]; g != nil {
					out = append(out, fmt.Sprintf("act:%d:%d", mb.GroupID, g.Index(mb.Address)))
				}
			}
		}
	}
	if s.has("maxgs") {
		// governance lowers / restores the creation-time limit max_group_size (existing groups may be larger)
		if tk.GetParams(ctx).MaxGroupSize == s.maxGS {
			out = append(out, "maxgs:1", "maxgs:2")
		} else {
			out = append(out, "maxgs:restore")
		}
	}
	out = append(out, "block")
	if m.Tr != nil {
		exec := time.Unix(0, m.Tr.Exec).UTC()
		if s.has("jump") && exec.Add(-time.Second).After(now) {
			out = append(out, "block:exec-1")
		}
		if s.has("jumpfrac") && exec.Add(-500*time.Millisecond).After(now) {
			out = append(out, "block:exec-half") // lands half a second before the exec time
		}
		if (s.has("jump") || s.has("jumpexec") || s.has("jumpfrac")) && exec.After(now) {
			out = append(out, "block:exec")
		}
		if s.has("jump") && exec.Add(blockTime).After(now) {
			out = append(out, "block:past")
		}
	}
	if s.has("expire") {
		for k := 0; k < m.Normal && k < len(s.pre); k++ {
			st := s.groupStatus(w, ctx, uint64(s.pre[k].g.ID))
			if st == tsstypes.GROUP_STATUS_ROUND_1 || st == tsstypes.GROUP_STATUS_ROUND_2 || st == tsstypes.GROUP_STATUS_ROUND_3 {
				out = append(out, "block:xN")
				break
			}
		}
	}
	return out
}

// ---- transitions -----------------------------------------------------------------------------------

func statusName(b byte) string {
	switch b {
	case 'C':
		return "creating-group"
	case 'S':
		return "waiting-sign"
	case 'E':
		return "waiting-execution"
	}
	return "?"
}

func chainStatus(b byte) bandtsstypes.TransitionStatus {
	switch b {
	case 'C':
		return bandtsstypes.TRANSITION_STATUS_CREATING_GROUP
	case 'S':
		return bandtsstypes.TRANSITION_STATUS_WAITING_SIGN
	case 'E':
		return bandtsstypes.TRANSITION_STATUS_WAITING_EXECUTION
	}
	return bandtsstypes.TRANSITION_STATUS_UNSPECIFIED
}

func (s *spec) execTime(now time.Time, kind string) time.Time {
	maxDur := time.Duration(s.cfg.MaxTransitionSec) * time.Second
	switch kind {
	case "min":
		return now.Add(minDur)
	case "max":
		return now.Add(maxDur)
	case "frac":
		// an exec time with a sub-second part (block times of the base are whole seconds)
		return now.Add(maxDur - 250*time.Millisecond)
	case "past":
		return now.Add(-time.Second)
	case "late":
		return now.Add(maxDur + time.Second)
	}
	panic("unknown exec time kind " + kind)
}

func (s *spec) Step(w *engine.World, ctx sdk.Context, mm engine.Model, ev string) (sdk.Context, engine.StepResult) {
	m := mm.(*model)
	var st engine.StepResult
	tk, bk := w.App.TSSKeeper, w.App.BandtssKeeper
	parts := strings.Split(ev, ":")
	if ev == "base" {
		st.Violate("honest-complete-transition-did-not-install-the-group", "while building the base state (honest proposal, key generation, hand-over signature, blocks past the exec time): %s", m.BuildErr)
		return ctx, st
	}
	now := ctx.BlockTime()
	pCur := uint64(bk.GetCurrentGroup(ctx).GroupID)
	pInc := uint64(0)
	if m.Tr != nil {
		pInc = m.Tr.Incoming
	}
	actT, actL := s.activity(w, ctx)
	activated := ""
	switch parts[0] {
	case "propose":
		kind := parts[1]
		exec := s.execTime(now, kind)
		var addrs []string
		for _, a := range s.incAccs {
			addrs = append(addrs, a.Address.String())
		}
		res := w.Tx(ctx, 0, bandtsstypes.NewMsgTransitionGroup(addrs, uint64(s.cfg.IncT), exec, tssh.Authority.String()))
		busy := m.Tr != nil
		if busy {
			st.Outcome = "propose:while-in-progress:" + res.ErrName()
		} else {
			st.Outcome = "propose:" + kind + ":" + res.ErrName()
		}
		if !res.OK() {
			switch {
			case busy:
				st.Saw("proposal-while-in-progress:rejected")
			case kind == "past":
				st.Saw("proposal-exec-time-past:rejected")
			case kind == "late":
				st.Saw("proposal-exec-time-beyond-max:rejected")
			}
		}
		if res.OK() {
			if busy {
				st.Violate("second-transition-accepted-while-one-in-progress:proposal", "MsgTransitionGroup accepted while a transition to group %d (%s) exists", m.Tr.Incoming, statusName(m.Tr.Status))
				return ctx, st
			}
			if kind == "past" || kind == "late" {
				st.Violate("proposal-outside-exec-time-window-accepted:"+kind, "exec time %s accepted at block time %s (max duration %ds)", exec, now, s.cfg.MaxTransitionSec)
				return ctx, st
			}
			if m.Normal >= len(s.pre) {
				panic("harness: more accepted proposals than prepared groups")
			}
			pg := s.pre[m.Normal]
			gid := tk.GetGroupCount(ctx)
			dkg, err := tk.GetDKGContext(ctx, tss.GroupID(gid))
			if gid != uint64(pg.g.ID) || err != nil || !bytes.Equal(dkg, pg.g.DKGCtx) {
				panic(fmt.Sprintf("harness: proposed group %d / DKG context differs from the prepared one (%d)", gid, pg.g.ID))
			}
			m.Tr = &mTrans{Incoming: gid, Cur: m.Cur, Status: 'C', Exec: exec.UnixNano()}
			m.Proposals++
			m.Normal++
		}
	case "force":
		kind := parts[1]
		gid, _ := strconv.ParseUint(parts[2], 10, 64)
		exec := s.execTime(now, kind)
		gst := s.groupStatus(w, ctx, gid)
		res := w.Tx(ctx, 0, bandtsstypes.NewMsgForceTransitionGroup(tss.GroupID(gid), exec, tssh.Authority.String()))
		busy := m.Tr != nil
		switch {
		case busy:
			st.Outcome = "force:while-in-progress:" + res.ErrName()
		case gst != tsstypes.GROUP_STATUS_ACTIVE:
			st.Outcome = "force:unfinished-group:" + res.ErrName()
		default:
			st.Outcome = "force:" + kind + ":" + res.ErrName()
		}
		if !res.OK() {
			if busy {
				st.Saw("forced-while-in-progress:rejected")
			} else if gst != tsstypes.GROUP_STATUS_ACTIVE {
				st.Saw("forced-to-unfinished-group:rejected")
			}
		}
		if res.OK() {
			if busy {
				st.Violate("second-transition-accepted-while-one-in-progress:forced", "MsgForceTransitionGroup(%d) accepted while a transition to group %d (%s) exists", gid, m.Tr.Incoming, statusName(m.Tr.Status))
				return ctx, st
			}
			if gst != tsstypes.GROUP_STATUS_ACTIVE {
				st.Violate("forced-transition-to-group-without-finished-key-generation", "group %d has status %s", gid, gst)
				return ctx, st
			}
			m.Tr = &mTrans{Incoming: gid, Cur: m.Cur, Status: 'E', Exec: exec.UnixNano(), Force: true}
			m.Proposals++
		}
	case "dkg", "dkgmsg", "spoil":
		gid, _ := strconv.ParseUint(parts[1], 10, 64)
		pg := s.preOf(gid)
		round, msgs := s.dkgNext(w, ctx, m, pg)
		if parts[0] == "spoil" {
			msgs = []sdk.Msg{pg.r2bad}
			m.Spoiled[gid] = true
		} else if parts[0] == "dkgmsg" {
			msgs = msgs[:1]
		}
		for _, msg := range msgs {
			res := w.Tx(ctx, 0, msg)
			if !res.OK() {
				st.Violate("harness-precondition/honest-dkg-message-rejected", "group %d round %d %T: %v", gid, round, msg, res.Err)
				return ctx, st
			}
			if _, isComplaint := msg.(*tsstypes.MsgComplain); isComplaint {
				if cs, err := tk.GetComplaintsWithStatus(ctx, tss.GroupID(gid), 2); err == nil && len(cs.ComplaintsWithStatus) == 1 {
					st.Saw("dkg:complaint:" + cs.ComplaintsWithStatus[0].ComplaintStatus.String())
				}
			}
		}
		st.Outcome = fmt.Sprintf("%s:round%d", parts[0], round)
	case "dkgfast":
		// macro: the three rounds of an honest key generation with the two block ends between them;
		// the block end that completes the group is left to the explorer
		gid, _ := strconv.ParseUint(parts[1], 10, 64)
		pg := s.preOf(gid)
		st.Outcome = "dkgfast"
		for round := 1; round <= 3; round++ {
			r, msgs := s.dkgNext(w, ctx, m, pg)
			if r != round {
				break // the transition machine moved on (group expired / fell): nothing more to send
			}
			for _, msg := range msgs {
				if res := w.Tx(ctx, 0, msg); !res.OK() {
					st.Violate("harness-precondition/honest-dkg-message-rejected", "group %d round %d %T: %v", gid, round, msg, res.Err)
					return ctx, st
				}
			}
			if round < 3 {
				next, ok := s.oneBlock(w, ctx, m, blockTime, &st)
				ctx = next
				if !ok {
					return ctx, st
				}
				s.compare(w, ctx, m, &st, ev)
				if st.Stop {
					return ctx, st
				}
			}
		}
	case "sig":
		sid, _ := strconv.ParseUint(parts[1], 10, 64)
		mid, _ := strconv.ParseUint(parts[2], 10, 64)
		sg, err := tk.GetSigning(ctx, tss.SigningID(sid))
		if err != nil {
			panic(err)
		}
		g := s.groups[uint64(sg.GroupID)]
		msg, err := g.SubmitSigMsg(w, ctx, tss.SigningID(sid), tss.MemberID(mid))
		if err != nil {
			st.Violate("harness-precondition/cannot-build-honest-signature", "signing %d member %d: %v", sid, mid, err)
			return ctx, st
		}
		res := w.Tx(ctx, 0, msg)
		st.Outcome = "sig:" + res.ErrName()
		if !res.OK() {
			st.Violate("harness-precondition/honest-partial-signature-rejected", "signing %d member %d: %v", sid, mid, res.Err)
			return ctx, st
		}
	case "inde":
		for _, a := range s.incAccs {
			addr := a.Address.String()
			tssh.Must(w.Tx(ctx, 0, tssh.SubmitDEsMsg(addr, m.NextDE[addr], 2)), "DEs of incoming members")
			m.NextDE[addr] += 2
		}
		m.InDE = true
		st.Outcome = "inde"
	case "maxgs":
		p := tk.GetParams(ctx)
		if parts[1] == "restore" {
			p.MaxGroupSize = s.maxGS
		} else {
			p.MaxGroupSize, _ = strconv.ParseUint(parts[1], 10, 64)
		}
		res := w.Tx(ctx, 0, tsstypes.NewMsgUpdateParams(tssh.Authority.String(), p))
		st.Outcome = "maxgs:" + parts[1] + ":" + res.ErrName()
		if !res.OK() {
			st.Violate("harness-precondition/tss-params-update-rejected", "%v", res.Err)
			return ctx, st
		}
	case "act":
		gid, _ := strconv.ParseUint(parts[1], 10, 64)
		i, _ := strconv.Atoi(parts[2])
		res := w.Tx(ctx, 0, bandtsstypes.NewMsgActivate(s.groups[gid].Accounts[i].Address.String(), tss.GroupID(gid)))
		st.Outcome = "act:" + res.ErrName()
		if res.OK() {
			activated = fmt.Sprintf("%s/%d", s.groups[gid].Accounts[i].Address.String(), gid)
		}
	case "req", "reqgov":
		s.stepRequest(w, ctx, m, parts[0], &st)
		if st.Stop {
			return ctx, st
		}
	case "block":
		n := 1
		dt := blockTime
		if len(parts) > 1 {
			if m.Tr == nil && parts[1] != "xN" {
				panic("harness: jump without transition")
			}
			switch parts[1] {
			case "exec-half":
				dt = time.Unix(0, m.Tr.Exec).Add(-500 * time.Millisecond).Sub(now)
			case "exec-1":
				dt = time.Unix(0, m.Tr.Exec).Add(-time.Second).Sub(now)
			case "exec":
				dt = time.Unix(0, m.Tr.Exec).Sub(now)
			case "past":
				dt = time.Unix(0, m.Tr.Exec).Add(blockTime).Sub(now)
			case "xN":
				n = int(s.cfg.CreationPeriod)
			}
		}
		st.Outcome = "block"
		for i := 0; i < n; i++ {
			next, ok := s.oneBlock(w, ctx, m, dt, &st)
			ctx = next
			if !ok {
				if len(st.Violations) > 0 && st.Violations[0].Fingerprint != "block-halt" {
					s.compare(w, ctx, m, &st, ev)
				}
				return ctx, st
			}
			// the full comparison runs after every block of a macro step
			if i < n-1 {
				s.compare(w, ctx, m, &st, ev)
				if st.Stop {
					return ctx, st
				}
			}
		}
	default:
		panic("unknown event " + ev)
	}
	if parts[0] != "block" && parts[0] != "dkgfast" { // dkgfast contains block ends, each checked by oneBlock
		if cCur := uint64(bk.GetCurrentGroup(ctx).GroupID); cCur != pCur {
			st.Violate("group-changed-outside-block-end", "current group %d -> %d by %s", pCur, cCur, ev)
		}
		aT, aL := s.activity(w, ctx)
		s.checkActivity(m, pCur, pInc, actT, actL, aT, aL, nil, activated, &st, ev)
	}
	s.compare(w, ctx, m, &st, ev)
	return ctx, st
}

// stepRequest delivers a signature request and checks the clauses about requests made while a
// transition awaits execution (and the C13 fee clause for that situation).
func (s *spec) stepRequest(w *engine.World, ctx sdk.Context, m *model, kind string, st *engine.StepResult) {
	tk, bk := w.App.TSSKeeper, w.App.BandtssKeeper
	m.Reqs++
	sender := requester().Address
	if kind == "reqgov" {
		sender = tssh.Authority
	}
	var total, fee int64
	if kind == "req" && m.Cur != 0 {
		fee = s.cfg.FeePerSigner
		total = fee * int64(s.threshold(m.Cur))
	}
	content := tsstypes.NewTextSignatureOrder([]byte(fmt.Sprintf("c18-msg-%d", m.Reqs)))
	limit := total // exactly the price; the message requires a positive limit even when nothing is charged
	if limit == 0 {
		limit = 1
	}
	msg, err := bandtsstypes.NewMsgRequestSignature(content, sdk.NewCoins(sdk.NewInt64Coin("uband", limit)), sender.String())
	if err != nil {
		panic(err)
	}
	inE := m.Tr != nil && m.Tr.Status == 'E'
	eligCur, eligInc := 0, 0
	listedCur := 0
	if m.Cur != 0 {
		eligCur = s.eligible(w, ctx, m.Cur)
		listedCur = s.listedEligible(w, ctx, m.Cur)
	}
	if inE {
		eligInc = s.eligible(w, ctx, m.Tr.Incoming)
	}
	before := tk.GetSigningCount(ctx)
	res := w.Tx(ctx, 0, msg)
	phase := "no-transition"
	if m.Tr != nil {
		phase = statusName(m.Tr.Status)
	}
	st.Outcome = kind + ":" + phase + ":" + res.ErrName()
	// what the module lists as active (on the unchanged tree identical to the tss flags)
	curOK := m.Cur != 0 && (eligCur >= s.threshold(m.Cur) || listedCur >= s.threshold(m.Cur))
	incOK := inE && eligInc >= s.threshold(m.Tr.Incoming)
	if !res.OK() {
		if tk.GetSigningCount(ctx) != before {
			st.Violate("rejected-request-created-signing", "%s", kind)
		}
		// a request that the current group alone could serve must not be refused because a
		// transition awaits execution (whatever the condition of the incoming group)
		if inE && curOK {
			st.Violate("request-refused-while-transition-awaits-execution", "current group %d has %d eligible members (%d listed active with nonces; threshold %d), incoming group %d has %d; request refused: %v",
				m.Cur, eligCur, listedCur, s.threshold(m.Cur), m.Tr.Incoming, eligInc, res.Err)
		}
		return
	}
	bid := bk.GetSigningCount(ctx)
	bs, err := bk.GetSigning(ctx, bandtsstypes.SigningID(bid))
	if err != nil {
		st.Violate("accepted-request-not-recorded", "%v", err)
		return
	}
	delta := tk.GetSigningCount(ctx) - before
	r := mReq{BID: bid, CurSID: uint64(bs.CurrentGroupSigningID), IncSID: uint64(bs.IncomingGroupSigningID), Fee: fee}
	want := uint64(0)
	// current group: asked exactly as without a transition
	if m.Cur != 0 {
		want++
		sg, err := tk.GetSigning(ctx, bs.CurrentGroupSigningID)
		if bs.CurrentGroupSigningID == 0 || err != nil || uint64(sg.GroupID) != m.Cur || sg.Status != tsstypes.SIGNING_STATUS_WAITING {
			st.Violate("request-not-put-to-current-group", "current group %d, recorded current-group signing %d (%v)", m.Cur, bs.CurrentGroupSigningID, err)
			return
		}
		sa, err := tk.GetSigningAttempt(ctx, sg.ID, sg.CurrentAttempt)
		if err != nil || len(sa.AssignedMembers) != s.threshold(m.Cur) {
			st.Violate("request-not-put-to-current-group:committee", "signing %d: %v", sg.ID, err)
			return
		}
		for _, am := range sa.AssignedMembers {
			if s.groups[m.Cur].Index(am.Address) < 0 {
				st.Violate("request-not-put-to-current-group:committee", "signing %d assigned %s, not a member of group %d", sg.ID, am.Address, m.Cur)
				return
			}
		}
		r.CurOpen = true
	} else if bs.CurrentGroupSigningID != 0 {
		st.Violate("current-group-signing-without-current-group", "signing %d", bs.CurrentGroupSigningID)
		return
	}
	// incoming group: only while the transition awaits execution, best effort
	if bs.IncomingGroupSigningID != 0 {
		if !inE {
			st.Violate("request-put-to-incoming-group-outside-waiting-execution", "phase %s, incoming signing %d", phase, bs.IncomingGroupSigningID)
			return
		}
		want++
		sg, err := tk.GetSigning(ctx, bs.IncomingGroupSigningID)
		if err != nil || uint64(sg.GroupID) != m.Tr.Incoming {
			st.Violate("incoming-signing-for-wrong-group", "signing %d group %d, incoming group %d (%v)", bs.IncomingGroupSigningID, sg.GroupID, m.Tr.Incoming, err)
			return
		}
		r.IncOpen = true
		st.Saw("req-during-handover:also-put-to-incoming-group")
	} else if inE {
		// best effort: the incoming group is asked after the current group's committee has taken its
		// nonce pairs (members may sit in both groups), and a failed attempt leaves no trace, so the
		// state after the request is exactly what the attempt saw
		if after := s.eligible(w, ctx, m.Tr.Incoming); after >= s.threshold(m.Tr.Incoming) {
			st.Violate("request-not-put-to-incoming-group", "incoming group %d has %d eligible members (threshold %d; %d before the request) but was not asked", m.Tr.Incoming, after, s.threshold(m.Tr.Incoming), eligInc)
			return
		}
		if incOK {
			st.Saw("req-during-handover:incoming-group-unable:nonces-taken-by-current-group-signing")
		}
		st.Saw("req-during-handover:incoming-group-unable")
	}
	if delta != want {
		st.Violate("failed-incoming-signing-left-traces", "tss signing count grew by %d, %d signings recorded", delta, want)
		return
	}
	if want == 0 {
		st.Violate("request-accepted-without-any-signing", "")
		return
	}
	if !bs.FeePerSigner.Equal(sdk.NewCoins(sdk.NewInt64Coin("uband", fee))) {
		st.Violate("recorded-fee-per-signer", "recorded %s, fee in force %d (kind %s)", bs.FeePerSigner, fee, kind)
	}
	if total > 0 {
		m.Bal[sender.String()] -= total
		m.Bal[s.module] += total
	}
	m.ReqList = append(m.ReqList, r)
}

// oneBlock ends the current block (block time T), begins the next one dt later, steps the reference
// transition machine and evaluates the monitors that restate the statement on the two chain states.
func (s *spec) oneBlock(w *engine.World, ctx sdk.Context, m *model, dt time.Duration, st *engine.StepResult) (sdk.Context, bool) {
	tk, bk := w.App.TSSKeeper, w.App.BandtssKeeper
	T := ctx.BlockTime()
	pCur := uint64(bk.GetCurrentGroup(ctx).GroupID)
	pTr, pFound := bk.GetGroupTransition(ctx)
	eligCur := 0
	if m.Cur != 0 {
		eligCur = s.eligible(w, ctx, m.Cur)
	}
	sigCount := tk.GetSigningCount(ctx)
	// committees of the open current-group request signings (given)
	assigned := map[uint64][]string{}
	for _, r := range m.ReqList {
		if !r.CurOpen {
			continue
		}
		if sg, err := tk.GetSigning(ctx, tss.SigningID(r.CurSID)); err == nil && sg.Status == tsstypes.SIGNING_STATUS_WAITING {
			if sa, err := tk.GetSigningAttempt(ctx, sg.ID, sg.CurrentAttempt); err == nil {
				for _, am := range sa.AssignedMembers {
					assigned[r.CurSID] = append(assigned[r.CurSID], am.Address)
				}
			}
		}
	}
	hoAttempt := uint64(0)
	if m.Tr != nil && m.Tr.Status == 'S' {
		if sg, err := tk.GetSigning(ctx, tss.SigningID(m.Tr.SID)); err == nil {
			hoAttempt = sg.CurrentAttempt
		}
	}
	pInc := uint64(0)
	if m.Tr != nil {
		pInc = m.Tr.Incoming
	}
	actT, actL := s.activity(w, ctx)
	off := s.timeouts(w, ctx, actL)

	next, br := w.Block(ctx, 1, dt)
	if br.Halt != "" {
		st.Violate("block-halt", "%s", br.Halt)
		return ctx, false
	}
	{
		aT, aL := s.activity(w, next)
		s.checkActivity(m, pCur, pInc, actT, actL, aT, aL, off, "", st, "block end")
		for k := range off {
			if v, ok := aT[k]; ok && !v && actT[k] {
				st.Saw("member-deactivated-after-missing-signing:" + s.role(m, pCur, pInc, k))
			}
		}
	}

	// ---- reference model of the block end ----
	executed, dropped := 0, 0
	drop := func(why string) {
		st.Saw("dropped:" + why)
		m.Tr = nil
		dropped++
	}
	if tr := m.Tr; tr != nil {
		exec := time.Unix(0, tr.Exec)
		switch tr.Status {
		case 'C':
			switch s.groupStatus(w, next, tr.Incoming) {
			case tsstypes.GROUP_STATUS_ACTIVE:
				switch {
				case T.After(exec):
					// key generation finished after the execution time: too late (dropped below)
					st.Saw("dkg-finished-after-exec-time")
				case tr.Cur == 0:
					tr.Status = 'E' // nobody to hand over: no signature needed
				case eligCur >= s.threshold(tr.Cur):
					// the current group is asked to sign the hand-over message
					if got := tk.GetSigningCount(next); got != sigCount+1 {
						st.Violate("handover-signing-not-created", "tss signing count %d -> %d when key generation of group %d finished", sigCount, got, tr.Incoming)
						return next, false
					}
					tr.SID = sigCount + 1
					sg := tk.MustGetSigning(next, tss.SigningID(tr.SID))
					inc := tk.MustGetGroup(next, tss.GroupID(tr.Incoming))
					if uint64(sg.GroupID) != tr.Cur || !bytes.Contains(sg.Message, inc.PubKey) {
						st.Violate("handover-signing-not-by-current-group-over-incoming-key", "signing %d: group %d (current %d), message %x, incoming key %x", tr.SID, sg.GroupID, tr.Cur, sg.Message, []byte(inc.PubKey))
						return next, false
					}
					tr.Status = 'S'
					m.Handover = append(m.Handover, tr.SID)
				default:
					drop("handover-signing-impossible")
				}
			case tsstypes.GROUP_STATUS_FALLEN:
				drop("dkg-failed")
			case tsstypes.GROUP_STATUS_EXPIRED:
				drop("dkg-expired")
			}
		case 'S':
			sg, err := tk.GetSigning(next, tss.SigningID(tr.SID))
			if err != nil {
				st.Violate("handover-signing-missing", "%v", err)
				return next, false
			}
			switch sg.Status {
			case tsstypes.SIGNING_STATUS_SUCCESS:
				tr.Status = 'E'
				st.Saw("handover-signed")
			case tsstypes.SIGNING_STATUS_FALLEN:
				drop("handover-signing-failed")
			default:
				if sg.CurrentAttempt > hoAttempt {
					st.Saw("handover-signing-timeout-retry")
				}
			}
		}
		if m.Tr != nil && !T.Before(exec) {
			if tr.Status == 'E' {
				label := "executed"
				if tr.Force {
					label = "executed:forced"
				} else if tr.Cur == 0 {
					label = "executed:first-group"
				}
				st.Saw(label)
				m.Cur = tr.Incoming
				m.Tr = nil
				executed++
			} else {
				drop("exec-time-reached:" + statusName(tr.Status))
			}
		}
	}

	// ---- monitors on (parent, block, child) of the chain itself ----
	cCur := uint64(bk.GetCurrentGroup(next).GroupID)
	cTr, cFound := bk.GetGroupTransition(next)
	if cCur != pCur {
		switch {
		case !pFound:
			st.Violate("group-changed-without-transition", "current group %d -> %d at block time %s with no transition in progress", pCur, cCur, T)
		case uint64(pTr.IncomingGroupID) != cCur:
			st.Violate("group-changed-to-other-than-incoming-group", "current group %d -> %d, incoming group was %d", pCur, cCur, pTr.IncomingGroupID)
		case pTr.ExecTime.After(T):
			st.Violate("group-changed-before-exec-time", "current group %d -> %d at block time %s, exec time %s", pCur, cCur, T, pTr.ExecTime)
		case s.groupStatus(w, next, cCur) != tsstypes.GROUP_STATUS_ACTIVE:
			st.Violate("group-changed-to-group-without-finished-key-generation", "group %d has status %s", cCur, s.groupStatus(w, next, cCur))
		case !pTr.IsForceTransition && pTr.CurrentGroupID != 0:
			sg, err := tk.GetSigning(next, pTr.SigningID)
			if pTr.SigningID == 0 || err != nil || sg.Status != tsstypes.SIGNING_STATUS_SUCCESS || uint64(sg.GroupID) != pCur {
				st.Violate("group-changed-without-handover-signature", "current group %d -> %d (not forced): transition status was %s, hand-over signing %d status %s", pCur, cCur, pTr.Status, pTr.SigningID, sg.Status)
			}
		}
	}
	if pFound && !pTr.ExecTime.After(T) && cFound {
		st.Violate("transition-survives-exec-time", "block time %s >= exec time %s but a transition (incoming %d, %s) still exists", T, pTr.ExecTime, cTr.IncomingGroupID, cTr.Status)
	}
	if pFound && !pTr.ExecTime.After(T) && cCur != pCur && cCur != uint64(pTr.IncomingGroupID) {
		st.Violate("group-changed-to-other-than-incoming-group", "current group %d -> %d", pCur, cCur)
	}
	if cFound && (!pFound || pTr.IncomingGroupID != cTr.IncomingGroupID || !pTr.ExecTime.Equal(cTr.ExecTime) || pTr.IsForceTransition != cTr.IsForceTransition) {
		st.Violate("transition-appeared-or-replaced-at-block-end", "before: %v %+v, after: %+v", pFound, pTr, cTr)
	}
	nOK, nFail := 0, 0
	for _, e := range br.EndEvents {
		switch e.Type {
		case bandtsstypes.EventTypeGroupTransitionSuccess:
			nOK++
		case bandtsstypes.EventTypeGroupTransitionFailed:
			nFail++
		}
	}
	if len(st.Violations) == 0 && (nOK != executed || nFail != dropped) {
		st.Violate(fmt.Sprintf("transition-outcome-events:success=%d/%d,failed=%d/%d", nOK, executed, nFail, dropped),
			"block at %s: %d group_transition_success and %d group_transition_failed events, reference expects %d and %d", T, nOK, nFail, executed, dropped)
	}

	// ---- fees (C13 clause): only the current group's committee is paid, nobody for the incoming group's signature ----
	for i := range m.ReqList {
		r := &m.ReqList[i]
		if r.CurOpen {
			if sg, err := tk.GetSigning(next, tss.SigningID(r.CurSID)); err == nil && sg.Status != tsstypes.SIGNING_STATUS_WAITING {
				r.CurOpen = false
				if sg.Status == tsstypes.SIGNING_STATUS_SUCCESS {
					for _, a := range assigned[r.CurSID] {
						m.Bal[a] += r.Fee
						m.Bal[s.module] -= r.Fee
					}
					lbl := "current-group-signing-success"
					if r.Fee > 0 {
						lbl += ":paid"
					}
					if uint64(sg.GroupID) != m.Cur {
						lbl += ":after-execution"
					}
					st.Saw(lbl)
				} else {
					st.Saw("current-group-signing-failed")
				}
			}
		}
		if r.IncOpen {
			if sg, err := tk.GetSigning(next, tss.SigningID(r.IncSID)); err == nil && sg.Status != tsstypes.SIGNING_STATUS_WAITING {
				r.IncOpen = false
				if sg.Status == tsstypes.SIGNING_STATUS_SUCCESS {
					st.Saw("incoming-group-signing-success:unpaid")
				} else {
					st.Saw("incoming-group-signing-failed")
				}
			}
		}
	}
	return next, !st.Stop
}

func (s *spec) addrSet(gid uint64) map[string]bool {
	out := map[string]bool{}
	if g := s.groups[gid]; g != nil {
		for _, a := range g.Accounts {
			out[fmt.Sprintf("%s/%d", a.Address.String(), gid)] = true
		}
	}
	return out
}

// compare checks the chain against the reference model after every transition.
func (s *spec) compare(w *engine.World, ctx sdk.Context, m *model, st *engine.StepResult, ev string) {
	bk := w.App.BandtssKeeper
	kind := strings.SplitN(ev, ":", 2)[0]
	// current group
	if got := uint64(bk.GetCurrentGroup(ctx).GroupID); got != m.Cur {
		st.Violate("current-group-differs-from-reference:after-"+kind, "chain current group %d, reference %d after %s", got, m.Cur, ev)
	}
	// the single transition
	tr, found := bk.GetGroupTransition(ctx)
	switch {
	case found && m.Tr == nil:
		st.Violate("transition-exists-but-reference-has-none:after-"+kind, "chain: incoming %d %s exec %s after %s", tr.IncomingGroupID, tr.Status, tr.ExecTime, ev)
	case !found && m.Tr != nil:
		st.Violate("transition-missing:reference-"+statusName(m.Tr.Status)+":after-"+kind, "reference: incoming %d %s exec %s; chain has no transition after %s", m.Tr.Incoming, statusName(m.Tr.Status), time.Unix(0, m.Tr.Exec).UTC(), ev)
	case found:
		if tr.Status != chainStatus(m.Tr.Status) {
			st.Violate(fmt.Sprintf("transition-status:chain-%s-reference-%s", tr.Status, statusName(m.Tr.Status)), "incoming %d after %s (block time %s, exec %s)", tr.IncomingGroupID, ev, ctx.BlockTime(), tr.ExecTime)
		}
		if uint64(tr.IncomingGroupID) != m.Tr.Incoming || uint64(tr.CurrentGroupID) != m.Tr.Cur || tr.ExecTime.UnixNano() != m.Tr.Exec || tr.IsForceTransition != m.Tr.Force {
			st.Violate("transition-record-differs-from-proposal", "chain %+v, reference %+v", tr, *m.Tr)
		}
		if m.Tr.Status != 'C' && !m.Tr.Force && m.Tr.Cur != 0 && uint64(tr.SigningID) != m.Tr.SID {
			st.Violate("transition-handover-signing-id", "chain %d, reference %d", tr.SigningID, m.Tr.SID)
		}
	}
	// member list
	chain := map[string]bool{}
	for _, mb := range bk.GetMembers(ctx) {
		chain[fmt.Sprintf("%s/%d", mb.Address, mb.GroupID)] = true
	}
	cur := s.addrSet(m.Cur)
	if m.Tr == nil || m.Tr.Status != 'E' {
		// no hand-over pending: exactly the current group's members (after an execution: the new group's)
		for k := range cur {
			if !chain[k] {
				st.Violate("member-list-not-exactly-current-group:member-missing", "%s missing; current group %d; after %s", k, m.Cur, ev)
				break
			}
		}
		for k := range chain {
			if !cur[k] {
				st.Violate("member-list-not-exactly-current-group:extra-member", "%s present; current group %d; after %s", k, m.Cur, ev)
				break
			}
		}
	} else {
		inc := s.addrSet(m.Tr.Incoming)
		for k := range cur {
			if !chain[k] {
				st.Violate("member-list-during-handover:current-member-missing", "%s missing; current group %d; after %s", k, m.Cur, ev)
				break
			}
		}
		for k := range chain {
			if !cur[k] && !inc[k] {
				st.Violate("member-list-during-handover:stranger-present", "%s present; current %d incoming %d; after %s", k, m.Cur, m.Tr.Incoming, ev)
				break
			}
		}
	}
	// fee ledger
	for _, a := range s.tracked {
		want, ok := m.Bal[a]
		if !ok {
			continue
		}
		if got := bal(w, ctx, sdk.MustAccAddressFromBech32(a)); got != want {
			who := "member"
			switch a {
			case s.module:
				who = "escrow"
			case requester().Address.String():
				who = "requester"
			}
			st.Violate("fee-ledger:"+who+"-balance", "%s holds %d uband, ledger says %d after %s", a, got, want, ev)
		}
	}
}
