// Package tsssig is the signing life-cycle specification shared by C05 (nonce pairs used at most
// once), C10 (every signing terminates; idle penalised) and the signing part of C13 (escrowed fees).
// Engine: kvmc.  The alphabet drives the real tss / bandtss message handlers and the whole-app block
// boundary; a reference model with FIFO nonce queues, an attempt clock and a fee ledger is stepped in
// lock-step.  Monitors are tagged with their owning property ("C05/...", "C10/...", "C13/...").
package tsssig

import (
	"encoding/json"
	"fmt"
	"sort"
	"strconv"
	"strings"
	"time"

	sdk "github.com/cosmos/cosmos-sdk/types"
	banktypes "github.com/cosmos/cosmos-sdk/x/bank/types"

	"github.com/bandprotocol/chain/v3/pkg/tss"
	bandtesting "github.com/bandprotocol/chain/v3/testing"
	bandtsstypes "github.com/bandprotocol/chain/v3/x/bandtss/types"
	oracletypes "github.com/bandprotocol/chain/v3/x/oracle/types"
	tsstypes "github.com/bandprotocol/chain/v3/x/tss/types"
	"github.com/bandprotocol/chain/v3/zzverif/engine"
	"github.com/bandprotocol/chain/v3/zzverif/tssh"
)

// Cfg is one configuration of the signing life-cycle search.
type Cfg struct {
	N, T              int
	SigningPeriod     uint64
	MaxSigningAttempt uint64
	MaxDESize         uint64
	InitDE            uint64 // nonce pairs every member holds in the base state
	MaxReq            int    // signings created along a path
	Depth             int
	Events            []string // event kinds in the alphabet: de1 de2 reset req reqlow reqgov reqfail sig act block
	FeePerSigner      int64
}

const penalty = 6 * time.Second // bandtss InactivePenaltyDuration in the base state (two blocks)

type spec struct {
	cfg Cfg
	g   *tssh.Group // member-side keys; identical in every world (deterministic)
}

func (s *spec) Config() any { return s.cfg }

type attemptRec struct {
	SID       uint64
	Attempt   uint64
	Height    int64 // creation height
	Expiry    int64 // creation height + signing period in force at creation
	Processed bool  // expiry processed (interim data must be gone)
}

type mSigning struct {
	ID        uint64 // tss signing id
	Paid      bool
	Fee       int64
	Requester string
	Attempt   uint64
	Height    int64 // creation height of the current attempt
	Assigned  []int // member indices (0-based) of the current attempt
	Submitted map[int]bool
	Status    string // W S F
	Events    int    // signing_success + signing_failed events seen
	Pending   bool   // all assigned submitted in this block
}

type model struct {
	Queues   [][]uint64 // FIFO of token numbers per member
	NextDE   []uint64
	Used     map[string]bool // "member:k" tokens ever assigned
	Active   []bool
	Sigs     []*mSigning
	Attempts []attemptRec
	Escrow   int64
	Earned   []int64
	Spent    int64 // requester
	Reqs     int
	Due      []int64 // oracle requests (with TSS encoder) that resolve at the next block end: what is left of their fee limit after the data-source fees
}

func (m *model) Clone() engine.Model {
	c := &model{NextDE: append([]uint64(nil), m.NextDE...), Used: map[string]bool{}, Active: append([]bool(nil), m.Active...),
		Attempts: append([]attemptRec(nil), m.Attempts...), Escrow: m.Escrow, Earned: append([]int64(nil), m.Earned...), Spent: m.Spent, Reqs: m.Reqs, Due: append([]int64(nil), m.Due...)}
	for _, q := range m.Queues {
		c.Queues = append(c.Queues, append([]uint64(nil), q...))
	}
	for k := range m.Used {
		c.Used[k] = true
	}
	for _, s := range m.Sigs {
		cs := *s
		cs.Assigned = append([]int(nil), s.Assigned...)
		cs.Submitted = map[int]bool{}
		for k, v := range s.Submitted {
			cs.Submitted[k] = v
		}
		c.Sigs = append(c.Sigs, &cs)
	}
	return c
}

func (m *model) Key() string {
	// NextDE, the used-token set and per-signing event counts are not in the stores
	var sb strings.Builder
	fmt.Fprintf(&sb, "%v|", m.NextDE)
	used := make([]string, 0, len(m.Used))
	for k := range m.Used {
		used = append(used, k)
	}
	sort.Strings(used)
	sb.WriteString(strings.Join(used, ","))
	for _, s := range m.Sigs {
		fmt.Fprintf(&sb, "|%d:%d:%v", s.ID, s.Events, s.Pending)
	}
	return sb.String()
}

var requester = func() bandtesting.Account { return bandtesting.Alice }

func (s *spec) Build(w *engine.World) (sdk.Context, engine.Model) {
	ctx := engine.Fork(w.Root)
	tssh.ApplyParams(w, ctx, tssh.Params{SigningPeriod: s.cfg.SigningPeriod, MaxSigningAttempt: s.cfg.MaxSigningAttempt, MaxDESize: s.cfg.MaxDESize})
	bp := w.App.BandtssKeeper.GetParams(ctx)
	bp.RewardPercentage = 0 // block rewards to members are C14's subject; keep member balances = signing fees only
	bp.InactivePenaltyDuration = penalty
	bp.FeePerSigner = sdk.NewCoins(sdk.NewInt64Coin("uband", s.cfg.FeePerSigner))
	if err := w.App.BandtssKeeper.SetParams(ctx, bp); err != nil {
		panic(err)
	}
	for _, v := range bandtesting.Validators {
		tssh.Must(w.Tx(ctx, 0, oracletypes.NewMsgActivate(v.ValAddress)), "activate validator")
	}
	g, ctx2 := tssh.SetupCurrentGroup(w, ctx, s.cfg.N, uint64(s.cfg.T), 1)
	ctx = ctx2
	s.g = g
	// Bob is the payer that cannot afford a signing: balance = fee*t - 1
	bobBal := bal(w, ctx, bandtesting.Bob.Address)
	keep := s.cfg.FeePerSigner*int64(s.cfg.T) - 1
	if keep < 0 {
		keep = 0
	}
	tssh.Must(w.Tx(ctx, 0, banktypes.NewMsgSend(bandtesting.Bob.Address, bandtesting.Carol.Address, sdk.NewCoins(sdk.NewInt64Coin("uband", bobBal-keep)))), "drain bob")
	m := &model{Used: map[string]bool{}}
	for i := 0; i < s.cfg.N; i++ {
		m.Queues = append(m.Queues, nil)
		m.NextDE = append(m.NextDE, 0)
		m.Active = append(m.Active, true)
		m.Earned = append(m.Earned, 0)
		if s.cfg.InitDE > 0 {
			tssh.Must(w.Tx(ctx, 0, tssh.SubmitDEsMsg(g.Accounts[i].Address.String(), 0, s.cfg.InitDE)), "init DEs")
			for k := uint64(0); k < s.cfg.InitDE; k++ {
				m.Queues[i] = append(m.Queues[i], k)
			}
			m.NextDE[i] = s.cfg.InitDE
		}
	}
	return ctx, m
}

func has(list []string, x string) bool {
	for _, y := range list {
		if y == x {
			return true
		}
	}
	return false
}

func (s *spec) Enabled(w *engine.World, ctx sdk.Context, mm engine.Model, depth int) []string {
	m := mm.(*model)
	ev := s.cfg.Events
	var out []string
	for i := 0; i < s.cfg.N; i++ {
		if has(ev, "de1") {
			out = append(out, fmt.Sprintf("de:%d:1", i))
		}
		if has(ev, "de2") {
			out = append(out, fmt.Sprintf("de:%d:2", i))
		}
		if has(ev, "reset") && len(m.Queues[i]) > 0 {
			out = append(out, fmt.Sprintf("reset:%d", i))
		}
		if has(ev, "act") && !m.Active[i] {
			out = append(out, fmt.Sprintf("act:%d", i))
		}
	}
	if m.Reqs < s.cfg.MaxReq {
		for _, k := range []string{"req", "reqlow", "reqnolimit", "reqotherdenom", "reqgov", "reqfail", "reqpoor", "oreq", "oreqlow", "oreqmany"} {
			if has(ev, k) {
				out = append(out, k)
			}
		}
	}
	if has(ev, "feechg") {
		out = append(out, "feechg")
	}
	if has(ev, "period") && s.cfg.SigningPeriod > 1 {
		out = append(out, "period")
	}
	if has(ev, "maxde") && s.cfg.MaxDESize > 1 {
		out = append(out, "maxde")
	}
	if has(ev, "maxatt") && s.cfg.MaxSigningAttempt > 1 {
		out = append(out, "maxatt")
	}
	if has(ev, "sig") {
		for _, sg := range m.Sigs {
			if sg.Status != "W" {
				continue
			}
			for _, mi := range sg.Assigned {
				if !sg.Submitted[mi] {
					out = append(out, fmt.Sprintf("sig:%d:%d", sg.ID, mi))
				}
			}
		}
		// a submission to a finished signing must be rejected
		for _, sg := range m.Sigs {
			if sg.Status != "W" && len(sg.Assigned) > 0 {
				out = append(out, fmt.Sprintf("sig:%d:%d", sg.ID, sg.Assigned[0]))
				break
			}
		}
	}
	out = append(out, "block")
	return out
}

func bal(w *engine.World, ctx sdk.Context, a sdk.AccAddress) int64 {
	return w.App.BankKeeper.GetBalance(ctx, a, "uband").Amount.Int64()
}

// adoptAttempt reads the chain's current attempt of signing sg (the committee is given: selection is
// C09's subject), checks it against the model queues (C05) and the eligible set, and pops the nonces.
func (s *spec) adoptAttempt(w *engine.World, ctx sdk.Context, m *model, sg *mSigning, st *engine.StepResult, eligible map[int]bool) bool {
	k := w.App.TSSKeeper
	signing, err := k.GetSigning(ctx, tss.SigningID(sg.ID))
	if err != nil {
		st.Violate("C10/signing-missing", "signing %d: %v", sg.ID, err)
		return false
	}
	sa, err := k.GetSigningAttempt(ctx, tss.SigningID(sg.ID), signing.CurrentAttempt)
	if err != nil {
		st.Violate("C10/attempt-missing", "signing %d attempt %d: %v", sg.ID, signing.CurrentAttempt, err)
		return false
	}
	if len(sa.AssignedMembers) != s.cfg.T {
		st.Violate("C10/committee-size", "signing %d attempt %d has %d assigned members, threshold %d", sg.ID, sa.Attempt, len(sa.AssignedMembers), s.cfg.T)
	}
	sg.Assigned = nil
	seen := map[int]bool{}
	for _, am := range sa.AssignedMembers {
		mi := s.g.Index(am.Address)
		if mi < 0 || seen[mi] {
			st.Violate("C10/committee-member-invalid", "signing %d: assigned %s (index %d, duplicate=%v)", sg.ID, am.Address, mi, seen[mi])
			return false
		}
		seen[mi] = true
		if int(am.MemberID) != mi+1 {
			st.Violate("C10/committee-member-invalid", "member id %d for address index %d", am.MemberID, mi)
		}
		sg.Assigned = append(sg.Assigned, mi)
		if eligible != nil && !eligible[mi] {
			st.Violate("C05/ineligible-member-assigned", "signing %d attempt %d assigned member %d which is inactive or has no queued nonce (active=%v queue=%v)", sg.ID, sa.Attempt, mi, m.Active[mi], m.Queues[mi])
			return false
		}
		de, ok := tssh.LookupDE(am.PubD, am.PubE)
		if !ok || de.Member != am.Address {
			st.Violate("C05/assigned-nonce-not-registered-by-member", "signing %d member %d: nonce pair is not one this member registered", sg.ID, mi)
			return false
		}
		tok := fmt.Sprintf("%d:%d", mi, de.K)
		if m.Used[tok] {
			st.Violate("C05/nonce-pair-assigned-twice", "token %s (member:number) assigned again to signing %d attempt %d", tok, sg.ID, sa.Attempt)
			return false
		}
		if len(m.Queues[mi]) == 0 || m.Queues[mi][0] != de.K {
			st.Violate("C05/assigned-nonce-not-queue-head", "signing %d member %d got token %d, model queue %v", sg.ID, mi, de.K, m.Queues[mi])
			return false
		}
		m.Used[tok] = true
		m.Queues[mi] = m.Queues[mi][1:]
	}
	sg.Attempt = sa.Attempt
	sg.Height = ctx.BlockHeight()
	sg.Submitted = map[int]bool{}
	sg.Pending = false
	period := w.App.TSSKeeper.GetParams(ctx).SigningPeriod // parameter in force (configuration, given)
	if sa.ExpiredHeight != uint64(ctx.BlockHeight())+period {
		st.Violate("C10/attempt-expiry-height", "attempt created at %d expires at %d, period %d", ctx.BlockHeight(), sa.ExpiredHeight, period)
	}
	m.Attempts = append(m.Attempts, attemptRec{SID: sg.ID, Attempt: sg.Attempt, Height: sg.Height, Expiry: sg.Height + int64(period)})
	return true
}

func (s *spec) eligible(m *model) map[int]bool {
	e := map[int]bool{}
	for i := 0; i < s.cfg.N; i++ {
		if m.Active[i] && len(m.Queues[i]) > 0 {
			e[i] = true
		}
	}
	return e
}

func (s *spec) Step(w *engine.World, ctx sdk.Context, mm engine.Model, ev string) (sdk.Context, engine.StepResult) {
	m := mm.(*model)
	var st engine.StepResult
	parts := strings.Split(ev, ":")
	tk, bk := w.App.TSSKeeper, w.App.BandtssKeeper
	g := s.g
	reqAddr := requester().Address
	fee := bk.GetParams(ctx).FeePerSigner.AmountOf("uband").Int64() // parameter value in force (configuration, given)
	switch parts[0] {
	case "period":
		// governance changes signing_period while attempts are in flight
		tp := tk.GetParams(ctx)
		if tp.SigningPeriod == s.cfg.SigningPeriod {
			tp.SigningPeriod = 1
		} else {
			tp.SigningPeriod = s.cfg.SigningPeriod
		}
		res := w.Tx(ctx, 0, tsstypes.NewMsgUpdateParams(tssh.Authority.String(), tp))
		st.Outcome = "period:" + res.ErrName()
	case "maxatt":
		// governance lowers (to 1) / restores max_signing_attempt while attempts are in flight
		tp := tk.GetParams(ctx)
		if tp.MaxSigningAttempt == s.cfg.MaxSigningAttempt {
			tp.MaxSigningAttempt = 1
		} else {
			tp.MaxSigningAttempt = s.cfg.MaxSigningAttempt
		}
		res := w.Tx(ctx, 0, tsstypes.NewMsgUpdateParams(tssh.Authority.String(), tp))
		st.Outcome = "maxatt:" + res.ErrName()
	case "maxde":
		// governance lowers / restores MaxDESize while queues are filled
		tp := tk.GetParams(ctx)
		if tp.MaxDESize == s.cfg.MaxDESize {
			tp.MaxDESize = 1
		} else {
			tp.MaxDESize = s.cfg.MaxDESize
		}
		res := w.Tx(ctx, 0, tsstypes.NewMsgUpdateParams(tssh.Authority.String(), tp))
		st.Outcome = "maxde:" + res.ErrName()
	case "feechg":
		// governance changes fee_per_signer while signings are in flight
		bp := bk.GetParams(ctx)
		nf := s.cfg.FeePerSigner + 5
		if fee != s.cfg.FeePerSigner {
			nf = s.cfg.FeePerSigner
		}
		bp.FeePerSigner = sdk.NewCoins(sdk.NewInt64Coin("uband", nf))
		res := w.Tx(ctx, 0, bandtsstypes.NewMsgUpdateParams(tssh.Authority.String(), bp))
		st.Outcome = "feechg:" + res.ErrName()
	case "de":
		i, _ := strconv.Atoi(parts[1])
		cnt, _ := strconv.ParseUint(parts[2], 10, 64)
		addr := g.Accounts[i].Address.String()
		res := w.Tx(ctx, 0, tssh.SubmitDEsMsg(addr, m.NextDE[i], cnt))
		st.Outcome = "de:" + res.ErrName()
		maxDE := tk.GetParams(ctx).MaxDESize // parameter in force (configuration, given)
		over := uint64(len(m.Queues[i]))+cnt > maxDE
		if res.OK() {
			if over {
				st.Violate("C05/de-submission-above-max-accepted", "member %d queue %d + %d > max %d accepted", i, len(m.Queues[i]), cnt, maxDE)
				return ctx, st
			}
			for k := uint64(0); k < cnt; k++ {
				m.Queues[i] = append(m.Queues[i], m.NextDE[i]+k)
			}
			m.NextDE[i] += cnt
		} else if over {
			st.Saw("de-rejected-over-max")
		}
	case "reset":
		i, _ := strconv.Atoi(parts[1])
		res := w.Tx(ctx, 0, tsstypes.NewMsgResetDE(g.Accounts[i].Address.String()))
		st.Outcome = "reset:" + res.ErrName()
		if res.OK() {
			m.Queues[i] = nil
		}
	case "act":
		i, _ := strconv.Atoi(parts[1])
		res := w.Tx(ctx, 0, bandtsstypes.NewMsgActivate(g.Accounts[i].Address.String(), g.ID))
		st.Outcome = "act:" + res.ErrName()
		if res.OK() {
			m.Active[i] = true
		}
	case "oreqmany":
		// as oreq, but three validators are asked, two reports suffice, and all three report in this block; the fee limit
		// leaves room for two signing fees: the result is still put to the group once and one fee is charged
		m.Reqs++
		oracleCost := int64(9_000_000) // data sources 1..3 (1000000uband each) x ask_count 3
		limit := oracleCost + 2*fee*int64(s.cfg.T)
		rq := oracletypes.NewMsgRequestData(1, []byte("c"), 3, 2, "tsssig-many", sdk.NewCoins(sdk.NewInt64Coin("uband", limit)), bandtesting.TestDefaultPrepareGas, bandtesting.TestDefaultExecuteGas, bandtesting.FeePayer.Address, oracletypes.ENCODER_FULL_ABI)
		res := w.Tx(ctx, 0, rq)
		st.Outcome = parts[0] + ":" + res.ErrName()
		if res.OK() {
			rid := w.App.OracleKeeper.GetRequestCount(ctx)
			req := w.App.OracleKeeper.MustGetRequest(ctx, oracletypes.RequestID(rid))
			var raws []oracletypes.RawReport
			for _, rr := range req.RawRequests {
				raws = append(raws, oracletypes.NewRawReport(rr.ExternalID, 0, []byte("x")))
			}
			for _, rv := range req.RequestedValidators {
				val, _ := sdk.ValAddressFromBech32(rv)
				if r2 := w.Tx(ctx, 0, oracletypes.NewMsgReportData(oracletypes.RequestID(rid), raws, val)); !r2.OK() {
					panic("report: " + r2.Err.Error())
				}
			}
			m.Due = append(m.Due, limit-oracleCost)
		}
	case "oreq", "oreqlow":
		// an oracle request with a TSS encoder, reported at once by its validator: its result is put to the
		// signing group by the oracle end-blocker of this block (signing creation inside a cache context)
		m.Reqs++
		oracleCost := int64(3_000_000) // script 1 asks data sources 1..3 (1000000uband each), ask_count 1
		limit := oracleCost + fee*int64(s.cfg.T)
		if parts[0] == "oreqlow" {
			limit = oracleCost // nothing left for the signing fee: creation must fail and leave no trace
		}
		rq := oracletypes.NewMsgRequestData(1, []byte("c"), 1, 1, "tsssig", sdk.NewCoins(sdk.NewInt64Coin("uband", limit)), bandtesting.TestDefaultPrepareGas, bandtesting.TestDefaultExecuteGas, bandtesting.FeePayer.Address, oracletypes.ENCODER_FULL_ABI)
		res := w.Tx(ctx, 0, rq)
		st.Outcome = parts[0] + ":" + res.ErrName()
		if res.OK() {
			rid := w.App.OracleKeeper.GetRequestCount(ctx)
			req := w.App.OracleKeeper.MustGetRequest(ctx, oracletypes.RequestID(rid))
			val, _ := sdk.ValAddressFromBech32(req.RequestedValidators[0])
			var raws []oracletypes.RawReport
			for _, rr := range req.RawRequests {
				raws = append(raws, oracletypes.NewRawReport(rr.ExternalID, 0, []byte("x")))
			}
			if r2 := w.Tx(ctx, 0, oracletypes.NewMsgReportData(oracletypes.RequestID(rid), raws, val)); !r2.OK() {
				panic("report: " + r2.Err.Error())
			}
			m.Due = append(m.Due, limit-oracleCost)
		}
	case "req", "reqlow", "reqnolimit", "reqotherdenom", "reqgov", "reqfail", "reqpoor":
		m.Reqs++
		content := tsstypes.NewTextSignatureOrder([]byte(fmt.Sprintf("msg-%d", m.Reqs)))
		total := fee * int64(s.cfg.T)
		limit := total
		sender := reqAddr
		switch parts[0] {
		case "reqlow":
			limit = total - 1
			if limit < 0 {
				limit = 0 // the fee is 0: "one below the fee" does not exist, the request is an ordinary free one
			}
		case "reqgov":
			sender = tssh.Authority
		case "reqpoor":
			sender = bandtesting.Bob.Address // holds exactly total-1 uband (see Build)
		}
		limitCoins := sdk.NewCoins(sdk.NewInt64Coin("uband", limit))
		switch parts[0] {
		case "reqnolimit":
			limitCoins = sdk.NewCoins() // no limit given at all: nothing may be charged
		case "reqotherdenom":
			limitCoins = sdk.NewCoins(sdk.NewInt64Coin("tok", 1_000_000)) // a limit that does not mention the fee denom
		}
		msg, err := bandtsstypes.NewMsgRequestSignature(content, limitCoins, sender.String())
		if err != nil {
			panic(err)
		}
		msgs := []sdk.Msg{msg}
		if parts[0] == "reqfail" {
			// second message of the same tx fails: the whole tx, including the dequeue, must roll back
			msgs = append(msgs, banktypes.NewMsgSend(reqAddr, reqAddr, sdk.NewCoins(sdk.NewInt64Coin("nonexistent", 1))))
		}
		before := tk.GetSigningCount(ctx)
		elig := s.eligible(m)
		res := w.Tx(ctx, 0, msgs...)
		st.Outcome = parts[0] + ":" + res.ErrName()
		if res.OK() {
			if parts[0] == "reqpoor" && fee > 0 {
				st.Violate("C13/fee-charged-beyond-balance", "payer with balance below the fee was served")
				return ctx, st
			}
			if (parts[0] == "reqnolimit" || parts[0] == "reqotherdenom") && fee > 0 {
				st.Violate("C13/fee-charged-without-limit-in-that-denom", "signing fee %duband charged although the caller's fee limit is %s", total, limitCoins)
				return ctx, st
			}
			if parts[0] == "reqlow" && fee > 0 {
				st.Violate("C13/fee-above-limit-accepted", "signing fee %d accepted with limit %d", total, limit)
				return ctx, st
			}
			if parts[0] == "reqfail" {
				st.Violate("C05/failing-tx-committed", "tx with a failing second message was committed")
				return ctx, st
			}
			if tk.GetSigningCount(ctx) != before+1 {
				st.Violate("C10/signing-count", "signing count %d -> %d", before, tk.GetSigningCount(ctx))
				return ctx, st
			}
			sg := &mSigning{ID: before + 1, Requester: sender.String(), Status: "W", Submitted: map[int]bool{}}
			if parts[0] == "req" {
				sg.Paid, sg.Fee = true, fee
				m.Escrow += total
				m.Spent += total
			}
			m.Sigs = append(m.Sigs, sg)
			if !s.adoptAttempt(w, ctx, m, sg, &st, elig) {
				return ctx, st
			}
			if sg.Attempt != 1 {
				st.Violate("C10/first-attempt-number", "new signing has attempt %d", sg.Attempt)
			}
		} else {
			if tk.GetSigningCount(ctx) != before {
				st.Violate("C10/rejected-request-created-signing", "%s", ev)
			}
			if len(elig) < s.cfg.T {
				st.Saw("req-rejected:too-few-eligible")
			}
			// the statement fixes the price: a request whose limit and balance cover exactly
			// fee_per_signer x threshold must not be refused for fee reasons
			if parts[0] == "req" && (res.ErrName() == "bandtss/3" || res.ErrName() == "sdk/5") {
				st.Violate("C13/affordable-signing-refused-for-fee", "limit = balance-covered fee_per_signer(%d) x threshold(%d) = %d refused: %v", fee, s.cfg.T, total, res.Err)
			}
			if parts[0] == "reqgov" && (res.ErrName() == "bandtss/3" || res.ErrName() == "sdk/5") {
				st.Violate("C13/governance-request-charged", "authority request refused for fee reasons: %v", res.Err)
			}
		}
	case "sig":
		sid, _ := strconv.ParseUint(parts[1], 10, 64)
		mi, _ := strconv.Atoi(parts[2])
		var sg *mSigning
		for _, x := range m.Sigs {
			if x.ID == sid {
				sg = x
			}
		}
		if sg.Status != "W" {
			// late submission to a finished signing: must be rejected and change nothing
			signing, _ := tk.GetSigning(ctx, tss.SigningID(sid))
			fake, _ := tss.NewSignatureFromComponents(signing.GroupPubNonce, tss.Scalar(make([]byte, 32)))
			res := w.Tx(ctx, 0, tsstypes.NewMsgSubmitSignature(tss.SigningID(sid), tss.MemberID(mi+1), fake, g.Accounts[mi].Address.String()))
			st.Outcome = "sig-late:" + res.ErrName()
			if res.OK() {
				st.Violate("C10/submission-to-finished-signing-accepted", "signing %d status %s", sid, sg.Status)
			}
			break
		}
		msg, err := g.SubmitSigMsg(w, ctx, tss.SigningID(sid), tss.MemberID(mi+1))
		if err != nil {
			st.Violate("C10/cannot-build-honest-signature", "%v", err)
			return ctx, st
		}
		res := w.Tx(ctx, 0, msg)
		st.Outcome = "sig:" + res.ErrName()
		if !res.OK() {
			st.Violate("C10/honest-partial-signature-rejected", "signing %d member %d attempt %d: %v", sid, mi, sg.Attempt, res.Err)
			return ctx, st
		}
		sg.Submitted[mi] = true
		if len(sg.Submitted) == len(sg.Assigned) {
			sg.Pending = true
		}
	case "block":
		h := ctx.BlockHeight()
		// --- reference model of the block end ---
		// 1. aggregation of signings completed in this block
		var paidOut []*mSigning
		for _, sg := range m.Sigs {
			if sg.Status == "W" && sg.Pending {
				sg.Status, sg.Pending = "S", false
				paidOut = append(paidOut, sg)
			}
		}
		preActive := append([]bool(nil), m.Active...)
		feeAtStart := fee
		// 2. (after the block, below) attempts whose period has passed, in creation order
		var retry []*mSigning
		processExpiries := func(post sdk.Context) {
			blocked := false
			for i := range m.Attempts {
				a := &m.Attempts[i]
				if a.Processed {
					continue
				}
				if a.Expiry > h {
					// never timed out before its own period has passed
					if _, err := tk.GetSigningAttempt(post, tss.SigningID(a.SID), a.Attempt); err != nil {
						st.Violate("C10/attempt-removed-before-its-period-passed", "signing %d attempt %d (expires at %d) is gone at the end of block %d", a.SID, a.Attempt, a.Expiry, h)
					}
					blocked = true
					continue
				}
				if blocked {
					// its own period has passed but an earlier attempt (created under a longer, since reduced, period) has not
					// expired yet: the statement fixes the moment only "while that parameter is unchanged"; follow the chain,
					// it must be processed at the latest when everything before it has expired
					if _, err := tk.GetSigningAttempt(post, tss.SigningID(a.SID), a.Attempt); err == nil {
						st.Saw("expiry-deferred-behind-earlier-attempt")
						continue
					}
				}
				a.Processed = true
				var sg *mSigning
				for _, x := range m.Sigs {
					if x.ID == a.SID {
						sg = x
					}
				}
				if sg.Status == "W" && sg.Attempt == a.Attempt && len(sg.Submitted) != len(sg.Assigned) {
					for _, mi := range sg.Assigned {
						if !sg.Submitted[mi] {
							m.Active[mi] = false // penalised
						}
					}
					retry = append(retry, sg)
				}
			}
		}
		type exp struct {
			sg      *mSigning
			fallen  bool
			elig    map[int]bool
			attempt uint64
		}
		var exps []exp
		next, br := w.Block(ctx, 1, 3*time.Second)
		if br.Halt != "" {
			st.Violate("block-halt", "%s", br.Halt)
			return ctx, st
		}
		// retries are decided in order against the queues as they evolve; the committee itself is
		// read back from the chain (given), so step through them now on the post-block state, which
		// still carries height h for attempt creation (attempts are created in the EndBlocker of h).
		postEnd := next.WithBlockHeight(h)
		processExpiries(postEnd)
		for _, sg := range retry {
			exps = append(exps, exp{sg: sg, attempt: sg.Attempt})
		}
		// signings created by the oracle end-blocker (it runs before the tss end-blocker): eligibility and
		// nonce queues as they were before this block's time-outs
		for _, remaining := range m.Due {
			room := remaining >= feeAtStart*int64(s.cfg.T) // the signing fee in force at resolution time must fit into what is left of the limit
			eligPre := map[int]bool{}
			for i := 0; i < s.cfg.N; i++ {
				if preActive[i] && len(m.Queues[i]) > 0 {
					eligPre[i] = true
				}
			}
			expectNew := room && len(eligPre) >= s.cfg.T
			known := uint64(0)
			for _, sg := range m.Sigs {
				if sg.ID > known {
					known = sg.ID
				}
			}
			has := expectNew
			if expectNew && tk.GetSigningCount(postEnd) <= known {
				st.Violate("C05/oracle-result-signing-creation-mismatch", "oracle result signing expected (fee limit leaves room, %d eligible members, threshold %d) but no signing %d exists", len(eligPre), s.cfg.T, known+1)
				return next, st
			}
			if !has {
				st.Saw("oracle-signing-refused:" + map[bool]string{true: "too-few-eligible", false: "fee-limit"}[room])
				continue
			}
			sg := &mSigning{ID: known + 1, Requester: bandtesting.FeePayer.Address.String(), Status: "W", Submitted: map[int]bool{}, Paid: true, Fee: feeAtStart}
			m.Escrow += feeAtStart * int64(s.cfg.T)
			m.Sigs = append(m.Sigs, sg)
			if !s.adoptAttempt(w, postEnd, m, sg, &st, eligPre) {
				return next, st
			}
			st.Saw("oracle-signing-created")
		}
		m.Due = nil
		{
			known := uint64(0)
			for _, sg := range m.Sigs {
				if sg.ID > known {
					known = sg.ID
				}
			}
			if c := tk.GetSigningCount(postEnd); c != known {
				st.Violate("C05/unexpected-signing-created-at-block-end", "signing count %d after the block, model knows %d", c, known)
				// the fee side of the same event: a signing nobody asked for was paid for out of somebody's fee limit
				if got := bal(w, postEnd, bk.GetBandtssAccount(postEnd).GetAddress()); got != m.Escrow {
					st.Violate("C13/fee-charged-for-a-signing-that-was-not-requested", "signing count %d after the block, model knows %d; bandtss module holds %d, ledger says %d", c, known, got, m.Escrow)
				}
				return next, st
			}
		}
		maxAtt := tk.GetParams(postEnd).MaxSigningAttempt // the parameter value in force at this block end (given; changed only by the maxatt event)
		for i := range exps {
			sg := exps[i].sg
			elig := s.eligible(m)
			signing, _ := tk.GetSigning(postEnd, tss.SigningID(sg.ID))
			if sg.Attempt+1 > maxAtt || len(elig) < s.cfg.T {
				sg.Status = "F"
				if signing.Status != tsstypes.SIGNING_STATUS_FALLEN {
					why := "max attempts used"
					if sg.Attempt+1 <= maxAtt {
						why = fmt.Sprintf("only %d eligible members", len(elig))
					}
					st.Violate("C10/expected-fallen", "signing %d should be FALLEN (%s) but is %s attempt %d", sg.ID, why, signing.Status, signing.CurrentAttempt)
					return next, st
				}
				st.Saw("fallen:" + map[bool]string{true: "max-attempts", false: "no-members"}[sg.Attempt+1 > maxAtt])
				continue
			}
			if signing.Status != tsstypes.SIGNING_STATUS_WAITING || signing.CurrentAttempt != sg.Attempt+1 {
				st.Violate("C10/expected-retry", "signing %d should be WAITING attempt %d after time-out, is %s attempt %d (eligible %d)", sg.ID, sg.Attempt+1, signing.Status, signing.CurrentAttempt, len(elig))
				return next, st
			}
			if !s.adoptAttempt(w, postEnd, m, sg, &st, elig) {
				return next, st
			}
			st.Saw("retry")
		}
		// payouts
		for _, sg := range paidOut {
			if sg.Paid {
				for _, mi := range sg.Assigned {
					m.Earned[mi] += sg.Fee
					m.Escrow -= sg.Fee
				}
			}
		}
		ctx = next
		st.Outcome = "block"
		for _, e := range br.EndEvents {
			if e.Type == tsstypes.EventTypeSigningSuccess || e.Type == tsstypes.EventTypeSigningFailed {
				id, _ := strconv.ParseUint(engine.Attr(sdk.Event(e), tsstypes.AttributeKeySigningID), 10, 64)
				for _, sg := range m.Sigs {
					if sg.ID == id {
						sg.Events++
						if sg.Events > 1 {
							st.Violate("C10/outcome-notified-more-than-once", "signing %d has %d outcome events", id, sg.Events)
						}
					}
				}
				st.Saw(e.Type)
			}
		}
		// interim data of processed attempts is gone
		for _, a := range m.Attempts {
			if !a.Processed {
				continue
			}
			if _, err := tk.GetSigningAttempt(ctx, tss.SigningID(a.SID), a.Attempt); err == nil {
				st.Violate("C10/interim-data-not-removed:attempt", "signing %d attempt %d still stored after its period", a.SID, a.Attempt)
			}
			if n := tk.GetPartialSignatureCount(ctx, tss.SigningID(a.SID), a.Attempt); n != 0 || len(tk.GetPartialSignatures(ctx, tss.SigningID(a.SID), a.Attempt)) != 0 {
				st.Violate("C10/interim-data-not-removed:partial-signatures", "signing %d attempt %d still has partial signatures after its period", a.SID, a.Attempt)
			}
		}
		if len(tk.GetPendingProcessSignings(ctx)) != 0 {
			st.Violate("C10/pending-signings-not-cleared", "%v", tk.GetPendingProcessSignings(ctx))
		}
	}
	// ---- invariants after every transition ----
	for _, sg := range m.Sigs {
		signing, err := tk.GetSigning(ctx, tss.SigningID(sg.ID))
		if err != nil {
			st.Violate("C10/signing-missing", "signing %d: %v", sg.ID, err)
			continue
		}
		want := map[string]tsstypes.SigningStatus{"W": tsstypes.SIGNING_STATUS_WAITING, "S": tsstypes.SIGNING_STATUS_SUCCESS, "F": tsstypes.SIGNING_STATUS_FALLEN}[sg.Status]
		if signing.Status != want || signing.CurrentAttempt != sg.Attempt {
			st.Violate(fmt.Sprintf("C10/status-or-attempt-mismatch:%s-vs-%s", signing.Status, want),
				"signing %d: chain %s attempt %d, model %s attempt %d (attempt created at %d, period %d, height %d, submitted %d/%d) after %s",
				sg.ID, signing.Status, signing.CurrentAttempt, want, sg.Attempt, sg.Height, s.cfg.SigningPeriod, ctx.BlockHeight(), len(sg.Submitted), len(sg.Assigned), ev)
		}
		if sg.Status == "S" && len(signing.Signature) == 0 {
			st.Violate("C10/success-without-signature", "signing %d", sg.ID)
		}
		if sg.Status == "W" {
			// no stuck state: the current attempt is registered for expiry
			found := false
			for _, se := range tk.GetSigningExpirations(ctx) {
				if uint64(se.SigningID) == sg.ID && se.SigningAttempt == sg.Attempt {
					found = true
				}
			}
			if !found {
				st.Violate("C10/waiting-signing-without-expiry-entry", "signing %d attempt %d", sg.ID, sg.Attempt)
			}
		}
		if sg.Status != "W" && sg.Events != 1 && parts[0] == "block" {
			st.Violate("C10/outcome-event-count", "signing %d is %s with %d outcome events", sg.ID, sg.Status, sg.Events)
		}
	}
	for i := 0; i < s.cfg.N; i++ {
		addr := g.Accounts[i].Address
		// nonce queue equals the model FIFO
		q := tk.GetDEQueue(ctx, addr)
		var chain []uint64
		bad := false
		for idx := q.Head; idx < q.Tail; idx++ {
			de, err := tk.GetDE(ctx, addr, idx)
			if err != nil {
				bad = true
				break
			}
			p, ok := tssh.LookupDE(de.PubD, de.PubE)
			if !ok {
				bad = true
				break
			}
			chain = append(chain, p.K)
		}
		if bad || fmt.Sprint(chain) != fmt.Sprint(m.Queues[i]) {
			st.Violate("C05/nonce-queue-differs-from-fifo-model", "member %d: chain queue %v (head %d tail %d), model %v after %s", i, chain, q.Head, q.Tail, m.Queues[i], ev)
		}
		// (queue length <= max is asserted at submission time against the parameter then in force; a later
		// lowering of the parameter may legitimately leave a longer queue)
		// penalties: exactly the model's active flags
		mem, err := bk.GetMember(ctx, addr, g.ID)
		if err != nil {
			st.Violate("C10/member-missing", "%v", err)
			continue
		}
		if mem.IsActive != m.Active[i] {
			st.Violate(fmt.Sprintf("C10/penalty-mismatch:chain-active=%v", mem.IsActive), "member %d: chain active=%v, model active=%v after %s", i, mem.IsActive, m.Active[i], ev)
		}
		tm, err := tk.GetMemberByAddress(ctx, g.ID, addr.String())
		if err == nil && tm.IsActive != mem.IsActive {
			st.Violate("C10/tss-bandtss-activity-differ", "member %d tss active=%v bandtss active=%v", i, tm.IsActive, mem.IsActive)
		}
		// fees
		if got := bal(w, ctx, addr); got != 1_000_000+m.Earned[i] {
			st.Violate("C13/member-balance", "member %d balance %d, expected %d (earned %d)", i, got, 1_000_000+m.Earned[i], m.Earned[i])
		}
	}
	if got := bal(w, ctx, bk.GetBandtssAccount(ctx).GetAddress()); got != m.Escrow {
		st.Violate("C13/escrow-balance", "bandtss module holds %d, ledger says %d after %s", got, m.Escrow, ev)
	}
	if got := bal(w, ctx, reqAddr); got != 1_000_000-m.Spent {
		st.Violate("C13/requester-balance", "requester balance %d, expected %d after %s", got, 1_000_000-m.Spent, ev)
	}
	poor := s.cfg.FeePerSigner*int64(s.cfg.T) - 1
	if poor < 0 {
		poor = 0
	}
	if got := bal(w, ctx, bandtesting.Bob.Address); got != poor {
		st.Violate("C13/rejected-payer-balance-changed", "payer that cannot afford the fee has %d, expected %d after %s", got, poor, ev)
	}
	return ctx, st
}

// Run executes the configurations for the owning property and keeps that property's monitors.
func Run(r *engine.Run, owner string, cfgs []Cfg, quickCap, thoroughCap time.Duration) {
	for i, c := range cfgs {
		sp := &spec{cfg: c}
		sr := engine.Search(sp, engine.SearchOpts{Depth: c.Depth, Deadline: r.SliceDeadline(i, len(cfgs), quickCap, thoroughCap)})
		var keep []engine.FoundViolation
		for _, v := range sr.Violations {
			if strings.HasPrefix(v.Fingerprint, owner+"/") || strings.HasPrefix(v.Fingerprint, "block-halt") {
				keep = append(keep, v)
			} else {
				r.Notes = append(r.Notes, fmt.Sprintf("monitor of another property fired (%s) on path %v: %s", v.Fingerprint, v.Path, v.Detail))
				fmt.Printf("NOTE: monitor of another property fired: %s path=%v\n", v.Fingerprint, v.Path)
			}
		}
		sr.Violations = keep
		r.AddSearch(fmt.Sprintf("cfg%d[n=%d,t=%d,period=%d,attempts=%d,maxDE=%d,initDE=%d,maxReq=%d,ev=%s]", i, c.N, c.T, c.SigningPeriod, c.MaxSigningAttempt, c.MaxDESize, c.InitDE, c.MaxReq, strings.Join(c.Events, "+")), c, sr)
	}
	r.ConfirmViolations(func(cfg any) engine.Spec {
		c, ok := cfg.(Cfg)
		if !ok {
			return nil
		}
		return &spec{cfg: c}
	})
}

// Replay re-executes one stored path.
func Replay(raw json.RawMessage, path []string) (engine.StepResult, []string) {
	var c Cfg
	if err := json.Unmarshal(raw, &c); err != nil {
		panic(err)
	}
	last, outs, _ := engine.Replay(&spec{cfg: c}, path)
	return last, outs
}
