// Package sched links the gosched-based checks into the verifsched binary.
package sched

import (
	_ "github.com/bandprotocol/chain/v3/zzverif/sched/c19"
	_ "github.com/bandprotocol/chain/v3/zzverif/sched/c20"
)
