// Package c19 checks property C19: the yoda daemon files exactly one complete, chain-acceptable
// report per request.  (runloop.go: the scenarios that run the real runImpl main loop and SubmitReport against an
// in-memory node and observe the broadcast report transactions.)  Engine: gosched — the real handleTransaction -> handleRequest ->
// handleRawRequests -> handleRawRequest -> GetExecutable code, instrumented so that every goroutine
// creation, channel operation, sleep and atomic is a scheduling point, runs under a controlled
// scheduler; all interleavings up to a preemption bound and all executor / RPC fault placements up
// to a fault bound are enumerated.  RPC queries are served by the real application's Query.
package c19

import (
	"context"
	"crypto/sha256"
	"encoding/hex"
	"encoding/json"
	"fmt"
	"os"
	"path/filepath"
	"sort"
	"strings"
	"sync"
	"sync/atomic"
	"time"

	abci "github.com/cometbft/cometbft/abci/types"
	cmtbytes "github.com/cometbft/cometbft/libs/bytes"
	cmtproto "github.com/cometbft/cometbft/proto/tendermint/types"
	rpcclient "github.com/cometbft/cometbft/rpc/client"
	ctypes "github.com/cometbft/cometbft/rpc/core/types"

	sdk "github.com/cosmos/cosmos-sdk/types"

	"github.com/bandprotocol/chain/v3/pkg/filecache"
	"github.com/bandprotocol/chain/v3/pkg/obi"
	bandtesting "github.com/bandprotocol/chain/v3/testing"
	"github.com/bandprotocol/chain/v3/testing/testdata"
	oracletypes "github.com/bandprotocol/chain/v3/x/oracle/types"
	"github.com/bandprotocol/chain/v3/yoda"
	"github.com/bandprotocol/chain/v3/yoda/executor"
	"github.com/bandprotocol/chain/v3/zzverif/engine"
	"github.com/bandprotocol/chain/v3/zzverif/gosched"
	"github.com/bandprotocol/chain/v3/zzverif/tssh"
	"github.com/bandprotocol/chain/v3/zzverif/vsched"
)

// ---- per-worker chain ---------------------------------------------------------------------------

type chain struct {
	w         *engine.World
	validator sdk.ValAddress
	dsShort   int64 // data source with a 3-byte executable
	dsLong    int64 // data source with a 64-byte executable
	dsMid     int64 // data source with a 25-byte executable
	reqs      map[string]uint64
	raw       map[uint64][]oracletypes.RawRequest
	mine      map[uint64]bool
	dsHash    map[int64]string        // data source id -> file hash
	events    map[uint64][]abci.Event // request id -> events the chain emitted when the request was created
}

var (
	chains   = map[int]*chain{}
	chainMu  sync.Mutex
	initYoda sync.Once
)

func getChain(worker int) *chain {
	chainMu.Lock()
	defer chainMu.Unlock()
	if c := chains[worker]; c != nil {
		return c
	}
	engine.DetRandReset()
	w := engine.NewWorld()
	ctx := w.Root // uncached: the writes below are sealed by the next real block
	for _, v := range bandtesting.Validators {
		tssh.Must(w.Tx(ctx, 0, oracletypes.NewMsgActivate(v.ValAddress)), "activate")
	}
	c := &chain{w: w, reqs: map[string]uint64{}, raw: map[uint64][]oracletypes.RawRequest{}, mine: map[uint64]bool{}, events: map[uint64][]abci.Event{}}
	mkDS := func(name string, exe []byte) int64 {
		tssh.Must(w.Tx(ctx, 0, oracletypes.NewMsgCreateDataSource(name, "d", exe, sdk.NewCoins(), bandtesting.Owner.Address, bandtesting.Owner.Address, bandtesting.Owner.Address)), "create ds")
		return int64(w.App.OracleKeeper.GetDataSourceCount(ctx))
	}
	c.dsHash = map[int64]string{}
	c.dsShort = mkDS("short", []byte("abc"))
	c.dsLong = mkDS("long", []byte(strings.Repeat("0123456789abcdef", 4)))
	c.dsMid = mkDS("mid", []byte(strings.Repeat("x", 25)))
	for _, id := range []int64{c.dsShort, c.dsLong, c.dsMid} {
		c.dsHash[id] = w.App.OracleKeeper.MustGetDataSource(ctx, oracletypes.DataSourceID(id)).Filename
	}
	mkReq := func(name string, ids []int64, ask uint64) {
		cd := obi.MustEncode(testdata.Wasm4Input{IDs: ids, Calldata: name})
		res := w.Tx(ctx, 0, oracletypes.NewMsgRequestData(4, cd, ask, 1, name, bandtesting.Coins100000000uband, bandtesting.TestDefaultPrepareGas, bandtesting.TestDefaultExecuteGas, bandtesting.FeePayer.Address, oracletypes.ENCODER_UNSPECIFIED))
		tssh.Must(res, "request "+name)
		id := w.App.OracleKeeper.GetRequestCount(ctx)
		c.reqs[name] = id
		// the events the chain really emitted for this message (request, raw_request, ...): what the node reports in the tx result
		for _, e := range res.Events {
			if e.Type == oracletypes.EventTypeRequest || e.Type == oracletypes.EventTypeRawRequest {
				c.events[id] = append(c.events[id], abci.Event(e))
			}
		}
		c.raw[id] = w.App.OracleKeeper.MustGetRequest(ctx, oracletypes.RequestID(id)).RawRequests
	}
	mkReq("A", []int64{c.dsShort, c.dsLong}, 3)
	mkReq("B", []int64{c.dsShort, c.dsShort}, 3) // repeated data source
	mkReq("C", []int64{c.dsLong}, 1)             // one validator only
	mkReq("D", []int64{c.dsMid}, 3)
	mkReq("E", []int64{c.dsLong, c.dsMid, c.dsShort}, 3)
	mkReq("F", []int64{c.dsShort, c.dsMid, c.dsLong, c.dsShort, c.dsMid, c.dsLong, c.dsShort, c.dsMid, c.dsLong}, 3) // nine raw requests
	// three more one-raw-request requests (used by the run-loop scenarios, which need four requests that select the validator)
	mkReq("G", []int64{c.dsShort}, 3)
	mkReq("H", []int64{c.dsMid}, 3)
	mkReq("I", []int64{c.dsShort}, 3)
	// the daemon's validator: one that request C did NOT select
	chosenC := w.App.OracleKeeper.MustGetRequest(ctx, oracletypes.RequestID(c.reqs["C"])).RequestedValidators[0]
	for _, v := range bandtesting.Validators {
		if v.ValAddress.String() != chosenC {
			c.validator = v.ValAddress
			break
		}
	}
	for name, id := range c.reqs {
		req := w.App.OracleKeeper.MustGetRequest(ctx, oracletypes.RequestID(id))
		for _, rv := range req.RequestedValidators {
			if rv == c.validator.String() {
				c.mine[id] = true
			}
		}
		_ = name
	}
	if _, err := w.App.FinalizeBlock(&abci.RequestFinalizeBlock{Height: 2, Time: engine.GenesisTime.Add(3 * time.Second)}); err != nil {
		panic(err)
	}
	if _, err := w.App.Commit(); err != nil {
		panic(err)
	}
	initYoda.Do(func() { yoda.VerifInit(w.App, engine.ChainID) })
	chains[worker] = c
	return c
}

// ---- fakes ----------------------------------------------------------------------------------------

type execAnswer int

const (
	execOK execAnswer = iota
	execExit1
	execError
)

type run struct {
	c        *chain
	maxTry   uint64
	answers  map[string]execAnswer // "<rid>/<eid>" -> scripted executor answer
	exeHash  map[string]string     // "<rid>/<eid>" -> sha256 of the executable the executor was given
	fetchErr map[string]int        // data hash -> consecutive failed Data queries
	lastFail map[string]bool       // query key -> previous attempt failed (request / data-source-hash queries)
	fmu      sync.Mutex            // guards the fakes' bookkeeping maps in the free-running pass
	mu       sync.Mutex            // guards msgs in the free-running (-race) pass; uncontended under the cooperative scheduler
	msgs     []*oracletypes.MsgReportData
	cacheDir string
}

// lastRun is the state of the most recently created execution (used by the free-running pass only).
var lastRun *run

type fakeRPC struct {
	rpcclient.Client
	r *run
}

func (f fakeRPC) ABCIQuery(_ context.Context, path string, data cmtbytes.HexBytes) (*ctypes.ResultABCIQuery, error) {
	kind := "store"
	if strings.Contains(path, "Query/Data") {
		kind = "data"
	}
	key := path + "|" + string(data)
	fail := false
	f.r.fmu.Lock()
	prevFailed := f.r.lastFail[key]
	f.r.fmu.Unlock()
	// a fault is offered on every Data query; on request / data-source-hash queries only when the previous
	// attempt of the same query succeeded or never happened (persistent failure of those makes the
	// request unknowable to the daemon and is outside the property's alphabet)
	if kind == "data" || !prevFailed {
		fail = vsched.Env("rpc-"+kind, 2) == 1
	}
	f.r.fmu.Lock()
	f.r.lastFail[key] = fail
	if fail && kind == "data" {
		var q oracletypes.QueryDataRequest
		if err := f.r.c.w.App.AppCodec().Unmarshal(data, &q); err == nil {
			f.r.fetchErr[q.DataHash]++
		}
	}
	f.r.fmu.Unlock()
	if fail {
		return nil, fmt.Errorf("injected rpc failure")
	}
	res, err := f.r.c.w.App.Query(context.Background(), &abci.RequestQuery{Path: path, Data: data})
	if err != nil {
		return nil, err
	}
	return &ctypes.ResultABCIQuery{Response: *res}, nil
}

type fakeExec struct{ r *run }

func (e fakeExec) Exec(exe []byte, arg string, env interface{}) (executor.ExecResult, error) {
	m := env.(map[string]interface{})
	key := fmt.Sprint(m["BAND_REQUEST_ID"], "/", m["BAND_EXTERNAL_ID"])
	a := execAnswer(vsched.Env("executor", 3))
	sum := sha256.Sum256(exe)
	e.r.fmu.Lock()
	e.r.answers[key] = a
	e.r.exeHash[key] = hex.EncodeToString(sum[:])
	e.r.fmu.Unlock()
	switch a {
	case execOK:
		return executor.ExecResult{Output: []byte("ok-" + key), Code: 0, Version: "v1"}, nil
	case execExit1:
		return executor.ExecResult{Output: []byte("exit1-" + key), Code: 1, Version: "v1"}, nil
	}
	return executor.ExecResult{}, fmt.Errorf("injected executor error")
}

// ---- scenarios --------------------------------------------------------------------------------------

var dirSeq int64

// txEvent is the tx result the node reports for one transaction that created the given requests (one MsgRequestData each):
// the events the chain emitted for them, in order.
func txEvent(c *chain, ids ...uint64) abci.TxResult {
	var evs []abci.Event
	for _, id := range ids {
		evs = append(evs, c.events[id]...)
	}
	return abci.TxResult{Tx: []byte(fmt.Sprintf("tx-%v", ids)), Result: abci.ExecTxResult{Code: 0, Events: evs}}
}

// split turns scenario entries ("A", or "A+D" = two requests created by one transaction) into request names.
func split(entries []string) (names []string) {
	for _, e := range entries {
		names = append(names, strings.Split(e, "+")...)
	}
	return
}

func scenario(name string, reqNames []string, maxTry uint64) gosched.Scenario {
	return scenarioS(name, reqNames, nil, maxTry)
}

// scenarioS: requests in `startup` are found pending at daemon start (marked pending and handled by
// `go handleRequest`, as runImpl does) and their tx event is delivered as well (the subscription is opened before
// the pending query, so the event may arrive at any time).
func scenarioS(name string, reqNames []string, startup []string, maxTry uint64) gosched.Scenario {
	return gosched.Scenario{Name: name, New: func(worker int) (func(), func(*vsched.Sched) (string, []engine.Violation)) {
		c := getChain(worker)
		r := &run{c: c, maxTry: maxTry, answers: map[string]execAnswer{}, exeHash: map[string]string{}, fetchErr: map[string]int{}, lastFail: map[string]bool{}}
		lastRun = r
		r.cacheDir = filepath.Join(os.Getenv("VERIF_BUILD"), "homes", fmt.Sprintf("h-%d-yoda-%d", os.Getpid(), atomic.AddInt64(&dirSeq, 1)))
		if os.Getenv("VERIF_BUILD") == "" {
			r.cacheDir = filepath.Join("/verif/build/homes", filepath.Base(r.cacheDir))
		}
		body := func() {
			yc := yoda.VerifNewContext(c.w.App, fakeRPC{r: r}, c.validator, fakeExec{r: r}, filecache.New(r.cacheDir), maxTry, 100*time.Millisecond)
			l := yoda.VerifLogger()
			pending := yoda.VerifPendingMsgs(yc)
			vsched.Go(func() { // the run loop's receiving end
				vsched.SetDaemon()
				for {
					m := vsched.Recv(pending)
					r.mu.Lock()
					r.msgs = append(r.msgs, m.VerifMsg())
					r.mu.Unlock()
				}
			})
			for _, n := range startup {
				id := oracletypes.RequestID(c.reqs[n])
				yoda.VerifMarkPending(yc, id)
				vsched.Go(func() { yoda.VerifHandleRequest(yc, l, id) })
			}
			for _, entry := range reqNames {
				var ids []uint64
				for _, n := range strings.Split(entry, "+") {
					ids = append(ids, c.reqs[n])
				}
				ev := txEvent(c, ids...)
				vsched.Go(func() { yoda.VerifHandleTransaction(yc, l, ev) }) // `go handleTransaction(...)` in runImpl
			}
		}
		check := func(s *vsched.Sched) (string, []engine.Violation) {
			defer os.RemoveAll(r.cacheDir)
			var viol []engine.Violation
			add := func(fp, f string, a ...any) {
				viol = append(viol, engine.Violation{Fingerprint: fp, Detail: fmt.Sprintf(f, a...)})
			}
			if len(s.Panics) > 0 || s.Deadlock || s.Livelock {
				return "aborted", nil // reported by the explorer itself
			}
			sig := judgeReports(r, split(reqNames), r.msgs, "queued reports", add)
			sort.Strings(sig)
			return strings.Join(sig, " "), viol
		}
		return body, check
	}}
}

// judgeReports is the per-request oracle shared by all scenarios: every request in `names` that selects the validator has
// exactly one report among msgs, complete and carrying what the executor answered (or 255), and acceptable to the chain;
// requests that do not select it have none.  `where` says where msgs were observed (for the violation text).  It returns
// the per-request outcome labels.
func judgeReports(r *run, names []string, msgs []*oracletypes.MsgReportData, where string, add func(fp, f string, a ...any)) (sig []string) {
	c, maxTry := r.c, r.maxTry
	unrun := map[string]int{} // file hash -> raw reports filed as 255 without the executor having been asked
	byReq := map[uint64][]*oracletypes.MsgReportData{}
	for _, m := range msgs {
		byReq[uint64(m.RequestID)] = append(byReq[uint64(m.RequestID)], m)
	}
	for _, n := range names {
		id := c.reqs[n]
		got := byReq[id]
		if !c.mine[id] {
			if len(got) != 0 {
				add("report-for-request-not-selecting-validator", "request %s (%d): %d reports", n, id, len(got))
			}
			sig = append(sig, n+":none")
			continue
		}
		if len(got) != 1 {
			fp := "request-dropped"
			if len(got) > 1 {
				fp = "request-reported-more-than-once"
			}
			add(fp, "request %s (%d) selecting the validator produced %d %s", n, id, len(got), where)
			continue
		}
		m := got[0]
		if m.Validator != c.validator.String() {
			add("report-validator-field", "%s", m.Validator)
		}
		want := c.raw[id]
		seen := map[uint64]int{}
		for _, rr := range m.RawReports {
			seen[uint64(rr.ExternalID)]++
		}
		if len(m.RawReports) != len(want) {
			add("raw-report-count", "request %s: %d raw reports for %d raw requests", n, len(m.RawReports), len(want))
		}
		var codes []string
		for _, rq := range want {
			eid := uint64(rq.ExternalID)
			if seen[eid] != 1 {
				add("raw-report-missing-or-duplicated", "request %s external id %d appears %d times", n, eid, seen[eid])
				continue
			}
			var rr oracletypes.RawReport
			for _, x := range m.RawReports {
				if uint64(x.ExternalID) == eid {
					rr = x
				}
			}
			key := fmt.Sprint(id, "/", eid)
			a, ran := r.answers[key]
			// the executor must have been given the data source's own executable (its file name is the hash of its content)
			if ran && r.exeHash[key] != c.dsHash[int64(rq.DataSourceID)] {
				add("executor-run-with-wrong-executable", "request %s eid %d: executable with hash %.8s run for data source %d whose executable has hash %.8s", n, eid, r.exeHash[key], rq.DataSourceID, c.dsHash[int64(rq.DataSourceID)])
			}
			switch {
			case !ran: // the executable could not be fetched (or the executor was never reached)
				if rr.ExitCode != 255 {
					add("unfetched-data-source-not-255", "request %s eid %d: exit code %d", n, eid, rr.ExitCode)
				}
				unrun[c.dsHash[int64(rq.DataSourceID)]]++
			case a == execOK:
				if rr.ExitCode != 0 || string(rr.Data) != "ok-"+key {
					add("executor-result-not-carried", "request %s eid %d: (%d,%q), executor said (0,%q)", n, eid, rr.ExitCode, rr.Data, "ok-"+key)
				}
			case a == execExit1:
				if rr.ExitCode != 1 || string(rr.Data) != "exit1-"+key {
					add("executor-result-not-carried", "request %s eid %d: (%d,%q), executor said (1,%q)", n, eid, rr.ExitCode, rr.Data, "exit1-"+key)
				}
			case a == execError:
				if rr.ExitCode != 255 {
					add("executor-error-not-255", "request %s eid %d: exit code %d", n, eid, rr.ExitCode)
				}
			}
			codes = append(codes, fmt.Sprint(rr.ExitCode))
		}
		// chain-side validation of the produced message (real handler on the base state)
		ctx := engine.Fork(c.w.App.BaseApp.NewUncachedContext(false, cmtHeader()))
		if res := c.w.Tx(ctx, 0, m); !res.OK() {
			add("report-rejected-by-chain", "request %s: %v", n, res.Err)
		}
		sig = append(sig, n+":"+strings.Join(codes, ","))
	}
	// "255 when the data source could not be fetched": every raw report filed as unfetched needs its own maxTry
	// failed fetch attempts; a failure must not be shared between raw requests or remembered
	for h, k := range unrun {
		if r.fetchErr[h] < k*int(maxTry) {
			add("reported-unfetched-without-having-failed-to-fetch", "%d raw reports for executable %s were filed as 255 without running, but only %d fetch attempts failed (maxTry %d)", k, h[:8], r.fetchErr[h], maxTry)
		}
	}
	return sig
}

func init() {
	engine.Register(&engine.Check{
		ID: "C19",
		Run: func(r *engine.Run) {
			quick := r.Quick()
			pre, faults := 2, 1
			if !quick {
				pre, faults = 3, 2
			}
			r.Bound = fmt.Sprintf("(quick: the full preemption bound applies to the first scenario, 1 preemption to the others) scenarios: one request with a 3-byte and a 64-byte executable; a repeated data source plus a request that does not select the validator; two selecting requests concurrently; a request found pending at start-up whose tx event also arrives (at any time); three raw requests (64/25/3-byte executables); all goroutine interleavings with <=%d preemptions x <=%d environment deviations (executor exit 0 / exit 1 / error per raw request; RPC failure on any query attempt, never persistent for request and data-source-hash queries; persistent for the executable fetch with maxTry=2); run-loop scenarios (real runImpl + SubmitReport against an in-memory node; observed: the report transactions broadcast to the node; one reporter key, max-report=2, tx found committed at the first 100 ms poll): requests committed between the daemon's two start-up calls and after them (<=%d preemptions, 0 deviations), the same plus one committed while the daemon was down (non-preemptive schedules, capped), four requests in successive blocks 10 ms apart while the first report's tx is in flight (<=%d preemptions), four requests created by one transaction (non-preemptive schedules, capped)", pre, faults, runPre(quick), runPre(quick)+1)
			r.Assumptions = []string{
				"scheduling points are goroutine creation, channel operations, sleeps and atomics of the instrumented yoda files; data races between scheduling points are the subject of a separate free-running -race pass",
				"RPC answers come from the real application's Query on a committed state; executor and keyring are in-process fakes",
				"persistent failure of the request or data-source-hash query is outside the alphabet (the daemon cannot know the request then)",
				"run-loop scenarios: the node accepts every broadcast (code 0, sequence = number of accepted transactions) and reports it committed with code 0 from 50 ms after the broadcast on; events are published only to the subscriber existing at commit time; the PendingRequests answer is the real application's, restricted to the requests committed so far on the node's timeline; each of the daemon's two start-up calls takes 1 ms during which the chain may commit; no RPC/executor deviations and no broadcast failures in these scenarios",
			}
			if b, err := os.ReadFile(filepath.Join(os.Getenv("VERIF_BUILD"), "race-C19.out")); err == nil && !quick {
				lines := strings.Split(strings.TrimSpace(string(b)), "\n")
				r.Notes = append(r.Notes, "free-running -race pass of the same harness bodies (run by bin/check before this run): "+lines[len(lines)-1])
			}
			deadline := r.Deadline(6*time.Minute, 45*time.Minute)
			scs := []gosched.Scenario{
				scenario("one-request-short-and-long-executable", []string{"A"}, 3),
				scenario("fetch-fails-persistently(maxTry=2)", []string{"D"}, 2),
				scenario("fetch-fails-persistently-repeated-source(maxTry=2)", []string{"B"}, 2),
				scenarioS("pending-at-startup-and-event", []string{"D"}, []string{"D"}, 3),
				scenario("repeated-source-and-foreign-request", []string{"B", "C"}, 3),
				scenario("two-requests-created-by-one-transaction", []string{"A+D"}, 3),
				scenario("nine-raw-requests", []string{"F"}, 3),
			}
			if !quick {
				scs = append(scs, scenario("two-requests-concurrently", []string{"D", "A"}, 3), scenario("three-raw-requests", []string{"E"}, 3), scenario("three-requests-concurrently", []string{"A", "B", "D"}, 3))
			}
			only := os.Getenv("VERIF_C19_ONLY") // development: run only the scenarios whose name contains this
			if only != "" {
				r.Exhaustive = false
				r.CapReasons = append(r.CapReasons, "development filter VERIF_C19_ONLY="+only+": other scenarios skipped")
			}
			explore := func(sc gosched.Scenario, b gosched.Bounds) {
				if only != "" && !strings.Contains(sc.Name, only) {
					return
				}
				t0 := time.Now()
				st := gosched.Explore(sc, b)
				r.States += int(st.Executions)
				r.Transitions += int(st.Points)
				r.Traces += int(st.Executions)
				r.Evaluations += int(st.Executions)
				r.Distinct += len(st.Outcomes)
				for k, v := range st.Outcomes {
					r.Outcomes["outcome["+sc.Name+"]: "+k] += v
				}
				if !st.Exhaustive {
					r.Exhaustive = false
					reason := "time cap"
					if b.MaxExecutions > 0 && st.Executions >= b.MaxExecutions {
						reason = fmt.Sprintf("execution cap %d (first schedules in depth-first order)", b.MaxExecutions)
					}
					r.CapReasons = append(r.CapReasons, sc.Name+": "+reason)
				}
				for i, s := range st.Samples {
					if i < 2 {
						r.Samples = append(r.Samples, map[string]any{"scenario": sc.Name, "choices": s})
					}
				}
				r.Violations = append(r.Violations, st.Violations...)
				r.Configs = append(r.Configs, map[string]any{"scenario": sc.Name, "executions": st.Executions, "choice_points": st.Points, "max_points": st.MaxPoints, "distinct_outcomes": len(st.Outcomes), "preemptions": b.Preemptions, "faults": b.Faults, "exhaustive": st.Exhaustive})
				fmt.Printf("[C19] %s: executions=%d choice-points=%d max-points=%d distinct-outcomes=%d violations=%d exhaustive=%v wall=%.1fs\n", sc.Name, st.Executions, st.Points, st.MaxPoints, len(st.Outcomes), len(st.Violations), st.Exhaustive, time.Since(t0).Seconds())
			}
			for i, sc := range scs {
				b := gosched.Bounds{Preemptions: pre, Faults: faults, Deadline: deadline}
				if quick && i > 0 {
					b.Preemptions = 1 // quick: full preemption bound on the first scenario only
				}
				if quick && sc.Name == "two-requests-concurrently" {
					b.Faults = 0 // quick: schedules only for the largest scenario (faults are covered by the smaller ones)
				}
				if strings.HasPrefix(sc.Name, "pending-at-startup") {
					b.Preemptions = pre + 1 // the late event must be able to arrive after the start-up handling has finished
				}
				if strings.HasPrefix(sc.Name, "fetch-fails") {
					b.Faults = 2
				}
				if sc.Name == "nine-raw-requests" || sc.Name == "two-requests-created-by-one-transaction" {
					b.Preemptions, b.Faults = 0, 1 // many goroutines: the non-preemptive schedules and one environment deviation
					if sc.Name == "nine-raw-requests" {
						// ten goroutines that all become runnable at once: even the non-preemptive schedules number 9!; the
						// first 3000 (quick) / 200000 (thorough) in depth-first order are run, reported as a capped search
						b.Faults, b.MaxExecutions = 0, 3000
						if !quick {
							b.MaxExecutions = 200000
						}
					} else if !quick {
						b.Preemptions, b.Faults = 1, 1
					}
				}
				explore(sc, b)
			}
			// the run-loop scenarios come last but keep a budget of their own (quick 90 s, thorough 10 min) when the earlier
			// scenarios have used up the run's time cap (slow machine, or a change that enlarges their schedule spaces)
			rdl := time.Now().Add(90 * time.Second)
			if !quick {
				rdl = time.Now().Add(10 * time.Minute)
			}
			if deadline.After(rdl) {
				rdl = deadline
			}
			rsc, rb := runLoopScenarios(quick, rdl)
			for i := range rsc {
				explore(rsc[i], rb[i])
			}
			r.Rule = "a case is one complete controlled execution (schedule + environment answers); distinct_nontrivial counts distinct observed outcomes (per request: exit codes of its raw reports; run-loop scenarios also: the numbers of reports in the successive broadcast transactions) summed over scenarios"
		},
		Replay: func(raw json.RawMessage, path []string) (engine.StepResult, []string) {
			return engine.StepResult{}, []string{"gosched counterexample: the config names the scenario, the path is the choice list; re-run `bin/check C19 quick`"}
		},
	})
}

func cmtHeader() cmtproto.Header {
	return cmtproto.Header{ChainID: engine.ChainID, Height: 3, Time: engine.GenesisTime.Add(6 * time.Second)}
}

// RaceBodies runs the scenario bodies free-running (real goroutines and channels, default environment
// answers, no scheduler) `rounds` times.  It is meant for a binary built with -race: the race detector then
// reports unsynchronised accesses between scheduling points, which the cooperative scheduler cannot see
// (its hand-offs are happens-before edges).  Waiting for the reports is bounded; a time-out is counted as
// "incomplete", never as a failure.
func RaceBodies(rounds int) (ok, incomplete int, problems []string) {
	sets := [][]string{{"A"}, {"B", "C"}, {"D", "A"}, {"A", "B", "D", "E"}}
	for round := 0; round < rounds; round++ {
		for _, reqs := range sets {
			c := getChain(0)
			body, check := scenario("race", reqs, 3).New(0)
			r := lastRun
			expected := 0
			for _, n := range reqs {
				if c.mine[c.reqs[n]] {
					expected++
				}
			}
			body()
			deadline := time.Now().Add(10 * time.Second)
			count := func() int { r.mu.Lock(); defer r.mu.Unlock(); return len(r.msgs) }
			for count() < expected && time.Now().Before(deadline) {
				time.Sleep(time.Millisecond)
			}
			if count() < expected {
				incomplete++
				continue
			}
			time.Sleep(5 * time.Millisecond) // let a surplus report (if any) arrive
			r.mu.Lock()
			_, viol := check(&vsched.Sched{})
			r.mu.Unlock()
			for _, v := range viol {
				problems = append(problems, v.Fingerprint+": "+v.Detail)
			}
			ok++
		}
	}
	return ok, incomplete, problems
}
