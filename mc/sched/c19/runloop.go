package c19

// Run-loop scenarios: the REAL runImpl (start-up sequence + main loop: per-key batching with --max-report, waiting
// lists, freeKeys) and the REAL SubmitReport run, instrumented, against an in-memory node.  What is observed is what
// reaches the node: the report transactions that were broadcast.

import (
	"context"
	"fmt"
	"os"
	"path/filepath"
	"sort"
	"strings"
	"sync/atomic"
	"time"

	abci "github.com/cometbft/cometbft/abci/types"
	cmtbytes "github.com/cometbft/cometbft/libs/bytes"
	rpcclient "github.com/cometbft/cometbft/rpc/client"
	ctypes "github.com/cometbft/cometbft/rpc/core/types"
	cmttypes "github.com/cometbft/cometbft/types"

	codectypes "github.com/cosmos/cosmos-sdk/codec/types"
	authtypes "github.com/cosmos/cosmos-sdk/x/auth/types"
	"github.com/cosmos/cosmos-sdk/x/authz"

	"github.com/bandprotocol/chain/v3/pkg/filecache"
	oracletypes "github.com/bandprotocol/chain/v3/x/oracle/types"
	"github.com/bandprotocol/chain/v3/yoda"
	"github.com/bandprotocol/chain/v3/zzverif/engine"
	"github.com/bandprotocol/chain/v3/zzverif/gosched"
	"github.com/bandprotocol/chain/v3/zzverif/vsched"
)

const (
	rpcLatency  = time.Millisecond       // round trip of the daemon's two start-up calls (the chain does not stand still meanwhile)
	pollEvery   = 100 * time.Millisecond // --rpc-poll-interval
	commitAfter = 50 * time.Millisecond  // a broadcast transaction is found committed this long after the broadcast (i.e. by the daemon's first poll, 100 ms after it)
	bcastWait   = time.Second            // --broadcast-timeout
)

// nodeTx is one transaction the node accepted from the daemon.
type nodeTx struct {
	raw     cmttypes.Tx
	at      time.Duration // virtual time of the broadcast
	reports []*oracletypes.MsgReportData
	other   []string // anything in it that is not a MsgReportData inside a MsgExec
}

// node is the in-memory node of the run-loop scenarios.  Its chain is the worker's real application (queries are
// answered by it); which of the application's requests "exist yet" is the node's own timeline: a request exists from the
// moment the scenario commits its transaction.  Events are published to the subscriber that exists at that moment only
// (a node does not replay events to later subscribers); a request committed before the subscription is visible through the
// PendingRequests query only.
type node struct {
	fakeRPC
	committed     map[uint64]bool
	sub           chan ctypes.ResultEvent
	failPending   bool // scenario option: the start-up PendingRequests query may fail (one environment deviation)
	pendingFailed bool
	startupCalls  int // completed start-up calls of the daemon (Subscribe, PendingRequests query), in whatever order it makes them
	seq           uint64
	txs           []*nodeTx
}

func (n *node) Start() error { return nil }
func (n *node) Stop() error  { return nil }

func (n *node) Subscribe(_ context.Context, _ string, query string, capacity ...int) (<-chan ctypes.ResultEvent, error) {
	vsched.Sleep(rpcLatency)
	if query != yoda.VerifTxQuery {
		return nil, fmt.Errorf("node: unexpected subscription query %q", query)
	}
	k := 64
	if len(capacity) > 0 && capacity[0] < k {
		k = capacity[0]
	}
	n.sub = make(chan ctypes.ResultEvent, k)
	n.startupCalls++
	return n.sub, nil
}

// commit: a block with one transaction that created the given requests is committed.
func (n *node) commit(ids ...uint64) {
	for _, id := range ids {
		n.committed[id] = true
	}
	if n.sub != nil {
		vsched.Send(n.sub, ctypes.ResultEvent{Query: yoda.VerifTxQuery, Data: cmttypes.EventDataTx{TxResult: txEvent(n.r.c, ids...)}})
	}
}

const pendingPath = "/band.oracle.v1.Query/PendingRequests"

func (n *node) ABCIQuery(ctx context.Context, path string, data cmtbytes.HexBytes) (*ctypes.ResultABCIQuery, error) {
	if path != pendingPath {
		return n.fakeRPC.ABCIQuery(ctx, path, data)
	}
	vsched.Sleep(rpcLatency)
	if n.failPending && vsched.Env("rpc-pending", 2) == 1 {
		n.startupCalls++
		n.pendingFailed = true
		return nil, fmt.Errorf("injected rpc failure")
	}
	app := n.r.c.w.App
	res, err := app.Query(context.Background(), &abci.RequestQuery{Path: path, Data: data})
	if err != nil {
		return nil, err
	}
	if res.Code == 0 { // the real application's answer, restricted to the requests that exist on the node's timeline
		var all, out oracletypes.QueryPendingRequestsResponse
		app.AppCodec().MustUnmarshal(res.Value, &all)
		for _, id := range all.RequestIDs {
			if n.committed[id] {
				out.RequestIDs = append(out.RequestIDs, id)
			}
		}
		res.Value = app.AppCodec().MustMarshal(&out)
	}
	n.startupCalls++
	return &ctypes.ResultABCIQuery{Response: *res}, nil
}

// ABCIQueryWithOptions serves the account query of signAndBroadcast: the reporter account with the node's current sequence.
func (n *node) ABCIQueryWithOptions(_ context.Context, path string, data cmtbytes.HexBytes, _ rpcclient.ABCIQueryOptions) (*ctypes.ResultABCIQuery, error) {
	if path != "/cosmos.auth.v1beta1.Query/Account" {
		return nil, fmt.Errorf("node: unexpected query %s", path)
	}
	cdc := n.r.c.w.App.AppCodec()
	var req authtypes.QueryAccountRequest
	if err := cdc.Unmarshal(data, &req); err != nil {
		return nil, err
	}
	acc, err := codectypes.NewAnyWithValue(&authtypes.BaseAccount{Address: req.Address, AccountNumber: 7, Sequence: n.seq})
	if err != nil {
		return nil, err
	}
	bz, err := cdc.Marshal(&authtypes.QueryAccountResponse{Account: acc})
	if err != nil {
		return nil, err
	}
	return &ctypes.ResultABCIQuery{Response: abci.ResponseQuery{Value: bz, Height: 3}}, nil
}

func (n *node) BroadcastTxSync(_ context.Context, tx cmttypes.Tx) (*ctypes.ResultBroadcastTx, error) {
	decoded, err := n.r.c.w.App.GetTxConfig().TxDecoder()(tx)
	if err != nil {
		return nil, err
	}
	rec := &nodeTx{raw: tx, at: vsched.VirtualNow()}
	for _, m := range decoded.GetMsgs() {
		exec, ok := m.(*authz.MsgExec)
		if !ok {
			rec.other = append(rec.other, fmt.Sprintf("%T", m))
			continue
		}
		inner, err := exec.GetMessages()
		if err != nil {
			return nil, err
		}
		for _, im := range inner {
			if rep, ok := im.(*oracletypes.MsgReportData); ok {
				rec.reports = append(rec.reports, rep)
			} else {
				rec.other = append(rec.other, fmt.Sprintf("%T", im))
			}
		}
	}
	n.txs = append(n.txs, rec)
	n.seq++
	return &ctypes.ResultBroadcastTx{Code: 0, Hash: tx.Hash()}, nil
}

// Tx: a broadcast transaction is found (committed, code 0) from commitAfter after its broadcast on.
func (n *node) Tx(_ context.Context, hash []byte, _ bool) (*ctypes.ResultTx, error) {
	for _, t := range n.txs {
		if string(t.raw.Hash()) == string(hash) && vsched.VirtualNow() >= t.at+commitAfter {
			return &ctypes.ResultTx{Hash: hash, Height: 3, Tx: t.raw, TxResult: abci.ExecTxResult{Code: 0}}, nil
		}
	}
	return nil, fmt.Errorf("tx (%X) not found", hash)
}

func (n *node) Block(_ context.Context, height *int64) (*ctypes.ResultBlock, error) {
	return &ctypes.ResultBlock{Block: &cmttypes.Block{Header: cmttypes.Header{ChainID: engine.ChainID, Height: *height, Time: vsched.BaseTime}}}, nil
}

// chainStep: once the daemon has completed `afterCalls` of its two start-up calls and `delay` more has passed, a block
// with one transaction creating the requests `tx` ("G", or "D+G" = two requests created by one transaction) is committed.
type chainStep struct {
	afterCalls int
	delay      time.Duration
	tx         string
}

// scenarioRun: `before` are committed while the daemon is down; then the daemon (runImpl) starts and the chain goes
// through `steps`.
func scenarioRun(name string, before []string, steps []chainStep, maxTry, maxReport uint64) gosched.Scenario {
	names := append([]string{}, before...)
	for _, st := range steps {
		names = append(names, strings.Split(st.tx, "+")...)
	}
	return gosched.Scenario{Name: name, New: func(worker int) (func(), func(*vsched.Sched) (string, []engine.Violation)) {
		c := getChain(worker)
		r := &run{c: c, maxTry: maxTry, answers: map[string]execAnswer{}, exeHash: map[string]string{}, fetchErr: map[string]int{}, lastFail: map[string]bool{}}
		r.cacheDir = filepath.Join(os.Getenv("VERIF_BUILD"), "homes", fmt.Sprintf("h-%d-yoda-%d", os.Getpid(), atomic.AddInt64(&dirSeq, 1)))
		if os.Getenv("VERIF_BUILD") == "" {
			r.cacheDir = filepath.Join("/verif/build/homes", filepath.Base(r.cacheDir))
		}
		n := &node{fakeRPC: fakeRPC{r: r}, committed: map[uint64]bool{}, failPending: strings.Contains(name, "start-up query fails")}
		exited := ""
		ids := func(tx string) (out []uint64) {
			for _, nm := range strings.Split(tx, "+") {
				out = append(out, c.reqs[nm])
			}
			return
		}
		body := func() {
			yc := yoda.VerifNewContext(c.w.App, n, c.validator, fakeExec{r: r}, filecache.New(r.cacheDir), maxTry, pollEvery)
			yoda.VerifSetSubmission(yc, maxReport, bcastWait)
			l := yoda.VerifLogger()
			for _, b := range before {
				n.commit(c.reqs[b])
			}
			vsched.Go(func() { // the daemon
				vsched.SetDaemon() // its main loop never ends: parked in its select with nothing left to do is quiescence
				if e := yoda.VerifRunImpl(yc, l); e != "" {
					exited = e
				} else {
					exited = "runImpl returned"
				}
			})
			vsched.Go(func() { // the chain
				for _, st := range steps {
					st := st
					vsched.WaitFor(func() bool { return n.startupCalls >= st.afterCalls })
					if st.delay > 0 {
						vsched.Sleep(st.delay)
					}
					n.commit(ids(st.tx)...)
				}
			})
		}
		check := func(s *vsched.Sched) (string, []engine.Violation) {
			defer os.RemoveAll(r.cacheDir)
			var viol []engine.Violation
			add := func(fp, f string, a ...any) {
				viol = append(viol, engine.Violation{Fingerprint: fp, Detail: fmt.Sprintf(f, a...)})
			}
			if len(s.Panics) > 0 || s.Deadlock || s.Livelock {
				return "aborted", nil // reported by the explorer itself
			}
			if n.pendingFailed && exited != "" && exited != "runImpl returned" {
				// the daemon could not learn which requests were pending and stopped with an error (its supervisor restarts it):
				// nothing was dropped by a running daemon; a crash instead is reported by the explorer as daemon-panic
				return "start-up-query-failed:daemon-exited-with-error", nil
			}
			if exited != "" {
				add("daemon-run-loop-exited", "%s", exited)
			}
			var all []*oracletypes.MsgReportData
			var shape []string
			for i, t := range n.txs {
				if uint64(len(t.reports)) > maxReport {
					add("transaction-exceeds-max-report", "transaction %d carries %d reports, max-report is %d", i+1, len(t.reports), maxReport)
				}
				if len(t.other) > 0 {
					add("report-transaction-carries-other-messages", "transaction %d: %v", i+1, t.other)
				}
				var in []string
				for _, m := range t.reports {
					all = append(all, m)
					in = append(in, fmt.Sprint(uint64(m.RequestID)))
				}
				shape = append(shape, "["+strings.Join(in, ",")+"]")
			}
			sig := judgeReports(r, names, all, fmt.Sprintf("reports in the %d broadcast transactions %s", len(n.txs), strings.Join(shape, "")), add)
			sort.Strings(sig)
			// outcome: per-request exit codes + how the reports were spread over transactions (sizes only, so that it does not
			// depend on which request came first)
			var sizes []string
			for _, t := range n.txs {
				sizes = append(sizes, fmt.Sprint(len(t.reports)))
			}
			return strings.Join(sig, " ") + " txs=" + strings.Join(sizes, "+"), viol
		}
		return body, check
	}}
}

// runPre is the preemption bound of the start-up scenario; the batching scenario (fewer free choices) gets one more.
func runPre(quick bool) int {
	if quick {
		return 1
	}
	return 2
}

// runLoopScenarios: the scenarios, with their bounds, that exercise runImpl/SubmitReport.
func runLoopScenarios(quick bool, deadline time.Time) (scs []gosched.Scenario, bounds []gosched.Bounds) {
	pre := runPre(quick)
	capN := int64(3000)
	if !quick {
		capN = 50000
	}
	// start-up: G is committed between the daemon's two start-up calls (whatever their order: after the first, before the
	// second), H after both (400 ms later, when G has been dealt with)
	scs = append(scs, scenarioRun("run-loop: requests committed during and after start-up", nil,
		[]chainStep{{1, 0, "G"}, {2, 400 * time.Millisecond, "H"}}, 3, 2))
	bounds = append(bounds, gosched.Bounds{Preemptions: pre, Faults: 0, Deadline: deadline})
	// the same with D committed while the daemon was down: D and G are handled concurrently at start-up, whose
	// non-preemptive schedules alone number > 30000; the first 3000 (quick) / 50000 (thorough) in depth-first order are run
	scs = append(scs, scenarioRun("run-loop: requests committed before, during and after start-up", []string{"D"},
		[]chainStep{{1, 0, "G"}, {2, 400 * time.Millisecond, "H"}}, 3, 2))
	bounds = append(bounds, gosched.Bounds{Preemptions: 0, Faults: 0, Deadline: deadline, MaxExecutions: capN})
	// batching: one key, max-report 2; the first report's transaction is in flight (found committed by the first poll, 100 ms after the broadcast)
	// while three more requests arrive in successive blocks 10 ms apart
	scs = append(scs, scenarioRun("run-loop: four requests in successive blocks, one key, max-report=2", nil,
		[]chainStep{{2, 0, "D"}, {2, 10 * time.Millisecond, "G"}, {2, 10 * time.Millisecond, "H"}, {2, 10 * time.Millisecond, "I"}}, 3, 2))
	bounds = append(bounds, gosched.Bounds{Preemptions: pre + 1, Faults: 0, Deadline: deadline})
	// the same four requests created by one transaction (one event, four handleRequest goroutines at once)
	scs = append(scs, scenarioRun("run-loop: four requests in one transaction, one key, max-report=2", nil,
		[]chainStep{{2, 0, "D+G+H+I"}}, 3, 2))
	bounds = append(bounds, gosched.Bounds{Preemptions: 0, Faults: 0, Deadline: deadline, MaxExecutions: capN})
	// the PendingRequests query of the start-up fails (one environment deviation): the daemon must not crash; it may stop
	// with an error, or carry on only if it still handles the request that was committed while it was down
	scs = append(scs, scenarioRun("run-loop: start-up query fails", []string{"D"}, nil, 3, 2))
	bounds = append(bounds, gosched.Bounds{Preemptions: 0, Faults: 1, Deadline: deadline, MaxExecutions: capN})
	return
}
