// Package c20 checks property C20: grogu submits feed prices when due and only when the chain
// accepts them, and never has a signal in two concurrent submissions / always releases it.
//
// Part (a) (parta.go) is an explicit-state search of the closed timing loop between the real
// Signaller (virtual clock) and the real feeds module; part (b) (partb.go) explores the goroutine
// interleavings and failure placements of the real Signaller/Submitter bookkeeping under the
// controlled scheduler (gosched engine).
package c20

import (
	"encoding/json"
	"fmt"
	"os"
	"sort"
	"strconv"
	"strings"
	"time"

	"github.com/bandprotocol/chain/v3/zzverif/engine"
	"github.com/bandprotocol/chain/v3/zzverif/gosched"
)

func baseCfg(name string) *CfgA {
	return &CfgA{Name: name, Val: 0, Vote: []sigSpec{{"A", 2}}, UpdateEvery: 1000000, Cooldown: 30, MinInterval: 60, MaxInterval: 120,
		Grace: 30, DevBP: 50, Period: 3, Phase: 0, Lag: 2, Lat: []int{0, 2}, Menu: []string{"A", "Ahi-1", "Ahi", "UNAV", "UNSUP", "MISS"}, MaxMiss: 2, Horizon: 130}
}

func configsA(quick bool) []*CfgA {
	var out []*CfgA
	add := func(name string, f func(c *CfgA)) {
		c := baseCfg(name)
		f(c)
		out = append(out, c)
	}
	// one signal, interval 60, cooldown 30: 3 s blocks whose header lags the daemon clock by 2 s
	add("i60-cd30-p3-lag2", func(c *CfgA) {})
	// one signal, interval 60, cooldown 10, 1 s blocks, no lag, poll before the block of the same second, other validator
	add("i60-cd10-p1-lag0-pollfirst", func(c *CfgA) {
		c.Val, c.Cooldown, c.Period, c.Lag, c.PollFirst = 1, 10, 1, 0, true
		c.Lat = []int{0, 3}
		c.Menu = []string{"A", "Ahi", "Adn", "UNAV"}
		c.Horizon = 100
	})
	// interval 120 (vote power 1), header lag at the full buffer (3 s), third validator
	add("i120-cd30-p3-lag3", func(c *CfgA) {
		c.Val, c.Vote, c.Lag, c.Phase, c.PollFirst = 2, []sigSpec{{"A", 1}}, 3, 1, true
		c.Lat = []int{0, 1}
		c.Menu = []string{"A", "Ahi", "UNAV"}
		c.Horizon = 220
	})
	// two signals with different intervals
	add("two-signals-i60-i120", func(c *CfgA) {
		c.Vote = []sigSpec{{"A", 2}, {"B", 1}}
		c.Lat = []int{2}
		c.Menu = []string{"A", "Ahi", "MISS"}
		c.Menu2 = []string{"A", "UNAV", "MISS"} // every subset of the requested ids gets an entry: both, either one, none
		c.Horizon = 80
	})
	// feed-list change: A's interval shrinks from 120 to 60 and B enters at the update block of tick 48
	add("revote-shrink-and-enter", func(c *CfgA) {
		c.Vote = []sigSpec{{"A", 1}}
		c.Revote, c.RevoteTick = []sigSpec{{"A", 2}, {"B", 1}}, 30
		c.UpdateEvery = 20
		c.Menu = []string{"A", "Ahi"}
		c.Menu2 = []string{"A"}
		c.Horizon = 125
	})
	// a deviation value that is not a "round" number of basis points (the chain assigns 58 bp at power factor 51
	// under its default parameters): moves of exactly 58 bp, one unit less
	add("dev58-i60-cd30-p3-lag2", func(c *CfgA) {
		c.DevBP = 58
		c.Val = 1
		c.Lat = []int{1}
		c.Menu = []string{"A", "Ahi-1", "Ahi", "Adn"}
		c.Horizon = 90
	})
	// feed-list change late in a cycle: A's interval shrinks from 120 to 60 at the update block of tick 108, after the
	// daemon has polled many times since its last submission (whatever it remembers about that submission is in play)
	add("revote-shrink-late", func(c *CfgA) {
		c.Vote = []sigSpec{{"A", 1}}
		c.Revote, c.RevoteTick = []sigSpec{{"A", 2}}, 90
		c.UpdateEvery = 20
		c.Menu = []string{"A", "Ahi"}
		c.Horizon = 175
	})
	// feed-list change: B leaves the list (a submission carrying B may be in flight)
	add("revote-leave", func(c *CfgA) {
		c.Vote = []sigSpec{{"A", 2}, {"B", 2}}
		c.Revote, c.RevoteTick = []sigSpec{{"A", 2}}, 36
		c.UpdateEvery = 20
		c.Cooldown = 10
		c.Lat = []int{0, 4}
		c.Menu = []string{"A", "Ahi"}
		c.Menu2 = []string{"A", "Ahi"}
		c.Horizon = 70
	})
	if quick {
		checkSlack(out)
		return out
	}
	defer func() { checkSlack(out) }()
	// thorough: full menus, more lags / latencies / phases, longer horizons
	full := []string{"A", "Ahi-1", "Ahi", "Adn", "Adn+1", "UNAV", "UNSUP", "MISS"}
	small := []string{"A", "Ahi-1", "Ahi", "UNAV", "MISS"}
	type tc struct {
		cd       int64
		per, lag int
		lat      []int
		menu     []string
		h        int
	}
	for i, t := range []tc{
		{10, 1, 0, []int{0, 1, 2, 4}, full, 150},
		{30, 1, 3, []int{0, 1, 2, 4}, full, 150},
		{10, 1, -2, []int{0, 2, 4}, small, 150},
		{30, 2, 1, []int{0, 1, 2, 4}, full, 190},
		{10, 2, 3, []int{0, 2, 4}, full, 150},
		{30, 3, 0, []int{0, 1, 2, 4}, full, 190},
		{10, 3, 3, []int{0, 2, 4}, full, 150},
		{30, 3, -2, []int{0, 1, 3}, full, 190}, // keeps missing + latency + period - lag within the 10 s left for UNAVAILABLE answers
	} {
		t, i := t, i
		add(fmt.Sprintf("T-i60-cd%d-p%d-lag%d", t.cd, t.per, t.lag), func(c *CfgA) {
			c.Val = i % 3
			c.Cooldown, c.Period, c.Lag = t.cd, t.per, t.lag
			c.Phase = i % t.per
			c.PollFirst = i%2 == 1
			c.Lat = t.lat
			c.Menu = t.menu
			c.Horizon = t.h
		})
	}
	add("T-dev3000-i60-cd30-p3-lag2", func(c *CfgA) {
		c.DevBP = 3000
		c.Val = 1
		c.Lat = []int{0, 2, 4}
		c.Menu = full
		c.Horizon = 190
	})
	add("T-i120-cd30-p3-lag2-full", func(c *CfgA) {
		c.Val, c.Vote = 1, []sigSpec{{"A", 1}}
		c.Lat = []int{0, 2, 4}
		c.Menu = full
		c.Horizon = 370
	})
	add("T-two-signals-p3", func(c *CfgA) {
		c.Vote = []sigSpec{{"A", 2}, {"B", 1}}
		c.Lat = []int{0, 3}
		c.Menu = []string{"A", "Ahi", "UNAV"}
		c.Menu2 = []string{"A", "Ahi"}
		c.Horizon = 130
	})
	return out
}

// checkSlack: the environment alphabets must stay within the slack the statement assumes ("polling
// period and broadcast latency smaller than the remaining slack"): an UNAVAILABLE answer is handed off
// at most 10 s - 1 s poll before the deadline, so unanswered polls + latency + wait for the next block
// + clock offset must fit into that.
func checkSlack(cfgs []*CfgA) {
	for _, c := range cfgs {
		maxLat := 0
		for _, d := range c.Lat {
			if d > maxLat {
				maxLat = d
			}
		}
		if c.MaxMiss+maxLat+c.Period-c.Lag > 10 {
			panic(fmt.Sprintf("c20: configuration %s leaves no slack (%d missing + %d s latency + %d s period - (%d) lag > 10)", c.Name, c.MaxMiss, maxLat, c.Period, c.Lag))
		}
	}
}

func scenariosB(quick bool) ([]ScB, []gosched.Bounds) {
	one2 := ScB{Name: "one-submission-two-signals-1-client", Clients: 1, Polls: []string{"S1+S2"}, MaxTry: 2, Timeout: 2 * time.Second}
	two := ScB{Name: "one-submission-2-clients", Clients: 2, Polls: []string{"S1"}, MaxTry: 2, Timeout: 2 * time.Second}
	b2b := ScB{Name: "three-polls-back-to-back(S1,S2,S1)", Clients: 1, Polls: []string{"S1", "S2", "S1"}, MaxTry: 1, Timeout: 2 * time.Second}
	apart := ScB{Name: "three-polls-1s-apart(S1,S2,S1)", Clients: 1, Polls: []string{"S1", "S2", "S1"}, Sleep: true, MaxTry: 1, Timeout: 2 * time.Second}
	var scs []ScB
	var bs []gosched.Bounds
	add := func(sc ScB, pre, faults int) {
		sc.Name = fmt.Sprintf("%s[p%d,f%d]", sc.Name, pre, faults)
		scs = append(scs, sc)
		bs = append(bs, gosched.Bounds{Preemptions: pre, Faults: faults})
	}
	conc := ScB{Name: "two-polls-back-to-back(S1,S2)", Clients: 1, Polls: []string{"S1", "S2"}, MaxTry: 1, Timeout: 2 * time.Second}
	same := ScB{Name: "two-polls-1s-apart(S1,S1)", Clients: 1, Polls: []string{"S1", "S1"}, Sleep: true, MaxTry: 1, Timeout: 2 * time.Second}
	sameB2B := ScB{Name: "two-polls-back-to-back(S1,S1)", Clients: 1, Polls: []string{"S1", "S1"}, MaxTry: 1, Timeout: 2 * time.Second}
	// shipped submitter configuration (broadcast timeout 1m, max-try 5, tx lookups every second): a tx that is
	// never found keeps its submission in flight for minutes while the signaller goes on polling
	slow := ScB{Name: "shipped-timeouts-polls-at-0s,60s,95s,130s(S1)", Clients: 1, Polls: []string{"S1", "S1", "S1", "S1"},
		Gaps: []time.Duration{60 * time.Second, 35 * time.Second, 35 * time.Second}, MaxTry: 5, Timeout: time.Minute}
	// batch size: one submission of n prices (daemon start / large feed-list change; MaxCurrentFeeds and the
	// submit channel allow 300); default schedule plus every single environment fault
	for _, n := range []int{1, 2, 99, 100, 101, 150, 300} {
		add(ScB{Name: fmt.Sprintf("one-submission-of-%d-signals", n), Clients: 1, Polls: []string{fmt.Sprintf("N:%d", n)}, MaxTry: 2, Timeout: 2 * time.Second}, 0, 1)
	}
	if quick {
		add(slow, 1, 1)
		add(one2, 2, 2)
		add(two, 1, 1)
		add(two, 0, 2)
		add(conc, 1, 1)
		add(same, 2, 2)
		add(sameB2B, 2, 2)
		add(b2b, 0, 1)
		add(apart, 1, 2)
		return scs, bs
	}
	add(slow, 2, 1)
	add(slow, 1, 2)
	add(one2, 3, 3)
	add(conc, 1, 2)
	add(conc, 2, 0)
	add(b2b, 1, 1)
	add(b2b, 2, 0)
	add(two, 1, 2)
	add(two, 2, 1)
	add(same, 3, 3)
	add(sameB2B, 3, 3)
	add(apart, 2, 2)
	add(ScB{Name: "four-polls-two-keys-busy(S1,S2,S1,S2)", Clients: 1, Polls: []string{"S1", "S2", "S1", "S2"}, MaxTry: 2, Timeout: 2 * time.Second}, 0, 1)
	add(ScB{Name: "four-polls-two-keys-busy(S1,S2,S1,S2)", Clients: 1, Polls: []string{"S1", "S2", "S1", "S2"}, MaxTry: 2, Timeout: 2 * time.Second}, 1, 0)
	return scs, bs
}

var requiredA = []string{
	"a:deliver:accepted", "a:submit:first-price", "a:submit:slot-reached", "a:submit:deviation", "a:submit:deviation-exactly-at-threshold",
	"a:submit:status-change", "a:submit:unavailable-close-to-deadline", "a:hold:cooldown-not-elapsed", "a:hold:unavailable-not-urgent",
	"a:hold:below-deviation-threshold", "a:hold:in-flight", "a:block:feed-list-changed", "a:poll:second-submission-while-one-in-flight",
	"a:deliver:rejected-feed-left-the-list-in-flight",
}

var requiredB = []string{
	"b:all-succeeded", "b:some-submission-failed-for-good", "b:two-submissions-concurrently", "b:poll-skipped-in-flight-signal", "b:retried",
	"b:tx-never-found", "b:poll-skipped-signal-in-flight-for-over-90s", "b:tx-out-of-gas", "b:broadcast-out-of-gas", "b:broadcast-error", "b:sim-error", "b:account-error", "b:key-error",
}

// workersFor: number of explorer workers (overridable through the named environment variable).
func workersFor(env string, def int) int {
	if v, err := strconv.Atoi(os.Getenv(env)); err == nil && v > 0 {
		return v
	}
	if n := engine.DefaultWorkers(); n < def {
		return n
	}
	return def
}

func execA(r *engine.Run, quick bool, deadline time.Time) {
	cfgs := configsA(quick)
	if only := os.Getenv("VERIF_C20_ONLY"); only != "" {
		var sel []*CfgA
		for _, c := range cfgs {
			if strings.Contains(c.Name, only) {
				sel = append(sel, c)
			}
		}
		cfgs = sel
	}
	if len(cfgs) == 0 {
		return
	}
	t0 := time.Now()
	res := searchA(cfgs, deadline, workersFor("VERIF_C20_WORKERS_A", 16))
	offsets := map[string]bool{}
	for ci, c := range cfgs {
		x := res[ci]
		r.States += x.States
		r.Distinct += x.States
		for k, v := range x.Outcomes {
			if strings.HasPrefix(k, "slot-offset:") {
				offsets[k] = true
			}
			r.Outcomes["a:"+k] += v
		}
		if !x.Exhaustive {
			r.Exhaustive = false
			r.CapReasons = append(r.CapReasons, "a/"+c.Name+": time or violation cap at tick "+fmt.Sprint(x.MaxLevel))
		}
		r.Violations = append(r.Violations, x.Violations...)
		r.Configs = append(r.Configs, map[string]any{"part": "a", "name": c.Name, "config": c, "states": x.States, "dedup_hits": x.Dedup,
			"ticks": x.MaxLevel, "max_states_per_level": x.PerLevelMax, "exhaustive": x.Exhaustive})
		fmt.Printf("[C20a] %s: states=%d dedup=%d ticks=%d max-per-level=%d violations=%d exhaustive=%v\n", c.Name, x.States, x.Dedup, x.MaxLevel, x.PerLevelMax, len(x.Violations), x.Exhaustive)
		for i, wp := range x.Witness {
			if i == 0 && len(r.Samples) < 12 {
				r.Samples = append(r.Samples, map[string]any{"part": "a", "config": c.Name, "path": compress(wp)})
			}
		}
	}
	polls, blocks, self := res[0].PollRuns, res[0].BlockRuns, res[0].SelfChecks
	r.Transitions += int(polls + blocks)
	r.Traces += int(polls + blocks)
	r.Evaluations += int(polls + blocks)
	r.Outcomes["a:slot-offsets-observed"] = len(offsets)
	fmt.Printf("[C20a] search: daemon polls=%d block steps=%d overlay self-checks=%d distinct slot offsets=%d (%.1fs)\n", polls, blocks, self, len(offsets), time.Since(t0).Seconds())

	// every distinct violation must reproduce on a linear re-execution without overlays (twice)
	seen := map[string]bool{}
	for _, v := range r.Violations {
		c, ok := v.Config.(*CfgA)
		if !ok || seen[v.Fingerprint] || len(seen) >= 6 {
			continue
		}
		seen[v.Fingerprint] = true
		for k := 0; k < 2; k++ {
			last, _, _ := replayA(c, v.Path)
			found := false
			for _, lv := range last {
				if lv.fp == v.Fingerprint {
					found = true
				}
			}
			if !found {
				engine.Fatal3("HARNESS-NONDETERMINISM: C20a violation %q of %s did not reproduce on linear replay %d (path %v)", v.Fingerprint, c.Name, k+1, v.Path)
			}
		}
	}
	// witness paths: the linear re-execution must arrive at the same state as the overlay search
	nw := 0
	for ci, c := range cfgs {
		for i, wp := range res[ci].Witness {
			if !quick || i == 0 {
				_, _, key := replayA(c, wp)
				nw++
				if key != res[ci].FinalKeys[i] {
					engine.Fatal3("C20a: linear replay of a witness path of %s ends in state %s, the search recorded %s", c.Name, key, res[ci].FinalKeys[i])
				}
			}
		}
	}
	r.Notes = append(r.Notes, fmt.Sprintf("part a: %d daemon polls, %d block steps, %d overlay self-checks against all stores, %d witness paths re-executed linearly to the same final state", polls, blocks, self, nw))
}

// compress shortens a path for the evidence file: runs of identical poll choices are folded.
func compress(p []string) []string {
	var out []string
	for _, ev := range p {
		if strings.HasSuffix(ev, ":block") {
			continue
		}
		out = append(out, ev)
	}
	if len(out) > 40 {
		out = append(out[:40], fmt.Sprintf("... (%d more polls)", len(out)-40))
	}
	return out
}

func execB(r *engine.Run, quick bool, deadline time.Time) {
	scs, bounds := scenariosB(quick)
	only := os.Getenv("VERIF_C20_ONLY")
	getEnvB()
	for i, sc := range scs {
		if only != "" && !strings.Contains(sc.Name, only) {
			continue
		}
		b := bounds[i]
		b.Deadline = deadline
		b.Workers = workersFor("VERIF_C20_WORKERS_B", 16)
		t0 := time.Now()
		st := gosched.Explore(scenarioB(sc), b)
		r.States += int(st.Executions)
		r.Transitions += int(st.Points)
		r.Traces += int(st.Executions)
		r.Evaluations += int(st.Executions)
		r.Distinct += len(st.Outcomes)
		for k, v := range st.Outcomes {
			for _, tok := range strings.Fields(k) {
				r.Outcomes["b:"+tok] += v
			}
		}
		if !st.Exhaustive {
			r.Exhaustive = false
			r.CapReasons = append(r.CapReasons, "b/"+sc.Name+": cap")
		}
		if len(st.Samples) > 0 {
			r.Samples = append(r.Samples, map[string]any{"part": "b", "scenario": sc.Name, "choices": st.Samples[len(st.Samples)-1]})
		}
		r.Violations = append(r.Violations, st.Violations...)
		r.Configs = append(r.Configs, map[string]any{"part": "b", "scenario": sc, "executions": st.Executions, "choice_points": st.Points, "max_points": st.MaxPoints,
			"distinct_outcomes": len(st.Outcomes), "preemptions": b.Preemptions, "faults": b.Faults, "exhaustive": st.Exhaustive})
		fmt.Printf("[C20b] %s: executions=%d choice-points=%d max-points=%d distinct-outcomes=%d violations=%d exhaustive=%v preemptions<=%d faults<=%d (%.1fs)\n",
			sc.Name, st.Executions, st.Points, st.MaxPoints, len(st.Outcomes), len(st.Violations), st.Exhaustive, b.Preemptions, b.Faults, time.Since(t0).Seconds())
	}
}

func init() {
	engine.Register(&engine.Check{
		ID: "C20",
		Run: func(r *engine.Run) {
			quick := r.Quick()
			r.Notes = append(r.Notes, "shipped timing configuration: "+loadShipped())
			part := os.Getenv("VERIF_C20_PART") // "", "a" or "b" (development)
			cfgs := configsA(quick)
			var names []string
			for _, c := range cfgs {
				names = append(names, fmt.Sprintf("%s{val %d, vote %v, revote %v@%d, cooldown %d, block period %d s phase %d, header lag %d s, poll-first %v, latency %v s, menu %v/%v, %d ticks}",
					c.Name, c.Val, c.Vote, c.Revote, c.RevoteTick, c.Cooldown, c.Period, c.Phase, c.Lag, c.PollFirst, c.Lat, c.Menu, c.Menu2, c.Horizon))
			}
			scs, bounds := scenariosB(quick)
			var bn []string
			for i, s := range scs {
				bn = append(bn, fmt.Sprintf("%s{clients %d, polls %v, sleep %v gaps %v, maxTry %d, timeout %v; preemptions<=%d, faults<=%d}", s.Name, s.Clients, s.Polls, s.Sleep, s.Gaps, s.MaxTry, s.Timeout, bounds[i].Preemptions, bounds[i].Faults))
			}
			r.Bound = "(a) per configuration, every sequence over the horizon (1 tick = 1 s of the daemon clock, polls every second as shipped, start 50 % / offset 30 %) of price-service answers (one menu entry per requested signal per poll: " +
				"A base price, Ahi exactly the deviation above, Ahi-1, Adn at least the deviation below Ahi, Adn+1, UNAV, UNSUP, MISS absent) x delivery latency per emitted submission; blocks every `period` seconds with header time = execution time - lag; configurations: " +
				strings.Join(names, "; ") + ".  (b) per scenario, every goroutine interleaving within the preemption bound x every placement of environment deviations within the fault bound " +
				"(simulation error; broadcast error / code 5 / out of gas; account query error; key lookup error; tx lookup: failed code / out of gas / found one poll late / never found -> timeout in virtual time; bothan info disabled / error; push error): " + strings.Join(bn, "; ")
			r.Assumptions = []string{
				"(a) whole seconds; the daemon polls every second; a submission handed off at daemon time t with latency d is executed by the first block executed at or after t+d; the harness plays the submitter (message timestamp = hand-off time, signals released when the block that carried them was executed, also when rejected)",
				"(a) block header time lags the daemon's clock by a constant 0..3 s (at most the daemon's 3 s buffer; -2 = daemon clock behind) and blocks are 1..3 s apart; delivery latency <= 4 s (statement: polling period and broadcast latency smaller than the remaining slack)",
				"(a) the daemon's three state queries are answered by the chain's real query server on the state after the last executed block; they are issued one after the other (the shipped code issues them concurrently; they write three different fields)",
				"(a) UNAVAILABLE answers are judged against the re-submission deadline only (the daemon deliberately holds them back until 10 s before the deadline); promptness is judged on the daemon's clock: a changed status / deviation >= threshold must be part of the submission of the first poll at which cooldown + 3 s have elapsed since the on-chain timestamp",
				"(a) a submission rejected because one of its signals left the current feed list between decision and delivery is recorded, not judged (the decision was made on a list that was current)",
				"(b) scheduling points are goroutine creation, channel operations, sleeps and sync.Map operations of the instrumented signaller.go / submitter.go; tx building and signing are the real SDK code; RPC, account / tx queries and the price service are in-process fakes",
				"(b) Go's map iteration order is not controlled in this binary: scenarios with more than one poll give the daemon a single current feed per poll (two-signal submissions are explored in the one-poll scenario, where the order cannot influence control flow)",
			}
			switch part {
			case "a":
				r.Required = requiredA
			case "b":
				r.Required = requiredB
			case "c":
				r.Required = nil
			default:
				r.Required = append(append([]string{}, requiredA...), requiredB...)
			}
			if os.Getenv("VERIF_C20_ONLY") != "" {
				r.Required = nil
			}
			dlA := r.Deadline(6*time.Minute, 25*time.Minute)
			dlB := r.Deadline(12*time.Minute, 55*time.Minute)
			if part == "" || part == "c" {
				execC(r, quick)
			}
			if part != "b" && part != "c" {
				execA(r, quick, dlA)
			}
			if part != "a" && part != "c" {
				execB(r, quick, dlB)
			}
			r.Rule = "part a: a case is one daemon poll or one block step executed on the real code from a distinct state (feeds+oracle store content, in-flight submissions); distinct_nontrivial counts distinct states; part b: a case is one complete controlled execution, distinct outcomes are added; part c: a case is one evaluation of the daemon's deviation predicate against the exact integer reference"
			keys := make([]string, 0, len(r.Outcomes))
			for k := range r.Outcomes {
				keys = append(keys, k)
			}
			sort.Strings(keys)
		},
		Replay: func(raw json.RawMessage, path []string) (engine.StepResult, []string) {
			var c CfgA
			if err := json.Unmarshal(raw, &c); err != nil || c.Name == "" || c.Horizon == 0 {
				return engine.StepResult{}, []string{"gosched counterexample (part b): the config names the scenario, the path is the choice list; re-run `bin/check C20 quick`"}
			}
			last, outs, _ := replayA(&c, path)
			var st engine.StepResult
			for _, v := range last {
				st.Violations = append(st.Violations, engine.Violation{Fingerprint: v.fp, Detail: v.detail})
			}
			return st, outs
		},
	})
}
