package c20

import (
	"fmt"
	"reflect"
	"strings"
	"unsafe"

	"github.com/bandprotocol/chain/v3/grogu/signaller"
)

// The daemon object lives across polls, so whatever it remembers between polls is part of a state
// of the part (a) search.  In the tree this check was written against it remembers nothing that is
// not re-fetched at the start of every poll (params, feed map, validator-price map) or owned by the
// harness (querier, price service, channel, pending map); any OTHER field of the struct is treated
// as daemon memory: it is deep-copied from the parent state for every explored poll and its content
// is part of the state key.  Done by reflection so that fields the harness has never heard of are
// covered.

var refreshedOrBound = map[string]bool{
	"feedQuerier": true, "bothanClient": true, "interval": true, "submitCh": true, "logger": true, "valAddress": true,
	"pendingSignalIDs": true, "distributionStartPercentage": true, "distributionOffsetPercentage": true,
	"signalIDToFeed": true, "signalIDToValidatorPrice": true, "params": true,
}

func launder(f reflect.Value) reflect.Value {
	return reflect.NewAt(f.Type(), unsafe.Pointer(f.UnsafeAddr())).Elem()
}

// deepen replaces, inside the addressable value v (a shallow copy), every map / slice reachable
// through structs, arrays, maps and slices by a private copy.  Pointers, interfaces, channels and
// functions stay shared.
func deepen(v reflect.Value) {
	switch v.Kind() {
	case reflect.Map:
		if v.IsNil() {
			return
		}
		nm := reflect.MakeMapWithSize(v.Type(), v.Len())
		it := v.MapRange()
		for it.Next() {
			ne := reflect.New(v.Type().Elem()).Elem()
			ne.Set(it.Value())
			deepen(ne)
			nm.SetMapIndex(it.Key(), ne)
		}
		v.Set(nm)
	case reflect.Slice:
		if v.IsNil() {
			return
		}
		ns := reflect.MakeSlice(v.Type(), v.Len(), v.Len())
		reflect.Copy(ns, v)
		for i := 0; i < ns.Len(); i++ {
			deepen(ns.Index(i))
		}
		v.Set(ns)
	case reflect.Struct:
		for i := 0; i < v.NumField(); i++ {
			deepen(launder(v.Field(i)))
		}
	case reflect.Array:
		for i := 0; i < v.Len(); i++ {
			deepen(v.Index(i))
		}
	}
}

// cloneDaemon returns a private copy of d.
func cloneDaemon(d *signaller.Signaller) *signaller.Signaller {
	n := new(signaller.Signaller)
	nv := reflect.ValueOf(n).Elem()
	nv.Set(reflect.ValueOf(d).Elem())
	deepen(nv)
	return n
}

// daemonMemoryKey is the canonical content of every field that is neither re-fetched per poll nor
// bound by the harness ("" in the tree the check was written against).
func daemonMemoryKey(d *signaller.Signaller) string {
	if d == nil {
		return ""
	}
	v := reflect.ValueOf(d).Elem()
	var sb strings.Builder
	for i := 0; i < v.NumField(); i++ {
		name := v.Type().Field(i).Name
		if refreshedOrBound[name] {
			continue
		}
		f := launder(v.Field(i))
		if f.IsZero() || ((f.Kind() == reflect.Map || f.Kind() == reflect.Slice) && f.Len() == 0) {
			continue
		}
		fmt.Fprintf(&sb, "%s=%v;", name, f) // fmt prints maps in key order
	}
	return sb.String()
}
